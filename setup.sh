#!/bin/sh
# Offline setup after a fresh restore: regenerate Gen from /repo, generate Lean roots, build driver + all proofs.
set -e
cd "$(dirname "$0")"
/venv/bin/python tools/gen_lean_roots.py
/venv/bin/python -m extract.run 2>&1 | grep -v "WARNING conda" || true
cd lean
lake build driver VgiVerif 2>&1 | grep -v "WARNING conda" | tail -15
test -x .lake/build/bin/driver
