import VgiVerif.Prelude.Regex
import VgiVerif.Lemmas.Regex
