import VgiVerif.Prelude.UrlPy
import VgiVerif.Lemmas.PyStr
/-
Lemmas about `Url.pySplit` (Prelude/UrlPy.lean) and a few list facts about `takeWhile` / `dropWhile` used by the URL proofs.
-/
set_option linter.unusedSimpArgs false
namespace VgiVerif.UrlPy
open VgiVerif.PyStr

/-! ## lists -/

theorem takeWhile_append_stop {α} (p : α → Bool) (a : List α) (c : α) (r : List α)
    (ha : ∀ x ∈ a, p x = true) (hc : p c = false) : (a ++ c :: r).takeWhile p = a := by
  induction a with
  | nil => simp [List.takeWhile, hc]
  | cons x xs ih =>
    have hx : p x = true := ha x (by simp)
    simp [List.takeWhile, hx, ih (fun y hy => ha y (by simp [hy]))]

theorem dropWhile_append_stop {α} (p : α → Bool) (a : List α) (c : α) (r : List α)
    (ha : ∀ x ∈ a, p x = true) (hc : p c = false) : (a ++ c :: r).dropWhile p = c :: r := by
  induction a with
  | nil => simp [List.dropWhile, hc]
  | cons x xs ih =>
    have hx : p x = true := ha x (by simp)
    simp [List.dropWhile, hx, ih (fun y hy => ha y (by simp [hy]))]

theorem takeWhile_all {α} (p : α → Bool) (a : List α) (ha : ∀ x ∈ a, p x = true) : a.takeWhile p = a := by
  induction a with
  | nil => rfl
  | cons x xs ih =>
    have hx : p x = true := ha x (by simp)
    simp [List.takeWhile, hx, ih (fun y hy => ha y (by simp [hy]))]

theorem dropWhile_all {α} (p : α → Bool) (a : List α) (ha : ∀ x ∈ a, p x = true) : a.dropWhile p = [] := by
  induction a with
  | nil => rfl
  | cons x xs ih =>
    have hx : p x = true := ha x (by simp)
    simp [List.dropWhile, hx, ih (fun y hy => ha y (by simp [hy]))]

theorem dropWhile_none {α} (p : α → Bool) (a : List α) (ha : ∀ x ∈ a, p x = false) : a.dropWhile p = a := by
  cases a with
  | nil => rfl
  | cons x xs => simp [List.dropWhile, ha x (by simp)]

theorem mem_takeWhile {α} (p : α → Bool) (l : List α) : ∀ x ∈ l.takeWhile p, p x = true := by
  induction l with
  | nil => simp
  | cons y ys ih =>
    intro x hx
    simp only [List.takeWhile] at hx
    split at hx
    · simp at hx
      rcases hx with rfl | hx
      · assumption
      · exact ih x hx
    · simp at hx

theorem dropWhile_head {α} (p : α → Bool) (l : List α) (x : α) (r : List α) (h : l.dropWhile p = x :: r) :
    p x = false := by
  induction l with
  | nil => simp at h
  | cons y ys ih =>
    simp only [List.dropWhile] at h
    split at h
    · exact ih h
    · rename_i hy
      simp at h
      rw [← h.1]
      simpa using hy

theorem mem_of_mem_takeWhile {α} (p : α → Bool) (l : List α) (x : α) (h : x ∈ l.takeWhile p) : x ∈ l :=
  (List.takeWhile_sublist p).subset h

theorem mem_of_mem_dropWhile {α} (p : α → Bool) (l : List α) (x : α) (h : x ∈ l.dropWhile p) : x ∈ l :=
  (List.dropWhile_sublist p).subset h

/-! ## characters -/

/-- free of C0 controls, space and backslash (what a fix makes the validators insist on, plus possibly non-ASCII) -/
def Clean (u : Str) : Prop := ∀ c ∈ u, 0x20 < c.toNat ∧ c ≠ '\\'

theorem Clean.append_left {a b : Str} (h : Clean (a ++ b)) : Clean a := fun c hc => h c (by simp [hc])
theorem Clean.append_right {a b : Str} (h : Clean (a ++ b)) : Clean b := fun c hc => h c (by simp [hc])
theorem Clean.tail {c : Char} {b : Str} (h : Clean (c :: b)) : Clean b := fun x hx => h x (by simp [hx])

theorem not_c0_of_clean {u : Str} (h : Clean u) : ∀ c ∈ u, isC0OrSpace c = false := by
  intro c hc
  have := (h c hc).1
  simp [isC0OrSpace]; omega

theorem not_tabnl_of_clean {u : Str} (h : Clean u) : ∀ c ∈ u, isTabNl c = false := by
  intro c hc
  have h1 := (h c hc).1
  simp only [isTabNl, Bool.or_eq_false_iff, beq_eq_false_iff_ne, ne_eq]
  refine ⟨⟨?_, ?_⟩, ?_⟩ <;> (rintro rfl; revert h1; decide)

theorem preprocess_clean {u : Str} (h : Clean u) : preprocess u = u := by
  unfold preprocess
  rw [dropWhile_none _ _ (not_c0_of_clean h)]
  apply List.filter_eq_self.2
  intro c hc
  simp [not_tabnl_of_clean h c hc]

/-! ## the shape of a URL that `urlsplit` gives a scheme and a netloc -/

theorem splitScheme_shape {u S rest : Str} (h : splitScheme u = (S, rest)) (hS : S ≠ []) :
    ∃ pre, u = pre ++ ':' :: rest ∧ S = pre.map asciiLower ∧ (∀ c ∈ pre, isSchemeChar c = true) ∧
      (∃ c t, pre = c :: t ∧ isAsciiAlpha c = true) := by
  unfold splitScheme at h
  dsimp only at h
  split at h
  · rename_i x after c t hd ht
    split at h
    · rename_i hc
      simp only [Prod.mk.injEq] at h
      obtain ⟨h1, h2⟩ := h
      subst h2
      refine ⟨u.takeWhile (· != ':'), ?_, h1.symm, ?_, ?_⟩
      · have hx : x = ':' := by
          have := dropWhile_head _ _ _ _ hd
          simpa using this
        subst hx
        rw [← hd, List.takeWhile_append_dropWhile]
      · simp only [Bool.and_eq_true] at hc
        intro c' hc'
        exact List.all_eq_true.1 hc.2 c' hc'
      · simp only [Bool.and_eq_true] at hc
        exact ⟨c, t, ht, hc.1.2⟩
    · simp only [Prod.mk.injEq] at h
      exact absurd h.1.symm hS
  · simp only [Prod.mk.injEq] at h
    exact absurd h.1.symm hS

theorem netlocOf_shape {rest netloc r : Str} (h : netlocOf rest = some (netloc, r)) :
    rest = '/' :: '/' :: (netloc ++ r) ∧ (∀ c ∈ netloc, isNetlocEnd c = false) ∧
      (r = [] ∨ ∃ c r', r = c :: r' ∧ isNetlocEnd c = true) := by
  unfold netlocOf at h
  split at h
  · rename_i r0
    simp only [Option.some.injEq, Prod.mk.injEq] at h
    obtain ⟨h1, h2⟩ := h
    subst h1 h2
    refine ⟨by rw [List.takeWhile_append_dropWhile], ?_, ?_⟩
    · intro c hc
      have := mem_takeWhile _ _ c hc
      simpa using this
    · cases hd : r0.dropWhile (fun c => !isNetlocEnd c) with
      | nil => left; rfl
      | cons c r' =>
        right
        refine ⟨c, r', rfl, ?_⟩
        have := dropWhile_head _ _ _ _ hd
        simpa using this
  · cases h

theorem netlocOf_none_netloc {env : Env} {u : Str} {sp : Split} (h : urlsplit env u = some sp)
    (hn : netlocOf (splitScheme (preprocess u)).2 = none) : sp.netloc = [] := by
  unfold urlsplit at h
  simp only [hn] at h
  simp only [Option.some.injEq] at h
  rw [← h]

/-- **shape**: a clean URL to which `urlsplit` gives a scheme and a non-empty netloc is
`S ":" "//" netloc R` with `S` the (not yet lower-cased) scheme and `R` empty or starting at `/`, `?` or `#`. -/
theorem urlsplit_shape {env : Env} {u : Str} {sp : Split} (hc : Clean u) (h : urlsplit env u = some sp)
    (hs : sp.scheme ≠ []) (hn : sp.netloc ≠ []) :
    ∃ S R, u = S ++ ':' :: '/' :: '/' :: (sp.netloc ++ R) ∧ sp.scheme = S.map asciiLower ∧
      (∀ c ∈ S, isSchemeChar c = true) ∧ (∃ c t, S = c :: t ∧ isAsciiAlpha c = true) ∧
      (∀ c ∈ sp.netloc, isNetlocEnd c = false) ∧ (R = [] ∨ ∃ c R', R = c :: R' ∧ isNetlocEnd c = true) := by
  have hp := preprocess_clean hc
  cases hnl : netlocOf (splitScheme (preprocess u)).2 with
  | none => exact absurd (netlocOf_none_netloc h hnl) hn
  | some nr =>
    obtain ⟨netloc, r⟩ := nr
    have h' := h
    unfold urlsplit at h'
    simp only [hnl] at h'
    split at h'
    · simp only [Option.some.injEq] at h'
      have hsch : sp.scheme = (splitScheme (preprocess u)).1 := by rw [← h']
      have hnet : sp.netloc = netloc := by rw [← h']
      obtain ⟨pre, hu, hS, hall, hhead⟩ :=
        splitScheme_shape (u := preprocess u) (S := (splitScheme (preprocess u)).1) (rest := (splitScheme (preprocess u)).2)
          rfl (by rw [← hsch]; exact hs)
      obtain ⟨hrest, hnl1, hr⟩ := netlocOf_shape hnl
      refine ⟨pre, r, ?_, ?_, hall, hhead, ?_, hr⟩
      · rw [hp] at hu
        rw [hnet, ← hrest]
        rw [hp]
        exact hu
      · rw [hsch, hS]
      · rw [hnet]; exact hnl1
    · cases h'

/-! ## `_hostinfo` of a netloc without userinfo and brackets -/

theorem partition_not_found (sep : Char) (s : Str) (h : sep ∉ s) : partition sep s = (s, false, []) := by
  have hall : ∀ x ∈ s, (x != sep) = true := by
    intro x hx
    simp only [bne_iff_ne, ne_eq]
    rintro rfl
    exact h hx
  unfold partition
  rw [dropWhile_all _ _ hall, takeWhile_all _ _ hall]

theorem rpartition_not_found (sep : Char) (s : Str) (h : sep ∉ s) : rpartition sep s = ([], false, s) := by
  have hall : ∀ x ∈ s.reverse, (x != sep) = true := by
    intro x hx
    simp only [bne_iff_ne, ne_eq]
    rintro rfl
    exact h (by simpa using hx)
  unfold rpartition
  rw [dropWhile_all _ _ hall]

/-- the raw port string of a plain netloc: what follows the first `:` -/
def afterColon (n : Str) : Str := (partition ':' n).2.2

theorem hostinfo_plain {n : Str} (h1 : '@' ∉ n) (h2 : '[' ∉ n) :
    hostinfo n = (n.takeWhile (· != ':'), if (afterColon n).isEmpty then none else some (afterColon n)) := by
  unfold hostinfo afterColon
  rw [rpartition_not_found _ _ h1]
  simp only [partition_not_found _ _ h2]
  unfold partition
  split <;> rfl

theorem partition_fst (sep : Char) (s : Str) : (partition sep s).1 = s.takeWhile (· != sep) := by
  unfold partition; split <;> rfl

/-- a netloc is its host part, and — when a `:` is present — `:` and the raw port string -/
theorem netloc_eq_host_port (n : Str) :
    n = n.takeWhile (· != ':') ∨ n = n.takeWhile (· != ':') ++ ':' :: afterColon n := by
  unfold afterColon partition
  cases hd : n.dropWhile (· != ':') with
  | nil =>
    left
    have := List.takeWhile_append_dropWhile (p := (· != ':')) (l := n)
    rw [hd, List.append_nil] at this
    exact this.symm
  | cons x r =>
    right
    have hx : x = ':' := by
      have := dropWhile_head _ _ _ _ hd
      simpa using this
    subst hx
    have := List.takeWhile_append_dropWhile (p := (· != ':')) (l := n)
    rw [hd] at this
    simpa using this.symm

theorem afterColon_nil_of_no_colon {n : Str} (h : n.dropWhile (· != ':') = []) : afterColon n = [] := by
  unfold afterColon partition
  rw [h]

theorem all_of_dropWhile_nil {α} (p : α → Bool) (l : List α) (h : l.dropWhile p = []) : ∀ x ∈ l, p x = true := by
  induction l with
  | nil => simp
  | cons y ys ih =>
    simp only [List.dropWhile] at h
    split at h
    · rename_i hy
      intro x hx
      simp at hx
      rcases hx with rfl | hx
      · exact hy
      · exact ih h x hx
    · cases h

theorem partition_found (sep : Char) (s : Str) (h : sep ∈ s) : (partition sep s).2.1 = true := by
  unfold partition
  cases hd : s.dropWhile (· != sep) with
  | nil =>
    exfalso
    have hall : ∀ x ∈ s, (x != sep) = true := all_of_dropWhile_nil _ _ hd
    have := hall sep h
    simp at this
  | cons x r => rfl

theorem pyLower_ascii (s : Str) (h : ∀ c ∈ s, isAscii c = true) : pyLower s = s.map asciiLower := by
  unfold pyLower
  induction s with
  | nil => rfl
  | cons c r ih =>
    have hc : c.toNat < 128 := by simpa [isAscii] using h c (by simp)
    have : pyLowerChar c = [asciiLower c] := by
      unfold pyLowerChar
      rw [if_neg (by omega), if_neg (by omega)]
    simp only [List.flatMap_cons, List.map_cons, this]
    rw [ih (fun x hx => h x (by simp [hx]))]
    rfl

/-- `.hostname` of a plain ASCII netloc whose result has no `%`: the lower-cased text before the first `:` -/
theorem hostname_plain {n : Str} (h1 : '@' ∉ n) (h2 : '[' ∉ n) (ha : ∀ c ∈ n.takeWhile (· != ':'), isAscii c = true)
    (hp : '%' ∉ (hostname n).getD []) : (hostname n).getD [] = (n.takeWhile (· != ':')).map asciiLower := by
  unfold hostname at hp ⊢
  rw [hostinfo_plain h1 h2] at hp ⊢
  dsimp only at hp ⊢
  split
  · rename_i he
    simp only [List.isEmpty_iff] at he
    simp [he]
  · rename_i he
    rw [if_neg he] at hp
    by_cases hpc : '%' ∈ n.takeWhile (· != ':')
    · exfalso
      apply hp
      simp [partition_found _ _ hpc]
    · rw [partition_not_found _ _ hpc]
      simp [pyLower_ascii _ ha]

theorem port_plain {n : Str} {prt : Option Nat} (h1 : '@' ∉ n) (h2 : '[' ∉ n) (h : port n = some prt) :
    ((afterColon n).all isAsciiDigit = true) ∧
      (((afterColon n) = [] ∧ prt = none) ∨
        ((afterColon n) ≠ [] ∧ decimalVal (afterColon n) ≤ 65535 ∧ prt = some (decimalVal (afterColon n)))) := by
  unfold port at h
  rw [hostinfo_plain h1 h2] at h
  dsimp only at h
  by_cases he : (afterColon n).isEmpty = true
  · rw [if_pos he] at h
    simp only [Option.some.injEq] at h
    have : afterColon n = [] := by simpa using he
    exact ⟨by simp [this], Or.inl ⟨this, h.symm⟩⟩
  · rw [if_neg he] at h
    dsimp only at h
    split at h
    · rename_i hd
      split at h
      · rename_i hle
        simp only [Option.some.injEq] at h
        exact ⟨hd, Or.inr ⟨by simpa using he, hle, h.symm⟩⟩
      · cases h
    · cases h

/-! ## `str(n)` / `int(s)` -/

theorem decimalVal_append_digit (s : Str) (c : Char) : decimalVal (s ++ [c]) = decimalVal s * 10 + (c.toNat - 48) := by
  unfold decimalVal
  rw [List.foldl_append]
  rfl

theorem digitChar_val (d : Nat) (h : d < 10) : (Char.ofNat (48 + d)).toNat - 48 = d := by
  have : d = 0 ∨ d = 1 ∨ d = 2 ∨ d = 3 ∨ d = 4 ∨ d = 5 ∨ d = 6 ∨ d = 7 ∨ d = 8 ∨ d = 9 := by omega
  rcases this with rfl | rfl | rfl | rfl | rfl | rfl | rfl | rfl | rfl | rfl <;> decide

theorem digitChar_isDigit (d : Nat) (h : d < 10) : isAsciiDigit (Char.ofNat (48 + d)) = true := by
  have : d = 0 ∨ d = 1 ∨ d = 2 ∨ d = 3 ∨ d = 4 ∨ d = 5 ∨ d = 6 ∨ d = 7 ∨ d = 8 ∨ d = 9 := by omega
  rcases this with rfl | rfl | rfl | rfl | rfl | rfl | rfl | rfl | rfl | rfl <;> decide

/-- value of `digits ++ acc` read as one numeral, in terms of the digits produced so far -/
theorem foldl_dec (acc : Str) (a : Nat) :
    acc.foldl (fun a c => a * 10 + (c.toNat - 48)) a = a * 10 ^ acc.length + decimalVal acc := by
  induction acc generalizing a with
  | nil => simp [decimalVal]
  | cons c cs ih =>
    simp only [List.foldl_cons, List.length_cons]
    rw [ih]
    unfold decimalVal
    simp only [List.foldl_cons]
    rw [ih (0 * 10 + (c.toNat - 48))]
    simp only [Nat.zero_mul, Nat.zero_add, Nat.pow_succ]
    rw [Nat.add_mul, Nat.add_assoc]
    congr 1
    rw [Nat.mul_assoc, Nat.mul_comm 10]

theorem decimalVal_cons (c : Char) (cs : Str) :
    decimalVal (c :: cs) = (c.toNat - 48) * 10 ^ cs.length + decimalVal cs := by
  unfold decimalVal
  simp only [List.foldl_cons]
  rw [foldl_dec]
  simp [decimalVal]

theorem digitsAux_spec (fuel n : Nat) (acc : Str) (hf : n < fuel) (hacc : ∀ c ∈ acc, isAsciiDigit c = true) :
    decimalVal (digitsAux fuel n acc) = n * 10 ^ acc.length + decimalVal acc ∧
      (∀ c ∈ digitsAux fuel n acc, isAsciiDigit c = true) ∧ digitsAux fuel n acc ≠ [] := by
  induction fuel generalizing n acc with
  | zero => omega
  | succ f ih =>
    unfold digitsAux
    simp only
    have hd : n % 10 < 10 := Nat.mod_lt _ (by decide)
    have hacc' : ∀ c ∈ Char.ofNat (48 + n % 10) :: acc, isAsciiDigit c = true := by
      intro c hc
      simp at hc
      rcases hc with rfl | hc
      · exact digitChar_isDigit _ hd
      · exact hacc c hc
    split
    · rename_i h0
      refine ⟨?_, hacc', by simp⟩
      rw [decimalVal_cons, digitChar_val _ hd]
      have : n % 10 = n := by omega
      rw [this]
    · rename_i h0
      have hlt : n / 10 < f := by omega
      obtain ⟨h1, h2, h3⟩ := ih (n / 10) (Char.ofNat (48 + n % 10) :: acc) hlt hacc'
      refine ⟨?_, h2, h3⟩
      rw [h1, decimalVal_cons, digitChar_val _ hd]
      simp only [List.length_cons, Nat.pow_succ]
      have hn : n = 10 * (n / 10) + n % 10 := by omega
      generalize 10 ^ acc.length = k
      generalize n / 10 = q at hn ⊢
      generalize n % 10 = r at hn ⊢
      subst hn
      rw [Nat.add_mul, ← Nat.add_assoc]
      ac_rfl

theorem decimalVal_decimal (n : Nat) : decimalVal (decimal n) = n := by
  have := (digitsAux_spec (n + 1) n [] (by omega) (by simp)).1
  simpa [decimal, decimalVal] using this

theorem decimal_digits (n : Nat) : ∀ c ∈ decimal n, isAsciiDigit c = true :=
  (digitsAux_spec (n + 1) n [] (by omega) (by simp)).2.1

theorem decimal_ne_nil (n : Nat) : decimal n ≠ [] :=
  (digitsAux_spec (n + 1) n [] (by omega) (by simp)).2.2

end VgiVerif.UrlPy
