import VgiVerif.Model.C26
import VgiVerif.Lemmas.Sched
/-
C26: inversion of the model's step function — `step st l = some st'` as an inductive relation with one
constructor per (label, program counter) branch and the successor state written out.  All later proofs do
`cases` on this relation instead of unfolding `step`.
-/
namespace VgiVerif.C26
open VgiVerif.Sched

/-! ### step inversion -/

/-- the registry operations, one constructor per branch of `regOp` -/
inductive RegOp (st : St) : Pc → St → Pc → Prop
  | getMiss {k s now} : st.live s = false → RegOp st (.getAcq k s now) st .lostPending
  | getExpired {k s now} : st.live s = true → RegOp st (.getAcq k s now) { st with live := upd st.live s false } (.cAcq s .lost)
  | getPmiss {k s now} : st.live s = true → RegOp st (.getAcq k s now) st .lostPending
  | getHit {k s now} : st.live s = true → RegOp st (.getAcq k s now) st (.eAcq k s)
  | liveYes {s} : st.live s = true → RegOp st (.liveAcq s) st (.ready s)
  | liveNo {s} : st.live s = false → RegOp st (.liveAcq s) st (.lostRel s)
  | csHit {s c} : st.live s = true → RegOp st (.csAcq s c) { st with live := upd st.live s false } (.cAcq s c)
  | csMiss {s c} : st.live s = false → RegOp st (.csAcq s c) st (afterClose s c)
  | delHit {s} : st.live s = true → RegOp st (.delAcq s) { st with live := upd st.live s false } (.cAcq s .del)
  | delMiss {s} : st.live s = false → RegOp st (.delAcq s) st (.delRel s)
  | popSweep {now} (ex : List Sid) : (∀ s ∈ ex, st.live s = true ∧ s ∈ st.order) →
      RegOp st (.sweepAcq now) { st with live := killAll st.live ex } (closeList ex)
  | popShut (ex : List Sid) : (∀ s ∈ ex, st.live s = true ∧ s ∈ st.order) →
      RegOp st .shutAcq { st with live := killAll st.live ex } (closeList ex)
  | insert {s exp pm} : RegOp st (.openAcq s exp pm)
      { st with order := st.order ++ [s], live := upd st.live s true, expires := upd st.expires s exp,
                pmatch := upd st.pmatch s pm } (.openSeal s)

theorem regOp_inv {st st1 : St} {p n : Pc} (h : regOp st p = some (st1, n)) : RegOp st p st1 n := by
  unfold regOp at h
  split at h
  · split at h
    · cases h; exact .getMiss (by assumption)
    · rename_i k s now hnl
      have hl : st.live s = true := by simpa using hnl
      split at h
      · cases h; exact .getExpired hl
      · split at h
        · cases h; exact .getPmiss hl
        · cases h; exact .getHit hl
  · cases h
    split
    · exact .liveYes (by assumption)
    · exact .liveNo (Bool.eq_false_iff.2 ‹¬ _›)
  · split at h
    · cases h; exact .csHit (by assumption)
    · cases h; exact .csMiss (Bool.eq_false_iff.2 ‹¬ _›)
  · split at h
    · cases h; exact .delHit (by assumption)
    · cases h; exact .delMiss (Bool.eq_false_iff.2 ‹¬ _›)
  · cases h
    refine .popSweep _ ?_
    intro s hs
    simp only [List.mem_filter, Bool.and_eq_true] at hs
    exact ⟨hs.2.1, hs.1⟩
  · cases h
    refine .popShut _ ?_
    intro s hs
    simp only [List.mem_filter] at hs
    exact ⟨hs.2, hs.1⟩
  · cases h; exact .insert
  · cases h

/-- **where the extracted discipline enters the proofs**: `_close_entry` takes the entry lock with a blocking
acquire, so the model's `entTimeout` step (a timed acquire that fails) is never enabled.  A source in which
`_close_entry` waits with a timeout makes this false — and with it every theorem below. -/
theorem timeoutDisabled : srcDisc.closeWaitMillis.isSome = false := by decide

/-- every step of the model, one constructor per (label, program counter) branch of `step` -/
inductive Trans (st : St) : Label → St → Prop
  | tick (d) : Trans st (.tick d) { st with clock := st.clock + d }
  | reqBegin {t s} : st.pc t = .idle → Trans st (.reqBegin t s) { st with pc := upd st.pc t (.getClock .req s) }
  | delBegin {t s} : st.pc t = .idle → Trans st (.delBegin t s) { st with pc := upd st.pc t (.getClock .del s) }
  | openBegin {t ttl pm} : st.pc t = .idle → Trans st (.openBegin t ttl pm) { st with pc := upd st.pc t (.openClock ttl pm) }
  | shutBegin {t} : st.pc t = .idle → Trans st (.shutBegin t) { st with pc := upd st.pc t .shutAcq }
  | rcSweep {t v} : st.pc t = .idle → Trans st (.readClock t v) { st with pc := upd st.pc t (.sweepAcq v) }
  | rcGet {t v k s} : st.pc t = .getClock k s → Trans st (.readClock t v) { st with pc := upd st.pc t (.getAcq k s v) }
  | rcOpen {t v ttl pm} : st.pc t = .openClock ttl pm →
      Trans st (.readClock t v) { st with pc := upd st.pc t (.openAlloc (v + ttl) pm) }
  | rcSeal {t v s} : st.pc t = .openSeal s → Trans st (.readClock t v) { st with pc := upd st.pc t (.opened s) }
  | allocSid {t exp pm} : st.pc t = .openAlloc exp pm →
      Trans st (.allocSid t st.nextSid) { st with nextSid := st.nextSid + 1, pc := upd st.pc t (.openAcq st.nextSid exp pm) }
  | regAcq {t st1 next} : st.reg.owner = none → RegOp st (st.pc t) st1 next →
      Trans st (.regAcq t) { st1 with reg := ⟨some t⟩, pc := upd st.pc t (.inReg next) }
  | regRel {t next} : st.pc t = .inReg next → st.reg.owner = some t →
      Trans st (.regRel t) { st with reg := ⟨none⟩, pc := upd st.pc t next }
  | entAcqSkip {t s c l} : st.pc t = .cAcq s c → (st.ent s).acquire t = some l → st.closedFlag s = true →
      Trans st (.entAcq t s) { st with ent := upd st.ent s l, pc := upd st.pc t (.cRel s c) }
  | entAcqClose {t s c l} : st.pc t = .cAcq s c → (st.ent s).acquire t = some l → st.closedFlag s = false →
      Trans st (.entAcq t s)
        { st with ent := upd st.ent s l, closedFlag := upd st.closedFlag s true, pc := upd st.pc t (.cOpen s c) }
  | entAcqReq {t s l} : st.pc t = .eAcq .req s → (st.ent s).acquire t = some l →
      Trans st (.entAcq t s) { st with ent := upd st.ent s l, pc := upd st.pc t (.liveAcq s) }
  | entAcqDel {t s l} : st.pc t = .eAcq .del s → (st.ent s).acquire t = some l →
      Trans st (.entAcq t s) { st with ent := upd st.ent s l, pc := upd st.pc t (.delAcq s) }
  | entRelClose {t s c l} : st.pc t = .cRel s c → (st.ent s).release t = some l →
      Trans st (.entRel t s) { st with ent := upd st.ent s l, pc := upd st.pc t (afterClose s c) }
  | entRelLost {t s l} : st.pc t = .lostRel s → (st.ent s).release t = some l →
      Trans st (.entRel t s) { st with ent := upd st.ent s l, pc := upd st.pc t .lostPending }
  | entRelFin {t s l} : st.pc t = .finRel s → (st.ent s).release t = some l →
      Trans st (.entRel t s) { st with ent := upd st.ent s l, pc := upd st.pc t .idle }
  | entRelDel {t s l} : st.pc t = .delRel s → (st.ent s).release t = some l →
      Trans st (.entRel t s) { st with ent := upd st.ent s l, pc := upd st.pc t .idle }
  | lost {t} : st.pc t = .lostPending → Trans st (.lost t) { st with pc := upd st.pc t .idle }
  | dispatchBegin {t s} : st.pc t = .ready s →
      Trans st (.dispatchBegin t s) { st with pc := upd st.pc t (.disp s), dsp := upd2 st.dsp t s true }
  | mstep {t} : Trans st (.mstep t) st
  | closeSessionDisp {t s} : st.pc t = .disp s → Trans st (.closeSession t) { st with pc := upd st.pc t (.csAcq s .disp) }
  | closeSessionOpened {t s} : st.pc t = .opened s →
      Trans st (.closeSession t) { st with pc := upd st.pc t (.csAcq s .opener) }
  | dispatchEnd {t s} : st.pc t = .disp s →
      Trans st (.dispatchEnd t s) { st with pc := upd st.pc t (.finRel s), dsp := upd2 st.dsp t s false }
  | closeStart {t s c} : st.pc t = .cOpen s c →
      Trans st (.closeStart t s)
        { st with pc := upd st.pc t (.cRun s c), crun := upd2 st.crun t s true, cstart := upd st.cstart s (st.cstart s + 1) }
  | closeEnd {t s c} : st.pc t = .cRun s c →
      Trans st (.closeEnd t s)
        { st with pc := upd st.pc t (.cRel s c), crun := upd2 st.crun t s false, cend := upd st.cend s (st.cend s + 1) }
  | openDone {t s} : st.pc t = .opened s → Trans st (.openDone t) { st with pc := upd st.pc t .idle }
  -- the close hook run WITHOUT the entry lock (reachable only after a failed timed acquire)
  | closeStartU {t s c} : st.pc t = .uOpen s c →
      Trans st (.closeStart t s)
        { st with pc := upd st.pc t (.uRun s c), crun := upd2 st.crun t s true, cstart := upd st.cstart s (st.cstart s + 1) }
  | closeEndU {t s c} : st.pc t = .uRun s c →
      Trans st (.closeEnd t s)
        { st with pc := upd st.pc t (afterClose s c), crun := upd2 st.crun t s false, cend := upd st.cend s (st.cend s + 1) }

theorem step_trans {st st' : St} {l : Label} (h : step st l = some st') : Trans st l st' := by
  cases l with
  | tick d => simp only [step, stepD, Option.some.injEq] at h; subst h; exact .tick d
  | reqBegin t s => simp only [step, stepD] at h; split at h <;> cases h; exact .reqBegin (by assumption)
  | delBegin t s => simp only [step, stepD] at h; split at h <;> cases h; exact .delBegin (by assumption)
  | openBegin t ttl pm => simp only [step, stepD] at h; split at h <;> cases h; exact .openBegin (by assumption)
  | shutBegin t => simp only [step, stepD] at h; split at h <;> cases h; exact .shutBegin (by assumption)
  | readClock t v =>
    simp only [step, stepD] at h
    split at h
    · rename_i hv; subst hv
      split at h <;> cases h
      · exact .rcSweep (by assumption)
      · exact .rcGet (by assumption)
      · exact .rcOpen (by assumption)
      · exact .rcSeal (by assumption)
    · cases h
  | allocSid t s =>
    simp only [step, stepD] at h
    split at h
    · split at h
      · rename_i hs; subst hs; cases h; exact .allocSid (by assumption)
      · cases h
    · cases h
  | regAcq t =>
    simp only [step, stepD] at h
    split at h
    · cases h
    · rename_i l hl
      obtain ⟨ho, rfl⟩ := Lock.acquire_eq_some.1 hl
      split at h
      · cases h
      · rename_i st1 next hop
        cases h
        exact .regAcq ho (regOp_inv hop)
  | regRel t =>
    simp only [step, stepD] at h
    split at h
    · split at h
      · cases h
      · rename_i l hl
        obtain ⟨ho, rfl⟩ := Lock.release_eq_some.1 hl
        cases h; exact .regRel (by assumption) ho
    · cases h
  | entAcq t s =>
    simp only [step, stepD] at h
    split at h
    · cases h
    · rename_i l hl
      split at h
      · split at h
        · rename_i hs; subst hs
          split at h <;> cases h
          · exact .entAcqSkip (by assumption) hl (by assumption)
          · exact .entAcqClose (by assumption) hl (Bool.eq_false_iff.2 ‹¬ _›)
        · cases h
      · split at h
        · rename_i k s' hp hs; subst hs
          cases h
          cases k
          · exact .entAcqReq hp hl
          · exact .entAcqDel hp hl
        · cases h
      · cases h
  | entRel t s =>
    simp only [step, stepD] at h
    split at h
    · cases h
    · rename_i l hl
      split at h
      · split at h
        · rename_i hs; subst hs; cases h; exact .entRelClose (by assumption) hl
        · cases h
      · split at h
        · rename_i hs; subst hs; cases h; exact .entRelLost (by assumption) hl
        · cases h
      · split at h
        · rename_i hs; subst hs; cases h; exact .entRelFin (by assumption) hl
        · cases h
      · split at h
        · rename_i hs; subst hs; cases h; exact .entRelDel (by assumption) hl
        · cases h
      · cases h
  | lost t => simp only [step, stepD] at h; split at h <;> cases h; exact .lost (by assumption)
  | dispatchBegin t s =>
    simp only [step, stepD] at h
    split at h
    · split at h
      · rename_i hs; subst hs; cases h; exact .dispatchBegin (by assumption)
      · cases h
    · cases h
  | mstep t => simp only [step, stepD] at h; split at h <;> cases h <;> exact .mstep
  | closeSession t =>
    simp only [step, stepD] at h
    split at h <;> cases h
    · exact .closeSessionDisp (by assumption)
    · exact .closeSessionOpened (by assumption)
  | dispatchEnd t s =>
    simp only [step, stepD] at h
    split at h
    · split at h
      · rename_i hs; subst hs; cases h; exact .dispatchEnd (by assumption)
      · cases h
    · cases h
  | closeStart t s =>
    simp only [step, stepD] at h
    split at h
    · split at h
      · rename_i hs; subst hs; cases h; exact .closeStart (by assumption)
      · cases h
    · split at h
      · rename_i hs; subst hs; cases h; exact .closeStartU (by assumption)
      · cases h
    · cases h
  | closeEnd t s =>
    simp only [step, stepD] at h
    split at h
    · split at h
      · rename_i hs; subst hs; cases h; exact .closeEnd (by assumption)
      · cases h
    · split at h
      · rename_i hs; subst hs; cases h; exact .closeEndU (by assumption)
      · cases h
    · cases h
  | entTimeout t s =>
    simp only [step, stepD, timeoutDisabled, Bool.false_eq_true, false_and, and_false, if_false] at h
    split at h <;> cases h
  | openDone t => simp only [step, stepD] at h; split at h <;> cases h; exact .openDone (by assumption)

end VgiVerif.C26
