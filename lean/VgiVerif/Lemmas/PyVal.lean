import VgiVerif.Prelude.PyVal
/-
Lemmas about the Python-value prelude: `mapM` in the `Except` monad, duplicate elimination of
`frozenset(list)` / `dict(pairs)` on pairwise distinct inputs, lookups.
-/
namespace VgiVerif.Py

theorem mapM_ok {α β : Type} {f : α → R β} {g : α → β} :
    ∀ (xs : List α), (∀ x ∈ xs, f x = .ok (g x)) → xs.mapM f = .ok (xs.map g)
  | [], _ => rfl
  | x :: xs, h => by
    have h1 := h x (List.mem_cons_self)
    have h2 := mapM_ok xs (fun y hy => h y (List.mem_cons_of_mem _ hy))
    simp only [List.mapM_cons, h1, h2, List.map_cons]
    rfl

theorem mapM_map_ok {α β γ : Type} {f : β → R γ} {w : α → β} {g : α → γ} :
    ∀ (xs : List α), (∀ x ∈ xs, f (w x) = .ok (g x)) → (xs.map w).mapM f = .ok (xs.map g)
  | [], _ => rfl
  | x :: xs, h => by
    have h1 := h x (List.mem_cons_self)
    have h2 := mapM_map_ok xs (fun y hy => h y (List.mem_cons_of_mem _ hy))
    simp only [List.map_cons, List.mapM_cons, h1, h2]
    rfl

theorem mapEntry_ok {fk fv : V → R V} {a b a' b' : V} (hne : a ≠ .none) (h1 : fk a = .ok a') (h2 : fv b = .ok b') :
    mapEntry fk fv (.tuple [a, b]) = .ok (.tuple [a', b']) := by
  unfold mapEntry
  cases a <;> simp_all <;> rfl

theorem pyMem_false {x : V} {xs : List V} (h : pyMem x xs = false) : ∀ y ∈ xs, pyEq x y = false := by
  intro y hy
  unfold pyMem at h
  rw [List.any_eq_false] at h
  simpa using h y hy

theorem dedup_of_distinct : ∀ (xs : List V), pyDistinct xs = true → dedup xs = xs
  | [], _ => rfl
  | x :: xs, h => by
    simp only [pyDistinct, Bool.and_eq_true, Bool.not_eq_true'] at h
    have ih := dedup_of_distinct xs h.2
    simp only [dedup, ih]
    congr 1
    rw [List.filter_eq_self]
    intro y hy
    simp [pyMem_false h.1 y hy]

theorem dictSet_fresh (d : List (V × V)) (k v : V) (h : ∀ p ∈ d, pyEq p.1 k = false) :
    dictSet d k v = d ++ [(k, v)] := by
  unfold dictSet
  have : d.any (fun p => pyEq p.1 k) = false := by
    rw [List.any_eq_false]; intro p hp; simp [h p hp]
  simp [this]

theorem foldl_dictSet_distinct : ∀ (ps acc : List (V × V)),
    pyDistinct (ps.map Prod.fst) = true →
    (∀ p ∈ acc, ∀ q ∈ ps, pyEq p.1 q.1 = false) →
    ps.foldl (fun d p => dictSet d p.1 p.2) acc = acc ++ ps
  | [], acc, _, _ => by simp
  | q :: ps, acc, hd, hacc => by
    simp only [List.map_cons, pyDistinct, Bool.and_eq_true, Bool.not_eq_true'] at hd
    simp only [List.foldl_cons]
    rw [dictSet_fresh acc q.1 q.2 (fun p hp => hacc p hp q List.mem_cons_self)]
    rw [foldl_dictSet_distinct ps (acc ++ [(q.1, q.2)]) hd.2]
    · simp
    · intro p hp r hr
      rcases List.mem_append.1 hp with hp | hp
      · exact hacc p hp r (List.mem_cons_of_mem _ hr)
      · simp only [List.mem_singleton] at hp
        subst hp
        exact pyMem_false hd.1 r.1 (List.mem_map_of_mem hr)

theorem dictOfPairs_distinct (ps : List (V × V)) (h : pyDistinct (ps.map Prod.fst) = true) :
    dictOfPairs ps = ps := by
  unfold dictOfPairs
  rw [foldl_dictSet_distinct ps [] h (by simp)]
  simp

theorem dictGet_cons_eq (n : List Char) (x : V) (r : List (V × V)) : dictGet ((.str n, x) :: r) n = some x := by
  simp [dictGet]

theorem dictGet_cons_ne (n m : List Char) (x : V) (r : List (V × V)) (h : n ≠ m) :
    dictGet ((.str n, x) :: r) m = dictGet r m := by
  simp [dictGet, h]

theorem fieldGet_cons_eq (n : List Char) (x : V) (r : List (List Char × V)) : fieldGet ((n, x) :: r) n = some x := by
  simp [fieldGet]

theorem fieldGet_cons_ne (n m : List Char) (x : V) (r : List (List Char × V)) (h : n ≠ m) :
    fieldGet ((n, x) :: r) m = fieldGet r m := by
  simp [fieldGet, h]

end VgiVerif.Py
