import VgiVerif.Model.C37
/-
Lemmas about the signed session cookie of C37: little-endian fields, reading back what `packPayload` wrote.
-/
set_option linter.unusedSimpArgs false
namespace VgiVerif.C37
open VgiVerif.UrlPy

/-- what the theorems assume of the libraries behind `CEnv` (hypotheses, never axioms) -/
structure CEnvLaws (env : CEnv) : Prop where
  b64 : ∀ x, env.b64dec (env.b64enc x) = some x
  utf8 : ∀ s, env.utf8dec (env.utf8enc s) = some s
  macLen : ∀ k m, (env.mac k m).length = Gen.Pkce.hmacLen

theorem leBytes_length (w n : Nat) : (leBytes w n).length = w := by
  induction w generalizing n with
  | zero => rfl
  | succ w ih => simp [leBytes, ih]

theorem leVal_leBytes (w n : Nat) (h : n < 256 ^ w) : leVal (leBytes w n) = n := by
  induction w generalizing n with
  | zero => simp [leBytes, leVal] at h ⊢; omega
  | succ w ih =>
    have h' : n / 256 < 256 ^ w := by
      rw [Nat.pow_succ] at h
      exact Nat.div_lt_of_lt_mul (by rw [Nat.mul_comm]; exact h)
    simp only [leBytes, leVal, ih _ h']
    have : (UInt8.ofNat (n % 256)).toNat = n % 256 := by
      simp [UInt8.toNat_ofNat']
    rw [this]
    omega

theorem take_append_len {α} (a b : List α) (n : Nat) (h : n = a.length) : (a ++ b).take n = a := by
  subst h; simp

theorem drop_append_len {α} (a b : List α) (n : Nat) (h : n = a.length) : (a ++ b).drop n = b := by
  subst h; simp

/-- reading the field written by `lenField b` right after `pre` -/
theorem readField_at (env : CEnv) (pre b post : Bytes) (pos : Nat) (hpos : pos = pre.length)
    (hlen : b.length < 256 ^ Gen.Pkce.widthLen) :
    readField env (pre ++ lenField b ++ post) pos =
      match env.utf8dec b with
      | none => .error .unicode
      | some s => .ok (s, pos + Gen.Pkce.widthLen + b.length) := by
  subst hpos
  unfold readField lenField
  have hl : (leBytes Gen.Pkce.widthLen b.length).length = Gen.Pkce.widthLen := leBytes_length _ _
  have h1 : ¬ (pre ++ (leBytes Gen.Pkce.widthLen b.length ++ b) ++ post).length < pre.length + Gen.Pkce.widthLen := by
    simp [hl]
  rw [if_neg h1]
  have e1 : (pre ++ (leBytes Gen.Pkce.widthLen b.length ++ b) ++ post).drop pre.length =
      leBytes Gen.Pkce.widthLen b.length ++ (b ++ post) := by
    rw [List.append_assoc, drop_append_len _ _ _ rfl, List.append_assoc]
  have e2 : (pre ++ (leBytes Gen.Pkce.widthLen b.length ++ b) ++ post).drop (pre.length + Gen.Pkce.widthLen) = b ++ post := by
    have : pre ++ (leBytes Gen.Pkce.widthLen b.length ++ b) ++ post =
        (pre ++ leBytes Gen.Pkce.widthLen b.length) ++ (b ++ post) := by simp
    rw [this, drop_append_len _ _ _ (by simp [hl])]
  simp only
  rw [e1, e2, take_append_len _ _ _ hl.symm, leVal_leBytes _ _ hlen, take_append_len _ _ _ rfl]
  rfl

/-- the age test of `_unpack_oauth_cookie` -/
def expired (now : Int) (maxAge : Int) (createdAt : Nat) : Prop :=
  maxAge > 0 ∧ (now - (createdAt : Int) < 0 ∨ now - (createdAt : Int) > maxAge)

instance (now maxAge : Int) (t : Nat) : Decidable (expired now maxAge t) := by unfold expired; infer_instance

theorem packPayload_length (env : CEnv) (t : Nat) (f : Fields) (p : Bytes) (hp : packPayload env t f = some p) :
    p.length ≥ Gen.Pkce.widthVersion + Gen.Pkce.widthCreated + 4 * Gen.Pkce.widthLen := by
  unfold packPayload at hp
  dsimp only at hp
  split at hp
  · cases hp
  · simp only [Option.some.injEq] at hp
    rw [← hp]
    simp only [List.length_append, leBytes_length, lenField]
    omega

/-- `_unpack_oauth_cookie` reads back exactly what `_pack_oauth_cookie` wrote (UTF-8 decode ∘ encode = id) -/
theorem parse_pack (env : CEnv) (hl : CEnvLaws env) (t : Nat) (f : Fields) (p : Bytes) (now maxAge : Int)
    (hp : packPayload env t f = some p) :
    parsePayload env now maxAge p = if expired now maxAge t then .error .expired else .ok f := by
  unfold packPayload at hp
  dsimp only at hp
  split at hp
  · cases hp
  rename_i hb
  simp only [Bool.or_eq_true, decide_eq_true_eq, not_or, Nat.not_le] at hb
  obtain ⟨⟨⟨⟨ht, h1⟩, h2⟩, h3⟩, h4⟩ := hb
  simp only [Option.some.injEq] at hp
  have hV : (leBytes Gen.Pkce.widthVersion Gen.Pkce.sessionCookieVersion).length = Gen.Pkce.widthVersion := leBytes_length _ _
  have hT : (leBytes Gen.Pkce.widthCreated t).length = Gen.Pkce.widthCreated := leBytes_length _ _
  generalize hVd : leBytes Gen.Pkce.widthVersion Gen.Pkce.sessionCookieVersion = V at hp hV
  generalize hTd : leBytes Gen.Pkce.widthCreated t = T at hp hT
  generalize hcv : env.utf8enc f.codeVerifier = cv at hp h1
  generalize hst : env.utf8enc f.stateNonce = st at hp h2
  generalize hou : env.utf8enc f.originalUrl = ou at hp h3
  generalize hrt : env.utf8enc f.returnTo = rt at hp h4
  have d1 : env.utf8dec cv = some f.codeVerifier := by rw [← hcv]; exact hl.utf8 _
  have d2 : env.utf8dec st = some f.stateNonce := by rw [← hst]; exact hl.utf8 _
  have d3 : env.utf8dec ou = some f.originalUrl := by rw [← hou]; exact hl.utf8 _
  have d4 : env.utf8dec rt = some f.returnTo := by rw [← hrt]; exact hl.utf8 _
  have e0 : p = V ++ (T ++ (lenField cv ++ lenField st ++ lenField ou ++ lenField rt)) := by rw [← hp]; simp
  have r1 := readField_at env (V ++ T) cv (lenField st ++ lenField ou ++ lenField rt)
    (Gen.Pkce.widthVersion + Gen.Pkce.widthCreated) (by simp [hV, hT]) h1
  have r2 := readField_at env (V ++ T ++ lenField cv) st (lenField ou ++ lenField rt)
    (Gen.Pkce.widthVersion + Gen.Pkce.widthCreated + Gen.Pkce.widthLen + cv.length)
    (by simp [hV, hT, lenField, leBytes_length]; omega) h2
  have r3 := readField_at env (V ++ T ++ lenField cv ++ lenField st) ou (lenField rt)
    (Gen.Pkce.widthVersion + Gen.Pkce.widthCreated + Gen.Pkce.widthLen + cv.length + Gen.Pkce.widthLen + st.length)
    (by simp [hV, hT, lenField, leBytes_length]; omega) h3
  have r4 := readField_at env (V ++ T ++ lenField cv ++ lenField st ++ lenField ou) rt []
    (Gen.Pkce.widthVersion + Gen.Pkce.widthCreated + Gen.Pkce.widthLen + cv.length + Gen.Pkce.widthLen + st.length
      + Gen.Pkce.widthLen + ou.length)
    (by simp [hV, hT, lenField, leBytes_length]; omega) h4
  have a1 : V ++ T ++ lenField cv ++ (lenField st ++ lenField ou ++ lenField rt) = p := by rw [← hp]; simp
  have a2 : V ++ T ++ lenField cv ++ lenField st ++ (lenField ou ++ lenField rt) = p := by rw [← hp]; simp
  have a3 : V ++ T ++ lenField cv ++ lenField st ++ lenField ou ++ lenField rt = p := by rw [← hp]
  have a4 : V ++ T ++ lenField cv ++ lenField st ++ lenField ou ++ lenField rt ++ [] = p := by rw [← hp]; simp
  rw [a1, d1] at r1
  rw [a2, d2] at r2
  rw [a3, d3] at r3
  rw [a4, d4] at r4
  unfold parsePayload
  have v1 : leVal (p.take Gen.Pkce.widthVersion) = Gen.Pkce.sessionCookieVersion := by
    rw [e0, take_append_len _ _ _ hV.symm, ← hVd]
    exact leVal_leBytes _ _ (by decide)
  have v2 : leVal ((p.drop Gen.Pkce.widthVersion).take Gen.Pkce.widthCreated) = t := by
    rw [e0, drop_append_len _ _ _ hV.symm, take_append_len _ _ _ hT.symm, ← hTd]
    exact leVal_leBytes _ _ ht
  simp only [v1, v2, bne_self_eq_false, Bool.false_eq_true, if_false]
  by_cases hexp : expired now maxAge t
  · rw [if_pos hexp]
    unfold expired at hexp
    have : (decide (maxAge > 0) && (decide (now - (t : Int) < 0) || decide (now - (t : Int) > maxAge))) = true := by
      simp only [Bool.and_eq_true, Bool.or_eq_true, decide_eq_true_eq]
      exact hexp
    rw [if_pos this]
  · rw [if_neg hexp]
    unfold expired at hexp
    have : ¬ ((decide (maxAge > 0) && (decide (now - (t : Int) < 0) || decide (now - (t : Int) > maxAge))) = true) := by
      simp only [Bool.and_eq_true, Bool.or_eq_true, decide_eq_true_eq]
      exact hexp
    rw [if_neg this]
    simp only [r1, r2, r3, r4]

theorem layout_min : Gen.Pkce.minCookieLen ≤
    Gen.Pkce.widthVersion + Gen.Pkce.widthCreated + 4 * Gen.Pkce.widthLen + Gen.Pkce.hmacLen := by decide

/-- what `unpack` does on `payload ++ tag` with a tag of MAC length -/
theorem unpack_signed (env : CEnv) (key : Bytes) (now maxAge : Int) (c : Str) (payload tag : Bytes)
    (hdec : env.b64dec c = some (payload ++ tag)) (htag : tag.length = Gen.Pkce.hmacLen) :
    unpack env key now maxAge c =
      if (payload ++ tag).length < Gen.Pkce.minCookieLen then .error .tooShort
      else if tag != env.mac key payload then .error .signature
      else parsePayload env now maxAge payload := by
  unfold unpack
  simp only [hdec]
  have hn : (payload ++ tag).length - Gen.Pkce.hmacLen = payload.length := by simp [htag]
  rw [hn, take_append_len _ _ _ rfl, drop_append_len _ _ _ rfl]

/-- **authenticity**: `unpack` succeeds exactly on `base64(payload ‖ HMAC(key, payload))` with a well-formed payload -/
theorem unpack_ok_iff (env : CEnv) (hl : CEnvLaws env) (key : Bytes) (now maxAge : Int) (c : Str) (f : Fields) :
    unpack env key now maxAge c = .ok f ↔
      ∃ payload, env.b64dec c = some (payload ++ env.mac key payload) ∧
        Gen.Pkce.minCookieLen ≤ (payload ++ env.mac key payload).length ∧ parsePayload env now maxAge payload = .ok f := by
  constructor
  · intro h
    unfold unpack at h
    split at h
    · cases h
    rename_i raw hdec
    split at h
    · cases h
    rename_i hlen
    dsimp only at h
    split at h
    · cases h
    rename_i hmac
    have hm : raw.drop (raw.length - Gen.Pkce.hmacLen) = env.mac key (raw.take (raw.length - Gen.Pkce.hmacLen)) := by
      simpa using hmac
    have hraw : raw = raw.take (raw.length - Gen.Pkce.hmacLen) ++ env.mac key (raw.take (raw.length - Gen.Pkce.hmacLen)) := by
      rw [← hm, List.take_append_drop]
    refine ⟨raw.take (raw.length - Gen.Pkce.hmacLen), ?_, ?_, h⟩
    · rw [← hraw]; exact hdec
    · rw [← hraw]; omega
  · rintro ⟨payload, hdec, hlen, hparse⟩
    rw [unpack_signed env key now maxAge c payload _ hdec (hl.macLen _ _)]
    rw [if_neg (by omega)]
    simp [hparse]

/-- **round trip**: a cookie packed at `t` unpacks at `now` to the same fields unless it is expired -/
theorem unpack_pack (env : CEnv) (hl : CEnvLaws env) (key : Bytes) (t : Nat) (f : Fields) (c : Str) (now maxAge : Int)
    (hc : pack env key t f = some c) :
    unpack env key now maxAge c = if expired now maxAge t then .error .expired else .ok f := by
  unfold pack at hc
  cases hp : packPayload env t f with
  | none => rw [hp] at hc; cases hc
  | some p =>
    rw [hp] at hc
    simp only [Option.map_some, Option.some.injEq] at hc
    have hdec : env.b64dec c = some (p ++ env.mac key p) := by rw [← hc]; exact hl.b64 _
    rw [unpack_signed env key now maxAge c p _ hdec (hl.macLen _ _)]
    have hlen := packPayload_length env t f p hp
    have hm := hl.macLen key p
    have := layout_min
    rw [if_neg (by simp only [List.length_append]; omega)]
    simp only [bne_self_eq_false, Bool.false_eq_true, if_false]
    exact parse_pack env hl t f p now maxAge hp

end VgiVerif.C37
