import VgiVerif.Model.Token
/-
Lemmas about the shared `Token` model: framing round trips and totality, AAD injectivity, envelope opening.
Property theorems live in `Proofs/C12.lean`, `Proofs/C13.lean`.
-/
namespace VgiVerif.Token
open VgiVerif.Gen

/-! ## little-endian integers -/

theorem length_leBytes (w n : Nat) : (leBytes w n).length = w := by
  induction w generalizing n with
  | zero => rfl
  | succ w ih => simp [leBytes, ih]

theorem leVal_leBytes (w n : Nat) (h : n < 256 ^ w) : leVal (leBytes w n) = n := by
  induction w generalizing n with
  | zero => simp at h; simp [leBytes, leVal, h]
  | succ w ih =>
    have h2 : n / 256 < 256 ^ w := by
      rw [Nat.pow_succ] at h
      exact Nat.div_lt_of_lt_mul (by rw [Nat.mul_comm]; exact h)
    simp only [leBytes, leVal, ih _ h2, UInt8.toNat_ofNat']
    omega

/-- reading back what `struct.pack` wrote, at any offset -/
theorem unpackFrom_at (w : Nat) (pre x rest : Bytes) (hx : x.length = w) :
    unpackFrom w (pre ++ (x ++ rest)) pre.length = some (leVal x) := by
  unfold unpackFrom
  have hl : pre.length + w ≤ (pre ++ (x ++ rest)).length := by simp [hx]
  rw [if_pos hl, List.drop_left, List.take_left' hx]

theorem unpackFrom_pack (w n : Nat) (pre rest : Bytes) (h : n < 256 ^ w) :
    unpackFrom w (pre ++ (leBytes w n ++ rest)) pre.length = some n := by
  rw [unpackFrom_at w pre _ rest (length_leBytes w n), leVal_leBytes w n h]

theorem unpackFrom_isSome (w : Nat) (d : Bytes) (pos : Nat) (h : pos + w ≤ d.length) :
    ∃ n, unpackFrom w d pos = some n := by
  unfold unpackFrom; rw [if_pos h]; exact ⟨_, rfl⟩

/-! ## segments -/

theorem headerLen_eq : Token.headerLen = Token.lenFmtWidth := by decide

theorem slice_at (pre x rest : Bytes) :
    slice (pre ++ (x ++ rest)) pre.length (pre.length + x.length) = x := by
  unfold slice
  rw [List.drop_left, Nat.add_sub_cancel_left, List.take_left]

theorem length_packSeg (b : Bytes) : (packSeg b).length = Token.headerLen + b.length := by
  simp [packSeg, length_leBytes, headerLen_eq]

/-- `_read_segment` reads back a segment written by the sealers, wherever it sits -/
theorem readSegment_pack (pre b rest : Bytes) (hb : fitsLen b) :
    readSegment (pre ++ (packSeg b ++ rest)) pre.length = .ok (b, pre.length + Token.headerLen + b.length) := by
  unfold readSegment
  have hlen : (pre ++ (packSeg b ++ rest)).length = pre.length + (Token.headerLen + b.length) + rest.length := by
    simp [length_packSeg]; omega
  have h1 : ¬ pre.length + Token.headerLen > (pre ++ (packSeg b ++ rest)).length := by rw [hlen]; omega
  rw [if_neg h1]
  have hu : unpackFrom Token.lenFmtWidth (pre ++ (packSeg b ++ rest)) pre.length = some b.length := by
    have : pre ++ (packSeg b ++ rest) = pre ++ (leBytes Token.lenFmtWidth b.length ++ (b ++ rest)) := by
      simp [packSeg]
    rw [this]; exact unpackFrom_pack _ _ _ _ hb
  rw [hu]
  simp only
  have h2 : ¬ pre.length + Token.headerLen + b.length > (pre ++ (packSeg b ++ rest)).length := by rw [hlen]; omega
  rw [if_neg h2]
  have hs : slice (pre ++ (packSeg b ++ rest)) (pre.length + Token.headerLen) (pre.length + Token.headerLen + b.length) = b := by
    have e : pre ++ (packSeg b ++ rest) = (pre ++ leBytes Token.lenFmtWidth b.length) ++ (b ++ rest) := by
      simp [packSeg]
    have l : (pre ++ leBytes Token.lenFmtWidth b.length).length = pre.length + Token.headerLen := by
      simp [length_leBytes, headerLen_eq]
    rw [e, ← l]; exact slice_at _ _ _
  rw [hs]

/-- `_read_segment` never lets a `struct.error` escape: its first guard covers the read -/
theorem readSegment_ne_crash (d : Bytes) (pos : Nat) : readSegment d pos ≠ .crash := by
  unfold readSegment
  split
  · simp
  · rename_i h
    have h' : pos + Token.lenFmtWidth ≤ d.length := by rw [← headerLen_eq]; omega
    obtain ⟨n, hn⟩ := unpackFrom_isSome _ _ _ h'
    rw [hn]; simp only
    split <;> simp

theorem readSegment_cases (d : Bytes) (pos : Nat) :
    (∃ x, readSegment d pos = .ok x) ∨ (∃ r, readSegment d pos = .reject r) := by
  unfold readSegment
  split
  · exact Or.inr ⟨_, rfl⟩
  · rename_i h
    have h' : pos + Token.lenFmtWidth ≤ d.length := by rw [← headerLen_eq]; omega
    obtain ⟨n, hn⟩ := unpackFrom_isSome _ _ _ h'
    rw [hn]; simp only
    split
    · exact Or.inr ⟨_, rfl⟩
    · exact Or.inl ⟨_, rfl⟩

/-! ## plaintext framing -/

theorem c_headerLen : Token.headerLen = 4 := rfl
theorem c_lenFmtWidth : Token.lenFmtWidth = 4 := rfl
theorem c_tsFmtWidth : Token.tsFmtWidth = 8 := rfl
theorem c_timestampLen : Token.timestampLen = 8 := rfl
theorem c_callIdLen : Token.callIdLen = 16 := rfl
theorem c_minCursor : Token.minCursorPlaintextLen = 28 := rfl
theorem c_minCall : Token.minCallPlaintextLen = 44 := rfl

/-- rewrite the extracted layout constants to numerals (then `omega`) -/
macro "tok_consts" : tactic =>
  `(tactic| simp only [c_headerLen, c_lenFmtWidth, c_tsFmtWidth, c_timestampLen, c_callIdLen, c_minCursor, c_minCall] at *)

theorem length_packCursorPlain (t : Nat) (cid st : Bytes) :
    (packCursorPlain t cid st).length = Token.tsFmtWidth + cid.length + (Token.headerLen + st.length) := by
  simp [packCursorPlain, length_leBytes, length_packSeg]; omega

/-- framing round trip of the cursor token -/
theorem unpackCursorPlain_pack (t : Nat) (cid st : Bytes) (hc : cid.length = Token.callIdLen) (hs : fitsLen st) :
    unpackCursorPlain (packCursorPlain t cid st) = .ok (st, cid) := by
  unfold unpackCursorPlain
  have hlen := length_packCursorPlain t cid st
  have hmin : ¬ (packCursorPlain t cid st).length < Token.minCursorPlaintextLen := by
    rw [hlen, hc]; tok_consts; omega
  rw [if_neg hmin]
  have e : packCursorPlain t cid st = (leBytes Token.tsFmtWidth t ++ cid) ++ (packSeg st ++ []) := by
    simp [packCursorPlain]
  have l : (leBytes Token.tsFmtWidth t ++ cid).length = Token.timestampLen + Token.callIdLen := by
    simp [length_leBytes, hc]; tok_consts
  have hr := readSegment_pack (leBytes Token.tsFmtWidth t ++ cid) st [] hs
  rw [← e, l] at hr
  simp only [hr]
  have hend : ¬ (Token.timestampLen + Token.callIdLen + Token.headerLen + st.length ≠ (packCursorPlain t cid st).length) := by
    rw [hlen, hc]; tok_consts; omega
  rw [if_neg hend]
  have hcid : slice (packCursorPlain t cid st) Token.timestampLen (Token.timestampLen + Token.callIdLen) = cid := by
    have e2 : packCursorPlain t cid st = leBytes Token.tsFmtWidth t ++ (cid ++ packSeg st) := rfl
    have l2 : (leBytes Token.tsFmtWidth t).length = Token.timestampLen := by simp [length_leBytes]; tok_consts
    rw [e2, ← l2, ← hc]; exact slice_at _ _ _
  rw [hcid]

theorem readSegment_at (p pre b rest : Bytes) (pos : Nat) (e : p = pre ++ (packSeg b ++ rest)) (l : pre.length = pos)
    (hb : fitsLen b) : readSegment p pos = .ok (b, pos + 4 + b.length) := by
  subst e; subst l; exact readSegment_pack pre b rest hb

/-- framing round trip of the call token -/
theorem unpackCallPlain_pack (t : Nat) (cid : Bytes) (b : CallBody) (hc : cid.length = Token.callIdLen) (hb : b.WF) :
    unpackCallPlain (packCallPlain t cid b) = .ok (cid, b) := by
  obtain ⟨h1, h2, h3, h4, h5⟩ := hb
  obtain ⟨s1, s2, s3, s4, s5⟩ := b
  simp only at h1 h2 h3 h4 h5
  generalize hp : packCallPlain t cid ⟨s1, s2, s3, s4, s5⟩ = p
  have hts : (leBytes Token.tsFmtWidth t).length = 8 := length_leBytes _ _
  have hc' : cid.length = 16 := hc
  have hlen : p.length = 8 + 16 + (4 + s1.length) + (4 + s2.length) + (4 + s3.length) + (4 + s4.length) + (4 + s5.length) := by
    subst hp; simp [packCallPlain, length_packSeg, hts, hc', c_headerLen]; omega
  -- the five reads
  have r1 : readSegment p (Token.timestampLen + Token.callIdLen) = .ok (s1, 24 + 4 + s1.length) := by
    have e : p = (leBytes Token.tsFmtWidth t ++ cid) ++ (packSeg s1 ++ (packSeg s2 ++ (packSeg s3 ++ (packSeg s4 ++ packSeg s5)))) := by
      subst hp; simp [packCallPlain]
    have l : (leBytes Token.tsFmtWidth t ++ cid).length = Token.timestampLen + Token.callIdLen := by simp [hts, hc']; rfl
    exact readSegment_at p _ s1 _ _ e l h1
  have r2 : readSegment p (24 + 4 + s1.length) = .ok (s2, 24 + 4 + s1.length + 4 + s2.length) := by
    have e : p = (leBytes Token.tsFmtWidth t ++ cid ++ packSeg s1) ++ (packSeg s2 ++ (packSeg s3 ++ (packSeg s4 ++ packSeg s5))) := by
      subst hp; simp [packCallPlain]
    have l : (leBytes Token.tsFmtWidth t ++ cid ++ packSeg s1).length = 24 + 4 + s1.length := by
      simp [hts, hc', length_packSeg, c_headerLen]; omega
    exact readSegment_at p _ s2 _ _ e l h2
  have r3 : readSegment p (24 + 4 + s1.length + 4 + s2.length) = .ok (s3, 24 + 4 + s1.length + 4 + s2.length + 4 + s3.length) := by
    have e : p = (leBytes Token.tsFmtWidth t ++ cid ++ packSeg s1 ++ packSeg s2) ++ (packSeg s3 ++ (packSeg s4 ++ packSeg s5)) := by
      subst hp; simp [packCallPlain]
    have l : (leBytes Token.tsFmtWidth t ++ cid ++ packSeg s1 ++ packSeg s2).length = 24 + 4 + s1.length + 4 + s2.length := by
      simp [hts, hc', length_packSeg, c_headerLen]; omega
    exact readSegment_at p _ s3 _ _ e l h3
  have r4 : readSegment p (24 + 4 + s1.length + 4 + s2.length + 4 + s3.length)
      = .ok (s4, 24 + 4 + s1.length + 4 + s2.length + 4 + s3.length + 4 + s4.length) := by
    have e : p = (leBytes Token.tsFmtWidth t ++ cid ++ packSeg s1 ++ packSeg s2 ++ packSeg s3) ++ (packSeg s4 ++ packSeg s5) := by
      subst hp; simp [packCallPlain]
    have l : (leBytes Token.tsFmtWidth t ++ cid ++ packSeg s1 ++ packSeg s2 ++ packSeg s3).length
        = 24 + 4 + s1.length + 4 + s2.length + 4 + s3.length := by
      simp [hts, hc', length_packSeg, c_headerLen]; omega
    exact readSegment_at p _ s4 _ _ e l h4
  have r5 : readSegment p (24 + 4 + s1.length + 4 + s2.length + 4 + s3.length + 4 + s4.length)
      = .ok (s5, 24 + 4 + s1.length + 4 + s2.length + 4 + s3.length + 4 + s4.length + 4 + s5.length) := by
    have e : p = (leBytes Token.tsFmtWidth t ++ cid ++ packSeg s1 ++ packSeg s2 ++ packSeg s3 ++ packSeg s4) ++ (packSeg s5 ++ []) := by
      subst hp; simp [packCallPlain]
    have l : (leBytes Token.tsFmtWidth t ++ cid ++ packSeg s1 ++ packSeg s2 ++ packSeg s3 ++ packSeg s4).length
        = 24 + 4 + s1.length + 4 + s2.length + 4 + s3.length + 4 + s4.length := by
      simp [hts, hc', length_packSeg, c_headerLen]; omega
    exact readSegment_at p _ s5 _ _ e l h5
  have hcid : slice p Token.timestampLen (Token.timestampLen + Token.callIdLen) = cid := by
    have e2 : p = leBytes Token.tsFmtWidth t ++ (cid ++ (packSeg s1 ++ (packSeg s2 ++ (packSeg s3 ++ (packSeg s4 ++ packSeg s5))))) := by
      subst hp; rfl
    have l2 : (leBytes Token.tsFmtWidth t).length = Token.timestampLen := hts
    rw [e2, ← l2, ← hc]; exact slice_at _ _ _
  unfold unpackCallPlain
  have hmin : ¬ p.length < Token.minCallPlaintextLen := by rw [hlen, c_minCall]; omega
  rw [if_neg hmin]
  simp only [r1, r2, r3, r4, r5, hcid]
  have hend : ¬ (24 + 4 + s1.length + 4 + s2.length + 4 + s3.length + 4 + s4.length + 4 + s5.length ≠ p.length) := by
    rw [hlen]; omega
  rw [if_neg hend]

/-! ## totality, codec, TTL -/

/-- after decryption *any* byte string frames to `ok` or to a token rejection — no other exception can escape -/
theorem unpackCursorPlain_total (p : Bytes) :
    (∃ x, unpackCursorPlain p = .ok x) ∨ (∃ r, unpackCursorPlain p = .reject r) := by
  unfold unpackCursorPlain
  split
  · exact Or.inr ⟨_, rfl⟩
  · rcases readSegment_cases p (Token.timestampLen + Token.callIdLen) with ⟨⟨st, e⟩, h⟩ | ⟨r, h⟩
    · rw [h]; simp only; split
      · exact Or.inr ⟨_, rfl⟩
      · exact Or.inl ⟨_, rfl⟩
    · rw [h]; exact Or.inr ⟨_, rfl⟩

theorem unpackCallPlain_total (p : Bytes) :
    (∃ x, unpackCallPlain p = .ok x) ∨ (∃ r, unpackCallPlain p = .reject r) := by
  unfold unpackCallPlain
  split
  · exact Or.inr ⟨_, rfl⟩
  · rcases readSegment_cases p (Token.timestampLen + Token.callIdLen) with ⟨⟨s1, p1⟩, h1⟩ | ⟨r, h1⟩
    · rw [h1]; simp only
      rcases readSegment_cases p p1 with ⟨⟨s2, p2⟩, h2⟩ | ⟨r, h2⟩
      · rw [h2]; simp only
        rcases readSegment_cases p p2 with ⟨⟨s3, p3⟩, h3⟩ | ⟨r, h3⟩
        · rw [h3]; simp only
          rcases readSegment_cases p p3 with ⟨⟨s4, p4⟩, h4⟩ | ⟨r, h4⟩
          · rw [h4]; simp only
            rcases readSegment_cases p p4 with ⟨⟨s5, p5⟩, h5⟩ | ⟨r, h5⟩
            · rw [h5]; simp only; split
              · exact Or.inr ⟨_, rfl⟩
              · exact Or.inl ⟨_, rfl⟩
            · rw [h5]; exact Or.inr ⟨_, rfl⟩
          · rw [h4]; exact Or.inr ⟨_, rfl⟩
        · rw [h3]; exact Or.inr ⟨_, rfl⟩
      · rw [h2]; exact Or.inr ⟨_, rfl⟩
    · rw [h1]; exact Or.inr ⟨_, rfl⟩

theorem unpackTagged_total (z : Zstd) (d : Bytes) :
    (∃ x, unpackTagged z d = .ok x) ∨ (∃ r, unpackTagged z d = .reject r) := by
  unfold unpackTagged
  split
  · exact Or.inr ⟨_, rfl⟩
  · split
    · exact Or.inl ⟨_, rfl⟩
    · split
      · exact Or.inr ⟨_, rfl⟩
      · split
        · exact Or.inr ⟨_, rfl⟩
        · exact Or.inl ⟨_, rfl⟩

/-- codec round trip -/
theorem unpackTagged_pack (z : Zstd) (hz : z.Lawful) (p : Bytes) : unpackTagged z (packTagged z p) = .ok p := by
  unfold packTagged
  simp only
  split
  · unfold unpackTagged
    simp only
    have h1 : ¬ (Token.codecZstd = Token.codecRaw) := by decide
    rw [if_neg h1]
    simp [hz p]
  · unfold unpackTagged
    simp

/-- the minimum-length guards make the timestamp read safe -/
theorem ttlCheck_total (x : Reject) (p : Bytes) (ttl : Nat) (now : Int) (h : Token.tsFmtWidth ≤ p.length) :
    ttlCheck x p ttl now = .ok () ∨ ttlCheck x p ttl now = .reject x := by
  unfold ttlCheck
  split
  · obtain ⟨n, hn⟩ := unpackFrom_isSome Token.tsFmtWidth p 0 (by omega)
    rw [hn]; simp only; split
    · exact Or.inr rfl
    · exact Or.inl rfl
  · exact Or.inl rfl

theorem unpackCursorPlain_ok_len {p : Bytes} {x} (h : unpackCursorPlain p = .ok x) : Token.minCursorPlaintextLen ≤ p.length := by
  unfold unpackCursorPlain at h
  split at h
  · cases h
  · omega

theorem unpackCallPlain_ok_len {p : Bytes} {x} (h : unpackCallPlain p = .ok x) : Token.minCallPlaintextLen ≤ p.length := by
  unfold unpackCallPlain at h
  split at h
  · cases h
  · omega

/-- the TTL test on a plaintext the sealers wrote: `created_at` is read back exactly -/
theorem ttlCheck_packed (x : Reject) (t : Nat) (rest : Bytes) (ttl : Nat) (now : Int) (ht : t < 256 ^ Token.tsFmtWidth) :
    ttlCheck x (leBytes Token.tsFmtWidth t ++ rest) ttl now
      = if ttl > 0 ∧ now - (t : Int) > (ttl : Int) then .reject x else .ok () := by
  unfold ttlCheck
  have := unpackFrom_pack Token.tsFmtWidth t [] rest ht
  simp only [List.nil_append, List.length_nil] at this
  rw [this]
  by_cases h : ttl > 0
  · simp only [h, true_and, if_true]
  · simp [h]


theorem ttlCheckFlat_total (x : Reject) (p : Bytes) (ttl : Nat) (now : Int) (h : Token.tsFmtWidth ≤ p.length) :
    ttlCheckFlat x p ttl now = .ok () ∨ ttlCheckFlat x p ttl now = .reject x := by
  unfold ttlCheckFlat
  obtain ⟨n, hn⟩ := unpackFrom_isSome Token.tsFmtWidth p 0 (by omega)
  rw [hn]; simp only; split
  · exact Or.inr rfl
  · exact Or.inl rfl

theorem ttlCheckFlat_packed (x : Reject) (t : Nat) (rest : Bytes) (ttl : Nat) (now : Int) (ht : t < 256 ^ Token.tsFmtWidth) :
    ttlCheckFlat x (leBytes Token.tsFmtWidth t ++ rest) ttl now
      = if ttl > 0 ∧ now - (t : Int) > (ttl : Int) then .reject x else .ok () := by
  unfold ttlCheckFlat
  have := unpackFrom_pack Token.tsFmtWidth t [] rest ht
  simp only [List.nil_append, List.length_nil] at this
  rw [this]

/-- whichever shape the call opener's TTL test has, it behaves the same on plaintexts long enough … -/
theorem callTtlCheck_total (p : Bytes) (ttl : Nat) (now : Int) (h : Token.tsFmtWidth ≤ p.length) :
    callTtlCheck p ttl now = .ok () ∨ callTtlCheck p ttl now = .reject .callExpired := by
  unfold callTtlCheck
  split
  · exact ttlCheckFlat_total _ p ttl now h
  · exact ttlCheck_total _ p ttl now h

/-- … and reads `created_at` back exactly from what the sealers wrote -/
theorem callTtlCheck_packed (t : Nat) (rest : Bytes) (ttl : Nat) (now : Int) (ht : t < 256 ^ Token.tsFmtWidth) :
    callTtlCheck (leBytes Token.tsFmtWidth t ++ rest) ttl now
      = if ttl > 0 ∧ now - (t : Int) > (ttl : Int) then .reject .callExpired else .ok () := by
  unfold callTtlCheck
  split
  · exact ttlCheckFlat_packed _ t rest ttl now ht
  · exact ttlCheck_packed _ t rest ttl now ht

theorem createdAtOf_packed (t : Nat) (rest : Bytes) (ht : t < 256 ^ Token.tsFmtWidth) :
    createdAtOf (leBytes Token.tsFmtWidth t ++ rest) = t := by
  unfold createdAtOf
  rw [List.take_left' (length_leBytes _ _), leVal_leBytes _ _ ht]

/-! ## identity -/

theorem utf8_eq_toByteArray (s : List Char) : utf8 s = (String.ofList s).toByteArray.data.toList := by
  rw [String.toByteArray_ofList]
  simp [utf8, List.utf8Encode]

/-- `str.encode()` is injective (core: `String.toByteArray_inj`) -/
theorem utf8_inj {s t : List Char} (h : utf8 s = utf8 t) : s = t := by
  rw [utf8_eq_toByteArray, utf8_eq_toByteArray] at h
  have h1 : (String.ofList s).toByteArray = (String.ofList t).toByteArray := by
    apply ByteArray.ext
    exact Array.toList_inj.mp h
  have h2 := String.toByteArray_inj.mp h1
  have := congrArg String.toList h2
  simpa using this

theorem utf8_append (s t : List Char) : utf8 (s ++ t) = utf8 s ++ utf8 t := by
  simp [utf8]

/-- a NUL byte in the encoding of one character means the character is U+0000 -/
theorem zero_mem_utf8EncodeChar {c : Char} (h : (0 : UInt8) ∈ String.utf8EncodeChar c) : c = Char.ofNat 0 := by
  have key : ∀ n : Nat, n < 256 → n ≠ 0 → (0 : UInt8) ≠ UInt8.ofNat n := by
    intro n hn h0 he
    have := congrArg UInt8.toNat he
    simp [UInt8.toNat_ofNat'] at this
    omega
  unfold String.utf8EncodeChar at h
  simp only at h
  split at h
  · rename_i hv
    simp only [List.mem_singleton] at h
    have := congrArg UInt8.toNat h
    simp only [UInt8.toNat_ofNat'] at this
    have hz : c.val.toNat = 0 := by
      have : (0 : UInt8).toNat = 0 := rfl
      omega
    apply Char.ext
    apply UInt32.toNat_inj.mp
    simpa using hz
  · split at h
    · simp only [List.mem_cons, List.mem_nil_iff, or_false] at h
      rcases h with h | h
      · exact absurd h (key _ (by omega) (by omega))
      · exact absurd h (key _ (by omega) (by omega))
    · split at h
      · simp only [List.mem_cons, List.mem_nil_iff, or_false] at h
        rcases h with h | h | h
        · exact absurd h (key _ (by omega) (by omega))
        · exact absurd h (key _ (by omega) (by omega))
        · exact absurd h (key _ (by omega) (by omega))
      · simp only [List.mem_cons, List.mem_nil_iff, or_false] at h
        rcases h with h | h | h | h
        · exact absurd h (key _ (by omega) (by omega))
        · exact absurd h (key _ (by omega) (by omega))
        · exact absurd h (key _ (by omega) (by omega))
        · exact absurd h (key _ (by omega) (by omega))

/-- UTF-8 of a string without U+0000 has no NUL byte (so Python identifiers, host names … are `NulFree`) -/
theorem nulFree_of_chars {s : List Char} (h : ∀ c ∈ s, c ≠ Char.ofNat 0) : NulFree s := by
  intro hm
  unfold utf8 at hm
  obtain ⟨c, hc, h0⟩ := List.mem_flatMap.mp hm
  exact h c hc (zero_mem_utf8EncodeChar h0)

/-- split at the first separator -/
theorem append_sep_inj {α} {x : α} : ∀ {l₁ l₂ r₁ r₂ : List α}, x ∉ l₁ → x ∉ l₂ →
    l₁ ++ x :: r₁ = l₂ ++ x :: r₂ → l₁ = l₂ ∧ r₁ = r₂
  | [], [], _, _, _, _, h => by simp at h; exact ⟨rfl, h⟩
  | [], b :: l₂, _, _, _, h2, h => by
    simp at h; exact absurd h.1 (by intro e; exact h2 (by simp [e]))
  | a :: l₁, [], _, _, h1, _, h => by
    simp at h; exact absurd h.1 (by intro e; exact h1 (by simp [e]))
  | a :: l₁, b :: l₂, r₁, r₂, h1, h2, h => by
    simp at h
    have := append_sep_inj (l₁ := l₁) (l₂ := l₂) (by intro m; exact h1 (by simp [m])) (by intro m; exact h2 (by simp [m])) h.2
    exact ⟨by rw [h.1, this.1], this.2⟩

theorem identityTail_inj {i j : Identity} (hi : i.NulFreeDomain) (hj : j.NulFreeDomain)
    (h : identityTail i = identityTail j) : i = j := by
  cases i with
  | anonymous =>
    cases j with
    | anonymous => rfl
    | user d p =>
      simp only [identityTail] at h
      have := congrArg List.head? h
      simp only [List.head?_cons] at this
      exact absurd this (by decide)
  | user d p =>
    cases j with
    | anonymous =>
      simp only [identityTail] at h
      have := congrArg List.head? h
      simp only [List.head?_cons] at this
      exact absurd this (by decide)
    | user d' p' =>
      simp only [identityTail, List.cons.injEq, true_and] at h
      have := append_sep_inj (x := Token.identitySep) hi hj h
      rw [utf8_inj this.1, utf8_inj this.2]

/-- **`_compute_aad` is injective** on identities with NUL-free domains -/
theorem aad_inj {i j : Identity} (hi : i.NulFreeDomain) (hj : j.NulFreeDomain) (h : aad i = aad j) : i = j :=
  identityTail_inj hi hj (List.append_cancel_left h)

/-- the extracted layout of the method segment is the terminated one: the *whole* encoded name, then the separator —
    nothing is truncated or padded (a fixed-width field makes this, and with it the injectivity below, fail) -/
theorem methodField_terminated (m : List Char) : methodField m = utf8 m ++ [Token.methodSep] := by
  unfold methodField methodFieldWith
  rw [if_pos (by decide)]

/-- **`_compute_call_aad` is injective** in (method, identity) for NUL-free methods and domains -/
theorem callAad_inj_bound {m m' : List Char} {i j : Identity} (hm : NulFree m) (hm' : NulFree m')
    (hi : i.NulFreeDomain) (hj : j.NulFreeDomain) (h : callAad true m i = callAad true m' j) : m = m' ∧ i = j := by
  unfold callAad at h
  rw [methodField_terminated, methodField_terminated] at h
  have h1 := List.append_cancel_left h
  simp only [if_true, List.append_assoc, List.singleton_append] at h1
  have := append_sep_inj (x := Token.methodSep) hm hm' h1
  exact ⟨utf8_inj this.1, identityTail_inj hi hj this.2⟩

theorem callAad_inj_unbound {m m' : List Char} {i j : Identity}
    (hi : i.NulFreeDomain) (hj : j.NulFreeDomain) (h : callAad false m i = callAad false m' j) : i = j := by
  unfold callAad at h
  have h1 := List.append_cancel_left h
  simpa using identityTail_inj hi hj (by simpa using h1)

/-- **the two AAD kinds are disjoint**: a cursor AAD is never a call AAD (whatever the identities and method) -/
theorem aad_ne_callAad (b : Bool) (m : List Char) (i j : Identity) : aad i ≠ callAad b m j := by
  intro h
  unfold aad callAad at h
  have := congrArg (List.take 9) h
  rw [List.take_append_of_le_length (by decide), List.take_append_of_le_length (by decide)] at this
  revert this; decide


/-- `_CallStateCache._identity` is **not** injective: the anonymous caller and the authenticated identity
    `("", "anonymous")` share a cache key.  (Harmless for C12/C13: the cursor token is opened first and its AAD
    separates the two by the tag byte, see `recover_sound`; relevant to C14.) -/
theorem cacheIdent_collision : cacheIdent .anonymous = cacheIdent (.user [] "anonymous".toList) := rfl

theorem cacheIdent_inj_users {d p d' p' : List Char} (hd : Char.ofNat 0 ∉ d) (hd' : Char.ofNat 0 ∉ d')
    (h : cacheIdent (.user d p) = cacheIdent (.user d' p')) : d = d' ∧ p = p' :=
  append_sep_inj hd hd' h

/-! ## envelopes -/

theorem openBytes_some {t : Tok} {k : KeyId} {a : Bytes} {v : Nat} {p : Bytes} (h : openBytes t k a v = some p) :
    ∃ n, t = .sealed k a v n p := by
  cases t with
  | raw bs => simp [openBytes] at h
  | sealed k' a' v' n p' =>
    simp only [openBytes] at h
    split at h
    · rename_i hc
      obtain ⟨h1, h2, h3⟩ := hc
      simp only [Option.some.injEq] at h
      subst h1 h2 h3 h
      exact ⟨n, rfl⟩
    · cases h

theorem decodeObs_observe {strict : Bool} {E : Wire} {w : Bytes} {t : Tok}
    (h : decodeObs strict (E.observe w) = some t) : E.dec w = some t ∧ (strict = true → E.enc t = w) := by
  unfold decodeObs Wire.observe at h
  simp only at h
  cases hd : E.dec w with
  | none => rw [hd] at h; simp at h
  | some t' =>
    rw [hd] at h
    simp only at h
    split at h
    · cases h
    · rename_i hc
      simp only [Option.some.injEq] at h
      subst h
      refine ⟨rfl, ?_⟩
      intro hs
      subst hs
      simp only [Bool.true_and, Bool.not_eq_true', Bool.not_eq_false] at hc
      simpa using hc

/-- the only server-key envelopes an attacker can present are minted ones -/
theorem known_server_sealed {minted : List Tok} {keys : List KeyId} {k a v n p}
    (h : Known minted keys (.sealed k a v n p)) (hk : k ∉ keys) : Tok.sealed k a v n p ∈ minted := by
  cases h with
  | minted hm => exact hm
  | ownSeal _ _ _ _ hin => exact absurd hin hk

theorem mem_toks {sh : Shape} {z : Zstd} {key : KeyId} {W : World} {t : Tok} (h : t ∈ W.toks sh z key) :
    (∃ cm ∈ W.cursors, t = cm.tok z key) ∨ (∃ km ∈ W.calls, t = km.tok sh z key) := by
  unfold World.toks at h
  rcases List.mem_append.mp h with h | h
  · obtain ⟨cm, hc, e⟩ := List.mem_map.mp h; exact Or.inl ⟨cm, hc, e.symm⟩
  · obtain ⟨km, hc, e⟩ := List.mem_map.mp h; exact Or.inr ⟨km, hc, e.symm⟩

/-- token age test, as the property states it -/
def Fresh (ttl : Nat) (now : Int) (t : Nat) : Prop := ttl = 0 ∨ now - (t : Int) ≤ (ttl : Int)

theorem openCursorObs_ok {strict : Bool} {z : Zstd} {key : KeyId} {a : Bytes} {ttl : Nat} {now : Int} {o : WireObs}
    {x : Bytes × Bytes} (h : openCursorObs strict z key a ttl now o = .ok x) :
    ∃ t n sp plain, decodeObs strict o = some t ∧ t = .sealed key a Token.cursorTokenVersion n sp ∧
      unpackTagged z sp = .ok plain ∧ unpackCursorPlain plain = .ok x ∧ ttlCheck .curExpired plain ttl now = .ok () := by
  unfold openCursorObs at h
  cases hd : decodeObs strict o with
  | none => rw [hd] at h; cases h
  | some t =>
    rw [hd] at h; simp only at h
    cases ho : openBytes t key a Token.cursorTokenVersion with
    | none => rw [ho] at h; cases h
    | some sp =>
      rw [ho] at h; simp only at h
      obtain ⟨n, ht⟩ := openBytes_some ho
      cases hu : unpackTagged z sp with
      | ok plain =>
        rw [hu] at h; simp only at h
        cases hc : unpackCursorPlain plain with
        | ok r =>
          rw [hc] at h; simp only at h
          cases htl : ttlCheck .curExpired plain ttl now with
          | ok u =>
            rw [htl] at h; simp only at h
            cases h
            exact ⟨t, n, sp, plain, rfl, ht, hu, hc, by cases u; exact htl⟩
          | reject _ => rw [htl] at h; cases h
          | missingCall => rw [htl] at h; cases h
          | decodeError => rw [htl] at h; cases h
          | crash => rw [htl] at h; cases h
        | reject _ => rw [hc] at h; cases h
        | missingCall => rw [hc] at h; cases h
        | decodeError => rw [hc] at h; cases h
        | crash => rw [hc] at h; cases h
      | reject _ => rw [hu] at h; cases h
      | missingCall => rw [hu] at h; cases h
      | decodeError => rw [hu] at h; cases h
      | crash => rw [hu] at h; cases h

theorem openCallObs_ok {strict : Bool} {z : Zstd} {key : KeyId} {a : Bytes} {ttl : Nat} {now : Int} {o : WireObs}
    {x : Bytes × CallBody × Nat} (h : openCallObs strict z key a ttl now o = .ok x) :
    ∃ t n sp plain, decodeObs strict o = some t ∧ t = .sealed key a Token.callTokenVersion n sp ∧
      unpackTagged z sp = .ok plain ∧ unpackCallPlain plain = .ok (x.1, x.2.1) ∧ callTtlCheck plain ttl now = .ok () ∧
      x.2.2 = createdAtOf plain := by
  unfold openCallObs at h
  cases hd : decodeObs strict o with
  | none => rw [hd] at h; cases h
  | some t =>
    rw [hd] at h; simp only at h
    cases ho : openBytes t key a Token.callTokenVersion with
    | none => rw [ho] at h; cases h
    | some sp =>
      rw [ho] at h; simp only at h
      obtain ⟨n, ht⟩ := openBytes_some ho
      cases hu : unpackTagged z sp with
      | ok plain =>
        rw [hu] at h; simp only at h
        cases hc : unpackCallPlain plain with
        | ok r =>
          rw [hc] at h; simp only at h
          cases htl : callTtlCheck plain ttl now with
          | ok u =>
            rw [htl] at h; simp only at h
            cases h
            exact ⟨t, n, sp, plain, rfl, ht, hu, hc, by cases u; exact htl, rfl⟩
          | reject _ => rw [htl] at h; cases h
          | missingCall => rw [htl] at h; cases h
          | decodeError => rw [htl] at h; cases h
          | crash => rw [htl] at h; cases h
        | reject _ => rw [hc] at h; cases h
        | missingCall => rw [hc] at h; cases h
        | decodeError => rw [hc] at h; cases h
        | crash => rw [hc] at h; cases h
      | reject _ => rw [hu] at h; cases h
      | missingCall => rw [hu] at h; cases h
      | decodeError => rw [hu] at h; cases h
      | crash => rw [hu] at h; cases h

theorem fresh_of_ttlCheck {x : Reject} {t : Nat} {rest : Bytes} {ttl : Nat} {now : Int} (ht : t < 256 ^ Token.tsFmtWidth)
    (h : ttlCheck x (leBytes Token.tsFmtWidth t ++ rest) ttl now = .ok ()) : Fresh ttl now t := by
  rw [ttlCheck_packed x t rest ttl now ht] at h
  unfold Fresh
  by_cases hc : ttl > 0 ∧ now - (t : Int) > (ttl : Int)
  · rw [if_pos hc] at h; cases h
  · by_cases h0 : ttl = 0
    · exact Or.inl h0
    · right
      have : ¬ (now - (t : Int) > (ttl : Int)) := fun g => hc ⟨by omega, g⟩
      omega

theorem fresh_of_callTtlCheck {t : Nat} {rest : Bytes} {ttl : Nat} {now : Int} (ht : t < 256 ^ Token.tsFmtWidth)
    (h : callTtlCheck (leBytes Token.tsFmtWidth t ++ rest) ttl now = .ok ()) : Fresh ttl now t := by
  rw [callTtlCheck_packed t rest ttl now ht] at h
  unfold Fresh
  by_cases hc : ttl > 0 ∧ now - (t : Int) > (ttl : Int)
  · rw [if_pos hc] at h; cases h
  · by_cases h0 : ttl = 0
    · exact Or.inl h0
    · right
      have : ¬ (now - (t : Int) > (ttl : Int)) := fun g => hc ⟨by omega, g⟩
      omega

/-- **cursor side**: an opened cursor token is a minted one — same text, same identity, unexpired, and the server
    reads exactly the state and call id it sealed -/
theorem openCursor_sound {sh : Shape} {E : Wire} {z : Zstd} {srv : Server} {keys : List KeyId} {W : World}
    {who : Identity} {now : Int} {w : Bytes} {st cid : Bytes}
    (hz : z.Lawful) (hk : srv.key ∉ keys) (hwf : ∀ cm ∈ W.cursors, cm.WF)
    (hknown : ∀ t, E.dec w = some t → Known (W.toks sh z srv.key) keys t) (hnf : who.NulFreeDomain)
    (h : openCursorObs sh.strictB64 z srv.key (aad who) srv.ttl now (E.observe w) = .ok (st, cid)) :
    ∃ cm ∈ W.cursors, E.dec w = some (cm.tok z srv.key) ∧ (sh.strictB64 = true → w = E.enc (cm.tok z srv.key)) ∧
      cm.who = who ∧ cm.state = st ∧ cm.callId = cid ∧ Fresh srv.ttl now cm.t := by
  obtain ⟨t, n, sp, plain, hd, ht, hu, hc, htl⟩ := openCursorObs_ok h
  obtain ⟨hdec, hcanon⟩ := decodeObs_observe hd
  have hkn := hknown t hdec
  subst ht
  have hmem := known_server_sealed hkn hk
  rcases mem_toks hmem with ⟨cm, hcm, e⟩ | ⟨km, _, e⟩
  · refine ⟨cm, hcm, ?_, ?_, ?_⟩
    · rw [hdec, e]
    · intro hs; rw [← e]; exact (hcanon hs).symm
    · unfold CursorMint.tok at e
      simp only [Tok.sealed.injEq, true_and] at e
      obtain ⟨ha, _, hp⟩ := e
      obtain ⟨w1, w2, w3, w4⟩ := hwf cm hcm
      have hwho : cm.who = who := (aad_inj hnf w4 ha).symm
      subst hp
      rw [unpackTagged_pack z hz] at hu
      cases hu
      rw [unpackCursorPlain_pack cm.t cm.callId cm.state w1 w3] at hc
      cases hc
      exact ⟨hwho, rfl, rfl, fresh_of_ttlCheck w2 htl⟩
  · unfold CallMint.tok at e
    simp only [Tok.sealed.injEq, true_and] at e
    exact absurd e.1 (aad_ne_callAad _ _ _ _)

/-- **call side** -/
theorem openCall_sound {sh : Shape} {E : Wire} {z : Zstd} {srv : Server} {keys : List KeyId} {W : World}
    {who : Identity} {m : List Char} {now : Int} {w : Bytes} {cid : Bytes} {body : CallBody} {created : Nat}
    (hz : z.Lawful) (hk : srv.key ∉ keys) (hwf : ∀ km ∈ W.calls, km.WF)
    (hknown : ∀ t, E.dec w = some t → Known (W.toks sh z srv.key) keys t) (hnf : who.NulFreeDomain) (hnm : NulFree m)
    (h : openCallObs sh.strictB64 z srv.key (callAad sh.methodBound m who) srv.ttl now (E.observe w) = .ok (cid, body, created)) :
    ∃ km ∈ W.calls, E.dec w = some (km.tok sh z srv.key) ∧ (sh.strictB64 = true → w = E.enc (km.tok sh z srv.key)) ∧
      km.who = who ∧ (sh.methodBound = true → km.method = m) ∧ km.callId = cid ∧ km.body = body ∧ Fresh srv.ttl now km.t ∧
      created = km.t := by
  obtain ⟨t, n, sp, plain, hd, ht, hu, hc, htl, hcr⟩ := openCallObs_ok h
  simp only at hc hcr
  obtain ⟨hdec, hcanon⟩ := decodeObs_observe hd
  have hkn := hknown t hdec
  subst ht
  have hmem := known_server_sealed hkn hk
  rcases mem_toks hmem with ⟨cm, _, e⟩ | ⟨km, hkm, e⟩
  · unfold CursorMint.tok at e
    simp only [Tok.sealed.injEq, true_and] at e
    exact absurd e.1.symm (aad_ne_callAad _ _ _ _)
  · refine ⟨km, hkm, ?_, ?_, ?_⟩
    · rw [hdec, e]
    · intro hs; rw [← e]; exact (hcanon hs).symm
    · unfold CallMint.tok at e
      simp only [Tok.sealed.injEq, true_and] at e
      obtain ⟨ha, _, hp⟩ := e
      obtain ⟨w1, w2, w3, w4, w5⟩ := hwf km hkm
      have hid : km.who = who ∧ (sh.methodBound = true → km.method = m) := by
        cases hb : sh.methodBound with
        | true =>
          rw [hb] at ha
          have := callAad_inj_bound hnm w5 hnf w4 ha
          exact ⟨this.2.symm, fun _ => this.1.symm⟩
        | false =>
          rw [hb] at ha
          exact ⟨(callAad_inj_unbound hnf w4 ha).symm, fun g => by cases g⟩
      subst hp
      rw [unpackTagged_pack z hz] at hu
      cases hu
      rw [unpackCallPlain_pack km.t km.callId km.body w1 w3] at hc
      cases hc
      refine ⟨hid.1, hid.2, rfl, rfl, fresh_of_callTtlCheck w2 htl, ?_⟩
      rw [hcr]; exact createdAtOf_packed _ _ w2


/-! ## the invariant of the token system -/

structure Inv (sh : Shape) (ttl : Nat) (W : World) : Prop where
  wfc : ∀ cm ∈ W.cursors, cm.WF
  wfk : ∀ km ∈ W.calls, km.WF
  /-- call ids are unique (they are fresh 16-byte random values) -/
  distinct : ∀ a ∈ W.calls, ∀ b ∈ W.calls, a.callId = b.callId → a = b
  /-- every cursor belongs to a call minted for the same identity (and, when bound, by the same method) -/
  owner : ∀ cm ∈ W.cursors, ∃ km ∈ W.calls, km.callId = cm.callId ∧ km.who = cm.who ∧
            (sh.methodBound = true → km.method = cm.method)
  /-- every cache entry was put for a minted call, and — when tokens expire — does not outlive that call's token -/
  cache : ∀ i cid s exp e, W.caches i cid s = some (exp, e) → ∃ km ∈ W.calls, km.callId = cid ∧ cacheIdent km.who = s ∧
            km.body = e.body ∧ (sh.methodBound = true → km.method = e.method) ∧
            (ttl > 0 → exp ≤ (km.t : Int) + (ttl : Int))

/-- what an accepted request is, in terms of the history: the cursor mint `cm` and the call mint `km` behind it -/
structure SoundFor (sh : Shape) (E : Wire) (z : Zstd) (srv : Server) (r : Req) (acc : Accepted)
    (cm : CursorMint) (km : CallMint) : Prop where
  cursorDec : E.dec r.cursor = some (cm.tok z srv.key)
  cursorText : sh.strictB64 = true → r.cursor = E.enc (cm.tok z srv.key)
  cursorWho : cm.who = r.who
  cursorState : cm.state = acc.state
  cursorCall : cm.callId = acc.callId
  cursorFresh : Fresh srv.ttl r.now cm.t
  callId : km.callId = acc.callId
  callWho : km.who = r.who
  callBody : km.body = acc.entry.body
  /-- the stream's call token is within the TTL — on a cache hit as well (the entry does not outlive the token) -/
  callFresh : Fresh srv.ttl r.now km.t
  method : sh.methodBound = true → km.method = r.method ∧ cm.method = r.method ∧ acc.entry.method = r.method
  miss : acc.hit = false → acc.created = km.t ∧ ∃ cw, r.call = some cw ∧ E.dec cw = some (km.tok sh z srv.key) ∧
           (sh.strictB64 = true → cw = E.enc (km.tok sh z srv.key))

def Sound (sh : Shape) (E : Wire) (z : Zstd) (srv : Server) (W : World) (r : Req) (acc : Accepted) : Prop :=
  ∃ cm ∈ W.cursors, ∃ km ∈ W.calls, SoundFor sh E z srv r acc cm km

theorem finishRecover_ok {D : Decoders} {st cid : Bytes} {e : CacheEntry} {hit : Bool} {created : Nat}
    {effs0 effs : List Effect} {acc : Accepted}
    (h : finishRecover D st cid e hit created effs0 = (effs, .ok acc)) : acc = ⟨st, cid, e, hit, created⟩ := by
  unfold finishRecover at h
  simp only [Prod.mk.injEq] at h
  obtain ⟨_, h2⟩ := h
  split at h2
  · cases h2; rfl
  · cases h2

theorem cache_get_some {c : Cache} {cid : Bytes} {s : List Char} {now : Int} {e : CacheEntry}
    (h : c.get cid s now = some e) : ∃ exp, c cid s = some (exp, e) ∧ now < exp := by
  unfold Cache.get at h
  cases hc : c cid s with
  | none => rw [hc] at h; cases h
  | some p =>
    obtain ⟨exp, e'⟩ := p
    rw [hc] at h; simp only at h
    split at h
    · cases h
    · rename_i hlt
      cases h
      exact ⟨exp, rfl, by omega⟩

theorem resolveCallFromToken_ok {sh : Shape} {z : Zstd} {D : Decoders} {srv : Server} {r : ReqObs} {expected : Bytes}
    {e : CacheEntry} {created : Nat} (h : resolveCallFromToken sh z D srv r expected = .ok (e, created)) :
    ∃ co body, r.call = some co ∧
      openCallObs sh.strictB64 z srv.key (callAad sh.methodBound r.method r.who) srv.ttl r.now co = .ok (expected, body, created) ∧
      e = ⟨r.method, body⟩ := by
  unfold resolveCallFromToken at h
  cases hcall : r.call with
  | none => rw [hcall] at h; cases h
  | some co =>
    rw [hcall] at h; simp only at h
    cases ho : openCallObs sh.strictB64 z srv.key (callAad sh.methodBound r.method r.who) srv.ttl r.now co with
    | ok y =>
      obtain ⟨cid', body, cr⟩ := y
      rw [ho] at h; simp only at h
      split at h
      · cases h
      · rename_i hpair
        split at h
        · cases h
          have : cid' = expected := by simpa using hpair
          subst this
          exact ⟨co, body, rfl, ho, rfl⟩
        · cases h
    | reject _ => rw [ho] at h; cases h
    | missingCall => rw [ho] at h; cases h
    | decodeError => rw [ho] at h; cases h
    | crash => rw [ho] at h; cases h

/-- the two ways `_unpack_and_recover_state` accepts -/
theorem recoverObs_ok {sh : Shape} {z : Zstd} {D : Decoders} {srv : Server} {cache : Cache} {r : ReqObs}
    {effs : List Effect} {acc : Accepted} (h : recoverObs sh z D srv cache r = (effs, .ok acc)) :
    ∃ st cid, openCursorObs sh.strictB64 z srv.key (aad r.who) srv.ttl r.now r.cursor = .ok (st, cid) ∧
      ((∃ e, cache.get cid (cacheIdent r.who) r.now = some e ∧ acc = ⟨st, cid, e, true, 0⟩ ∧
          (sh.methodBound = true → e.method = r.method) ∧ D.hitTypeDeclared e = true) ∨
       (cache.get cid (cacheIdent r.who) r.now = none ∧ ∃ e created, resolveCallFromToken sh z D srv r cid = .ok (e, created) ∧
          acc = ⟨st, cid, e, false, created⟩)) := by
  unfold recoverObs at h
  cases hc : openCursorObs sh.strictB64 z srv.key (aad r.who) srv.ttl r.now r.cursor with
  | ok x =>
    obtain ⟨st, cid⟩ := x
    rw [hc] at h; simp only at h
    refine ⟨st, cid, rfl, ?_⟩
    cases hl : cache.get cid (cacheIdent r.who) r.now with
    | some e =>
      rw [hl] at h; simp only at h
      split at h
      · simp at h
      · rename_i hmc
        split at h
        · simp at h
        · rename_i htd
          refine Or.inl ⟨e, rfl, finishRecover_ok h, ?_, by simpa using htd⟩
          intro hb
          rw [hb] at hmc
          simpa using hmc
    | none =>
      rw [hl] at h; simp only at h
      cases hr : resolveCallFromToken sh z D srv r cid with
      | ok y =>
        obtain ⟨e, created⟩ := y
        rw [hr] at h; simp only at h
        exact Or.inr ⟨rfl, e, created, rfl, finishRecover_ok h⟩
      | reject _ => rw [hr] at h; simp at h
      | missingCall => rw [hr] at h; simp at h
      | decodeError => rw [hr] at h; simp at h
      | crash => rw [hr] at h; simp at h
  | reject _ => rw [hc] at h; simp at h
  | missingCall => rw [hc] at h; simp at h
  | decodeError => rw [hc] at h; simp at h
  | crash => rw [hc] at h; simp at h

theorem recover_sound {sh : Shape} {E : Wire} {z : Zstd} {D : Decoders} {srv : Server} {keys : List KeyId} {W : World}
    {i : Nat} {r : Req} {effs : List Effect} {acc : Accepted}
    (hinv : Inv sh srv.ttl W) (hz : z.Lawful) (hk : srv.key ∉ keys)
    (hknown : ReqKnown E (W.toks sh z srv.key) keys r) (hnf : r.who.NulFreeDomain) (hnm : NulFree r.method)
    (h : recover sh E z D srv (W.caches i) r = (effs, .ok acc)) : Sound sh E z srv W r acc := by
  unfold recover at h
  obtain ⟨st, cid, hc, hcase⟩ := recoverObs_ok h
  have hc' : openCursorObs sh.strictB64 z srv.key (aad r.who) srv.ttl r.now (E.observe r.cursor) = .ok (st, cid) := hc
  obtain ⟨cm, hcm, c1, c2, c3, c4, c5, c6⟩ := openCursor_sound hz hk hinv.wfc hknown.1 hnf hc'
  obtain ⟨km1, hkm1, o1, o2, o3⟩ := hinv.owner cm hcm
  rcases hcase with ⟨e, hl, hacc, hme, _⟩ | ⟨hl, e, created, hr, hacc⟩
  · have hl' : (W.caches i).get cid (cacheIdent r.who) r.now = some e := hl
    have hme' : sh.methodBound = true → e.method = r.method := hme
    obtain ⟨exp, hraw, hlive⟩ := cache_get_some hl'
    obtain ⟨km0, hkm0, k1, k2, k3, k4, k5⟩ := hinv.cache i cid _ exp e hraw
    have heq : km0 = km1 := hinv.distinct km0 hkm0 km1 hkm1 (by rw [k1, o1, c5])
    subst heq
    subst hacc
    have hfresh : Fresh srv.ttl r.now km0.t := by
      unfold Fresh
      by_cases h0 : srv.ttl = 0
      · exact Or.inl h0
      · right
        have := k5 (by omega)
        omega
    refine ⟨cm, hcm, km0, hkm0, ?_⟩
    exact SoundFor.mk c1 c2 c3 c4 c5 c6 k1 (by rw [o2, c3]) k3 hfresh
      (fun hb => ⟨by rw [k4 hb]; exact hme' hb, by rw [← o3 hb, k4 hb]; exact hme' hb, hme' hb⟩)
      (fun hh => by cases hh)
  · obtain ⟨co, body, hcall, ho, he⟩ := resolveCallFromToken_ok hr
    have hcall' : r.call.map E.observe = some co := hcall
    cases hrc : r.call with
    | none => rw [hrc] at hcall'; cases hcall'
    | some cw =>
      rw [hrc] at hcall'
      simp only [Option.map, Option.some.injEq] at hcall'
      subst hcall'
      have ho' : openCallObs sh.strictB64 z srv.key (callAad sh.methodBound r.method r.who) srv.ttl r.now (E.observe cw)
          = .ok (cid, body, created) := ho
      obtain ⟨km, hkm, d1, d2, d3, d4, d5, d6, d7, d8⟩ :=
        openCall_sound hz hk hinv.wfk (fun t ht => hknown.2 cw t hrc ht) hnf hnm ho'
      have heq : km = km1 := hinv.distinct km hkm km1 hkm1 (by rw [d5, o1, c5])
      subst heq
      subst hacc
      have hem : e.method = r.method := by rw [he]; rfl
      have heb : e.body = body := by rw [he]
      refine ⟨cm, hcm, km, hkm, ?_⟩
      exact SoundFor.mk c1 c2 c3 c4 c5 c6 d5 d3 (by rw [d6, heb]) d7
        (fun hb => ⟨d4 hb, by rw [← o3 hb]; exact d4 hb, hem⟩)
        (fun _ => ⟨d8, cw, hrc, d1, d2⟩)

theorem inv_empty (sh : Shape) (ttl : Nat) : Inv sh ttl World.empty :=
  { wfc := by intro cm h; cases h
    wfk := by intro km h; cases h
    distinct := by intro a h; cases h
    owner := by intro cm h; cases h
    cache := by intro i cid s exp e h; simp [World.empty] at h }

theorem cacheDeadline_le (ttl : Nat) (t : Nat) (now : Int) (h : ttl > 0) : cacheDeadline ttl t now ≤ (t : Int) + (ttl : Int) := by
  unfold cacheDeadline; rw [if_pos h]; omega

theorem step_inv {sh : Shape} {E : Wire} {z : Zstd} {D : Decoders} {srv : Server} {keys : List KeyId} {W W' : World}
    (hz : z.Lawful) (hk : srv.key ∉ keys) (hinv : Inv sh srv.ttl W) (hs : Step sh E z D srv keys W W') : Inv sh srv.ttl W' := by
  cases hs with
  | init i km cur now hwf hfresh hcur =>
    refine { wfc := ?_, wfk := ?_, distinct := ?_, owner := ?_, cache := ?_ }
    · intro cm hcm
      simp only at hcm
      rcases List.mem_append.mp hcm with h | h
      · cases cur with
        | none => cases h
        | some c =>
          obtain ⟨t, st, n⟩ := c
          simp only [List.mem_singleton] at h
          subst h
          have := hcur _ rfl
          exact ⟨hwf.1, this.1, this.2, hwf.2.2.2.1⟩
      · exact hinv.wfc cm h
    · intro k hk'
      simp only [List.mem_cons] at hk'
      rcases hk' with h | h
      · subst h; exact hwf
      · exact hinv.wfk k h
    · intro a ha b hb hab
      simp only [List.mem_cons] at ha hb
      rcases ha with ha | ha <;> rcases hb with hb | hb
      · rw [ha, hb]
      · subst ha; exact absurd hab.symm (hfresh b hb)
      · subst hb; exact absurd hab (hfresh a ha)
      · exact hinv.distinct a ha b hb hab
    · intro cm hcm
      simp only at hcm
      rcases List.mem_append.mp hcm with h | h
      · cases cur with
        | none => cases h
        | some c =>
          obtain ⟨t, st, n⟩ := c
          simp only [List.mem_singleton] at h
          subst h
          exact ⟨km, by simp, rfl, rfl, fun _ => rfl⟩
      · obtain ⟨k, hk', r⟩ := hinv.owner cm h
        exact ⟨k, by simp [hk'], r⟩
    · intro j cid s exp e hl
      simp only [setCache] at hl
      by_cases hj : j = i
      · rw [if_pos hj] at hl
        unfold Cache.put at hl
        split at hl
        · rename_i hc
          simp only [Option.some.injEq, Prod.mk.injEq] at hl
          obtain ⟨hexp, he⟩ := hl
          subst he
          refine ⟨km, by simp, hc.1.symm, hc.2.symm, rfl, fun _ => rfl, ?_⟩
          intro hpos; rw [← hexp]; exact cacheDeadline_le _ _ _ hpos
        · obtain ⟨k, hk', r⟩ := hinv.cache i cid s exp e hl
          exact ⟨k, by simp [hk'], r⟩
      · rw [if_neg hj] at hl
        obtain ⟨k, hk', r⟩ := hinv.cache j cid s exp e hl
        exact ⟨k, by simp [hk'], r⟩
  | turn i r acc effs next hknown hnf hnm hrec hnext =>
    obtain ⟨cm, hcm, km, hkm, S⟩ := recover_sound hinv hz hk hknown hnf hnm hrec
    refine { wfc := ?_, wfk := hinv.wfk, distinct := hinv.distinct, owner := ?_, cache := ?_ }
    · intro c hc
      simp only at hc
      rcases List.mem_append.mp hc with h | h
      · cases next with
        | none => cases h
        | some x =>
          obtain ⟨t, st, n⟩ := x
          simp only [List.mem_singleton] at h
          subst h
          have := hnext _ rfl
          have w := hinv.wfc cm hcm
          exact ⟨by rw [← S.cursorCall]; exact w.1, this.1, this.2, hnf⟩
      · exact hinv.wfc c h
    · intro c hc
      simp only at hc
      rcases List.mem_append.mp hc with h | h
      · cases next with
        | none => cases h
        | some x =>
          obtain ⟨t, st, n⟩ := x
          simp only [List.mem_singleton] at h
          subst h
          exact ⟨km, hkm, S.callId, S.callWho, fun hb => (S.method hb).1⟩
      · exact hinv.owner c h
    · intro j cid s exp e hl
      simp only [setCache] at hl
      by_cases hj : j = i
      · rw [if_pos hj] at hl
        cases hh : acc.hit with
        | true => rw [hh] at hl; simp only [if_true] at hl; exact hinv.cache i cid s exp e hl
        | false =>
          rw [hh] at hl; simp only [Bool.false_eq_true, if_false] at hl
          unfold Cache.put at hl
          split at hl
          · rename_i hc
            simp only [Option.some.injEq, Prod.mk.injEq] at hl
            obtain ⟨hexp, he⟩ := hl
            subst he
            refine ⟨km, hkm, ?_, ?_, S.callBody, ?_, ?_⟩
            · rw [S.callId]; exact hc.1.symm
            · rw [S.callWho]; exact hc.2.symm
            · intro hb; rw [(S.method hb).1, (S.method hb).2.2]
            · intro hpos; rw [← hexp, (S.miss hh).1]; exact cacheDeadline_le _ _ _ hpos
          · exact hinv.cache i cid s exp e hl
      · rw [if_neg hj] at hl
        exact hinv.cache j cid s exp e hl
  | evict i c hsub =>
    refine { wfc := hinv.wfc, wfk := hinv.wfk, distinct := hinv.distinct, owner := hinv.owner, cache := ?_ }
    intro j cid s exp e hl
    simp only [setCache] at hl
    by_cases hj : j = i
    · rw [if_pos hj] at hl
      exact hinv.cache i cid s exp e (hsub cid s (exp, e) hl)
    · rw [if_neg hj] at hl
      exact hinv.cache j cid s exp e hl

theorem reachable_inv {sh : Shape} {E : Wire} {z : Zstd} {D : Decoders} {srv : Server} {keys : List KeyId} {W : World}
    (hz : z.Lawful) (hk : srv.key ∉ keys) (h : Reachable sh E z D srv keys W) : Inv sh srv.ttl W := by
  induction h with
  | start => exact inv_empty sh srv.ttl
  | step _ hs ih => exact step_inv hz hk ih hs

end VgiVerif.Token
