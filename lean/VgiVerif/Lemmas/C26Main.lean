import VgiVerif.Lemmas.C26Groups
/-
C26: the main invariant of the model (`MainInv` = ghost state, registry/flag/obligation facts, close counters)
is preserved by every step, given the lock invariant of the source state.
-/
namespace VgiVerif.C26
open VgiVerif.Sched

theorem updP_congr (A : Tid → Sid → Prop) (t : Tid) {B B' : Sid → Prop} (h : ∀ s, B s ↔ B' s) :
    updP A t B = updP A t B' := by
  have : B = B' := funext fun s => propext (h s)
  rw [this]

structure MainInv (st : St) : Prop where
  gi : GI st.dsp st.crun (attrOf Pc.dispatching st.pc) (attrOf Pc.closing st.pc)
  fi : FI st.live st.order st.nextSid st.closedFlag (attrOf Pc.inserting st.pc) (attrOf Pc.owes st.pc)
        (attrOf Pc.readyFor st.pc)
  ci : CI st.closedFlag st.cstart st.cend (attrOf Pc.atOpen st.pc) (attrOf Pc.closing st.pc)

theorem mainInv_init : MainInv ({} : St) := by
  refine ⟨⟨?_, ?_⟩, ⟨?_, ?_, ?_, ?_, ?_, ?_, ?_, ?_, ?_⟩, ⟨?_, ?_, ?_, ?_, ?_, ?_, ?_⟩⟩ <;>
    simp [attrOf, Pc.dispatching, Pc.closing, Pc.inserting, Pc.owes, Pc.readyFor, Pc.atOpen]

/-- a step that changes only one program counter, to one with the same attributes -/
theorem MainInv.same {st : St} (h : MainInv st) {t : Tid} {p' : Pc}
    (h1 : ∀ s, p'.dispatching s ↔ (st.pc t).dispatching s) (h2 : ∀ s, p'.closing s ↔ (st.pc t).closing s)
    (h3 : ∀ s, p'.inserting s ↔ (st.pc t).inserting s) (h4 : ∀ s, p'.owes s ↔ (st.pc t).owes s)
    (h5 : ∀ s, p'.readyFor s ↔ (st.pc t).readyFor s) (h6 : ∀ s, p'.atOpen s ↔ (st.pc t).atOpen s) :
    MainInv { st with pc := upd st.pc t p' } := by
  refine ⟨?_, ?_, ?_⟩ <;> simp only
  · rw [attrOf_upd_same _ _ _ _ h1, attrOf_upd_same _ _ _ _ h2]; exact h.gi
  · rw [attrOf_upd_same _ _ _ _ h3, attrOf_upd_same _ _ _ _ h4, attrOf_upd_same _ _ _ _ h5]; exact h.fi
  · rw [attrOf_upd_same _ _ _ _ h6, attrOf_upd_same _ _ _ _ h2]; exact h.ci

/-- the same for a successor state given by its components -/
theorem MainInv.same' {st st' : St} (h : MainInv st) {t : Tid} {p' : Pc}
    (hpc : st'.pc = upd st.pc t p') (e1 : st'.dsp = st.dsp) (e2 : st'.crun = st.crun) (e3 : st'.live = st.live)
    (e4 : st'.order = st.order) (e5 : st'.nextSid = st.nextSid) (e6 : st'.closedFlag = st.closedFlag)
    (e7 : st'.cstart = st.cstart) (e8 : st'.cend = st.cend)
    (h1 : ∀ s, p'.dispatching s ↔ (st.pc t).dispatching s) (h2 : ∀ s, p'.closing s ↔ (st.pc t).closing s)
    (h3 : ∀ s, p'.inserting s ↔ (st.pc t).inserting s) (h4 : ∀ s, p'.owes s ↔ (st.pc t).owes s)
    (h5 : ∀ s, p'.readyFor s ↔ (st.pc t).readyFor s) (h6 : ∀ s, p'.atOpen s ↔ (st.pc t).atOpen s) :
    MainInv st' := by
  have := h.same h1 h2 h3 h4 h5 h6
  refine ⟨?_, ?_, ?_⟩
  · rw [hpc, e1, e2]; exact this.gi
  · rw [hpc, e3, e4, e5, e6]; exact this.fi
  · rw [hpc, e6, e7, e8]; exact this.ci

/-- discharge the six attribute side conditions of `MainInv.same` for concrete program counters -/
macro "same_attrs" hp:ident : tactic =>
  `(tactic| (intro s; simp [$hp:ident, Pc.dispatching, Pc.closing, Pc.inserting, Pc.owes, Pc.readyFor, Pc.atOpen,
      Cont.isDisp, Cont.owes, afterClose_dispatching, afterClose_closing, afterClose_inserting, afterClose_owes,
      afterClose_readyFor, afterClose_atOpen]))

theorem mainInv_trans {st st' : St} {l : Label} (hn : NoU st) (hl : LockInv st) (h : MainInv st)
    (htr : Trans st l st') : MainInv st' := by
  cases htr with
  | @closeStartU t s c hp | @closeEndU t s c hp => have := hn t; rw [hp] at this; simp [Pc.unlocked] at this
  | tick d => exact ⟨h.gi, h.fi, h.ci⟩
  | mstep => exact h
  | reqBegin hp | delBegin hp | openBegin hp | shutBegin hp | rcSweep hp | rcGet hp | rcOpen hp | rcSeal hp
  | lost hp | closeSessionDisp hp | closeSessionOpened hp | openDone hp =>
    exact h.same (by same_attrs hp) (by same_attrs hp) (by same_attrs hp) (by same_attrs hp) (by same_attrs hp)
      (by same_attrs hp)
  | regRel hp ho =>
    exact h.same' rfl rfl rfl rfl rfl rfl rfl rfl rfl (by same_attrs hp) (by same_attrs hp) (by same_attrs hp)
      (by same_attrs hp) (by same_attrs hp) (by same_attrs hp)
  | entAcqReq hp hacq | entAcqDel hp hacq | entRelClose hp hrel | entRelLost hp hrel | entRelFin hp hrel
  | entRelDel hp hrel =>
    exact h.same' rfl rfl rfl rfl rfl rfl rfl rfl rfl (by same_attrs hp) (by same_attrs hp) (by same_attrs hp)
      (by same_attrs hp) (by same_attrs hp) (by same_attrs hp)
  | @allocSid t exp pm hp =>
    refine ⟨?_, ?_, ?_⟩ <;> simp only
    · rw [attrOf_upd_same _ _ _ _ (by same_attrs hp), attrOf_upd_same _ _ _ _ (by same_attrs hp)]; exact h.gi
    · rw [attrOf_upd_same Pc.owes _ _ _ (by same_attrs hp), attrOf_upd_same Pc.readyFor _ _ _ (by same_attrs hp),
        attrOf_upd]
      have e : Pc.inserting (Pc.openAcq st.nextSid exp pm) = fun s => s = st.nextSid := by
        funext s; simp [Pc.inserting]
      rw [e]
      exact h.fi.alloc t (by intro s; simp [attrOf, hp, Pc.inserting])
    · rw [attrOf_upd_same _ _ _ _ (by same_attrs hp), attrOf_upd_same _ _ _ _ (by same_attrs hp)]; exact h.ci
  | @dispatchBegin t s hp =>
    refine ⟨?_, ?_, ?_⟩ <;> simp only
    · rw [attrOf_upd_same Pc.closing _ _ _ (by same_attrs hp), attrOf_upd]
      refine ⟨?_, h.gi.g2⟩
      intro x y
      rw [upd2_iff]
      by_cases hx : x = t
      · subst hx
        by_cases hy : y = s
        · subst hy; simp [Pc.dispatching]
        · have := h.gi.g1 x y
          simp only [attrOf, hp, Pc.dispatching] at this
          simp [hy, Pc.dispatching, this]
      · simp only [hx, false_and, if_false, updP_other _ _ _ hx]; exact h.gi.g1 x y
    · rw [attrOf_upd_same Pc.inserting _ _ _ (by same_attrs hp), attrOf_upd_same Pc.owes _ _ _ (by same_attrs hp)]
      refine h.fi.unready ?_
      intro x y hxy
      by_cases hx : x = t
      · subst hx; simp [attrOf, Pc.readyFor] at hxy
      · simpa [attrOf, upd_other _ _ hx] using hxy
    · rw [attrOf_upd_same _ _ _ _ (by same_attrs hp), attrOf_upd_same _ _ _ _ (by same_attrs hp)]; exact h.ci
  | @dispatchEnd t s hp =>
    refine ⟨?_, ?_, ?_⟩ <;> simp only
    · rw [attrOf_upd_same Pc.closing _ _ _ (by same_attrs hp), attrOf_upd]
      refine ⟨?_, h.gi.g2⟩
      intro x y
      rw [upd2_iff]
      by_cases hx : x = t
      · subst hx
        by_cases hy : y = s
        · subst hy; simp [Pc.dispatching]
        · have := h.gi.g1 x y
          simp only [attrOf, hp, Pc.dispatching] at this
          simp [hy, Pc.dispatching, this]
      · simp only [hx, false_and, if_false, updP_other _ _ _ hx]; exact h.gi.g1 x y
    · rw [attrOf_upd_same Pc.inserting _ _ _ (by same_attrs hp), attrOf_upd_same Pc.owes _ _ _ (by same_attrs hp),
        attrOf_upd_same Pc.readyFor _ _ _ (by same_attrs hp)]
      exact h.fi
    · rw [attrOf_upd_same _ _ _ _ (by same_attrs hp), attrOf_upd_same _ _ _ _ (by same_attrs hp)]; exact h.ci
  | @regAcq t st1 next hfree hop =>
    generalize hp : st.pc t = p at hop
    cases hop with
    | getMiss hl | getPmiss hl | getHit hl | liveNo hl | csMiss hl | delMiss hl =>
      exact h.same' rfl rfl rfl rfl rfl rfl rfl rfl rfl (by same_attrs hp) (by same_attrs hp) (by same_attrs hp)
        (by same_attrs hp) (by same_attrs hp) (by same_attrs hp)
    | @liveYes s hl =>
      refine ⟨?_, ?_, ?_⟩ <;> simp only
      · rw [attrOf_upd_same _ _ _ _ (by same_attrs hp), attrOf_upd_same _ _ _ _ (by same_attrs hp)]; exact h.gi
      · rw [attrOf_upd_same Pc.inserting _ _ _ (by same_attrs hp), attrOf_upd_same Pc.owes _ _ _ (by same_attrs hp),
          attrOf_upd, updP_congr _ _ (B' := fun x => x = s) (by intro x; simp [Pc.readyFor])]
        exact h.fi.ready t s hl
      · rw [attrOf_upd_same _ _ _ _ (by same_attrs hp), attrOf_upd_same _ _ _ _ (by same_attrs hp)]; exact h.ci
    | @getExpired k s now hl | @csHit s c hl | @delHit s hl =>
      have h2 := h.fi.f2 s hl
      refine ⟨?_, ?_, ?_⟩ <;> simp only
      · rw [attrOf_upd_same _ _ _ _ (by same_attrs hp), attrOf_upd_same _ _ _ _ (by same_attrs hp)]; exact h.gi
      · rw [attrOf_upd_same Pc.inserting _ _ _ (by same_attrs hp), attrOf_upd_same Pc.readyFor _ _ _ (by same_attrs hp),
          attrOf_upd, killAll_single,
          updP_congr _ _ (B' := fun x => attrOf Pc.owes st.pc t x ∨ x ∈ [s])
            (by intro x; simp [attrOf, hp, Pc.owes, Cont.owes, or_comm])]
        exact h.fi.kill t [s] (by intro x hx; simp only [List.mem_singleton] at hx; subst hx; exact ⟨hl, h2⟩)
      · rw [attrOf_upd_same _ _ _ _ (by same_attrs hp), attrOf_upd_same _ _ _ _ (by same_attrs hp)]; exact h.ci
    | popSweep ex hex | popShut ex hex =>
      refine ⟨?_, ?_, ?_⟩ <;> simp only
      · rw [attrOf_upd_same _ _ _ _ (by intro s; simp [hp, Pc.dispatching, closeList_dispatching]),
          attrOf_upd_same _ _ _ _ (by intro s; simp [hp, Pc.closing, closeList_closing])]
        exact h.gi
      · rw [attrOf_upd_same Pc.inserting _ _ _ (by intro s; simp [hp, Pc.inserting, closeList_inserting]),
          attrOf_upd_same Pc.readyFor _ _ _ (by intro s; simp [hp, Pc.readyFor, closeList_readyFor]),
          attrOf_upd,
          updP_congr _ _ (B' := fun x => attrOf Pc.owes st.pc t x ∨ x ∈ ex)
            (by intro x; simp [attrOf, hp, Pc.owes, closeList_owes])]
        exact h.fi.kill t ex hex
      · rw [attrOf_upd_same _ _ _ _ (by intro s; simp [hp, Pc.atOpen, closeList_atOpen]),
          attrOf_upd_same _ _ _ _ (by intro s; simp [hp, Pc.closing, closeList_closing])]
        exact h.ci
    | @insert s exp pm =>
      refine ⟨?_, ?_, ?_⟩ <;> simp only
      · rw [attrOf_upd_same _ _ _ _ (by same_attrs hp), attrOf_upd_same _ _ _ _ (by same_attrs hp)]; exact h.gi
      · rw [attrOf_upd_same Pc.owes _ _ _ (by same_attrs hp), attrOf_upd_same Pc.readyFor _ _ _ (by same_attrs hp),
          attrOf_upd, updP_congr _ _ (B' := fun _ => False) (by intro x; simp [Pc.inserting])]
        exact h.fi.insert t s (by simp [attrOf, hp, Pc.inserting])
      · rw [attrOf_upd_same _ _ _ _ (by same_attrs hp), attrOf_upd_same _ _ _ _ (by same_attrs hp)]; exact h.ci
  | @entAcqSkip t s c l hp hacq hc =>
    refine ⟨?_, ?_, ?_⟩ <;> simp only
    · rw [attrOf_upd_same _ _ _ _ (by same_attrs hp), attrOf_upd_same _ _ _ _ (by same_attrs hp)]; exact h.gi
    · rw [attrOf_upd_same Pc.inserting _ _ _ (by same_attrs hp), attrOf_upd_same Pc.readyFor _ _ _ (by same_attrs hp),
        attrOf_upd]
      exact h.fi.acqSkip t s (by intro x hx; simp only [attrOf, hp, Pc.owes] at hx ⊢; exact Or.inr hx)
        (by intro x hx; simp only [attrOf, hp, Pc.owes] at hx ⊢; rcases hx with hx | hx; exact Or.inr hx; exact Or.inl hx) hc
    · rw [attrOf_upd_same _ _ _ _ (by same_attrs hp), attrOf_upd_same _ _ _ _ (by same_attrs hp)]; exact h.ci
  | @entAcqClose t s c l hp hacq hc =>
    have hA := RLock.acquire_eq_some hacq
    refine ⟨?_, ?_, ?_⟩ <;> simp only
    · rw [attrOf_upd_same _ _ _ _ (by same_attrs hp), attrOf_upd_same _ _ _ _ (by same_attrs hp)]; exact h.gi
    · rw [attrOf_upd_same Pc.inserting _ _ _ (by same_attrs hp), attrOf_upd_same Pc.readyFor _ _ _ (by same_attrs hp),
        attrOf_upd]
      refine h.fi.acqClose t s (by intro x hx; simp only [attrOf, hp, Pc.owes] at hx ⊢; exact Or.inr hx)
        (by intro x hx; simp only [attrOf, hp, Pc.owes] at hx ⊢; rcases hx with hx | hx; exact Or.inr hx; exact Or.inl hx)
        (by simp [attrOf, hp, Pc.owes]) ?_
      intro x hx
      -- a thread ready to dispatch on `s` holds its entry lock, so `t` could not have acquired it
      have hpos := Pc.holds_of_readyFor hx
      have hent := hl.ent.1 s x
      split at hent
      · rename_i hox
        rcases hA.1 with ho | ho
        · rw [ho] at hox; cases hox
        · rw [ho] at hox; cases hox
          simp [attrOf, hp, Pc.readyFor] at hx
      · omega
    · rw [attrOf_upd_same Pc.closing _ _ _ (by same_attrs hp), attrOf_upd,
        updP_congr _ _ (B' := fun x => x = s) (by intro x; simp [Pc.atOpen])]
      exact h.ci.acqClose t s hc (by intro x; simp [attrOf, hp, Pc.atOpen])
  | @closeStart t s c hp =>
    refine ⟨?_, ?_, ?_⟩ <;> simp only
    · rw [attrOf_upd_same Pc.dispatching _ _ _ (by same_attrs hp), attrOf_upd]
      refine ⟨h.gi.g1, ?_⟩
      intro x y
      rw [upd2_iff]
      by_cases hx : x = t
      · subst hx
        by_cases hy : y = s
        · subst hy; simp [Pc.closing]
        · have := h.gi.g2 x y
          simp only [attrOf, hp, Pc.closing] at this
          simp [hy, Pc.closing, this]
      · simp only [hx, false_and, if_false, updP_other _ _ _ hx]; exact h.gi.g2 x y
    · rw [attrOf_upd_same Pc.inserting _ _ _ (by same_attrs hp), attrOf_upd_same Pc.owes _ _ _ (by same_attrs hp),
        attrOf_upd_same Pc.readyFor _ _ _ (by same_attrs hp)]
      exact h.fi
    · rw [attrOf_upd, attrOf_upd, updP_congr _ _ (B' := fun _ => False) (by intro x; simp [Pc.atOpen]),
        updP_congr (attrOf Pc.closing st.pc) _ (B' := fun x => x = s) (by intro x; simp [Pc.closing])]
      refine h.ci.closeStart t s (by intro x; simp [attrOf, hp, Pc.atOpen]) (by intro x; simp [attrOf, hp, Pc.closing]) ?_
      intro x hx
      exact hl.ent.excl (Pc.holds_of_atOpen hx) (Pc.holds_of_atOpen (p := st.pc t) (by simp [hp, Pc.atOpen]))
  | @closeEnd t s c hp =>
    refine ⟨?_, ?_, ?_⟩ <;> simp only
    · rw [attrOf_upd_same Pc.dispatching _ _ _ (by same_attrs hp), attrOf_upd]
      refine ⟨h.gi.g1, ?_⟩
      intro x y
      rw [upd2_iff]
      by_cases hx : x = t
      · subst hx
        by_cases hy : y = s
        · subst hy; simp [Pc.closing]
        · have := h.gi.g2 x y
          simp only [attrOf, hp, Pc.closing] at this
          simp [hy, Pc.closing, this]
      · simp only [hx, false_and, if_false, updP_other _ _ _ hx]; exact h.gi.g2 x y
    · rw [attrOf_upd_same Pc.inserting _ _ _ (by same_attrs hp), attrOf_upd_same Pc.owes _ _ _ (by same_attrs hp),
        attrOf_upd_same Pc.readyFor _ _ _ (by same_attrs hp)]
      exact h.fi
    · rw [attrOf_upd_same Pc.atOpen _ _ _ (by same_attrs hp), attrOf_upd,
        updP_congr _ _ (B' := fun _ => False) (by intro x; simp [Pc.closing])]
      refine h.ci.closeEnd t s (by intro x; simp [attrOf, hp, Pc.closing]) ?_
      intro x hx
      exact hl.ent.excl (Pc.holds_of_closing hx) (Pc.holds_of_closing (p := st.pc t) (by simp [hp, Pc.closing]))

end VgiVerif.C26

