import VgiVerif.Model.Sticky
/-
Helper lemmas about the shared sticky model: little-endian fields, the token frame, the AAD layout, the registry.
-/
namespace VgiVerif.Sticky
open VgiVerif.Gen

/-! ### little-endian fields -/

theorem leBytes_length (k n : Nat) : (leBytes k n).length = k := by
  induction k generalizing n with
  | zero => rfl
  | succ k ih => simp [leBytes, ih]

theorem leVal_leBytes (k n : Nat) (h : n < 256 ^ k) : leVal (leBytes k n) = n := by
  induction k generalizing n with
  | zero => simp at h; subst h; rfl
  | succ k ih =>
    have h2 : n / 256 < 256 ^ k := by
      rw [Nat.div_lt_iff_lt_mul (by decide)]; rw [Nat.pow_succ] at h; exact h
    simp only [leBytes, leVal, ih _ h2]
    have : (UInt8.ofNat (n % 256)).toNat = n % 256 := by simp
    rw [this]; omega

theorem leBytes_inj (k a b : Nat) (ha : a < 256 ^ k) (hb : b < 256 ^ k) (h : leBytes k a = leBytes k b) : a = b := by
  rw [← leVal_leBytes k a ha, ← leVal_leBytes k b hb, h]

/-! ### struct pack / unpack -/

theorem structPack_length (ws vs : List Nat) (h : ws.length = vs.length) : (structPack ws vs).length = structSize ws := by
  induction ws generalizing vs with
  | nil => cases vs <;> simp_all [structPack, structSize]
  | cons w ws ih =>
    cases vs with
    | nil => simp at h
    | cons v vs =>
      simp only [structPack, List.length_append, leBytes_length, structSize, List.sum_cons]
      rw [ih vs (by simpa using h)]; rfl

/-- every value fits its field width -/
inductive Fits : List Nat → List Nat → Prop
  | nil : Fits [] []
  | cons {w v ws vs} : v < 256 ^ w → Fits ws vs → Fits (w :: ws) (v :: vs)

theorem Fits.length_eq {ws vs : List Nat} (h : Fits ws vs) : ws.length = vs.length := by
  induction h with
  | nil => rfl
  | cons _ _ ih => simp [ih]

theorem structFields_pack (ws vs : List Nat) (rest : Bytes) (h : Fits ws vs) :
    structFields ws (structPack ws vs ++ rest) = vs := by
  induction h with
  | nil => rfl
  | @cons w v ws vs hv _ ih =>
    simp only [structPack, structFields, List.append_assoc]
    rw [List.take_left' (leBytes_length w v), List.drop_left' (leBytes_length w v), leVal_leBytes w v hv, ih]

theorem unpackFrom_pack (ws vs : List Nat) (pre rest : Bytes) (h : Fits ws vs) :
    unpackFrom ws (pre ++ (structPack ws vs ++ rest)) pre.length = .ok vs := by
  have hl : ws.length = vs.length := h.length_eq
  unfold unpackFrom
  rw [if_pos]
  · rw [List.drop_left' rfl, structFields_pack ws vs rest h]
  · simp only [List.length_append, structPack_length ws vs hl]; omega

/-! ### the token frame -/

/-- the extracted struct layouts (re-checked whenever `Gen.Sticky` changes) -/
theorem gen_layout : Sticky.prefixWidths = [8, 1] ∧ Sticky.suffixWidths = [8] ∧ Sticky.sessionIdLen = 12 ∧
    Sticky.frameOrder = ["prefix", "server_id", "session_id", "suffix"] ∧
    Sticky.prefixArgs = ["created_at", "server_id_len"] := by decide

theorem prefixSize_eq : prefixSize = 9 := by decide
theorem suffixSize_eq : suffixSize = 8 := by decide

theorem parseFrame_packFrame (c e : Nat) (sid s : Bytes) (hc : c < 256 ^ 8) (hl : sid.length < 256 ^ 1)
    (hs : s.length = Sticky.sessionIdLen) (he : e < 256 ^ 8) :
    parseFrame (packFrame c sid s e) = .ok (sid, s, e) := by
  have hP : Fits Sticky.prefixWidths [c, sid.length] := .cons hc (.cons hl .nil)
  have hS : Fits Sticky.suffixWidths [e] := .cons he .nil
  have lP : (structPack Sticky.prefixWidths [c, sid.length]).length = 9 := by
    rw [structPack_length _ _ hP.length_eq]; rfl
  have lS : (structPack Sticky.suffixWidths [e]).length = 8 := by
    rw [structPack_length _ _ hS.length_eq]; rfl
  have hs' : s.length = 12 := hs
  generalize hPd : structPack Sticky.prefixWidths [c, sid.length] = P at *
  generalize hSd : structPack Sticky.suffixWidths [e] = S at *
  have e1 : packFrame c sid s e = [] ++ (P ++ (sid ++ s ++ S)) := by
    simp only [packFrame, hPd, hSd, List.nil_append, List.append_assoc]
  have u1 : unpackFrom Sticky.prefixWidths (packFrame c sid s e) 0 = .ok [c, sid.length] := by
    rw [e1, ← hPd]; exact unpackFrom_pack _ _ [] _ hP
  have e2 : packFrame c sid s e = (P ++ sid ++ s) ++ (S ++ []) := by
    simp only [packFrame, hPd, hSd, List.append_nil, List.append_assoc]
  have u2 : unpackFrom Sticky.suffixWidths (packFrame c sid s e) (9 + sid.length + 12) = .ok [e] := by
    have : (P ++ sid ++ s).length = 9 + sid.length + 12 := by simp [lP, hs']; omega
    rw [e2, ← this, ← hSd]; exact unpackFrom_pack _ _ _ [] hS
  have len : (packFrame c sid s e).length = 9 + sid.length + 12 + 8 := by
    rw [e2]; simp [lP, lS, hs']; omega
  have d1 : ((packFrame c sid s e).drop 9).take sid.length = sid := by
    have : packFrame c sid s e = P ++ (sid ++ (s ++ S)) := by rw [e1]; simp
    rw [this, List.drop_left' lP, List.take_left' rfl]
  have d2 : ((packFrame c sid s e).drop (9 + sid.length)).take 12 = s := by
    have : packFrame c sid s e = (P ++ sid) ++ (s ++ S) := by rw [e1]; simp
    rw [this, List.drop_left' (by simp [lP]), List.take_left' hs']
  unfold parseFrame
  rw [prefixSize_eq, suffixSize_eq, u1]
  simp only [len, show Sticky.sessionIdLen = 12 from rfl]
  rw [if_neg (by omega), if_neg (by omega), u2, d1, d2]

/-- the parser never lets anything but `SessionLostError` out -/
theorem parseFrame_no_crash (pt : Bytes) : parseFrame pt ≠ .error .crash := by
  unfold parseFrame
  split
  · simp
  · rename_i h
    have h9 : 9 ≤ pt.length := by rw [prefixSize_eq] at h; omega
    have u1 : unpackFrom Sticky.prefixWidths pt 0 =
        .ok [leVal (pt.take 8), leVal ((pt.drop 8).take 1)] := by
      unfold unpackFrom
      rw [if_pos (by show 0 + 9 ≤ pt.length; omega)]
      rfl
    rw [u1]
    simp only [prefixSize_eq, suffixSize_eq, show Sticky.sessionIdLen = 12 from rfl]
    split
    · simp
    · rename_i h2
      have hlen : pt.length = 9 + leVal ((pt.drop 8).take 1) + 12 + 8 := by
        simpa using h2
      have u2 : unpackFrom Sticky.suffixWidths pt (9 + leVal ((pt.drop 8).take 1) + 12) =
          .ok [leVal ((pt.drop (9 + leVal ((pt.drop 8).take 1) + 12)).take 8)] := by
        unfold unpackFrom
        rw [if_pos (by show _ + 8 ≤ pt.length; omega)]
        rfl
      rw [u2]
      simp

/-! ### identities: the AAD layout is injective -/

theorem split_at_nul (d₁ d₂ p₁ p₂ : Bytes) (h₁ : (0 : UInt8) ∉ d₁) (h₂ : (0 : UInt8) ∉ d₂)
    (h : d₁ ++ 0 :: p₁ = d₂ ++ 0 :: p₂) : d₁ = d₂ ∧ p₁ = p₂ := by
  induction d₁ generalizing d₂ with
  | nil =>
    cases d₂ with
    | nil => simpa using h
    | cons b t =>
      simp only [List.nil_append, List.cons_append, List.cons.injEq] at h
      exact absurd (by rw [← h.1]; simp) h₂
  | cons a t ih =>
    cases d₂ with
    | nil =>
      simp only [List.nil_append, List.cons_append, List.cons.injEq] at h
      exact absurd (by rw [h.1]; simp) h₁
    | cons b t' =>
      simp only [List.cons_append, List.cons.injEq] at h
      have := ih t' (fun hm => h₁ (by simp [hm])) (fun hm => h₂ (by simp [hm])) h.2
      exact ⟨by rw [h.1, this.1], this.2⟩

/-- the extracted AAD layout (`prefix + b"\x01" + domain + b"\x00" + principal`, anonymous tail starting with a NUL) -/
theorem gen_aad : Sticky.aadUserTag = [1] ∧ Sticky.aadSep = [0] ∧ Sticky.aadAnonTail.head? = some 0 ∧ Sticky.aadLayoutOk = true ∧
    Sticky.pkeyLayoutOk = true := by decide

theorem aad_inj (i j : Identity)
    (hi : match i with | .anon => True | .user d _ => (0 : UInt8) ∉ d)
    (hj : match j with | .anon => True | .user d _ => (0 : UInt8) ∉ d) (h : aad i = aad j) : i = j := by
  cases i with
  | anon =>
    cases j with
    | anon => rfl
    | user d p =>
      simp only [aad, List.append_assoc] at h
      have := List.append_cancel_left h
      simp [Sticky.aadAnonTail, Sticky.aadUserTag] at this
  | user d p =>
    cases j with
    | anon =>
      simp only [aad, List.append_assoc] at h
      have := List.append_cancel_left h
      simp [Sticky.aadAnonTail, Sticky.aadUserTag] at this
    | user d' p' =>
      simp only [aad, List.append_assoc] at h
      have h1 := List.append_cancel_left h
      simp only [Sticky.aadUserTag, Sticky.aadSep, List.cons_append, List.nil_append, List.cons.injEq, true_and] at h1
      obtain ⟨hd, hp⟩ := split_at_nul d d' p p' hi hj h1
      rw [hd, hp]

/-! ### server ids: `decode("ascii", errors="replace")` -/

theorem asciiReplace_ascii (b : Bytes) (h : ∀ x ∈ b, x.toNat < 128) : asciiReplaceUtf8 b = b := by
  induction b with
  | nil => rfl
  | cons x t ih =>
    have hx : x.toNat < 128 := h x (by simp)
    simp only [asciiReplaceUtf8, List.flatMap_cons, hx, if_true, List.singleton_append, List.cons.injEq, true_and]
    exact ih (fun y hy => h y (by simp [hy]))

theorem asciiReplace_eq_ascii (b t : Bytes) (ht : ∀ x ∈ t, x.toNat < 128) (h : asciiReplaceUtf8 b = t) : b = t := by
  induction b generalizing t with
  | nil => simpa [asciiReplaceUtf8] using h
  | cons x r ih =>
    simp only [asciiReplaceUtf8, List.flatMap_cons] at h
    by_cases hx : x.toNat < 128
    · simp only [hx, if_true, List.singleton_append] at h
      cases t with
      | nil => cases h
      | cons y t' =>
        simp only [List.cons.injEq] at h
        rw [h.1, ih t' (fun z hz => ht z (by simp [hz])) h.2]
    · simp only [hx, if_false] at h
      have : (0xEF : UInt8) ∈ t := by rw [← h]; simp
      have := ht _ this
      simp at this

theorem openSealOk_seal {cfg : Cfg} {now : Nat} {ttl : Option Int} (h : openSealOk cfg now ttl = true) :
    sealOk cfg now (expiresOf now ttl cfg.defaultTtl) = true ∧ 0 ≤ (now : Int) + effTtl ttl cfg.defaultTtl := by
  unfold openSealOk at h
  simp only [Bool.and_eq_true, decide_eq_true_eq] at h
  exact ⟨h.2, h.1⟩

/-! ### registry -/

theorem Reg.find_some {r : Reg} {sid : Bytes} {e : Entry} (h : r.find sid = some e) : e ∈ r.entries ∧ e.sid = sid := by
  unfold Reg.find at h
  exact ⟨List.mem_of_find?_eq_some h, by simpa using List.find?_some h⟩

theorem Reg.find_none {r : Reg} {sid : Bytes} (h : r.find sid = none) : ∀ x ∈ r.entries, x.sid ≠ sid := by
  unfold Reg.find at h
  intro x hx
  have := List.find?_eq_none.mp h x hx
  simpa using this

theorem Reg.mem_remove {r : Reg} {sid : Bytes} {x : Entry} : x ∈ (r.remove sid).entries ↔ x ∈ r.entries ∧ x.sid ≠ sid := by
  simp [Reg.remove, List.mem_filter]

theorem Reg.mem_insert {r : Reg} {e x : Entry} : x ∈ (r.insert e).entries ↔ (x ∈ r.entries ∧ x.sid ≠ e.sid) ∨ x = e := by
  simp [Reg.insert, Reg.remove, List.mem_filter]

theorem Reg.mem_close {r : Reg} {sid : Bytes} {x : Entry} : x ∈ (r.close sid).1.entries ↔ x ∈ r.entries ∧ x.sid ≠ sid := by
  unfold Reg.close
  cases h : r.find sid with
  | none => exact ⟨fun hx => ⟨hx, Reg.find_none h x hx⟩, fun hx => hx.1⟩
  | some e => exact Reg.mem_remove

theorem Reg.close_draining (r : Reg) (sid : Bytes) : (r.close sid).1.draining = r.draining := by
  unfold Reg.close
  cases r.find sid <;> rfl

/-- the four ways `_SessionRegistry.get` can go -/
theorem Reg.get_spec (r : Reg) (sid pk : Bytes) (now : Nat) :
    (r.find sid = none ∧ r.get sid pk now = (r, none, [])) ∨
    (∃ e, r.find sid = some e ∧ expired e now = true ∧ r.get sid pk now = (r.remove sid, none, [e.state])) ∨
    (∃ e, r.find sid = some e ∧ expired e now = false ∧ (checkPrincipal = true ∧ e.pkey ≠ pk) ∧ r.get sid pk now = (r, none, [])) ∨
    (∃ e, r.find sid = some e ∧ expired e now = false ∧ ¬(checkPrincipal = true ∧ e.pkey ≠ pk) ∧ r.get sid pk now = (r, some e, [])) := by
  unfold Reg.get
  cases hf : r.find sid with
  | none => exact Or.inl ⟨rfl, rfl⟩
  | some e =>
    right
    simp only
    cases hx : expired e now with
    | true => exact Or.inl ⟨e, rfl, hx, by simp⟩
    | false =>
      right
      by_cases hp : checkPrincipal = true ∧ e.pkey ≠ pk
      · exact Or.inl ⟨e, rfl, hx, hp, by simp [hp]⟩
      · exact Or.inr ⟨e, rfl, hx, hp, by simp [hp]⟩

theorem world_eta (W : World) : ({ W with reg := W.reg, closedLog := W.closedLog ++ [] } : World) = W := by
  cases W; simp

/-- sequentially the re-validation after the lock acquisition never fails: `get` just returned the registered entry -/
theorem Reg.getLive_eq (r : Reg) (sid pk : Bytes) (now : Nat) : r.getLive sid pk now = r.get sid pk now := by
  unfold Reg.getLive
  rcases Reg.get_spec r sid pk now with ⟨_, hg⟩ | ⟨e, _, _, hg⟩ | ⟨e, _, _, _, hg⟩ | ⟨e, hf, _, _, hg⟩ <;> rw [hg]
  simp [Reg.isLive, hf]

theorem Reg.get_world (r : Reg) (sid pk : Bytes) (now : Nat) :
    (r.get sid pk now).1.draining = r.draining ∧ ∀ x ∈ (r.get sid pk now).1.entries, x ∈ r.entries := by
  rcases Reg.get_spec r sid pk now with ⟨_, hg⟩ | ⟨e, _, _, hg⟩ | ⟨e, _, _, _, hg⟩ | ⟨e, _, _, _, hg⟩ <;> rw [hg]
  · exact ⟨rfl, fun _ h => h⟩
  · exact ⟨rfl, fun _ h => (Reg.mem_remove.mp h).1⟩
  · exact ⟨rfl, fun _ h => h⟩
  · exact ⟨rfl, fun _ h => h⟩

/-- `resolve` leaves clock, counters and mints alone and only ever removes registry entries -/
theorem resolve_world {Wire : Type} [DecidableEq Wire] (C : Codec Wire) (cfg : Cfg) (W : World) (rq : Req Wire) :
    ∃ r' cl, (resolve C cfg W rq).1 = { W with reg := r', closedLog := cl } ∧ r'.draining = W.reg.draining ∧
      ∀ x ∈ r'.entries, x ∈ W.reg.entries := by
  have triv : ∃ r' cl, W = { W with reg := r', closedLog := cl } ∧ r'.draining = W.reg.draining ∧ ∀ x ∈ r'.entries, x ∈ W.reg.entries :=
    ⟨W.reg, W.closedLog, rfl, rfl, fun _ h => h⟩
  unfold resolve
  simp only [Reg.getLive_eq]
  cases rq.session with
  | none => exact triv
  | some w =>
    simp only
    cases openSessionToken C w cfg.key (aad rq.ident) with
    | error e => exact triv
    | ok res =>
      obtain ⟨sidB, sid, ex⟩ := res
      simp only
      split
      · exact triv
      · have hg := Reg.get_world W.reg sid (pkey rq.ident) W.env.now
        generalize W.reg.get sid (pkey rq.ident) W.env.now = g at hg
        obtain ⟨r', eo, cl⟩ := g
        cases eo with
        | none => exact ⟨r', _, rfl, hg.1, hg.2⟩
        | some e => exact ⟨r', _, rfl, hg.1, hg.2⟩

theorem Reg.find_of_mem {r : Reg} (hnd : ∀ x ∈ r.entries, ∀ y ∈ r.entries, x.sid = y.sid → x = y) {e : Entry} (he : e ∈ r.entries) :
    r.find e.sid = some e := by
  cases hf : r.find e.sid with
  | none => exact absurd rfl (Reg.find_none hf e he)
  | some e' =>
    have := Reg.find_some hf
    rw [hnd e' this.1 e he this.2]

/-- a request that carries a session header is never treated as fresh -/
theorem resolve_fresh {Wire : Type} [DecidableEq Wire] (C : Codec Wire) (cfg : Cfg) (W : World) (rq : Req Wire)
    (h : (resolve C cfg W rq).2 = .fresh) : rq.session = none := by
  unfold resolve at h
  simp only [Reg.getLive_eq] at h
  cases hs : rq.session with
  | none => rfl
  | some w =>
    rw [hs] at h
    simp only at h
    cases ho : openSessionToken C w cfg.key (aad rq.ident) with
    | error err => rw [ho] at h; cases h
    | ok res =>
      obtain ⟨sidB, sid, ex⟩ := res
      rw [ho] at h
      simp only at h
      by_cases hsid : checkServerId = true ∧ asciiReplaceUtf8 sidB ≠ cfg.serverId
      · rw [if_pos hsid] at h; cases h
      · rw [if_neg hsid] at h
        rcases Reg.get_spec W.reg sid (pkey rq.ident) W.env.now with ⟨_, hg⟩ | ⟨e', _, _, hg⟩ | ⟨e', _, _, _, hg⟩ | ⟨e', _, _, _, hg⟩ <;>
          (rw [hg] at h; cases h)

/-- the successful path of `resolve`, computed forwards -/
theorem resolve_resumed_of {Wire : Type} [DecidableEq Wire] (C : Codec Wire) (cfg : Cfg) (W : World) (rq : Req Wire)
    (w : Wire) (sidB sid : Bytes) (ex : Nat) (e : Entry) (hs : rq.session = some w)
    (ho : openSessionToken C w cfg.key (aad rq.ident) = .ok (sidB, sid, ex)) (hsrv : asciiReplaceUtf8 sidB = cfg.serverId)
    (hf : W.reg.find sid = some e) (hx : expired e W.env.now = false) (hp : e.pkey = pkey rq.ident) :
    resolve C cfg W rq = (W, .resumed e) := by
  unfold resolve
  simp only [Reg.getLive_eq]
  rw [hs]
  simp only [ho]
  rw [if_neg (fun h => h.2 hsrv)]
  have hg : W.reg.get sid (pkey rq.ident) W.env.now = (W.reg, some e, []) := by
    unfold Reg.get
    rw [hf]
    simp only [hx, Bool.false_eq_true, if_false]
    rw [if_neg (fun h => h.2 hp)]
  rw [hg]
  simp only
  rw [world_eta]

/-- the unsuccessful / successful paths of `resolve`, analysed backwards -/
theorem resolve_resumed_inv {Wire : Type} [DecidableEq Wire] (C : Codec Wire) (cfg : Cfg) (W : World) (rq : Req Wire) (e : Entry)
    (h : (resolve C cfg W rq).2 = .resumed e) :
    ∃ w sidB sid ex, rq.session = some w ∧ openSessionToken C w cfg.key (aad rq.ident) = .ok (sidB, sid, ex) ∧
      (checkServerId = true → asciiReplaceUtf8 sidB = cfg.serverId) ∧ W.reg.find sid = some e ∧ expired e W.env.now = false ∧
      (checkPrincipal = true → e.pkey = pkey rq.ident) ∧ resolve C cfg W rq = (W, .resumed e) := by
  unfold resolve at h ⊢
  simp only [Reg.getLive_eq] at h ⊢
  cases hs : rq.session with
  | none => rw [hs] at h; cases h
  | some w =>
    rw [hs] at h
    simp only at h ⊢
    cases ho : openSessionToken C w cfg.key (aad rq.ident) with
    | error err => rw [ho] at h; cases h
    | ok res =>
      obtain ⟨sidB, sid, ex⟩ := res
      rw [ho] at h
      simp only at h ⊢
      by_cases hsid : checkServerId = true ∧ asciiReplaceUtf8 sidB ≠ cfg.serverId
      · rw [if_pos hsid] at h; cases h
      · rw [if_neg hsid] at h ⊢
        rcases Reg.get_spec W.reg sid (pkey rq.ident) W.env.now with ⟨_, hg⟩ | ⟨e', _, _, hg⟩ | ⟨e', _, _, _, hg⟩ | ⟨e', hf, hx, hp, hg⟩
        · rw [hg] at h; cases h
        · rw [hg] at h; cases h
        · rw [hg] at h; cases h
        · rw [hg] at h ⊢
          simp only at h ⊢
          cases h
          rw [world_eta]
          exact ⟨w, sidB, sid, ex, rfl, ho, fun hc => Classical.byContradiction fun hne => hsid ⟨hc, hne⟩, hf, hx,
            fun hc => Classical.byContradiction fun hne => hp ⟨hc, hne⟩, rfl⟩

end VgiVerif.Sticky
