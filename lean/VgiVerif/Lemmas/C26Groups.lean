import VgiVerif.Lemmas.C26Inv
/-
C26: the data invariants of the model, grouped by the state they talk about, each as a predicate over explicit
components and families of per-thread attributes, with one lemma per kind of state change:
`GI` (ghost observer state = program counters), `FI` (registry, `closed` flags, pending close obligations),
`CI` (close counters).
-/
namespace VgiVerif.C26
open VgiVerif.Sched

/-! ### families of per-thread attributes -/

/-- an attribute of program counters as a family over threads -/
def attrOf (f : Pc → Sid → Prop) (pc : Tid → Pc) : Tid → Sid → Prop := fun t s => f (pc t) s

/-- change a family at one thread -/
def updP (A : Tid → Sid → Prop) (t : Tid) (B : Sid → Prop) : Tid → Sid → Prop :=
  fun x s => if x = t then B s else A x s

theorem attrOf_upd (f : Pc → Sid → Prop) (pc : Tid → Pc) (t : Tid) (p' : Pc) :
    attrOf f (upd pc t p') = updP (attrOf f pc) t (f p') := by
  funext x s
  by_cases hx : x = t
  · subst hx; simp [attrOf, updP]
  · simp [attrOf, updP, hx, upd_other]

theorem updP_same_iff (A : Tid → Sid → Prop) (t : Tid) (B : Sid → Prop) (h : ∀ s, B s ↔ A t s) : updP A t B = A := by
  funext x s
  by_cases hx : x = t
  · subst hx; simp [updP, h]
  · simp [updP, hx]

theorem attrOf_upd_same (f : Pc → Sid → Prop) (pc : Tid → Pc) (t : Tid) (p' : Pc) (h : ∀ s, f p' s ↔ f (pc t) s) :
    attrOf f (upd pc t p') = attrOf f pc := by
  rw [attrOf_upd]; exact updP_same_iff _ _ _ h

@[simp] theorem updP_self (A : Tid → Sid → Prop) (t : Tid) (B : Sid → Prop) (s : Sid) : updP A t B t s = B s := by
  simp [updP]
theorem updP_other (A : Tid → Sid → Prop) {t x : Tid} (B : Sid → Prop) (s : Sid) (h : x ≠ t) : updP A t B x s = A x s := by
  simp [updP, h]

/-! ### ghost state = what the program counters say -/

structure GI (dsp crun : Tid → Sid → Bool) (D C : Tid → Sid → Prop) : Prop where
  g1 : ∀ t s, dsp t s = true ↔ D t s
  g2 : ∀ t s, crun t s = true ↔ C t s

theorem upd2_iff (f : Tid → Sid → Bool) (t : Tid) (s : Sid) (v : Bool) (x : Tid) (y : Sid) :
    upd2 f t s v x y = true ↔ (if x = t ∧ y = s then v = true else f x y = true) := by
  unfold upd2; split <;> rfl

/-! ### registry, `closed` flags, pending obligations -/

structure FI (live : Sid → Bool) (order : List Sid) (nextSid : Nat) (closedFlag : Sid → Bool)
    (I O R : Tid → Sid → Prop) : Prop where
  f1 : ∀ s, live s = true → closedFlag s = false
  f2 : ∀ s, live s = true → s ∈ order
  f3 : ∀ s, s ∈ order → s < nextSid
  f4 : ∀ t s, I t s → s < nextSid ∧ s ∉ order
  f5 : ∀ t t' s, I t s → I t' s → t = t'
  f6 : ∀ t s, O t s → live s = false ∧ s ∈ order
  f7 : ∀ s, closedFlag s = true → s ∈ order
  r1 : ∀ t s, R t s → closedFlag s = false
  e1 : ∀ s, s ∈ order → live s = false → closedFlag s = true ∨ ∃ t, O t s

section FI
variable {live : Sid → Bool} {order : List Sid} {nextSid : Nat} {closedFlag : Sid → Bool} {I O R : Tid → Sid → Prop}

/-- `secrets.token_bytes`: a fresh id is drawn -/
theorem FI.alloc (h : FI live order nextSid closedFlag I O R) (t : Tid) (hI : ∀ s, ¬ I t s) :
    FI live order (nextSid + 1) closedFlag (updP I t (fun s => s = nextSid)) O R := by
  refine ⟨h.f1, h.f2, fun s hs => Nat.lt_succ_of_lt (h.f3 s hs), ?_, ?_, h.f6, h.f7, h.r1, h.e1⟩
  · intro x s hx
    by_cases hxt : x = t
    · subst hxt; simp only [updP_self] at hx; subst hx
      exact ⟨Nat.lt_succ_self _, fun hm => Nat.lt_irrefl _ (h.f3 _ hm)⟩
    · rw [updP_other _ _ _ hxt] at hx
      exact ⟨Nat.lt_succ_of_lt (h.f4 x s hx).1, (h.f4 x s hx).2⟩
  · intro x x' s hx hx'
    by_cases hxt : x = t <;> by_cases hxt' : x' = t
    · rw [hxt, hxt']
    · subst hxt; simp only [updP_self] at hx; subst hx
      rw [updP_other _ _ _ hxt'] at hx'
      exact absurd (h.f4 x' _ hx').1 (Nat.lt_irrefl _)
    · subst hxt'; simp only [updP_self] at hx'; subst hx'
      rw [updP_other _ _ _ hxt] at hx
      exact absurd (h.f4 x _ hx).1 (Nat.lt_irrefl _)
    · rw [updP_other _ _ _ hxt] at hx; rw [updP_other _ _ _ hxt'] at hx'
      exact h.f5 x x' s hx hx'

/-- `is_live` answered True -/
theorem FI.ready (h : FI live order nextSid closedFlag I O R) (t : Tid) (s0 : Sid) (hl : live s0 = true) :
    FI live order nextSid closedFlag I O (updP R t (fun s => s = s0)) := by
  refine ⟨h.f1, h.f2, h.f3, h.f4, h.f5, h.f6, h.f7, ?_, h.e1⟩
  intro x s hx
  by_cases hxt : x = t
  · subst hxt; simp only [updP_self] at hx; subst hx; exact h.f1 _ hl
  · rw [updP_other _ _ _ hxt] at hx; exact h.r1 x s hx

/-- the `ready` family may shrink -/
theorem FI.unready (h : FI live order nextSid closedFlag I O R) {R' : Tid → Sid → Prop} (hR : ∀ t s, R' t s → R t s) :
    FI live order nextSid closedFlag I O R' :=
  ⟨h.f1, h.f2, h.f3, h.f4, h.f5, h.f6, h.f7, fun t s hx => h.r1 t s (hR t s hx), h.e1⟩

/-- entries are popped from the registry by `t`, which now owes their close -/
theorem FI.kill (h : FI live order nextSid closedFlag I O R) (t : Tid) (ex : List Sid)
    (hex : ∀ s ∈ ex, live s = true ∧ s ∈ order) :
    FI (killAll live ex) order nextSid closedFlag I (updP O t (fun s => O t s ∨ s ∈ ex)) R := by
  have hk : ∀ s, killAll live ex s = true → live s = true := by
    intro s hs; unfold killAll at hs; split at hs
    · cases hs
    · exact hs
  refine ⟨fun s hs => h.f1 s (hk s hs), fun s hs => h.f2 s (hk s hs), h.f3, h.f4, h.f5, ?_, h.f7, h.r1, ?_⟩
  · intro x s hx
    have key : O x s ∨ s ∈ ex := by
      by_cases hxt : x = t
      · subst hxt; simpa using hx
      · rw [updP_other _ _ _ hxt] at hx; exact Or.inl hx
    rcases key with ho | hm
    · have := h.f6 x s ho
      refine ⟨?_, this.2⟩
      unfold killAll; split
      · rfl
      · exact this.1
    · exact ⟨by simp [killAll, hm], (hex s hm).2⟩
  · intro s hs hl
    by_cases hm : s ∈ ex
    · exact Or.inr ⟨t, by simp [hm]⟩
    · have hl' : live s = false := by simpa [killAll, hm] using hl
      rcases h.e1 s hs hl' with hc | ⟨x, hx⟩
      · exact Or.inl hc
      · refine Or.inr ⟨x, ?_⟩
        by_cases hxt : x = t
        · subst hxt; simp [hx]
        · rw [updP_other _ _ _ hxt]; exact hx

theorem killAll_single (live : Sid → Bool) (s : Sid) : upd live s false = killAll live [s] := by
  funext x; simp [upd, killAll]

/-- the drawn id is inserted into the registry -/
theorem FI.insert (h : FI live order nextSid closedFlag I O R) (t : Tid) (s0 : Sid) (hI : I t s0) :
    FI (upd live s0 true) (order ++ [s0]) nextSid closedFlag (updP I t (fun _ => False)) O R := by
  have hf4 := h.f4 t s0 hI
  have hnc : closedFlag s0 = false := by
    cases hc : closedFlag s0 with
    | false => rfl
    | true => exact absurd (h.f7 s0 hc) hf4.2
  refine ⟨?_, ?_, ?_, ?_, ?_, ?_, ?_, h.r1, ?_⟩
  · intro s hs
    by_cases hss : s = s0
    · subst hss; exact hnc
    · rw [upd_other _ _ hss] at hs; exact h.f1 s hs
  · intro s hs
    by_cases hss : s = s0
    · subst hss; simp
    · rw [upd_other _ _ hss] at hs; exact List.mem_append_left _ (h.f2 s hs)
  · intro s hs
    rcases List.mem_append.1 hs with hm | hm
    · exact h.f3 s hm
    · simp only [List.mem_singleton] at hm; subst hm; exact hf4.1
  · intro x s hx
    by_cases hxt : x = t
    · subst hxt; simp at hx
    · rw [updP_other _ _ _ hxt] at hx
      have := h.f4 x s hx
      refine ⟨this.1, ?_⟩
      intro hm
      rcases List.mem_append.1 hm with hm | hm
      · exact this.2 hm
      · simp only [List.mem_singleton] at hm; subst hm
        exact hxt (h.f5 x t s hx hI)
  · intro x x' s hx hx'
    by_cases hxt : x = t
    · subst hxt; simp at hx
    · by_cases hxt' : x' = t
      · subst hxt'; simp at hx'
      · rw [updP_other _ _ _ hxt] at hx; rw [updP_other _ _ _ hxt'] at hx'
        exact h.f5 x x' s hx hx'
  · intro x s hx
    have := h.f6 x s hx
    have hss : s ≠ s0 := fun e => hf4.2 (e ▸ this.2)
    exact ⟨by rw [upd_other _ _ hss]; exact this.1, List.mem_append_left _ this.2⟩
  · intro s hs; exact List.mem_append_left _ (h.f7 s hs)
  · intro s hs hl
    by_cases hss : s = s0
    · subst hss; simp at hl
    · rw [upd_other _ _ hss] at hl
      rcases List.mem_append.1 hs with hm | hm
      · exact h.e1 s hm hl
      · simp only [List.mem_singleton] at hm; exact absurd hm hss

/-- `_close_entry` took the entry lock and found `closed` already set -/
theorem FI.acqSkip (h : FI live order nextSid closedFlag I O R) (t : Tid) (s0 : Sid) {B : Sid → Prop}
    (hB1 : ∀ s, B s → O t s) (hB2 : ∀ s, O t s → B s ∨ s = s0) (hc : closedFlag s0 = true) :
    FI live order nextSid closedFlag I (updP O t B) R := by
  refine ⟨h.f1, h.f2, h.f3, h.f4, h.f5, ?_, h.f7, h.r1, ?_⟩
  · intro x s hx
    by_cases hxt : x = t
    · subst hxt; simp only [updP_self] at hx; exact h.f6 x s (hB1 s hx)
    · rw [updP_other _ _ _ hxt] at hx; exact h.f6 x s hx
  · intro s hs hl
    rcases h.e1 s hs hl with hcs | ⟨x, hx⟩
    · exact Or.inl hcs
    · by_cases hxt : x = t
      · subst hxt
        rcases hB2 s hx with hb | hb
        · exact Or.inr ⟨x, by simp [hb]⟩
        · subst hb; exact Or.inl hc
      · exact Or.inr ⟨x, by rw [updP_other _ _ _ hxt]; exact hx⟩

/-- `_close_entry` took the entry lock and set `closed` -/
theorem FI.acqClose (h : FI live order nextSid closedFlag I O R) (t : Tid) (s0 : Sid) {B : Sid → Prop}
    (hB1 : ∀ s, B s → O t s) (hB2 : ∀ s, O t s → B s ∨ s = s0) (ho : O t s0) (hR : ∀ x, ¬ R x s0) :
    FI live order nextSid (upd closedFlag s0 true) I (updP O t B) R := by
  have h6 := h.f6 t s0 ho
  refine ⟨?_, h.f2, h.f3, h.f4, h.f5, ?_, ?_, ?_, ?_⟩
  · intro s hs
    by_cases hss : s = s0
    · subst hss; rw [h6.1] at hs; cases hs
    · rw [upd_other _ _ hss]; exact h.f1 s hs
  · intro x s hx
    by_cases hxt : x = t
    · subst hxt; simp only [updP_self] at hx; exact h.f6 x s (hB1 s hx)
    · rw [updP_other _ _ _ hxt] at hx; exact h.f6 x s hx
  · intro s hs
    by_cases hss : s = s0
    · subst hss; exact h6.2
    · rw [upd_other _ _ hss] at hs; exact h.f7 s hs
  · intro x s hx
    by_cases hss : s = s0
    · subst hss; exact absurd hx (hR x)
    · rw [upd_other _ _ hss]; exact h.r1 x s hx
  · intro s hs hl
    by_cases hss : s = s0
    · subst hss; exact Or.inl (by simp)
    · rw [upd_other _ _ hss]
      rcases h.e1 s hs hl with hcs | ⟨x, hx⟩
      · exact Or.inl hcs
      · by_cases hxt : x = t
        · subst hxt
          rcases hB2 s hx with hb | hb
          · exact Or.inr ⟨x, by simp [hb]⟩
          · exact absurd hb hss
        · exact Or.inr ⟨x, by rw [updP_other _ _ _ hxt]; exact hx⟩
end FI

/-! ### close counters -/

structure CI (closedFlag : Sid → Bool) (cstart cend : Sid → Nat) (AO C : Tid → Sid → Prop) : Prop where
  c1 : ∀ s, cstart s ≤ 1
  c2 : ∀ t s, AO t s → closedFlag s = true ∧ cstart s = 0
  c3 : ∀ s, 1 ≤ cstart s → closedFlag s = true
  c4 : ∀ s, closedFlag s = true → cstart s = 1 ∨ ∃ t, AO t s
  c5 : ∀ t s, C t s → cstart s = 1 ∧ cend s = 0
  c6 : ∀ s, cend s ≤ cstart s
  c7 : ∀ s, cstart s = 1 → cend s = 1 ∨ ∃ t, C t s

section CI
variable {closedFlag : Sid → Bool} {cstart cend : Sid → Nat} {AO C : Tid → Sid → Prop}

/-- `_close_entry` set the `closed` flag -/
theorem CI.acqClose (h : CI closedFlag cstart cend AO C) (t : Tid) (s0 : Sid) (hc : closedFlag s0 = false)
    (hA : ∀ s, ¬ AO t s) :
    CI (upd closedFlag s0 true) cstart cend (updP AO t (fun s => s = s0)) C := by
  have hcs : cstart s0 = 0 := by
    have := h.c3 s0
    rcases Nat.eq_zero_or_pos (cstart s0) with h0 | h0
    · exact h0
    · rw [this h0] at hc; cases hc
  refine ⟨h.c1, ?_, ?_, ?_, h.c5, h.c6, h.c7⟩
  · intro x s hx
    by_cases hxt : x = t
    · subst hxt; simp only [updP_self] at hx; subst hx; exact ⟨by simp, hcs⟩
    · rw [updP_other _ _ _ hxt] at hx
      have := h.c2 x s hx
      by_cases hss : s = s0
      · subst hss; rw [hc] at this; cases this.1
      · rw [upd_other _ _ hss]; exact this
  · intro s hs
    by_cases hss : s = s0
    · subst hss; simp
    · rw [upd_other _ _ hss]; exact h.c3 s hs
  · intro s hs
    by_cases hss : s = s0
    · subst hss; exact Or.inr ⟨t, by simp⟩
    · rw [upd_other _ _ hss] at hs
      rcases h.c4 s hs with h1 | ⟨x, hx⟩
      · exact Or.inl h1
      · refine Or.inr ⟨x, ?_⟩
        by_cases hxt : x = t
        · subst hxt; exact absurd hx (hA s)
        · rw [updP_other _ _ _ hxt]; exact hx

/-- the close hook is entered -/
theorem CI.closeStart (h : CI closedFlag cstart cend AO C) (t : Tid) (s0 : Sid) (hA : ∀ s, AO t s ↔ s = s0)
    (hC : ∀ s, ¬ C t s) (hex : ∀ x, AO x s0 → x = t) :
    CI closedFlag (upd cstart s0 (cstart s0 + 1)) cend (updP AO t (fun _ => False)) (updP C t (fun s => s = s0)) := by
  have h2 := h.c2 t s0 ((hA s0).2 rfl)
  refine ⟨?_, ?_, ?_, ?_, ?_, ?_, ?_⟩
  · intro s
    by_cases hss : s = s0
    · subst hss; simp only [upd_same]; omega
    · rw [upd_other _ _ hss]; exact h.c1 s
  · intro x s hx
    by_cases hxt : x = t
    · subst hxt; simp at hx
    · rw [updP_other _ _ _ hxt] at hx
      have := h.c2 x s hx
      by_cases hss : s = s0
      · subst hss; exact absurd (hex x hx) hxt
      · rw [upd_other _ _ hss]; exact this
  · intro s hs
    by_cases hss : s = s0
    · subst hss; exact h2.1
    · rw [upd_other _ _ hss] at hs; exact h.c3 s hs
  · intro s hs
    by_cases hss : s = s0
    · subst hss; left; simp only [upd_same]; omega
    · rw [upd_other _ _ hss]
      rcases h.c4 s hs with h1 | ⟨x, hx⟩
      · exact Or.inl h1
      · refine Or.inr ⟨x, ?_⟩
        by_cases hxt : x = t
        · subst hxt; exact absurd ((hA s).1 hx) hss
        · rw [updP_other _ _ _ hxt]; exact hx
  · intro x s hx
    by_cases hxt : x = t
    · subst hxt; simp only [updP_self] at hx; subst hx
      simp only [upd_same]
      have := h.c6 s; omega
    · rw [updP_other _ _ _ hxt] at hx
      have := h.c5 x s hx
      by_cases hss : s = s0
      · subst hss; omega
      · rw [upd_other _ _ hss]; exact this
  · intro s
    by_cases hss : s = s0
    · subst hss; simp only [upd_same]; have := h.c6 s; omega
    · rw [upd_other _ _ hss]; exact h.c6 s
  · intro s hs
    by_cases hss : s = s0
    · subst hss; exact Or.inr ⟨t, by simp⟩
    · rw [upd_other _ _ hss] at hs
      rcases h.c7 s hs with h1 | ⟨x, hx⟩
      · exact Or.inl h1
      · refine Or.inr ⟨x, ?_⟩
        by_cases hxt : x = t
        · subst hxt; exact absurd hx (hC s)
        · rw [updP_other _ _ _ hxt]; exact hx

/-- the close hook returns -/
theorem CI.closeEnd (h : CI closedFlag cstart cend AO C) (t : Tid) (s0 : Sid) (hC : ∀ s, C t s ↔ s = s0)
    (hex : ∀ x, C x s0 → x = t) :
    CI closedFlag cstart (upd cend s0 (cend s0 + 1)) AO (updP C t (fun _ => False)) := by
  have h5 := h.c5 t s0 ((hC s0).2 rfl)
  refine ⟨h.c1, h.c2, h.c3, h.c4, ?_, ?_, ?_⟩
  · intro x s hx
    by_cases hxt : x = t
    · subst hxt; simp at hx
    · rw [updP_other _ _ _ hxt] at hx
      have := h.c5 x s hx
      by_cases hss : s = s0
      · subst hss; exact absurd (hex x hx) hxt
      · rw [upd_other _ _ hss]; exact this
  · intro s
    by_cases hss : s = s0
    · subst hss; simp only [upd_same]; omega
    · rw [upd_other _ _ hss]; exact h.c6 s
  · intro s hs
    by_cases hss : s = s0
    · subst hss; left; simp only [upd_same]; omega
    · rw [upd_other _ _ hss]
      rcases h.c7 s hs with h1 | ⟨x, hx⟩
      · exact Or.inl h1
      · refine Or.inr ⟨x, ?_⟩
        by_cases hxt : x = t
        · subst hxt; exact absurd ((hC s).1 hx) hss
        · rw [updP_other _ _ _ hxt]; exact hx
end CI

end VgiVerif.C26
