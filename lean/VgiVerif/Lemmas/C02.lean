import VgiVerif.Model.C02
import VgiVerif.Spec.C02
import VgiVerif.Lemmas.C03Compact
/-
C02 helper lemmas (namespace `Aux`): one hop of every supported type, rejection, stability of `norm`.
-/
namespace VgiVerif.C02
open VgiVerif.Py

namespace Aux

/-! ### inversion of `inhabits` / `wellTyped` -/

theorem inh_int {env : Env} {w : IntW} {v : V} (h : inhabits env (.int w) v = true) : ∃ i, v = .int i ∧ w.fits i = true := by
  cases v <;> simp_all [inhabits]
theorem inh_f64 {env : Env} {v : V} (h : inhabits env .f64 v = true) : ∃ b, v = .float b := by
  cases v <;> simp_all [inhabits]
theorem inh_f32 {env : Env} {v : V} (h : inhabits env .f32 v = true) : ∃ b, v = .float b := by
  cases v <;> simp_all [inhabits]
theorem inh_str {env : Env} {v : V} (h : inhabits env .str v = true) : ∃ s, v = .str s := by
  cases v <;> simp_all [inhabits]
theorem inh_bytes {env : Env} {v : V} (h : inhabits env .bytes v = true) : ∃ s, v = .bytes s := by
  cases v <;> simp_all [inhabits]
theorem inh_bool {env : Env} {v : V} (h : inhabits env .bool v = true) : ∃ s, v = .bool s := by
  cases v <;> simp_all [inhabits]
theorem inh_enum {env : Env} {names : List (List Char)} {v : V} (h : inhabits env (.enum names) v = true) :
    ∃ n, v = .enum n ∧ names.contains n = true := by
  cases v <;> simp_all [inhabits]
theorem inh_native {env : Env} {k p s : Nat} {v : V} (h : inhabits env (.native k p s) v = true) :
    ∃ a b a' b', v = .native k a b ∧ env.native k p s a b = some (a', b') ∧ nativeSame k a b a' b' = true := by
  cases v with
  | native k' a b =>
    simp only [inhabits, Bool.and_eq_true, beq_iff_eq] at h
    obtain ⟨rfl, h2⟩ := h
    cases hn : env.native k p s a b with
    | none => simp [hn] at h2
    | some r => obtain ⟨a', b'⟩ := r; rw [hn] at h2; exact ⟨a, b, a', b', rfl, hn, h2⟩
  | _ => simp_all [inhabits]
theorem inh_opt {env : Env} {t : Ty} {v : V} (h : inhabits env (.opt t) v = true) :
    v = .none ∨ (v ≠ .none ∧ inhabits env t v = true) := by
  cases v <;> simp_all [inhabits]
theorem inh_list {env : Env} {t : Ty} {v : V} (h : inhabits env (.list t) v = true) :
    ∃ xs, v = .list xs ∧ ∀ x ∈ xs, inhabits env t x = true := by
  cases v <;> simp_all [inhabits]
theorem inh_set {env : Env} {t : Ty} {v : V} (h : inhabits env (.set t) v = true) :
    ∃ xs, v = .set xs ∧ (∀ x ∈ xs, inhabits env t x = true) ∧ pyDistinct xs = true := by
  cases v <;> simp_all [inhabits]
theorem notNone_ne {v : V} (h : notNone v = true) : v ≠ .none := by
  cases v <;> simp_all [notNone]
theorem inh_map {env : Env} {k w : Ty} {v : V} (h : inhabits env (.map k w) v = true) :
    ∃ kvs, v = .dict kvs ∧ (∀ p ∈ kvs, inhabits env k p.1 = true ∧ inhabits env w p.2 = true ∧ p.1 ≠ .none)
      ∧ pyDistinct (kvs.map Prod.fst) = true := by
  cases v with
  | dict kvs =>
    simp only [inhabits, Bool.and_eq_true, List.all_eq_true] at h
    refine ⟨kvs, rfl, fun p hp => ?_, h.2⟩
    have := h.1 p hp
    exact ⟨this.1.1, this.1.2, notNone_ne this.2⟩
  | _ => simp_all [inhabits]
theorem inh_dc {env : Env} {n : List Char} {fs : C03.Fields} {v : V} (h : inhabits env (.dc n fs) v = true) :
    ∃ ofs, v = .obj n ofs ∧ C03.inhabitsF env fs ofs = true := by
  cases v <;> simp_all [inhabits]

theorem norm_none (env : Env) (t : Ty) : norm env t .none = .none := by
  cases t <;> simp [norm]
theorem norm_opt (env : Env) (t : Ty) (v : V) : norm env (.opt t) v = norm env t v := by
  cases v <;> simp [norm, norm_none]

/-! ### plain (scalar) element types: the typed column returns `norm` -/

theorem plainRT (env : Env) : ∀ (t : Ty) (v : V), plain t = true → inhabits env t v = true →
    arrowRT env (infer t) v = .ok (norm env t v)
  | .int w, v, _, h => by obtain ⟨i, rfl, hi⟩ := inh_int h; simp [infer, arrowRT, norm, hi]
  | .f64, v, _, h => by obtain ⟨b, rfl⟩ := inh_f64 h; simp [infer, arrowRT, norm]
  | .f32, v, _, h => by obtain ⟨b, rfl⟩ := inh_f32 h; simp [infer, arrowRT, norm]
  | .str, v, _, h => by obtain ⟨b, rfl⟩ := inh_str h; simp [infer, arrowRT, norm]
  | .bytes, v, _, h => by obtain ⟨b, rfl⟩ := inh_bytes h; simp [infer, arrowRT, norm]
  | .bool, v, _, h => by obtain ⟨b, rfl⟩ := inh_bool h; simp [infer, arrowRT, norm]
  | .native k p s, v, _, h => by
    obtain ⟨a, b, a', b', rfl, hn, _⟩ := inh_native h
    simp [infer, arrowRT, norm, hn]
  | .opt t, v, hp, h => by
    rcases inh_opt h with rfl | ⟨_, h'⟩
    · simp [arrowRT, norm]
    · rw [norm_opt]
      have : plain t = true := by simp_all [plain]
      simpa [infer] using plainRT env t v this h'
  | .list t, v, hp, h => by
    obtain ⟨xs, rfl, hx⟩ := inh_list h
    have hp' : plain t = true := by simpa [plain] using hp
    have := mapM_ok (f := arrowRT env (infer t)) (g := norm env t) xs (fun x hx' => plainRT env t x hp' (hx x hx'))
    simp only [infer, arrowRT, norm, this]
    rfl
  | .enum _, _, hp, _ => by simp [plain] at hp
  | .set _, _, hp, _ => by simp [plain] at hp
  | .map _ _, _, hp, _ => by simp [plain] at hp
  | .dc _ _, _, hp, _ => by simp [plain] at hp

theorem inhabits_ne_none {env : Env} {t : Ty} {v : V} (ho : isOpt t = false) (h : inhabits env t v = true) : v ≠ .none := by
  intro hv; subst hv
  cases t <;> simp_all [inhabits, isOpt]

theorem norm_ne_none {env : Env} {t : Ty} {v : V} (ho : isOpt t = false) (hv : v ≠ .none) : norm env t v ≠ .none := by
  cases t <;> cases v <;> simp_all [norm, isOpt] <;> split <;> simp

/-- one hop, Optional already unwrapped -/
theorem hop (env : Env) (u : Ty) (v : V) (ho : isOpt u = false) (hs : supported u = true) (h : inhabits env u v = true) :
    ∃ w x, convertForArrow env u v = .ok w ∧ arrowRT env (arrowTop u) w = .ok x ∧ x ≠ .none
      ∧ deserializeValue env u x = .ok (norm env u v) := by
  have hnn := norm_ne_none (env := env) ho (inhabits_ne_none ho h)
  cases u with
  | opt t => simp [isOpt] at ho
  | int w =>
    obtain ⟨i, rfl, hi⟩ := inh_int h
    refine ⟨(.int i), norm env (.int w) (.int i), by simp [convertForArrow], ?_, hnn, by simp [deserializeValue, unopt, norm]⟩
    simpa [arrowTop, unopt] using plainRT env (.int w) (.int i) rfl h
  | f64 =>
    obtain ⟨b, rfl⟩ := inh_f64 h
    refine ⟨(.float b), norm env .f64 (.float b), by simp [convertForArrow], ?_, hnn, by simp [deserializeValue, unopt, norm]⟩
    simpa [arrowTop, unopt] using plainRT env .f64 (.float b) rfl h
  | f32 =>
    obtain ⟨b, rfl⟩ := inh_f32 h
    refine ⟨(.float b), norm env .f32 (.float b), by simp [convertForArrow], ?_, hnn, by simp [deserializeValue, unopt, norm]⟩
    simpa [arrowTop, unopt] using plainRT env .f32 (.float b) rfl h
  | str =>
    obtain ⟨b, rfl⟩ := inh_str h
    refine ⟨(.str b), norm env .str (.str b), by simp [convertForArrow], ?_, hnn, by simp [deserializeValue, unopt, norm]⟩
    simpa [arrowTop, unopt] using plainRT env .str (.str b) rfl h
  | bytes =>
    obtain ⟨b, rfl⟩ := inh_bytes h
    refine ⟨(.bytes b), norm env .bytes (.bytes b), by simp [convertForArrow], ?_, hnn, by simp [deserializeValue, unopt, norm]⟩
    simpa [arrowTop, unopt] using plainRT env .bytes (.bytes b) rfl h
  | bool =>
    obtain ⟨b, rfl⟩ := inh_bool h
    refine ⟨(.bool b), norm env .bool (.bool b), by simp [convertForArrow], ?_, hnn, by simp [deserializeValue, unopt, norm]⟩
    simpa [arrowTop, unopt] using plainRT env .bool (.bool b) rfl h
  | native k p s =>
    obtain ⟨a, b, a', b', rfl, hn, hsame⟩ := inh_native h
    refine ⟨.native k a b, norm env (.native k p s) (.native k a b), by simp [convertForArrow], ?_, hnn, by simp [deserializeValue, unopt]⟩
    simpa [arrowTop, unopt] using plainRT env (.native k p s) (.native k a b) rfl h
  | enum names =>
    obtain ⟨n, rfl, hm⟩ := inh_enum h
    refine ⟨.str n, .str n, by simp [convertForArrow], by simp [arrowTop, unopt, infer, arrowRT], by simp, ?_⟩
    have hm' : n ∈ names := by simpa using hm
    simp [deserializeValue, unopt, hm', norm]
  | list t =>
    obtain ⟨xs, rfl, hx⟩ := inh_list h
    have hp : plain (.list t) = true := by simpa [supported, plain] using hs
    refine ⟨.list xs, norm env (.list t) (.list xs), by simp [convertForArrow], ?_, hnn, by simp [deserializeValue, unopt]⟩
    simpa [arrowTop, unopt] using plainRT env (.list t) (.list xs) hp h
  | set t =>
    obtain ⟨xs, rfl, hx, _⟩ := inh_set h
    have hp : plain (.list t) = true := by simpa [supported, plain] using hs
    have hl : inhabits env (.list t) (.list xs) = true := by simp [inhabits]; exact hx
    have := plainRT env (.list t) (.list xs) hp hl
    refine ⟨.list xs, norm env (.list t) (.list xs), by simp [convertForArrow], by simpa [arrowTop, unopt, infer] using this,
      by simp [norm], ?_⟩
    simp [deserializeValue, unopt, norm]
  | map k w =>
    obtain ⟨kvs, rfl, hp, _⟩ := inh_map h
    have hpk : plain k = true ∧ plain w = true := by simpa [supported] using hs
    have := mapM_map_ok (f := mapEntry (arrowRT env (infer k)) (arrowRT env (infer w)))
      (w := fun p : V × V => V.tuple [p.1, p.2])
      (g := fun p => V.tuple [norm env k p.1, norm env w p.2]) kvs
      (by
        intro p hp'
        obtain ⟨h1, h2, h3⟩ := hp p hp'
        exact mapEntry_ok h3 (plainRT env k p.1 hpk.1 h1) (plainRT env w p.2 hpk.2 h2))
    refine ⟨.list (kvs.map (fun p => V.tuple [p.1, p.2])), .list (kvs.map (fun p => V.tuple [norm env k p.1, norm env w p.2])),
      by simp [convertForArrow], ?_, by simp, ?_⟩
    · simp only [arrowTop, unopt, infer, arrowRT, this]
      rfl
    · have e1 := mapM_map_ok (f := C03.unpair) (w := fun p : V × V => V.tuple [norm env k p.1, norm env w p.2])
        (g := fun p => (norm env k p.1, norm env w p.2)) kvs (by intro p _; rfl)
      simp only [deserializeValue, unopt, e1, norm]
      rfl
  | dc n fs =>
    obtain ⟨ofs, rfl, hf⟩ := inh_dc h
    have hs' : C03.supportedF fs = true := by simpa [supported] using hs
    refine ⟨.ipc (.dict (C03.Aux.wireF env.round32 env fs ofs)), .ipc (.dict (C03.Aux.wireF env.round32 env fs ofs)),
      by simpa [convertForArrow] using C03.Aux.serBytes_ok env fs ofs hs' hf, by simp [arrowTop, unopt, arrowRT], by simp, ?_⟩
    simp only [deserializeValue, unopt, isBytes, if_true, norm]
    exact C03.Aux.fromBytes_wire env n fs ofs hs' hf

theorem convert_opt (env : Env) (t : Ty) (v : V) : convertForArrow env (.opt t) v = convertForArrow env t v := by
  cases v <;> simp [convertForArrow]

theorem trip_ok (env : Env) (aty : ATy) (t : Ty) (v : V) (hs : supported t = true) (h : inhabits env t v = true)
    (ha : aty = arrowTop t) : trip env aty t v = .ok (norm env t v) := by
  subst ha
  cases t with
  | opt u =>
    have hu : isOpt u = false ∧ supported u = true := by
      simp only [supported, Bool.and_eq_true, Bool.not_eq_true'] at hs; exact ⟨hs.2, hs.1⟩
    rcases inh_opt h with rfl | ⟨hv, h'⟩
    · simp [trip, isOpt, norm]
    · obtain ⟨w, x, e1, e2, e3, e4⟩ := hop env u v hu.1 hu.2 h'
      have ht : arrowTop (.opt u) = arrowTop u := by
        cases u <;> simp_all [arrowTop, unopt, isOpt]
      have hd : deserializeValue env (.opt u) x = deserializeValue env u x := by
        cases u <;> simp_all [deserializeValue, unopt, isOpt]
      rw [norm_opt]
      cases v with
      | none => exact absurd rfl hv
      | _ =>
        simp only [trip, convert_opt, e1, ht]
        show (arrowRT env (arrowTop u) w >>= fun x => _) = _
        rw [e2]
        cases x with
        | none => exact absurd rfl e3
        | _ => simpa [bind, Except.bind, hd] using e4
  | _ =>
    all_goals
      obtain ⟨w, x, e1, e2, e3, e4⟩ := hop env _ v (by simp [isOpt]) hs h
      have hv := inhabits_ne_none (env := env) (t := _) (v := v) (by simp [isOpt]) h
      cases v with
      | none => exact absurd rfl hv
      | _ =>
        simp only [trip, e1]
        show (arrowRT env _ w >>= fun x => _) = _
        rw [e2]
        cases x with
        | none => exact absurd rfl e3
        | _ => simpa [bind, Except.bind] using e4

end Aux
end VgiVerif.C02
