import VgiVerif.Prelude.Framing
/-
Lemmas about separator-framed byte strings:
UTF-8 (`utf8` is injective, `decodeUtf8 ∘ utf8 = some`, ASCII bytes of an encoding come from ASCII characters),
cutting at the first separator, and encapsulated IPC messages forming a prefix code.
-/
namespace VgiVerif.Framing

/-! ### UTF-8 -/

theorem utf8_toByteArray (s : List Char) : (utf8 s).toByteArray = s.utf8Encode := rfl

theorem decode_utf8 (s : List Char) : decodeUtf8 (utf8 s) = some s := by
  simp [decodeUtf8, utf8_toByteArray, List.utf8Decode?_utf8Encode]

theorem utf8_inj {a b : List Char} (h : utf8 a = utf8 b) : a = b := by
  have := decode_utf8 a
  rw [h, decode_utf8] at this
  exact (Option.some.inj this).symm

@[simp] theorem utf8_nil : utf8 [] = [] := rfl

theorem utf8_cons (c : Char) (s : List Char) : utf8 (c :: s) = String.utf8EncodeChar c ++ utf8 s := by
  simp [utf8]

theorem utf8_append (a b : List Char) : utf8 (a ++ b) = utf8 a ++ utf8 b := by
  simp [utf8]

private theorem or_ge (a m : UInt8) : m.toNat ≤ (a ||| m).toNat := by
  rw [UInt8.toNat_or]; exact Nat.right_le_or

/-- every byte of a character's encoding is either that (ASCII) character itself or ≥ 0x80 -/
theorem byte_of_encodeChar {c : Char} {x : UInt8} (hx : x ∈ String.utf8EncodeChar c) :
    x.toNat = c.toNat ∨ 128 ≤ x.toNat := by
  rcases c.utf8Size_eq with h | h | h | h
  · left
    rw [String.utf8EncodeChar_eq_singleton h] at hx
    have hc : c.val.toNat ≤ 127 := by
      have := Char.utf8Size_eq_one_iff.mp h
      simpa [UInt32.le_iff_toNat_le] using this
    simp only [List.mem_singleton] at hx
    subst hx
    simp only [UInt32.toNat_toUInt8, Char.toNat]
    omega
  · right
    rw [String.utf8EncodeChar_eq_cons_cons h] at hx
    simp only [List.mem_cons, List.not_mem_nil, or_false] at hx
    rcases hx with rfl | rfl
    · exact Nat.le_trans (by decide) (or_ge _ 0xc0)
    · exact or_ge _ 0x80
  · right
    rw [String.utf8EncodeChar_eq_cons_cons_cons h] at hx
    simp only [List.mem_cons, List.not_mem_nil, or_false] at hx
    rcases hx with rfl | rfl | rfl
    · exact Nat.le_trans (by decide) (or_ge _ 0xe0)
    · exact or_ge _ 0x80
    · exact or_ge _ 0x80
  · right
    rw [String.utf8EncodeChar_eq_cons_cons_cons_cons h] at hx
    simp only [List.mem_cons, List.not_mem_nil, or_false] at hx
    rcases hx with rfl | rfl | rfl | rfl
    · exact Nat.le_trans (by decide) (or_ge _ 0xf0)
    · exact or_ge _ 0x80
    · exact or_ge _ 0x80
    · exact or_ge _ 0x80

/-- an ASCII byte occurs in `utf8 s` only as the encoding of that ASCII character -/
theorem ascii_mem_utf8 {s : List Char} {x : UInt8} (hx : x.toNat < 128) (h : x ∈ utf8 s) :
    ∃ c ∈ s, c.toNat = x.toNat := by
  simp only [utf8, List.mem_flatMap] at h
  obtain ⟨c, hc, hxc⟩ := h
  rcases byte_of_encodeChar hxc with h' | h'
  · exact ⟨c, hc, h'.symm⟩
  · omega

theorem not_mem_utf8_of_ascii {s : List Char} {x : UInt8} (hx : x.toNat < 128)
    (h : ∀ c ∈ s, c.toNat ≠ x.toNat) : x ∉ utf8 s := by
  intro hm
  obtain ⟨c, hc, e⟩ := ascii_mem_utf8 hx hm
  exact h c hc e

/-! ### cutting at a separator -/

/-- a separator-terminated field whose content avoids the separator is cut in only one way -/
theorem split_at_sep {α : Type} {sep : α} : ∀ {a b r s : List α}, sep ∉ a → sep ∉ b →
    a ++ sep :: r = b ++ sep :: s → a = b ∧ r = s
  | [], [], _, _, _, _, h => by simpa using h
  | [], y :: b, _, _, _, hb, h => by
    simp only [List.nil_append, List.cons_append, List.cons.injEq] at h
    exact absurd (h.1 ▸ List.mem_cons_self) hb
  | x :: a, [], _, _, ha, _, h => by
    simp only [List.nil_append, List.cons_append, List.cons.injEq] at h
    exact absurd (h.1 ▸ List.mem_cons_self) ha
  | x :: a, y :: b, r, s, ha, hb, h => by
    simp only [List.cons_append, List.cons.injEq] at h
    have ha' : sep ∉ a := fun m => ha (List.mem_cons_of_mem _ m)
    have hb' : sep ∉ b := fun m => hb (List.mem_cons_of_mem _ m)
    obtain ⟨e, t⟩ := split_at_sep ha' hb' h.2
    exact ⟨by rw [h.1, e], t⟩

/-- a field terminated by `t` and followed by something that is empty or starts with `u`:
if the field avoids `u`, it is cut in only one way (the field MAY contain `t`). -/
theorem split_at_sep_then {α : Type} {t u : α} (htu : t ≠ u) {a b r s : List α}
    (ha : u ∉ a) (hb : u ∉ b) (hr : r = [] ∨ ∃ r', r = u :: r') (hs : s = [] ∨ ∃ s', s = u :: s')
    (h : a ++ t :: r = b ++ t :: s) : a = b ∧ r = s := by
  rcases List.append_eq_append_iff.mp h with ⟨m, e1, e2⟩ | ⟨m, e1, e2⟩
  · -- b = a ++ m,  t :: r = m ++ t :: s
    cases m with
    | nil => simp at e1 e2; exact ⟨e1.symm, e2⟩
    | cons x m =>
      simp only [List.cons_append, List.cons.injEq] at e2
      obtain ⟨_, e2⟩ := e2
      -- r = m ++ t :: s is non-empty, so it starts with u
      rcases hr with rfl | ⟨r', rfl⟩
      · cases m <;> simp at e2
      · cases m with
        | nil => simp only [List.nil_append, List.cons.injEq] at e2; exact absurd e2.1.symm htu
        | cons y m =>
          simp only [List.cons_append, List.cons.injEq] at e2
          exact absurd (by rw [e1, e2.1]; simp) hb
  · cases m with
    | nil => simp at e1 e2; exact ⟨e1, e2.symm⟩
    | cons x m =>
      simp only [List.cons_append, List.cons.injEq] at e2
      obtain ⟨_, e2⟩ := e2
      rcases hs with rfl | ⟨s', rfl⟩
      · cases m <;> simp at e2
      · cases m with
        | nil => simp only [List.nil_append, List.cons.injEq] at e2; exact absurd e2.1.symm htu
        | cons y m =>
          simp only [List.cons_append, List.cons.injEq] at e2
          exact absurd (by rw [e1, e2.1]; simp) ha

/-! ### encapsulated IPC messages -/

theorem isEncapsulated_shape {b : Bytes} (h : isEncapsulated b = true) :
    ∃ l0 l1 l2 l3 body, b = 0xFF :: 0xFF :: 0xFF :: 0xFF :: l0 :: l1 :: l2 :: l3 :: body ∧
      body.length = l0.toNat + 256 * l1.toNat + 65536 * l2.toNat + 16777216 * l3.toNat := by
  unfold isEncapsulated at h
  split at h
  · rename_i a b c d body
    exact ⟨a, b, c, d, body, rfl, by simpa using h⟩
  · exact absurd h (by simp)

/-- the length prefix makes encapsulated messages a prefix code -/
theorem encapsulated_prefixCode : PrefixCode (fun b => isEncapsulated b = true) := by
  intro a b r s ha hb h
  obtain ⟨a0, a1, a2, a3, ba, rfl, la⟩ := isEncapsulated_shape ha
  obtain ⟨b0, b1, b2, b3, bb, rfl, lb⟩ := isEncapsulated_shape hb
  simp only [List.cons_append, List.cons.injEq, true_and] at h
  obtain ⟨rfl, rfl, rfl, rfl, h⟩ := h
  obtain ⟨e, t⟩ := List.append_inj h (by omega)
  exact ⟨by rw [e], t⟩

theorem encapsulated_head {b : Bytes} (h : isEncapsulated b = true) : ∃ t, b = 0xFF :: t := by
  obtain ⟨_, _, _, _, _, rfl, _⟩ := isEncapsulated_shape h
  exact ⟨_, rfl⟩

end VgiVerif.Framing
