import VgiVerif.Prelude.SchedProd
import VgiVerif.Lemmas.Sched
/-
Lemmas about products of independent components (Sched kit): a step touches one component; the projection lemma
(isolation); commutation of steps of different components.
-/
namespace VgiVerif.Sched
namespace Prod
variable {Sh C L : Type} (P : Prod Sh C L)

/-- inversion of a product step -/
theorem step_eq_some {s s' : PSt Sh C} {i : Tid} {l : L} (h : P.step s (i, l) = some s') :
    ∃ sh' c', P.sstep s.shared i l (s.comp i) = some sh' ∧ P.cstep (s.comp i) l = some c' ∧
      s' = ⟨sh', upd s.comp i c'⟩ := by
  unfold step at h
  simp only at h
  split at h
  · next sh' c' h1 h2 => cases h; exact ⟨sh', c', h1, h2, rfl⟩
  · cases h

/-- the stepping component moves by its own step function -/
theorem step_comp_self {s s' : PSt Sh C} {i : Tid} {l : L} (h : P.step s (i, l) = some s') :
    P.cstep (s.comp i) l = some (s'.comp i) := by
  obtain ⟨sh', c', _, h2, rfl⟩ := P.step_eq_some h
  simp only [upd_same]; exact h2

/-- every other component is untouched -/
theorem step_comp_other {s s' : PSt Sh C} {i j : Tid} {l : L} (h : P.step s (i, l) = some s') (hne : j ≠ i) :
    s'.comp j = s.comp j := by
  obtain ⟨sh', c', _, _, rfl⟩ := P.step_eq_some h
  exact upd_other _ _ hne

/-- **projection lemma (isolation)**: in ANY run of the product — any interleaving with any number of other
components, whatever the shared part allowed or refused — the labels of component `i` form a run of component `i`
ALONE, and that solo run ends in exactly the state component `i` has at the end of the interleaved run -/
theorem proj_runFrom {init : PSt Sh C} {s s' : PSt Sh C} {ls : List (Tid × L)}
    (h : (P.ts init).runFrom s ls = some s') (i : Tid) (c0 : C) :
    (P.compTS c0).runFrom (s.comp i) (projLabels i ls) = some (s'.comp i) := by
  induction ls generalizing s with
  | nil =>
    simp only [TS.runFrom, Option.some.injEq] at h; subst h; rfl
  | cons jl ls ih =>
    obtain ⟨j, l⟩ := jl
    simp only [TS.runFrom] at h
    cases hst : (P.ts init).step s (j, l) with
    | none => rw [hst] at h; cases h
    | some m =>
      rw [hst] at h
      have hm := ih h
      have hst' : P.step s (j, l) = some m := hst
      by_cases hji : j = i
      · subst hji
        simp only [projLabels, if_true, TS.runFrom]
        have : (P.compTS c0).step (s.comp j) l = some (m.comp j) := P.step_comp_self hst'
        rw [this]; exact hm
      · simp only [projLabels, if_neg hji]
        have : m.comp i = s.comp i := P.step_comp_other hst' (fun h => hji h.symm)
        rw [← this]; exact hm

/-- the projection lemma from the initial state -/
theorem proj_run {init : PSt Sh C} {s' : PSt Sh C} {ls : List (Tid × L)}
    (h : (P.ts init).run ls = some s') (i : Tid) :
    (P.compTS (init.comp i)).run (projLabels i ls) = some (s'.comp i) :=
  P.proj_runFrom h i (init.comp i)

/-- function updates at different points commute -/
theorem upd_comm {α : Type} (f : Tid → α) {i j : Tid} (hne : i ≠ j) (a b : α) :
    upd (upd f i a) j b = upd (upd f j b) i a := by
  funext x
  simp only [upd]
  by_cases hxj : x = j
  · subst hxj
    have : ¬ (x = i) := fun h => hne h.symm
    simp [this]
  · by_cases hxi : x = i
    · subst hxi; simp [hne]
    · simp [hxi, hxj]

/-- **commutation**: consecutive steps of two DIFFERENT components can be swapped whenever the shared part lets them
be swapped (always, when the two labels do not touch the shared part): the component parts commute unconditionally -/
theorem step_comm {s s1 s2 : PSt Sh C} {i j : Tid} {l m : L} (hne : i ≠ j)
    (h1 : P.step s (i, l) = some s1) (h2 : P.step s1 (j, m) = some s2)
    (hsh : ∀ sh1 sh2, P.sstep s.shared i l (s.comp i) = some sh1 → P.sstep sh1 j m (s.comp j) = some sh2 →
      ∃ sh1', P.sstep s.shared j m (s.comp j) = some sh1' ∧ P.sstep sh1' i l (s.comp i) = some sh2) :
    ∃ s1', P.step s (j, m) = some s1' ∧ P.step s1' (i, l) = some s2 := by
  obtain ⟨sh1, c1, ha, hb, rfl⟩ := P.step_eq_some h1
  obtain ⟨sh2, c2, hc, hd, rfl⟩ := P.step_eq_some h2
  have hj : upd s.comp i c1 j = s.comp j := upd_other _ _ (fun h => hne h.symm)
  simp only [hj] at hc hd
  obtain ⟨sh1', he, hf⟩ := hsh sh1 sh2 ha hc
  refine ⟨⟨sh1', upd s.comp j c2⟩, ?_, ?_⟩
  · unfold step; simp only [he, hd]
  · have hi : upd s.comp j c2 i = s.comp i := upd_other _ _ hne
    unfold step; simp only [hi, hf, hb]
    rw [upd_comm _ hne]

end Prod

theorem projLabels_append {L : Type} (i : Tid) (a b : List (Tid × L)) :
    projLabels i (a ++ b) = projLabels i a ++ projLabels i b := by
  induction a with
  | nil => rfl
  | cons x r ih =>
    obtain ⟨j, l⟩ := x
    simp only [List.cons_append, projLabels]
    split <;> simp [ih]

end VgiVerif.Sched
