import VgiVerif.Lemmas.C03Wire
/-
C03 helper lemmas, part 2 (namespace `Aux`): deserialization of the travelling value gives `norm`; the class-level
round trip; `norm` is the identity on exact classes.
-/
namespace VgiVerif.C03
open VgiVerif.Py
namespace Aux

theorem nested_skip (env : Env) (n : List Char) (x : V) :
    ∀ (fs : Fields) (kvs : List (V × V)), n ∉ fieldNames fs →
      nested env fs ((.str n, x) :: kvs) = nested env fs kvs
  | .nil, kvs, _ => by simp [nested]
  | .cons m tr d a rest, kvs, h => by
    simp only [fieldNames, List.mem_cons, not_or] at h
    simp only [nested]
    rw [dictGet_cons_ne n m x kvs h.1, nested_skip env n x rest kvs h.2]

theorem fromRow_skip (env : Env) (n : List Char) (x : V) :
    ∀ (fs : Fields) (kvs : List (V × V)), n ∉ fieldNames fs →
      fromRow env fs (some ((.str n, x) :: kvs)) = fromRow env fs (some kvs)
  | .nil, kvs, _ => by simp [fromRow]
  | .cons m tr d a rest, kvs, h => by
    simp only [fieldNames, List.mem_cons, not_or] at h
    simp only [fromRow]
    rw [dictGet_cons_ne n m x kvs h.1, fromRow_skip env n x rest kvs h.2]

theorem requiredOk_skip (n : List Char) (x : V) :
    ∀ (fs : Fields) (kvs : List (V × V)), n ∉ fieldNames fs →
      requiredOk fs ((.str n, x) :: kvs) = requiredOk fs kvs
  | .nil, kvs, _ => by simp [requiredOk]
  | .cons m tr d a rest, kvs, h => by
    simp only [fieldNames, List.mem_cons, not_or] at h
    simp only [requiredOk]
    rw [dictGet_cons_ne n m x kvs h.1, requiredOk_skip n x rest kvs h.2]

theorem enumLookup_mem (ms : List (List Char × Option (List Char))) (n : List Char)
    (h : ms.any (fun m => m.1 == n) = true) : enumLookup ms n = .ok (.enum n) := by
  simp [enumLookup, h]

theorem deser_none (env : Env) (a : Ann) : deser env a .none = .ok .none := by
  cases a <;> simp [deser]

theorem deser_opt (env : Env) (a : Ann) (w : V) : deser env (.opt a) w = deser env a w := by
  cases w <;> simp [deser, deser_none]

theorem wire_opt (rd : Nat → Nat) (env : Env) (a : Ann) (v : V) : wire rd env (.opt a) v = wire rd env a v := by
  cases v <;> simp [wire, wire_none]

theorem norm_none (env : Env) (a : Ann) : norm env a .none = .none := by
  cases a <;> simp [norm]

theorem norm_opt (env : Env) (a : Ann) (v : V) : norm env (.opt a) v = norm env a v := by
  cases v <;> simp [norm, norm_none]

mutual
theorem T3 (env : Env) : ∀ (a : Ann) (v : V), supported a = true → inhabits env a v = true →
    deser env a (wire env.round32 env a v) = .ok (norm env a v)
  | .scalar s, v, _, h => by
    rcases inh_scalar h with ⟨rfl, x, rfl⟩ | ⟨rfl, x, rfl⟩ | ⟨rfl, i, rfl, hi⟩ | ⟨rfl, b, rfl⟩ | ⟨rfl, b, rfl⟩ <;>
      simp [deser, wire, norm]
  | .intW w, v, _, h => by
    obtain ⟨i, rfl, hi⟩ := inh_intW h
    simp [deser, wire, norm]
  | .float32, v, _, h => by
    obtain ⟨b, rfl⟩ := inh_float32 h
    simp [deser, wire, norm]
  | .enum ms, v, _, h => by
    obtain ⟨n, rfl, hm⟩ := inh_enum h
    simp [deser, wire, norm, enumLookup_mem ms n hm]
  | .opt a, v, hs, h => by
    rcases inh_opt h with rfl | ⟨hv, h'⟩
    · simp [wire, deser, norm]
    · rw [wire_opt, deser_opt, norm_opt]
      exact T3 env a v (by simp_all [supported]) h'
  | .list a, v, hs, h => by
    obtain ⟨xs, rfl, hx⟩ := inh_list h
    have hs' : supported a = true := by simp_all [supported]
    have := mapM_map_ok (f := deser env a) (w := wire env.round32 env a) (g := norm env a) xs
      (fun x hx' => T3 env a x hs' (hx x hx'))
    simp only [deser, wire, norm, this]
    rfl
  | .set a, v, hs, h => by
    obtain ⟨xs, rfl, hx, _⟩ := inh_set h
    have hs' : supported a = true := by simp_all [supported]
    have := mapM_map_ok (f := deser env a) (w := wire env.round32 env a) (g := norm env a) xs
      (fun x hx' => T3 env a x hs' (hx x hx'))
    simp only [deser, wire, norm, setRecurses, if_true, this]
    rfl
  | .map k w, v, hs, h => by
    obtain ⟨kvs, rfl, hp, _⟩ := inh_map h
    have hsk : supported k = true ∧ supported w = true := by simp_all [supported]
    have e1 := mapM_map_ok (f := unpair) (w := fun p : V × V => V.tuple [wire env.round32 env k p.1, wire env.round32 env w p.2])
      (g := fun p => (wire env.round32 env k p.1, wire env.round32 env w p.2)) kvs (by intro p _; rfl)
    have e2 := mapM_map_ok (f := fun p : V × V => do let a ← deser env k p.1; let b ← deser env w p.2; pure (a, b))
      (w := fun p : V × V => (wire env.round32 env k p.1, wire env.round32 env w p.2))
      (g := fun p => (norm env k p.1, norm env w p.2)) kvs
      (by
        intro p hp'
        obtain ⟨h1, h2, _⟩ := hp p hp'
        simp only [T3 env k p.1 hsk.1 h1, T3 env w p.2 hsk.2 h2]
        rfl)
    simp only [deser, wire, norm, dictRecurses, if_true, e1]
    show (do
      let qs ← List.mapM (fun p : V × V => do let a ← deser env k p.1; let b ← deser env w p.2; pure (a, b))
        (List.map (fun p : V × V => (wire env.round32 env k p.1, wire env.round32 env w p.2)) kvs)
      pure (V.dict (dictOfPairs qs))) = _
    rw [e2]
    rfl
  | .dc n fs, v, hs, h => by
    obtain ⟨ofs, rfl, hf⟩ := inh_dc h
    have := (T3F env fs ofs (by simp_all [supported]) hf).1
    simp only [deser, wire, norm, isBytes, this]
    rfl
  | .dcBin n fs, v, hs, h => by simp [supported] at hs
  | .schema, v, _, h => by
    obtain ⟨i, rfl⟩ := inh_schema h
    simp [deser, wire, norm, isBytes]
  | .batch, v, _, h => by
    obtain ⟨i, rfl⟩ := inh_batch h
    simp [deser, wire, norm, isBytes]
theorem T3F (env : Env) : ∀ (fs : Fields) (ofs : List (List Char × V)), supportedF fs = true → inhabitsF env fs ofs = true →
    nested env fs (wireF env.round32 env fs ofs) = .ok (normF env fs ofs)
      ∧ fromRow env fs (some (wireF env.round32 env fs ofs)) = .ok (normF env fs ofs)
      ∧ requiredOk fs (wireF env.round32 env fs ofs) = true
  | .nil, ofs, _, h => by
    rw [inhF_nil h]; simp [wireF, nested, fromRow, requiredOk, normF]
  | .cons n tr d a rest, ofs, hs, h => by
    obtain ⟨v, ofs', rfl, hv, ht⟩ := inhF_cons h
    obtain ⟨hn, hd, hsa, hsr⟩ := supF_cons hs
    obtain ⟨ih1, ih2, ih3⟩ := T3F env rest ofs' hsr ht
    cases tr with
    | true =>
      obtain ⟨dv, rfl⟩ := Option.isSome_iff_exists.1 (hd rfl)
      simp only [wireF, if_true, nested, fromRow, requiredOk, normF, ih1, ih2, ih3, Option.getD_some, Bool.true_or, Bool.true_and]
      exact ⟨rfl, rfl, trivial⟩
    | false =>
      have hv' : inhabits env a v = true := by simpa using hv
      have e : deser env a (wireField env.round32 env a v) = .ok (norm env a v) := by
        cases a with
        | dcBin n' fs' =>
          obtain ⟨o2, rfl, hf2⟩ := inh_dcBin hv'
          have hs2 : supportedF fs' = true := by simpa [supportedTop] using hsa
          obtain ⟨_, r2, r3⟩ := T3F env fs' o2 hs2 hf2
          simp only [wireField, deser, isBytes, if_true, r3, Bool.or_true, r2, norm]
          rfl
        | opt b =>
          cases b with
          | dcBin n' fs' =>
            rcases inh_opt hv' with rfl | ⟨_, h'⟩
            · simp [wireField, wire, deser, norm]
            · obtain ⟨o2, rfl, hf2⟩ := inh_dcBin h'
              have hs2 : supportedF fs' = true := by simpa [supportedTop] using hsa
              obtain ⟨_, r2, r3⟩ := T3F env fs' o2 hs2 hf2
              simp only [wireField, deser, isBytes, if_true, r3, Bool.or_true, r2, norm]
              rfl
          | _ =>
            rw [wireField_eq env.round32 env _ v (by simp) (by simp)]
            exact T3 env _ v (by simpa [supportedTop, supported] using hsa) hv'
        | _ =>
          rw [wireField_eq env.round32 env _ v (by simp) (by simp)]
          exact T3 env _ v (by simpa [supportedTop, supported] using hsa) hv'
      simp only [wireF, Bool.false_eq_true, if_false, nested, fromRow, requiredOk, normF, dictGet_cons_eq, Option.getD_some, e,
        nested_skip env n _ rest _ hn, fromRow_skip env n _ rest _ hn, requiredOk_skip n _ rest _ hn, ih1, ih2, ih3,
        Option.isSome_some, Bool.or_true, Bool.true_and]
      exact ⟨rfl, rfl, trivial⟩
end

theorem roundtrip_ok (env : Env) (a : Ann) (v : V) (hs : supported a = true) (h : inhabits env a v = true) :
    roundtrip env a v = .ok (norm env a v) := by
  unfold roundtrip
  rw [T1 env a v hs h]
  show (arrowRT env (infer a) (wire id env a v) >>= fun x => deser env a x) = _
  rw [T2 env a v hs h]
  exact T3 env a v hs h

theorem serBytes_ok (env : Env) (fs : Fields) (ofs : List (List Char × V)) (hs : supportedF fs = true)
    (h : inhabitsF env fs ofs = true) : serBytes env fs ofs = .ok (.ipc (.dict (wireF env.round32 env fs ofs))) := by
  unfold serBytes
  rw [T1F env fs ofs hs h]
  show (arrowS env (inferF fs) (wireF id env fs ofs) >>= fun r => pure (V.ipc (V.dict r))) = _
  rw [T2F env fs ofs hs h]
  rfl

theorem fromBytes_wire (env : Env) (n : List Char) (fs : Fields) (ofs : List (List Char × V)) (hs : supportedF fs = true)
    (h : inhabitsF env fs ofs = true) :
    fromBytes env n fs (.ipc (.dict (wireF env.round32 env fs ofs))) = .ok (.obj n (normF env fs ofs)) := by
  obtain ⟨_, r2, r3⟩ := T3F env fs ofs hs h
  simp only [fromBytes, r3, Bool.or_true, if_true, r2]
  rfl

theorem roundtripBytes_ok (env : Env) (n : List Char) (fs : Fields) (ofs : List (List Char × V)) (hs : supportedF fs = true)
    (h : inhabitsF env fs ofs = true) : roundtripBytes env n fs ofs = .ok (.obj n (normF env fs ofs)) := by
  unfold roundtripBytes
  rw [serBytes_ok env fs ofs hs h]
  exact fromBytes_wire env n fs ofs hs h

mutual
theorem norm_exact (env : Env) : ∀ (a : Ann) (v : V), exact a = true → inhabits env a v = true → norm env a v = v
  | .scalar s, v, _, h => by
    rcases inh_scalar h with ⟨rfl, x, rfl⟩ | ⟨rfl, x, rfl⟩ | ⟨rfl, i, rfl, hi⟩ | ⟨rfl, b, rfl⟩ | ⟨rfl, b, rfl⟩ <;> simp [norm]
  | .intW w, v, _, h => by
    obtain ⟨i, rfl, hi⟩ := inh_intW h
    simp [norm]
  | .float32, v, he, _ => by simp [exact] at he
  | .enum ms, v, _, h => by
    obtain ⟨n, rfl, _⟩ := inh_enum h
    simp [norm]
  | .opt a, v, he, h => by
    rcases inh_opt h with rfl | ⟨_, h'⟩
    · simp [norm]
    · rw [norm_opt]; exact norm_exact env a v (by simpa [exact] using he) h'
  | .list a, v, he, h => by
    obtain ⟨xs, rfl, hx⟩ := inh_list h
    have he' : exact a = true := by simpa [exact] using he
    simp only [norm]
    congr 1
    exact (List.map_congr_left (fun x hx' => norm_exact env a x he' (hx x hx'))).trans (List.map_id' xs)
  | .set a, v, he, h => by
    obtain ⟨xs, rfl, hx, hd⟩ := inh_set h
    have he' : exact a = true := by simpa [exact] using he
    simp only [norm]
    rw [(List.map_congr_left (fun x hx' => norm_exact env a x he' (hx x hx'))).trans (List.map_id' xs), dedup_of_distinct xs hd]
  | .map k w, v, he, h => by
    obtain ⟨kvs, rfl, hp, hd⟩ := inh_map h
    have he' : exact k = true ∧ exact w = true := by simpa [exact] using he
    simp only [norm]
    have : kvs.map (fun p => (norm env k p.1, norm env w p.2)) = kvs := by
      refine (List.map_congr_left (fun p hp' => ?_)).trans (List.map_id' kvs)
      obtain ⟨h1, h2, _⟩ := hp p hp'
      rw [norm_exact env k p.1 he'.1 h1, norm_exact env w p.2 he'.2 h2]
    rw [this, dictOfPairs_distinct kvs hd]
  | .dc n fs, v, he, h => by
    obtain ⟨ofs, rfl, hf⟩ := inh_dc h
    simp only [norm]
    rw [normF_exact env fs ofs (by simpa [exact] using he) hf]
  | .dcBin n fs, v, he, h => by
    obtain ⟨ofs, rfl, hf⟩ := inh_dcBin h
    simp only [norm]
    rw [normF_exact env fs ofs (by simpa [exact] using he) hf]
  | .schema, v, _, h => by
    obtain ⟨i, rfl⟩ := inh_schema h
    simp [norm]
  | .batch, v, _, h => by
    obtain ⟨i, rfl⟩ := inh_batch h
    simp [norm]
theorem normF_exact (env : Env) : ∀ (fs : Fields) (ofs : List (List Char × V)), exactF fs = true → inhabitsF env fs ofs = true →
    normF env fs ofs = ofs
  | .nil, ofs, _, h => by rw [inhF_nil h]; simp [normF]
  | .cons n tr d a rest, ofs, he, h => by
    obtain ⟨v, ofs', rfl, hv, ht⟩ := inhF_cons h
    simp only [exactF, Bool.and_eq_true, Bool.not_eq_true'] at he
    obtain ⟨⟨htr, hea⟩, her⟩ := he
    subst htr
    have hv' : inhabits env a v = true := by simpa using hv
    simp only [normF, Bool.false_eq_true, if_false, norm_exact env a v hea hv', normF_exact env rest ofs' her ht]
end

end Aux
end VgiVerif.C03
