import VgiVerif.Prelude.JsonSchema
/-
Evaluation lemmas for the flat JSON-Schema evaluator: how `propOk` decides for a key that is absent, present, present
under a condition, or an `Option` mapped into a value.
-/
namespace VgiVerif.JsonSchema

variable {κ : Type}

theorem propOk_none {g : κ → Option JV} {k : κ} (hk : g k = none) (as : List Atom) : propOk g (k, as) = true := by
  simp only [propOk, hk]

theorem propOk_some {g : κ → Option JV} {k : κ} {v : JV} (hk : g k = some v) (as : List Atom)
    (h : as.all (·.ok v) = true) : propOk g (k, as) = true := by
  simp only [propOk, hk, h]

theorem propOk_map {α : Type} {g : κ → Option JV} {k : κ} (o : Option α) (f : α → JV) (hk : g k = o.map f)
    (as : List Atom) (h : ∀ a, o = some a → as.all (·.ok (f a)) = true) : propOk g (k, as) = true := by
  cases o with
  | none => simp only [propOk, hk, Option.map]
  | some a => simp only [propOk, hk, Option.map, h a rfl]

theorem propOk_ite {g : κ → Option JV} {k : κ} (b : Bool) (v : JV) (hk : g k = if b then some v else none)
    (as : List Atom) (h : as.all (·.ok v) = true) : propOk g (k, as) = true := by
  cases b with
  | false => simp [propOk, hk]
  | true => simp [propOk, hk, h]

theorem len_pos {α : Type} {s : List α} (h : s ≠ []) : 1 ≤ s.length := by
  cases s with
  | nil => exact absurd rfl h
  | cons a b => simp

/-- a string that fully matches `hexLen n` with `n > 0` is not empty -/
theorem hex_nonempty {n : Nat} {s : Str} (hn : 0 < n) (h : fullMatch (.hexLen n) s = true) : s ≠ [] := by
  intro hs
  subst hs
  simp [fullMatch] at h
  omega

theorem patOk_of_full {p : Pat} {s : Str} (h : fullMatch p s = true) : patOk p s = true := by
  simp [patOk, h]

end VgiVerif.JsonSchema
