import VgiVerif.Model.C14
/-
Helper lemmas for C14: identity key vs AAD, `_CallStateCache.get/put`, the world invariant and its preservation.
-/
namespace VgiVerif.C14
open VgiVerif.Gen.C14 (Anchor Shape)

/-! ### identity key and AAD -/

theorem aad_eq_key_eq {x y : Ident} (h : aadTail x = aadTail y) : identKey x = identKey y := by
  cases x with
  | anon =>
    cases y with
    | anon => rfl
    | user d p =>
      exfalso
      simp [aadTail, Gen.C14.aadAnonTail, Gen.C14.aadUserTag] at h
  | user d p =>
    cases y with
    | anon =>
      exfalso
      simp [aadTail, Gen.C14.aadAnonTail, Gen.C14.aadUserTag] at h
    | user d' p' =>
      simp only [aadTail, Gen.C14.aadUserTag, Gen.C14.aadSep, List.append_assoc, List.cons_append,
        List.nil_append, List.cons.injEq, true_and] at h
      simp only [identKey, Gen.C14.keySep, List.append_assoc, List.cons_append, List.nil_append]
      exact h

/-! ### `_CallStateCache` -/

theorem hasKey_iff (e : Entry) (cid : Nat) (k : List Char) :
    e.hasKey cid k = true ↔ e.cid = cid ∧ e.ikey = k := by
  simp [Entry.hasKey]

/-- no two entries share a key (a Python dict) -/
def KeysDistinct (l : List Entry) : Prop := l.Pairwise (fun a b => ¬ (a.cid = b.cid ∧ a.ikey = b.ikey))

theorem filter_find_length {α} (p : α → Bool) (l : List α) (e : α) (h : l.find? p = some e) :
    (l.filter (fun x => !p x)).length + 1 ≤ l.length := by
  induction l with
  | nil => simp at h
  | cons a l ih =>
    by_cases hp : p a = true
    · have := List.length_filter_le (fun x => !p x) l
      simp [List.filter, hp]; omega
    · have hp' : p a = false := by simpa using hp
      rw [List.find?_cons_of_neg (by simpa using hp')] at h
      have := ih h
      simp [List.filter, hp']; omega

theorem keysDistinct_filter_snoc (l : List Entry) (cid : Nat) (k : List Char) (e : Entry)
    (hl : KeysDistinct l) (he : e.cid = cid ∧ e.ikey = k) :
    KeysDistinct (l.filter (fun x => !x.hasKey cid k) ++ [e]) := by
  unfold KeysDistinct at *
  rw [List.pairwise_append]
  refine ⟨hl.filter _, List.pairwise_singleton _ _, ?_⟩
  intro a ha b hb
  simp only [List.mem_singleton] at hb
  subst hb
  simp only [List.mem_filter, Bool.not_eq_eq_eq_not, Bool.not_true] at ha
  intro hab
  have : a.hasKey cid k = true := (hasKey_iff a cid k).2 ⟨hab.1.trans he.1, hab.2.trans he.2⟩
  rw [this] at ha
  exact Bool.noConfusion ha.2

structure GetSpec (c : Cache) (cid : Nat) (k : List Char) (now : Nat) (rf : Option Nat) : Prop where
  cap : (c.get cid k now rf).1.cap = c.cap
  /-- every entry afterwards is an entry from before, up to the expiry a hit may re-store -/
  sub : ∀ e ∈ (c.get cid k now rf).1.entries,
    ∃ e0 ∈ c.entries, e.cid = e0.cid ∧ e.ikey = e0.ikey ∧ e.rc = e0.rc ∧ (rf = none → e = e0)
  len : (c.get cid k now rf).1.entries.length ≤ c.entries.length
  distinct : KeysDistinct c.entries → KeysDistinct (c.get cid k now rf).1.entries
  hit : ∀ rc, (c.get cid k now rf).2 = some rc →
    ∃ e ∈ c.entries, e.cid = cid ∧ e.ikey = k ∧ e.rc = rc ∧ Gen.C14.entryDead e.expires now = false

theorem get_spec (c : Cache) (cid : Nat) (k : List Char) (now : Nat) (rf : Option Nat) : GetSpec c cid k now rf := by
  cases hf : c.entries.find? (·.hasKey cid k) with
  | none =>
    have hget : c.get cid k now rf = (c, none) := by simp only [Cache.get, hf]
    exact ⟨by rw [hget], by rw [hget]; exact fun e h => ⟨e, h, rfl, rfl, rfl, fun _ => rfl⟩,
      by rw [hget]; exact Nat.le_refl _, by rw [hget]; exact fun h => h, by rw [hget]; intro rc h; simp at h⟩
  | some e =>
    have hmem : e ∈ c.entries := List.mem_of_find?_eq_some hf
    have hkey : e.hasKey cid k = true := by simpa using List.find?_some hf
    have hk := (hasKey_iff e cid k).1 hkey
    have hlen := filter_find_length (·.hasKey cid k) c.entries e hf
    cases hd : Gen.C14.entryDead e.expires now with
    | true =>
      have hget : c.get cid k now rf
          = ({ c with entries := c.entries.filter (fun x => !x.hasKey cid k) }, none) := by
        simp only [Cache.get, hf, hd, if_true]
      refine ⟨by rw [hget], ?_, ?_, ?_, ?_⟩
      · rw [hget]; exact fun x hx => ⟨x, (List.mem_filter.1 hx).1, rfl, rfl, rfl, fun _ => rfl⟩
      · rw [hget]; exact List.length_filter_le _ _
      · rw [hget]; exact fun h => h.filter _
      · rw [hget]; intro rc h; simp at h
    | false =>
      have hget : c.get cid k now rf
          = ({ c with entries := c.entries.filter (fun x => !x.hasKey cid k)
                ++ [{ e with expires := rf.getD e.expires }] }, some e.rc) := by
        simp only [Cache.get, hf, hd, Bool.false_eq_true, if_false]
      refine ⟨by rw [hget], ?_, ?_, ?_, ?_⟩
      · rw [hget]
        intro x hx
        rcases List.mem_append.1 hx with hx | hx
        · exact ⟨x, (List.mem_filter.1 hx).1, rfl, rfl, rfl, fun _ => rfl⟩
        · simp only [List.mem_singleton] at hx
          refine ⟨e, hmem, by rw [hx], by rw [hx], by rw [hx], ?_⟩
          intro hrf; rw [hx, hrf]; rfl
      · rw [hget]; simp only [List.length_append, List.length_singleton]; exact hlen
      · rw [hget]; exact fun h => keysDistinct_filter_snoc _ _ _ _ h hk
      · rw [hget]
        intro rc hrc
        simp only [Option.some.injEq] at hrc
        exact ⟨e, hmem, hk.1, hk.2, hrc, hd⟩

structure PutSpec (c : Cache) (cid : Nat) (k : List Char) (rc : RC) (x : Nat) : Prop where
  cap : (c.put cid k rc x).cap = c.cap
  sub : ∀ e ∈ (c.put cid k rc x).entries, e ∈ c.entries ∨ e = ⟨cid, k, x, rc⟩
  len : (c.put cid k rc x).entries.length ≤ c.cap
  distinct : KeysDistinct c.entries → KeysDistinct (c.put cid k rc x).entries

theorem put_spec (c : Cache) (cid : Nat) (k : List Char) (rc : RC) (x : Nat) : PutSpec c cid k rc x := by
  refine ⟨rfl, ?_, ?_, ?_⟩
  · intro e he
    simp only [Cache.put] at he
    have he' := List.mem_of_mem_drop he
    rcases List.mem_append.1 he' with h | h
    · exact Or.inl (List.mem_filter.1 h).1
    · exact Or.inr (by simpa using h)
  · simp only [Cache.put, List.length_drop]; omega
  · intro h
    have := keysDistinct_filter_snoc c.entries cid k ⟨cid, k, x, rc⟩ h ⟨rfl, rfl⟩
    simp only [Cache.put]
    exact List.Pairwise.sublist (List.drop_sublist _ _) this

/-! ### any sequence of cache calls (= any interleaving of the threads of one worker, each call being atomic) -/

/-- capacity bound and key uniqueness survive any sequence of calls -/
theorem applyOps_bound (ops : List CacheOp) : ∀ (c : Cache), KeysDistinct c.entries → c.entries.length ≤ c.cap →
    (applyOps c ops).1.cap = c.cap ∧ KeysDistinct (applyOps c ops).1.entries ∧
      (applyOps c ops).1.entries.length ≤ c.cap := by
  induction ops with
  | nil => exact fun c h1 h2 => ⟨rfl, h1, h2⟩
  | cons op rest ih =>
    intro c h1 h2
    cases op with
    | get cid k now rf =>
      have g := get_spec c cid k now rf
      have := ih (c.get cid k now rf).1 (g.distinct h1) (by rw [g.cap]; exact Nat.le_trans g.len h2)
      simp only [applyOps]
      rw [g.cap] at this
      exact this
    | put cid k rc x =>
      have p := put_spec c cid k rc x
      have := ih (c.put cid k rc x) (p.distinct h1) (by rw [p.cap]; exact p.len)
      simp only [applyOps]
      rw [p.cap] at this
      exact this

/-- whatever a `get` returns, and whatever is in the cache afterwards, was in the cache at the start or was `put` by one
    of the calls, under the same key — for any property `P` of (call id, identity key, resolved call) -/
theorem applyOps_from (P : Nat → List Char → RC → Prop) (ops : List CacheOp) : ∀ (c : Cache),
    (∀ e ∈ c.entries, P e.cid e.ikey e.rc) →
    (∀ cid k rc x, CacheOp.put cid k rc x ∈ ops → P cid k rc) →
    (∀ e ∈ (applyOps c ops).1.entries, P e.cid e.ikey e.rc) ∧
    (∀ cid k now rf rc, (CacheOp.get cid k now rf, some rc) ∈ (applyOps c ops).2 → P cid k rc) := by
  induction ops with
  | nil => exact fun c h _ => ⟨h, fun _ _ _ _ _ hm => by simp [applyOps] at hm⟩
  | cons op rest ih =>
    intro c hc hput
    cases op with
    | get cid k now rf =>
      have g := get_spec c cid k now rf
      have hc' : ∀ e ∈ (c.get cid k now rf).1.entries, P e.cid e.ikey e.rc := by
        intro e he
        obtain ⟨e0, he0, h1, h2, h3, _⟩ := g.sub e he
        rw [h1, h2, h3]; exact hc e0 he0
      obtain ⟨i1, i2⟩ := ih (c.get cid k now rf).1 hc' (fun a b d x hm => hput a b d x (List.mem_cons_of_mem _ hm))
      refine ⟨by simpa only [applyOps] using i1, ?_⟩
      intro cid' k' now' rf' rc' hm
      simp only [applyOps, List.mem_cons, Prod.mk.injEq, CacheOp.get.injEq] at hm
      rcases hm with ⟨⟨h1, h2, _, _⟩, hr⟩ | hm
      · obtain ⟨e, he, hcid, hk, hrc, _⟩ := g.hit rc' hr.symm
        rw [h1, h2, ← hcid, ← hk, ← hrc]; exact hc e he
      · exact i2 cid' k' now' rf' rc' hm
    | put cid k rc x =>
      have p := put_spec c cid k rc x
      have hc' : ∀ e ∈ (c.put cid k rc x).entries, P e.cid e.ikey e.rc := by
        intro e he
        rcases p.sub e he with h1 | h1
        · exact hc e h1
        · rw [h1]; exact hput cid k rc x List.mem_cons_self
      obtain ⟨i1, i2⟩ := ih (c.put cid k rc x) hc' (fun a b d x hm => hput a b d x (List.mem_cons_of_mem _ hm))
      refine ⟨by simpa only [applyOps] using i1, ?_⟩
      intro cid' k' now' rf' rc' hm
      simp only [applyOps, List.mem_cons, Prod.mk.injEq, reduceCtorEq, false_and, false_or] at hm
      exact i2 cid' k' now' rf' rc' hm

/-! ### expiry arithmetic -/

theorem entryDead_false {e now : Nat} (h : Gen.C14.entryDead e now = false) : now < e := by
  simp [Gen.C14.entryDead] at h; omega

theorem tokenExpired_ttl0 (nowS created : Nat) : Gen.C14.tokenExpired 0 nowS created = false := by
  simp [Gen.C14.tokenExpired]

theorem cacheTtl_pos {ttl : Nat} (h : 0 < ttl) : Gen.C14.cacheTtl ttl = ttl := by
  simp [Gen.C14.cacheTtl, h]

/-- an entry born at (or before the end of) the second the token was created dies before the token does -/
theorem expiry_le (cfg : Cfg) (a : Anchor) (now : Nat) (htps : 0 < cfg.tps) (httl : 0 < cfg.ttl) :
    expiry cfg a now (now / cfg.tps) ≤ (now / cfg.tps + cfg.ttl + 1) * cfg.tps := by
  have h1 : now < cfg.tps * (now / cfg.tps + 1) := Nat.lt_mul_div_succ now htps
  have h2 : (now / cfg.tps + cfg.ttl + 1) * cfg.tps
      = cfg.tps * (now / cfg.tps + 1) + cfg.ttl * cfg.tps := by
    rw [Nat.mul_comm cfg.tps, Nat.add_mul, Nat.add_mul, Nat.add_mul]; omega
  have h3 : now / cfg.tps * cfg.tps ≤ now := Nat.div_mul_le_self now cfg.tps
  rw [h2]
  cases a <;> simp only [expiry, cacheTtl_pos httl, httl, if_true] <;> omega

theorem expiry_created_le (cfg : Cfg) (now created : Nat) (httl : 0 < cfg.ttl) :
    expiry cfg .created now created ≤ (created + cfg.ttl + 1) * cfg.tps := by
  simp only [expiry, cacheTtl_pos httl, httl, if_true, Nat.add_mul]; omega

/-- a live entry whose expiry is bounded by the token's last valid second implies the token is still valid -/
theorem live_entry_fresh (cfg : Cfg) (now exp created : Nat)
    (hlive : Gen.C14.entryDead exp now = false) (hb : exp ≤ (created + cfg.ttl + 1) * cfg.tps) :
    Gen.C14.tokenExpired cfg.ttl (now / cfg.tps) created = false := by
  have h1 := entryDead_false hlive
  have h2 : now / cfg.tps < created + cfg.ttl + 1 := by
    apply Nat.div_lt_of_lt_mul
    rw [Nat.mul_comm]; omega
  simp [Gen.C14.tokenExpired]; omega

/-! ### the invariant -/

/-- a cache entry holds the call minted under its call id, keyed by the identity key of that call's owner, and (when the
    miss path ages entries from the token and a hit leaves the expiry alone) dies no later than the call token -/
def EntryOk (cfg : Cfg) (calls : List Call) (e : Entry) : Prop :=
  ∃ cl, calls[e.cid]? = some cl ∧ e.rc = cl.rc ∧ e.ikey = identKey cl.owner ∧
    (cfg.shape.missAnchor = .created → cfg.shape.hitRefreshes = false → 0 < cfg.ttl →
      e.expires ≤ (cl.created + cfg.ttl + 1) * cfg.tps)

def CacheOk (cfg : Cfg) (calls : List Call) (c : Cache) : Prop :=
  (∀ e ∈ c.entries, EntryOk cfg calls e) ∧ KeysDistinct c.entries ∧ c.entries.length ≤ c.cap

/-- every issued cursor names a minted call and is sealed for an identity with the AAD of that call's owner -/
def CursorOk (calls : List Call) (c : Cursor) : Prop :=
  ∃ cl, calls[c.cid]? = some cl ∧ aadTail c.sealedFor = aadTail cl.owner

structure Inv (cfg : Cfg) (W : World) : Prop where
  cursors : ∀ c ∈ W.cursors, CursorOk W.calls c
  caches : ∀ ch ∈ W.caches, CacheOk cfg W.calls ch

theorem getElem?_append_some {α} {l l' : List α} {i : Nat} {a : α} (h : l[i]? = some a) :
    (l ++ l')[i]? = some a := by
  have hi : i < l.length := (List.getElem?_eq_some_iff.1 h).1
  rw [List.getElem?_append_left hi]; exact h

theorem entryOk_mono {cfg : Cfg} {calls : List Call} {e : Entry} (x : Call) (h : EntryOk cfg calls e) :
    EntryOk cfg (calls ++ [x]) e := by
  obtain ⟨cl, h1, h2⟩ := h
  exact ⟨cl, getElem?_append_some h1, h2⟩

theorem cacheOk_mono {cfg : Cfg} {calls : List Call} {c : Cache} (x : Call) (h : CacheOk cfg calls c) :
    CacheOk cfg (calls ++ [x]) c :=
  ⟨fun e he => entryOk_mono x (h.1 e he), h.2⟩

theorem cursorOk_mono {calls : List Call} {c : Cursor} (x : Call) (h : CursorOk calls c) :
    CursorOk (calls ++ [x]) c := by
  obtain ⟨cl, h1, h2⟩ := h
  exact ⟨cl, getElem?_append_some h1, h2⟩

theorem cacheOk_default (cfg : Cfg) (calls : List Call) : CacheOk cfg calls ⟨0, []⟩ :=
  ⟨fun e he => by simp at he, List.Pairwise.nil, Nat.le_refl _⟩

theorem cacheOk_cache {cfg : Cfg} {W : World} (h : ∀ ch ∈ W.caches, CacheOk cfg W.calls ch) (w : Nat) :
    CacheOk cfg W.calls (W.cache w) := by
  unfold World.cache
  cases hc : W.caches[w]? with
  | none => exact cacheOk_default cfg W.calls
  | some ch => exact h ch (List.mem_of_getElem? hc)

theorem hitRefresh_none {cfg : Cfg} (h : cfg.shape.hitRefreshes = false) (now : Nat) : hitRefresh cfg now = none := by
  simp [hitRefresh, h]

theorem cacheOk_get {cfg : Cfg} {calls : List Call} {c : Cache} (h : CacheOk cfg calls c)
    (cid : Nat) (k : List Char) (now : Nat) (rf : Option Nat) (hrf : cfg.shape.hitRefreshes = false → rf = none) :
    CacheOk cfg calls (c.get cid k now rf).1 := by
  have g := get_spec c cid k now rf
  refine ⟨?_, g.distinct h.2.1, ?_⟩
  · intro e he
    obtain ⟨e0, he0, h1, h2, h3, h4⟩ := g.sub e he
    obtain ⟨cl, hcl, hrc, hik, hb⟩ := h.1 e0 he0
    refine ⟨cl, by rw [h1]; exact hcl, by rw [h3]; exact hrc, by rw [h2]; exact hik, ?_⟩
    intro hm hr httl
    rw [h4 (hrf hr)]; exact hb hm hr httl
  · rw [g.cap]; exact Nat.le_trans g.len h.2.2

theorem cacheOk_put {cfg : Cfg} {calls : List Call} {c : Cache} (h : CacheOk cfg calls c)
    (cid : Nat) (k : List Char) (rc : RC) (x : Nat) (hnew : EntryOk cfg calls ⟨cid, k, x, rc⟩) :
    CacheOk cfg calls (c.put cid k rc x) := by
  have p := put_spec c cid k rc x
  refine ⟨?_, p.distinct h.2.1, ?_⟩
  · intro e he
    rcases p.sub e he with h1 | h1
    · exact h.1 e h1
    · rw [h1]; exact hnew
  · rw [p.cap]; exact p.len

theorem inv_setCache {cfg : Cfg} {W : World} (h : Inv cfg W) (w : Nat) (ch : Cache)
    (hc : CacheOk cfg W.calls ch) : Inv cfg (W.setCache w ch) := by
  refine ⟨h.cursors, ?_⟩
  intro c hcm
  rcases List.mem_or_eq_of_mem_set hcm with h1 | h1
  · exact h.caches c h1
  · rw [h1]; exact hc

/-! ### opening tokens -/

theorem openCursor_ok {cfg : Cfg} {W : World} {rq : Req} {c : Cursor} (h : openCursor cfg W rq = .ok c) :
    (∃ i, rq.cur = .issued i ∧ W.cursors[i]? = some c) ∧ aadTail c.sealedFor = aadTail rq.ident ∧
      Gen.C14.tokenExpired cfg.ttl (W.nowS cfg) c.created = false := by
  unfold openCursor at h
  split at h
  · exact absurd h (by simp)
  · rename_i i hcur
    split at h
    · exact absurd h (by simp)
    · rename_i c' hc'
      split at h
      · exact absurd h (by simp)
      · rename_i haad
        split at h
        · exact absurd h (by simp)
        · rename_i hexp
          have : c' = c := by simpa using h
          subst this
          exact ⟨⟨i, hcur, hc'⟩, by simpa using haad, by simpa using hexp⟩

theorem resolveCall_ok {cfg : Cfg} {W : World} {rq : Req} {cid : Nat} {rc : RC} {cr : Nat}
    (h : resolveCall cfg W rq cid = .ok (rc, cr)) :
    ∃ cl, W.calls[cid]? = some cl ∧ rc = cl.rc ∧ cr = cl.created ∧ aadTail cl.owner = aadTail rq.ident ∧
      Gen.C14.tokenExpired cfg.ttl (W.nowS cfg) cl.created = false ∧ typeOk cfg rq.method cl.rc = true ∧
      rq.call = .issued cid ∧ cl.rc.method = rq.method := by
  unfold resolveCall at h
  split at h
  · exact absurd h (by simp)
  · exact absurd h (by simp)
  · rename_i k hcall
    split at h
    · exact absurd h (by simp)
    · rename_i cl hcl
      split at h
      · exact absurd h (by simp)
      · rename_i haad
        split at h
        · exact absurd h (by simp)
        · rename_i hexp
          split at h
          · exact absurd h (by simp)
          · rename_i hk
            split at h
            · exact absurd h (by simp)
            · rename_i hty
              have hk' : k = cid := by simpa using hk
              subst hk'
              have haad' : aadTail cl.owner = aadTail rq.ident ∧ cl.rc.method = rq.method := by
                simpa [not_or] using haad
              simp only [Except.ok.injEq, Prod.mk.injEq] at h
              have hrc : rc = cl.rc := by
                rw [← h.1, ← haad'.2]
              exact ⟨cl, hcl, hrc, h.2.symm, haad'.1, by simpa using hexp,
                by simpa using hty, hcall, haad'.2⟩

/-! ### preservation -/

theorem finish_inv {cfg : Cfg} {W : World} {rq : Req} {c : Cursor} {rc : RC} (h : Inv cfg W)
    (hc : CursorOk W.calls c) (haad : aadTail c.sealedFor = aadTail rq.ident) :
    Inv cfg (finish cfg W rq c rc).1 := by
  unfold finish
  split
  · exact h
  · split
    · exact h
    · refine ⟨?_, h.caches⟩
      intro x hx
      rcases List.mem_append.1 hx with hx | hx
      · exact h.cursors x hx
      · simp only [List.mem_singleton] at hx
        obtain ⟨cl, h1, h2⟩ := hc
        rw [hx]
        exact ⟨cl, h1, haad.symm.trans h2⟩

theorem serveCont_inv {cfg : Cfg} {W : World} (h : Inv cfg W) (w : Nat) (rq : Req) :
    Inv cfg (serveCont cfg W w rq).1 := by
  unfold serveCont
  cases hopen : openCursor cfg W rq with
  | error r => exact h
  | ok c =>
    obtain ⟨⟨i, _, hci⟩, haad, _⟩ := openCursor_ok hopen
    have hcok : CursorOk W.calls c := h.cursors c (List.mem_of_getElem? hci)
    have hcache := cacheOk_cache h.caches w
    have hget := cacheOk_get hcache c.cid (identKey rq.ident) W.now (hitRefresh cfg W.now)
      (fun hr => hitRefresh_none hr W.now)
    rcases hg : (W.cache w).get c.cid (identKey rq.ident) W.now (hitRefresh cfg W.now) with ⟨cache1, _ | rc⟩
    · rw [hg] at hget
      simp only [hg]
      cases hres : resolveCall cfg W rq c.cid with
      | error r => exact inv_setCache h w cache1 hget
      | ok p =>
        obtain ⟨rc, cr⟩ := p
        obtain ⟨cl, hcl, hrc, hcr, haad2, _, _, _, _⟩ := resolveCall_ok hres
        simp only
        refine finish_inv (W := W.setCache w _) ?_ hcok haad
        apply inv_setCache h
        apply cacheOk_put hget
        refine ⟨cl, hcl, hrc, aad_eq_key_eq haad2.symm, ?_⟩
        intro hm _ httl
        rw [hm, hcr]
        exact expiry_created_le cfg W.now cl.created httl
    · rw [hg] at hget
      simp only [hg]
      split
      · exact inv_setCache h w cache1 hget
      · split
        · exact inv_setCache h w cache1 hget
        · exact finish_inv (W := W.setCache w cache1) (inv_setCache h w cache1 hget) hcok haad

theorem serveInit_inv {cfg : Cfg} {W : World} (htps : 0 < cfg.tps) (h : Inv cfg W) (w : Nat) (ident : Ident)
    (m : Nat) (content : Nat) (stype : Option Nat) : Inv cfg (serveInit cfg W w ident m content stype) := by
  unfold serveInit
  refine ⟨?_, ?_⟩
  · intro c hc
    simp only at hc
    rcases List.mem_append.1 hc with hc | hc
    · exact cursorOk_mono _ (h.cursors c hc)
    · simp only [List.mem_singleton] at hc
      rw [hc]
      exact ⟨⟨ident, W.nowS cfg, ⟨content, stype, m⟩⟩, by simp, rfl⟩
  · intro ch hch
    simp only [World.setCache] at hch
    rcases List.mem_or_eq_of_mem_set hch with h1 | h1
    · exact cacheOk_mono _ (h.caches ch h1)
    · rw [h1]
      apply cacheOk_put (cacheOk_mono _ (cacheOk_cache h.caches w))
      refine ⟨⟨ident, W.nowS cfg, ⟨content, stype, m⟩⟩, by simp, rfl, rfl, ?_⟩
      intro _ _ httl
      exact expiry_le cfg cfg.shape.initAnchor W.now htps httl

theorem step_inv {cfg : Cfg} {W : World} (htps : 0 < cfg.tps) (h : Inv cfg W) (s : Step) : Inv cfg (step cfg W s) := by
  cases s with
  | tick d => exact ⟨h.cursors, h.caches⟩
  | init w ident m content stype => exact serveInit_inv htps h w ident m content stype
  | cont w rq => exact serveCont_inv h w rq

theorem run_inv {cfg : Cfg} (htps : 0 < cfg.tps) (hist : List Step) :
    ∀ W, Inv cfg W → Inv cfg (run cfg W hist) := by
  induction hist with
  | nil => exact fun W h => h
  | cons s t ih => exact fun W h => ih _ (step_inv htps h s)

theorem start_inv (cfg : Cfg) (caps : List Nat) (t0 : Nat) : Inv cfg (World.start caps t0) := by
  refine ⟨fun c hc => by simp [World.start] at hc, ?_⟩
  intro ch hch
  simp only [World.start, List.mem_map] at hch
  obtain ⟨cap, _, rfl⟩ := hch
  exact ⟨fun e he => by simp at he, List.Pairwise.nil, Nat.zero_le _⟩

/-! ### what a worker with an empty cache answers -/

/-- the outcome of `finish` does not depend on the world -/
def finishOut (cfg : Cfg) (rq : Req) (c : Cursor) (rc : RC) : Outcome :=
  if !cfg.decodes rq.method c.writer then .rejected .stateDecode
  else .served rq.method rc c rq.cancel

theorem finish_out (cfg : Cfg) (W : World) (rq : Req) (c : Cursor) (rc : RC) :
    (finish cfg W rq c rc).2 = finishOut cfg rq c rc := by
  unfold finish finishOut
  split
  · rfl
  · split <;> simp_all

/-- cursor token, then call token: the cold path -/
def coldOutcome (cfg : Cfg) (W : World) (rq : Req) : Outcome :=
  match openCursor cfg W rq with
  | .error r => .rejected r
  | .ok c =>
    match resolveCall cfg W rq c.cid with
    | .error r => .rejected r
    | .ok (rc, _) => finishOut cfg rq c rc

theorem emptied_cache_entries (W : World) (w : Nat) : (W.emptied.cache w).entries = [] := by
  unfold World.cache World.emptied
  simp only [List.getElem?_map]
  cases W.caches[w]? <;> rfl

theorem get_of_empty (c : Cache) (h : c.entries = []) (cid : Nat) (k : List Char) (now : Nat) (rf : Option Nat) :
    c.get cid k now rf = (c, none) := by
  simp [Cache.get, h]

/-- a miss answers as the cold path does, whatever the cache holds -/
theorem miss_cold (cfg : Cfg) (W : World) (w : Nat) (rq : Req)
    (hmiss : ∀ c, openCursor cfg W rq = .ok c →
      ((W.cache w).get c.cid (identKey rq.ident) W.now (hitRefresh cfg W.now)).2 = none) :
    (serveCont cfg W w rq).2 = coldOutcome cfg W rq := by
  unfold serveCont coldOutcome
  cases hopen : openCursor cfg W rq with
  | error r => rfl
  | ok c =>
    have hm := hmiss c hopen
    rcases hg : (W.cache w).get c.cid (identKey rq.ident) W.now (hitRefresh cfg W.now) with ⟨cache1, _ | rc⟩
    · simp only [hg]
      cases hres : resolveCall cfg W rq c.cid with
      | error r => rfl
      | ok p => obtain ⟨rc, cr⟩ := p; exact finish_out _ _ _ _ _
    · rw [hg] at hm; simp at hm

theorem cold_emptied (cfg : Cfg) (W : World) (w : Nat) (rq : Req) :
    (serveCont cfg W.emptied w rq).2 = coldOutcome cfg W rq := by
  have h := miss_cold cfg W.emptied w rq (fun c _ => by
    rw [get_of_empty _ (emptied_cache_entries W w)])
  exact h

/-- the request echoes the call token handed out with the call its cursor names (WIRE_PROTOCOL: MUST echo, unchanged) -/
def Echo (W : World) (rq : Req) : Prop :=
  ∀ i c, rq.cur = .issued i → W.cursors[i]? = some c → rq.call = .issued c.cid

/-- on a hit: the call token the cursor's call would present is still valid, and the method check is not skipped -/
def HitSafe (cfg : Cfg) (W : World) (w : Nat) (rq : Req) : Prop :=
  ∀ c cl e, openCursor cfg W rq = .ok c → W.calls[c.cid]? = some cl → e ∈ (W.cache w).entries →
    e.cid = c.cid → e.ikey = identKey rq.ident → Gen.C14.entryDead e.expires W.now = false →
    EntryOk cfg W.calls e →
    Gen.C14.tokenExpired cfg.ttl (W.nowS cfg) cl.created = false ∧
      (cfg.shape.hitChecksType = true ∨ typeOk cfg rq.method cl.rc = true) ∧
      (cfg.shape.hitChecksMethod = true ∨ cl.rc.method = rq.method)

/-- what a hit hands back: the call minted under the cursor's call id, for a caller with the same AAD identity -/
theorem hit_sound {cfg : Cfg} {W : World} (hinv : Inv cfg W) (w : Nat) (rq : Req) (c : Cursor) (rc : RC)
    (cache1 : Cache) (hopen : openCursor cfg W rq = .ok c)
    (hg : (W.cache w).get c.cid (identKey rq.ident) W.now (hitRefresh cfg W.now) = (cache1, some rc)) :
    ∃ cl e, W.calls[c.cid]? = some cl ∧ rc = cl.rc ∧ aadTail cl.owner = aadTail rq.ident ∧
      e ∈ (W.cache w).entries ∧ e.cid = c.cid ∧ e.ikey = identKey rq.ident ∧
      Gen.C14.entryDead e.expires W.now = false ∧ EntryOk cfg W.calls e := by
  obtain ⟨⟨i, _, hci⟩, haad, _⟩ := openCursor_ok hopen
  obtain ⟨clc, hclc, haadc⟩ := hinv.cursors c (List.mem_of_getElem? hci)
  have g := (get_spec (W.cache w) c.cid (identKey rq.ident) W.now (hitRefresh cfg W.now)).hit rc (by rw [hg])
  obtain ⟨e, hmem, hcid, hkey, hrc, hlive⟩ := g
  have hok := (cacheOk_cache hinv.caches w).1 e hmem
  have hok2 := hok
  obtain ⟨cl, hcl, hrc2, _, _⟩ := hok2
  rw [hcid, hclc] at hcl
  have : clc = cl := by simpa using hcl
  subst this
  exact ⟨clc, e, hclc, hrc.symm.trans hrc2, haadc.symm.trans haad, hmem, hcid, hkey, hlive, hok⟩

theorem hit_cold {cfg : Cfg} {W : World} (hinv : Inv cfg W) (w : Nat) (rq : Req)
    (hecho : Echo W rq) (hsafe : HitSafe cfg W w rq) (c : Cursor) (rc : RC) (cache1 : Cache)
    (hopen : openCursor cfg W rq = .ok c)
    (hg : (W.cache w).get c.cid (identKey rq.ident) W.now (hitRefresh cfg W.now) = (cache1, some rc)) :
    (serveCont cfg W w rq).2 = coldOutcome cfg W rq := by
  obtain ⟨cl, e, hcl, hrc, haad, hmem, hcid, hkey, hlive, hok⟩ := hit_sound hinv w rq c rc cache1 hopen hg
  obtain ⟨⟨i, hcur, hci⟩, _, _⟩ := openCursor_ok hopen
  have hcall := hecho i c hcur hci
  obtain ⟨hfresh, hty, hmeth⟩ := hsafe c cl e hopen hcl hmem hcid hkey hlive hok
  have hres : resolveCall cfg W rq c.cid
      = if cl.rc.method ≠ rq.method then .error .tokenRejected
        else if !typeOk cfg rq.method cl.rc then .error .callType
        else .ok ({ cl.rc with method := rq.method }, cl.created) := by
    unfold resolveCall
    simp only [hcall, hcl, haad, ne_eq, not_true_eq_false, false_or, if_false, hfresh, Bool.false_eq_true]
  unfold serveCont coldOutcome
  simp only [hopen, hg, hres, hrc]
  by_cases hm : cl.rc.method = rq.method
  · have hrc' : ({ cl.rc with method := rq.method } : RC) = cl.rc := by rw [← hm]
    cases ht : typeOk cfg rq.method cl.rc with
    | true => simp [hm, hrc', finish_out]
    | false =>
      rcases hty with hty | hty
      · simp [hm, hty]
      · rw [ht] at hty; exact absurd hty (by simp)
  · rcases hmeth with hmeth | hmeth
    · simp [hm, hmeth]
    · exact absurd hmeth hm

theorem warm_cold {cfg : Cfg} {W : World} (hinv : Inv cfg W) (w : Nat) (rq : Req)
    (hecho : Echo W rq) (hsafe : HitSafe cfg W w rq) :
    (serveCont cfg W w rq).2 = coldOutcome cfg W rq := by
  cases hopen : openCursor cfg W rq with
  | error r => exact miss_cold cfg W w rq (fun c hc => by rw [hopen] at hc; exact absurd hc (by simp))
  | ok c =>
    rcases hg : (W.cache w).get c.cid (identKey rq.ident) W.now (hitRefresh cfg W.now) with ⟨cache1, _ | rc⟩
    · apply miss_cold
      intro c' hc'
      rw [hopen] at hc'
      have : c = c' := by simpa using hc'
      subst this
      rw [hg]
    · exact hit_cold hinv w rq hecho hsafe c rc cache1 hopen hg

/-- when entries age from the call token and the hit branch keeps the type check, every hit is safe -/
theorem hitSafe_of_repaired {cfg : Cfg} {W : World} (w : Nat) (rq : Req)
    (hm : cfg.shape.missAnchor = .created) (ht : cfg.shape.hitChecksType = true)
    (hmt : cfg.shape.hitChecksMethod = true) (hr : cfg.shape.hitRefreshes = false) : HitSafe cfg W w rq := by
  intro c cl e _ hcl _ hcid _ hlive hok
  refine ⟨?_, Or.inl ht, Or.inl hmt⟩
  obtain ⟨cl', hcl', _, _, hb⟩ := hok
  rw [hcid, hcl] at hcl'
  have : cl = cl' := by simpa using hcl'
  subst this
  by_cases httl : 0 < cfg.ttl
  · exact live_entry_fresh cfg W.now e.expires cl.created hlive (hb hm hr httl)
  · have : cfg.ttl = 0 := by omega
    rw [this]; exact tokenExpired_ttl0 _ _

/-! ### requests that do not echo the call token -/

/-- the same request with the call token the protocol says it must carry -/
def echoed (W : World) (rq : Req) : Req :=
  match rq.cur with
  | .junk => rq
  | .issued i =>
    match W.cursors[i]? with
    | none => rq
    | some c => { rq with call := .issued c.cid }

theorem echoed_fields (W : World) (rq : Req) :
    (echoed W rq).ident = rq.ident ∧ (echoed W rq).method = rq.method ∧ (echoed W rq).cur = rq.cur ∧
      (echoed W rq).cancel = rq.cancel := by
  unfold echoed
  split
  · exact ⟨rfl, rfl, rfl, rfl⟩
  · split <;> exact ⟨rfl, rfl, rfl, rfl⟩

theorem echoed_echo (W : World) (rq : Req) : Echo W (echoed W rq) := by
  intro i c hcur hc
  have hf := (echoed_fields W rq).2.2.1
  rw [hf] at hcur
  unfold echoed
  simp only [hcur, hc]

theorem openCursor_congr (cfg : Cfg) (W : World) (rq rq' : Req) (h1 : rq'.ident = rq.ident) (h2 : rq'.cur = rq.cur) :
    openCursor cfg W rq' = openCursor cfg W rq := by
  unfold openCursor; rw [h1, h2]

/-- on a hit nothing of the presented call token is consulted -/
theorem hit_ignores_call (cfg : Cfg) (W : World) (w : Nat) (rq rq' : Req)
    (h1 : rq'.ident = rq.ident) (h2 : rq'.method = rq.method) (h3 : rq'.cur = rq.cur) (h4 : rq'.cancel = rq.cancel)
    (c : Cursor) (rc : RC) (cache1 : Cache) (hopen : openCursor cfg W rq = .ok c)
    (hg : (W.cache w).get c.cid (identKey rq.ident) W.now (hitRefresh cfg W.now) = (cache1, some rc)) :
    (serveCont cfg W w rq').2 = (serveCont cfg W w rq).2 := by
  have hopen' : openCursor cfg W rq' = .ok c := by rw [openCursor_congr cfg W rq rq' h1 h3]; exact hopen
  have hg' : (W.cache w).get c.cid (identKey rq'.ident) W.now (hitRefresh cfg W.now) = (cache1, some rc) := by rw [h1]; exact hg
  unfold serveCont
  simp only [hopen, hopen', hg, hg', h2]
  split
  · rfl
  · split
    · rfl
    · rw [finish_out, finish_out]; unfold finishOut; rw [h2, h4]

/-! ### whatever is served was minted for the caller -/

theorem finishOut_served {cfg : Cfg} {rq : Req} {c c' : Cursor} {rc rc' : RC} {m : Nat} {k : Bool}
    (h : finishOut cfg rq c rc = .served m rc' c' k) : rc' = rc ∧ c' = c := by
  unfold finishOut at h
  split at h
  · exact absurd h (by simp)
  · simp only [Outcome.served.injEq] at h; exact ⟨h.2.1.symm, h.2.2.1.symm⟩

theorem served_sound {cfg : Cfg} {W : World} (hinv : Inv cfg W) (w : Nat) (rq : Req) (m : Nat) (rc : RC)
    (c : Cursor) (k : Bool) (h : (serveCont cfg W w rq).2 = .served m rc c k) :
    ∃ cl, W.calls[c.cid]? = some cl ∧ cl.rc = rc ∧ aadTail cl.owner = aadTail rq.ident := by
  unfold serveCont at h
  cases hopen : openCursor cfg W rq with
  | error r => rw [hopen] at h; exact absurd h (by simp)
  | ok c0 =>
    rcases hg : (W.cache w).get c0.cid (identKey rq.ident) W.now (hitRefresh cfg W.now) with ⟨cache1, _ | rc0⟩
    · simp only [hopen, hg] at h
      cases hres : resolveCall cfg W rq c0.cid with
      | error r => rw [hres] at h; exact absurd h (by simp)
      | ok p =>
        obtain ⟨rc1, cr⟩ := p
        rw [hres] at h
        simp only [finish_out] at h
        obtain ⟨h1, h2⟩ := finishOut_served h
        obtain ⟨cl, hcl, hrc, _, haad, _⟩ := resolveCall_ok hres
        subst h1 h2
        exact ⟨cl, hcl, hrc.symm, haad⟩
    · simp only [hopen, hg] at h
      split at h
      · exact absurd h (by simp)
      · split at h
        · exact absurd h (by simp)
        · simp only [finish_out] at h
          obtain ⟨h1, h2⟩ := finishOut_served h
          obtain ⟨cl, _, hcl, hrc, haad, _⟩ := hit_sound hinv w rq c0 rc0 cache1 hopen hg
          subst h1 h2
          exact ⟨cl, hcl, hrc.symm, haad⟩

/-- AAD equality is identity equality when domains carry no NUL (the separator) -/
theorem append_sep_inj {α} (a : α) : ∀ (d d' p p' : List α), a ∉ d → a ∉ d' → d ++ a :: p = d' ++ a :: p' →
    d = d' ∧ p = p' := by
  intro d
  induction d with
  | nil =>
    intro d' p p' _ hd' h
    cases d' with
    | nil => simpa using h
    | cons x t =>
      simp only [List.nil_append, List.cons_append, List.cons.injEq] at h
      exact absurd (h.1 ▸ List.mem_cons_self) hd'
  | cons x t ih =>
    intro d' p p' hd hd' h
    cases d' with
    | nil =>
      simp only [List.nil_append, List.cons_append, List.cons.injEq] at h
      exact absurd (h.1 ▸ List.mem_cons_self) hd
    | cons y t' =>
      simp only [List.cons_append, List.cons.injEq] at h
      have := ih t' p p' (fun hm => hd (List.mem_cons_of_mem _ hm)) (fun hm => hd' (List.mem_cons_of_mem _ hm)) h.2
      exact ⟨by rw [h.1, this.1], this.2⟩

def NulFreeDomain : Ident → Prop
  | .anon => True
  | .user d _ => Char.ofNat 0 ∉ d

theorem aad_injective {x y : Ident} (hx : NulFreeDomain x) (hy : NulFreeDomain y) (h : aadTail x = aadTail y) :
    x = y := by
  cases x with
  | anon =>
    cases y with
    | anon => rfl
    | user d p => exfalso; simp [aadTail, Gen.C14.aadAnonTail, Gen.C14.aadUserTag] at h
  | user d p =>
    cases y with
    | anon => exfalso; simp [aadTail, Gen.C14.aadAnonTail, Gen.C14.aadUserTag] at h
    | user d' p' =>
      simp only [aadTail, Gen.C14.aadUserTag, Gen.C14.aadSep, List.append_assoc, List.cons_append,
        List.nil_append, List.cons.injEq, true_and] at h
      obtain ⟨h1, h2⟩ := append_sep_inj (Char.ofNat 0) d d' p p' hx hy h
      rw [h1, h2]

/-! ### capacities never change -/

def World.caps (W : World) : List Nat := W.caches.map (·.cap)

theorem setCache_caps (W : World) (w : Nat) (c : Cache) (h : c.cap = (W.cache w).cap) :
    (W.setCache w c).caps = W.caps := by
  unfold World.caps World.setCache
  simp only [List.map_set]
  apply List.ext_getElem?
  intro i
  rw [List.getElem?_set]
  split
  · rename_i hwi
    subst hwi
    split
    · rename_i hlt
      simp only [List.length_map] at hlt
      have hc : W.caches[w]? = some W.caches[w] := List.getElem?_eq_getElem hlt
      simp only [World.cache, hc, Option.getD_some] at h
      rw [h, List.getElem?_map, hc]; rfl
    · rename_i hge
      simp only [List.length_map, Nat.not_lt] at hge
      rw [List.getElem?_map, List.getElem?_eq_none hge]; rfl
  · rfl

theorem finish_caps (cfg : Cfg) (W : World) (rq : Req) (c : Cursor) (rc : RC) :
    (finish cfg W rq c rc).1.caps = W.caps := by
  unfold finish
  split
  · rfl
  · split <;> rfl

theorem serveCont_caps (cfg : Cfg) (W : World) (w : Nat) (rq : Req) : (serveCont cfg W w rq).1.caps = W.caps := by
  unfold serveCont
  cases hopen : openCursor cfg W rq with
  | error r => rfl
  | ok c =>
    have hcap := (get_spec (W.cache w) c.cid (identKey rq.ident) W.now (hitRefresh cfg W.now)).cap
    rcases hg : (W.cache w).get c.cid (identKey rq.ident) W.now (hitRefresh cfg W.now) with ⟨cache1, _ | rc⟩
    · rw [hg] at hcap
      simp only [hg]
      cases hres : resolveCall cfg W rq c.cid with
      | error r => exact setCache_caps W w cache1 hcap
      | ok p =>
        obtain ⟨rc, cr⟩ := p
        simp only
        rw [finish_caps]
        exact setCache_caps W w _ (by rw [(put_spec cache1 _ _ _ _).cap]; exact hcap)
    · rw [hg] at hcap
      simp only [hg]
      split
      · exact setCache_caps W w cache1 hcap
      · split
        · exact setCache_caps W w cache1 hcap
        · rw [finish_caps]; exact setCache_caps W w cache1 hcap

theorem step_caps (cfg : Cfg) (W : World) (s : Step) : (step cfg W s).caps = W.caps := by
  cases s with
  | tick d => rfl
  | init w ident m content stype =>
    show (serveInit cfg W w ident m content stype).caps = W.caps
    unfold serveInit
    exact setCache_caps W w _ (put_spec (W.cache w) _ _ _ _).cap
  | cont w rq => exact serveCont_caps cfg W w rq

theorem run_caps (cfg : Cfg) (hist : List Step) : ∀ W, (run cfg W hist).caps = W.caps := by
  induction hist with
  | nil => exact fun W => rfl
  | cons s t ih => exact fun W => (ih _).trans (step_caps cfg W s)

theorem start_caps (caps : List Nat) (t0 : Nat) : (World.start caps t0).caps = caps := by
  simp [World.caps, World.start, Function.comp_def]

end VgiVerif.C14
