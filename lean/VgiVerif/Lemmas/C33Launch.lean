import VgiVerif.Model.C33
import VgiVerif.Lemmas.Sched
/-
C33 (a): the inductive invariant of the launcher transition system (`Model/C33.lean`, `Launch`): flock ownership per
lock-file inode, mutual exclusion of the critical sections proper (given the `st_nlink` re-check), "an accepting
worker is the one the path names", "nobody is accepting between a failed probe and the spawn", and the
accepting-at-return lease.  The world-level parts are conditional on `clobbered = false` (no worker's exit-time
unlink has removed a successor's socket).
-/
namespace VgiVerif.C33
open VgiVerif.Sched

/-! ## (a) the launcher -/

namespace Launch

section helpers
variable (idle : Nat) (s : St)

@[simp] theorem emit_now (e) : (emit idle s e).now = s.now := rfl
@[simp] theorem emit_pc (e) : (emit idle s e).pc = s.pc := rfl
@[simp] theorem emit_lockGen (e) : (emit idle s e).lockGen = s.lockGen := rfl
@[simp] theorem emit_held (e) : (emit idle s e).held = s.held := rfl
@[simp] theorem emit_sock (e) : (emit idle s e).sock = s.sock := rfl
@[simp] theorem emit_ws (e) : (emit idle s e).ws = s.ws := rfl
@[simp] theorem emit_clobbered (e) : (emit idle s e).clobbered = s.clobbered := rfl
@[simp] theorem emit_hist (e) : (emit idle s e).hist = s.hist ++ [e] := rfl
@[simp] theorem emit_mon (e) : (emit idle s e).mon = s.mon.step idle e := rfl

@[simp] theorem touch_now : (touch s).now = s.now := by unfold touch; (repeat' split) <;> rfl
@[simp] theorem touch_pc : (touch s).pc = s.pc := by unfold touch; (repeat' split) <;> rfl
@[simp] theorem touch_lockGen : (touch s).lockGen = s.lockGen := by unfold touch; (repeat' split) <;> rfl
@[simp] theorem touch_held : (touch s).held = s.held := by unfold touch; (repeat' split) <;> rfl
@[simp] theorem touch_sock : (touch s).sock = s.sock := by unfold touch; (repeat' split) <;> rfl
@[simp] theorem touch_clobbered : (touch s).clobbered = s.clobbered := by unfold touch; (repeat' split) <;> rfl
@[simp] theorem touch_hist : (touch s).hist = s.hist := by unfold touch; (repeat' split) <;> rfl
@[simp] theorem touch_mon : (touch s).mon = s.mon := by unfold touch; (repeat' split) <;> rfl

/-- `touch` only moves the `quiet` time of the accepting worker the path names -/
theorem touch_ws (w : Wid) :
    (touch s).ws w = s.ws w ∨ (s.sock = some w ∧ (∃ q, s.ws w = .accepting q) ∧ (touch s).ws w = .accepting s.now) := by
  unfold touch
  split
  next w' hw' =>
    split
    next q hq =>
      by_cases he : w = w'
      · subst he; right; exact ⟨hw', ⟨q, hq⟩, by simp [upd]⟩
      · left; simp [upd, he]
    next => left; rfl
  next => left; rfl

theorem touch_isAccepting (w : Wid) : isAccepting ((touch s).ws w) = isAccepting (s.ws w) := by
  rcases touch_ws s w with h | ⟨_, ⟨q, hq⟩, h⟩
  · rw [h]
  · rw [h, hq]; rfl

@[simp] theorem rmSock_now : (rmSock idle s).now = s.now := by unfold rmSock; split <;> rfl
@[simp] theorem rmSock_pc : (rmSock idle s).pc = s.pc := by unfold rmSock; split <;> rfl
@[simp] theorem rmSock_lockGen : (rmSock idle s).lockGen = s.lockGen := by unfold rmSock; split <;> rfl
@[simp] theorem rmSock_held : (rmSock idle s).held = s.held := by unfold rmSock; split <;> rfl
@[simp] theorem rmSock_sock : (rmSock idle s).sock = none := by unfold rmSock; split <;> simp_all
@[simp] theorem rmSock_ws : (rmSock idle s).ws = s.ws := by unfold rmSock; split <;> rfl
@[simp] theorem rmSock_clobbered : (rmSock idle s).clobbered = s.clobbered := by unfold rmSock; split <;> rfl
@[simp] theorem rmSock_alive : (rmSock idle s).mon.alive = s.mon.alive := by
  unfold rmSock; split <;> simp [Spec.LMon.step]
@[simp] theorem rmSock_badSpawn : (rmSock idle s).mon.badSpawn = s.mon.badSpawn := by
  unfold rmSock; split <;> simp [Spec.LMon.step]
@[simp] theorem rmSock_badRet : (rmSock idle s).mon.badRet = s.mon.badRet := by
  unfold rmSock; split <;> simp [Spec.LMon.step]
theorem rmSock_path (h : s.mon.path = s.sock) : (rmSock idle s).mon.path = none := by
  unfold rmSock; split <;> simp_all [Spec.LMon.step]

theorem lrun_snoc (h : List Spec.LEv) (e : Spec.LEv) :
    Spec.LMon.run idle (h ++ [e]) = (Spec.LMon.run idle h).step idle e := by
  simp [Spec.LMon.run, List.foldl_append]

theorem rmSock_monHist (h : s.mon = Spec.LMon.run idle s.hist) :
    (rmSock idle s).mon = Spec.LMon.run idle (rmSock idle s).hist := by
  unfold rmSock; split
  · simp only [emit_mon, emit_hist, lrun_snoc]; rw [← h]
  · exact h

end helpers

/-! ### the invariant -/

/-- the lock-file inode on which the process holds a `flock` -/
def holdsGen : Pc → Option Nat
  | .flocked _ g | .probing _ g | .stale g | .metaW g | .spawning g | .decided g _ | .failing g
  | .gUnlinkSock g | .gUnlinkMeta g | .gUnlinkLock g | .gReleasing g => some g
  | _ => none

/-- inside the critical section proper: the lock inode was verified and the process has not unlinked it -/
def effective : Pc → Option Nat
  | .probing _ g | .stale g | .metaW g | .spawning g | .decided g _ | .failing g
  | .gUnlinkSock g | .gUnlinkMeta g | .gUnlinkLock g => some g
  | _ => none

/-- between a failed probe and the spawn / the removal of the socket path -/
def pastFailedProbe : Pc → Bool
  | .stale _ | .metaW _ | .spawning _ | .gUnlinkSock _ => true
  | _ => false

/-- the launch has decided to return the path (at `t0`) and has not returned yet -/
def decidedAt : Pc → Option Nat
  | .decided _ t0 => some t0
  | .released (some t0) => some t0
  | _ => none

theorem effective_holds {p : Pc} {g : Nat} (h : effective p = some g) : holdsGen p = some g := by
  cases p <;> simp_all [effective, holdsGen]

theorem pastFailedProbe_effective {p : Pc} (h : pastFailedProbe p = true) : ∃ g, effective p = some g := by
  cases p <;> simp_all [pastFailedProbe, effective]

structure Inv (idle : Nat) (s : St) : Prop where
  heldI : ∀ t g, holdsGen (s.pc t) = some g → s.held g = some t
  effI : ∀ t g, effective (s.pc t) = some g → g = s.lockGen
  accSock : s.clobbered = false → ∀ w, isAccepting (s.ws w) = true → s.sock = some w
  noAcc : s.clobbered = false → ∀ t, pastFailedProbe (s.pc t) = true → ∀ w, isAccepting (s.ws w) = false
  aliveI : ∀ w, w ∈ s.mon.alive ↔ isAccepting (s.ws w) = true
  pathI : s.mon.path = s.sock
  decI : s.clobbered = false → ∀ t t0, decidedAt (s.pc t) = some t0 →
    t0 ≤ s.now ∧ (s.now < t0 + idle → ∃ w q, s.sock = some w ∧ s.ws w = .accepting q ∧ t0 ≤ q)
  quietI : ∀ w q, s.ws w = .accepting q → q ≤ s.now
  badSpawn : s.clobbered = false → s.mon.badSpawn = false
  badRet : s.clobbered = false → s.mon.badRet = false
  monHist : s.mon = Spec.LMon.run idle s.hist

/-- **mutual exclusion** of the critical sections proper -/
theorem Inv.mutex {idle : Nat} {s : St} (h : Inv idle s) {t t' : Tid} {g g' : Nat}
    (ht : effective (s.pc t) = some g) (ht' : effective (s.pc t') = some g') : t = t' := by
  have e1 := h.effI t g ht
  have e2 := h.effI t' g' ht'
  have h1 := h.heldI t g (effective_holds ht)
  have h2 := h.heldI t' g' (effective_holds ht')
  rw [e1] at h1; rw [e2] at h2; rw [h1] at h2
  exact Option.some.inj h2

theorem inv_init (idle : Nat) : Inv idle ({} : St) := by
  constructor <;> simp [holdsGen, effective, pastFailedProbe, decidedAt, isAccepting, Spec.LMon.run]

/-! ### preservation -/

section steps
variable {idle : Nat} {s : St}

theorem inv_tick (h : Inv idle s) (d : Nat) : Inv idle { s with now := s.now + d } := by
  obtain ⟨heldI, effI, accSock, noAcc, aliveI, pathI, decI, quietI, badSpawn, badRet, monHist⟩ := h
  refine ⟨heldI, effI, accSock, noAcc, aliveI, pathI, ?_, ?_, badSpawn, badRet, monHist⟩
  · intro hc t t0 ht
    obtain ⟨h1, h2⟩ := decI hc t t0 ht
    refine ⟨by show t0 ≤ s.now + d; omega, fun hlt => h2 ?_⟩
    have : s.now + d < t0 + idle := hlt
    omega
  · intro w q hw
    have := quietI w q hw
    show q ≤ s.now + d; omega

/-- steps that only move one process between program counters (and possibly touch the meta file): the new pc holds
the same flock, is effective / past a failed probe / decided only if the old one was -/
theorem inv_pc (h : Inv idle s) (t : Tid) (p' : Pc) (m : Bool)
    (hh : ∀ g, holdsGen p' = some g → holdsGen (s.pc t) = some g)
    (he : ∀ g, effective p' = some g → effective (s.pc t) = some g)
    (hp : pastFailedProbe p' = true → pastFailedProbe (s.pc t) = true)
    (hd : ∀ t0, decidedAt p' = some t0 → decidedAt (s.pc t) = some t0) :
    Inv idle { s with pc := upd s.pc t p', hasMeta := m } := by
  obtain ⟨heldI, effI, accSock, noAcc, aliveI, pathI, decI, quietI, badSpawn, badRet, monHist⟩ := h
  refine ⟨?_, ?_, accSock, ?_, aliveI, pathI, ?_, quietI, badSpawn, badRet, monHist⟩
  · intro t' g hg
    by_cases ht : t' = t
    · subst ht; simp only [upd, if_true] at hg; exact heldI _ g (hh g hg)
    · simp only [upd, ht, if_false] at hg; exact heldI t' g hg
  · intro t' g hg
    by_cases ht : t' = t
    · subst ht; simp only [upd, if_true] at hg; exact effI _ g (he g hg)
    · simp only [upd, ht, if_false] at hg; exact effI t' g hg
  · intro hc t' hg
    by_cases ht : t' = t
    · subst ht; simp only [upd, if_true] at hg; exact noAcc hc _ (hp hg)
    · simp only [upd, ht, if_false] at hg; exact noAcc hc t' hg
  · intro hc t' t0 hg
    by_cases ht : t' = t
    · subst ht; simp only [upd, if_true] at hg; exact decI hc _ t0 (hd t0 hg)
    · simp only [upd, ht, if_false] at hg; exact decI hc t' t0 hg

theorem inv_flock (h : Inv idle s) (t : Tid) (r : Role) (g : Nat) (hpc : s.pc t = .opened r g) (hfree : s.held g = none) :
    Inv idle { s with held := upd s.held g (some t), pc := upd s.pc t (.flocked r g) } := by
  obtain ⟨heldI, effI, accSock, noAcc, aliveI, pathI, decI, quietI, badSpawn, badRet, monHist⟩ := h
  refine ⟨?_, ?_, accSock, ?_, aliveI, pathI, ?_, quietI, badSpawn, badRet, monHist⟩
  · intro t' g' hg
    by_cases ht : t' = t
    · subst ht; simp only [upd, if_true, holdsGen, Option.some.injEq] at hg; subst hg; simp [upd]
    · simp only [upd, ht, if_false] at hg
      have h1 := heldI t' g' hg
      have : g' ≠ g := by intro e; subst e; rw [hfree] at h1; cases h1
      simp only [upd, this, if_false]; exact h1
  · intro t' g' hg
    by_cases ht : t' = t
    · subst ht; simp [upd, effective] at hg
    · simp only [upd, ht, if_false] at hg; exact effI t' g' hg
  · intro hc t' hg
    by_cases ht : t' = t
    · subst ht; simp [upd, pastFailedProbe] at hg
    · simp only [upd, ht, if_false] at hg; exact noAcc hc t' hg
  · intro hc t' t0 hg
    by_cases ht : t' = t
    · subst ht; simp [upd, decidedAt] at hg
    · simp only [upd, ht, if_false] at hg; exact decI hc t' t0 hg

/-- giving the flock up (failed inode check, `release()`): the new pc holds nothing -/
theorem inv_unlock (h : Inv idle s) (t : Tid) (g : Nat) (p' : Pc) (hg : holdsGen (s.pc t) = some g)
    (hh : holdsGen p' = none) (he : effective p' = none) (hp : pastFailedProbe p' = false)
    (hd : ∀ t0, decidedAt p' = some t0 → decidedAt (s.pc t) = some t0) :
    Inv idle { s with held := upd s.held g none, pc := upd s.pc t p' } := by
  obtain ⟨heldI, effI, accSock, noAcc, aliveI, pathI, decI, quietI, badSpawn, badRet, monHist⟩ := h
  have hmine := heldI t g hg
  refine ⟨?_, ?_, accSock, ?_, aliveI, pathI, ?_, quietI, badSpawn, badRet, monHist⟩
  · intro t' g' hg'
    by_cases ht : t' = t
    · subst ht; simp only [upd, if_true] at hg'; rw [hh] at hg'; cases hg'
    · simp only [upd, ht, if_false] at hg'
      have h1 := heldI t' g' hg'
      have : g' ≠ g := by intro e; subst e; rw [hmine] at h1; exact ht (Option.some.inj h1).symm
      simp only [upd, this, if_false]; exact h1
  · intro t' g' hg'
    by_cases ht : t' = t
    · subst ht; simp only [upd, if_true] at hg'; rw [he] at hg'; cases hg'
    · simp only [upd, ht, if_false] at hg'; exact effI t' g' hg'
  · intro hc t' hg'
    by_cases ht : t' = t
    · subst ht; simp only [upd, if_true] at hg'; rw [hp] at hg'; cases hg'
    · simp only [upd, ht, if_false] at hg'; exact noAcc hc t' hg'
  · intro hc t' t0 hg'
    by_cases ht : t' = t
    · subst ht; simp only [upd, if_true] at hg'; exact decI hc _ t0 (hd t0 hg')
    · simp only [upd, ht, if_false] at hg'; exact decI hc t' t0 hg'

/-- the inode check succeeded: the process enters the critical section proper -/
theorem inv_verify (h : Inv idle s) (t : Tid) (r : Role) (g : Nat) (hpc : s.pc t = .flocked r g) (hg : g = s.lockGen) :
    Inv idle { s with pc := upd s.pc t (.probing r g) } := by
  obtain ⟨heldI, effI, accSock, noAcc, aliveI, pathI, decI, quietI, badSpawn, badRet, monHist⟩ := h
  refine ⟨?_, ?_, accSock, ?_, aliveI, pathI, ?_, quietI, badSpawn, badRet, monHist⟩
  · intro t' g' hg'
    by_cases ht : t' = t
    · subst ht; simp only [upd, if_true, holdsGen, Option.some.injEq] at hg'; subst hg'
      exact heldI _ _ (by rw [hpc]; rfl)
    · simp only [upd, ht, if_false] at hg'; exact heldI t' g' hg'
  · intro t' g' hg'
    by_cases ht : t' = t
    · subst ht; simp only [upd, if_true, effective, Option.some.injEq] at hg'; subst hg'; exact hg
    · simp only [upd, ht, if_false] at hg'; exact effI t' g' hg'
  · intro hc t' hg'
    by_cases ht : t' = t
    · subst ht; simp [upd, pastFailedProbe] at hg'
    · simp only [upd, ht, if_false] at hg'; exact noAcc hc t' hg'
  · intro hc t' t0 hg'
    by_cases ht : t' = t
    · subst ht; simp [upd, decidedAt] at hg'
    · simp only [upd, ht, if_false] at hg'; exact decI hc t' t0 hg'

theorem pathAccepting_iff : pathAccepting s = true ↔ ∃ w q, s.sock = some w ∧ s.ws w = .accepting q := by
  unfold pathAccepting
  cases hs : s.sock with
  | none => simp
  | some w =>
    cases hw : s.ws w <;> simp [isAccepting, hw]

/-- a successful probe (a connection to the worker the path names); `p'` is `decided g now` for a launcher and
`gReleasing g` for the GC -/
theorem inv_probeOk (h : Inv idle s) (t : Tid) (r : Role) (g : Nat) (hpc : s.pc t = .probing r g)
    (hacc : pathAccepting s = true) (p' : Pc) (hh : holdsGen p' = some g)
    (he : ∀ g', effective p' = some g' → g' = g) (hp : pastFailedProbe p' = false)
    (hd : ∀ t0, decidedAt p' = some t0 → t0 = s.now) :
    Inv idle { touch s with pc := upd s.pc t p' } := by
  obtain ⟨heldI, effI, accSock, noAcc, aliveI, pathI, decI, quietI, badSpawn, badRet, monHist⟩ := h
  obtain ⟨w0, q0, hs0, hw0⟩ := pathAccepting_iff.1 hacc
  have htw0 : (touch s).ws w0 = .accepting s.now := by
    rcases touch_ws s w0 with h1 | ⟨_, _, h1⟩
    · unfold touch at h1 ⊢; simp [hs0, hw0, upd]
    · exact h1
  constructor
  · intro t' g' hg'
    simp only [touch_held]
    by_cases ht : t' = t
    · subst ht; simp only [upd, if_true] at hg'; rw [hh] at hg'; cases hg'
      exact heldI _ _ (by rw [hpc]; rfl)
    · simp only [upd, ht, if_false] at hg'; exact heldI t' g' hg'
  · intro t' g' hg'
    simp only [touch_lockGen]
    by_cases ht : t' = t
    · subst ht; simp only [upd, if_true] at hg'
      rw [he g' hg']; exact effI _ g (by rw [hpc]; rfl)
    · simp only [upd, ht, if_false] at hg'; exact effI t' g' hg'
  · intro hc w hw
    simp only [touch_clobbered] at hc
    simp only [touch_sock]
    rw [touch_isAccepting] at hw
    exact accSock hc w hw
  · intro hc t' hg' w
    simp only [touch_clobbered] at hc
    rw [touch_isAccepting]
    by_cases ht : t' = t
    · subst ht; simp only [upd, if_true] at hg'; rw [hp] at hg'; cases hg'
    · simp only [upd, ht, if_false] at hg'; exact noAcc hc t' hg' w
  · intro w; simp only [touch_mon]; rw [touch_isAccepting]; exact aliveI w
  · simpa using pathI
  · intro hc t' t0 hg'
    simp only [touch_clobbered] at hc
    simp only [touch_now, touch_sock]
    by_cases ht : t' = t
    · subst ht; simp only [upd, if_true] at hg'
      have := hd t0 hg'; subst this
      exact ⟨Nat.le_refl _, fun _ => ⟨w0, s.now, hs0, htw0, Nat.le_refl _⟩⟩
    · simp only [upd, ht, if_false] at hg'
      obtain ⟨h1, h2⟩ := decI hc t' t0 hg'
      refine ⟨h1, fun hlt => ?_⟩
      obtain ⟨w, q, hs1, hw1, hq1⟩ := h2 hlt
      have : w = w0 := by rw [hs0] at hs1; exact (Option.some.inj hs1).symm
      subst this
      exact ⟨w, s.now, hs1, htw0, h1⟩
  · intro w q hw
    simp only [touch_now]
    rcases touch_ws s w with h1 | ⟨_, _, h1⟩
    · rw [h1] at hw; exact quietI w q hw
    · rw [h1] at hw; cases hw; exact Nat.le_refl _
  · simpa using badSpawn
  · simpa using badRet
  · simpa using monHist

/-- a failed probe: nobody is accepting (an accepting worker would be the one the path names) -/
theorem inv_probeFail (h : Inv idle s) (t : Tid) (r : Role) (g : Nat) (hpc : s.pc t = .probing r g)
    (hacc : pathAccepting s = false) (p' : Pc) (hh : holdsGen p' = some g) (he : effective p' = some g)
    (hd : decidedAt p' = none) :
    Inv idle { s with pc := upd s.pc t p' } := by
  obtain ⟨heldI, effI, accSock, noAcc, aliveI, pathI, decI, quietI, badSpawn, badRet, monHist⟩ := h
  refine ⟨?_, ?_, accSock, ?_, aliveI, pathI, ?_, quietI, badSpawn, badRet, monHist⟩
  · intro t' g' hg'
    by_cases ht : t' = t
    · subst ht; simp only [upd, if_true] at hg'; rw [hh] at hg'; cases hg'
      exact heldI _ _ (by rw [hpc]; rfl)
    · simp only [upd, ht, if_false] at hg'; exact heldI t' g' hg'
  · intro t' g' hg'
    by_cases ht : t' = t
    · subst ht; simp only [upd, if_true] at hg'; rw [he] at hg'; cases hg'
      exact effI _ g (by rw [hpc]; rfl)
    · simp only [upd, ht, if_false] at hg'; exact effI t' g' hg'
  · intro hc t' hg' w
    by_cases ht : t' = t
    · cases hw : isAccepting (s.ws w) with
      | false => rfl
      | true =>
        have hs := accSock hc w hw
        have : pathAccepting s = true := by unfold pathAccepting; rw [hs]; exact hw
        rw [hacc] at this; cases this
    · simp only [upd, ht, if_false] at hg'; exact noAcc hc t' hg' w
  · intro hc t' t0 hg'
    by_cases ht : t' = t
    · subst ht; simp only [upd, if_true] at hg'; rw [hd] at hg'; cases hg'
    · simp only [upd, ht, if_false] at hg'; exact decI hc t' t0 hg'

/-- removing the socket path after a failed probe (`_unlink_stale_socket`, the GC's `unlink(sock)`) -/
theorem inv_rmSock (h : Inv idle s) (t : Tid) (p' : Pc) (hpast : pastFailedProbe (s.pc t) = true)
    (hh : ∀ g, holdsGen p' = some g → holdsGen (s.pc t) = some g)
    (he : ∀ g, effective p' = some g → effective (s.pc t) = some g)
    (hd : decidedAt p' = none) :
    Inv idle { rmSock idle s with pc := upd s.pc t p' } := by
  obtain ⟨heldI, effI, accSock, noAcc, aliveI, pathI, decI, quietI, badSpawn, badRet, monHist⟩ := h
  constructor
  · intro t' g' hg'
    simp only [rmSock_held]
    by_cases ht : t' = t
    · subst ht; simp only [upd, if_true] at hg'; exact heldI _ g' (hh g' hg')
    · simp only [upd, ht, if_false] at hg'; exact heldI t' g' hg'
  · intro t' g' hg'
    simp only [rmSock_lockGen]
    by_cases ht : t' = t
    · subst ht; simp only [upd, if_true] at hg'; exact effI _ g' (he g' hg')
    · simp only [upd, ht, if_false] at hg'; exact effI t' g' hg'
  · intro hc w hw
    simp only [rmSock_clobbered] at hc
    simp only [rmSock_ws] at hw
    have := noAcc hc t hpast w
    rw [this] at hw; cases hw
  · intro hc t' _ w
    simp only [rmSock_clobbered] at hc
    simp only [rmSock_ws]
    exact noAcc hc t hpast w
  · intro w; simp only [rmSock_alive, rmSock_ws]; exact aliveI w
  · simp only [rmSock_sock]; exact rmSock_path idle s pathI
  · intro hc t' t0 hg'
    simp only [rmSock_clobbered] at hc
    simp only [rmSock_now, rmSock_sock, rmSock_ws]
    have hold : decidedAt (s.pc t') = some t0 := by
      by_cases ht : t' = t
      · subst ht; simp only [upd, if_true] at hg'; rw [hd] at hg'; cases hg'
      · simpa only [upd, ht, if_false] using hg'
    obtain ⟨h1, h2⟩ := decI hc t' t0 hold
    refine ⟨h1, fun hlt => ?_⟩
    obtain ⟨w, q, _, hw1, _⟩ := h2 hlt
    have := noAcc hc t hpast w
    rw [hw1] at this; cases this
  · intro w q hw; simp only [rmSock_ws] at hw; simp only [rmSock_now]; exact quietI w q hw
  · intro hc; simp only [rmSock_clobbered] at hc; simp only [rmSock_badSpawn]; exact badSpawn hc
  · intro hc; simp only [rmSock_clobbered] at hc; simp only [rmSock_badRet]; exact badRet hc
  · exact rmSock_monHist idle s monHist

theorem inv_spawn (h : Inv idle s) (t : Tid) (g : Nat) (hpc : s.pc t = .spawning g) :
    Inv idle (emit idle { s with ws := upd s.ws s.nextW (.accepting s.now), sock := some s.nextW, nextW := s.nextW + 1,
                                 pc := upd s.pc t (.decided g s.now) } (.spawn s.nextW)) := by
  have hmut := @Inv.mutex idle s h
  obtain ⟨heldI, effI, accSock, noAcc, aliveI, pathI, decI, quietI, badSpawn, badRet, monHist⟩ := h
  have hpast : pastFailedProbe (s.pc t) = true := by rw [hpc]; rfl
  have heff : effective (s.pc t) = some g := by rw [hpc]; rfl
  constructor
  · intro t' g' hg'
    simp only [emit_pc, emit_held] at hg' ⊢
    by_cases ht : t' = t
    · subst ht; simp only [upd, if_true, holdsGen, Option.some.injEq] at hg'; subst hg'
      exact heldI _ _ (by rw [hpc]; rfl)
    · simp only [upd, ht, if_false] at hg'; exact heldI t' g' hg'
  · intro t' g' hg'
    simp only [emit_pc, emit_lockGen] at hg' ⊢
    by_cases ht : t' = t
    · subst ht; simp only [upd, if_true, effective, Option.some.injEq] at hg'; subst hg'
      exact effI _ _ heff
    · simp only [upd, ht, if_false] at hg'; exact effI t' g' hg'
  · intro hc w hw
    simp only [emit_clobbered] at hc
    simp only [emit_ws, emit_sock] at hw ⊢
    by_cases hwn : w = s.nextW
    · rw [hwn]
    · simp only [upd, hwn, if_false] at hw
      have := noAcc hc t hpast w; rw [this] at hw; cases hw
  · intro hc t' hg' w
    simp only [emit_pc] at hg'
    by_cases ht : t' = t
    · subst ht; simp [upd, pastFailedProbe] at hg'
    · simp only [upd, ht, if_false] at hg'
      obtain ⟨g', hg''⟩ := pastFailedProbe_effective hg'
      exact absurd (hmut hg'' heff) ht
  · intro w
    simp only [emit_mon, emit_ws, Spec.LMon.step, List.mem_cons]
    by_cases hwn : w = s.nextW
    · subst hwn; simp [upd, isAccepting]
    · simp only [upd, hwn, if_false, false_or]; exact aliveI w
  · simp [Spec.LMon.step]
  · intro hc t' t0 hg'
    simp only [emit_clobbered] at hc
    simp only [emit_pc, emit_now, emit_sock, emit_ws] at hg' ⊢
    by_cases ht : t' = t
    · subst ht; simp only [upd, if_true, decidedAt, Option.some.injEq] at hg'; subst hg'
      exact ⟨Nat.le_refl _, fun _ => ⟨s.nextW, s.now, rfl, by simp [upd], Nat.le_refl _⟩⟩
    · simp only [upd, ht, if_false] at hg'
      obtain ⟨h1, _⟩ := decI hc t' t0 hg'
      exact ⟨h1, fun _ => ⟨s.nextW, s.now, rfl, by simp [upd], h1⟩⟩
  · intro w q hw
    simp only [emit_ws, emit_now] at hw ⊢
    by_cases hwn : w = s.nextW
    · subst hwn; simp only [upd, if_true, WSt.accepting.injEq] at hw; omega
    · simp only [upd, hwn, if_false] at hw; exact quietI w q hw
  · intro hc
    simp only [emit_clobbered] at hc
    simp only [emit_mon, Spec.LMon.step, Bool.or_eq_false_iff]
    refine ⟨badSpawn hc, ?_⟩
    have : s.mon.alive = [] := by
      apply List.eq_nil_iff_forall_not_mem.2
      intro w hw
      have h1 := (aliveI w).1 hw
      have h2 := noAcc hc t hpast w
      rw [h2] at h1; cases h1
    simp [this]
  · intro hc; simp only [emit_clobbered] at hc; simpa [Spec.LMon.step] using badRet hc
  · simp only [emit_mon, emit_hist, lrun_snoc]; rw [← monHist]

theorem inv_ret (h : Inv idle s) (t : Tid) (t0 : Nat) (hpc : s.pc t = .released (some t0)) :
    Inv idle (emit idle { s with pc := upd s.pc t .returned } (.ret t0 s.now)) := by
  have h1 := inv_pc h t .returned s.hasMeta (by intro g hg; cases hg) (by intro g hg; cases hg)
    (by intro hg; cases hg) (by intro t1 hg; cases hg)
  obtain ⟨_, _, _, _, aliveI0, pathI0, decI0, _, _, _, _⟩ := h
  obtain ⟨heldI, effI, accSock, noAcc, aliveI, pathI, decI, quietI, badSpawn, badRet, monHist⟩ := h1
  refine ⟨heldI, effI, accSock, noAcc, ?_, ?_, decI, quietI, ?_, ?_, ?_⟩
  · intro w; simpa [Spec.LMon.step] using aliveI w
  · simpa [Spec.LMon.step] using pathI
  · intro hc; simpa [Spec.LMon.step] using badSpawn hc
  · intro hc
    simp only [emit_clobbered] at hc
    simp only [emit_mon, Spec.LMon.step, Bool.or_eq_false_iff, Bool.and_eq_false_iff]
    refine ⟨badRet hc, ?_⟩
    by_cases hlt : s.now < t0 + idle
    · right
      obtain ⟨_, h2⟩ := decI0 hc t t0 (by rw [hpc]; rfl)
      obtain ⟨w, q, hs, hw, _⟩ := h2 hlt
      have hal : w ∈ s.mon.alive := (aliveI0 w).2 (by rw [hw]; rfl)
      simp [Spec.LMon.pathAccepting, pathI0, hs, hal]
    · left; simpa using hlt
  · simp only [emit_mon, emit_hist, lrun_snoc]; rw [← monHist]

/-- the GC unlinks the lock path (while holding the lock): the path now names a fresh inode; the GC itself has
nothing left to do but release -/
theorem inv_gcUnlinkLock (h : Inv idle s) (t : Tid) (g : Nat) (hpc : s.pc t = .gUnlinkLock g) :
    Inv idle { s with lockGen := s.lockGen + 1, pc := upd s.pc t (.gReleasing g) } := by
  have hmut := @Inv.mutex idle s h
  obtain ⟨heldI, effI, accSock, noAcc, aliveI, pathI, decI, quietI, badSpawn, badRet, monHist⟩ := h
  have heff : effective (s.pc t) = some g := by rw [hpc]; rfl
  refine ⟨?_, ?_, accSock, ?_, aliveI, pathI, ?_, quietI, badSpawn, badRet, monHist⟩
  · intro t' g' hg'
    by_cases ht : t' = t
    · subst ht; simp only [upd, if_true, holdsGen, Option.some.injEq] at hg'; subst hg'
      exact heldI _ _ (by rw [hpc]; rfl)
    · simp only [upd, ht, if_false] at hg'; exact heldI t' g' hg'
  · intro t' g' hg'
    by_cases ht : t' = t
    · subst ht; simp [upd, effective] at hg'
    · simp only [upd, ht, if_false] at hg'; exact absurd (hmut hg' heff) ht
  · intro hc t' hg'
    by_cases ht : t' = t
    · subst ht; simp [upd, pastFailedProbe] at hg'
    · simp only [upd, ht, if_false] at hg'; exact noAcc hc t' hg'
  · intro hc t' t0 hg'
    by_cases ht : t' = t
    · subst ht; simp [upd, decidedAt] at hg'
    · simp only [upd, ht, if_false] at hg'; exact decI hc t' t0 hg'

/-- a worker stops accepting: only `idle` after its last connection -/
theorem inv_wExit (h : Inv idle s) (w : Wid) (q : Nat) (hw : s.ws w = .accepting q) (hq : q + idle ≤ s.now) :
    Inv idle (emit idle { s with ws := upd s.ws w .closed } (.exit w)) := by
  obtain ⟨heldI, effI, accSock, noAcc, aliveI, pathI, decI, quietI, badSpawn, badRet, monHist⟩ := h
  constructor
  · exact heldI
  · exact effI
  · intro hc w' hw'
    simp only [emit_ws, emit_sock] at hw' ⊢
    by_cases he : w' = w
    · subst he; simp [upd, isAccepting] at hw'
    · simp only [upd, he, if_false] at hw'; exact accSock hc w' hw'
  · intro hc t hg w'
    simp only [emit_ws]
    by_cases he : w' = w
    · subst he; simp [upd, isAccepting]
    · simp only [upd, he, if_false]; exact noAcc hc t hg w'
  · intro w'
    simp only [emit_mon, emit_ws, Spec.LMon.step, List.mem_filter, bne_iff_ne, ne_eq]
    by_cases he : w' = w
    · subst he; simp [upd, isAccepting]
    · simp only [upd, he, if_false, not_false_eq_true, and_true]; exact aliveI w'
  · simpa [Spec.LMon.step] using pathI
  · intro hc t t0 hg
    simp only [emit_clobbered] at hc
    simp only [emit_pc, emit_now, emit_sock, emit_ws] at hg ⊢
    obtain ⟨h1, h2⟩ := decI hc t t0 hg
    refine ⟨h1, fun hlt => ?_⟩
    obtain ⟨w', q', hs1, hw1, hq1⟩ := h2 hlt
    have he : w' ≠ w := by
      intro e; subst e; rw [hw] at hw1; cases hw1; omega
    exact ⟨w', q', hs1, by simp only [upd, he, if_false]; exact hw1, hq1⟩
  · intro w' q' hw'
    simp only [emit_ws, emit_now] at hw' ⊢
    by_cases he : w' = w
    · subst he; simp [upd] at hw'
    · simp only [upd, he, if_false] at hw'; exact quietI w' q' hw'
  · intro hc; simpa [Spec.LMon.step] using badSpawn hc
  · intro hc; simpa [Spec.LMon.step] using badRet hc
  · simp only [emit_mon, emit_hist, lrun_snoc]; rw [← monHist]

/-- steps of a worker that is not accepting (before and after) and that do not touch the socket path -/
theorem inv_wQuiet (h : Inv idle s) (w : Wid) (st' : WSt) (hw : isAccepting (s.ws w) = false) (hst : isAccepting st' = false) :
    Inv idle { s with ws := upd s.ws w st' } := by
  obtain ⟨heldI, effI, accSock, noAcc, aliveI, pathI, decI, quietI, badSpawn, badRet, monHist⟩ := h
  have hsame : ∀ w', isAccepting (upd s.ws w st' w') = isAccepting (s.ws w') := by
    intro w'
    by_cases he : w' = w
    · subst he; simp [upd, hw, hst]
    · simp [upd, he]
  refine ⟨heldI, effI, ?_, ?_, ?_, pathI, ?_, ?_, badSpawn, badRet, monHist⟩
  · intro hc w' hw'; rw [hsame] at hw'; exact accSock hc w' hw'
  · intro hc t hg w'; rw [hsame]; exact noAcc hc t hg w'
  · intro w'; rw [hsame]; exact aliveI w'
  · intro hc t t0 hg
    obtain ⟨h1, h2⟩ := decI hc t t0 hg
    refine ⟨h1, fun hlt => ?_⟩
    obtain ⟨w', q', hs1, hw1, hq1⟩ := h2 hlt
    have he : w' ≠ w := by intro e; subst e; rw [hw1] at hw; cases hw
    exact ⟨w', q', hs1, by simp only [upd, he, if_false]; exact hw1, hq1⟩
  · intro w' q' hw'
    by_cases he : w' = w
    · subst he; simp only [upd, if_true] at hw'; rw [hw'] at hst; cases hst
    · simp only [upd, he, if_false] at hw'; exact quietI w' q' hw'

/-- the exit-time `os.unlink(path)` of a worker whose identity check had succeeded: it removes whatever the path
names NOW; if that is another worker's socket the ghost flag `clobbered` is raised -/
theorem inv_wUnlink (h : Inv idle s) (w : Wid) (hw : s.ws w = .checked true) :
    Inv idle { rmSock idle s with ws := upd s.ws w .gone, clobbered := s.clobbered || clobbers s w } := by
  obtain ⟨heldI, effI, accSock, noAcc, aliveI, pathI, decI, quietI, badSpawn, badRet, monHist⟩ := h
  have hnacc : isAccepting (s.ws w) = false := by rw [hw]; rfl
  have hsame : ∀ w', isAccepting (upd s.ws w .gone w') = isAccepting (s.ws w') := by
    intro w'
    by_cases he : w' = w
    · subst he; simp only [upd, if_true]; rw [hnacc]; rfl
    · simp [upd, he]
  -- when the flag stays down, the path named this very worker (or nothing), hence nobody is accepting
  have key : (s.clobbered || clobbers s w) = false → s.clobbered = false ∧ (s.sock = some w ∨ s.sock = none) := by
    intro hc
    simp only [Bool.or_eq_false_iff] at hc
    refine ⟨hc.1, ?_⟩
    cases hs : s.sock with
    | none => right; rfl
    | some w' =>
      left
      have := hc.2; unfold clobbers at this; rw [hs] at this
      simp only [bne_eq_false_iff_eq] at this
      rw [this]
  have noacc : s.clobbered = false → (s.sock = some w ∨ s.sock = none) → ∀ w', isAccepting (s.ws w') = false := by
    intro hc hs w'
    cases ha : isAccepting (s.ws w') with
    | false => rfl
    | true =>
      have h1 := accSock hc w' ha
      rcases hs with hs | hs
      · rw [hs] at h1; cases h1; rw [hnacc] at ha; cases ha
      · rw [hs] at h1; cases h1
  constructor
  · intro t g hg
    show (rmSock idle s).held g = some t
    have hg' : holdsGen ((rmSock idle s).pc t) = some g := hg
    simp only [rmSock_held, rmSock_pc] at hg' ⊢; exact heldI t g hg'
  · intro t g hg
    show g = (rmSock idle s).lockGen
    have hg' : effective ((rmSock idle s).pc t) = some g := hg
    simp only [rmSock_lockGen, rmSock_pc] at hg' ⊢; exact effI t g hg'
  · intro hc w' hw'
    obtain ⟨hc0, hs⟩ := key hc
    have hw'' : isAccepting (upd s.ws w .gone w') = true := hw'
    rw [hsame] at hw''
    rw [noacc hc0 hs w'] at hw''; cases hw''
  · intro hc t _ w'
    obtain ⟨hc0, hs⟩ := key hc
    show isAccepting (upd s.ws w .gone w') = false
    rw [hsame]; exact noacc hc0 hs w'
  · intro w'
    show w' ∈ (rmSock idle s).mon.alive ↔ isAccepting (upd s.ws w .gone w') = true
    simp only [rmSock_alive]; rw [hsame]; exact aliveI w'
  · show (rmSock idle s).mon.path = (rmSock idle s).sock
    simp only [rmSock_sock]; exact rmSock_path idle s pathI
  · intro hc t t0 hg
    obtain ⟨hc0, hs⟩ := key hc
    have hg' : decidedAt ((rmSock idle s).pc t) = some t0 := hg
    simp only [rmSock_pc] at hg'
    show t0 ≤ (rmSock idle s).now ∧ ((rmSock idle s).now < t0 + idle →
      ∃ w' q, (rmSock idle s).sock = some w' ∧ upd s.ws w .gone w' = .accepting q ∧ t0 ≤ q)
    simp only [rmSock_now, rmSock_sock]
    obtain ⟨h1, h2⟩ := decI hc0 t t0 hg'
    refine ⟨h1, fun hlt => ?_⟩
    obtain ⟨w', q', _, hw1, _⟩ := h2 hlt
    have := noacc hc0 hs w'
    rw [hw1] at this; cases this
  · intro w' q' hw'
    have hw'' : upd s.ws w .gone w' = .accepting q' := hw'
    show q' ≤ (rmSock idle s).now
    simp only [rmSock_now]
    by_cases he : w' = w
    · subst he; simp [upd] at hw''
    · simp only [upd, he, if_false] at hw''; exact quietI w' q' hw''
  · intro hc
    show (rmSock idle s).mon.badSpawn = false
    simp only [rmSock_badSpawn]; exact badSpawn (key hc).1
  · intro hc
    show (rmSock idle s).mon.badRet = false
    simp only [rmSock_badRet]; exact badRet (key hc).1
  · exact rmSock_monHist idle s monHist

end steps

/-! ### the invariant holds in every reachable state -/

theorem inv_step {sh : LShape} (hn : sh.nlinkCheck = true) (idle : Nat)
    (s : St) (l : Label) (s' : St) (h : Inv idle s) (hst : step sh idle s l = some s') : Inv idle s' := by
  cases l with
  | tick d => simp only [step, Option.some.injEq] at hst; subst hst; exact inv_tick h d
  | begin t r =>
    simp only [step] at hst
    split at hst
    next hpc =>
      cases hst
      exact inv_pc h t _ s.hasMeta (by intro g hg; cases hg) (by intro g hg; cases hg) (by intro hg; cases hg)
        (by intro t0 hg; cases hg)
    next => cases hst
  | lockOpen t =>
    simp only [step] at hst
    split at hst
    next r hpc =>
      cases hst
      exact inv_pc h t _ s.hasMeta (by intro g hg; cases hg) (by intro g hg; cases hg) (by intro hg; cases hg)
        (by intro t0 hg; cases hg)
    next => cases hst
  | lockFlock t ok =>
    simp only [step] at hst
    split at hst
    next r g hpc =>
      split at hst
      · split at hst
        next hfree => cases hst; exact inv_flock h t r g hpc hfree
        next => cases hst
      · split at hst
        · cases hst
        · cases hst
          cases r <;>
          exact inv_pc h t _ s.hasMeta (by intro g hg; cases hg) (by intro g hg; cases hg) (by intro hg; cases hg)
            (by intro t0 hg; cases hg)
    next => cases hst
  | lockVerify t ok =>
    simp only [step] at hst
    split at hst
    next r g hpc =>
      split at hst
      next hok =>
        split at hst
        next hk =>
          cases hst
          rw [hk, hn] at hok
          simp only [Bool.not_true, Bool.false_or, true_eq_decide_iff] at hok
          exact inv_verify h t r g hpc hok
        next =>
          cases hst
          cases r <;>
          exact inv_unlock h t g _ (by rw [hpc]; rfl) rfl rfl rfl (by intro t0 hg; cases hg)
      next => cases hst
    next => cases hst
  | lockTimeout t =>
    simp only [step] at hst
    split at hst
    next hpc =>
      cases hst
      exact inv_pc h t _ s.hasMeta (by intro g hg; cases hg) (by intro g hg; cases hg) (by intro hg; cases hg)
        (by intro t0 hg; cases hg)
    next => cases hst
  | probe t ok =>
    simp only [step] at hst
    split at hst
    next r g hpc =>
      split at hst
      next hok =>
        split at hst
        next hk =>
          cases hst
          rw [hk] at hok
          cases r
          · exact inv_probeOk h t _ g hpc hok.symm _ rfl (by intro g' hg; cases hg; rfl) rfl
              (by intro t0 hg; cases hg; rfl)
          · exact inv_probeOk h t _ g hpc hok.symm _ rfl (by intro g' hg; cases hg) rfl
              (by intro t0 hg; cases hg)
        next hk =>
          cases hst
          have hk' : ok = false := by simpa using hk
          rw [hk'] at hok
          cases r
          · exact inv_probeFail h t _ g hpc hok.symm _ rfl rfl rfl
          · exact inv_probeFail h t _ g hpc hok.symm _ rfl rfl rfl
      next => cases hst
    next => cases hst
  | unlinkStale t ok =>
    simp only [step] at hst
    split at hst
    next g hpc =>
      split at hst
      · cases hst
        exact inv_rmSock h t (.metaW g) (by rw [hpc]; rfl) (by intro g' hg; rw [hpc]; exact hg)
          (by intro g' hg; rw [hpc]; exact hg) rfl
      · split at hst
        · cases hst
          exact inv_pc h t _ s.hasMeta (by intro g' hg; rw [hpc]; exact hg) (by intro g' hg; rw [hpc]; exact hg)
            (by intro hg; cases hg) (by intro t0 hg; cases hg)
        · cases hst
    next => cases hst
  | writeMeta t =>
    simp only [step] at hst
    split at hst
    next g hpc =>
      cases hst
      exact inv_pc h t _ true (by intro g' hg; rw [hpc]; exact hg) (by intro g' hg; rw [hpc]; exact hg)
        (by intro _; rw [hpc]; rfl) (by intro t0 hg; cases hg)
    next => cases hst
  | spawn t w =>
    simp only [step] at hst
    split at hst
    next g hpc =>
      split at hst
      next hw => cases hst; subst hw; exact inv_spawn h t g hpc
      next => cases hst
    next => cases hst
  | spawnFail t =>
    simp only [step] at hst
    split at hst
    next g hpc =>
      cases hst
      exact inv_pc h t _ s.hasMeta (by intro g' hg; rw [hpc]; exact hg) (by intro g' hg; rw [hpc]; exact hg)
        (by intro hg; cases hg) (by intro t0 hg; cases hg)
    next => cases hst
  | release t =>
    simp only [step] at hst
    split at hst
    next g t0 hpc =>
      cases hst
      exact inv_unlock h t g _ (by rw [hpc]; rfl) rfl rfl rfl (by intro t1 hg; rw [hpc]; exact hg)
    next g hpc =>
      cases hst
      exact inv_unlock h t g _ (by rw [hpc]; rfl) rfl rfl rfl (by intro t1 hg; cases hg)
    next g hpc =>
      cases hst
      exact inv_unlock h t g _ (by rw [hpc]; rfl) rfl rfl rfl (by intro t1 hg; cases hg)
    next => cases hst
  | ret t =>
    simp only [step] at hst
    split at hst
    next t0 hpc => cases hst; exact inv_ret h t t0 hpc
    next => cases hst
  | raised t =>
    simp only [step] at hst
    split at hst
    next hpc =>
      cases hst
      exact inv_pc h t _ s.hasMeta (by intro g hg; cases hg) (by intro g hg; cases hg) (by intro hg; cases hg)
        (by intro t0 hg; cases hg)
    next => cases hst
  | gcUnlinkSock t =>
    simp only [step] at hst
    split at hst
    next g hpc =>
      cases hst
      exact inv_rmSock h t (.gUnlinkMeta g) (by rw [hpc]; rfl) (by intro g' hg; rw [hpc]; exact hg)
        (by intro g' hg; rw [hpc]; exact hg) rfl
    next => cases hst
  | gcUnlinkMeta t =>
    simp only [step] at hst
    split at hst
    next g hpc =>
      cases hst
      exact inv_pc h t _ false (by intro g' hg; rw [hpc]; exact hg) (by intro g' hg; rw [hpc]; exact hg)
        (by intro hg; cases hg) (by intro t0 hg; cases hg)
    next => cases hst
  | gcUnlinkLock t =>
    simp only [step] at hst
    split at hst
    next g hpc => cases hst; exact inv_gcUnlinkLock h t g hpc
    next => cases hst
  | wExit w =>
    simp only [step] at hst
    split at hst
    next q hw =>
      split at hst
      next hq => cases hst; exact inv_wExit h w q hw hq
      next => cases hst
    next => cases hst
  | wStat w =>
    simp only [step] at hst
    split at hst
    next hw => cases hst; exact inv_wQuiet h w _ (by rw [hw]; rfl) rfl
    next => cases hst
  | wUnlink w =>
    simp only [step] at hst
    split at hst
    next own hw =>
      split at hst
      next ho => cases hst; subst ho; exact inv_wUnlink h w hw
      next => cases hst; exact inv_wQuiet h w _ (by rw [hw]; rfl) rfl
    next => cases hst
  | vars sk m g =>
    simp only [step] at hst
    split at hst
    · cases hst; exact h
    · cases hst

theorem inv_reachable {sh : LShape} (hn : sh.nlinkCheck = true) (idle : Nat) :
    ∀ s, (ts sh idle).Reachable s → Inv idle s :=
  TS.invariant_of_step (ts sh idle) (Inv idle) (inv_init idle) (fun s l s' hi hst => inv_step hn idle s l s' hi hst)

end Launch
end VgiVerif.C33
