import VgiVerif.Model.C33
import VgiVerif.Lemmas.Sched
/-
C33 (a): the inductive invariant of the launcher transition system (`Model/C33.lean`, `Launch`): flock ownership per
lock-file inode, mutual exclusion of the critical sections proper (given the `st_nlink` re-check), "an accepting
worker is the one the path names", "nobody is accepting between a failed probe and the spawn", and the
accepting-at-return lease.  The world-level parts are conditional on `clobbered = false` (no worker's exit-time
unlink has removed a successor's socket).
-/
namespace VgiVerif.C33
open VgiVerif.Sched

/-! ## (a) the launcher -/

namespace Launch

section helpers
variable (idle : Nat) (s : St)

@[simp] theorem emit_now (e) : (emit idle s e).now = s.now := rfl
@[simp] theorem emit_pc (e) : (emit idle s e).pc = s.pc := rfl
@[simp] theorem emit_lockGen (e) : (emit idle s e).lockGen = s.lockGen := rfl
@[simp] theorem emit_held (e) : (emit idle s e).held = s.held := rfl
@[simp] theorem emit_sock (e) : (emit idle s e).sock = s.sock := rfl
@[simp] theorem emit_ws (e) : (emit idle s e).ws = s.ws := rfl
@[simp] theorem emit_clobbered (e) : (emit idle s e).clobbered = s.clobbered := rfl
@[simp] theorem emit_hist (e) : (emit idle s e).hist = s.hist ++ [e] := rfl
@[simp] theorem emit_mon (e) : (emit idle s e).mon = s.mon.step idle e := rfl

@[simp] theorem touch_now : (touch s).now = s.now := by unfold touch; (repeat' split) <;> rfl
@[simp] theorem touch_pc : (touch s).pc = s.pc := by unfold touch; (repeat' split) <;> rfl
@[simp] theorem touch_lockGen : (touch s).lockGen = s.lockGen := by unfold touch; (repeat' split) <;> rfl
@[simp] theorem touch_held : (touch s).held = s.held := by unfold touch; (repeat' split) <;> rfl
@[simp] theorem touch_sock : (touch s).sock = s.sock := by unfold touch; (repeat' split) <;> rfl
@[simp] theorem touch_clobbered : (touch s).clobbered = s.clobbered := by unfold touch; (repeat' split) <;> rfl
@[simp] theorem touch_nextW : (touch s).nextW = s.nextW := by unfold touch; (repeat' split) <;> rfl
@[simp] theorem touch_hist : (touch s).hist = s.hist := by unfold touch; (repeat' split) <;> rfl
@[simp] theorem touch_mon : (touch s).mon = s.mon := by unfold touch; (repeat' split) <;> rfl

/-- `touch` only moves the `quiet` time of the accepting worker the path names -/
theorem touch_ws (w : Wid) :
    (touch s).ws w = s.ws w ∨ (s.sock = some w ∧ (∃ q, s.ws w = .accepting q) ∧ (touch s).ws w = .accepting s.now) := by
  unfold touch
  split
  next w' hw' =>
    split
    next q hq =>
      by_cases he : w = w'
      · subst he; right; exact ⟨hw', ⟨q, hq⟩, by simp [upd]⟩
      · left; simp [upd, he]
    next => left; rfl
  next => left; rfl

theorem touch_isAccepting (w : Wid) : isAccepting ((touch s).ws w) = isAccepting (s.ws w) := by
  rcases touch_ws s w with h | ⟨_, ⟨q, hq⟩, h⟩
  · rw [h]
  · rw [h, hq]; rfl

@[simp] theorem rmSock_now : (rmSock idle s).now = s.now := by unfold rmSock; split <;> rfl
@[simp] theorem rmSock_pc : (rmSock idle s).pc = s.pc := by unfold rmSock; split <;> rfl
@[simp] theorem rmSock_lockGen : (rmSock idle s).lockGen = s.lockGen := by unfold rmSock; split <;> rfl
@[simp] theorem rmSock_held : (rmSock idle s).held = s.held := by unfold rmSock; split <;> rfl
@[simp] theorem rmSock_sock : (rmSock idle s).sock = none := by unfold rmSock; split <;> simp_all
@[simp] theorem rmSock_ws : (rmSock idle s).ws = s.ws := by unfold rmSock; split <;> rfl
@[simp] theorem rmSock_nextW : (rmSock idle s).nextW = s.nextW := by unfold rmSock; split <;> rfl
@[simp] theorem rmSock_hasMeta : (rmSock idle s).hasMeta = s.hasMeta := by unfold rmSock; split <;> rfl
@[simp] theorem rmSock_clobbered : (rmSock idle s).clobbered = s.clobbered := by unfold rmSock; split <;> rfl
@[simp] theorem rmSock_alive : (rmSock idle s).mon.alive = s.mon.alive := by
  unfold rmSock; split <;> simp [Spec.LMon.step]
@[simp] theorem rmSock_acc : (rmSock idle s).mon.acc = s.mon.acc := by
  unfold rmSock; split <;> simp [Spec.LMon.step]
@[simp] theorem rmSock_badSpawn : (rmSock idle s).mon.badSpawn = s.mon.badSpawn := by
  unfold rmSock; split <;> simp [Spec.LMon.step]
@[simp] theorem rmSock_badRet : (rmSock idle s).mon.badRet = s.mon.badRet := by
  unfold rmSock; split <;> simp [Spec.LMon.step]
theorem rmSock_path (h : s.mon.path = s.sock) : (rmSock idle s).mon.path = none := by
  unfold rmSock; split <;> simp_all [Spec.LMon.step]

theorem lrun_snoc (h : List Spec.LEv) (e : Spec.LEv) :
    Spec.LMon.run idle (h ++ [e]) = (Spec.LMon.run idle h).step idle e := by
  simp [Spec.LMon.run, List.foldl_append]

theorem rmSock_monHist (h : s.mon = Spec.LMon.run idle s.hist) :
    (rmSock idle s).mon = Spec.LMon.run idle (rmSock idle s).hist := by
  unfold rmSock; split
  · simp only [emit_mon, emit_hist, lrun_snoc]; rw [← h]
  · exact h

end helpers

/-! ### the invariant -/

/-- the lock-file inode on which the process holds a `flock` -/
def holdsGen : Pc → Option Nat
  | .flocked _ g | .probing _ g | .stale g | .metaW g | .spawning g | .waiting g _ | .decided g _ | .failing g
  | .gUnlinkSock g | .gUnlinkMeta g | .gUnlinkLock g | .gReleasing g => some g
  | _ => none

/-- inside the critical section proper: the lock inode was verified and the process has not unlinked it -/
def effective : Pc → Option Nat
  | .probing _ g | .stale g | .metaW g | .spawning g | .waiting g _ | .decided g _ | .failing g
  | .gUnlinkSock g | .gUnlinkMeta g | .gUnlinkLock g => some g
  | _ => none

/-- between a failed probe and the end of the spawn / the removal of the socket path -/
def pastFailedProbe : Pc → Bool
  | .stale _ | .metaW _ | .spawning _ | .waiting _ _ | .gUnlinkSock _ => true
  | _ => false

/-- the worker whose announcement the launcher is waiting for -/
def waitsFor : Pc → Option Wid
  | .waiting _ w => some w
  | _ => none

/-- the launch has decided to return the path (at `t0`) and has not returned yet -/
def decidedAt : Pc → Option Nat
  | .decided _ t0 => some t0
  | .released (some t0) => some t0
  | _ => none

/-- worker start-up, before the announcement -/
def inStartup : WSt → Bool
  | .starting | .prechecked | .cleared | .bound | .listening => true
  | _ => false

theorem effective_holds {p : Pc} {g : Nat} (h : effective p = some g) : holdsGen p = some g := by
  cases p <;> simp_all [effective, holdsGen]

theorem pastFailedProbe_effective {p : Pc} (h : pastFailedProbe p = true) : ∃ g, effective p = some g := by
  cases p <;> simp_all [pastFailedProbe, effective]

theorem waitsFor_eq {p : Pc} {w : Wid} (h : waitsFor p = some w) : ∃ g, p = .waiting g w := by
  cases p <;> simp_all [waitsFor]

structure Inv (idle : Nat) (s : St) : Prop where
  heldI : ∀ t g, holdsGen (s.pc t) = some g → s.held g = some t
  effI : ∀ t g, effective (s.pc t) = some g → g = s.lockGen
  /-- an accepting worker is the one the path names -/
  accSock : s.clobbered = false → ∀ w, isAccepting (s.ws w) = true → s.sock = some w
  boundSock : s.clobbered = false → ∀ w, s.ws w = .bound → s.sock = some w
  /-- between a failed probe and the end of the spawn the only worker that can be accepting is the one being spawned -/
  noAcc : s.clobbered = false → ∀ t, pastFailedProbe (s.pc t) = true → ∀ w, isAccepting (s.ws w) = true →
    waitsFor (s.pc t) = some w
  /-- a worker that has not announced itself yet has its launcher waiting for it (lock held) -/
  startI : ∀ w, inStartup (s.ws w) = true → ∃ t g, s.pc t = .waiting g w
  /-- nobody announces before listening -/
  noAnn : ∀ w, s.ws w ≠ .announced
  aliveI : ∀ w, w ∈ s.mon.alive ↔ isAlive (s.ws w) = true
  accI : ∀ w, w ∈ s.mon.acc ↔ isAccepting (s.ws w) = true
  pathI : s.mon.path = s.sock
  decI : s.clobbered = false → ∀ t t0, decidedAt (s.pc t) = some t0 →
    t0 ≤ s.now ∧ (s.now < t0 + idle → ∃ w q, s.sock = some w ∧ s.ws w = .accepting q ∧ t0 ≤ q)
  quietI : ∀ w q, s.ws w = .accepting q → q ≤ s.now
  badSpawn : s.clobbered = false → s.mon.badSpawn = false
  badRet : s.clobbered = false → s.mon.badRet = false
  monHist : s.mon = Spec.LMon.run idle s.hist
  /-- worker ids are handed out in order -/
  freshI : ∀ w, s.nextW ≤ w → s.ws w = .unborn

/-- **mutual exclusion** of the critical sections proper -/
theorem Inv.mutex {idle : Nat} {s : St} (h : Inv idle s) {t t' : Tid} {g g' : Nat}
    (ht : effective (s.pc t) = some g) (ht' : effective (s.pc t') = some g') : t = t' := by
  have e1 := h.effI t g ht
  have e2 := h.effI t' g' ht'
  have h1 := h.heldI t g (effective_holds ht)
  have h2 := h.heldI t' g' (effective_holds ht')
  rw [e1] at h1; rw [e2] at h2; rw [h1] at h2
  exact Option.some.inj h2

/-- while some process is inside the critical section at a pc that is not `waiting`, no worker is starting up -/
theorem Inv.noStartup {idle : Nat} {s : St} (h : Inv idle s) {t : Tid} {g : Nat}
    (ht : effective (s.pc t) = some g) (hw : waitsFor (s.pc t) = none) (w : Wid) : inStartup (s.ws w) = false := by
  cases hs : inStartup (s.ws w) with
  | false => rfl
  | true =>
    obtain ⟨t', g', hp⟩ := h.startI w hs
    have : t = t' := h.mutex ht (by rw [hp]; rfl)
    subst this; rw [hp] at hw; simp [waitsFor] at hw

theorem inv_init (idle : Nat) : Inv idle ({} : St) := by
  constructor <;> simp [holdsGen, effective, pastFailedProbe, decidedAt, isAccepting, isAlive, inStartup, Spec.LMon.run]

/-! ### preservation -/

section steps
variable {idle : Nat} {s : St}

theorem inv_tick (h : Inv idle s) (d : Nat) : Inv idle { s with now := s.now + d } := by
  obtain ⟨heldI, effI, accSock, boundSock, noAcc, startI, noAnn, aliveI, accI, pathI, decI, quietI, badSpawn, badRet, monHist, freshI⟩ := h
  refine ⟨heldI, effI, accSock, boundSock, noAcc, startI, noAnn, aliveI, accI, pathI, ?_, ?_, badSpawn, badRet, monHist, freshI⟩
  · intro hc t t0 ht
    obtain ⟨h1, h2⟩ := decI hc t t0 ht
    refine ⟨by show t0 ≤ s.now + d; omega, fun hlt => h2 ?_⟩
    have : s.now + d < t0 + idle := hlt
    omega
  · intro w q hw
    have := quietI w q hw
    show q ≤ s.now + d; omega

/-- the pc-dependent fields after one process moved from a pc that waits for nobody to `p'` -/
theorem pcFields (h : Inv idle s) (t : Tid) (p' : Pc)
    (hh : ∀ g, holdsGen p' = some g → s.held g = some t)
    (he : ∀ g, effective p' = some g → g = s.lockGen)
    (hp : pastFailedProbe p' = true → s.clobbered = false → ∀ w, isAccepting (s.ws w) = true → waitsFor p' = some w)
    (hs : ∀ w, inStartup (s.ws w) = true → ∀ g, s.pc t = .waiting g w → p' = .waiting g w)
    (hd : s.clobbered = false → ∀ t0, decidedAt p' = some t0 →
      t0 ≤ s.now ∧ (s.now < t0 + idle → ∃ w q, s.sock = some w ∧ s.ws w = .accepting q ∧ t0 ≤ q)) :
    (∀ t' g, holdsGen (upd s.pc t p' t') = some g → s.held g = some t') ∧
    (∀ t' g, effective (upd s.pc t p' t') = some g → g = s.lockGen) ∧
    (s.clobbered = false → ∀ t', pastFailedProbe (upd s.pc t p' t') = true → ∀ w, isAccepting (s.ws w) = true →
      waitsFor (upd s.pc t p' t') = some w) ∧
    (∀ w, inStartup (s.ws w) = true → ∃ t' g, upd s.pc t p' t' = .waiting g w) ∧
    (s.clobbered = false → ∀ t' t0, decidedAt (upd s.pc t p' t') = some t0 →
      t0 ≤ s.now ∧ (s.now < t0 + idle → ∃ w q, s.sock = some w ∧ s.ws w = .accepting q ∧ t0 ≤ q)) := by
  refine ⟨?_, ?_, ?_, ?_, ?_⟩
  · intro t' g hg
    by_cases ht : t' = t
    · subst ht; simp only [upd, if_true] at hg; exact hh g hg
    · simp only [upd, ht, if_false] at hg; exact h.heldI t' g hg
  · intro t' g hg
    by_cases ht : t' = t
    · subst ht; simp only [upd, if_true] at hg; exact he g hg
    · simp only [upd, ht, if_false] at hg; exact h.effI t' g hg
  · intro hc t' hg w hw
    by_cases ht : t' = t
    · subst ht; simp only [upd, if_true] at hg ⊢; exact hp hg hc w hw
    · simp only [upd, ht, if_false] at hg ⊢; exact h.noAcc hc t' hg w hw
  · intro w hw
    obtain ⟨t', g, hpc⟩ := h.startI w hw
    by_cases ht : t' = t
    · subst ht; exact ⟨t', g, by simp only [upd, if_true]; exact hs w hw g hpc⟩
    · exact ⟨t', g, by simp only [upd, ht, if_false]; exact hpc⟩
  · intro hc t' t0 hg
    by_cases ht : t' = t
    · subst ht; simp only [upd, if_true] at hg; exact hd hc t0 hg
    · simp only [upd, ht, if_false] at hg; exact h.decI hc t' t0 hg

/-- steps that only move one process between program counters that wait for no worker (and possibly touch the meta
file): the new pc holds the same flock, is effective / past a failed probe / decided only if the old one was -/
theorem inv_pc (h : Inv idle s) (t : Tid) (p' : Pc) (m : Bool)
    (hh : ∀ g, holdsGen p' = some g → holdsGen (s.pc t) = some g)
    (he : ∀ g, effective p' = some g → effective (s.pc t) = some g)
    (hp : pastFailedProbe p' = true → pastFailedProbe (s.pc t) = true)
    (hw : waitsFor (s.pc t) = none)
    (hd : ∀ t0, decidedAt p' = some t0 → decidedAt (s.pc t) = some t0) :
    Inv idle { s with pc := upd s.pc t p', hasMeta := m } := by
  obtain ⟨f1, f2, f3, f4, f5⟩ := pcFields h t p'
    (fun g hg => h.heldI t g (hh g hg)) (fun g hg => h.effI t g (he g hg))
    (fun hg hc w hacc => by have := h.noAcc hc t (hp hg) w hacc; rw [hw] at this; cases this)
    (fun w _ g hpc => by rw [hpc] at hw; simp [waitsFor] at hw)
    (fun hc t0 hg => h.decI hc t t0 (hd t0 hg))
  exact ⟨f1, f2, h.accSock, h.boundSock, f3, f4, h.noAnn, h.aliveI, h.accI, h.pathI, f5, h.quietI, h.badSpawn, h.badRet, h.monHist, h.freshI⟩

/-- the world-level pc-dependent fields when one process moves between pcs that are neither past a failed probe, nor
waiting, nor decided -/
theorem pcWorld (h : Inv idle s) (t : Tid) (p' : Pc) (hp : pastFailedProbe p' = false) (hw : waitsFor (s.pc t) = none)
    (hd : decidedAt p' = none) :
    (s.clobbered = false → ∀ t', pastFailedProbe (upd s.pc t p' t') = true → ∀ w, isAccepting (s.ws w) = true →
      waitsFor (upd s.pc t p' t') = some w) ∧
    (∀ w, inStartup (s.ws w) = true → ∃ t' g, upd s.pc t p' t' = .waiting g w) ∧
    (s.clobbered = false → ∀ t' t0, decidedAt (upd s.pc t p' t') = some t0 →
      t0 ≤ s.now ∧ (s.now < t0 + idle → ∃ w q, s.sock = some w ∧ s.ws w = .accepting q ∧ t0 ≤ q)) := by
  refine ⟨?_, ?_, ?_⟩
  · intro hc t' hg w hacc
    by_cases ht : t' = t
    · subst ht; simp only [upd, if_true] at hg; rw [hp] at hg; cases hg
    · simp only [upd, ht, if_false] at hg ⊢; exact h.noAcc hc t' hg w hacc
  · intro w hs
    obtain ⟨t', g, hpc⟩ := h.startI w hs
    by_cases ht : t' = t
    · subst ht; rw [hpc] at hw; simp [waitsFor] at hw
    · exact ⟨t', g, by simp only [upd, ht, if_false]; exact hpc⟩
  · intro hc t' t0 hg
    by_cases ht : t' = t
    · subst ht; simp only [upd, if_true] at hg; rw [hd] at hg; cases hg
    · simp only [upd, ht, if_false] at hg; exact h.decI hc t' t0 hg

theorem inv_flock (h : Inv idle s) (t : Tid) (r : Role) (g : Nat) (hpc : s.pc t = .opened r g) (hfree : s.held g = none) :
    Inv idle { s with held := upd s.held g (some t), pc := upd s.pc t (.flocked r g) } := by
  obtain ⟨f3, f4, f5⟩ := pcWorld h t (.flocked r g) rfl (by rw [hpc]; rfl) rfl
  refine ⟨?_, ?_, h.accSock, h.boundSock, f3, f4, h.noAnn, h.aliveI, h.accI, h.pathI, f5, h.quietI, h.badSpawn, h.badRet, h.monHist, h.freshI⟩
  · intro t' g' hg
    by_cases ht : t' = t
    · subst ht; simp only [upd, if_true, holdsGen, Option.some.injEq] at hg; subst hg; simp [upd]
    · simp only [upd, ht, if_false] at hg
      have h1 := h.heldI t' g' hg
      have : g' ≠ g := by intro e; subst e; rw [hfree] at h1; cases h1
      simp only [upd, this, if_false]; exact h1
  · intro t' g' hg
    by_cases ht : t' = t
    · subst ht; simp [upd, effective] at hg
    · simp only [upd, ht, if_false] at hg; exact h.effI t' g' hg

/-- giving the flock up (failed inode check, `release()`): the new pc holds nothing -/
theorem inv_unlock (h : Inv idle s) (t : Tid) (g : Nat) (p' : Pc) (hg : holdsGen (s.pc t) = some g)
    (hh : holdsGen p' = none) (he : effective p' = none) (hp : pastFailedProbe p' = false)
    (hw : waitsFor (s.pc t) = none)
    (hd : ∀ t0, decidedAt p' = some t0 → decidedAt (s.pc t) = some t0) :
    Inv idle { s with held := upd s.held g none, pc := upd s.pc t p' } := by
  have hmine := h.heldI t g hg
  obtain ⟨_, _, f3, f4, f5⟩ := pcFields h t p' (fun g' hg' => by rw [hh] at hg'; cases hg')
    (fun g' hg' => by rw [he] at hg'; cases hg') (fun hg' => by rw [hp] at hg'; cases hg')
    (fun w _ g' hpc => by rw [hpc] at hw; simp [waitsFor] at hw)
    (fun hc t0 hg' => h.decI hc t t0 (hd t0 hg'))
  refine ⟨?_, ?_, h.accSock, h.boundSock, f3, f4, h.noAnn, h.aliveI, h.accI, h.pathI, f5, h.quietI, h.badSpawn, h.badRet, h.monHist, h.freshI⟩
  · intro t' g' hg'
    by_cases ht : t' = t
    · subst ht; simp only [upd, if_true] at hg'; rw [hh] at hg'; cases hg'
    · simp only [upd, ht, if_false] at hg'
      have h1 := h.heldI t' g' hg'
      have : g' ≠ g := by intro e; subst e; rw [hmine] at h1; exact ht (Option.some.inj h1).symm
      simp only [upd, this, if_false]; exact h1
  · intro t' g' hg'
    by_cases ht : t' = t
    · subst ht; simp only [upd, if_true] at hg'; rw [he] at hg'; cases hg'
    · simp only [upd, ht, if_false] at hg'; exact h.effI t' g' hg'

/-- the inode check succeeded: the process enters the critical section proper -/
theorem inv_verify (h : Inv idle s) (t : Tid) (r : Role) (g : Nat) (hpc : s.pc t = .flocked r g) (hg : g = s.lockGen) :
    Inv idle { s with pc := upd s.pc t (.probing r g) } := by
  obtain ⟨f1, f2, f3, f4, f5⟩ := pcFields h t (.probing r g)
    (fun g' hg' => by simp only [holdsGen, Option.some.injEq] at hg'; subst hg'; exact h.heldI t _ (by rw [hpc]; rfl))
    (fun g' hg' => by simp only [effective, Option.some.injEq] at hg'; subst hg'; exact hg)
    (fun hg' => by cases hg') (fun w _ g' hpc' => by rw [hpc] at hpc'; cases hpc')
    (fun _ t0 hg' => by cases hg')
  exact ⟨f1, f2, h.accSock, h.boundSock, f3, f4, h.noAnn, h.aliveI, h.accI, h.pathI, f5, h.quietI, h.badSpawn, h.badRet, h.monHist, h.freshI⟩

theorem pathAccepting_iff : pathAccepting s = true ↔ ∃ w, s.sock = some w ∧ isAccepting (s.ws w) = true := by
  unfold pathAccepting
  cases hs : s.sock with
  | none => simp
  | some w => simp

theorem touch_same_kind (w : Wid) :
    isAccepting ((touch s).ws w) = isAccepting (s.ws w) ∧ isAlive ((touch s).ws w) = isAlive (s.ws w) ∧
    inStartup ((touch s).ws w) = inStartup (s.ws w) ∧ ((touch s).ws w = .bound ↔ s.ws w = .bound) ∧
    ((touch s).ws w = .announced ↔ s.ws w = .announced) := by
  rcases touch_ws s w with h | ⟨_, ⟨q, hq⟩, h⟩
  · rw [h]; simp
  · rw [h, hq]; simp [isAccepting, isAlive, inStartup]

/-- a successful probe (a connection to the worker the path names); `p'` is `decided g now` for a launcher and
`gReleasing g` for the GC -/
theorem inv_probeOk (h : Inv idle s) (t : Tid) (r : Role) (g : Nat) (hpc : s.pc t = .probing r g)
    (hacc : pathAccepting s = true) (p' : Pc) (hh : holdsGen p' = some g)
    (he : ∀ g', effective p' = some g' → g' = g) (hp : pastFailedProbe p' = false)
    (hd : ∀ t0, decidedAt p' = some t0 → t0 = s.now) :
    Inv idle { touch s with pc := upd s.pc t p' } := by
  obtain ⟨w0, hs0, hw0⟩ := pathAccepting_iff.1 hacc
  have hk := touch_same_kind (s := s)
  -- the worker the path names is past its start-up: nobody waits for it while `t` is inside at a non-waiting pc
  have hnotstart : inStartup (s.ws w0) = false := h.noStartup (t := t) (g := g) (by rw [hpc]; rfl) (by rw [hpc]; rfl) w0
  obtain ⟨q0, hq0⟩ : ∃ q, s.ws w0 = .accepting q := by
    cases hw : s.ws w0 <;> simp_all [isAccepting, inStartup]
  have htw0 : (touch s).ws w0 = .accepting s.now := by
    unfold touch; simp [hs0, hq0, upd]
  constructor
  · intro t' g' hg'
    simp only [touch_held]
    by_cases ht : t' = t
    · subst ht; simp only [upd, if_true] at hg'; rw [hh] at hg'; cases hg'
      exact h.heldI _ _ (by rw [hpc]; rfl)
    · simp only [upd, ht, if_false] at hg'; exact h.heldI t' g' hg'
  · intro t' g' hg'
    simp only [touch_lockGen]
    by_cases ht : t' = t
    · subst ht; simp only [upd, if_true] at hg'
      rw [he g' hg']; exact h.effI _ g (by rw [hpc]; rfl)
    · simp only [upd, ht, if_false] at hg'; exact h.effI t' g' hg'
  · intro hc w hw
    simp only [touch_clobbered] at hc
    simp only [touch_sock]
    rw [(hk w).1] at hw
    exact h.accSock hc w hw
  · intro hc w hw
    simp only [touch_clobbered] at hc
    simp only [touch_sock]
    exact h.boundSock hc w ((hk w).2.2.2.1.1 hw)
  · intro hc t' hg' w hw
    simp only [touch_clobbered] at hc
    rw [(hk w).1] at hw
    by_cases ht : t' = t
    · subst ht; simp only [upd, if_true] at hg'; rw [hp] at hg'; cases hg'
    · simp only [upd, ht, if_false] at hg' ⊢; exact h.noAcc hc t' hg' w hw
  · intro w hw
    rw [(hk w).2.2.1] at hw
    obtain ⟨t', g', hpc'⟩ := h.startI w hw
    by_cases ht : t' = t
    · subst ht; rw [hpc] at hpc'; cases hpc'
    · exact ⟨t', g', by simp only [upd, ht, if_false]; exact hpc'⟩
  · intro w hw; exact h.noAnn w ((hk w).2.2.2.2.1 hw)
  · intro w; simp only [touch_mon]; rw [(hk w).2.1]; exact h.aliveI w
  · intro w; simp only [touch_mon]; rw [(hk w).1]; exact h.accI w
  · simpa using h.pathI
  · intro hc t' t0 hg'
    simp only [touch_clobbered] at hc
    simp only [touch_now, touch_sock]
    by_cases ht : t' = t
    · subst ht; simp only [upd, if_true] at hg'
      have := hd t0 hg'; subst this
      exact ⟨Nat.le_refl _, fun _ => ⟨w0, s.now, hs0, htw0, Nat.le_refl _⟩⟩
    · simp only [upd, ht, if_false] at hg'
      obtain ⟨h1, h2⟩ := h.decI hc t' t0 hg'
      refine ⟨h1, fun hlt => ?_⟩
      obtain ⟨w, q, hs1, hw1, hq1⟩ := h2 hlt
      have : w = w0 := by rw [hs0] at hs1; exact (Option.some.inj hs1).symm
      subst this
      exact ⟨w, s.now, hs1, htw0, h1⟩
  · intro w q hw
    simp only [touch_now]
    rcases touch_ws s w with h1 | ⟨_, _, h1⟩
    · rw [h1] at hw; exact h.quietI w q hw
    · rw [h1] at hw; cases hw; exact Nat.le_refl _
  · simpa using h.badSpawn
  · simpa using h.badRet
  · simpa using h.monHist
  · intro w hw
    have h1 := h.freshI w (by simpa using hw)
    rcases touch_ws s w with h2 | ⟨_, ⟨q, hq⟩, _⟩
    · rw [h2]; exact h1
    · rw [h1] at hq; cases hq

/-- a failed probe: nobody is accepting (an accepting worker would be the one the path names) -/
theorem inv_probeFail (h : Inv idle s) (t : Tid) (r : Role) (g : Nat) (hpc : s.pc t = .probing r g)
    (hacc : pathAccepting s = false) (p' : Pc) (hh : holdsGen p' = some g) (he : effective p' = some g)
    (hd : decidedAt p' = none) :
    Inv idle { s with pc := upd s.pc t p' } := by
  obtain ⟨f1, f2, f3, f4, f5⟩ := pcFields h t p'
    (fun g' hg' => by rw [hh] at hg'; cases hg'; exact h.heldI t _ (by rw [hpc]; rfl))
    (fun g' hg' => by rw [he] at hg'; cases hg'; exact h.effI t _ (by rw [hpc]; rfl))
    (fun _ hc w hw => by
      have hs := h.accSock hc w hw
      have : pathAccepting s = true := pathAccepting_iff.2 ⟨w, hs, hw⟩
      rw [hacc] at this; cases this)
    (fun w _ g' hpc' => by rw [hpc] at hpc'; cases hpc')
    (fun _ t0 hg' => by rw [hd] at hg'; cases hg')
  exact ⟨f1, f2, h.accSock, h.boundSock, f3, f4, h.noAnn, h.aliveI, h.accI, h.pathI, f5, h.quietI, h.badSpawn, h.badRet, h.monHist, h.freshI⟩

/-- removing the socket path after a failed probe (`_unlink_stale_socket`, the GC's `unlink(sock)`) -/
theorem inv_rmSock (h : Inv idle s) (t : Tid) (p' : Pc) (hpast : pastFailedProbe (s.pc t) = true)
    (hw : waitsFor (s.pc t) = none)
    (hh : ∀ g, holdsGen p' = some g → holdsGen (s.pc t) = some g)
    (he : ∀ g, effective p' = some g → effective (s.pc t) = some g)
    (hd : decidedAt p' = none) :
    Inv idle { rmSock idle s with pc := upd s.pc t p' } := by
  obtain ⟨g0, hg0⟩ := pastFailedProbe_effective hpast
  have nostart := h.noStartup hg0 hw
  have noacc : s.clobbered = false → ∀ w, isAccepting (s.ws w) = false := by
    intro hc w
    cases ha : isAccepting (s.ws w) with
    | false => rfl
    | true => have := h.noAcc hc t hpast w ha; rw [hw] at this; cases this
  constructor
  · intro t' g' hg'
    simp only [rmSock_held]
    by_cases ht : t' = t
    · subst ht; simp only [upd, if_true] at hg'; exact h.heldI _ g' (hh g' hg')
    · simp only [upd, ht, if_false] at hg'; exact h.heldI t' g' hg'
  · intro t' g' hg'
    simp only [rmSock_lockGen]
    by_cases ht : t' = t
    · subst ht; simp only [upd, if_true] at hg'; exact h.effI _ g' (he g' hg')
    · simp only [upd, ht, if_false] at hg'; exact h.effI t' g' hg'
  · intro hc w hw1
    simp only [rmSock_clobbered] at hc
    simp only [rmSock_ws] at hw1
    rw [noacc hc w] at hw1; cases hw1
  · intro hc w hw1
    simp only [rmSock_ws] at hw1
    have := nostart w; rw [hw1] at this; cases this
  · intro hc t' _ w hw1
    simp only [rmSock_clobbered] at hc
    simp only [rmSock_ws] at hw1
    rw [noacc hc w] at hw1; cases hw1
  · intro w hw1
    simp only [rmSock_ws] at hw1
    have := nostart w; rw [hw1] at this; cases this
  · intro w; simp only [rmSock_ws]; exact h.noAnn w
  · intro w; simp only [rmSock_alive, rmSock_ws]; exact h.aliveI w
  · intro w; simp only [rmSock_acc, rmSock_ws]; exact h.accI w
  · simp only [rmSock_sock]; exact rmSock_path idle s h.pathI
  · intro hc t' t0 hg'
    simp only [rmSock_clobbered] at hc
    simp only [rmSock_now, rmSock_sock, rmSock_ws]
    have hold : decidedAt (s.pc t') = some t0 := by
      by_cases ht : t' = t
      · subst ht; simp only [upd, if_true] at hg'; rw [hd] at hg'; cases hg'
      · simpa only [upd, ht, if_false] using hg'
    obtain ⟨h1, h2⟩ := h.decI hc t' t0 hold
    refine ⟨h1, fun hlt => ?_⟩
    obtain ⟨w, q, _, hw1, _⟩ := h2 hlt
    have := noacc hc w
    rw [hw1] at this; cases this
  · intro w q hw1; simp only [rmSock_ws] at hw1; simp only [rmSock_now]; exact h.quietI w q hw1
  · intro hc; simp only [rmSock_clobbered] at hc; simp only [rmSock_badSpawn]; exact h.badSpawn hc
  · intro hc; simp only [rmSock_clobbered] at hc; simp only [rmSock_badRet]; exact h.badRet hc
  · exact rmSock_monHist idle s h.monHist
  · intro w hw; simp only [rmSock_ws]; exact h.freshI w (by simpa using hw)

/-- `Popen`: the worker process exists; the launcher starts waiting for its announcement -/
theorem inv_spawn (h : Inv idle s) (t : Tid) (g : Nat) (hpc : s.pc t = .spawning g) :
    Inv idle (emit idle { s with ws := upd s.ws s.nextW .starting, nextW := s.nextW + 1,
                                 pc := upd s.pc t (.waiting g s.nextW) } (.spawn s.nextW)) := by
  have heff : effective (s.pc t) = some g := by rw [hpc]; rfl
  have hpast : pastFailedProbe (s.pc t) = true := by rw [hpc]; rfl
  have hw : waitsFor (s.pc t) = none := by rw [hpc]; rfl
  have nostart := h.noStartup heff hw
  have noacc : s.clobbered = false → ∀ w, isAccepting (s.ws w) = false := by
    intro hc w
    cases ha : isAccepting (s.ws w) with
    | false => rfl
    | true => have := h.noAcc hc t hpast w ha; rw [hw] at this; cases this
  have hacc' : ∀ w, isAccepting (upd s.ws s.nextW .starting w) = true → isAccepting (s.ws w) = true := by
    intro w hw1
    by_cases hwn : w = s.nextW
    · subst hwn; simp [upd, isAccepting] at hw1
    · simpa only [upd, hwn, if_false] using hw1
  constructor
  · intro t' g' hg'
    simp only [emit_pc, emit_held] at hg' ⊢
    by_cases ht : t' = t
    · subst ht; simp only [upd, if_true, holdsGen, Option.some.injEq] at hg'; subst hg'
      exact h.heldI _ _ (by rw [hpc]; rfl)
    · simp only [upd, ht, if_false] at hg'; exact h.heldI t' g' hg'
  · intro t' g' hg'
    simp only [emit_pc, emit_lockGen] at hg' ⊢
    by_cases ht : t' = t
    · subst ht; simp only [upd, if_true, effective, Option.some.injEq] at hg'; subst hg'
      exact h.effI _ _ heff
    · simp only [upd, ht, if_false] at hg'; exact h.effI t' g' hg'
  · intro hc w hw1
    simp only [emit_clobbered] at hc
    simp only [emit_ws] at hw1
    have := hacc' w hw1; rw [noacc hc w] at this; cases this
  · intro hc w hw1
    simp only [emit_ws] at hw1
    by_cases hwn : w = s.nextW
    · subst hwn; simp [upd] at hw1
    · simp only [upd, hwn, if_false] at hw1
      have := nostart w; rw [hw1] at this; cases this
  · intro hc t' _ w hw1
    simp only [emit_clobbered] at hc
    simp only [emit_ws] at hw1
    have := hacc' w hw1; rw [noacc hc w] at this; cases this
  · intro w hw1
    simp only [emit_ws, emit_pc] at hw1 ⊢
    by_cases hwn : w = s.nextW
    · subst hwn; exact ⟨t, g, by simp [upd]⟩
    · simp only [upd, hwn, if_false] at hw1
      have := nostart w; rw [hw1] at this; cases this
  · intro w
    simp only [emit_ws]
    by_cases hwn : w = s.nextW
    · subst hwn; simp [upd]
    · simp only [upd, hwn, if_false]; exact h.noAnn w
  · intro w
    simp only [emit_mon, emit_ws, Spec.LMon.step, List.mem_cons]
    by_cases hwn : w = s.nextW
    · subst hwn; simp [upd, isAlive]
    · simp only [upd, hwn, if_false, false_or]; exact h.aliveI w
  · intro w
    simp only [emit_mon, emit_ws, Spec.LMon.step]
    by_cases hwn : w = s.nextW
    · subst hwn
      have hu := h.freshI s.nextW (Nat.le_refl _)
      have := h.accI s.nextW
      rw [hu] at this
      simpa [upd, isAccepting] using this
    · simp only [upd, hwn, if_false]; exact h.accI w
  · simpa [Spec.LMon.step] using h.pathI
  · intro hc t' t0 hg'
    simp only [emit_clobbered] at hc
    simp only [emit_pc, emit_now, emit_sock, emit_ws] at hg' ⊢
    by_cases ht : t' = t
    · subst ht; simp [upd, decidedAt] at hg'
    · simp only [upd, ht, if_false] at hg'
      obtain ⟨h1, h2⟩ := h.decI hc t' t0 hg'
      refine ⟨h1, fun hlt => ?_⟩
      obtain ⟨w, q, _, hw1, _⟩ := h2 hlt
      have := noacc hc w; rw [hw1] at this; cases this
  · intro w q hw1
    simp only [emit_ws, emit_now] at hw1 ⊢
    by_cases hwn : w = s.nextW
    · subst hwn; simp [upd] at hw1
    · simp only [upd, hwn, if_false] at hw1; exact h.quietI w q hw1
  · intro hc
    simp only [emit_clobbered] at hc
    simp only [emit_mon, Spec.LMon.step, Bool.or_eq_false_iff]
    refine ⟨h.badSpawn hc, ?_⟩
    have : s.mon.alive = [] := by
      apply List.eq_nil_iff_forall_not_mem.2
      intro w hw1
      have h1 := (h.aliveI w).1 hw1
      have h2 := nostart w
      have h3 := noacc hc w
      have h4 := h.noAnn w
      cases hws : s.ws w <;> simp_all [isAlive, inStartup, isAccepting]
    simp [this]
  · intro hc; simp only [emit_clobbered] at hc; simpa [Spec.LMon.step] using h.badRet hc
  · simp only [emit_mon, emit_hist, lrun_snoc]; rw [← h.monHist]
  · intro w hw
    have hw' : s.nextW + 1 ≤ w := hw
    show upd s.ws s.nextW .starting w = .unborn
    have : w ≠ s.nextW := by omega
    simp only [upd, this, if_false]; exact h.freshI w (by omega)

/-- `_spawn_worker` returns (the worker has announced itself, after it started listening) or raises (the worker is gone) -/
theorem inv_leaveWait (h : Inv idle s) (t : Tid) (g : Nat) (w : Wid) (hpc : s.pc t = .waiting g w) (p' : Pc)
    (hnot : inStartup (s.ws w) = false)
    (hh : holdsGen p' = some g) (he : effective p' = some g) (hp : pastFailedProbe p' = false)
    (hd : ∀ t0, decidedAt p' = some t0 → s.ws w = .accepting t0) :
    Inv idle { s with pc := upd s.pc t p' } := by
  obtain ⟨f1, f2, f3, f4, f5⟩ := pcFields h t p'
    (fun g' hg' => by rw [hh] at hg'; cases hg'; exact h.heldI t _ (by rw [hpc]; rfl))
    (fun g' hg' => by rw [he] at hg'; cases hg'; exact h.effI t _ (by rw [hpc]; rfl))
    (fun hg' => by rw [hp] at hg'; cases hg')
    (fun w' hs g' hpc' => by rw [hpc] at hpc'; cases hpc'; rw [hs] at hnot; cases hnot)
    (fun hc t0 hg' => by
      have hw := hd t0 hg'
      exact ⟨h.quietI w t0 hw, fun _ => ⟨w, t0, h.accSock hc w (by rw [hw]; rfl), hw, Nat.le_refl _⟩⟩)
  exact ⟨f1, f2, h.accSock, h.boundSock, f3, f4, h.noAnn, h.aliveI, h.accI, h.pathI, f5, h.quietI, h.badSpawn, h.badRet, h.monHist, h.freshI⟩

theorem inv_ret (h : Inv idle s) (t : Tid) (t0 : Nat) (hpc : s.pc t = .released (some t0)) :
    Inv idle (emit idle { s with pc := upd s.pc t .returned } (.ret t0 s.now)) := by
  have h1 := inv_pc h t .returned s.hasMeta (by intro g hg; cases hg) (by intro g hg; cases hg)
    (by intro hg; cases hg) (by rw [hpc]; rfl) (by intro t1 hg; cases hg)
  obtain ⟨heldI, effI, accSock, boundSock, noAcc, startI, noAnn, aliveI, accI, pathI, decI, quietI, badSpawn, badRet, monHist, freshI⟩ := h1
  refine ⟨heldI, effI, accSock, boundSock, noAcc, startI, noAnn, ?_, ?_, ?_, decI, quietI, ?_, ?_, ?_, freshI⟩
  · intro w; simpa [Spec.LMon.step] using aliveI w
  · intro w; simpa [Spec.LMon.step] using accI w
  · simpa [Spec.LMon.step] using pathI
  · intro hc; simpa [Spec.LMon.step] using badSpawn hc
  · intro hc
    simp only [emit_clobbered] at hc
    simp only [emit_mon, Spec.LMon.step, Bool.or_eq_false_iff, Bool.and_eq_false_iff]
    refine ⟨badRet hc, ?_⟩
    by_cases hlt : s.now < t0 + idle
    · right
      obtain ⟨_, h2⟩ := h.decI hc t t0 (by rw [hpc]; rfl)
      obtain ⟨w, q, hs, hw, _⟩ := h2 hlt
      have hal : w ∈ s.mon.acc := (h.accI w).2 (by rw [hw]; rfl)
      simp [Spec.LMon.pathAccepting, h.pathI, hs, hal]
    · left; simpa using hlt
  · simp only [emit_mon, emit_hist, lrun_snoc]; rw [← monHist]

/-- the GC unlinks the lock path (while holding the lock): the path now names a fresh inode; the GC itself has
nothing left to do but release -/
theorem inv_gcUnlinkLock (h : Inv idle s) (t : Tid) (g : Nat) (hpc : s.pc t = .gUnlinkLock g) :
    Inv idle { s with lockGen := s.lockGen + 1, pc := upd s.pc t (.gReleasing g) } := by
  have heff : effective (s.pc t) = some g := by rw [hpc]; rfl
  obtain ⟨f3, f4, f5⟩ := pcWorld h t (.gReleasing g) rfl (by rw [hpc]; rfl) rfl
  refine ⟨?_, ?_, h.accSock, h.boundSock, f3, f4, h.noAnn, h.aliveI, h.accI, h.pathI, f5, h.quietI, h.badSpawn, h.badRet, h.monHist, h.freshI⟩
  · intro t' g' hg'
    by_cases ht : t' = t
    · subst ht; simp only [upd, if_true, holdsGen, Option.some.injEq] at hg'; subst hg'
      exact h.heldI _ _ (by rw [hpc]; rfl)
    · simp only [upd, ht, if_false] at hg'; exact h.heldI t' g' hg'
  · intro t' g' hg'
    by_cases ht : t' = t
    · subst ht; simp [upd, effective] at hg'
    · simp only [upd, ht, if_false] at hg'; exact absurd (h.mutex hg' heff) ht

/-! #### worker steps -/

/-- a worker changes state without changing what it is to the rest of the world (accepting or not, alive or not, bound
or not); start-up may only progress (`inStartup` is kept or left, never entered) -/
theorem inv_wMove (h : Inv idle s) (w : Wid) (st' : WSt)
    (hacc : isAccepting st' = isAccepting (s.ws w)) (halive : isAlive st' = isAlive (s.ws w))
    (hstart : inStartup st' = true → inStartup (s.ws w) = true)
    (hbound : st' = .bound → s.ws w = .bound) (hann : st' ≠ .announced) (hlive : s.ws w ≠ .unborn)
    (hq : ∀ q, st' = .accepting q → q ≤ s.now ∧ ∀ q0, s.ws w = .accepting q0 → q0 ≤ q) (hnotacc : ∀ q0, s.ws w = .accepting q0 → ∃ q, st' = .accepting q) :
    Inv idle { s with ws := upd s.ws w st' } := by
  obtain ⟨heldI, effI, accSock, boundSock, noAcc, startI, noAnn, aliveI, accI, pathI, decI, quietI, badSpawn, badRet, monHist, freshI⟩ := h
  have hA : ∀ w', isAccepting (upd s.ws w st' w') = isAccepting (s.ws w') := by
    intro w'; by_cases he : w' = w
    · subst he; simp [upd, hacc]
    · simp [upd, he]
  refine ⟨heldI, effI, ?_, ?_, ?_, ?_, ?_, ?_, ?_, pathI, ?_, ?_, badSpawn, badRet, monHist, ?_⟩
  · intro hc w' hw'; rw [hA] at hw'; exact accSock hc w' hw'
  · intro hc w' hw'
    by_cases he : w' = w
    · subst he; simp only [upd, if_true] at hw'; exact boundSock hc _ (hbound hw')
    · simp only [upd, he, if_false] at hw'; exact boundSock hc w' hw'
  · intro hc t hg w' hw'; rw [hA] at hw'; exact noAcc hc t hg w' hw'
  · intro w' hw'
    by_cases he : w' = w
    · subst he; simp only [upd, if_true] at hw'; exact startI _ (hstart hw')
    · simp only [upd, he, if_false] at hw'; exact startI w' hw'
  · intro w'
    by_cases he : w' = w
    · subst he; simp only [upd, if_true]; exact hann
    · simp only [upd, he, if_false]; exact noAnn w'
  · intro w'
    by_cases he : w' = w
    · subst he; simp only [upd, if_true]; rw [halive]; exact aliveI _
    · simp only [upd, he, if_false]; exact aliveI w'
  · intro w'; rw [hA]; exact accI w'
  · intro hc t t0 hg
    obtain ⟨h1, h2⟩ := decI hc t t0 hg
    refine ⟨h1, fun hlt => ?_⟩
    obtain ⟨w', q', hs1, hw1, hq1⟩ := h2 hlt
    by_cases he : w' = w
    · subst he
      obtain ⟨q, hq'⟩ := hnotacc q' hw1
      exact ⟨w', q, hs1, by simp [upd, hq'], Nat.le_trans hq1 ((hq q hq').2 q' hw1)⟩
    · exact ⟨w', q', hs1, by simp only [upd, he, if_false]; exact hw1, hq1⟩
  · intro w' q' hw'
    by_cases he : w' = w
    · subst he; simp only [upd, if_true] at hw'; exact (hq q' hw').1
    · simp only [upd, he, if_false] at hw'; exact quietI w' q' hw'
  · intro w' hw'
    by_cases he : w' = w
    · subst he; exact absurd (freshI _ hw') hlive
    · simp only [upd, he, if_false]; exact freshI w' hw'

/-- a worker stops being alive: idle exit of an accepting worker (`q + idle ≤ now`), or death during start-up before it
bound anything -/
theorem inv_wGone (h : Inv idle s) (w : Wid) (st' : WSt) (hst : isAlive st' = false)
    (hold : (∃ q, s.ws w = .accepting q ∧ q + idle ≤ s.now) ∨ s.ws w = .starting ∨ s.ws w = .prechecked ∨ s.ws w = .bound) :
    Inv idle (emit idle { s with ws := upd s.ws w st' } (.exit w)) := by
  obtain ⟨heldI, effI, accSock, boundSock, noAcc, startI, noAnn, aliveI, accI, pathI, decI, quietI, badSpawn, badRet, monHist, freshI⟩ := h
  have hnacc : isAccepting st' = false := by cases st' <;> first | rfl | (simp [isAlive] at hst)
  have hnstart : inStartup st' = false := by cases st' <;> first | rfl | (simp [isAlive] at hst)
  have hlive : s.ws w ≠ .unborn := by rcases hold with ⟨q, hq, _⟩ | hq | hq | hq <;> rw [hq] <;> simp
  constructor
  · exact heldI
  · exact effI
  · intro hc w' hw'
    simp only [emit_ws, emit_sock] at hw' ⊢
    by_cases he : w' = w
    · subst he; simp [upd, hnacc] at hw'
    · simp only [upd, he, if_false] at hw'; exact accSock hc w' hw'
  · intro hc w' hw'
    simp only [emit_ws, emit_sock] at hw' ⊢
    by_cases he : w' = w
    · subst he; simp only [upd, if_true] at hw'; rw [hw'] at hst; cases hst
    · simp only [upd, he, if_false] at hw'; exact boundSock hc w' hw'
  · intro hc t hg w' hw'
    simp only [emit_ws, emit_pc] at hw' hg ⊢
    by_cases he : w' = w
    · subst he; simp [upd, hnacc] at hw'
    · simp only [upd, he, if_false] at hw'; exact noAcc hc t hg w' hw'
  · intro w' hw'
    simp only [emit_ws, emit_pc] at hw' ⊢
    by_cases he : w' = w
    · subst he; simp [upd, hnstart] at hw'
    · simp only [upd, he, if_false] at hw'; exact startI w' hw'
  · intro w'
    simp only [emit_ws]
    by_cases he : w' = w
    · subst he; simp only [upd, if_true]; intro hh; rw [hh] at hst; cases hst
    · simp only [upd, he, if_false]; exact noAnn w'
  · intro w'
    simp only [emit_mon, emit_ws, Spec.LMon.step, List.mem_filter, bne_iff_ne, ne_eq]
    by_cases he : w' = w
    · subst he; simp [upd, hst]
    · simp only [upd, he, if_false, not_false_eq_true, and_true]; exact aliveI w'
  · intro w'
    simp only [emit_mon, emit_ws, Spec.LMon.step, List.mem_filter, bne_iff_ne, ne_eq]
    by_cases he : w' = w
    · subst he; simp [upd, hnacc]
    · simp only [upd, he, if_false, not_false_eq_true, and_true]; exact accI w'
  · simpa [Spec.LMon.step] using pathI
  · intro hc t t0 hg
    simp only [emit_clobbered] at hc
    simp only [emit_pc, emit_now, emit_sock, emit_ws] at hg ⊢
    obtain ⟨h1, h2⟩ := decI hc t t0 hg
    refine ⟨h1, fun hlt => ?_⟩
    obtain ⟨w', q', hs1, hw1, hq1⟩ := h2 hlt
    have he : w' ≠ w := by
      intro e; subst e
      rcases hold with ⟨q, hq, hle⟩ | hq | hq | hq
      · rw [hq] at hw1; cases hw1; omega
      · rw [hq] at hw1; cases hw1
      · rw [hq] at hw1; cases hw1
      · rw [hq] at hw1; cases hw1
    exact ⟨w', q', hs1, by simp only [upd, he, if_false]; exact hw1, hq1⟩
  · intro w' q' hw'
    simp only [emit_ws, emit_now] at hw' ⊢
    by_cases he : w' = w
    · subst he; simp only [upd, if_true] at hw'; rw [hw'] at hst; cases hst
    · simp only [upd, he, if_false] at hw'; exact quietI w' q' hw'
  · intro hc; simpa [Spec.LMon.step] using badSpawn hc
  · intro hc; simpa [Spec.LMon.step] using badRet hc
  · simp only [emit_mon, emit_hist, lrun_snoc]; rw [← monHist]
  · intro w' hw'
    show upd s.ws w st' w' = .unborn
    by_cases he : w' = w
    · subst he; exact absurd (freshI _ hw') hlive
    · simp only [upd, he, if_false]; exact freshI w' hw'

/-- the launcher that waits for a worker in start-up -/
theorem Inv.waiter {idle : Nat} {s : St} (h : Inv idle s) {w : Wid} (hs : inStartup (s.ws w) = true) :
    ∃ t g, s.pc t = .waiting g w ∧
      (s.clobbered = false → ∀ w', isAccepting (s.ws w') = true → w' = w) ∧
      (∀ w', inStartup (s.ws w') = true → w' = w) := by
  obtain ⟨t, g, hpc⟩ := h.startI w hs
  refine ⟨t, g, hpc, ?_, ?_⟩
  · intro hc w' hw'
    have := h.noAcc hc t (by rw [hpc]; rfl) w' hw'
    rw [hpc] at this; simp only [waitsFor, Option.some.injEq] at this; exact this.symm
  · intro w' hw'
    obtain ⟨t', g', hpc'⟩ := h.startI w' hw'
    have : t = t' := h.mutex (by rw [hpc]; rfl) (by rw [hpc']; rfl)
    subst this; rw [hpc] at hpc'; cases hpc'; rfl

/-- worker start-up: `_unlink_stale_unix_socket` -/
theorem inv_wClear (h : Inv idle s) (w : Wid) (hw : s.ws w = .prechecked) :
    Inv idle { rmSock idle s with ws := upd s.ws w .cleared } := by
  obtain ⟨t, g, hpc, honly, hsolo⟩ := h.waiter (w := w) (by rw [hw]; rfl)
  have noacc : s.clobbered = false → ∀ w', isAccepting (s.ws w') = false := by
    intro hc w'
    cases ha : isAccepting (s.ws w') with
    | false => rfl
    | true => have := honly hc w' ha; subst this; rw [hw] at ha; cases ha
  have nobound : ∀ w', s.ws w' ≠ .bound := by
    intro w' hb
    have := hsolo w' (by rw [hb]; rfl); subst this; rw [hw] at hb; cases hb
  have hA : ∀ w', isAccepting (upd s.ws w .cleared w') = isAccepting (s.ws w') := by
    intro w'; by_cases he : w' = w
    · subst he; simp [upd, hw, isAccepting]
    · simp [upd, he]
  constructor
  · intro t' g' hg'; simp only [rmSock_held]; exact h.heldI t' g' (by simpa using hg')
  · intro t' g' hg'; simp only [rmSock_lockGen]; exact h.effI t' g' (by simpa using hg')
  · intro hc w' hw'
    have hw'' : isAccepting (upd s.ws w .cleared w') = true := hw'
    rw [hA, noacc (by simpa using hc) w'] at hw''; cases hw''
  · intro hc w' hw'
    have hw'' : upd s.ws w .cleared w' = .bound := hw'
    by_cases he : w' = w
    · subst he; simp [upd] at hw''
    · simp only [upd, he, if_false] at hw''; exact absurd hw'' (nobound w')
  · intro hc t' _ w' hw'
    have hw'' : isAccepting (upd s.ws w .cleared w') = true := hw'
    rw [hA, noacc (by simpa using hc) w'] at hw''; cases hw''
  · intro w' hw'
    have hw'' : inStartup (upd s.ws w .cleared w') = true := hw'
    show ∃ t' g', (rmSock idle s).pc t' = .waiting g' w'
    simp only [rmSock_pc]
    by_cases he : w' = w
    · subst he; exact ⟨t, g, hpc⟩
    · simp only [upd, he, if_false] at hw''; exact h.startI w' hw''
  · intro w'
    show upd s.ws w .cleared w' ≠ .announced
    by_cases he : w' = w
    · subst he; simp [upd]
    · simp only [upd, he, if_false]; exact h.noAnn w'
  · intro w'
    show w' ∈ (rmSock idle s).mon.alive ↔ isAlive (upd s.ws w .cleared w') = true
    simp only [rmSock_alive]
    by_cases he : w' = w
    · subst he; have := h.aliveI w'; rw [hw] at this; simpa [upd, isAlive] using this
    · simp only [upd, he, if_false]; exact h.aliveI w'
  · intro w'
    show w' ∈ (rmSock idle s).mon.acc ↔ isAccepting (upd s.ws w .cleared w') = true
    simp only [rmSock_acc]; rw [hA]; exact h.accI w'
  · show (rmSock idle s).mon.path = (rmSock idle s).sock
    simp only [rmSock_sock]; exact rmSock_path idle s h.pathI
  · intro hc t' t0 hg'
    have hc' : s.clobbered = false := by simpa using hc
    have hg'' : decidedAt (s.pc t') = some t0 := by simpa using hg'
    show t0 ≤ (rmSock idle s).now ∧ ((rmSock idle s).now < t0 + idle →
      ∃ w' q, (rmSock idle s).sock = some w' ∧ upd s.ws w .cleared w' = .accepting q ∧ t0 ≤ q)
    simp only [rmSock_now, rmSock_sock]
    obtain ⟨h1, h2⟩ := h.decI hc' t' t0 hg''
    refine ⟨h1, fun hlt => ?_⟩
    obtain ⟨w', q', _, hw1, _⟩ := h2 hlt
    have := noacc hc' w'; rw [hw1] at this; cases this
  · intro w' q' hw'
    have hw'' : upd s.ws w .cleared w' = .accepting q' := hw'
    show q' ≤ (rmSock idle s).now
    simp only [rmSock_now]
    by_cases he : w' = w
    · subst he; simp [upd] at hw''
    · simp only [upd, he, if_false] at hw''; exact h.quietI w' q' hw''
  · intro hc; show (rmSock idle s).mon.badSpawn = false; simp only [rmSock_badSpawn]; exact h.badSpawn (by simpa using hc)
  · intro hc; show (rmSock idle s).mon.badRet = false; simp only [rmSock_badRet]; exact h.badRet (by simpa using hc)
  · exact rmSock_monHist idle s h.monHist
  · intro w' hw'
    show upd s.ws w .cleared w' = .unborn
    have hw'' : s.nextW ≤ w' := by simpa using hw'
    by_cases he : w' = w
    · subst he; have := h.freshI _ hw''; rw [hw] at this; cases this
    · simp only [upd, he, if_false]; exact h.freshI w' hw''

/-- worker start-up: `sock.bind(path)` — from now on the path names this worker -/
theorem inv_wBind (h : Inv idle s) (w : Wid) (hw : s.ws w = .cleared) :
    Inv idle (emit idle { s with ws := upd s.ws w .bound, sock := some w } (.bind w)) := by
  obtain ⟨t, g, hpc, honly, hsolo⟩ := h.waiter (w := w) (by rw [hw]; rfl)
  have noacc : s.clobbered = false → ∀ w', isAccepting (s.ws w') = false := by
    intro hc w'
    cases ha : isAccepting (s.ws w') with
    | false => rfl
    | true => have := honly hc w' ha; subst this; rw [hw] at ha; cases ha
  have hA : ∀ w', isAccepting (upd s.ws w .bound w') = isAccepting (s.ws w') := by
    intro w'; by_cases he : w' = w
    · subst he; simp [upd, hw, isAccepting]
    · simp [upd, he]
  obtain ⟨heldI, effI, accSock, boundSock, noAcc, startI, noAnn, aliveI, accI, pathI, decI, quietI, badSpawn, badRet, monHist, freshI⟩ := h
  constructor
  · exact heldI
  · exact effI
  · intro hc w' hw'
    simp only [emit_clobbered] at hc
    simp only [emit_ws] at hw'
    rw [hA, noacc hc w'] at hw'; cases hw'
  · intro hc w' hw'
    simp only [emit_ws, emit_sock] at hw' ⊢
    by_cases he : w' = w
    · subst he; rfl
    · simp only [upd, he, if_false] at hw'
      have := hsolo w' (by rw [hw']; rfl); exact absurd this he
  · intro hc t' _ w' hw'
    simp only [emit_clobbered] at hc
    simp only [emit_ws] at hw'
    rw [hA, noacc hc w'] at hw'; cases hw'
  · intro w' hw'
    simp only [emit_ws, emit_pc] at hw' ⊢
    by_cases he : w' = w
    · subst he; exact ⟨t, g, hpc⟩
    · simp only [upd, he, if_false] at hw'; exact startI w' hw'
  · intro w'
    simp only [emit_ws]
    by_cases he : w' = w
    · subst he; simp [upd]
    · simp only [upd, he, if_false]; exact noAnn w'
  · intro w'
    simp only [emit_mon, emit_ws, Spec.LMon.step]
    by_cases he : w' = w
    · subst he; have := aliveI w'; rw [hw] at this; simpa [upd, isAlive] using this
    · simp only [upd, he, if_false]; exact aliveI w'
  · intro w'; simp only [emit_mon, emit_ws, Spec.LMon.step]; rw [hA]; exact accI w'
  · simp [Spec.LMon.step]
  · intro hc t' t0 hg'
    simp only [emit_clobbered] at hc
    simp only [emit_pc, emit_now, emit_sock, emit_ws] at hg' ⊢
    obtain ⟨h1, h2⟩ := decI hc t' t0 hg'
    refine ⟨h1, fun hlt => ?_⟩
    obtain ⟨w', q', _, hw1, _⟩ := h2 hlt
    have := noacc hc w'; rw [hw1] at this; cases this
  · intro w' q' hw'
    simp only [emit_ws, emit_now] at hw' ⊢
    by_cases he : w' = w
    · subst he; simp [upd] at hw'
    · simp only [upd, he, if_false] at hw'; exact quietI w' q' hw'
  · intro hc; simpa [Spec.LMon.step] using badSpawn hc
  · intro hc; simpa [Spec.LMon.step] using badRet hc
  · simp only [emit_mon, emit_hist, lrun_snoc]; rw [← monHist]
  · intro w' hw'
    show upd s.ws w .bound w' = .unborn
    by_cases he : w' = w
    · subst he; have := freshI _ hw'; rw [hw] at this; cases this
    · simp only [upd, he, if_false]; exact freshI w' hw'

/-- worker start-up: `sock.listen()` before the announcement — the worker is accepting, its launcher is still waiting -/
theorem inv_wListen (h : Inv idle s) (w : Wid) (hw : s.ws w = .bound) :
    Inv idle (emit idle { s with ws := upd s.ws w .listening } (.ready w)) := by
  obtain ⟨t, g, hpc, honly, hsolo⟩ := h.waiter (w := w) (by rw [hw]; rfl)
  have hmut := @Inv.mutex idle s h
  obtain ⟨heldI, effI, accSock, boundSock, noAcc, startI, noAnn, aliveI, accI, pathI, decI, quietI, badSpawn, badRet, monHist, freshI⟩ := h
  constructor
  · exact heldI
  · exact effI
  · intro hc w' hw'
    simp only [emit_clobbered] at hc
    simp only [emit_ws, emit_sock] at hw' ⊢
    by_cases he : w' = w
    · subst he; exact boundSock hc _ hw
    · simp only [upd, he, if_false] at hw'; exact accSock hc w' hw'
  · intro hc w' hw'
    simp only [emit_clobbered] at hc
    simp only [emit_ws, emit_sock] at hw' ⊢
    by_cases he : w' = w
    · subst he; simp [upd] at hw'
    · simp only [upd, he, if_false] at hw'; exact boundSock hc w' hw'
  · intro hc t' hg' w' hw'
    simp only [emit_clobbered] at hc
    simp only [emit_ws, emit_pc] at hw' hg' ⊢
    by_cases he : w' = w
    · subst he
      obtain ⟨g', hg''⟩ := pastFailedProbe_effective hg'
      have : t' = t := hmut hg'' (by rw [hpc]; rfl)
      subst this; rw [hpc]; rfl
    · simp only [upd, he, if_false] at hw'; exact noAcc hc t' hg' w' hw'
  · intro w' hw'
    simp only [emit_ws, emit_pc] at hw' ⊢
    by_cases he : w' = w
    · subst he; exact ⟨t, g, hpc⟩
    · simp only [upd, he, if_false] at hw'; exact startI w' hw'
  · intro w'
    simp only [emit_ws]
    by_cases he : w' = w
    · subst he; simp [upd]
    · simp only [upd, he, if_false]; exact noAnn w'
  · intro w'
    simp only [emit_mon, emit_ws, Spec.LMon.step]
    by_cases he : w' = w
    · subst he; have := aliveI w'; rw [hw] at this; simpa [upd, isAlive] using this
    · simp only [upd, he, if_false]; exact aliveI w'
  · intro w'
    simp only [emit_mon, emit_ws, Spec.LMon.step, List.mem_cons]
    by_cases he : w' = w
    · subst he; simp [upd, isAccepting]
    · simp only [upd, he, if_false, false_or]; exact accI w'
  · simpa [Spec.LMon.step] using pathI
  · intro hc t' t0 hg'
    simp only [emit_clobbered] at hc
    simp only [emit_pc, emit_now, emit_sock, emit_ws] at hg' ⊢
    obtain ⟨h1, h2⟩ := decI hc t' t0 hg'
    refine ⟨h1, fun hlt => ?_⟩
    obtain ⟨w', q', hs1, hw1, hq1⟩ := h2 hlt
    have he : w' ≠ w := by intro e; subst e; rw [hw] at hw1; cases hw1
    exact ⟨w', q', hs1, by simp only [upd, he, if_false]; exact hw1, hq1⟩
  · intro w' q' hw'
    simp only [emit_ws, emit_now] at hw' ⊢
    by_cases he : w' = w
    · subst he; simp [upd] at hw'
    · simp only [upd, he, if_false] at hw'; exact quietI w' q' hw'
  · intro hc; simpa [Spec.LMon.step] using badSpawn hc
  · intro hc; simpa [Spec.LMon.step] using badRet hc
  · simp only [emit_mon, emit_hist, lrun_snoc]; rw [← monHist]
  · intro w' hw'
    show upd s.ws w .listening w' = .unborn
    by_cases he : w' = w
    · subst he; have := freshI _ hw'; rw [hw] at this; cases this
    · simp only [upd, he, if_false]; exact freshI w' hw'

/-- the exit-time `os.unlink(path)` of a worker whose identity check had succeeded: it removes whatever the path
names NOW; if that is another worker's socket the ghost flag `clobbered` is raised -/
theorem inv_wUnlink (h : Inv idle s) (w : Wid) (hw : s.ws w = .checked true) :
    Inv idle { rmSock idle s with ws := upd s.ws w .gone, clobbered := s.clobbered || clobbers s w } := by
  obtain ⟨heldI, effI, accSock, boundSock, noAcc, startI, noAnn, aliveI, accI, pathI, decI, quietI, badSpawn, badRet, monHist, freshI⟩ := h
  have hsame : ∀ w', upd s.ws w .gone w' = s.ws w' ∨ (w' = w ∧ upd s.ws w .gone w' = .gone) := by
    intro w'
    by_cases he : w' = w
    · right; subst he; exact ⟨rfl, by simp [upd]⟩
    · left; simp [upd, he]
  have hA : ∀ w', isAccepting (upd s.ws w .gone w') = isAccepting (s.ws w') := by
    intro w'; rcases hsame w' with h1 | ⟨h1, h2⟩
    · rw [h1]
    · rw [h2, h1, hw]; rfl
  have hL : ∀ w', isAlive (upd s.ws w .gone w') = isAlive (s.ws w') := by
    intro w'; rcases hsame w' with h1 | ⟨h1, h2⟩
    · rw [h1]
    · rw [h2, h1, hw]; rfl
  -- when the flag stays down, the path named this very worker (or nothing), hence nobody is accepting or bound
  have key : (s.clobbered || clobbers s w) = false → s.clobbered = false ∧ (s.sock = some w ∨ s.sock = none) := by
    intro hc
    simp only [Bool.or_eq_false_iff] at hc
    refine ⟨hc.1, ?_⟩
    cases hs : s.sock with
    | none => right; rfl
    | some w' =>
      left
      have := hc.2; unfold clobbers at this; rw [hs] at this
      simp only [bne_eq_false_iff_eq] at this
      rw [this]
  have noacc : s.clobbered = false → (s.sock = some w ∨ s.sock = none) → ∀ w', isAccepting (s.ws w') = false := by
    intro hc hs w'
    cases ha : isAccepting (s.ws w') with
    | false => rfl
    | true =>
      have h1 := accSock hc w' ha
      rcases hs with hs | hs
      · rw [hs] at h1; cases h1; rw [hw] at ha; cases ha
      · rw [hs] at h1; cases h1
  constructor
  · intro t g hg
    show (rmSock idle s).held g = some t
    have hg' : holdsGen ((rmSock idle s).pc t) = some g := hg
    simp only [rmSock_held, rmSock_pc] at hg' ⊢; exact heldI t g hg'
  · intro t g hg
    show g = (rmSock idle s).lockGen
    have hg' : effective ((rmSock idle s).pc t) = some g := hg
    simp only [rmSock_lockGen, rmSock_pc] at hg' ⊢; exact effI t g hg'
  · intro hc w' hw'
    obtain ⟨hc0, hs⟩ := key hc
    have hw'' : isAccepting (upd s.ws w .gone w') = true := hw'
    rw [hA, noacc hc0 hs w'] at hw''; cases hw''
  · intro hc w' hw'
    obtain ⟨hc0, hs⟩ := key hc
    have hw'' : upd s.ws w .gone w' = .bound := hw'
    rcases hsame w' with h1 | ⟨_, h2⟩
    · rw [h1] at hw''
      have h3 := boundSock hc0 w' hw''
      rcases hs with hs | hs
      · rw [hs] at h3; cases h3; rw [hw] at hw''; cases hw''
      · rw [hs] at h3; cases h3
    · rw [h2] at hw''; cases hw''
  · intro hc t _ w' hw'
    obtain ⟨hc0, hs⟩ := key hc
    have hw'' : isAccepting (upd s.ws w .gone w') = true := hw'
    rw [hA, noacc hc0 hs w'] at hw''; cases hw''
  · intro w' hw'
    have hw'' : inStartup (upd s.ws w .gone w') = true := hw'
    show ∃ t g, (rmSock idle s).pc t = .waiting g w'
    simp only [rmSock_pc]
    rcases hsame w' with h1 | ⟨_, h2⟩
    · rw [h1] at hw''; exact startI w' hw''
    · rw [h2] at hw''; cases hw''
  · intro w'
    show upd s.ws w .gone w' ≠ .announced
    rcases hsame w' with h1 | ⟨_, h2⟩
    · rw [h1]; exact noAnn w'
    · rw [h2]; simp
  · intro w'
    show w' ∈ (rmSock idle s).mon.alive ↔ isAlive (upd s.ws w .gone w') = true
    simp only [rmSock_alive]; rw [hL]; exact aliveI w'
  · intro w'
    show w' ∈ (rmSock idle s).mon.acc ↔ isAccepting (upd s.ws w .gone w') = true
    simp only [rmSock_acc]; rw [hA]; exact accI w'
  · show (rmSock idle s).mon.path = (rmSock idle s).sock
    simp only [rmSock_sock]; exact rmSock_path idle s pathI
  · intro hc t t0 hg
    obtain ⟨hc0, hs⟩ := key hc
    have hg' : decidedAt ((rmSock idle s).pc t) = some t0 := hg
    simp only [rmSock_pc] at hg'
    show t0 ≤ (rmSock idle s).now ∧ ((rmSock idle s).now < t0 + idle →
      ∃ w' q, (rmSock idle s).sock = some w' ∧ upd s.ws w .gone w' = .accepting q ∧ t0 ≤ q)
    simp only [rmSock_now, rmSock_sock]
    obtain ⟨h1, h2⟩ := decI hc0 t t0 hg'
    refine ⟨h1, fun hlt => ?_⟩
    obtain ⟨w', q', _, hw1, _⟩ := h2 hlt
    have := noacc hc0 hs w'
    rw [hw1] at this; cases this
  · intro w' q' hw'
    have hw'' : upd s.ws w .gone w' = .accepting q' := hw'
    show q' ≤ (rmSock idle s).now
    simp only [rmSock_now]
    rcases hsame w' with h1 | ⟨_, h2⟩
    · rw [h1] at hw''; exact quietI w' q' hw''
    · rw [h2] at hw''; cases hw''
  · intro hc
    show (rmSock idle s).mon.badSpawn = false
    simp only [rmSock_badSpawn]; exact badSpawn (key hc).1
  · intro hc
    show (rmSock idle s).mon.badRet = false
    simp only [rmSock_badRet]; exact badRet (key hc).1
  · exact rmSock_monHist idle s monHist
  · intro w' hw'
    show upd s.ws w .gone w' = .unborn
    have hw'' : s.nextW ≤ w' := by simpa using hw'
    rcases hsame w' with h1 | ⟨h1, _⟩
    · rw [h1]; exact freshI w' hw''
    · subst h1; have := freshI _ hw''; rw [hw] at this; cases this

end steps

/-! ### the invariant holds in every reachable state -/

theorem inv_step {sh : LShape} (hn : sh.nlinkCheck = true) (hl : sh.listenFirst = true) (hk : sh.lockBySocket = true)
    (idle : Nat)
    (s : St) (l : Label) (s' : St) (h : Inv idle s) (hst : step sh idle s l = some s') : Inv idle s' := by
  cases l with
  | tick d => simp only [step, Option.some.injEq] at hst; subst hst; exact inv_tick h d
  | begin t r =>
    simp only [step] at hst
    split at hst
    next hpc =>
      cases hst
      exact inv_pc h t _ s.hasMeta (by intro g hg; cases hg) (by intro g hg; cases hg) (by intro hg; cases hg)
        (by rw [hpc]; rfl) (by intro t0 hg; cases hg)
    next => cases hst
  | lockOpen t =>
    simp only [step] at hst
    split at hst
    next r hpc =>
      cases hst
      exact inv_pc h t _ s.hasMeta (by intro g hg; cases hg) (by intro g hg; cases hg) (by intro hg; cases hg)
        (by rw [hpc]; rfl) (by intro t0 hg; cases hg)
    next => cases hst
  | lockFlock t ok =>
    simp only [step, hk, Bool.true_eq_false, or_false] at hst
    split at hst
    next r g hpc =>
      split at hst
      · split at hst
        next hfree => cases hst; exact inv_flock h t r g hpc hfree
        next => cases hst
      · split at hst
        · cases hst
        · cases hst
          cases r <;>
          exact inv_pc h t _ s.hasMeta (by intro g hg; cases hg) (by intro g hg; cases hg) (by intro hg; cases hg)
            (by rw [hpc]; rfl) (by intro t0 hg; cases hg)
    next => cases hst
  | lockVerify t ok =>
    simp only [step] at hst
    split at hst
    next r g hpc =>
      split at hst
      next hok =>
        split at hst
        next hk =>
          cases hst
          rw [hk, hn] at hok
          simp only [Bool.not_true, Bool.false_or, true_eq_decide_iff] at hok
          exact inv_verify h t r g hpc hok
        next =>
          cases hst
          cases r <;>
          exact inv_unlock h t g _ (by rw [hpc]; rfl) rfl rfl rfl (by rw [hpc]; rfl) (by intro t0 hg; cases hg)
      next => cases hst
    next => cases hst
  | lockTimeout t =>
    simp only [step] at hst
    split at hst
    next hpc =>
      cases hst
      exact inv_pc h t _ s.hasMeta (by intro g hg; cases hg) (by intro g hg; cases hg) (by intro hg; cases hg)
        (by rw [hpc]; rfl) (by intro t0 hg; cases hg)
    next => cases hst
  | probe t ok =>
    simp only [step] at hst
    split at hst
    next r g hpc =>
      split at hst
      next hok =>
        split at hst
        next hk =>
          cases hst
          rw [hk] at hok
          cases r
          · exact inv_probeOk h t _ g hpc hok.symm _ rfl (by intro g' hg; cases hg; rfl) rfl
              (by intro t0 hg; cases hg; rfl)
          · exact inv_probeOk h t _ g hpc hok.symm _ rfl (by intro g' hg; cases hg) rfl
              (by intro t0 hg; cases hg)
        next hk =>
          cases hst
          have hk' : ok = false := by simpa using hk
          rw [hk'] at hok
          cases r
          · exact inv_probeFail h t _ g hpc hok.symm _ rfl rfl rfl
          · exact inv_probeFail h t _ g hpc hok.symm _ rfl rfl rfl
      next => cases hst
    next => cases hst
  | unlinkStale t ok =>
    simp only [step] at hst
    split at hst
    next g hpc =>
      split at hst
      · cases hst
        exact inv_rmSock h t (.metaW g) (by rw [hpc]; rfl) (by rw [hpc]; rfl) (by intro g' hg; rw [hpc]; exact hg)
          (by intro g' hg; rw [hpc]; exact hg) rfl
      · split at hst
        · cases hst
          exact inv_pc h t _ s.hasMeta (by intro g' hg; rw [hpc]; exact hg) (by intro g' hg; rw [hpc]; exact hg)
            (by intro hg; cases hg) (by rw [hpc]; rfl) (by intro t0 hg; cases hg)
        · cases hst
    next => cases hst
  | writeMeta t =>
    simp only [step] at hst
    split at hst
    next g hpc =>
      cases hst
      exact inv_pc h t _ true (by intro g' hg; rw [hpc]; exact hg) (by intro g' hg; rw [hpc]; exact hg)
        (by intro _; rw [hpc]; rfl) (by rw [hpc]; rfl) (by intro t0 hg; cases hg)
    next => cases hst
  | spawn t w =>
    simp only [step] at hst
    split at hst
    next g hpc =>
      split at hst
      next hw => cases hst; subst hw; exact inv_spawn h t g hpc
      next => cases hst
    next => cases hst
  | spawnReady t =>
    simp only [step] at hst
    split at hst
    next g w hpc =>
      split at hst
      next q hw =>
        cases hst
        exact inv_leaveWait h t g w hpc _ (by rw [hw]; rfl) rfl rfl rfl (by intro t0 hg; cases hg; exact hw)
      next hw => exact absurd hw (h.noAnn w)
      next => cases hst
    next => cases hst
  | spawnFail t =>
    simp only [step] at hst
    split at hst
    next g hpc =>
      cases hst
      exact inv_pc h t _ s.hasMeta (by intro g' hg; rw [hpc]; exact hg) (by intro g' hg; rw [hpc]; exact hg)
        (by intro hg; cases hg) (by rw [hpc]; rfl) (by intro t0 hg; cases hg)
    next g w hpc =>
      split at hst
      next hw =>
        cases hst
        exact inv_leaveWait h t g w hpc _ (by rw [hw]; rfl) rfl rfl rfl (by intro t0 hg; cases hg)
      next => cases hst
    next => cases hst
  | release t =>
    simp only [step] at hst
    split at hst
    next g t0 hpc =>
      cases hst
      exact inv_unlock h t g _ (by rw [hpc]; rfl) rfl rfl rfl (by rw [hpc]; rfl) (by intro t1 hg; rw [hpc]; exact hg)
    next g hpc =>
      cases hst
      exact inv_unlock h t g _ (by rw [hpc]; rfl) rfl rfl rfl (by rw [hpc]; rfl) (by intro t1 hg; cases hg)
    next g hpc =>
      cases hst
      exact inv_unlock h t g _ (by rw [hpc]; rfl) rfl rfl rfl (by rw [hpc]; rfl) (by intro t1 hg; cases hg)
    next => cases hst
  | ret t =>
    simp only [step] at hst
    split at hst
    next t0 hpc => cases hst; exact inv_ret h t t0 hpc
    next => cases hst
  | raised t =>
    simp only [step] at hst
    split at hst
    next hpc =>
      cases hst
      exact inv_pc h t _ s.hasMeta (by intro g hg; cases hg) (by intro g hg; cases hg) (by intro hg; cases hg)
        (by rw [hpc]; rfl) (by intro t0 hg; cases hg)
    next => cases hst
  | gcUnlinkSock t =>
    simp only [step] at hst
    split at hst
    next g hpc =>
      cases hst
      exact inv_rmSock h t (.gUnlinkMeta g) (by rw [hpc]; rfl) (by rw [hpc]; rfl) (by intro g' hg; rw [hpc]; exact hg)
        (by intro g' hg; rw [hpc]; exact hg) rfl
    next => cases hst
  | gcUnlinkMeta t =>
    simp only [step] at hst
    split at hst
    next g hpc =>
      cases hst
      exact inv_pc h t _ false (by intro g' hg; rw [hpc]; exact hg) (by intro g' hg; rw [hpc]; exact hg)
        (by intro hg; cases hg) (by rw [hpc]; rfl) (by intro t0 hg; cases hg)
    next => cases hst
  | gcUnlinkLock t =>
    simp only [step] at hst
    split at hst
    next g hpc => cases hst; exact inv_gcUnlinkLock h t g hpc
    next => cases hst
  | wCheck w ok =>
    simp only [step] at hst
    split at hst
    next hw =>
      split at hst
      · split at hst
        · cases hst
          exact inv_wMove h w _ (by rw [hw]; rfl) (by rw [hw]; rfl) (by intro _; rw [hw]; rfl) (by intro hb; cases hb)
            (by simp) (by rw [hw]; simp) (by intro q hq; cases hq) (by intro q0 hq; rw [hw] at hq; cases hq)
        · cases hst; exact inv_wGone h w _ rfl (Or.inr (Or.inl hw))
      · cases hst
    next => cases hst
  | wClear w =>
    simp only [step] at hst
    split at hst
    next hw => cases hst; exact inv_wClear h w hw
    next => cases hst
  | wBind w =>
    simp only [step] at hst
    split at hst
    next hw =>
      split at hst
      · cases hst; exact inv_wBind h w hw
      · cases hst
    next => cases hst
  | wListen w =>
    simp only [step, hl] at hst
    split at hst
    next hw => simp only [if_true] at hst; cases hst; exact inv_wListen h w hw
    next hw => exact absurd hw (h.noAnn w)
    next => cases hst
  | wLost w =>
    simp only [step] at hst
    split at hst
    next hw =>
      split at hst
      · cases hst; exact inv_wGone h w _ rfl (Or.inr (Or.inr (Or.inl hw)))
      · cases hst
    next hw =>
      split at hst
      · cases hst
      · cases hst; exact inv_wGone h w _ rfl (Or.inr (Or.inr (Or.inr hw)))
    next => cases hst
  | wAnnounce w =>
    simp only [step, hl] at hst
    split at hst
    next hw =>
      cases hst
      exact inv_wMove h w _ (by rw [hw]; rfl) (by rw [hw]; rfl) (by intro hb; cases hb) (by intro hb; cases hb)
        (by simp) (by rw [hw]; simp)
        (by intro q hq; cases hq; exact ⟨Nat.le_refl _, by intro q0 hq0; rw [hw] at hq0; cases hq0⟩)
        (by intro q0 hq; rw [hw] at hq; cases hq)
    next hw => simp at hst
    next => cases hst
  | wExit w =>
    simp only [step] at hst
    split at hst
    next q hw =>
      split at hst
      next hq => cases hst; exact inv_wGone h w _ rfl (Or.inl ⟨q, hw, hq⟩)
      next => cases hst
    next => cases hst
  | wStat w =>
    simp only [step] at hst
    split at hst
    next hw =>
      cases hst
      exact inv_wMove h w _ (by rw [hw]; rfl) (by rw [hw]; rfl) (by intro hb; cases hb) (by intro hb; cases hb)
        (by simp) (by rw [hw]; simp) (by intro q hq; cases hq) (by intro q0 hq; rw [hw] at hq; cases hq)
    next => cases hst
  | wUnlink w =>
    simp only [step] at hst
    split at hst
    next own hw =>
      split at hst
      next ho => cases hst; subst ho; exact inv_wUnlink h w hw
      next =>
        cases hst
        exact inv_wMove h w _ (by rw [hw]; rfl) (by rw [hw]; rfl) (by intro hb; cases hb) (by intro hb; cases hb)
          (by simp) (by rw [hw]; simp) (by intro q hq; cases hq) (by intro q0 hq; rw [hw] at hq; cases hq)
    next => cases hst
  | vars sk m g =>
    simp only [step] at hst
    split at hst
    · cases hst; exact h
    · cases hst

theorem inv_reachable {sh : LShape} (hn : sh.nlinkCheck = true) (hl : sh.listenFirst = true) (hk : sh.lockBySocket = true)
    (idle : Nat) : ∀ s, (ts sh idle).Reachable s → Inv idle s :=
  TS.invariant_of_step (ts sh idle) (Inv idle) (inv_init idle) (fun s l s' hi hst => inv_step hn hl hk idle s l s' hi hst)

end Launch
end VgiVerif.C33
