import VgiVerif.Lemmas.C02
/-
C02 helper lemmas, part 2 (namespace `Aux`): rejection of values the declared type cannot represent; stability of `norm`
under the environment laws (what the second hop of an echo needs).
-/
namespace VgiVerif.C02
open VgiVerif.Py

namespace Aux

theorem mapM_error {α β : Type} {f : α → R β} :
    ∀ (xs : List α), (∃ x ∈ xs, ∃ e, f x = .error e) → ∃ e, xs.mapM f = .error e
  | [], h => by obtain ⟨x, hx, _⟩ := h; simp at hx
  | y :: ys, h => by
    cases hy : f y with
    | error e => exact ⟨e, by simp [List.mapM_cons, hy, bind, Except.bind]⟩
    | ok b =>
      obtain ⟨x, hx, e, he⟩ := h
      have : ∃ x ∈ ys, ∃ e, f x = .error e := by
        rcases List.mem_cons.1 hx with rfl | hx'
        · rw [hy] at he; cases he
        · exact ⟨x, hx', e, he⟩
      obtain ⟨e', he'⟩ := mapM_error ys this
      exact ⟨e', by simp [List.mapM_cons, hy, he', bind, Except.bind]⟩

theorem all_false {α : Type} {p : α → Bool} {xs : List α} (h : xs.all p = false) : ∃ x ∈ xs, p x = false := by
  induction xs with
  | nil => simp at h
  | cons y ys ih =>
    simp only [List.all_cons, Bool.and_eq_false_iff] at h
    rcases h with h | h
    · exact ⟨y, List.mem_cons_self, h⟩
    · obtain ⟨x, hx, hp⟩ := ih h
      exact ⟨x, List.mem_cons_of_mem _ hx, hp⟩

/-- a scalar element the column cannot hold makes the typed-array construction fail -/
theorem plainReject (env : Env) : ∀ (t : Ty) (v : V), plain t = true → wellTyped env t v = true →
    inhabits env t v = false → lossless env t v → ∃ e, arrowRT env (infer t) v = .error e
  | .int w, v, _, hw, hi, _ => by
    cases v <;> simp_all [wellTyped, inhabits, infer, arrowRT]
  | .f64, v, _, hw, hi, _ => by cases v <;> simp_all [wellTyped, inhabits]
  | .f32, v, _, hw, hi, _ => by cases v <;> simp_all [wellTyped, inhabits]
  | .str, v, _, hw, hi, _ => by cases v <;> simp_all [wellTyped, inhabits]
  | .bytes, v, _, hw, hi, _ => by cases v <;> simp_all [wellTyped, inhabits]
  | .bool, v, _, hw, hi, _ => by cases v <;> simp_all [wellTyped, inhabits]
  | .native k p s, v, _, hw, hi, hl => by
    cases v with
    | native k' a b =>
      simp only [wellTyped, beq_iff_eq] at hw
      subst hw
      cases hn : env.native k p s a b with
      | none => exact ⟨.valueError, by simp [infer, arrowRT, hn]⟩
      | some r =>
        obtain ⟨a', b'⟩ := r
        have := (by simpa [lossless] using hl : ∀ a' b', env.native k p s a b = some (a', b') → nativeSame k a b a' b' = true) a' b' hn
        simp [inhabits, hn, this] at hi
    | _ => simp_all [wellTyped]
  | .opt t, v, hp, hw, hi, hl => by
    cases v with
    | none => simp [inhabits] at hi
    | _ =>
      all_goals
        have hp' : plain t = true := by simp_all [plain]
        simp only [wellTyped, inhabits] at hw hi
        simpa [infer] using plainReject env t _ hp' hw hi (by simpa [lossless] using hl)
  | .list t, v, hp, hw, hi, hl => by
    cases v with
    | list xs =>
      have hp' : plain t = true := by simpa [plain] using hp
      simp only [wellTyped, List.all_eq_true] at hw
      simp only [inhabits] at hi
      obtain ⟨x, hx, hxi⟩ := all_false hi
      obtain ⟨e, he⟩ := plainReject env t x hp' (hw x hx) hxi ((by simpa [lossless] using hl : ∀ x ∈ xs, lossless env t x) x hx)
      obtain ⟨e', he'⟩ := mapM_error (f := arrowRT env (infer t)) xs ⟨x, hx, e, he⟩
      exact ⟨e', by simp [infer, arrowRT, he', bind, Except.bind]⟩
    | _ => simp_all [wellTyped]
  | .enum _, _, hp, _, _, _ => by simp [plain] at hp
  | .set _, _, hp, _, _, _ => by simp [plain] at hp
  | .map _ _, _, hp, _, _, _ => by simp [plain] at hp
  | .dc _ _, _, hp, _, _, _ => by simp [plain] at hp

theorem trip_error_of_arrow (env : Env) (aty : ATy) (t : Ty) (v w : V) (e : Err) (hv : v ≠ .none)
    (hc : convertForArrow env t v = .ok w) (ha : arrowRT env aty w = .error e) : ∃ e', trip env aty t v = .error e' := by
  cases v with
  | none => exact absurd rfl hv
  | _ => exact ⟨e, by simp [trip, hc, ha, bind, Except.bind]⟩

theorem mapEntry_error {fk fv : V → R V} {a b : V} (hne : a ≠ .none)
    (h : (∃ e, fk a = .error e) ∨ (∃ e, fv b = .error e)) : ∃ e, mapEntry fk fv (.tuple [a, b]) = .error e := by
  have key : ∃ e, (do let a' ← fk a; let b' ← fv b; pure (V.tuple [a', b']) : R V) = .error e := by
    cases h1 : fk a with
    | error e => exact ⟨e, by simp [bind, Except.bind]⟩
    | ok a' =>
      rcases h with ⟨e, he⟩ | ⟨e, he⟩
      · rw [h1] at he; cases he
      · exact ⟨e, by simp [he, bind, Except.bind]⟩
  unfold mapEntry
  cases a <;> simp_all

/-- one hop of a value the declared type cannot represent fails (Optional already unwrapped) -/
theorem hop_reject (env : Env) (u : Ty) (v : V) (aty : ATy) (t : Ty) (ho : isOpt u = false) (hs : supported u = true)
    (hw : wellTyped env u v = true) (hi : inhabits env u v = false) (hl : lossless env u v)
    (haty : aty = arrowTop u) (hconv : convertForArrow env t v = convertForArrow env u v) :
    ∃ e, trip env aty t v = .error e := by
  subst haty
  have leaf : ∀ (hp : plain u = true) (hc : convertForArrow env u v = .ok v) (hat : arrowTop u = infer u) (hv : v ≠ .none),
      ∃ e, trip env (arrowTop u) t v = .error e := by
    intro hp hc hat hv
    obtain ⟨e, he⟩ := plainReject env u v hp hw hi hl
    exact trip_error_of_arrow env _ t v v e hv (hconv.trans hc) (hat ▸ he)
  cases u with
  | opt _ => simp [isOpt] at ho
  | int w =>
    cases v with
    | int i => exact leaf rfl (by simp [convertForArrow]) (by simp [arrowTop, unopt]) (by simp)
    | _ => simp [wellTyped] at hw
  | f64 => cases v <;> simp_all [wellTyped, inhabits]
  | f32 => cases v <;> simp_all [wellTyped, inhabits]
  | str => cases v <;> simp_all [wellTyped, inhabits]
  | bytes => cases v <;> simp_all [wellTyped, inhabits]
  | bool => cases v <;> simp_all [wellTyped, inhabits]
  | enum names => cases v <;> simp_all [wellTyped, inhabits]
  | dc n fs => cases v <;> simp_all [wellTyped, inhabits]
  | native k p s =>
    cases v with
    | native k' a b => exact leaf rfl (by simp [convertForArrow]) (by simp [arrowTop, unopt]) (by simp)
    | _ => simp [wellTyped] at hw
  | list a =>
    have hp : plain (.list a) = true := by simpa [supported, plain] using hs
    cases v with
    | list xs => exact leaf hp (by simp [convertForArrow]) (by simp [arrowTop, unopt]) (by simp)
    | _ => simp [wellTyped] at hw
  | set a =>
    have hp : plain (.list a) = true := by simpa [supported, plain] using hs
    cases v with
    | set xs =>
      have hw' : wellTyped env (.list a) (.list xs) = true := by
        simp only [wellTyped, Bool.and_eq_true] at hw ⊢; exact hw.1
      have hi' : inhabits env (.list a) (.list xs) = false := by
        simp only [wellTyped, Bool.and_eq_true] at hw
        simp only [inhabits, hw.2, Bool.and_true] at hi ⊢; exact hi
      obtain ⟨e, he⟩ := plainReject env (.list a) (.list xs) hp hw' hi' (by simpa [lossless] using hl)
      exact trip_error_of_arrow env _ t (.set xs) (.list xs) e (by simp) (hconv.trans (by simp [convertForArrow]))
        (by simpa [arrowTop, unopt, infer] using he)
    | _ => simp_all [wellTyped]
  | map k w =>
    have hpk : plain k = true ∧ plain w = true := by simpa [supported] using hs
    cases v with
    | dict kvs =>
      simp only [wellTyped, Bool.and_eq_true, List.all_eq_true] at hw
      simp only [inhabits, hw.2, Bool.and_true] at hi
      obtain ⟨p, hp, hpi⟩ := all_false hi
      have hwp := hw.1 p hp
      have hne : p.1 ≠ .none := notNone_ne hwp.2
      have hbad : (∃ e, arrowRT env (infer k) p.1 = .error e) ∨ (∃ e, arrowRT env (infer w) p.2 = .error e) := by
        simp only [hwp.2, Bool.and_true, Bool.and_eq_false_iff] at hpi
        rcases hpi with h1 | h2
        · exact Or.inl (plainReject env k p.1 hpk.1 hwp.1.1 h1 ((by simpa [lossless] using hl : ∀ p ∈ kvs, lossless env k p.1 ∧ lossless env w p.2) p hp).1)
        · exact Or.inr (plainReject env w p.2 hpk.2 hwp.1.2 h2 ((by simpa [lossless] using hl : ∀ p ∈ kvs, lossless env k p.1 ∧ lossless env w p.2) p hp).2)
      obtain ⟨e, he⟩ := mapEntry_error (fk := arrowRT env (infer k)) (fv := arrowRT env (infer w)) hne hbad
      obtain ⟨e', he'⟩ := mapM_error (f := mapEntry (arrowRT env (infer k)) (arrowRT env (infer w)))
        (kvs.map (fun p => V.tuple [p.1, p.2])) ⟨_, List.mem_map_of_mem hp, e, he⟩
      exact trip_error_of_arrow env _ t (.dict kvs) (.list (kvs.map (fun p => V.tuple [p.1, p.2]))) e' (by simp)
        (hconv.trans (by simp [convertForArrow])) (by simp [arrowTop, unopt, infer, arrowRT, he', bind, Except.bind])
    | _ => simp_all [wellTyped]

theorem sendParam_reject (env : Env) (t : Ty) (v : V) (hs : supported t = true) (hw : wellTyped env t v = true)
    (hi : inhabits env t v = false) (hl : lossless env t v) : ∃ e, sendParam env t v = .error e := by
  unfold sendParam
  cases t with
  | opt u =>
    have hu : isOpt u = false ∧ supported u = true := by
      simp only [supported, Bool.and_eq_true, Bool.not_eq_true'] at hs; exact ⟨hs.2, hs.1⟩
    cases v with
    | none => simp [inhabits] at hi
    | _ =>
      all_goals
        simp only [wellTyped, inhabits] at hw hi
        refine hop_reject env u _ _ (.opt u) hu.1 hu.2 hw hi (by simpa [lossless] using hl) ?_ (convert_opt env u _)
        cases u <;> simp_all [arrowTop, unopt, isOpt]
  | _ => all_goals exact hop_reject env _ v _ _ (by simp [isOpt]) hs hw hi hl rfl rfl

end Aux
end VgiVerif.C02
