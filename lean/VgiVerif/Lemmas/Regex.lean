import VgiVerif.Prelude.Regex
/-
Correctness of the derivative matcher w.r.t. the denotational semantics, plus the generic
per-shape lemmas used by pattern specifications.
-/
namespace VgiVerif.Regex
open Re

theorem isNone_iff (a : Re) : a.isNone = true ↔ a = .none := by
  cases a <;> simp [Re.isNone]

theorem lang_mkSeq (a b : Re) (s : List Char) : Lang (mkSeq a b) s ↔ Lang (.seq a b) s := by
  unfold mkSeq
  split
  · rename_i h
    rw [isNone_iff] at h
    subst h
    simp [Lang]
  · exact Iff.rfl

theorem lang_mkAlt (a b : Re) (s : List Char) : Lang (mkAlt a b) s ↔ Lang (.alt a b) s := by
  unfold mkAlt
  split
  · rename_i h
    rw [isNone_iff] at h
    subst h
    simp [Lang]
  · split
    · rename_i h
      rw [isNone_iff] at h
      subst h
      simp [Lang]
    · exact Iff.rfl

theorem star_nil_iff (L : List Char → Prop) : Star L [] := Star.nil

theorem star_cons_iff (L : List Char → Prop) (ch : Char) (s : List Char) :
    Star L (ch :: s) ↔ ∃ s1 s2, s = s1 ++ s2 ∧ L (ch :: s1) ∧ Star L s2 := by
  constructor
  · intro h
    generalize hx : ch :: s = x at h
    cases h with
    | nil => cases hx
    | @cons s1 s2 h1 hne h2 =>
      cases s1 with
      | nil => exact absurd rfl hne
      | cons c t =>
        simp at hx
        obtain ⟨rfl, rfl⟩ := hx
        exact ⟨t, s2, rfl, h1, h2⟩
  · rintro ⟨s1, s2, rfl, h1, h2⟩
    have := Star.cons (L := L) h1 (by simp) h2
    simpa using this

theorem nullable_iff (r : Re) : r.nullable = true ↔ Lang r [] := by
  induction r with
  | none => simp [nullable, Lang]
  | eps => simp [nullable, Lang]
  | cls c => simp [nullable, Lang]
  | seq a b iha ihb =>
    simp only [nullable, Lang, Bool.and_eq_true, iha, ihb]
    constructor
    · rintro ⟨h1, h2⟩; exact ⟨[], [], rfl, h1, h2⟩
    · rintro ⟨s1, s2, h, h1, h2⟩
      have : s1 = [] ∧ s2 = [] := by simpa using h.symm
      obtain ⟨rfl, rfl⟩ := this
      exact ⟨h1, h2⟩
  | alt a b iha ihb => simp only [nullable, Lang, Bool.or_eq_true, iha, ihb]
  | star a _ => simp only [nullable, Lang, true_iff]; exact Star.nil
  | rep c lo hi => simp [nullable, Lang]

theorem deriv_iff (ch : Char) (r : Re) : ∀ s, Lang (r.deriv ch) s ↔ Lang r (ch :: s) := by
  induction r with
  | none => intro s; simp [deriv, Lang]
  | eps => intro s; simp [deriv, Lang]
  | cls c =>
    intro s
    simp only [deriv]
    split
    · rename_i h
      simp only [Lang]
      constructor
      · rintro rfl; exact ⟨ch, rfl, h⟩
      · rintro ⟨c', h1, _⟩; simp at h1; exact h1.2
    · rename_i h
      simp only [Lang, false_iff]
      rintro ⟨c', h1, h2⟩
      simp at h1
      obtain ⟨rfl, _⟩ := h1
      exact h h2
  | seq a b iha ihb =>
    intro s
    have key : Lang (.seq (a.deriv ch) b) s ↔
        ∃ s1 s2, ch :: s = s1 ++ s2 ∧ s1 ≠ [] ∧ Lang a s1 ∧ Lang b s2 := by
      simp only [Lang]
      constructor
      · rintro ⟨s1, s2, rfl, h1, h2⟩
        exact ⟨ch :: s1, s2, rfl, by simp, (iha s1).1 h1, h2⟩
      · rintro ⟨s1, s2, h, hne, h1, h2⟩
        cases s1 with
        | nil => exact absurd rfl hne
        | cons c t =>
          simp at h
          obtain ⟨rfl, rfl⟩ := h
          exact ⟨t, s2, rfl, (iha t).2 h1, h2⟩
    simp only [deriv]
    split
    · rename_i hn
      rw [lang_mkAlt]
      simp only [Lang]
      rw [← Lang, lang_mkSeq, key, ihb]
      constructor
      · rintro (⟨s1, s2, h, _, h1, h2⟩ | h)
        · exact ⟨s1, s2, h, h1, h2⟩
        · exact ⟨[], ch :: s, rfl, (nullable_iff a).1 hn, h⟩
      · rintro ⟨s1, s2, h, h1, h2⟩
        cases s1 with
        | nil => right; simp at h; subst h; exact h2
        | cons c t => left; exact ⟨c :: t, s2, h, by simp, h1, h2⟩
    · rename_i hn
      rw [lang_mkSeq, key]
      simp only [Lang]
      constructor
      · rintro ⟨s1, s2, h, _, h1, h2⟩; exact ⟨s1, s2, h, h1, h2⟩
      · rintro ⟨s1, s2, h, h1, h2⟩
        cases s1 with
        | nil => exact absurd ((nullable_iff a).2 h1) hn
        | cons c t => exact ⟨c :: t, s2, h, by simp, h1, h2⟩
  | alt a b iha ihb =>
    intro s
    simp only [deriv]
    rw [lang_mkAlt]
    simp only [Lang, iha, ihb]
  | star a iha =>
    intro s
    simp only [deriv]
    rw [lang_mkSeq]
    simp only [Lang]
    rw [star_cons_iff]
    constructor
    · rintro ⟨s1, s2, rfl, h1, h2⟩; exact ⟨s1, s2, rfl, (iha s1).1 h1, h2⟩
    · rintro ⟨s1, s2, rfl, h1, h2⟩; exact ⟨s1, s2, rfl, (iha s1).2 h1, h2⟩
  | rep c lo hi =>
    intro s
    simp only [deriv]
    split
    · rename_i h
      simp only [Lang, false_iff]
      rintro ⟨_, h2, h3⟩
      simp only [Bool.or_eq_true, decide_eq_true_eq, Bool.not_eq_true'] at h
      rcases h with h | h
      · subst h; simp at h2
      · have := h3 ch (by simp); simp [this] at h
    · rename_i h
      simp only [Bool.or_eq_true, decide_eq_true_eq, Bool.not_eq_true', not_or,
        Bool.not_eq_false] at h
      simp only [Lang, List.length_cons, List.mem_cons, forall_eq_or_imp]
      constructor
      · rintro ⟨h1, h2, h3⟩; exact ⟨by omega, by omega, h.2, h3⟩
      · rintro ⟨h1, h2, _, h3⟩; exact ⟨by omega, by omega, h3⟩

theorem matches_iff (r : Re) (s : List Char) : r.matches s = true ↔ Lang r s := by
  induction s generalizing r with
  | nil => simp only [Re.matches]; exact nullable_iff r
  | cons ch s ih => simp only [Re.matches]; rw [ih, deriv_iff]

/-! ### Shape lemmas -/

theorem mem_single (c ch : Char) : Cls.mem ⟨false, [(c.toNat, c.toNat)]⟩ ch = true ↔ ch = c := by
  simp only [Cls.mem, List.any_cons, List.any_nil, Bool.or_false]
  constructor
  · intro h
    have h' : (decide (c.toNat ≤ ch.toNat) && decide (ch.toNat ≤ c.toNat)) = true := by
      cases hb : (decide (c.toNat ≤ ch.toNat) && decide (ch.toNat ≤ c.toNat)) <;> simp_all
    simp only [Bool.and_eq_true, decide_eq_true_eq] at h'
    exact Char.toNat_inj.mp (Nat.le_antisymm h'.2 h'.1)
  · rintro rfl; simp

theorem lang_chr (c : Char) (s : List Char) : Lang (Re.chr c) s ↔ s = [c] := by
  simp only [Re.chr, Lang, mem_single]
  constructor
  · rintro ⟨ch, rfl, rfl⟩; rfl
  · rintro rfl; exact ⟨c, rfl, rfl⟩

theorem lang_lit (l s : List Char) : Lang (Re.lit l) s ↔ s = l := by
  induction l generalizing s with
  | nil => simp [Re.lit, Lang]
  | cons c cs ih =>
    simp only [Re.lit, Lang, lang_chr, ih]
    constructor
    · rintro ⟨s1, s2, rfl, rfl, rfl⟩; rfl
    · rintro rfl; exact ⟨[c], cs, rfl, rfl, rfl⟩

theorem lang_star_cls (c : Cls) (s : List Char) :
    Lang (.star (.cls c)) s ↔ ∀ x ∈ s, c.mem x = true := by
  simp only [Lang]
  induction s with
  | nil => simp; exact Star.nil
  | cons ch s ih =>
    rw [star_cons_iff]
    simp only [List.mem_cons, forall_eq_or_imp]
    constructor
    · rintro ⟨s1, s2, rfl, ⟨c', h1, h2⟩, h3⟩
      simp at h1
      obtain ⟨rfl, rfl⟩ := h1
      exact ⟨h2, ih.1 (by simpa using h3)⟩
    · rintro ⟨h1, h2⟩
      exact ⟨[], s, rfl, ⟨ch, rfl, h1⟩, ih.2 h2⟩

theorem lang_anyStar (s : List Char) : Lang anyStar s := by
  unfold anyStar anyChar
  rw [lang_star_cls]
  intro x _
  simp [Cls.mem]

theorem lang_seq (a b : Re) (s : List Char) :
    Lang (.seq a b) s ↔ ∃ s1 s2, s = s1 ++ s2 ∧ Lang a s1 ∧ Lang b s2 := Iff.rfl

theorem lang_alt (a b : Re) (s : List Char) : Lang (.alt a b) s ↔ Lang a s ∨ Lang b s := Iff.rfl

theorem lang_eps (s : List Char) : Lang .eps s ↔ s = [] := Iff.rfl

theorem lang_rep (c : Cls) (lo hi : Nat) (s : List Char) :
    Lang (.rep c lo hi) s ↔ lo ≤ s.length ∧ s.length ≤ hi ∧ ∀ x ∈ s, c.mem x = true := Iff.rfl

/-- `re.match` on a `\A…\Z` pattern -/
theorem pyMatch_bigZ (p : Pat) (h : p.endAnchor = .bigZ) (s : List Char) :
    p.pyMatch s = true ↔ Lang p.body s := by
  simp only [Pat.pyMatch, h]; exact matches_iff _ _

/-- `re.match` on a `^…$` pattern: the body matches `s`, or `s` minus one trailing newline. -/
theorem pyMatch_dollar (p : Pat) (h : p.endAnchor = .dollar) (s : List Char) :
    p.pyMatch s = true ↔ (Lang p.body s ∨ ∃ t, s = t ++ ['\n'] ∧ Lang p.body t) := by
  simp only [Pat.pyMatch, h]
  rw [matches_iff, lang_seq]
  constructor
  · rintro ⟨s1, s2, rfl, h1, h2⟩
    rw [lang_alt, lang_eps, newline, lang_chr] at h2
    rcases h2 with h2 | h2
    · left; subst h2; simpa using h1
    · right; subst h2; exact ⟨s1, rfl, h1⟩
  · rintro (h1 | ⟨t, rfl, h1⟩)
    · exact ⟨s, [], by simp, h1, Or.inl rfl⟩
    · refine ⟨t, ['\n'], rfl, h1, Or.inr ?_⟩
      rw [newline, lang_chr]

end VgiVerif.Regex
