import VgiVerif.Lemmas.PyVal
/-
More lemmas about `frozenset(list)` / `dict(pairs)`: the result is duplicate-free and made of the input's members.
-/
namespace VgiVerif.Py

theorem mem_dedup : ∀ (xs : List V) (y : V), y ∈ dedup xs → y ∈ xs
  | [], y, h => by simp [dedup] at h
  | x :: xs, y, h => by
    simp only [dedup, List.mem_cons, List.mem_filter] at h
    rcases h with rfl | ⟨h, _⟩
    · exact List.mem_cons_self
    · exact List.mem_cons_of_mem _ (mem_dedup xs y h)

theorem pyMem_filter_false {x : V} {p : V → Bool} : ∀ (xs : List V), pyMem x xs = false → pyMem x (xs.filter p) = false := by
  intro xs h
  unfold pyMem at *
  rw [List.any_eq_false] at *
  intro y hy
  exact h y (List.mem_filter.1 hy).1

theorem pyDistinct_filter (p : V → Bool) : ∀ (xs : List V), pyDistinct xs = true → pyDistinct (xs.filter p) = true
  | [], _ => by simp [pyDistinct]
  | x :: xs, h => by
    simp only [pyDistinct, Bool.and_eq_true, Bool.not_eq_true'] at h
    simp only [List.filter_cons]
    split
    · simp only [pyDistinct, Bool.and_eq_true, Bool.not_eq_true']
      exact ⟨pyMem_filter_false xs h.1, pyDistinct_filter p xs h.2⟩
    · exact pyDistinct_filter p xs h.2

theorem pyDistinct_dedup : ∀ (xs : List V), pyDistinct (dedup xs) = true
  | [] => by simp [dedup, pyDistinct]
  | x :: xs => by
    simp only [dedup, pyDistinct, Bool.and_eq_true, Bool.not_eq_true']
    refine ⟨?_, pyDistinct_filter _ _ (pyDistinct_dedup xs)⟩
    unfold pyMem
    rw [List.any_eq_false]
    intro y hy
    have := (List.mem_filter.1 hy).2
    simpa using this

theorem pyDistinct_append_single : ∀ (xs : List V) (k : V), pyDistinct xs = true → (∀ x ∈ xs, pyEq x k = false) →
    pyDistinct (xs ++ [k]) = true
  | [], k, _, _ => by simp [pyDistinct, pyMem]
  | x :: xs, k, h, hk => by
    simp only [pyDistinct, Bool.and_eq_true, Bool.not_eq_true'] at h
    simp only [List.cons_append, pyDistinct, Bool.and_eq_true, Bool.not_eq_true']
    refine ⟨?_, pyDistinct_append_single xs k h.2 (fun y hy => hk y (List.mem_cons_of_mem _ hy))⟩
    unfold pyMem at *
    rw [List.any_eq_false] at *
    intro y hy
    rcases List.mem_append.1 hy with hy | hy
    · exact h.1 y hy
    · simp only [List.mem_singleton] at hy; subst hy; simpa using hk x List.mem_cons_self

theorem dictSet_keys_distinct (d : List (V × V)) (k v : V) (h : pyDistinct (d.map Prod.fst) = true) :
    pyDistinct ((dictSet d k v).map Prod.fst) = true := by
  unfold dictSet
  split
  · have : (d.map (fun p => if pyEq p.1 k = true then (p.1, v) else p)).map Prod.fst = d.map Prod.fst := by
      rw [List.map_map]; apply List.map_congr_left; intro p _; simp only [Function.comp]; split <;> rfl
    rw [this]; exact h
  · rename_i hany
    rw [List.map_append]
    apply pyDistinct_append_single _ _ h
    intro x hx
    obtain ⟨p, hp, rfl⟩ := List.mem_map.1 hx
    have : d.any (fun p => pyEq p.1 k) = false := by simpa using hany
    rw [List.any_eq_false] at this
    simpa using this p hp

theorem dictSet_members (d : List (V × V)) (k v : V) (K Vs : List V)
    (hd : ∀ p ∈ d, p.1 ∈ K ∧ p.2 ∈ Vs) (hk : k ∈ K) (hv : v ∈ Vs) : ∀ p ∈ dictSet d k v, p.1 ∈ K ∧ p.2 ∈ Vs := by
  unfold dictSet
  split
  · intro p hp
    obtain ⟨q, hq, rfl⟩ := List.mem_map.1 hp
    split
    · exact ⟨(hd q hq).1, hv⟩
    · exact hd q hq
  · intro p hp
    rcases List.mem_append.1 hp with hp | hp
    · exact hd p hp
    · simp only [List.mem_singleton] at hp; subst hp; exact ⟨hk, hv⟩

theorem foldl_dictSet_inv (K Vs : List V) : ∀ (ps acc : List (V × V)),
    pyDistinct (acc.map Prod.fst) = true → (∀ p ∈ acc, p.1 ∈ K ∧ p.2 ∈ Vs) → (∀ p ∈ ps, p.1 ∈ K ∧ p.2 ∈ Vs) →
    pyDistinct ((ps.foldl (fun d p => dictSet d p.1 p.2) acc).map Prod.fst) = true
      ∧ ∀ p ∈ ps.foldl (fun d p => dictSet d p.1 p.2) acc, p.1 ∈ K ∧ p.2 ∈ Vs
  | [], acc, h1, h2, _ => ⟨h1, h2⟩
  | q :: ps, acc, h1, h2, h3 => by
    simp only [List.foldl_cons]
    have hq := h3 q List.mem_cons_self
    exact foldl_dictSet_inv K Vs ps (dictSet acc q.1 q.2) (dictSet_keys_distinct acc q.1 q.2 h1)
      (dictSet_members acc q.1 q.2 K Vs h2 hq.1 hq.2) (fun p hp => h3 p (List.mem_cons_of_mem _ hp))

theorem dictOfPairs_inv (ps : List (V × V)) :
    pyDistinct ((dictOfPairs ps).map Prod.fst) = true
      ∧ ∀ p ∈ dictOfPairs ps, p.1 ∈ ps.map Prod.fst ∧ p.2 ∈ ps.map Prod.snd := by
  unfold dictOfPairs
  exact foldl_dictSet_inv (ps.map Prod.fst) (ps.map Prod.snd) ps [] (by simp [pyDistinct]) (by simp)
    (fun p hp => ⟨List.mem_map_of_mem hp, List.mem_map_of_mem hp⟩)

end VgiVerif.Py
