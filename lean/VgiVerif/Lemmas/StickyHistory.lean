import VgiVerif.Model.C27
import VgiVerif.Spec.C27
import VgiVerif.Lemmas.Sticky
/-
Registry-wide invariants of the sticky model along method scripts (used by the history theorem of C27):
unique session ids (the registry is a dict), ids drawn from the counter (freshness), nothing expired while the clock
stands still, and the frame property — a request of client `c` touches only sessions of `c`.
-/
namespace VgiVerif.Sticky
open VgiVerif.Gen

theorem sidOfCtr_inj {a b : Nat} (ha : a < 256 ^ 12) (hb : b < 256 ^ 12) (h : sidOfCtr a = sidOfCtr b) : a = b :=
  leBytes_inj 12 a b ha hb h

/-- the registry is a dict: one entry per session id -/
def ND (r : Reg) : Prop := ∀ x ∈ r.entries, ∀ y ∈ r.entries, x.sid = y.sid → x = y

/-- every id in the registry was drawn from the counter -/
def FreshE (W : World) : Prop := ∀ x ∈ W.reg.entries, ∃ k, k < W.env.sidCtr ∧ x.sid = sidOfCtr k

/-- nothing in the registry has expired -/
def NoExp (W : World) : Prop := ∀ x ∈ W.reg.entries, expired x W.env.now = false

theorem ND_remove {r : Reg} (h : ND r) (sid : Bytes) : ND (r.remove sid) :=
  fun x hx y hy hs => h x (Reg.mem_remove.mp hx).1 y (Reg.mem_remove.mp hy).1 hs

theorem ND_insert {r : Reg} (h : ND r) (e : Entry) : ND (r.insert e) := by
  intro x hx y hy hs
  rcases Reg.mem_insert.mp hx with ⟨hx1, hx2⟩ | rfl <;> rcases Reg.mem_insert.mp hy with ⟨hy1, hy2⟩ | rfl
  · exact h x hx1 y hy1 hs
  · exact absurd hs hx2
  · exact absurd hs.symm hy2
  · rfl

theorem ND_close {r : Reg} (h : ND r) (sid : Bytes) : ND (r.close sid).1 :=
  fun x hx y hy hs => h x (Reg.mem_close.mp hx).1 y (Reg.mem_close.mp hy).1 hs

theorem expiryStrict_true : Sticky.expiryStrict = true := by decide

theorem expired_new (sid pk : Bytes) (now : Nat) (ttl : Option Int) (d st ow : Nat) (h : 0 ≤ effTtl ttl d) :
    expired ⟨sid, expiresOf now ttl d, pk, st, ow⟩ now = false := by
  unfold expired expiresOf
  rw [expiryStrict_true]
  simp only [if_true, decide_eq_false_iff_not, Nat.not_lt]
  omega

/-- the three registry-wide invariants, bundled -/
def RegInv (W : World) : Prop := ND W.reg ∧ FreshE W ∧ NoExp W

theorem step_sidCtr (cfg : Cfg) (wk : Nat) (ident : Identity) (c : Nat) (W : World) (rs : RS) (a : Action) :
    W.env.sidCtr ≤ (stepAction cfg wk ident c W rs a).1.env.sidCtr ∧
    (stepAction cfg wk ident c W rs a).1.env.sidCtr ≤ W.env.sidCtr + 1 ∧
    (stepAction cfg wk ident c W rs a).1.env.now = W.env.now := by
  cases a with
  | «open» l ttl =>
    simp only [stepAction, stepActionP]
    split
    · exact ⟨Nat.le_refl _, Nat.le_succ _, rfl⟩
    · split
      · exact ⟨Nat.le_refl _, Nat.le_succ _, rfl⟩
      · split
        · exact ⟨Nat.le_refl _, Nat.le_succ _, rfl⟩
        · split
          · exact ⟨Nat.le_succ _, Nat.le_refl _, rfl⟩
          · exact ⟨Nat.le_succ _, Nat.le_refl _, rfl⟩
  | close =>
    simp only [stepAction, stepActionP]
    split
    · exact ⟨Nat.le_refl _, Nat.le_succ _, rfl⟩
    · exact ⟨Nat.le_refl _, Nat.le_succ _, rfl⟩
  | use => exact ⟨Nat.le_refl _, Nat.le_succ _, rfl⟩
  | noop => exact ⟨Nat.le_refl _, Nat.le_succ _, rfl⟩
  | reap at_ => exact ⟨Nat.le_refl _, Nat.le_succ _, rfl⟩
  | shutdown => exact ⟨Nat.le_refl _, Nat.le_succ _, rfl⟩

/-- frame invariant of a script run by client `c` from registry `R0` -/
def FR (c : Nat) (R0 : Reg) (W : World) (rs : RS) : Prop :=
  (∀ x ∈ R0.entries, x.owner ≠ c → x ∈ W.reg.entries) ∧
  (∀ x ∈ W.reg.entries, x ∈ R0.entries ∨ x.owner = c) ∧
  (∀ sid l, rs.sc = some (sid, l) → ∀ x ∈ W.reg.entries, x.sid = sid → x.owner = c)

theorem step_inv (cfg : Cfg) (wk : Nat) (ident : Identity) (c : Nat) (R0 : Reg) (W : World) (rs : RS) (a : Action)
    (hb : W.env.sidCtr < 256 ^ 12) (hapi : a.isApi = true) (httl : C27.Spec.TtlNonneg cfg a) (hr : RegInv W) (hf : FR c R0 W rs) :
    RegInv (stepAction cfg wk ident c W rs a).1 ∧ FR c R0 (stepAction cfg wk ident c W rs a).1 (stepAction cfg wk ident c W rs a).2.1 := by
  obtain ⟨hnd, hfr, hne⟩ := hr
  obtain ⟨f1, f2, f3⟩ := hf
  cases a with
  | «open» l ttl =>
    simp only [stepAction, stepActionP]
    split
    · exact ⟨⟨hnd, hfr, hne⟩, f1, f2, f3⟩
    · split
      · exact ⟨⟨hnd, hfr, hne⟩, f1, f2, f3⟩
      · rename_i hsc
        split
        · exact ⟨⟨hnd, hfr, hne⟩, f1, f2, f3⟩
        · have hnone : rs.sc = none := by
            cases hh : rs.sc with
            | none => rfl
            | some p => simp [hh] at hsc
          -- facts about the inserted entry, shared by both sealing outcomes
          have hother : ∀ x ∈ W.reg.entries, x.sid ≠ sidOfCtr W.env.sidCtr := by
            intro x hx heq
            obtain ⟨k, hk, hks⟩ := hfr x hx
            rw [hks] at heq
            have := sidOfCtr_inj (Nat.lt_trans hk hb) hb heq
            omega
          have g1 : ∀ en : Entry, en.sid = sidOfCtr W.env.sidCtr → ∀ x ∈ R0.entries, x.owner ≠ c → x ∈ (W.reg.insert en).entries :=
            fun en hen x hx ho => Reg.mem_insert.mpr (Or.inl ⟨f1 x hx ho, by rw [hen]; exact hother x (f1 x hx ho)⟩)
          have g2 : ∀ en : Entry, en.owner = c → ∀ x ∈ (W.reg.insert en).entries, x ∈ R0.entries ∨ x.owner = c := by
            intro en hen x hx
            rcases Reg.mem_insert.mp hx with ⟨hx1, _⟩ | rfl
            · exact f2 x hx1
            · exact Or.inr hen
          have g4 : ∀ en : Entry, en.sid = sidOfCtr W.env.sidCtr → ∀ x ∈ (W.reg.insert en).entries, ∃ k, k < W.env.sidCtr + 1 ∧ x.sid = sidOfCtr k := by
            intro en hen x hx
            rcases Reg.mem_insert.mp hx with ⟨hx1, _⟩ | rfl
            · obtain ⟨k, hk, hks⟩ := hfr x hx1
              exact ⟨k, Nat.lt_succ_of_lt hk, hks⟩
            · exact ⟨_, Nat.lt_succ_self _, hen⟩
          have g5 : ∀ en : Entry, expired en W.env.now = false → ∀ x ∈ (W.reg.insert en).entries, expired x W.env.now = false := by
            intro en hen x hx
            rcases Reg.mem_insert.mp hx with ⟨hx1, _⟩ | rfl
            · exact hne x hx1
            · exact hen
          split
          · refine ⟨⟨ND_insert hnd _, g4 _ rfl, g5 _ (expired_new _ _ _ _ _ _ _ httl)⟩, g1 _ rfl, g2 _ rfl, ?_⟩
            intro sid l' hs
            rw [hnone] at hs; cases hs
          · refine ⟨⟨ND_insert hnd _, g4 _ rfl, g5 _ (expired_new _ _ _ _ _ _ _ httl)⟩, g1 _ rfl, g2 _ rfl, ?_⟩
            intro sid l' hs x hx hxs
            simp only [Option.some.injEq, Prod.mk.injEq] at hs
            rcases Reg.mem_insert.mp hx with ⟨hx1, hx2⟩ | rfl
            · rw [← hs.1] at hxs; exact absurd hxs hx2
            · rfl
  | close =>
    simp only [stepAction, stepActionP]
    cases hsc : rs.sc with
    | none => exact ⟨⟨hnd, hfr, hne⟩, f1, f2, fun sid l hs => by simp at hs⟩
    | some p =>
      obtain ⟨sid, lbl⟩ := p
      simp only
      refine ⟨⟨ND_close hnd sid, fun x hx => hfr x (Reg.mem_close.mp hx).1, fun x hx => hne x (Reg.mem_close.mp hx).1⟩, ?_, ?_, ?_⟩
      · intro x hx ho
        refine Reg.mem_close.mpr ⟨f1 x hx ho, fun hs => ho ?_⟩
        exact f3 sid lbl hsc x (f1 x hx ho) hs
      · intro x hx
        exact f2 x (Reg.mem_close.mp hx).1
      · intro sid' l hs
        cases hs
  | use => exact ⟨⟨hnd, hfr, hne⟩, f1, f2, f3⟩
  | noop => exact ⟨⟨hnd, hfr, hne⟩, f1, f2, f3⟩
  | reap at_ => cases hapi
  | shutdown => cases hapi

theorem run_inv (cfg : Cfg) (wk : Nat) (ident : Identity) (c : Nat) (R0 : Reg) (swallow : Bool) (script : List Action) :
    (∀ a ∈ script, a.isApi = true) → (∀ a ∈ script, C27.Spec.TtlNonneg cfg a) →
    ∀ (W : World) (rs : RS), W.env.sidCtr + script.length ≤ 256 ^ 12 → RegInv W → FR c R0 W rs →
      RegInv (runScript cfg wk ident c swallow W rs script).1 ∧
      FR c R0 (runScript cfg wk ident c swallow W rs script).1 (runScript cfg wk ident c swallow W rs script).2.1 := by
  induction script with
  | nil => intro _ _ W rs _ hr hf; exact ⟨hr, hf⟩
  | cons a as ih =>
    intro hapi httl W rs hb hr hf
    have ih := ih (fun b hb' => hapi b (by simp [hb'])) (fun b hb' => httl b (by simp [hb']))
    simp only [List.length_cons] at hb
    have h1 := step_inv cfg wk ident c R0 W rs a (by omega) (hapi a (by simp)) (httl a (by simp)) hr hf
    have hc := step_sidCtr cfg wk ident c W rs a
    have h2 := ih (stepAction cfg wk ident c W rs a).1 (stepAction cfg wk ident c W rs a).2.1 (by omega) h1.1 h1.2
    simp only [runScript]
    generalize stepAction cfg wk ident c W rs a = st at h1 h2
    obtain ⟨W', rs', o⟩ := st
    cases o with
    | failed e =>
      simp only
      cases swallow with
      | true => simpa using h2
      | false => simpa using h1
    | opened _ => simpa using h2
    | closed _ => simpa using h2
    | used _ => simpa using h2
    | noop => simpa using h2
    | env => simpa using h2

end VgiVerif.Sticky
