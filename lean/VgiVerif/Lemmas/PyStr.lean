import VgiVerif.Prelude.PyStr
namespace VgiVerif.PyStr

theorem splitOn_ne_nil (sep : Char) (s : List Char) : splitOn sep s ≠ [] := by
  induction s with
  | nil => simp [splitOn]
  | cons c cs ih =>
    simp only [splitOn]
    split
    · simp
    · split <;> simp

theorem splitOn_noSep (sep : Char) (a : List Char) (h : ∀ x ∈ a, x ≠ sep) : splitOn sep a = [a] := by
  induction a with
  | nil => rfl
  | cons c cs ih =>
    have hc : c ≠ sep := h c (by simp)
    have := ih (fun x hx => h x (by simp [hx]))
    simp [splitOn, hc, this]

theorem splitOn_append (sep : Char) (a r : List Char) (h : ∀ x ∈ a, x ≠ sep) :
    splitOn sep (a ++ sep :: r) = a :: splitOn sep r := by
  induction a with
  | nil => simp [splitOn]
  | cons c cs ih =>
    have hc : c ≠ sep := h c (by simp)
    have := ih (fun x hx => h x (by simp [hx]))
    simp [splitOn, hc, this]

/-- splitting recovers the original string: joining the pieces with the separator is the identity -/
theorem join_splitOn (sep : Char) (s : List Char) : join [sep] (splitOn sep s) = s := by
  induction s with
  | nil => rfl
  | cons c cs ih =>
    simp only [splitOn]
    split
    · rename_i h
      subst h
      cases hs : splitOn c cs with
      | nil => exact absurd hs (splitOn_ne_nil _ _)
      | cons x r => rw [hs] at ih; simp [join, ih]
    · cases hs : splitOn sep cs with
      | nil => exact absurd hs (splitOn_ne_nil _ _)
      | cons x r =>
        rw [hs] at ih
        cases r with
        | nil => simp [join] at ih ⊢; exact ih
        | cons y r' => simp [join] at ih ⊢; exact ih

theorem splitOn_pieces_noSep (sep : Char) (s : List Char) : ∀ p ∈ splitOn sep s, ∀ x ∈ p, x ≠ sep := by
  induction s with
  | nil => simp [splitOn]
  | cons c cs ih =>
    simp only [splitOn]
    split
    · intro p hp
      simp at hp
      rcases hp with rfl | hp
      · simp
      · exact ih p hp
    · rename_i hc
      cases hs : splitOn sep cs with
      | nil => exact absurd hs (splitOn_ne_nil _ _)
      | cons x r =>
        rw [hs] at ih
        intro p hp
        simp at hp
        rcases hp with rfl | hp
        · intro y hy
          simp at hy
          rcases hy with rfl | hy
          · exact hc
          · exact ih x (by simp) y hy
        · exact ih p (by simp [hp])

end VgiVerif.PyStr
