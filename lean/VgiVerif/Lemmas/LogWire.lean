import VgiVerif.Model.LogWire
/-
Closed form of the (repaired) `_dispatch_log_or_error` over the extracted shape: for EVERY batch the outcome is one of
data / raiseRpc / ignored / delivered, given explicitly.  Used by C07 (error mapping) and C08 (robustness, fields).
-/
namespace VgiVerif.LogWire
open VgiVerif.Engine (Str Log)
open VgiVerif.Gen.LogWire
open VgiVerif.Gen.LogDispatch (shape)

/-- the extras the client uses: the parsed `log_extra` when it is a JSON object, else nothing -/
def extraObj : Option (MdVal × Parsed) → List (Str × Json)
  | some (_, .ok (.obj kvs)) => kvs
  | _ => []

def ridOf (md : Meta) : Str := match md.requestId with | none => [] | some v => v.text

def kindOf (md : Meta) : Option Str :=
  match md.errorKind with
  | some kv => some kv.text
  | none => match lookup kindExtraKey (extraObj md.extra) with
    | some (.str s) => some s
    | _ => none

def extrasOf (md : Meta) : List (Str × Str) :=
  let e0 := (extraObj md.extra).map fun (k, v) => (k, pyStr v)
  let e1 := match md.serverId with | none => e0 | some v => dictSet e0 serverIdExtraKey v.text
  if ridOf md ≠ [] then dictSet e1 requestIdExtraKey (ridOf md) else e1

theorem readExtra_shape (x : Option (MdVal × Parsed)) : readExtra shape x = .ok (.obj (extraObj x)) := by
  rcases x with _ | ⟨v, p⟩
  · rfl
  · rcases p with j | _ | _ | _
    · cases j <;> simp [readExtra, decode, extraObj, bind, Except.bind]
    all_goals simp [readExtra, decode, extraObj, bind, Except.bind]

/-- **closed form** of `dispatchLog` on the extracted shape -/
theorem dispatch_closed (rows : Nat) (md : Meta) :
    dispatchLog shape ⟨rows, some md⟩ =
      if rows != 0 then .data else
      match md.level, md.message with
      | some lv, some mv =>
        if lv.text = exceptionLevel then
          .raiseRpc ⟨pyStr ((lookup excTypeKey (extraObj md.extra)).getD (.str lv.text)), mv.text,
                     pyStr ((lookup tracebackKey (extraObj md.extra)).getD (.str [])), ridOf md, kindOf md⟩
        else if !isLevel lv.text then .ignored
        else .delivered ⟨lv.text, mv.text, extrasOf md⟩
      | _, _ => .data := by
  unfold dispatchLog
  simp only
  by_cases hr : (rows != 0) = true
  · simp [hr]
  · simp only [hr, if_false, Bool.false_eq_true]
    rcases hl : md.level with _ | lv
    · rfl
    · rcases hm : md.message with _ | mv
      · rfl
      · rcases hq : md.requestId with _ | rq <;> rcases hs : md.serverId with _ | sv <;>
          rcases hk : md.errorKind with _ | kv <;>
          by_cases hx : lv.text = exceptionLevel <;> by_cases hlv : isLevel lv.text = true <;>
          simp [readExtra_shape, decode, shape, bind, Except.bind, pure, Except.pure, getKey, items, ridOf, kindOf,
            extrasOf, hq, hs, hk, hx, hlv]
        all_goals (rcases lookup kindExtraKey (extraObj md.extra) with _ | jv; · rfl
                   · cases jv <;> rfl)

/-- Python dict assignment keeps every other key's entry -/
theorem dictSet_other (d : List (Str × Str)) (k0 v0 k v : Str) (h : (k, v) ∈ d) (hk : k ≠ k0) :
    (k, v) ∈ dictSet d k0 v0 := by
  unfold dictSet
  split
  · simp only [List.mem_map]
    refine ⟨(k, v), h, ?_⟩
    simp [hk]
  · simp [h]

theorem dictSet_nil (k v : Str) : dictSet [] k v = [(k, v)] := by simp [dictSet]

end VgiVerif.LogWire
