import VgiVerif.Lemmas.C02Reject
import VgiVerif.Lemmas.PyDict
/-
C02 helper lemmas, part 3 (namespace `Aux`): under the environment laws a value that has travelled once is a fixed point
of `norm` and still an instance — what the second hop of an echo needs.
-/
namespace VgiVerif.C02
open VgiVerif.Py

/-- a value that already has the form the declared type stores -/
def Stable (env : Env) (t : Ty) (v : V) : Prop :=
  inhabits env t (norm env t v) = true ∧ norm env t (norm env t v) = norm env t v

/-- dataclass parameters whose class has neither transient nor float32 fields (for those the C03 round trip is the identity) -/
def dcExact : Ty → Bool
  | .dc _ fs => C03.exactF fs
  | .opt (.dc _ fs) => C03.exactF fs
  | _ => true

namespace Aux

theorem nativeSame_refl (k : Nat) (a b : Int) : nativeSame k a b a b = true := by
  simp [nativeSame]

theorem plainStable (env : Env) (hl : env.Lawful) : ∀ (t : Ty) (v : V), plain t = true → inhabits env t v = true → Stable env t v
  | .int w, v, _, h => by obtain ⟨i, rfl, hi⟩ := inh_int h; simp [Stable, norm, inhabits, hi]
  | .f64, v, _, h => by obtain ⟨b, rfl⟩ := inh_f64 h; simp [Stable, norm, inhabits]
  | .f32, v, _, h => by obtain ⟨b, rfl⟩ := inh_f32 h; simp [Stable, norm, inhabits, hl.round32_idem]
  | .str, v, _, h => by obtain ⟨b, rfl⟩ := inh_str h; simp [Stable, norm, inhabits]
  | .bytes, v, _, h => by obtain ⟨b, rfl⟩ := inh_bytes h; simp [Stable, norm, inhabits]
  | .bool, v, _, h => by obtain ⟨b, rfl⟩ := inh_bool h; simp [Stable, norm, inhabits]
  | .native k p s, v, _, h => by
    obtain ⟨a, b, a', b', rfl, hn, _⟩ := inh_native h
    have hi := hl.native_idem k p s a b a' b' hn
    simp [Stable, norm, inhabits, hn, hi, nativeSame_refl]
  | .opt t, v, hp, h => by
    rcases inh_opt h with rfl | ⟨_, h'⟩
    · simp [Stable, norm, inhabits]
    · have hp' : plain t = true := by simp_all [plain]
      obtain ⟨s1, s2⟩ := plainStable env hl t v hp' h'
      unfold Stable
      rw [norm_opt, norm_opt, s2]
      refine ⟨?_, rfl⟩
      cases hv : norm env t v <;> simp_all [inhabits]
  | .list t, v, hp, h => by
    obtain ⟨xs, rfl, hx⟩ := inh_list h
    have hp' : plain t = true := by simpa [plain] using hp
    unfold Stable
    simp only [norm, inhabits, List.all_eq_true, List.map_map]
    refine ⟨?_, ?_⟩
    · intro y hy
      obtain ⟨x, hx', rfl⟩ := List.mem_map.1 hy
      exact (plainStable env hl t x hp' (hx x hx')).1
    · congr 1
      apply List.map_congr_left
      intro x hx'
      exact (plainStable env hl t x hp' (hx x hx')).2
  | .enum _, _, hp, _ => by simp [plain] at hp
  | .set _, _, hp, _ => by simp [plain] at hp
  | .map _ _, _, hp, _ => by simp [plain] at hp
  | .dc _ _, _, hp, _ => by simp [plain] at hp

theorem norm_ne_none' {env : Env} {t : Ty} {v : V} (hp : plain t = true) (hi : inhabits env t v = true) (hv : v ≠ .none) :
    norm env t v ≠ .none := by
  cases t with
  | opt u =>
    rw [norm_opt]
    have hu : isOpt u = false := by simp_all [plain]
    rcases inh_opt hi with rfl | ⟨_, _⟩
    · exact absurd rfl hv
    · exact norm_ne_none hu hv
  | _ => all_goals exact norm_ne_none (by simp [isOpt]) hv

/-- stability for one Optional-free type -/
theorem stable_core (env : Env) (hl : env.Lawful) (u : Ty) (v : V) (ho : isOpt u = false) (hs : supported u = true)
    (hx : dcExact u = true) (h : inhabits env u v = true) : Stable env u v := by
  cases u with
  | opt _ => simp [isOpt] at ho
  | int w => exact plainStable env hl _ v rfl h
  | f64 => exact plainStable env hl _ v rfl h
  | f32 => exact plainStable env hl _ v rfl h
  | str => exact plainStable env hl _ v rfl h
  | bytes => exact plainStable env hl _ v rfl h
  | bool => exact plainStable env hl _ v rfl h
  | native k p s => exact plainStable env hl _ v rfl h
  | list t => exact plainStable env hl _ v (by simpa [supported, plain] using hs) h
  | enum names =>
    obtain ⟨n, rfl, hm⟩ := inh_enum h
    have hm' : n ∈ names := by simpa using hm
    simp [Stable, norm, inhabits, hm']
  | dc n fs =>
    obtain ⟨ofs, rfl, hf⟩ := inh_dc h
    have := C03.Aux.normF_exact env fs ofs (by simpa [dcExact] using hx) hf
    simp [Stable, norm, this, h]
  | set t =>
    obtain ⟨xs, rfl, hx', _⟩ := inh_set h
    have hp : plain t = true := by simpa [supported] using hs
    have hmem : ∀ y ∈ dedup (xs.map (norm env t)), inhabits env t y = true ∧ norm env t y = y := by
      intro y hy
      obtain ⟨x, hxm, rfl⟩ := List.mem_map.1 (mem_dedup _ _ hy)
      exact plainStable env hl t x hp (hx' x hxm)
    unfold Stable
    simp only [norm, inhabits, Bool.and_eq_true, List.all_eq_true]
    have hmap : (dedup (xs.map (norm env t))).map (norm env t) = dedup (xs.map (norm env t)) :=
      (List.map_congr_left (fun y hy => (hmem y hy).2)).trans (List.map_id' _)
    refine ⟨⟨fun y hy => (hmem y hy).1, pyDistinct_dedup _⟩, ?_⟩
    rw [hmap, dedup_of_distinct _ (pyDistinct_dedup _)]
  | map k w =>
    obtain ⟨kvs, rfl, hp, _⟩ := inh_map h
    have hpk : plain k = true ∧ plain w = true := by simpa [supported] using hs
    let qs := kvs.map (fun p => (norm env k p.1, norm env w p.2))
    obtain ⟨hd, hm⟩ := dictOfPairs_inv qs
    have hmem : ∀ q ∈ dictOfPairs qs, (inhabits env k q.1 = true ∧ norm env k q.1 = q.1 ∧ q.1 ≠ .none)
        ∧ (inhabits env w q.2 = true ∧ norm env w q.2 = q.2) := by
      intro q hq
      obtain ⟨h1, h2⟩ := hm q hq
      obtain ⟨a, ha, ea⟩ := List.mem_map.1 h1
      obtain ⟨b, hb, eb⟩ := List.mem_map.1 h2
      obtain ⟨pa, hpa, rfl⟩ := List.mem_map.1 ha
      obtain ⟨pb, hpb, rfl⟩ := List.mem_map.1 hb
      simp only at ea eb
      obtain ⟨ia, _, na⟩ := hp pa hpa
      obtain ⟨_, ib, _⟩ := hp pb hpb
      obtain ⟨s1, s2⟩ := plainStable env hl k pa.1 hpk.1 ia
      obtain ⟨t1, t2⟩ := plainStable env hl w pb.2 hpk.2 ib
      rw [← ea, ← eb]
      exact ⟨⟨s1, s2, norm_ne_none' hpk.1 ia na⟩, ⟨t1, t2⟩⟩
    unfold Stable
    simp only [norm, inhabits, Bool.and_eq_true, List.all_eq_true]
    have hmap : (dictOfPairs qs).map (fun p => (norm env k p.1, norm env w p.2)) = dictOfPairs qs := by
      refine (List.map_congr_left (fun q hq => ?_)).trans (List.map_id' _)
      obtain ⟨⟨_, e1, _⟩, ⟨_, e2⟩⟩ := hmem q hq
      rw [e1, e2]
    refine ⟨⟨fun q hq => ?_, hd⟩, ?_⟩
    · obtain ⟨⟨i1, _, n1⟩, ⟨i2, _⟩⟩ := hmem q hq
      refine ⟨⟨i1, i2⟩, ?_⟩
      cases hq1 : q.1 <;> simp_all [notNone]
    · show V.dict (dictOfPairs ((dictOfPairs qs).map (fun p => (norm env k p.1, norm env w p.2)))) = V.dict (dictOfPairs qs)
      rw [hmap, dictOfPairs_distinct _ hd]

theorem stable (env : Env) (hl : env.Lawful) (t : Ty) (v : V) (hs : supported t = true) (hx : dcExact t = true)
    (h : inhabits env t v = true) : Stable env t v := by
  cases t with
  | opt u =>
    have hu : isOpt u = false ∧ supported u = true := by
      simp only [supported, Bool.and_eq_true, Bool.not_eq_true'] at hs; exact ⟨hs.2, hs.1⟩
    rcases inh_opt h with rfl | ⟨hv, h'⟩
    · simp [Stable, norm, inhabits]
    · have hx' : dcExact u = true := by
        cases u with
        | opt _ => simp [isOpt] at hu
        | _ => simp_all [dcExact]
      obtain ⟨s1, s2⟩ := stable_core env hl u v hu.1 hu.2 hx' h'
      unfold Stable
      rw [norm_opt, norm_opt, s2]
      refine ⟨?_, rfl⟩
      cases hv' : norm env u v <;> simp_all [inhabits]
  | _ => all_goals exact stable_core env hl _ v (by simp [isOpt]) hs hx h

end Aux
end VgiVerif.C02
