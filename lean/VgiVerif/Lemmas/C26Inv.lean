import VgiVerif.Lemmas.C26Trans
/-
C26: what a program counter says about its thread (`Pc.holds`, `Pc.dispatching`, …) and the lock invariants of
the model: the registry lock is held exactly by the threads inside a registry critical section, every entry
lock is held exactly by the threads whose program counter says so, with the recursion count it says.
-/
namespace VgiVerif.C26
open VgiVerif.Sched

/-! ### attributes of program counters -/

namespace Cont
/-- the caller of `_close_entry` already holds the entry lock (once) -/
def holds : Cont → Bool
  | .disp | .del => true
  | _ => false
/-- the caller of `_close_entry` is a dispatching request -/
def isDisp : Cont → Bool
  | .disp => true
  | _ => false
/-- entries popped from the registry that are still to be closed after the current one -/
def owes : Cont → Sid → Prop
  | .sweep r, x => x ∈ r
  | _, _ => False
end Cont

namespace Pc
/-- nesting depth of registry critical sections (0 = outside, 1 = inside; never more) -/
def depth : Pc → Nat
  | .inReg n => n.depth + 1
  | _ => 0

/-- recursion count of entry lock `x` held by a thread at this program counter -/
def holds : Pc → Sid → Nat
  | .inReg n, x => n.holds x
  | .cAcq s c, x => if x = s ∧ c.holds = true then 1 else 0
  | .cOpen s c, x | .cRun s c, x | .cRel s c, x => if x = s then (if c.holds = true then 2 else 1) else 0
  | .liveAcq s, x | .lostRel s, x | .ready s, x | .disp s, x | .finRel s, x | .delAcq s, x | .delRel s, x =>
    if x = s then 1 else 0
  | .csAcq s c, x => if x = s ∧ c.holds = true then 1 else 0
  | _, _ => 0

/-- between `dispatchBegin` and `dispatchEnd` on `x` -/
def dispatching : Pc → Sid → Prop
  | .inReg n, x => n.dispatching x
  | .disp s, x => x = s
  | .csAcq s c, x | .cAcq s c, x | .cOpen s c, x | .cRun s c, x | .cRel s c, x => c.isDisp = true ∧ x = s
  | _, _ => False

/-- inside the close hook of `x` -/
def closing : Pc → Sid → Prop
  | .inReg n, x => n.closing x
  | .cRun s _, x => x = s
  | _, _ => False

/-- `closed` flag of `x` set by this thread, hook not yet started -/
def atOpen : Pc → Sid → Prop
  | .inReg n, x => n.atOpen x
  | .cOpen s _, x => x = s
  | _, _ => False

/-- entry `x` was popped from the registry by this thread and `_close_entry(x)` has not yet taken its lock -/
def owes : Pc → Sid → Prop
  | .inReg n, x => n.owes x
  | .cAcq s c, x => x = s ∨ c.owes x
  | .cOpen _ c, x | .cRun _ c, x | .cRel _ c, x | .csAcq _ c, x => c.owes x
  | _, _ => False

/-- `is_live(x)` answered True and the dispatch has not yet begun -/
def readyFor : Pc → Sid → Prop
  | .inReg n, x => n.readyFor x
  | .ready s, x => x = s
  | _, _ => False

/-- id `x` drawn, not yet inserted -/
def inserting : Pc → Sid → Prop
  | .inReg n, x => n.inserting x
  | .openAcq s _ _, x => x = s
  | _, _ => False
/-- inside `_close_entry` WITHOUT the entry lock (after a failed timed acquire) -/
def unlocked : Pc → Bool
  | .inReg n => n.unlocked
  | .uOpen _ _ | .uRun _ _ => true
  | _ => false
end Pc

theorem closeList_unlocked (l : List Sid) : (closeList l).unlocked = false := by cases l <;> rfl
theorem afterClose_unlocked (s : Sid) (c : Cont) : (afterClose s c).unlocked = false := by
  cases c <;> simp [afterClose, Pc.unlocked, closeList_unlocked]

theorem closeList_holds (l : List Sid) (x : Sid) : (closeList l).holds x = 0 := by
  cases l <;> simp [closeList, Pc.holds, Cont.holds]
theorem closeList_depth (l : List Sid) : (closeList l).depth = 0 := by cases l <;> rfl
theorem closeList_dispatching (l : List Sid) (x : Sid) : ¬ (closeList l).dispatching x := by
  cases l <;> simp [closeList, Pc.dispatching, Cont.isDisp]
theorem closeList_closing (l : List Sid) (x : Sid) : ¬ (closeList l).closing x := by
  cases l <;> simp [closeList, Pc.closing]
theorem closeList_atOpen (l : List Sid) (x : Sid) : ¬ (closeList l).atOpen x := by
  cases l <;> simp [closeList, Pc.atOpen]
theorem closeList_readyFor (l : List Sid) (x : Sid) : ¬ (closeList l).readyFor x := by
  cases l <;> simp [closeList, Pc.readyFor]
theorem closeList_inserting (l : List Sid) (x : Sid) : ¬ (closeList l).inserting x := by
  cases l <;> simp [closeList, Pc.inserting]
theorem closeList_owes (l : List Sid) (x : Sid) : (closeList l).owes x ↔ x ∈ l := by
  cases l <;> simp [closeList, Pc.owes, Cont.owes]

theorem afterClose_holds (s : Sid) (c : Cont) (x : Sid) :
    (afterClose s c).holds x = if x = s ∧ c.holds = true then 1 else 0 := by
  cases c <;> simp [afterClose, Pc.holds, Cont.holds, closeList_holds]
theorem afterClose_depth (s : Sid) (c : Cont) : (afterClose s c).depth = 0 := by
  cases c <;> simp [afterClose, Pc.depth, closeList_depth]
theorem afterClose_dispatching (s : Sid) (c : Cont) (x : Sid) :
    (afterClose s c).dispatching x ↔ (c.isDisp = true ∧ x = s) := by
  cases c <;> simp [afterClose, Pc.dispatching, Cont.isDisp, closeList_dispatching]
theorem afterClose_closing (s : Sid) (c : Cont) (x : Sid) : ¬ (afterClose s c).closing x := by
  cases c <;> simp [afterClose, Pc.closing, closeList_closing]
theorem afterClose_atOpen (s : Sid) (c : Cont) (x : Sid) : ¬ (afterClose s c).atOpen x := by
  cases c <;> simp [afterClose, Pc.atOpen, closeList_atOpen]
theorem afterClose_readyFor (s : Sid) (c : Cont) (x : Sid) : ¬ (afterClose s c).readyFor x := by
  cases c <;> simp [afterClose, Pc.readyFor, closeList_readyFor]
theorem afterClose_inserting (s : Sid) (c : Cont) (x : Sid) : ¬ (afterClose s c).inserting x := by
  cases c <;> simp [afterClose, Pc.inserting, closeList_inserting]
theorem afterClose_owes (s : Sid) (c : Cont) (x : Sid) : (afterClose s c).owes x ↔ c.owes x := by
  cases c <;> simp [afterClose, Pc.owes, Cont.owes, closeList_owes]

/-- a thread that is dispatching on / closing / about to close / ready for `x` holds the entry lock of `x` -/
theorem Pc.holds_of_dispatching {p : Pc} {x : Sid} (h : p.dispatching x) : 0 < p.holds x := by
  induction p with
  | inReg n ih => exact ih h
  | disp s => simp only [Pc.dispatching] at h; simp [Pc.holds, h]
  | csAcq s c | cAcq s c | cOpen s c | cRun s c | cRel s c =>
    simp only [Pc.dispatching] at h
    cases c <;> simp_all [Pc.holds, Cont.holds, Cont.isDisp]
  | _ => simp [Pc.dispatching] at h
theorem Pc.holds_of_closing {p : Pc} {x : Sid} (h : p.closing x) : 0 < p.holds x := by
  induction p with
  | inReg n ih => exact ih h
  | cRun s c => simp only [Pc.closing] at h; subst h; simp only [Pc.holds, if_true]; split <;> omega
  | _ => simp [Pc.closing] at h
theorem Pc.holds_of_atOpen {p : Pc} {x : Sid} (h : p.atOpen x) : 0 < p.holds x := by
  induction p with
  | inReg n ih => exact ih h
  | cOpen s c => simp only [Pc.atOpen] at h; subst h; simp only [Pc.holds, if_true]; split <;> omega
  | _ => simp [Pc.atOpen] at h
theorem Pc.holds_of_readyFor {p : Pc} {x : Sid} (h : p.readyFor x) : 0 < p.holds x := by
  induction p with
  | inReg n ih => exact ih h
  | ready s => simp only [Pc.readyFor] at h; simp [Pc.holds, h]
  | _ => simp [Pc.readyFor] at h

/-! ### lock invariants -/

/-- the registry lock is held exactly by the threads inside a registry critical section (never nested) -/
def RegInv (reg : Lock) (pc : Tid → Pc) : Prop :=
  ∀ t, (reg.owner = some t ↔ 0 < (pc t).depth) ∧ (pc t).depth ≤ 1

/-- every entry lock is held exactly by the thread whose program counter says so, with that recursion count -/
def EntInv (ent : Sid → RLock) (pc : Tid → Pc) : Prop :=
  (∀ s t, (pc t).holds s = if (ent s).owner = some t then (ent s).count else 0) ∧ ∀ s, (ent s).WF

theorem RegInv.same {reg : Lock} {pc : Tid → Pc} (h : RegInv reg pc) {t : Tid} {p' : Pc}
    (hd : p'.depth = (pc t).depth) : RegInv reg (upd pc t p') := by
  intro x
  by_cases hx : x = t
  · subst hx; simp only [upd_same, hd]; exact h x
  · simp only [upd_other _ _ hx]; exact h x

theorem RegInv.acquire {reg : Lock} {pc : Tid → Pc} (h : RegInv reg pc) {t : Tid} {n : Pc}
    (hfree : reg.owner = none) (hn : n.depth = 0) : RegInv ⟨some t⟩ (upd pc t (.inReg n)) := by
  intro x
  by_cases hx : x = t
  · subst hx; simp [upd_same, Pc.depth, hn]
  · have := h x
    simp only [upd_other _ _ hx, hfree, reduceCtorEq, false_iff] at this ⊢
    refine ⟨?_, this.2⟩
    simp only [Option.some.injEq]
    constructor
    · intro e; exact absurd e.symm hx
    · intro e; exact absurd e this.1

theorem RegInv.release {reg : Lock} {pc : Tid → Pc} (h : RegInv reg pc) {t : Tid} {n : Pc}
    (hp : pc t = .inReg n) (ho : reg.owner = some t) : RegInv ⟨none⟩ (upd pc t n) := by
  have ht := h t
  rw [hp] at ht
  simp only [Pc.depth] at ht
  intro x
  by_cases hx : x = t
  · subst hx; simp only [upd_same, reduceCtorEq, false_iff]; omega
  · have := h x
    simp only [upd_other _ _ hx, reduceCtorEq, false_iff]
    refine ⟨?_, this.2⟩
    intro hpos
    have := this.1.2 hpos
    rw [ho] at this
    exact hx (Option.some.inj this).symm

theorem EntInv.same {ent : Sid → RLock} {pc : Tid → Pc} (h : EntInv ent pc) {t : Tid} {p' : Pc}
    (hh : ∀ s, p'.holds s = (pc t).holds s) : EntInv ent (upd pc t p') := by
  refine ⟨?_, h.2⟩
  intro s x
  by_cases hx : x = t
  · subst hx; simp only [upd_same, hh]; exact h.1 s x
  · simp only [upd_other _ _ hx]; exact h.1 s x

/-- mutual exclusion on an entry lock -/
theorem EntInv.excl {ent : Sid → RLock} {pc : Tid → Pc} (h : EntInv ent pc) {s : Sid} {t t' : Tid}
    (a : 0 < (pc t).holds s) (b : 0 < (pc t').holds s) : t = t' := by
  have ha := h.1 s t
  have hb := h.1 s t'
  split at ha
  · split at hb
    · rename_i h1 h2; rw [h1] at h2; exact Option.some.inj h2
    · omega
  · omega

theorem EntInv.acquire {ent : Sid → RLock} {pc : Tid → Pc} (h : EntInv ent pc) {t : Tid} {s : Sid} {l : RLock} {p' : Pc}
    (hacq : (ent s).acquire t = some l)
    (hh : ∀ y, p'.holds y = (pc t).holds y + if y = s then 1 else 0) : EntInv (upd ent s l) (upd pc t p') := by
  have hA := RLock.acquire_eq_some hacq
  have hw := RLock.acquire_wf (h.2 s) hacq
  refine ⟨?_, ?_⟩
  · intro y x
    have h1 := h.1 y x
    by_cases hy : y = s
    · subst hy
      simp only [upd_same]
      by_cases hx : x = t
      · subst hx
        simp only [upd_same, hh, if_true, hA.2.1, hA.2.2, h1]
        rcases hA.1 with ho | ho
        · simp [ho]
        · simp [ho]
      · simp only [upd_other _ _ hx, hA.2.1, Option.some.injEq]
        rw [if_neg (fun e => hx e.symm)]
        rw [h1]
        rcases hA.1 with ho | ho
        · simp [ho]
        · simp only [ho, Option.some.injEq]; rw [if_neg (fun e => hx e.symm)]
    · simp only [upd_other _ _ hy]
      by_cases hx : x = t
      · subst hx; simp only [upd_same, hh, if_neg hy, Nat.add_zero]; exact h1
      · simp only [upd_other _ _ hx]; exact h1
  · intro y
    by_cases hy : y = s
    · subst hy; simp only [upd_same]; exact hw
    · simp only [upd_other _ _ hy]; exact h.2 y

theorem EntInv.release {ent : Sid → RLock} {pc : Tid → Pc} (h : EntInv ent pc) {t : Tid} {s : Sid} {l : RLock} {p' : Pc}
    (hrel : (ent s).release t = some l)
    (hh : ∀ y, (pc t).holds y = p'.holds y + if y = s then 1 else 0) : EntInv (upd ent s l) (upd pc t p') := by
  have hR := RLock.release_eq_some hrel
  have hw := RLock.release_wf (h.2 s) hrel
  have hwf := h.2 s
  refine ⟨?_, ?_⟩
  · intro y x
    have h1 := h.1 y x
    by_cases hy : y = s
    · subst hy
      simp only [upd_same]
      by_cases hx : x = t
      · subst hx
        have h2 := hh y
        simp only [if_true] at h2
        simp only [upd_same]
        rw [hR.1, if_pos rfl] at h1
        rcases hR.2.1 with ho | ho
        · simp only [ho, reduceCtorEq, if_false]
          have : l.count = 0 := (hw.1 ho)
          omega
        · simp only [ho, if_true]; omega
      · simp only [upd_other _ _ hx]
        rw [hR.1, if_neg (fun e => hx (Option.some.inj e).symm)] at h1
        rw [h1]
        rcases hR.2.1 with ho | ho
        · simp [ho]
        · simp only [ho, Option.some.injEq]; rw [if_neg (fun e => hx e.symm)]
    · simp only [upd_other _ _ hy]
      by_cases hx : x = t
      · subst hx
        have h2 := hh y
        simp only [if_neg hy, Nat.add_zero] at h2
        simp only [upd_same, ← h2]; exact h1
      · simp only [upd_other _ _ hx]; exact h1
  · intro y
    by_cases hy : y = s
    · subst hy; simp only [upd_same]; exact hw
    · simp only [upd_other _ _ hy]; exact h.2 y

/-- close a goal that is arithmetic over nested `if`s -/
macro "ite_arith" : tactic => `(tactic| (repeat' split) <;> simp_all <;> omega)

/-- what a registry operation leaves unchanged -/
theorem RegOp.frame {st st1 : St} {p n : Pc} (h : RegOp st p st1 n) :
    st1.reg = st.reg ∧ st1.ent = st.ent ∧ st1.pc = st.pc ∧ st1.closedFlag = st.closedFlag ∧ st1.nextSid = st.nextSid ∧
    st1.dsp = st.dsp ∧ st1.crun = st.crun ∧ st1.cstart = st.cstart ∧ st1.cend = st.cend ∧ st1.clock = st.clock := by
  cases h <;> simp

/-- attributes of the continuation of a registry operation -/
theorem RegOp.attrs {st st1 : St} {p n : Pc} (h : RegOp st p st1 n) :
    p.depth = 0 ∧ n.depth = 0 ∧ (∀ y, n.holds y = p.holds y) ∧ (∀ y, n.dispatching y ↔ p.dispatching y) ∧
    (∀ y, ¬ n.closing y) ∧ (∀ y, ¬ p.closing y) ∧ (∀ y, ¬ n.atOpen y) ∧ (∀ y, ¬ p.atOpen y) ∧ (∀ y, ¬ n.inserting y) := by
  cases h <;>
    simp [Pc.depth, Pc.holds, Pc.dispatching, Pc.closing, Pc.atOpen, Pc.inserting, Cont.holds, Cont.isDisp,
      afterClose_depth, afterClose_holds, afterClose_dispatching, afterClose_closing, afterClose_atOpen,
      afterClose_inserting, closeList_depth, closeList_holds, closeList_dispatching, closeList_closing,
      closeList_atOpen, closeList_inserting]

/-- the continuation of a registry operation is never inside an unlocked close -/
theorem RegOp.unlocked {st st1 : St} {p n : Pc} (h : RegOp st p st1 n) : n.unlocked = false := by
  cases h <;> simp [Pc.unlocked, afterClose_unlocked, closeList_unlocked]

/-- no thread runs `_close_entry` without the entry lock (the blocking acquire cannot fail) -/
def NoU (st : St) : Prop := ∀ t, (st.pc t).unlocked = false

theorem noU_init : NoU ({} : St) := fun _ => rfl

theorem NoU.upd {pc : Tid → Pc} (h : ∀ t, (pc t).unlocked = false) (t : Tid) {p' : Pc} (hp : p'.unlocked = false) :
    ∀ x, (upd pc t p' x).unlocked = false := by
  intro x
  by_cases hx : x = t
  · subst hx; simpa using hp
  · rw [upd_other _ _ hx]; exact h x

theorem noU_trans {st st' : St} {l : Label} (h : NoU st) (htr : Trans st l st') : NoU st' := by
  cases htr with
  | tick d => exact h
  | mstep => exact h
  | @regAcq t st1 next hfree hop =>
    exact NoU.upd h t (p' := .inReg next) (by simp only [Pc.unlocked]; exact hop.unlocked)
  | @regRel t next hp ho =>
    have hn := h t; rw [hp] at hn
    exact NoU.upd h _ (by simpa [Pc.unlocked] using hn)
  | @closeStartU t s c hp | @closeEndU t s c hp => have hn := h t; rw [hp] at hn; simp [Pc.unlocked] at hn
  | entRelClose hp hrel => exact NoU.upd h _ (afterClose_unlocked _ _)
  | _ => exact NoU.upd h _ (by simp [Pc.unlocked])

structure LockInv (st : St) : Prop where
  reg : RegInv st.reg st.pc
  ent : EntInv st.ent st.pc

theorem lockInv_init : LockInv ({} : St) := by
  refine ⟨?_, ?_, ?_⟩
  · intro t; simp [Pc.depth]
  · intro s t; simp [Pc.holds]
  · intro s; exact RLock.wf_free

theorem lockInv_trans {st st' : St} {l : Label} (hn : NoU st) (h : LockInv st) (htr : Trans st l st') :
    LockInv st' := by
  cases htr with
  | @closeStartU t s c hp | @closeEndU t s c hp => have := hn t; rw [hp] at this; simp [Pc.unlocked] at this
  | tick d => exact ⟨h.reg, h.ent⟩
  | mstep => exact h
  | reqBegin hp | delBegin hp | openBegin hp | shutBegin hp | rcSweep hp | rcGet hp | rcOpen hp | rcSeal hp
  | allocSid hp | lost hp | dispatchBegin hp | closeSessionDisp hp | closeSessionOpened hp | dispatchEnd hp
  | closeStart hp | closeEnd hp | openDone hp =>
    exact ⟨h.reg.same (by simp [hp, Pc.depth]), h.ent.same (by simp [hp, Pc.holds, Cont.holds])⟩
  | regAcq hfree hop =>
    obtain ⟨e1, e2, e3, -⟩ := hop.frame
    obtain ⟨a1, a2, a3, -⟩ := hop.attrs
    refine ⟨h.reg.acquire hfree a2, ?_⟩
    show EntInv _ _
    rw [e2]
    exact h.ent.same (by intro y; simp only [Pc.holds]; exact a3 y)
  | regRel hp ho =>
    exact ⟨h.reg.release hp ho, h.ent.same (by simp [hp, Pc.holds])⟩
  | entAcqSkip hp hacq _ | entAcqClose hp hacq _ =>
    exact ⟨h.reg.same (by simp [hp, Pc.depth]),
      h.ent.acquire hacq (by intro y; simp only [hp, Pc.holds]; ite_arith)⟩
  | entAcqReq hp hacq | entAcqDel hp hacq =>
    exact ⟨h.reg.same (by simp [hp, Pc.depth]),
      h.ent.acquire hacq (by intro y; simp only [hp, Pc.holds]; ite_arith)⟩
  | entRelClose hp hrel =>
    exact ⟨h.reg.same (by simp [hp, Pc.depth, afterClose_depth]),
      h.ent.release hrel (by intro y; simp only [hp, Pc.holds, afterClose_holds]; ite_arith)⟩
  | entRelLost hp hrel | entRelFin hp hrel | entRelDel hp hrel =>
    exact ⟨h.reg.same (by simp [hp, Pc.depth]),
      h.ent.release hrel (by intro y; simp only [hp, Pc.holds]; ite_arith)⟩

end VgiVerif.C26
