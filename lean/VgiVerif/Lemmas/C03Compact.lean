import VgiVerif.Lemmas.C03Deser
/-
C03 helper lemmas, part 3 (namespace `Aux`): the compact codec and the HTTP state payload.
-/
namespace VgiVerif.C03
open VgiVerif.Py
namespace Aux

theorem compactScalar_some (a : Ann) (s : Scalar) :
    compactScalar a = some s ↔ (a = .scalar s ∨ a = .opt (.scalar s)) := by
  unfold compactScalar
  rw [compactRefusesExplicit]
  cases a with
  | opt b => cases b <;> simp [hasExplicitArrowType, compactClaims_all]
  | _ => simp [hasExplicitArrowType, compactClaims_all]

theorem compactScalar_isSome (a : Ann) : (compactScalar a).isSome = flatAnn a := by
  cases h : compactScalar a with
  | some s =>
    rcases (compactScalar_some a s).1 h with rfl | rfl <;> simp [flatAnn]
  | none =>
    cases a with
    | scalar s => have := (compactScalar_some (.scalar s) s).2 (Or.inl rfl); simp_all
    | opt b =>
      cases b with
      | scalar s => have := (compactScalar_some (.opt (.scalar s)) s).2 (Or.inr rfl); simp_all
      | _ => simp [flatAnn]
    | _ => simp [flatAnn]

theorem compactPlan_false (fs : Fields) : compactPlan false fs = Option.none := by
  cases fs <;> simp [compactPlan]

theorem compactPlan_isSome : ∀ (fs : Fields), (compactPlan true fs).isSome = flatF fs
  | .nil => by simp [compactPlan, flatF]
  | .cons n tr d a rest => by
    have ih := compactPlan_isSome rest
    cases tr with
    | true => simp [compactPlan, flatF, ih]
    | false =>
      have ha := compactScalar_isSome a
      simp only [compactPlan, flatF, Bool.false_or, Bool.not_true, Bool.false_eq_true, if_false]
      cases h1 : compactScalar a with
      | none => rw [h1] at ha; simp [← ha]
      | some s =>
        rw [h1] at ha
        cases h2 : compactPlan true rest with
        | none => rw [h2] at ih; simp [← ih, ← ha]
        | some p => rw [h2] at ih; simp [← ih, ← ha]

/-- the keyword arguments the compact decoder collects: the non-transient fields, in order -/
def kwOf : Fields → List (List Char × V) → List (List Char × V)
  | .cons n tr _ _ rest, (_, v) :: ofs => if tr then kwOf rest ofs else (n, v) :: kwOf rest ofs
  | _, _ => []

def planNames (p : List (List Char × Ann × Scalar)) : List (List Char) := p.map (fun f => f.1)

theorem planNames_sub : ∀ (fs : Fields) (p : List (List Char × Ann × Scalar)), compactPlan true fs = some p →
    ∀ n ∈ planNames p, n ∈ fieldNames fs
  | .nil, p, h, n, hn => by
    simp [compactPlan] at h; subst h; simp [planNames] at hn
  | .cons m tr d a rest, p, h, n, hn => by
    simp only [fieldNames, List.mem_cons]
    cases tr with
    | true =>
      simp only [compactPlan, Bool.not_true, Bool.false_eq_true, if_false, if_true] at h
      exact Or.inr (planNames_sub rest p h n hn)
    | false =>
      simp only [compactPlan, Bool.not_true, Bool.false_eq_true, if_false] at h
      cases h1 : compactScalar a with
      | none => simp [h1] at h
      | some s =>
        cases h2 : compactPlan true rest with
        | none => simp [h1, h2] at h
        | some q =>
          simp only [h1, h2, Option.some.injEq] at h
          subst h
          simp only [planNames, List.map_cons, List.mem_cons] at hn
          rcases hn with hn | hn
          · exact Or.inl hn
          · exact Or.inr (planNames_sub rest q h2 n hn)

theorem compactKwargs_skip (env : Env) (n : List Char) (x : V) :
    ∀ (p : List (List Char × Ann × Scalar)) (row : List (V × V)), n ∉ planNames p →
      compactKwargs env p ((.str n, x) :: row) = compactKwargs env p row
  | [], row, _ => by simp [compactKwargs]
  | (m, a, s) :: p, row, h => by
    simp only [planNames, List.map_cons, List.mem_cons, not_or] at h
    simp only [compactKwargs]
    rw [dictGet_cons_ne n m x row h.1, compactKwargs_skip env n x p row h.2]

theorem construct_skip (n : List Char) (x : V) :
    ∀ (fs : Fields) (kw : List (List Char × V)), n ∉ fieldNames fs →
      construct fs ((n, x) :: kw) = construct fs kw
  | .nil, kw, _ => by simp [construct]
  | .cons m tr d a rest, kw, h => by
    simp only [fieldNames, List.mem_cons, not_or] at h
    simp only [construct]
    rw [fieldGet_cons_ne n m x kw h.1, construct_skip n x rest kw h.2]

/-- a flat field: what travels is the value itself, it comes back unchanged, and `norm` leaves it alone -/
theorem flat_field (env : Env) (a : Ann) (s : Scalar) (v : V) (hc : compactScalar a = some s)
    (h : inhabits env a v = true) :
    wireField id env a v = v ∧ (if exactOk s v then (pure v : R V) else deser env a v) = .ok v ∧ norm env a v = v := by
  rcases (compactScalar_some a s).1 hc with rfl | rfl
  · rcases inh_scalar h with ⟨rfl, x, rfl⟩ | ⟨rfl, x, rfl⟩ | ⟨rfl, i, rfl, hi⟩ | ⟨rfl, b, rfl⟩ | ⟨rfl, b, rfl⟩ <;>
      simp [wireField, wire, exactOk, norm] <;> rfl
  · rcases inh_opt h with rfl | ⟨_, h'⟩
    · simp [wireField, wire, exactOk, norm, deser]
    · rcases inh_scalar h' with ⟨rfl, x, rfl⟩ | ⟨rfl, x, rfl⟩ | ⟨rfl, i, rfl, hi⟩ | ⟨rfl, b, rfl⟩ | ⟨rfl, b, rfl⟩ <;>
        simp [wireField, wire, exactOk, norm] <;> rfl

theorem compact_decode : ∀ (env : Env) (fs : Fields) (ofs : List (List Char × V)) (p : List (List Char × Ann × Scalar)),
    supportedF fs = true → inhabitsF env fs ofs = true → compactPlan true fs = some p →
    compactKwargs env p (wireF id env fs ofs) = .ok (kwOf fs ofs) ∧ construct fs (kwOf fs ofs) = .ok (normF env fs ofs)
      ∧ ∀ n ∈ (kwOf fs ofs).map Prod.fst, n ∈ fieldNames fs
  | env, .nil, ofs, p, _, h, hp => by
    rw [inhF_nil h]
    simp [compactPlan] at hp
    subst hp
    simp [compactKwargs, wireF, kwOf, construct, normF]
  | env, .cons n tr d a rest, ofs, p, hs, h, hp => by
    obtain ⟨v, ofs', rfl, hv, ht⟩ := inhF_cons h
    obtain ⟨hn, hd, hsa, hsr⟩ := supF_cons hs
    cases tr with
    | true =>
      simp only [compactPlan, Bool.not_true, Bool.false_eq_true, if_false, if_true] at hp
      obtain ⟨ih1, ih2, ih3⟩ := compact_decode env rest ofs' p hsr ht hp
      obtain ⟨dv, rfl⟩ := Option.isSome_iff_exists.1 (hd rfl)
      refine ⟨by simpa [wireF, kwOf] using ih1, ?_, ?_⟩
      · simp only [kwOf, if_true, construct, normF, ih2, Option.getD_some]
        rfl
      · intro m hm
        simp only [kwOf, if_true] at hm
        simp only [fieldNames, List.mem_cons]
        exact Or.inr (ih3 m hm)
    | false =>
      have hv' : inhabits env a v = true := by simpa using hv
      simp only [compactPlan, Bool.not_true, Bool.false_eq_true, if_false] at hp
      cases h1 : compactScalar a with
      | none => simp [h1] at hp
      | some s =>
        cases h2 : compactPlan true rest with
        | none => simp [h1, h2] at hp
        | some q =>
          simp only [h1, h2, Option.some.injEq] at hp
          subst hp
          obtain ⟨ih1, ih2, ih3⟩ := compact_decode env rest ofs' q hsr ht h2
          obtain ⟨f1, f2, f3⟩ := flat_field env a s v h1 hv'
          have hq : n ∉ planNames q := fun hm => hn (planNames_sub rest q h2 n hm)
          have hk : n ∉ fieldNames rest := hn
          refine ⟨?_, ?_, ?_⟩
          · simp only [wireF, Bool.false_eq_true, if_false, kwOf, compactKwargs, dictGet_cons_eq, f1,
              compactKwargs_skip env n v q _ hq, ih1]
            by_cases hx : exactOk s v = true
            · simp only [hx, if_true]
              rfl
            · have hx' : exactOk s v = false := by simpa using hx
              rw [hx'] at f2
              have f2' : deser env a v = .ok v := by simpa using f2
              simp only [hx', Bool.false_eq_true, if_false, f2']
              rfl
          · simp only [kwOf, Bool.false_eq_true, if_false, construct, fieldGet_cons_eq, construct_skip n v rest _ hk, ih2,
              normF, f3]
            rfl
          · intro m hm
            simp only [kwOf, Bool.false_eq_true, if_false, List.map_cons, List.mem_cons] at hm
            simp only [fieldNames, List.mem_cons]
            rcases hm with hm | hm
            · exact Or.inl hm
            · exact Or.inr (ih3 m hm)

end Aux
end VgiVerif.C03
