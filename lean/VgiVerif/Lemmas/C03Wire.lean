import VgiVerif.Model.C03
import VgiVerif.Spec.C03
import VgiVerif.Lemmas.PyVal
/-
C03 helper lemmas, part 1 (namespace `Aux`): the round trip of one value / one class.

Proof plan for the round trip (mutual structural induction over `Ann` / `Fields`, unbounded depth):
  wire rd a v   the closed form of what travels: `rd = id` before the typed Arrow column, `rd = env.round32` after it
  T1  ser a v = ok (wire id a v)                       T1F  toRow fs o = ok (wireF id fs o)
  T2  arrowRT (infer a) (wire id a v) = ok (wire r32 a v)   T2F  arrowS (inferF fs) (wireF id fs o) = ok (wireF r32 fs o)
  T3  deser a (wire r32 a v) = ok (norm a v)           T3F  nested / fromRow fs (wireF r32 fs o) = ok (normF fs o)
-/
namespace VgiVerif.C03
open VgiVerif.Py

namespace Aux

/-! ### the extracted tables have the shape the proofs are about (re-checked on every run) -/

theorem scalarATy_str : scalarATy .str = .utf8 := by rfl
theorem scalarATy_bytes : scalarATy .bytes = .binary := by rfl
theorem scalarATy_int : scalarATy .int = .int .i64 := by rfl
theorem scalarATy_float : scalarATy .float = .f64 := by rfl
theorem scalarATy_bool : scalarATy .bool = .bool := by rfl
theorem setRecurses : Gen.C03.setRecurses = true := by decide
theorem dictRecurses : Gen.C03.dictRecurses = true := by decide
theorem compactRefusesExplicit : Gen.C03.compactRefusesExplicit = true := by decide
theorem compactClaims_all (s : Scalar) : compactClaims s = true := by cases s <;> decide
theorem markers : Gen.C03.compactMarker ≠ Gen.C03.ipcFirstByte ∧ Gen.C03.compactMarker ≠ Gen.C03.unionMarker
    ∧ Gen.C03.unionMarker ≠ Gen.C03.ipcFirstByte := by decide

/-! ### closed form of the travelling value -/

mutual
def wire (rd : Nat → Nat) (env : Env) : Ann → V → V
  | _, .none => .none
  | .opt a, v => wire rd env a v
  | .float32, .float b => .float (rd b)
  | .enum _, .enum n => .str n
  | .list a, .list xs => .list (xs.map (wire rd env a))
  | .set a, .set xs => .list (xs.map (wire rd env a))
  | .map k v, .dict kvs => .list (kvs.map (fun p => .tuple [wire rd env k p.1, wire rd env v p.2]))
  | .dc _ fs, .obj _ ofs => .dict (wireF rd env fs ofs)
  | .dcBin _ fs, .obj _ ofs => .dict (wireF rd env fs ofs)
  | .schema, .arrowObj k i => .ipc (.arrowObj k i)
  | .batch, .arrowObj k i => .ipc (.arrowObj k i)
  | _, v => v
def wireField (rd : Nat → Nat) (env : Env) : Ann → V → V
  | .dcBin _ fs, .obj _ ofs => .ipc (.dict (wireF env.round32 env fs ofs))
  | .opt (.dcBin _ fs), .obj _ ofs => .ipc (.dict (wireF env.round32 env fs ofs))
  | a, v => wire rd env a v
def wireF (rd : Nat → Nat) (env : Env) : Fields → List (List Char × V) → List (V × V)
  | .cons n tr _ a rest, (_, v) :: ofs =>
    if tr then wireF rd env rest ofs else (.str n, wireField rd env a v) :: wireF rd env rest ofs
  | _, _ => []
end

theorem wire_none (rd : Nat → Nat) (env : Env) (a : Ann) : wire rd env a .none = .none := by
  cases a <;> simp [wire]

/-! ### inversion of `inhabits` -/

theorem inh_opt {env : Env} {a : Ann} {v : V} (h : inhabits env (.opt a) v = true) :
    v = .none ∨ (v ≠ .none ∧ inhabits env a v = true) := by
  cases v <;> simp_all [inhabits]

theorem inh_list {env : Env} {a : Ann} {v : V} (h : inhabits env (.list a) v = true) :
    ∃ xs, v = .list xs ∧ ∀ x ∈ xs, inhabits env a x = true := by
  cases v <;> simp_all [inhabits]

theorem inh_set {env : Env} {a : Ann} {v : V} (h : inhabits env (.set a) v = true) :
    ∃ xs, v = .set xs ∧ (∀ x ∈ xs, inhabits env a x = true) ∧ pyDistinct xs = true := by
  cases v <;> simp_all [inhabits]

theorem inh_map {env : Env} {k w : Ann} {v : V} (h : inhabits env (.map k w) v = true) :
    ∃ kvs, v = .dict kvs ∧ (∀ p ∈ kvs, inhabits env k p.1 = true ∧ inhabits env w p.2 = true ∧ p.1 ≠ .none)
      ∧ pyDistinct (kvs.map Prod.fst) = true := by
  cases v with
  | dict kvs =>
    simp only [inhabits, Bool.and_eq_true, List.all_eq_true] at h
    refine ⟨kvs, rfl, ?_, h.2⟩
    intro p hp
    have := h.1 p hp
    refine ⟨this.1.1, this.1.2, ?_⟩
    intro hn
    rw [hn] at this
    simp at this
  | _ => simp_all [inhabits]

theorem inh_dc {env : Env} {n : List Char} {fs : Fields} {v : V} (h : inhabits env (.dc n fs) v = true) :
    ∃ ofs, v = .obj n ofs ∧ inhabitsF env fs ofs = true := by
  cases v <;> simp_all [inhabits]

theorem inh_dcBin {env : Env} {n : List Char} {fs : Fields} {v : V} (h : inhabits env (.dcBin n fs) v = true) :
    ∃ ofs, v = .obj n ofs ∧ inhabitsF env fs ofs = true := by
  cases v <;> simp_all [inhabits]

theorem inh_enum {env : Env} {ms : List (List Char × Option (List Char))} {v : V} (h : inhabits env (.enum ms) v = true) :
    ∃ n, v = .enum n ∧ ms.any (fun m => m.1 == n) = true := by
  cases v <;> simp_all [inhabits]

theorem inh_schema {env : Env} {v : V} (h : inhabits env .schema v = true) : ∃ i, v = .arrowObj 0 i := by
  cases v <;> simp_all [inhabits]

theorem inh_batch {env : Env} {v : V} (h : inhabits env .batch v = true) : ∃ i, v = .arrowObj 1 i := by
  cases v <;> simp_all [inhabits]

theorem inh_intW {env : Env} {w : IntW} {v : V} (h : inhabits env (.intW w) v = true) :
    ∃ i, v = .int i ∧ w.fits i = true := by
  cases v <;> simp_all [inhabits]

theorem inh_float32 {env : Env} {v : V} (h : inhabits env .float32 v = true) : ∃ b, v = .float b := by
  cases v <;> simp_all [inhabits]

theorem inh_scalar {env : Env} {s : Scalar} {v : V} (h : inhabits env (.scalar s) v = true) :
    (s = .str ∧ ∃ x, v = .str x) ∨ (s = .bytes ∧ ∃ x, v = .bytes x) ∨ (s = .int ∧ ∃ i, v = .int i ∧ IntW.i64.fits i = true)
      ∨ (s = .float ∧ ∃ b, v = .float b) ∨ (s = .bool ∧ ∃ b, v = .bool b) := by
  cases s <;> cases v <;> simp_all [inhabits, int64Fits]

theorem inhF_nil {env : Env} {ofs : List (List Char × V)} (h : inhabitsF env .nil ofs = true) : ofs = [] := by
  cases ofs <;> simp_all [inhabitsF]

theorem inhF_cons {env : Env} {n : List Char} {tr : Bool} {d : Option V} {a : Ann} {rest : Fields}
    {ofs : List (List Char × V)} (h : inhabitsF env (.cons n tr d a rest) ofs = true) :
    ∃ v ofs', ofs = (n, v) :: ofs' ∧ (tr = true ∨ inhabits env a v = true) ∧ inhabitsF env rest ofs' = true := by
  cases ofs with
  | nil => simp [inhabitsF] at h
  | cons hd tl =>
    obtain ⟨n', v⟩ := hd
    simp only [inhabitsF, Bool.and_eq_true, Bool.or_eq_true, beq_iff_eq] at h
    obtain ⟨⟨hn, hv⟩, ht⟩ := h
    subst hn
    exact ⟨v, tl, rfl, hv, ht⟩

theorem wire_ne_none (rd : Nat → Nat) (env : Env) : ∀ (a : Ann) (v : V), v ≠ .none → wire rd env a v ≠ .none
  | .opt a, v, h => by
    have := wire_ne_none rd env a v h
    cases v <;> simp_all [wire]
  | .scalar _, v, h => by cases v <;> simp_all [wire]
  | .intW _, v, h => by cases v <;> simp_all [wire]
  | .float32, v, h => by cases v <;> simp_all [wire]
  | .enum _, v, h => by cases v <;> simp_all [wire]
  | .list _, v, h => by cases v <;> simp_all [wire]
  | .set _, v, h => by cases v <;> simp_all [wire]
  | .map _ _, v, h => by cases v <;> simp_all [wire]
  | .dc _ _, v, h => by cases v <;> simp_all [wire]
  | .dcBin _ _, v, h => by cases v <;> simp_all [wire]
  | .schema, v, h => by cases v <;> simp_all [wire]
  | .batch, v, h => by cases v <;> simp_all [wire]

theorem inferF_names : ∀ (fs : Fields) (n : List Char), n ∈ (inferF fs).map Prod.fst → n ∈ fieldNames fs
  | .nil, n, h => by simp [inferF] at h
  | .cons m tr d a rest, n, h => by
    simp only [inferF] at h
    simp only [fieldNames, List.mem_cons]
    split at h
    · exact Or.inr (inferF_names rest n h)
    · simp only [List.map_cons, List.mem_cons] at h
      rcases h with h | h
      · exact Or.inl h
      · exact Or.inr (inferF_names rest n h)

theorem arrowS_skip (env : Env) (n : List Char) (x : V) :
    ∀ (fs : List (List Char × ATy)) (kvs : List (V × V)), n ∉ fs.map Prod.fst →
      arrowS env fs ((.str n, x) :: kvs) = arrowS env fs kvs
  | [], kvs, _ => by simp [arrowS]
  | (m, t) :: fs, kvs, h => by
    simp only [List.map_cons, List.mem_cons, not_or] at h
    simp only [arrowS]
    rw [dictGet_cons_ne n m x kvs h.1, arrowS_skip env n x fs kvs h.2]

theorem supTop_of_not_bin {a : Ann} (h : supportedTop a = true)
    (h1 : ∀ n fs, a ≠ .dcBin n fs) (h2 : ∀ n fs, a ≠ .opt (.dcBin n fs)) : supported a = true := by
  cases a with
  | dcBin n fs => exact absurd rfl (h1 n fs)
  | opt b =>
    cases b with
    | dcBin n fs => exact absurd rfl (h2 n fs)
    | _ => simp_all [supportedTop, supported]
  | _ => simp_all [supportedTop, supported]

theorem wireField_eq (rd : Nat → Nat) (env : Env) (a : Ann) (v : V)
    (h1 : ∀ n fs, a ≠ .dcBin n fs) (h2 : ∀ n fs, a ≠ .opt (.dcBin n fs)) : wireField rd env a v = wire rd env a v := by
  unfold wireField
  split <;> simp_all

theorem T2top_of (env : Env) (a : Ann) (v : V) (hs : supportedTop a = true) (h : inhabits env a v = true)
    (ih : supported a = true → arrowRT env (infer a) (wire id env a v) = .ok (wire env.round32 env a v)) :
    arrowRT env (infer a) (wireField id env a v) = .ok (wireField env.round32 env a v) := by
  by_cases h1 : ∃ n fs, a = .dcBin n fs
  · obtain ⟨n, fs, rfl⟩ := h1
    obtain ⟨ofs, rfl, _⟩ := inh_dcBin h
    simp [infer, wireField, arrowRT]
  · by_cases h2 : ∃ n fs, a = .opt (.dcBin n fs)
    · obtain ⟨n, fs, rfl⟩ := h2
      rcases inh_opt h with rfl | ⟨_, h'⟩
      · simp [wireField, wire, arrowRT]
      · obtain ⟨ofs, rfl, _⟩ := inh_dcBin h'
        simp [infer, wireField, arrowRT]
    · have h1' : ∀ n fs, a ≠ .dcBin n fs := fun n fs e => h1 ⟨n, fs, e⟩
      have h2' : ∀ n fs, a ≠ .opt (.dcBin n fs) := fun n fs e => h2 ⟨n, fs, e⟩
      rw [wireField_eq id env a v h1' h2', wireField_eq env.round32 env a v h1' h2']
      exact ih (supTop_of_not_bin hs h1' h2')

mutual
theorem T2 (env : Env) : ∀ (a : Ann) (v : V), supported a = true → inhabits env a v = true →
    arrowRT env (infer a) (wire id env a v) = .ok (wire env.round32 env a v)
  | .scalar s, v, _, h => by
    rcases inh_scalar h with ⟨rfl, x, rfl⟩ | ⟨rfl, x, rfl⟩ | ⟨rfl, i, rfl, hi⟩ | ⟨rfl, b, rfl⟩ | ⟨rfl, b, rfl⟩
    · simp [infer, scalarATy_str, wire, arrowRT]
    · simp [infer, scalarATy_bytes, wire, arrowRT]
    · simp [infer, scalarATy_int, wire, arrowRT, hi]
    · simp [infer, scalarATy_float, wire, arrowRT]
    · simp [infer, scalarATy_bool, wire, arrowRT]
  | .intW w, v, _, h => by
    obtain ⟨i, rfl, hi⟩ := inh_intW h
    simp [infer, wire, arrowRT, hi]
  | .float32, v, _, h => by
    obtain ⟨b, rfl⟩ := inh_float32 h
    simp [infer, wire, arrowRT]
  | .enum ms, v, _, h => by
    obtain ⟨n, rfl, _⟩ := inh_enum h
    simp [infer, wire, arrowRT]
  | .opt a, v, hs, h => by
    rcases inh_opt h with rfl | ⟨hv, h'⟩
    · simp [wire, arrowRT]
    · have ih := T2 env a v (by simp_all [supported]) h'
      cases v <;> simp_all [wire, infer]
  | .list a, v, hs, h => by
    obtain ⟨xs, rfl, hx⟩ := inh_list h
    have hs' : supported a = true := by simp_all [supported]
    have := mapM_map_ok (f := arrowRT env (infer a)) (w := wire id env a) (g := wire env.round32 env a) xs
      (fun x hx' => T2 env a x hs' (hx x hx'))
    simp only [infer, wire, arrowRT, this]
    rfl
  | .set a, v, hs, h => by
    obtain ⟨xs, rfl, hx, _⟩ := inh_set h
    have hs' : supported a = true := by simp_all [supported]
    have := mapM_map_ok (f := arrowRT env (infer a)) (w := wire id env a) (g := wire env.round32 env a) xs
      (fun x hx' => T2 env a x hs' (hx x hx'))
    simp only [infer, wire, arrowRT, this]
    rfl
  | .map k w, v, hs, h => by
    obtain ⟨kvs, rfl, hp, _⟩ := inh_map h
    have hsk : supported k = true ∧ supported w = true := by simp_all [supported]
    have := mapM_map_ok (f := mapEntry (arrowRT env (infer k)) (arrowRT env (infer w)))
      (w := fun p => V.tuple [wire id env k p.1, wire id env w p.2])
      (g := fun p => V.tuple [wire env.round32 env k p.1, wire env.round32 env w p.2]) kvs
      (by
        intro p hp'
        obtain ⟨h1, h2, h3⟩ := hp p hp'
        exact mapEntry_ok (wire_ne_none id env k p.1 h3) (T2 env k p.1 hsk.1 h1) (T2 env w p.2 hsk.2 h2))
    simp only [infer, wire, arrowRT, this]
    rfl
  | .dc n fs, v, hs, h => by
    obtain ⟨ofs, rfl, hf⟩ := inh_dc h
    have := T2F env fs ofs (by simp_all [supported]) hf
    simp only [infer, wire, arrowRT, this]
    rfl
  | .dcBin n fs, v, hs, h => by simp [supported] at hs
  | .schema, v, _, h => by
    obtain ⟨i, rfl⟩ := inh_schema h
    simp [infer, wire, arrowRT]
  | .batch, v, _, h => by
    obtain ⟨i, rfl⟩ := inh_batch h
    simp [infer, wire, arrowRT]
theorem T2F (env : Env) : ∀ (fs : Fields) (ofs : List (List Char × V)), supportedF fs = true → inhabitsF env fs ofs = true →
    arrowS env (inferF fs) (wireF id env fs ofs) = .ok (wireF env.round32 env fs ofs)
  | .nil, ofs, _, h => by
    rw [inhF_nil h]; simp [inferF, wireF, arrowS]
  | .cons n tr d a rest, ofs, hs, h => by
    obtain ⟨v, ofs', rfl, hv, ht⟩ := inhF_cons h
    simp only [supportedF, Bool.and_eq_true, Bool.not_eq_true', Bool.or_eq_true] at hs
    obtain ⟨⟨⟨hn, hd⟩, hsa⟩, hsr⟩ := hs
    have ih := T2F env rest ofs' hsr ht
    cases tr with
    | true => simp [inferF, wireF, ih]
    | false =>
      have hv' : inhabits env a v = true := by simpa using hv
      have e := T2top_of env a v hsa hv' (fun hs' => T2 env a v hs' hv')
      have hskip : n ∉ (inferF rest).map Prod.fst := by
        intro hm
        have := inferF_names rest n hm
        simp_all
      simp [inferF, wireF, arrowS, dictGet_cons_eq, e, arrowS_skip env n _ _ _ hskip, ih]
      rfl
end

theorem toRow_skip (env : Env) (n : List Char) (x : V) :
    ∀ (fs : Fields) (ofs : List (List Char × V)), n ∉ fieldNames fs →
      toRow env fs ((n, x) :: ofs) = toRow env fs ofs
  | .nil, ofs, _ => by simp [toRow]
  | .cons m tr d a rest, ofs, h => by
    simp only [fieldNames, List.mem_cons, not_or] at h
    simp only [toRow]
    rw [fieldGet_cons_ne n m x ofs h.1, toRow_skip env n x rest ofs h.2]

theorem supF_cons {n : List Char} {tr : Bool} {d : Option V} {a : Ann} {rest : Fields}
    (hs : supportedF (.cons n tr d a rest) = true) :
    n ∉ fieldNames rest ∧ (tr = true → d.isSome = true) ∧ supportedTop a = true ∧ supportedF rest = true := by
  simp only [supportedF, Bool.and_eq_true, Bool.not_eq_true', Bool.or_eq_true] at hs
  obtain ⟨⟨⟨hn, hd⟩, hsa⟩, hsr⟩ := hs
  refine ⟨?_, ?_, hsa, hsr⟩
  · intro hm
    simp_all
  · intro ht
    simp_all

mutual
theorem T1 (env : Env) : ∀ (a : Ann) (v : V), supported a = true → inhabits env a v = true →
    ser env a v = .ok (wire id env a v)
  | .scalar s, v, _, h => by
    rcases inh_scalar h with ⟨rfl, x, rfl⟩ | ⟨rfl, x, rfl⟩ | ⟨rfl, i, rfl, hi⟩ | ⟨rfl, b, rfl⟩ | ⟨rfl, b, rfl⟩ <;> simp [ser, wire]
  | .intW w, v, _, h => by
    obtain ⟨i, rfl, hi⟩ := inh_intW h
    simp [ser, wire]
  | .float32, v, _, h => by
    obtain ⟨b, rfl⟩ := inh_float32 h
    simp [ser, wire]
  | .enum ms, v, _, h => by
    obtain ⟨n, rfl, _⟩ := inh_enum h
    simp [ser, wire]
  | .opt a, v, hs, h => by
    rcases inh_opt h with rfl | ⟨hv, h'⟩
    · simp [wire, ser]
    · have ih := T1 env a v (by simp_all [supported]) h'
      cases v <;> simp_all [wire, ser]
  | .list a, v, hs, h => by
    obtain ⟨xs, rfl, hx⟩ := inh_list h
    have hs' : supported a = true := by simp_all [supported]
    have := mapM_ok (f := ser env a) (g := wire id env a) xs (fun x hx' => T1 env a x hs' (hx x hx'))
    simp only [ser, wire, this]
    rfl
  | .set a, v, hs, h => by
    obtain ⟨xs, rfl, hx, _⟩ := inh_set h
    have hs' : supported a = true := by simp_all [supported]
    have := mapM_ok (f := ser env a) (g := wire id env a) xs (fun x hx' => T1 env a x hs' (hx x hx'))
    simp only [ser, wire, this]
    rfl
  | .map k w, v, hs, h => by
    obtain ⟨kvs, rfl, hp, _⟩ := inh_map h
    have hsk : supported k = true ∧ supported w = true := by simp_all [supported]
    have := mapM_ok (f := pairM (ser env k) (ser env w))
      (g := fun p => V.tuple [wire id env k p.1, wire id env w p.2]) kvs
      (by
        intro p hp'
        obtain ⟨h1, h2, _⟩ := hp p hp'
        simp only [pairM, T1 env k p.1 hsk.1 h1, T1 env w p.2 hsk.2 h2]
        rfl)
    simp only [ser, wire, this]
    rfl
  | .dc n fs, v, hs, h => by
    obtain ⟨ofs, rfl, hf⟩ := inh_dc h
    have := T1F env fs ofs (by simp_all [supported]) hf
    simp only [ser, wire, this]
    rfl
  | .dcBin n fs, v, hs, h => by simp [supported] at hs
  | .schema, v, _, h => by
    obtain ⟨i, rfl⟩ := inh_schema h
    simp [ser, wire]
  | .batch, v, _, h => by
    obtain ⟨i, rfl⟩ := inh_batch h
    simp [ser, wire]
theorem T1F (env : Env) : ∀ (fs : Fields) (ofs : List (List Char × V)), supportedF fs = true → inhabitsF env fs ofs = true →
    toRow env fs ofs = .ok (wireF id env fs ofs)
  | .nil, ofs, _, h => by
    rw [inhF_nil h]; simp [wireF, toRow]
  | .cons n tr d a rest, ofs, hs, h => by
    obtain ⟨v, ofs', rfl, hv, ht⟩ := inhF_cons h
    obtain ⟨hn, hd, hsa, hsr⟩ := supF_cons hs
    have ih := T1F env rest ofs' hsr ht
    cases tr with
    | true => simp [toRow, wireF, toRow_skip env n v rest ofs' hn, ih]
    | false =>
      have hv' : inhabits env a v = true := by simpa using hv
      have e : serField env a v = .ok (wireField id env a v) := by
        cases a with
        | dcBin n' fs' =>
          obtain ⟨o2, rfl, hf2⟩ := inh_dcBin hv'
          have hs2 : supportedF fs' = true := by simpa [supportedTop] using hsa
          have r1 := T1F env fs' o2 hs2 hf2
          have r2 := T2F env fs' o2 hs2 hf2
          simp only [serField, wireField, r1]
          show (arrowS env (inferF fs') (wireF id env fs' o2) >>= fun r => pure (V.ipc (V.dict r))) = _
          rw [r2]
          rfl
        | opt b =>
          cases b with
          | dcBin n' fs' =>
            rcases inh_opt hv' with rfl | ⟨_, h'⟩
            · simp [serField, wireField, ser, wire]
            · obtain ⟨o2, rfl, hf2⟩ := inh_dcBin h'
              have hs2 : supportedF fs' = true := by simpa [supportedTop] using hsa
              have r1 := T1F env fs' o2 hs2 hf2
              have r2 := T2F env fs' o2 hs2 hf2
              simp only [serField, wireField, r1]
              show (arrowS env (inferF fs') (wireF id env fs' o2) >>= fun r => pure (V.ipc (V.dict r))) = _
              rw [r2]
              rfl
          | _ =>
            rw [wireField_eq id env _ v (by simp) (by simp)]
            simp only [serField]
            exact T1 env _ v (by simpa [supportedTop, supported] using hsa) hv'
        | _ =>
          rw [wireField_eq id env _ v (by simp) (by simp)]
          simp only [serField]
          exact T1 env _ v (by simpa [supportedTop, supported] using hsa) hv'
      simp [toRow, wireF, fieldGet_cons_eq, e, toRow_skip env n v rest ofs' hn, ih]
      rfl
end

end Aux
end VgiVerif.C03
