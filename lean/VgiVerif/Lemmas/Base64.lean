import VgiVerif.Prelude.Base64
/-
Round trip of the unpadded URL-safe base64 model: decoding an encoding gives the bytes back (any length),
and 32 bytes encode to 43 characters.
-/
namespace VgiVerif.Base64

theorem val_chr : ∀ k, k < 64 → val (chr k) = some k := by decide

theorem vals_map_chr (l : List Nat) (h : ∀ x ∈ l, x < 64) : vals (l.map chr) = some l := by
  induction l with
  | nil => rfl
  | cons x xs ih =>
    simp only [List.map_cons, vals]
    rw [val_chr x (h x (by simp)), ih (fun y hy => h y (by simp [hy]))]

theorem encSextets_lt (m : List UInt8) : ∀ x ∈ encSextets m, x < 64 := by
  fun_induction encSextets m with
  | case1 a b c r n ih =>
    intro x hx
    simp only [List.mem_cons] at hx
    have ha := a.toNat_lt; have hb := b.toNat_lt; have hc := c.toNat_lt
    rcases hx with rfl | rfl | rfl | rfl | hx
    · omega
    · omega
    · omega
    · omega
    · exact ih x hx
  | case2 a b n =>
    intro x hx
    have ha := a.toNat_lt; have hb := b.toNat_lt
    simp only [List.mem_cons, List.not_mem_nil, or_false] at hx
    rcases hx with rfl | rfl | rfl <;> omega
  | case3 a =>
    intro x hx
    have ha := a.toNat_lt
    simp only [List.mem_cons, List.not_mem_nil, or_false] at hx
    rcases hx with rfl | rfl <;> omega
  | case4 => simp

theorem encSextets_length (m : List UInt8) : (encSextets m).length % 4 ≠ 1 := by
  fun_induction encSextets m with
  | case1 a b c r n ih => simp only [List.length_cons]; omega
  | case2 a b n => simp
  | case3 a => simp
  | case4 => simp

theorem ofNat_eq (a : UInt8) (n : Nat) (h : n = a.toNat) : UInt8.ofNat n = a := by
  subst h; exact UInt8.ofNat_toNat

theorem dec_enc (m : List UInt8) : decSextets (encSextets m) = m := by
  fun_induction encSextets m with
  | case1 a b c r n ih =>
    have ha := a.toNat_lt; have hb := b.toNat_lt; have hc := c.toNat_lt
    simp only [decSextets, ih]
    congr 1
    · apply ofNat_eq; omega
    congr 1
    · apply ofNat_eq; omega
    congr 1
    · apply ofNat_eq; omega
  | case2 a b n =>
    have ha := a.toNat_lt; have hb := b.toNat_lt
    simp only [decSextets]
    congr 1
    · apply ofNat_eq; omega
    congr 1
    · apply ofNat_eq; omega
  | case3 a =>
    have ha := a.toNat_lt
    simp only [decSextets]
    congr 1
    · apply ofNat_eq; omega
  | case4 => rfl

theorem decode_encode (m : List UInt8) : decode (encode m) = some m := by
  unfold decode encode
  rw [if_neg (by rw [List.length_map]; exact encSextets_length m), vals_map_chr _ (encSextets_lt m)]
  simp only [dec_enc]

theorem encSextets_length32 (m : List UInt8) (h : m.length = 32) : (encSextets m).length = 43 := by
  match m, h with
  | [a0,a1,a2,a3,a4,a5,a6,a7,a8,a9,a10,a11,a12,a13,a14,a15,a16,a17,a18,a19,a20,a21,a22,a23,a24,a25,a26,a27,a28,a29,a30,a31], _ => rfl
end VgiVerif.Base64
