import VgiVerif.Prelude.Sched
/-
Lemmas of the Sched kit: the invariant principle, runs vs reachability, trace inclusion modulo
internal steps, forward simulation, and the component invariants (Lock, RLock, Sem).
-/
namespace VgiVerif.Sched

namespace TS
variable {State Label : Type} (ts : TS State Label)

/-! ### runs -/

@[simp] theorem runFrom_nil (s : State) : ts.runFrom s [] = some s := rfl

theorem runFrom_cons (s : State) (l : Label) (ls : List Label) :
    ts.runFrom s (l :: ls) = (ts.step s l).bind (fun s' => ts.runFrom s' ls) := by
  simp only [runFrom]; cases ts.step s l <;> rfl

theorem runFrom_append (s : State) (l1 l2 : List Label) :
    ts.runFrom s (l1 ++ l2) = (ts.runFrom s l1).bind (fun s' => ts.runFrom s' l2) := by
  induction l1 generalizing s with
  | nil => rfl
  | cons l ls ih =>
    simp only [List.cons_append, runFrom]
    cases ts.step s l with
    | none => rfl
    | some s' => exact ih s'

theorem run_append (l1 l2 : List Label) :
    ts.run (l1 ++ l2) = (ts.run l1).bind (fun s' => ts.runFrom s' l2) := runFrom_append ts _ _ _

theorem run_snoc {ls : List Label} {l : Label} {s : State} :
    ts.run (ls ++ [l]) = some s ↔ ∃ s0, ts.run ls = some s0 ∧ ts.step s0 l = some s := by
  rw [run_append]
  cases h : ts.run ls with
  | none => simp
  | some s0 =>
    simp only [Option.bind_some, runFrom, Option.some.injEq, exists_eq_left']
    cases ts.step s0 l <;> simp

/-- a prefix of a run is a run -/
theorem runFrom_prefix {s s' : State} {l1 l2 : List Label} (h : ts.runFrom s (l1 ++ l2) = some s') :
    ∃ m, ts.runFrom s l1 = some m ∧ ts.runFrom m l2 = some s' := by
  rw [runFrom_append] at h
  cases hm : ts.runFrom s l1 with
  | none => rw [hm] at h; cases h
  | some m => rw [hm] at h; exact ⟨m, rfl, h⟩

theorem accepts_iff (ls : List Label) : ts.accepts ls = true ↔ ∃ s, ts.run ls = some s := by
  unfold accepts; cases ts.run ls <;> simp

theorem rejectFrom_none_iff (s : State) (ls : List Label) (i : Nat) :
    ts.rejectFrom s ls i = none ↔ (ts.runFrom s ls).isSome = true := by
  induction ls generalizing s i with
  | nil => simp [rejectFrom, runFrom]
  | cons l ls ih =>
    simp only [rejectFrom, runFrom]
    cases ts.step s l with
    | none => simp
    | some s' => exact ih s' (i + 1)

/-- `rejectIndex` is `none` exactly on accepted traces -/
theorem rejectIndex_none_iff (ls : List Label) : ts.rejectIndex ls = none ↔ ts.accepts ls = true :=
  rejectFrom_none_iff ts _ _ _

/-! ### reachability and the invariant principle -/

theorem reachable_runFrom {s s' : State} {ls : List Label} (hs : ts.Reachable s) (h : ts.runFrom s ls = some s') :
    ts.Reachable s' := by
  induction ls generalizing s with
  | nil => simp only [runFrom, Option.some.injEq] at h; exact h ▸ hs
  | cons l ls ih =>
    simp only [runFrom] at h
    cases hst : ts.step s l with
    | none => rw [hst] at h; cases h
    | some m => rw [hst] at h; exact ih (Reachable.step hs hst) h

theorem reachable_of_run {s : State} {ls : List Label} (h : ts.run ls = some s) : ts.Reachable s :=
  reachable_runFrom ts Reachable.init h

theorem reachable_iff_run (s : State) : ts.Reachable s ↔ ∃ ls, ts.run ls = some s := by
  constructor
  · intro h
    induction h with
    | init => exact ⟨[], rfl⟩
    | step _ hst ih =>
      obtain ⟨ls, hls⟩ := ih
      exact ⟨ls ++ [_], (run_snoc ts).2 ⟨_, hls, hst⟩⟩
  · rintro ⟨ls, h⟩; exact reachable_of_run ts h

/-- **invariant principle**: an inductive invariant holds in every reachable state -/
theorem invariant_of_step (Inv : State → Prop) (h0 : Inv ts.init)
    (hstep : ∀ s l s', Inv s → ts.step s l = some s' → Inv s') :
    ∀ s, ts.Reachable s → Inv s := by
  intro s h
  induction h with
  | init => exact h0
  | step _ hst ih => exact hstep _ _ _ ih hst

/-- the invariant principle when the inductive step may use reachability of the source state
(equivalently: an already established invariant) -/
theorem invariant_of_step_reachable (Inv : State → Prop) (h0 : Inv ts.init)
    (hstep : ∀ s l s', ts.Reachable s → Inv s → ts.step s l = some s' → Inv s') :
    ∀ s, ts.Reachable s → Inv s := by
  intro s h
  induction h with
  | init => exact h0
  | step hr hst ih => exact hstep _ _ _ hr ih hst

/-- invariants along a run from any state satisfying them -/
theorem invariant_runFrom (Inv : State → Prop)
    (hstep : ∀ s l s', Inv s → ts.step s l = some s' → Inv s')
    {s s' : State} {ls : List Label} (hs : Inv s) (h : ts.runFrom s ls = some s') : Inv s' := by
  induction ls generalizing s with
  | nil => simp only [runFrom, Option.some.injEq] at h; exact h ▸ hs
  | cons l ls ih =>
    simp only [runFrom] at h
    cases hst : ts.step s l with
    | none => rw [hst] at h; cases h
    | some m => rw [hst] at h; exact ih (hstep _ _ _ hs hst) h

/-- every accepted trace ends in a state satisfying every inductive invariant -/
theorem invariant_of_run (Inv : State → Prop) (h0 : Inv ts.init)
    (hstep : ∀ s l s', Inv s → ts.step s l = some s' → Inv s')
    {ls : List Label} {s : State} (h : ts.run ls = some s) : Inv s :=
  invariant_runFrom ts Inv hstep h0 h

/-! ### trace inclusion modulo internal steps -/

theorem runExpandFrom_eq (expand : State → Label → List Label) (s : State) (ls : List Label) {s' : State}
    (h : ts.runExpandFrom expand s ls = some s') :
    ts.runFrom s (ts.expandFrom expand s ls) = some s' := by
  induction ls generalizing s with
  | nil => simpa [runExpandFrom, expandFrom] using h
  | cons l ls ih =>
    simp only [runExpandFrom] at h
    simp only [expandFrom]
    cases hm : ts.runFrom s (expand s l) with
    | none => rw [hm] at h; cases h
    | some m =>
      rw [hm] at h
      simp only
      rw [runFrom_append, hm]
      exact ih m h

/-- what `runExpand` accepts is a run of the model (over the expanded label sequence), hence reachable -/
theorem runExpand_run (expand : State → Label → List Label) (ls : List Label) {s : State}
    (h : ts.runExpand expand ls = some s) : ts.run (ts.expandFrom expand ts.init ls) = some s :=
  runExpandFrom_eq ts expand _ _ h

theorem runExpand_reachable (expand : State → Label → List Label) (ls : List Label) {s : State}
    (h : ts.runExpand expand ls = some s) : ts.Reachable s :=
  reachable_of_run ts (runExpand_run ts expand ls h)

end TS

/-! ### forward simulation -/

/-- forward simulation with stuttering: every concrete step is matched by zero or one abstract step.
Then every reachable concrete state is related to a reachable abstract state. -/
theorem TS.simulation {Sc Lc Sa La : Type} (tc : TS Sc Lc) (ta : TS Sa La) (R : Sc → Sa → Prop)
    (hinit : R tc.init ta.init)
    (hstep : ∀ sc sa l sc', R sc sa → tc.step sc l = some sc' →
      R sc' sa ∨ ∃ la sa', ta.step sa la = some sa' ∧ R sc' sa') :
    ∀ sc, tc.Reachable sc → ∃ sa, ta.Reachable sa ∧ R sc sa := by
  intro sc h
  induction h with
  | init => exact ⟨ta.init, .init, hinit⟩
  | step _ hst ih =>
    obtain ⟨sa, hra, hR⟩ := ih
    rcases hstep _ _ _ _ hR hst with h | ⟨la, sa', hsa, hR'⟩
    · exact ⟨sa, hra, h⟩
    · exact ⟨sa', .step hra hsa, hR'⟩

/-! ### function update -/

@[simp] theorem upd_same {α : Type} (f : Tid → α) (t : Tid) (v : α) : upd f t v t = v := by simp [upd]
theorem upd_other {α : Type} (f : Tid → α) {t x : Tid} (v : α) (h : x ≠ t) : upd f t v x = f x := by
  simp [upd, h]
theorem upd_apply {α : Type} (f : Tid → α) (t x : Tid) (v : α) : upd f t v x = if x = t then v else f x := rfl

/-! ### Lock -/

namespace Lock

theorem acquire_eq_some {t : Tid} {l l' : Lock} :
    l.acquire t = some l' ↔ l.owner = none ∧ l' = ⟨some t⟩ := by
  unfold acquire; split <;> simp_all [eq_comm]

theorem release_eq_some {t : Tid} {l l' : Lock} :
    l.release t = some l' ↔ l.owner = some t ∧ l' = ⟨none⟩ := by
  unfold release; split <;> simp_all [eq_comm]

theorem releaseAny_eq_some {l l' : Lock} :
    l.releaseAny = some l' ↔ l.owner ≠ none ∧ l' = ⟨none⟩ := by
  unfold releaseAny; split <;> simp_all [eq_comm]

/-- a held lock cannot be acquired (blocked acquire = not enabled) -/
theorem acquire_held {t o : Tid} {l : Lock} (h : l.owner = some o) : l.acquire t = none := by
  simp [acquire, h]

/-- only the owner can release -/
theorem release_not_owner {t : Tid} {l : Lock} (h : l.owner ≠ some t) : l.release t = none := by
  simp [release, h]

/-- **mutual exclusion**: two threads holding the same lock are the same thread -/
theorem heldBy_unique {l : Lock} {t t' : Tid} (h : l.heldBy t = true) (h' : l.heldBy t' = true) : t = t' := by
  simp only [heldBy, beq_iff_eq] at h h'
  rw [h] at h'; exact Option.some.inj h'

end Lock

/-- the mutual-exclusion pattern of a model that embeds a lock: a predicate `inCS` on threads
(derived from the model's program counters) such that every thread inside holds the lock -/
structure MutexInv (owner : Option Tid) (inCS : Tid → Prop) : Prop where
  held : ∀ t, inCS t → owner = some t

theorem MutexInv.excl {owner : Option Tid} {inCS : Tid → Prop} (h : MutexInv owner inCS) {t t' : Tid}
    (ht : inCS t) (ht' : inCS t') : t = t' := by
  have a := h.held t ht
  have b := h.held t' ht'
  rw [a] at b; exact Option.some.inj b

theorem MutexInv.free {inCS : Tid → Prop} (h : MutexInv none inCS) (t : Tid) : ¬ inCS t := by
  intro ht; have := h.held t ht; cases this

/-! ### RLock -/

namespace RLock

theorem wf_free : free.WF := by simp [WF, free]

theorem acquire_wf {t : Tid} {l l' : RLock} (_ : l.WF) (h : l.acquire t = some l') : l'.WF := by
  unfold acquire at h
  split at h
  · cases h; simp [WF]
  · split at h
    · cases h; simp [WF]
    · cases h

theorem release_wf {t : Tid} {l l' : RLock} (_ : l.WF) (h : l.release t = some l') : l'.WF := by
  unfold release at h
  split at h
  · split at h
    · cases h; simp [WF]
    · cases h; simp only [WF, reduceCtorEq, false_iff]; omega
  · cases h

/-- acquire succeeds exactly when free or already owned by the caller, and then the caller owns it -/
theorem acquire_eq_some {t : Tid} {l l' : RLock} (h : l.acquire t = some l') :
    (l.owner = none ∨ l.owner = some t) ∧ l'.owner = some t ∧
    l'.count = (if l.owner = none then 1 else l.count + 1) := by
  unfold acquire at h
  split at h
  next ho => cases h; simp [ho]
  next o ho =>
    split at h
    next hot => cases h; subst hot; simp [ho]
    next => cases h

theorem acquire_other_held {t o : Tid} {l : RLock} (h : l.owner = some o) (hne : o ≠ t) : l.acquire t = none := by
  simp [acquire, h, hne]

theorem release_eq_some {t : Tid} {l l' : RLock} (h : l.release t = some l') :
    l.owner = some t ∧ (l'.owner = none ∨ l'.owner = some t) ∧ l'.count = l.count - 1 := by
  unfold release at h
  split at h
  next ho =>
    split at h
    next hc => cases h; refine ⟨ho, Or.inl rfl, ?_⟩; simp only; omega
    next => cases h; exact ⟨ho, Or.inr rfl, rfl⟩
  next => cases h

/-- ownership changes hands only through the free state -/
theorem acquire_owner_stable {t o : Tid} {l l' : RLock} (h : l.acquire t = some l') (ho : l.owner = some o) :
    l'.owner = some o := by
  have := acquire_eq_some h
  rcases this.1 with h1 | h1
  · rw [h1] at ho; cases ho
  · rw [h1] at ho; cases ho; exact this.2.1

theorem heldBy_unique {l : RLock} {t t' : Tid} (h : l.heldBy t = true) (h' : l.heldBy t' = true) : t = t' := by
  simp only [heldBy, beq_iff_eq] at h h'
  rw [h] at h'; exact Option.some.inj h'

end RLock

/-! ### Sem -/

namespace Sem

theorem wf_mk' (n : Nat) : (mk' n).WF n := by simp [WF, mk']

theorem acquire_wf {cap : Nat} {t : Tid} {s s' : Sem} (hw : s.WF cap) (h : s.acquire t = some s') : s'.WF cap := by
  unfold acquire at h
  split at h
  · cases h
  · cases h; simp only [WF, List.length_cons] at *; omega

theorem release_wf {cap : Nat} {t : Tid} {s s' : Sem} (hw : s.WF cap) (h : s.release t = some s') : s'.WF cap := by
  unfold release at h
  split at h
  next hm =>
    cases h
    have hl := List.length_erase_of_mem hm
    have hpos : 0 < s.holders.length := List.length_pos_of_mem hm
    simp only [WF] at *
    omega
  next => cases h

/-- at most `cap` permits are out at any time -/
theorem holders_le {cap : Nat} {s : Sem} (hw : s.WF cap) : s.holders.length ≤ cap := by
  simp only [WF] at hw; omega

/-- acquire is refused exactly when all permits are out -/
theorem acquire_eq_none {cap : Nat} {t : Tid} {s : Sem} (hw : s.WF cap) :
    s.acquire t = none ↔ s.holders.length = cap := by
  simp only [WF] at hw
  unfold acquire
  split
  · simp; omega
  · simp; omega

theorem acquire_holders {t : Tid} {s s' : Sem} (h : s.acquire t = some s') : s'.holders = t :: s.holders := by
  unfold acquire at h; split at h
  · cases h
  · cases h; rfl

end Sem

/-! ### Timer -/

namespace Timer

theorem fire_eq_some {t t' : Timer} : t.fire = some t' ↔ t = .armed ∧ t' = .fired := by
  cases t <;> simp [fire, eq_comm]

theorem start_eq_some {t t' : Timer} : t.start = some t' ↔ t = .idle ∧ t' = .armed := by
  cases t <;> simp [start, eq_comm]

/-- a cancelled timer never fires (and cancelling a fired one does not un-fire it) -/
theorem fire_cancel (t : Timer) : (t.cancel).fire = none := by cases t <;> rfl

theorem cancel_fired : Timer.fired.cancel = .fired := rfl

/-- a timer fires at most once -/
theorem fire_fire {t t' : Timer} (h : t.fire = some t') : t'.fire = none := by
  obtain ⟨_, rfl⟩ := fire_eq_some.1 h; rfl

end Timer

end VgiVerif.Sched
