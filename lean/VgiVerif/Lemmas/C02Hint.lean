import VgiVerif.Lemmas.C02Stable
/-
C02 helper lemmas, part 4 (namespace `Aux`): a hint whose Optional / Annotated layers nest the way every site peels them
(`regular`) behaves exactly like its resolved annotation.
-/
namespace VgiVerif.C02
open VgiVerif.Py

namespace Aux

theorem deserOrder : Gen.C02.deserializeOrder = "opt-then-ann" := by decide

theorem regular_cases {ws : List Wrap} (h : regular ws = true) :
    ws = [] ∨ ws = [.opt] ∨ ws = [.annArrow] ∨ ws = [.annDoc] ∨ ws = [.opt, .annArrow] ∨ ws = [.opt, .annDoc] := by
  match ws with
  | [] => simp
  | [w] => cases w <;> simp
  | [w1, w2] => cases w1 <;> cases w2 <;> simp_all [regular, peelOpt, peelAnn]
  | w1 :: w2 :: w3 :: r => cases w1 <;> cases w2 <;> simp_all [regular, peelOpt, peelAnn]

theorem deserializeValue_opt (env : Env) (t : Ty) (x : V) (ho : isOpt t = false) :
    deserializeValue env (.opt t) x = deserializeValue env t x := by
  cases t <;> simp_all [deserializeValue, unopt, isOpt]

theorem arrowTop_opt (t : Ty) (ho : isOpt t = false) : arrowTop (.opt t) = arrowTop t := by
  cases t <;> simp_all [arrowTop, unopt, isOpt]

theorem arrowTop_nonDc (t : Ty) (ho : isOpt t = false) (hd : isDc t = false) : arrowTop t = infer t := by
  cases t <;> simp_all [arrowTop, unopt, isOpt, isDc]

theorem arrowTop_dc (t : Ty) (hd : isDc t = true) : arrowTop t = .binary := by
  cases t <;> simp_all [arrowTop, unopt, isDc]

theorem declared_nonDc (t : Ty) (hd : isDc t = false) : declared t = infer t := by
  cases t <;> simp_all [declared, isDc]

theorem arrowTopH_regular (ws : List Wrap) (t : Ty) (hr : regular ws = true) (ho : isOpt t = false) :
    arrowTopH ws t = arrowTop t := by
  cases hd : isDc t with
  | true =>
    rw [arrowTop_dc t hd]
    rcases regular_cases hr with rfl | rfl | rfl | rfl | rfl | rfl <;> simp [arrowTopH, peelOpt, peelAnn, hd]
  | false =>
    rw [arrowTop_nonDc t ho hd]
    rcases regular_cases hr with rfl | rfl | rfl | rfl | rfl | rfl <;>
      simp [arrowTopH, peelOpt, peelAnn, hd, inferH, declared_nonDc t hd]

theorem deserBase_regular (ws : List Wrap) (hr : regular ws = true) : deserBase ws = [] := by
  unfold deserBase
  rw [if_pos deserOrder]
  simpa [regular] using hr

/-- a regular hint is its resolved annotation -/
theorem tripH_regular (env : Env) (ws : List Wrap) (t : Ty) (v : V) (hr : regular ws = true) (ho : isOpt t = false) :
    tripH env ws t v = trip env (arrowTop (resolved ws t)) (resolved ws t) v := by
  have hA := arrowTopH_regular ws t hr ho
  have hD : ∀ x, deserializeValueH env ws t x = deserializeValue env t x := by
    intro x; simp [deserializeValueH, deserBase_regular ws hr]
  cases hn : (peelOpt ws).2 with
  | false =>
    have hres : resolved ws t = t := by simp [resolved, hn]
    rw [hres]
    cases v <;> simp [tripH, trip, hn, ho, hA, hD]
  | true =>
    have hres : resolved ws t = .opt t := by simp [resolved, hn]
    rw [hres, arrowTop_opt t ho]
    cases v <;> simp [tripH, trip, hn, isOpt, hA, hD, convert_opt, deserializeValue_opt env t _ ho]

end Aux
end VgiVerif.C02
