import VgiVerif.Model.C43
import VgiVerif.Lemmas.Regex
/-
Lemmas about the C43 model's string functions (`strip`, `cutAt`, `split`, `unescape`), independent of the
XFCC grammar.  The property theorems are in `Proofs/C43.lean`.
-/
namespace VgiVerif.C43.Aux
open VgiVerif.Regex VgiVerif.Xfcc VgiVerif.C43
open VgiVerif.Gen

/-! ### the extracted shape (re-checked on every run: a source edit that changes a guard or a constant breaks these) -/

theorem quoteChar_eq : Xfcc.quoteChar = '"' := by decide
theorem escapeChar_eq : Xfcc.escapeChar = '\\' := by decide
theorem escNeedsQuote_eq : Xfcc.escNeedsQuote = true := by decide
theorem delimNeedsUnquoted_eq : Xfcc.delimNeedsUnquoted = true := by decide
theorem elemDelim_eq : Xfcc.elemDelim = ',' := by decide
theorem pairDelim_eq : Xfcc.pairDelim = ';' := by decide
theorem kvSep_eq : Xfcc.kvSep = '=' := by decide
theorem valueQuote_eq : Xfcc.valueQuote = '"' := by decide

/-! ### strip -/

def AllSpace (s : Str) : Prop := ∀ c ∈ s, isSpace c = true

theorem lstrip_allSpace {a : Str} (h : AllSpace a) (s : Str) : lstrip (a ++ s) = lstrip s := by
  induction a with
  | nil => rfl
  | cons c cs ih =>
    have hc : isSpace c = true := h c (by simp)
    simp only [List.cons_append, lstrip, hc, if_true]
    exact ih (fun x hx => h x (by simp [hx]))

theorem lstrip_head {c : Char} (cs : Str) (h : isSpace c = false) : lstrip (c :: cs) = c :: cs := by
  simp [lstrip, h]

theorem rstrip_allSpace {b : Str} (h : AllSpace b) : rstrip b = [] := by
  induction b with
  | nil => rfl
  | cons c cs ih =>
    have hc : isSpace c = true := h c (by simp)
    simp [rstrip, ih (fun x hx => h x (by simp [hx])), hc]

theorem rstrip_append_space {b : Str} (h : AllSpace b) (s : Str) : rstrip (s ++ b) = rstrip s := by
  induction s with
  | nil => simpa [rstrip] using rstrip_allSpace h
  | cons c cs ih => simp only [List.cons_append, rstrip, ih]

theorem rstrip_id (s : Str) (h : ∀ c, s.getLast? = some c → isSpace c = false) : rstrip s = s := by
  induction s with
  | nil => rfl
  | cons c cs ih =>
    cases cs with
    | nil =>
      have : isSpace c = false := h c (by simp)
      simp [rstrip, this]
    | cons d ds =>
      have := ih (fun x hx => h x (by simpa using hx))
      simp only [rstrip] at this ⊢
      rw [this]

theorem lstrip_decomp (s : Str) : ∃ a, s = a ++ lstrip s ∧ AllSpace a := by
  induction s with
  | nil => exact ⟨[], rfl, by simp [AllSpace]⟩
  | cons c cs ih =>
    by_cases hc : isSpace c = true
    · obtain ⟨a, ha, hs⟩ := ih
      refine ⟨c :: a, ?_, ?_⟩
      · simp only [lstrip, hc, if_true, List.cons_append]; rw [← ha]
      · intro x hx; simp at hx; rcases hx with rfl | hx
        · exact hc
        · exact hs x hx
    · exact ⟨[], by simp [lstrip, hc], by simp [AllSpace]⟩

theorem rstrip_decomp (s : Str) : ∃ b, s = rstrip s ++ b ∧ AllSpace b := by
  induction s with
  | nil => exact ⟨[], rfl, by simp [AllSpace]⟩
  | cons c cs ih =>
    obtain ⟨b, hb, hs⟩ := ih
    cases hr : rstrip cs with
    | nil =>
      rw [hr] at hb
      simp only [List.nil_append] at hb
      by_cases hc : isSpace c = true
      · refine ⟨c :: b, by simp [rstrip, hr, hc, ← hb], ?_⟩
        intro x hx; simp at hx; rcases hx with rfl | hx
        · exact hc
        · exact hs x hx
      · refine ⟨b, by simp [rstrip, hr, hc, ← hb], hs⟩
    | cons h t =>
      rw [hr] at hb
      exact ⟨b, by simp only [rstrip, hr]; simp [← hb], hs⟩

/-- `s = a ++ s.strip() ++ b` with `a`, `b` white space -/
theorem strip_decomp (s : Str) : ∃ a b, s = a ++ (strip s ++ b) ∧ AllSpace a ∧ AllSpace b := by
  obtain ⟨a, ha, hsa⟩ := lstrip_decomp s
  obtain ⟨b, hb, hsb⟩ := rstrip_decomp (lstrip s)
  exact ⟨a, b, by unfold strip; rw [← hb]; exact ha, hsa, hsb⟩

theorem strip_space_left {a : Str} (h : AllSpace a) (s : Str) : strip (a ++ s) = strip s := by
  unfold strip; rw [lstrip_allSpace h]

theorem lstrip_append_space {b : Str} (h : AllSpace b) (s : Str) :
    ∃ b', lstrip (s ++ b) = lstrip s ++ b' ∧ AllSpace b' := by
  induction s with
  | nil =>
    refine ⟨[], ?_, by simp [AllSpace]⟩
    have := lstrip_allSpace h []
    simp at this; simp [this, lstrip]
  | cons c cs ih =>
    by_cases hc : isSpace c = true
    · simpa [lstrip, hc] using ih
    · exact ⟨b, by simp [lstrip, hc], h⟩

theorem strip_space_right {b : Str} (h : AllSpace b) (s : Str) : strip (s ++ b) = strip s := by
  unfold strip
  obtain ⟨b', hb', hs'⟩ := lstrip_append_space h s
  rw [hb', rstrip_append_space hs']

theorem strip_allSpace {a : Str} (h : AllSpace a) : strip a = [] := by
  have := strip_space_left h []
  simpa [strip, lstrip, rstrip] using this

/-- the padding lemma: white space around a trimmed string is exactly what `strip` removes -/
theorem strip_pad {a b : Str} (ha : AllSpace a) (hb : AllSpace b) (s : Str)
    (h1 : ∀ c, s.head? = some c → isSpace c = false) (h2 : ∀ c, s.getLast? = some c → isSpace c = false) :
    strip (a ++ (s ++ b)) = s := by
  rw [strip_space_left ha, strip_space_right hb]
  cases s with
  | nil => rfl
  | cons c cs =>
    unfold strip
    rw [lstrip_head cs (h1 c rfl), rstrip_id _ h2]

theorem strip_eq_nil {s : Str} (h : strip s = []) : AllSpace s := by
  obtain ⟨a, b, hs, ha, hb⟩ := strip_decomp s
  rw [h] at hs
  intro c hc
  rw [hs] at hc
  simp at hc
  rcases hc with hc | hc
  · exact ha c hc
  · exact hb c hc

/-! ### cutAt -/

theorem cutAt_prefix (sep : Char) (x rest : Str) (h : ∀ c ∈ x, c ≠ sep) :
    cutAt sep (x ++ sep :: rest) = some (x, rest) := by
  induction x with
  | nil => simp [cutAt]
  | cons c cs ih =>
    have hc : c ≠ sep := h c (by simp)
    simp [cutAt, hc, ih (fun y hy => h y (by simp [hy]))]

theorem cutAt_none (sep : Char) (x : Str) (h : ∀ c ∈ x, c ≠ sep) : cutAt sep x = none := by
  induction x with
  | nil => rfl
  | cons c cs ih =>
    have hc : c ≠ sep := h c (by simp)
    simp [cutAt, hc, ih (fun y hy => h y (by simp [hy]))]

theorem cutAt_left (sep : Char) (a x : Str) (h : ∀ c ∈ a, c ≠ sep) :
    cutAt sep (a ++ x) = (cutAt sep x).map fun kv => (a ++ kv.1, kv.2) := by
  induction a with
  | nil => rw [List.nil_append]; cases cutAt sep x <;> rfl
  | cons c cs ih =>
    have hc : c ≠ sep := h c (by simp)
    rw [List.cons_append, cutAt, if_neg hc, ih (fun y hy => h y (by simp [hy]))]
    cases cutAt sep x <;> simp

theorem cutAt_right (sep : Char) (x b : Str) (h : ∀ c ∈ b, c ≠ sep) :
    cutAt sep (x ++ b) = (cutAt sep x).map fun kv => (kv.1, kv.2 ++ b) := by
  induction x with
  | nil => simp [cutAt, cutAt_none sep b h]
  | cons c cs ih =>
    by_cases hc : c = sep
    · simp [cutAt, hc]
    · rw [List.cons_append, cutAt, if_neg hc, ih, cutAt, if_neg hc]
      cases cutAt sep cs <;> simp

/-! ### split: equations over the extracted constants, an induction principle, the scanner -/

theorem split_nil (d : Char) (q : Bool) : split d q [] = [[]] := by simp [split]

theorem split_quote (d : Char) (q : Bool) (cs : Str) : split d q ('"' :: cs) = pushHead '"' (split d (!q) cs) := by
  cases cs <;> simp [split, quoteChar_eq]

theorem split_esc (d : Char) (e : Char) (r : Str) :
    split d true ('\\' :: e :: r) = pushHead '\\' (pushHead e (split d true r)) := by
  simp [split, quoteChar_eq, escapeChar_eq]

theorem split_escEnd (d : Char) : split d true ['\\'] = [['\\']] := by
  simp [split, quoteChar_eq, escapeChar_eq, delimNeedsUnquoted_eq]

/-- any character that is not the quote and not an active escape -/
theorem split_plain (d : Char) (q : Bool) (c : Char) (cs : Str) (h1 : c ≠ '"') (h2 : ¬(c = '\\' ∧ q = true)) :
    split d q (c :: cs) = if c = d ∧ q = false then [] :: split d q cs else pushHead c (split d q cs) := by
  have h2' : ¬(c = '\\' ∧ (q = true ∨ Xfcc.escNeedsQuote = false)) := by
    simp only [escNeedsQuote_eq]; simpa using h2
  cases cs <;> simp only [split, quoteChar_eq, escapeChar_eq, h1, if_false, h2', delimNeedsUnquoted_eq] <;> simp [pushHead]

theorem split_ind (P : Bool → Str → Prop)
    (nil : ∀ q, P q [])
    (quote : ∀ q cs, P (!q) cs → P q ('"' :: cs))
    (esc : ∀ e r, P true r → P true ('\\' :: e :: r))
    (escEnd : P true ['\\'])
    (plain : ∀ q c cs, c ≠ '"' → ¬(c = '\\' ∧ q = true) → P q cs → P q (c :: cs)) :
    ∀ q s, P q s := by
  have key : ∀ n, ∀ q s, s.length ≤ n → P q s := by
    intro n
    induction n with
    | zero =>
      intro q s hs
      have : s = [] := List.eq_nil_of_length_eq_zero (Nat.le_zero.mp hs)
      subst this; exact nil q
    | succ n ih =>
      intro q s hs
      match s, hs with
      | [], _ => exact nil q
      | c :: cs, hs =>
        have hcs : cs.length ≤ n := by simp at hs; omega
        by_cases h1 : c = '"'
        · subst h1; exact quote q cs (ih _ cs hcs)
        · by_cases h2 : c = '\\' ∧ q = true
          · obtain ⟨rfl, rfl⟩ := h2
            match cs, hcs with
            | [], _ => exact escEnd
            | e :: r, hcs => exact esc e r (ih _ r (by simp at hcs; omega))
          · exact plain q c cs h1 h2 (ih _ cs hcs)
  intro q s
  exact key s.length q s (Nat.le_refl _)

theorem split_ne_nil (d : Char) : ∀ q s, split d q s ≠ [] := by
  apply split_ind
  · intro q; simp [split_nil]
  · intro q cs ih; rw [split_quote]; cases h : split d (!q) cs <;> simp [pushHead]
  · intro e r ih; rw [split_esc]; cases h : split d true r <;> simp [pushHead]
  · simp [split_escEnd]
  · intro q c cs h1 h2 ih
    rw [split_plain d q c cs h1 h2]
    split
    · simp
    · cases h : split d q cs <;> simp [pushHead]

/-- `p` prepended to the first piece -/
def prepend (p : Str) : List Str → List Str
  | [] => [p]
  | h :: t => (p ++ h) :: t

theorem prepend_nil (L : List Str) (h : L ≠ []) : prepend [] L = L := by
  cases L with
  | nil => exact absurd rfl h
  | cons a t => rfl

theorem prepend_cons (c : Char) (p : Str) (L : List Str) : prepend (c :: p) L = pushHead c (prepend p L) := by
  cases L <;> rfl

/-- Run the splitter's state machine over a *segment*: `some q'` = the segment is consumed completely, never
splits, and leaves the machine in state `q'`; `none` = it contains an active delimiter or ends inside an escape. -/
def scan (d : Char) : Bool → Str → Option Bool
  | q, [] => some q
  | q, c :: cs =>
    if c = '"' then scan d (!q) cs
    else if c = '\\' ∧ q = true then
      match cs with
      | [] => none
      | _ :: r => scan d q r
    else if c = d ∧ q = false then none
    else scan d q cs

/-- a segment that is consumed without splitting and returns to the unquoted state -/
def Balanced (d : Char) (p : Str) : Prop := scan d false p = some false

theorem scan_quote (d : Char) (q : Bool) (cs : Str) : scan d q ('"' :: cs) = scan d (!q) cs := by cases cs <;> simp [scan]
theorem scan_esc (d : Char) (e : Char) (r : Str) : scan d true ('\\' :: e :: r) = scan d true r := by simp [scan]
theorem scan_escEnd (d : Char) : scan d true ['\\'] = none := by simp [scan]
theorem scan_plain (d : Char) (q : Bool) (c : Char) (cs : Str) (h1 : c ≠ '"') (h2 : ¬(c = '\\' ∧ q = true)) :
    scan d q (c :: cs) = if c = d ∧ q = false then none else scan d q cs := by
  cases cs <;> simp [scan, h1, h2]

/-- the splitter never cuts inside a consumed segment -/
theorem split_append (d : Char) (rest : Str) :
    ∀ q p q', scan d q p = some q' → split d q (p ++ rest) = prepend p (split d q' rest) := by
  intro q p
  revert q p
  apply split_ind (P := fun q p => ∀ q', scan d q p = some q' → split d q (p ++ rest) = prepend p (split d q' rest))
  · intro q q' h
    simp [scan] at h; subst h
    simp [prepend_nil _ (split_ne_nil d q rest)]
  · intro q cs ih q' h
    rw [scan_quote] at h
    rw [List.cons_append, split_quote, ih q' h, prepend_cons]
  · intro e r ih q' h
    rw [scan_esc] at h
    rw [List.cons_append, List.cons_append, split_esc, ih q' h, prepend_cons, prepend_cons]
  · intro q' h; simp [scan_escEnd] at h
  · intro q c cs h1 h2 ih q' h
    rw [scan_plain d q c cs h1 h2] at h
    rw [List.cons_append, split_plain d q c _ h1 h2]
    split at h
    · simp at h
    · rename_i hd
      rw [if_neg hd, ih q' h, prepend_cons]

theorem scan_append (d : Char) (b : Str) :
    ∀ q a q', scan d q a = some q' → scan d q (a ++ b) = scan d q' b := by
  intro q a
  revert q a
  apply split_ind (P := fun q a => ∀ q', scan d q a = some q' → scan d q (a ++ b) = scan d q' b)
  · intro q q' h; simp [scan] at h; subst h; rfl
  · intro q cs ih q' h
    rw [scan_quote] at h; rw [List.cons_append, scan_quote, ih q' h]
  · intro e r ih q' h
    rw [scan_esc] at h; rw [List.cons_append, List.cons_append, scan_esc, ih q' h]
  · intro q' h; simp [scan_escEnd] at h
  · intro q c cs h1 h2 ih q' h
    rw [scan_plain d q c cs h1 h2] at h
    rw [List.cons_append, scan_plain d q c _ h1 h2]
    split at h
    · simp at h
    · rename_i hd; rw [if_neg hd, ih q' h]

/-- outside quotes everything but the quote and the delimiter is consumed as is -/
theorem scan_unquoted (d : Char) (a : Str) (h : ∀ c ∈ a, c ≠ '"' ∧ c ≠ d) : scan d false a = some false := by
  induction a with
  | nil => rfl
  | cons c cs ih =>
    obtain ⟨h1, h2⟩ := h c (by simp)
    rw [scan_plain d false c cs h1 (by simp), if_neg (by simp [h2])]
    exact ih (fun x hx => h x (by simp [hx]))

theorem balanced_append {d : Char} {a b : Str} (ha : Balanced d a) (hb : Balanced d b) : Balanced d (a ++ b) := by
  unfold Balanced at *
  rw [scan_append d b false a false ha, hb]

/-- `sep.join(parts)` (same shape as the spec's `join`) -/
def joinWith (sep : Char) : List Str → Str
  | [] => []
  | [x] => x
  | x :: y :: r => x ++ sep :: joinWith sep (y :: r)

/-- splitting a join of balanced segments gives the segments back: nothing splits, nothing merges -/
theorem split_join (d : Char) (hd : d ≠ '"') (ps : List Str) (hne : ps ≠ []) (h : ∀ p ∈ ps, Balanced d p) :
    split d false (joinWith d ps) = ps := by
  induction ps with
  | nil => exact absurd rfl hne
  | cons p r ih =>
    cases r with
    | nil =>
      have := split_append d [] false p false (h p (by simp))
      simpa [joinWith, split_nil, prepend] using this
    | cons p' r' =>
      have ih' := ih (by simp) (fun x hx => h x (by simp [hx]))
      have := split_append d (d :: joinWith d (p' :: r')) false p false (h p (by simp))
      rw [joinWith, this, split_plain d false d _ hd (by simp), if_pos ⟨rfl, rfl⟩, ih']
      simp [prepend]

theorem balanced_join (d sep : Char) (h1 : sep ≠ '"') (h2 : sep ≠ d) (ps : List Str) (h : ∀ p ∈ ps, Balanced d p) :
    Balanced d (joinWith sep ps) := by
  induction ps with
  | nil => rfl
  | cons p r ih =>
    cases r with
    | nil => simpa [joinWith] using h p (by simp)
    | cons p' r' =>
      have ih' := ih (fun x hx => h x (by simp [hx]))
      rw [joinWith]
      apply balanced_append (h p (by simp))
      have : Balanced d [sep] := scan_unquoted d [sep] (by simp [h1, h2])
      exact balanced_append (a := [sep]) this ih'

/-! ### trailing plain text joins the last piece -/

def appendLast (b : Str) : List Str → List Str
  | [] => [b]
  | [x] => [x ++ b]
  | x :: y :: r => x :: appendLast b (y :: r)

theorem appendLast_pushHead (c : Char) (b : Str) (L : List Str) (h : L ≠ []) :
    appendLast b (pushHead c L) = pushHead c (appendLast b L) := by
  match L, h with
  | [x], _ => rfl
  | x :: y :: r, _ => rfl

theorem appendLast_ne_nil (b : Str) (L : List Str) : appendLast b L ≠ [] := by
  match L with
  | [] => simp [appendLast]
  | [x] => simp [appendLast]
  | x :: y :: r => simp [appendLast]

theorem appendLast_cons (b x : Str) (L : List Str) (h : L ≠ []) : appendLast b (x :: L) = x :: appendLast b L := by
  match L, h with
  | y :: r, _ => rfl

theorem split_plain_all (d : Char) (b : Str) (hb : ∀ c ∈ b, c ≠ '"' ∧ c ≠ '\\' ∧ c ≠ d) (q : Bool) :
    split d q b = [b] := by
  induction b with
  | nil => exact split_nil d q
  | cons c cs ih =>
    obtain ⟨h1, h2, h3⟩ := hb c (by simp)
    rw [split_plain d q c cs h1 (by simp [h2]), if_neg (by simp [h3]), ih (fun x hx => hb x (by simp [hx]))]
    rfl

/-- text without quote, backslash and delimiter after any string is appended to the last piece -/
theorem split_append_plain (d : Char) (b : Str) (hb : ∀ c ∈ b, c ≠ '"' ∧ c ≠ '\\' ∧ c ≠ d) :
    ∀ q s, split d q (s ++ b) = appendLast b (split d q s) := by
  apply split_ind
  · intro q; simp [split_nil, appendLast, split_plain_all d b hb]
  · intro q cs ih
    rw [List.cons_append, split_quote, split_quote, ih, appendLast_pushHead _ _ _ (split_ne_nil d _ cs)]
  · intro e r ih
    have hne : pushHead e (split d true r) ≠ [] := by cases split d true r <;> simp [pushHead]
    rw [List.cons_append, List.cons_append, split_esc, split_esc, ih, appendLast_pushHead _ _ _ hne,
      appendLast_pushHead _ _ _ (split_ne_nil d _ r)]
  · cases b with
    | nil => simp [split_escEnd, appendLast]
    | cons c cs =>
      rw [List.singleton_append, split_esc, split_escEnd,
        split_plain_all d cs (fun x hx => hb x (by simp [hx])) true]
      rfl
  · intro q c cs h1 h2 ih
    rw [List.cons_append, split_plain d q c _ h1 h2, split_plain d q c _ h1 h2, ih]
    split
    · rw [appendLast_cons _ _ _ (split_ne_nil d q cs)]
    · rw [appendLast_pushHead _ _ _ (split_ne_nil d q cs)]

/-! ### unescape: the two-character window of the extracted pattern -/

theorem window_first {c e : Char} (h : Xfcc.unescapePat.body.matches [c, e] = true) : c = '\\' := by
  rw [matches_iff] at h
  change Lang (Re.seq (Re.cls ⟨false, [('\\'.toNat, '\\'.toNat)]⟩) (Re.cls ⟨true, [(10, 10)]⟩)) [c, e] at h
  obtain ⟨s1, s2, hs, ⟨ch, rfl, hm⟩, ⟨ch2, rfl, _⟩⟩ := h
  simp at hs
  obtain ⟨rfl, rfl⟩ := hs
  exact (mem_single '\\' _).1 hm

theorem window_quote : Xfcc.unescapePat.body.matches ['\\', '"'] = true := by decide
theorem window_backslash : Xfcc.unescapePat.body.matches ['\\', '\\'] = true := by decide

theorem unescape_plain (c : Char) (h : c ≠ '\\') (s : Str) : unescape (c :: s) = c :: unescape s := by
  cases s with
  | nil => rfl
  | cons e r =>
    have : Xfcc.unescapePat.body.matches [c, e] = false := by
      cases hm : Xfcc.unescapePat.body.matches [c, e]
      · rfl
      · exact absurd (window_first hm) h
    simp [unescape, this]

/-! ### `procPair` sees a pair only through `strip`; white space around a pair, a key or a value is immaterial -/

theorem ne_of_space {c x : Char} (hc : isSpace c = true) (hx : isSpace x = false) : c ≠ x := by
  rintro rfl; rw [hc] at hx; cases hx

theorem isSpace_quote : isSpace '"' = false := by decide
theorem isSpace_backslash : isSpace '\\' = false := by decide
theorem isSpace_eqSign : isSpace '=' = false := by decide
theorem isSpace_semicolon : isSpace ';' = false := by decide
theorem isSpace_comma : isSpace ',' = false := by decide

theorem procPair_eq (unq : Str → Str) (f : Elem) (s : Str) : procPair unq f s = pairBody unq f (strip s) := by
  unfold procPair
  by_cases h : strip s = []
  · simp [h, pairBody, cutAt]
  · simp [h]

theorem body_pad (unq : Str → Str) (f : Elem) {a b : Str} (ha : AllSpace a) (hb : AllSpace b) (r : Str) :
    pairBody unq f (a ++ (r ++ b)) = pairBody unq f r := by
  unfold pairBody
  have ha' : ∀ c ∈ a, c ≠ Xfcc.kvSep := fun c hc => by rw [kvSep_eq]; exact ne_of_space (ha c hc) isSpace_eqSign
  have hb' : ∀ c ∈ b, c ≠ Xfcc.kvSep := fun c hc => by rw [kvSep_eq]; exact ne_of_space (hb c hc) isSpace_eqSign
  rw [cutAt_left _ _ _ ha', cutAt_right _ _ _ hb']
  cases cutAt Xfcc.kvSep r with
  | none => rfl
  | some kv =>
    obtain ⟨k, v⟩ := kv
    simp only [Option.map_some, strip_space_left ha, strip_space_right hb]

/-- the initial `strip` of the pair is redundant: key and value are stripped again -/
theorem procPair_body (unq : Str → Str) (f : Elem) (s : Str) : procPair unq f s = pairBody unq f s := by
  rw [procPair_eq]
  obtain ⟨a, b, hs, ha, hb⟩ := strip_decomp s
  conv => rhs; rw [hs]
  rw [body_pad unq f ha hb]

theorem procPair_space_left (unq : Str → Str) (f : Elem) {a : Str} (ha : AllSpace a) (s : Str) :
    procPair unq f (a ++ s) = procPair unq f s := by
  rw [procPair_eq, procPair_eq, strip_space_left ha]

theorem procPair_space_right (unq : Str → Str) (f : Elem) {b : Str} (hb : AllSpace b) (s : Str) :
    procPair unq f (s ++ b) = procPair unq f s := by
  rw [procPair_eq, procPair_eq, strip_space_right hb]

theorem foldl_prepend (unq : Str → Str) (f : Elem) {a : Str} (ha : AllSpace a) (L : List Str) (hL : L ≠ []) :
    (prepend a L).foldl (procPair unq) f = L.foldl (procPair unq) f := by
  cases L with
  | nil => exact absurd rfl hL
  | cons h t => simp only [prepend, List.foldl_cons, procPair_space_left unq f ha]

theorem foldl_appendLast (unq : Str → Str) {b : Str} (hb : AllSpace b) :
    ∀ (L : List Str) (f : Elem), L ≠ [] → (appendLast b L).foldl (procPair unq) f = L.foldl (procPair unq) f := by
  intro L
  induction L with
  | nil => intro f h; exact absurd rfl h
  | cons x r ih =>
    intro f _
    cases r with
    | nil => simp only [appendLast, List.foldl_cons, List.foldl_nil, procPair_space_right unq f hb]
    | cons y r' =>
      rw [appendLast_cons _ _ _ (by simp)]
      simp only [List.foldl_cons]
      exact ih _ (by simp)

/-- `pairs = split(raw.strip(), d)` and `split(raw, d)` feed the pair loop the same pairs up to white space -/
theorem fold_strip (unq : Str → Str) (f : Elem) (d : Char) (hsp : isSpace d = false) (s : Str) :
    (split d false (strip s)).foldl (procPair unq) f = (split d false s).foldl (procPair unq) f := by
  obtain ⟨a, b, hs, ha, hb⟩ := strip_decomp s
  have h1 : scan d false a = some false :=
    scan_unquoted d a (fun c hc => ⟨ne_of_space (ha c hc) isSpace_quote, ne_of_space (ha c hc) hsp⟩)
  have h2 : ∀ c ∈ b, c ≠ '"' ∧ c ≠ '\\' ∧ c ≠ d :=
    fun c hc => ⟨ne_of_space (hb c hc) isSpace_quote, ne_of_space (hb c hc) isSpace_backslash, ne_of_space (hb c hc) hsp⟩
  conv => rhs; rw [hs]
  rw [split_append d _ false a false h1, split_append_plain d b h2,
    foldl_prepend unq f ha _ (appendLast_ne_nil _ _), foldl_appendLast unq hb _ _ (split_ne_nil d false _)]

end VgiVerif.C43.Aux
