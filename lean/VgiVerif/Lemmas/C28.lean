import VgiVerif.Model.C28
import VgiVerif.Spec.C28
/-
Helper lemmas for C28 (the property theorems are in `Proofs/C28.lean`).
Sections: the recursive invariant `WF` and its equivalence with the spec's `Inv`; `scan` / `free`;
little-endian bytes and the header codec; the bounded sink.
-/
namespace VgiVerif.C28
open VgiVerif.Gen.C28Shm
namespace Aux


/-- the invariant as a recursive predicate following the data -/
def WF (total : Nat) : Nat → Table → Prop
  | lo, [] => lo ≤ total
  | lo, (o, l) :: r => lo ≤ o ∧ 0 < l ∧ WF total (o + l) r

theorem WF_le {total : Nat} : ∀ {lo : Nat} {t : Table}, WF total lo t → lo ≤ total
  | _, [], h => h
  | _, (_, _) :: _, h => by
    have := WF_le h.2.2
    have := h.1
    omega

theorem WF_mono {total : Nat} : ∀ {lo lo' : Nat} {t : Table}, lo' ≤ lo → WF total lo t → WF total lo' t
  | _, _, [], hl, h => Nat.le_trans hl h
  | _, _, (_, _) :: _, hl, h => ⟨Nat.le_trans hl h.1, h.2.1, h.2.2⟩

theorem WF_spec {total : Nat} : ∀ {lo : Nat} {t : Table}, WF total lo t →
    Spec.Sorted t ∧ Spec.NonOverlap t ∧ Spec.Within lo total t
  | _, [], _ => ⟨List.Pairwise.nil, List.Pairwise.nil, by intro e he; cases he⟩
  | lo, (o, l) :: r, h => by
    obtain ⟨h1, h2, h3⟩ := h
    obtain ⟨s, n, w⟩ := WF_spec h3
    have hle := WF_le h3
    refine ⟨List.Pairwise.cons ?_ s, List.Pairwise.cons ?_ n, ?_⟩
    · intro b hb
      have := (w b hb).1
      show o < b.1
      omega
    · intro b hb
      exact (w b hb).1
    · intro e he
      rcases List.mem_cons.1 he with rfl | he
      · exact ⟨h1, hle, h2⟩
      · have := w e he
        exact ⟨by omega, this.2.1, this.2.2⟩

theorem spec_WF {total : Nat} : ∀ {lo : Nat} {t : Table}, lo ≤ total →
    Spec.NonOverlap t → Spec.Within lo total t → WF total lo t
  | _, [], hl, _, _ => hl
  | lo, (o, l) :: r, _, n, w => by
    have hw := w (o, l) (List.mem_cons_self ..)
    cases n with
    | cons hn n' =>
      refine ⟨hw.1, hw.2.2, spec_WF hw.2.1 n' ?_⟩
      intro e he
      have := w e (List.mem_cons_of_mem _ he)
      exact ⟨hn e he, this.2.1, this.2.2⟩


/-! ## `scan` -/

theorem gapInner_eval (a b : Int) : gapInnerCmp.eval a b = decide (b ≤ a) := rfl
theorem gapTail_eval (a b : Int) : gapTailCmp.eval a b = decide (b ≤ a) := rfl

/-- `scan` in arithmetic form (the comparison shapes plugged in) -/
theorem scan_nil (n total lo : Nat) :
    scan n total lo [] = if lo + n ≤ total then some (lo, [(lo, n)]) else none := by
  simp only [scan, gapTail_eval, decide_eq_true_eq]
  split <;> split <;> first | rfl | omega

theorem scan_cons (n total lo o l : Nat) (r : Table) :
    scan n total lo ((o, l) :: r) =
      if lo + n ≤ o then some (lo, (lo, n) :: (o, l) :: r)
      else match scan n total (o + l) r with
        | none => none
        | some (x, t') => some (x, (o, l) :: t') := by
  simp only [scan, gapInner_eval, decide_eq_true_eq]
  by_cases h : lo + n ≤ o
  · have h' : (n : Int) ≤ (o : Int) - lo := by omega
    rw [if_pos h, if_pos h']
  · have h' : ¬ (n : Int) ≤ (o : Int) - lo := by omega
    rw [if_neg h, if_neg h']
    cases scan n total (o + l) r with
    | none => rfl
    | some p => cases p; rfl

/-- every entry of a well-formed list starts at or after `lo` -/
theorem WF_lb {total : Nat} : ∀ {lo : Nat} {t : Table}, WF total lo t → ∀ e ∈ t, lo ≤ e.1
  | _, [], _, e, he => by cases he
  | lo, (o, l) :: r, h, e, he => by
    rcases List.mem_cons.1 he with rfl | he
    · exact h.1
    · have := WF_lb h.2.2 e he
      have := h.1
      omega

/-- a successful scan keeps the invariant, inserts exactly `(o, n)`, `[o, o+n)` lies in the data region and is
    disjoint from every region already in the list -/
theorem scan_some {n total : Nat} (hn : 0 < n) : ∀ {lo : Nat} {t : Table} {o : Nat} {t' : Table},
    WF total lo t → scan n total lo t = some (o, t') →
      WF total lo t' ∧ t'.Perm ((o, n) :: t) ∧ lo ≤ o ∧ o + n ≤ total ∧
        ∀ e ∈ t, o + n ≤ e.1 ∨ e.1 + e.2 ≤ o
  | lo, [], o, t', h, hs => by
    rw [scan_nil] at hs
    split at hs
    · injection hs with hs; injection hs with h1 h2; subst h1; subst h2
      exact ⟨⟨Nat.le_refl _, hn, by assumption⟩, List.Perm.refl _, Nat.le_refl _, by assumption,
        fun e he => by cases he⟩
    · cases hs
  | lo, (a, l) :: r, o, t', h, hs => by
    obtain ⟨h1, h2, h3⟩ := h
    rw [scan_cons] at hs
    split at hs
    · injection hs with hs; injection hs with e1 e2; subst e1; subst e2
      have := WF_le h3
      refine ⟨⟨Nat.le_refl _, hn, by omega, h2, h3⟩, List.Perm.refl _, Nat.le_refl _, by omega, ?_⟩
      intro e he
      rcases List.mem_cons.1 he with rfl | he
      · exact Or.inl (by assumption)
      · have := WF_lb h3 e he
        exact Or.inl (by omega)
    · split at hs
      · cases hs
      · rename_i x t'' hsc
        injection hs with hs; injection hs with e1 e2; subst e1; subst e2
        obtain ⟨w, p, b1, b2, fr⟩ := scan_some hn h3 hsc
        refine ⟨⟨h1, h2, w⟩, ?_, by omega, b2, ?_⟩
        · exact (List.Perm.cons _ p).trans (List.Perm.swap ..)
        · intro e he
          rcases List.mem_cons.1 he with rfl | he
          · exact Or.inr b1
          · exact fr e he

theorem scan_length {n total : Nat} : ∀ {lo : Nat} {t : Table} {o : Nat} {t' : Table},
    scan n total lo t = some (o, t') → t'.length = t.length + 1
  | lo, [], o, t', hs => by
    rw [scan_nil] at hs
    split at hs
    · injection hs with hs; injection hs with h1 h2; subst h2; rfl
    · cases hs
  | lo, (a, l) :: r, o, t', hs => by
    rw [scan_cons] at hs
    split at hs
    · injection hs with hs; injection hs with e1 e2; subst e2; rfl
    · split at hs
      · cases hs
      · rename_i x t'' hsc
        injection hs with hs; injection hs with e1 e2; subst e2
        simp only [List.length_cons, scan_length hsc]

/-- the offset `scan` returns is the start of the first gap (in address order) that fits -/
theorem scan_find {n total : Nat} (hn : 0 < n) : ∀ (lo : Nat) (t : Table),
    (scan n total lo t).map Prod.fst =
      ((Spec.gapsFrom total lo t).find? (fun g => decide (n ≤ g.2))).map Prod.fst
  | lo, [] => by
    rw [scan_nil]
    simp only [Spec.gapsFrom, List.find?]
    by_cases h : lo + n ≤ total
    · have : decide (n ≤ total - lo) = true := by simp only [decide_eq_true_eq]; omega
      rw [if_pos h, this]; rfl
    · have : decide (n ≤ total - lo) = false := by simp only [decide_eq_false_iff_not]; omega
      rw [if_neg h, this]; rfl
  | lo, (o, l) :: r => by
    rw [scan_cons]
    simp only [Spec.gapsFrom, List.find?]
    by_cases h : lo + n ≤ o
    · have : decide (n ≤ o - lo) = true := by simp only [decide_eq_true_eq]; omega
      rw [if_pos h, this]; rfl
    · have : decide (n ≤ o - lo) = false := by simp only [decide_eq_false_iff_not]; omega
      rw [if_neg h, this, ← scan_find hn (o + l) r]
      cases scan n total (o + l) r with
      | none => rfl
      | some p => cases p; rfl

theorem gaps_ge {total : Nat} : ∀ {lo : Nat} {t : Table}, WF total lo t →
    ∀ g ∈ Spec.gapsFrom total lo t, lo ≤ g.1
  | lo, [], _, g, hg => by
    simp only [Spec.gapsFrom, List.mem_singleton] at hg
    subst hg; exact Nat.le_refl _
  | lo, (o, l) :: r, h, g, hg => by
    simp only [Spec.gapsFrom, List.mem_cons] at hg
    rcases hg with rfl | hg
    · exact Nat.le_refl _
    · have := gaps_ge h.2.2 g hg
      have := h.1
      omega

/-- gap starts increase, so the first fitting gap is the lowest fitting gap -/
theorem find_lowest {total n : Nat} : ∀ {lo : Nat} {t : Table} {g : Nat × Nat}, WF total lo t →
    (Spec.gapsFrom total lo t).find? (fun g => decide (n ≤ g.2)) = some g →
      ∀ g' ∈ Spec.gapsFrom total lo t, n ≤ g'.2 → g.1 ≤ g'.1
  | lo, [], g, _, hf, g', hg', _ => by
    simp only [Spec.gapsFrom, List.mem_singleton] at hg'
    simp only [Spec.gapsFrom, List.find?] at hf
    split at hf
    · injection hf with hf; subst hf; subst hg'; exact Nat.le_refl _
    · cases hf
  | lo, (o, l) :: r, g, h, hf, g', hg', hfit => by
    simp only [Spec.gapsFrom, List.find?] at hf
    simp only [Spec.gapsFrom, List.mem_cons] at hg'
    split at hf
    · injection hf with hf; subst hf
      rcases hg' with rfl | hg'
      · exact Nat.le_refl _
      · have := gaps_ge h.2.2 g' hg'
        have := h.1
        show lo ≤ g'.1
        omega
    · rename_i hno
      rcases hg' with rfl | hg'
      · exact absurd hfit (by simpa using hno)
      · exact find_lowest h.2.2 hf g' hg' hfit

theorem freeCmp_eval (a b : Int) : freeCmp.eval a b = decide (a = b) := rfl

theorem free_some {total : Nat} : ∀ {lo : Nat} {t : Table} {x : Int} {t' : Table},
    WF total lo t → free t x = some t' →
      WF total lo t' ∧ ∃ a l : Nat, x = (a : Int) ∧ t.Perm ((a, l) :: t')
  | lo, [], x, t', _, hf => by simp only [free] at hf; cases hf
  | lo, (a, l) :: r, x, t', h, hf => by
    simp only [free, freeCmp_eval, decide_eq_true_eq] at hf
    split at hf
    · injection hf with hf; subst hf
      rename_i hx
      refine ⟨WF_mono (by have := h.1; omega) h.2.2, a, l, hx.symm, List.Perm.refl _⟩
    · cases hfr : free r x with
      | none => rw [hfr] at hf; cases hf
      | some t'' =>
        rw [hfr] at hf
        injection hf with hf; subst hf
        obtain ⟨w, b, k, hx, p⟩ := free_some h.2.2 hfr
        exact ⟨⟨h.1, h.2.1, w⟩, b, k, hx, (List.Perm.cons _ p).trans (List.Perm.swap ..)⟩

theorem free_none : ∀ {t : Table} {x : Int}, free t x = none ↔ ∀ e ∈ t, (e.1 : Int) ≠ x
  | [], x => by simp [free]
  | (a, l) :: r, x => by
    simp only [free, freeCmp_eval, decide_eq_true_eq, List.mem_cons, forall_eq_or_imp]
    split
    · rename_i h; simp [h]
    · rename_i h
      rw [Option.map_eq_none_iff, free_none]
      simp [h]


/-! ## bytes and the header codec -/


theorem leBytes_length : ∀ (w n : Nat), (leBytes w n).length = w
  | 0, _ => rfl
  | w + 1, n => by simp only [leBytes, List.length_cons, leBytes_length w]

theorem leVal_leBytes : ∀ (w n : Nat), leVal (leBytes w n) = n % 256 ^ w
  | 0, n => by simp only [leBytes, leVal, Nat.pow_zero, Nat.mod_one]
  | w + 1, n => by
    have h8 : (UInt8.ofNat (n % 256)).toNat = n % 256 := by rw [UInt8.toNat_ofNat']; omega
    simp only [leBytes, leVal, leVal_leBytes w, h8]
    rw [Nat.pow_succ, Nat.mul_comm (256 ^ w) 256, Nat.mod_mul]

theorem leVal_leBytes_lt {w n : Nat} (h : n < 256 ^ w) : leVal (leBytes w n) = n := by
  rw [leVal_leBytes, Nat.mod_eq_of_lt h]

theorem readBytes_length (m : Mem) : ∀ (n p : Nat), (readBytes m p n).length = n
  | 0, _ => rfl
  | n + 1, p => by simp only [readBytes, List.length_cons, readBytes_length m n]

theorem readBytes_getElem (m : Mem) : ∀ (n p i : Nat) (h : i < (readBytes m p n).length),
    (readBytes m p n)[i] = m (p + i)
  | 0, _, _, h => by simp only [readBytes, List.length_nil] at h; omega
  | n + 1, p, 0, _ => by simp only [readBytes, List.getElem_cons_zero, Nat.add_zero]
  | n + 1, p, i + 1, h => by
    simp only [readBytes, List.getElem_cons_succ]
    rw [readBytes_getElem m n (p + 1) i]
    congr 1; omega

theorem readBytes_congr {m m' : Mem} {p n : Nat} (h : ∀ i, p ≤ i → i < p + n → m i = m' i) :
    readBytes m p n = readBytes m' p n := by
  apply List.ext_getElem
  · rw [readBytes_length, readBytes_length]
  · intro i h1 h2
    rw [readBytes_getElem, readBytes_getElem]
    rw [readBytes_length] at h1
    exact h _ (by omega) (by omega)

theorem writeAt_outside {m : Mem} {p : Nat} {d : List UInt8} {i : Nat} (h : i < p ∨ p + d.length ≤ i) :
    writeAt m p d i = m i := by
  unfold writeAt
  rw [if_neg]; omega

theorem writeAt_inside {m : Mem} {p : Nat} {d : List UInt8} {i : Nat} (h : i < d.length) :
    writeAt m p d (p + i) = d[i] := by
  unfold writeAt
  rw [if_pos (by omega), List.getD_eq_getElem?_getD]
  have : p + i - p = i := by omega
  rw [this, List.getElem?_eq_getElem h]; rfl

theorem readBytes_writeAt (m : Mem) (p : Nat) (d : List UInt8) : readBytes (writeAt m p d) p d.length = d := by
  apply List.ext_getElem
  · rw [readBytes_length]
  · intro i h1 h2
    rw [readBytes_getElem, writeAt_inside h2]

theorem readBytes_writeAt_prefix (m : Mem) (p : Nat) (a b : List UInt8) :
    readBytes (writeAt m p (a ++ b)) p a.length = a := by
  apply List.ext_getElem
  · rw [readBytes_length]
  · intro i h1 h2
    rw [readBytes_getElem, writeAt_inside (by rw [List.length_append]; omega), List.getElem_append_left h2]

theorem readBytes_writeAt_suffix (m : Mem) (p : Nat) (a b : List UInt8) :
    readBytes (writeAt m p (a ++ b)) (p + a.length) b.length = b := by
  apply List.ext_getElem
  · rw [readBytes_length]
  · intro i h1 h2
    rw [readBytes_getElem, Nat.add_assoc, writeAt_inside (by rw [List.length_append]; omega),
      List.getElem_append_right (by omega)]
    congr 1; omega

theorem offWidth_eq : offWidth = 8 := rfl
theorem lenWidth_eq : lenWidth = 8 := rfl
theorem entrySize_eq : entrySize = offWidth + lenWidth := rfl

/-- what `_ALLOC_STRUCT.pack_into` stores, `unpack_from` reads back (values below 2^64) -/
theorem readEntry_writeEntry (m : Mem) (p : Nat) (e : Nat × Nat) (h1 : e.1 < 256 ^ offWidth) (h2 : e.2 < 256 ^ lenWidth) :
    readEntry (writeEntry m p e) p = e := by
  unfold readEntry writeEntry
  have a := readBytes_writeAt_prefix m p (leBytes offWidth e.1) (leBytes lenWidth e.2)
  have b := readBytes_writeAt_suffix m p (leBytes offWidth e.1) (leBytes lenWidth e.2)
  simp only [leBytes_length] at a b
  rw [a, b, leVal_leBytes_lt h1, leVal_leBytes_lt h2]

theorem readEntry_congr {m m' : Mem} {p : Nat} (h : ∀ i, p ≤ i → i < p + entrySize → m i = m' i) :
    readEntry m p = readEntry m' p := by
  unfold readEntry
  rw [readBytes_congr (m := m) (m' := m'), readBytes_congr (m := m) (m' := m')]
  · intro i h1 h2; exact h i (by omega) (by rw [entrySize_eq]; omega)
  · intro i h1 h2; exact h i h1 (by rw [entrySize_eq]; omega)

/-- `_write_allocs`' entry loop touches `[p, p + 16·len)` only -/
theorem writeEntries_outside : ∀ (t : Table) (m : Mem) (p i : Nat),
    (i < p ∨ p + entrySize * t.length ≤ i) → writeEntries m p t i = m i
  | [], _, _, _, _ => rfl
  | e :: r, m, p, i, h => by
    simp only [writeEntries]
    simp only [List.length_cons, Nat.mul_succ] at h
    rw [writeEntries_outside r _ _ _ (by omega)]
    unfold writeEntry
    apply writeAt_outside
    rw [List.length_append, leBytes_length, leBytes_length, ← entrySize_eq]
    omega

theorem readEntries_congr {m m' : Mem} : ∀ (n p : Nat), (∀ i, p ≤ i → i < p + entrySize * n → m i = m' i) →
    readEntries m p n = readEntries m' p n
  | 0, _, _ => rfl
  | n + 1, p, h => by
    simp only [readEntries]
    rw [readEntry_congr (m := m) (m' := m'), readEntries_congr n (p + entrySize)]
    · intro i h1 h2; exact h i (by omega) (by rw [Nat.mul_succ]; omega)
    · intro i h1 h2; exact h i h1 (by rw [Nat.mul_succ]; omega)

/-- the first `len t` slots read back `t`, whatever is written behind them -/
theorem readEntries_writeEntries : ∀ (t z : Table) (m : Mem) (p : Nat),
    (∀ e ∈ t, e.1 < 256 ^ offWidth ∧ e.2 < 256 ^ lenWidth) →
      readEntries (writeEntries m p (t ++ z)) p t.length = t
  | [], _, _, _, _ => rfl
  | e :: r, z, m, p, h => by
    simp only [List.cons_append, writeEntries, List.length_cons, readEntries]
    have he := h e (List.mem_cons_self ..)
    rw [readEntries_writeEntries r z _ _ (fun x hx => h x (List.mem_cons_of_mem _ hx))]
    rw [readEntry_congr (m' := writeEntry m p e), readEntry_writeEntry m p e he.1 he.2]
    intro i h1 h2
    exact writeEntries_outside (r ++ z) _ _ _ (Or.inl h2)

theorem count_before_table : countOffset + countWidth ≤ tableBase := by decide

theorem readCount_writeAllocs (m : Mem) (t : Table) : readCount (writeAllocs m t) = t.length % 256 ^ countWidth := by
  unfold readCount writeAllocs
  rw [readBytes_congr (m' := writeAt m countOffset (leBytes countWidth t.length))]
  · have := readBytes_writeAt m countOffset (leBytes countWidth t.length)
    rw [leBytes_length] at this
    rw [this, leVal_leBytes]
  · intro i h1 h2
    exact writeEntries_outside (t ++ trailingSlots) _ _ _ (Or.inl (by have := count_before_table; omega))

/-- `_read_allocs(_write_allocs(t)) = t` -/
theorem readAllocs_writeAllocs (m : Mem) (t : Table) (hc : t.length < 256 ^ countWidth)
    (he : ∀ e ∈ t, e.1 < 256 ^ offWidth ∧ e.2 < 256 ^ lenWidth) : readAllocs (writeAllocs m t) = t := by
  unfold readAllocs
  rw [readCount_writeAllocs, Nat.mod_eq_of_lt hc]
  unfold writeAllocs
  exact readEntries_writeEntries t trailingSlots _ _ he

theorem trailingSlots_length : trailingSlots.length = writeTrailingSlots := List.length_replicate ..

/-- **extent of `_write_allocs`**: the count field and `[tableBase, tableBase + entrySize·(len + trailing slots))`, nothing else -/
theorem writeAllocs_outside (m : Mem) (t : Table) (i : Nat)
    (h1 : i < countOffset ∨ countOffset + countWidth ≤ i)
    (h2 : i < tableBase ∨ tableBase + entrySize * (t.length + writeTrailingSlots) ≤ i) :
    writeAllocs m t i = m i := by
  unfold writeAllocs
  rw [writeEntries_outside (t ++ trailingSlots) _ _ _ (by rw [List.length_append, trailingSlots_length]; exact h2)]
  apply writeAt_outside
  rw [leBytes_length]; exact h1

/-- `MAX_ALLOCS` entries end inside the header (what `_read_allocs` can reach) -/
theorem table_fits : tableBase + entrySize * maxAllocs ≤ headerSize := by decide

/-- **header / data disjointness over the extracted layout**: the farthest byte `_write_allocs` can reach with a full
    table — `MAX_ALLOCS` entries *plus every trailing slot it writes* — is still below the data offset -/
theorem write_extent_fits : tableBase + entrySize * (maxAllocs + writeTrailingSlots) ≤ headerSize := by decide

theorem writeAllocs_data (m : Mem) (t : Table) (i : Nat) (hl : t.length ≤ maxAllocs) (hi : headerSize ≤ i) :
    writeAllocs m t i = m i := by
  have := write_extent_fits
  have := count_before_table
  have : entrySize * (t.length + writeTrailingSlots) ≤ entrySize * (maxAllocs + writeTrailingSlots) :=
    Nat.mul_le_mul_left _ (by omega)
  apply writeAllocs_outside <;> omega

theorem readCount_congr {m m' : Mem} (h : ∀ i, i < headerSize → m i = m' i) : readCount m = readCount m' := by
  unfold readCount
  rw [readBytes_congr]
  intro i h1 h2
  have := table_fits
  have := count_before_table
  exact h i (by omega)

/-- the table is read from the header only -/
theorem readAllocs_congr {m m' : Mem} (h : ∀ i, i < headerSize → m i = m' i) (hc : readCount m ≤ maxAllocs) :
    readAllocs m = readAllocs m' := by
  unfold readAllocs
  rw [← readCount_congr h]
  apply readEntries_congr
  intro i h1 h2
  have := table_fits
  have : entrySize * readCount m ≤ entrySize * maxAllocs := Nat.mul_le_mul_left _ hc
  exact h i (by omega)

theorem readEntries_length (m : Mem) : ∀ (n p : Nat), (readEntries m p n).length = n
  | 0, _ => rfl
  | n + 1, p => by simp only [readEntries, List.length_cons, readEntries_length m n]

theorem readAllocs_length (m : Mem) : (readAllocs m).length = readCount m := readEntries_length m _ _


/-! ## the sink -/

theorem sinkBounded_eq : sinkBounded = true := rfl
theorem sinkSticky_eq : sinkSticky = true := rfl
theorem sinkGuard_eval (a b : Int) : sinkGuardCmp.eval a b = decide (b < a) := rfl

/-- `_ShmSink.write` in arithmetic form (the extracted guard plugged in) -/
theorem write_eq (bufLen : Nat) (s : Sink) (m : Mem) (d : List UInt8) :
    s.write bufLen m d =
      if s.end_ < s.pos + d.length then ({ s with end_ := s.pos }, m, .overflow)
      else if s.pos + d.length > bufLen ∧ d.length ≠ 0 then (s, m, .valueError)
      else ({ s with pos := s.pos + d.length }, writeAt m s.pos d, .ok) := by
  unfold Sink.write Sink.writeWith
  simp only [sinkBounded_eq, sinkSticky_eq, sinkGuard_eval, Bool.true_and, decide_eq_true_eq, if_true]
  by_cases h : s.end_ < s.pos + d.length
  · have h' : (s.end_ : Int) - s.pos < d.length := by omega
    rw [if_pos h, if_pos h']
  · have h' : ¬ (s.end_ : Int) - s.pos < d.length := by omega
    rw [if_neg h, if_neg h']

/-- the sink's own invariant: `_start ≤ _pos ≤ _end` -/
def SinkOK (s : Sink) : Prop := s.start ≤ s.pos ∧ s.pos ≤ s.end_

/-- one `write`: the sink stays inside its original region, which is the only memory that can change -/
theorem write_contained {bufLen : Nat} {s : Sink} {m : Mem} {d : List UInt8} (hs : SinkOK s) :
    SinkOK (s.write bufLen m d).1 ∧ (s.write bufLen m d).1.start = s.start ∧ (s.write bufLen m d).1.end_ ≤ s.end_ ∧
      s.pos ≤ (s.write bufLen m d).1.pos ∧
      ∀ i, (i < s.pos ∨ s.end_ ≤ i) → (s.write bufLen m d).2.1 i = m i := by
  rw [write_eq]
  obtain ⟨h1, h2⟩ := hs
  split
  · exact ⟨⟨h1, Nat.le_refl _⟩, rfl, h2, Nat.le_refl _, fun _ _ => rfl⟩
  · split
    · exact ⟨⟨h1, h2⟩, rfl, Nat.le_refl _, Nat.le_refl _, fun _ _ => rfl⟩
    · refine ⟨⟨by show s.start ≤ s.pos + d.length; omega, by show s.pos + d.length ≤ s.end_; omega⟩, rfl, Nat.le_refl _,
        by show s.pos ≤ s.pos + d.length; omega, ?_⟩
      intro i hi
      exact writeAt_outside (by omega)

/-- **containment for any caller**: whatever is passed to `write`, in whatever order and however often, even after a
    refusal, no byte outside `[start, end)` of the sink ever changes -/
theorem feedAll_contained {bufLen : Nat} : ∀ (chunks : List (List UInt8)) {s : Sink} {m : Mem}, SinkOK s →
    ∀ i, (i < s.pos ∨ s.end_ ≤ i) → (feedAll bufLen s m chunks).2 i = m i
  | [], _, _, _, _, _ => rfl
  | d :: r, s, m, hs, i, hi => by
    simp only [feedAll]
    obtain ⟨ok, _, he, hp, hm⟩ := write_contained (bufLen := bufLen) (m := m) (d := d) hs
    rw [feedAll_contained r ok i (by omega)]
    exact hm i hi

theorem feed_contained {bufLen : Nat} : ∀ (chunks : List (List UInt8)) {s : Sink} {m : Mem}, SinkOK s →
    SinkOK (feed bufLen s m chunks).1 ∧ (feed bufLen s m chunks).1.start = s.start ∧
      ∀ i, (i < s.pos ∨ s.end_ ≤ i) → (feed bufLen s m chunks).2.1 i = m i
  | [], _, _, hs => ⟨hs, rfl, fun _ _ => rfl⟩
  | d :: r, s, m, hs => by
    obtain ⟨ok, hst, he, hp, hm⟩ := write_contained (bufLen := bufLen) (m := m) (d := d) hs
    simp only [feed]
    generalize hw : s.write bufLen m d = w at ok hst he hp hm
    obtain ⟨s', m', res⟩ := w
    cases res with
    | ok =>
      obtain ⟨a, b, c⟩ := feed_contained (bufLen := bufLen) r (s := s') (m := m') ok
      refine ⟨a, b.trans hst, ?_⟩
      intro i hi
      rw [c i (by simp only at he hp; omega)]
      exact hm i hi
    | overflow => exact ⟨ok, hst, hm⟩
    | valueError => exact ⟨ok, hst, hm⟩

/-- bytes handed over so far -/
def nbytes (chunks : List (List UInt8)) : Nat := (chunks.map List.length).sum

theorem feed_cons (bufLen : Nat) (s : Sink) (m : Mem) (d : List UInt8) (r : List (List UInt8)) :
    feed bufLen s m (d :: r) =
      if s.end_ < s.pos + d.length then ({ s with end_ := s.pos }, m, .overflow)
      else if s.pos + d.length > bufLen ∧ d.length ≠ 0 then (s, m, .valueError)
      else feed bufLen { s with pos := s.pos + d.length } (writeAt m s.pos d) r := by
  simp only [feed]
  rw [write_eq]
  by_cases h1 : s.end_ < s.pos + d.length
  · rw [if_pos h1, if_pos h1]
  · rw [if_neg h1, if_neg h1]
    by_cases h2 : s.pos + d.length > bufLen ∧ d.length ≠ 0
    · rw [if_pos h2, if_pos h2]
    · rw [if_neg h2, if_neg h2]

/-- a completed write consumed exactly the bytes it was given -/
theorem feed_ok_pos {bufLen : Nat} : ∀ (chunks : List (List UInt8)) {s : Sink} {m : Mem},
    (feed bufLen s m chunks).2.2 = .ok → (feed bufLen s m chunks).1.pos = s.pos + nbytes chunks ∧
      (feed bufLen s m chunks).1.end_ = s.end_
  | [], _, _, _ => ⟨rfl, rfl⟩
  | d :: r, s, m, h => by
    rw [feed_cons] at h ⊢
    by_cases h1 : s.end_ < s.pos + d.length
    · rw [if_pos h1] at h; cases h
    · rw [if_neg h1] at h ⊢
      by_cases h2 : s.pos + d.length > bufLen ∧ d.length ≠ 0
      · rw [if_pos h2] at h; cases h
      · rw [if_neg h2] at h ⊢
        obtain ⟨a, b⟩ := feed_ok_pos r h
        simp only at a b
        rw [a, b]
        simp only [nbytes, List.map_cons, List.sum_cons]
        exact ⟨by omega, trivial⟩

/-- **the bound refuses nothing that fits**: if everything the writer hands over fits in the region, the write completes -/
theorem feed_fits {bufLen : Nat} : ∀ (chunks : List (List UInt8)) {s : Sink} {m : Mem},
    s.pos + nbytes chunks ≤ s.end_ → s.end_ ≤ bufLen → (feed bufLen s m chunks).2.2 = .ok
  | [], _, _, _, _ => rfl
  | d :: r, s, m, h, hb => by
    simp only [nbytes, List.map_cons, List.sum_cons] at h
    rw [feed_cons, if_neg (by omega), if_neg (by omega)]
    exact feed_fits r (by simp only [nbytes]; omega) hb

/-- conversely a write that does not fit is refused: `feed` completes only if the bytes fit in the region -/
theorem feed_ok_fits {bufLen : Nat} {chunks : List (List UInt8)} {s : Sink} {m : Mem} (hs : SinkOK s)
    (h : (feed bufLen s m chunks).2.2 = .ok) : s.pos + nbytes chunks ≤ s.end_ := by
  obtain ⟨a, b⟩ := feed_ok_pos chunks h
  have := (feed_contained (bufLen := bufLen) chunks (m := m) hs).1.2
  omega

/-- outcome and sink position do not depend on the bytes in memory -/
theorem feed_indep {bufLen : Nat} : ∀ (chunks : List (List UInt8)) (s : Sink) (m m' : Mem),
    (feed bufLen s m chunks).1 = (feed bufLen s m' chunks).1 ∧ (feed bufLen s m chunks).2.2 = (feed bufLen s m' chunks).2.2
  | [], _, _, _ => ⟨rfl, rfl⟩
  | d :: r, s, m, m' => by
    rw [feed_cons, feed_cons]
    by_cases h1 : s.end_ < s.pos + d.length
    · rw [if_pos h1, if_pos h1]; exact ⟨rfl, rfl⟩
    · rw [if_neg h1, if_neg h1]
      by_cases h2 : s.pos + d.length > bufLen ∧ d.length ≠ 0
      · rw [if_pos h2, if_pos h2]; exact ⟨rfl, rfl⟩
      · rw [if_neg h2, if_neg h2]; exact feed_indep r _ _ _


end Aux
end VgiVerif.C28
