import VgiVerif.Lemmas.PyStr
/-
More `splitOn` facts (general separator positions), used by the routing proofs of C20.
-/
namespace VgiVerif.PyStr

/-- splitting distributes over a separator wherever it stands -/
theorem splitOn_append_sep (sep : Char) (a b : List Char) :
    splitOn sep (a ++ sep :: b) = splitOn sep a ++ splitOn sep b := by
  induction a with
  | nil => simp [splitOn]
  | cons c cs ih =>
    by_cases hc : c = sep
    · subst hc
      simp [splitOn, ih]
    · cases hs : splitOn sep cs with
      | nil => exact absurd hs (splitOn_ne_nil _ _)
      | cons x r =>
        rw [hs] at ih
        simp [splitOn, hc, ih, hs]

/-- the first piece, followed by the separator, is a prefix of the string followed by the separator -/
theorem splitOn_head_prefix (sep : Char) (t a : List Char) (ps : List (List Char))
    (h : splitOn sep t = a :: ps) : (a ++ [sep]) <+: (t ++ [sep]) := by
  have hj := join_splitOn sep t
  rw [h] at hj
  cases ps with
  | nil =>
    simp [join] at hj
    subst hj
    exact List.prefix_refl _
  | cons y r =>
    simp only [join] at hj
    rw [← hj]
    refine ⟨join [sep] (y :: r) ++ [sep], ?_⟩
    simp

end VgiVerif.PyStr
