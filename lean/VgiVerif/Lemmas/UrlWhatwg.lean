import VgiVerif.Prelude.UrlWhatwg
import VgiVerif.Lemmas.UrlPy
/-
Lemmas about the WHATWG model (Prelude/UrlWhatwg.lean): what `parse` does on
  * an absolute special URL `S "://" N R` (authority `N`, rest `R`), and
  * an absolute-path reference `/…` without dot segments.
-/
set_option linter.unusedSimpArgs false
namespace VgiVerif.UrlWhatwg
open VgiVerif.PyStr VgiVerif.UrlPy

/-! ## pre-processing -/

theorem stripTrailing_cons_keep (c : Char) (r : Str) (h : isC0OrSpace c = false) :
    stripTrailing (c :: r) = c :: stripTrailing r := by
  rw [stripTrailing]
  split
  · rename_i h0
    rw [h0]
    simp [h]
  · rfl

theorem stripTrailing_clean_append (u l : Str) (h : Clean u) : stripTrailing (u ++ l) = u ++ stripTrailing l := by
  induction u with
  | nil => rfl
  | cons c cs ih =>
    have hc := not_c0_of_clean h c (by simp)
    rw [List.cons_append, stripTrailing_cons_keep _ _ hc, ih h.tail]
    rfl

theorem stripTrailing_clean (u : Str) (h : Clean u) : stripTrailing u = u := by
  have := stripTrailing_clean_append u [] h
  simpa [stripTrailing] using this

theorem preprocess_clean {u : Str} (h : Clean u) : preprocess u = u := by
  unfold preprocess
  rw [dropWhile_none _ _ (not_c0_of_clean h), stripTrailing_clean _ h]
  apply List.filter_eq_self.2
  intro c hc
  simp [not_tabnl_of_clean h c hc]

/-- appending `c t` (with `c` a visible character) to a clean, non-empty string: pre-processing only touches `t` -/
theorem preprocess_clean_append {u : Str} (h : Clean u) (hne : u ≠ []) (c : Char) (hc : 0x20 < c.toNat) (t : Str) :
    ∃ t', preprocess (u ++ c :: t) = u ++ c :: t' := by
  have hc0 : isC0OrSpace c = false := by simp [isC0OrSpace]; omega
  have hctn : isTabNl c = false := by
    simp only [isTabNl, Bool.or_eq_false_iff, beq_eq_false_iff_ne, ne_eq]
    refine ⟨⟨?_, ?_⟩, ?_⟩ <;> (rintro rfl; revert hc; decide)
  refine ⟨(stripTrailing t).filter (fun c => !isTabNl c), ?_⟩
  unfold preprocess
  have hd : (u ++ c :: t).dropWhile isC0OrSpace = u ++ c :: t := by
    cases u with
    | nil => exact absurd rfl hne
    | cons x xs =>
      have := not_c0_of_clean h x (by simp)
      simp [List.dropWhile, this]
  rw [hd, stripTrailing_clean_append _ _ h, stripTrailing_cons_keep _ _ hc0]
  rw [List.filter_append, List.filter_cons]
  have hf : u.filter (fun c => !isTabNl c) = u := by
    apply List.filter_eq_self.2
    intro x hx
    simp [not_tabnl_of_clean h x hx]
  rw [hf]
  simp [hctn]

/-! ## scheme -/

theorem parseScheme_shape (S X : Str) (hhead : ∃ c t, S = c :: t ∧ isAsciiAlpha c = true)
    (hall : ∀ c ∈ S, isSchemeChar c = true) :
    parseScheme (S ++ ':' :: X) = some (S.map asciiLower, X) := by
  obtain ⟨c, t, rfl, hc⟩ := hhead
  have hcolon : isSchemeChar ':' = false := by decide
  unfold parseScheme
  simp only [List.cons_append, hc, if_true]
  have h1 : ((c :: t) ++ ':' :: X).dropWhile isSchemeChar = ':' :: X := dropWhile_append_stop _ _ _ _ hall hcolon
  have h2 : ((c :: t) ++ ':' :: X).takeWhile isSchemeChar = c :: t := takeWhile_append_stop _ _ _ _ hall hcolon
  simp only [List.cons_append] at h1 h2
  rw [h1, h2]
  rfl

/-! ## an absolute special URL -/

theorem isSlash_of_not_authEnd {c : Char} (h : isAuthEnd c = false) : isSlash c = false := by
  simp only [isAuthEnd, Bool.or_eq_false_iff] at h
  simp [isSlash, h.1.1.1, h.2]

theorem authorityState_split (scheme N R : Str) (hN : ∀ c ∈ N, isAuthEnd c = false)
    (hR : R = [] ∨ ∃ c R', R = c :: R' ∧ isAuthEnd c = true) :
    authorityState scheme (N ++ R) = authorityParts scheme N R := by
  unfold authorityState
  have hN' : ∀ c ∈ N, (!isAuthEnd c) = true := by intro c hc; simp [hN c hc]
  rcases hR with rfl | ⟨c, R', rfl, hc⟩
  · rw [List.append_nil, takeWhile_all _ _ hN', dropWhile_all _ _ hN']
  · have hc' : (!isAuthEnd c) = false := by simp [hc]
    rw [takeWhile_append_stop _ _ _ _ hN' hc', dropWhile_append_stop _ _ _ _ hN' hc']

theorem ignoreSlashes_authority (scheme N R : Str) (hne : N ≠ [] ∨ R = []) (hN : ∀ c ∈ N, isAuthEnd c = false)
    (hR : R = [] ∨ ∃ c R', R = c :: R' ∧ isAuthEnd c = true) :
    ignoreSlashes scheme (N ++ R) = authorityParts scheme N R := by
  unfold ignoreSlashes
  cases N with
  | nil =>
    rcases hne with h | rfl
    · exact absurd rfl h
    · rfl
  | cons x xs =>
    have : isSlash x = false := isSlash_of_not_authEnd (hN x (by simp))
    have hd : ((x :: xs) ++ R).dropWhile isSlash = (x :: xs) ++ R := by simp [List.dropWhile, this]
    rw [hd]
    exact authorityState_split scheme _ R hN hR

theorem ignoreSlashes_slashes (scheme X : Str) : ignoreSlashes scheme ('/' :: '/' :: X) = ignoreSlashes scheme X := by
  unfold ignoreSlashes
  have : isSlash '/' = true := by decide
  simp [List.dropWhile, this]

/-- **absolute special URL**: `S "://" N R` is parsed by running the authority state on `N` and the path start state on
`R`, whatever the base URL is -/
theorem parse_absolute (base : Url) (input S N R : Str)
    (hpre : preprocess input = S ++ ':' :: '/' :: '/' :: (N ++ R))
    (hhead : ∃ c t, S = c :: t ∧ isAsciiAlpha c = true) (hall : ∀ c ∈ S, isSchemeChar c = true)
    (hsp : isSpecial (S.map asciiLower) = true) (hnf : isFile (S.map asciiLower) = false)
    (hne : N ≠ [] ∨ R = []) (hN : ∀ c ∈ N, isAuthEnd c = false)
    (hR : R = [] ∨ ∃ c R', R = c :: R' ∧ isAuthEnd c = true) :
    parse base input = authorityParts (S.map asciiLower) N R := by
  unfold parse
  simp only [hpre, parseScheme_shape S _ hhead hall, hnf, hsp, if_true, Bool.false_eq_true, if_false]
  split
  · exact ignoreSlashes_authority _ N R hne hN hR
  · rw [ignoreSlashes_slashes]
    exact ignoreSlashes_authority _ N R hne hN hR

/-! ## an authority without userinfo and brackets -/

theorem splitHostPort_plain (l : Str) (h1 : '[' ∉ l) (h2 : ']' ∉ l) :
    splitHostPort l false = (l.takeWhile (· != ':'), match l.dropWhile (· != ':') with | [] => none | _ :: r => some r) := by
  induction l with
  | nil => rfl
  | cons c r ih =>
    have hc1 : c ≠ '[' := by rintro rfl; exact h1 (by simp)
    have hc2 : c ≠ ']' := by rintro rfl; exact h2 (by simp)
    have ih' := ih (fun h => h1 (by simp [h])) (fun h => h2 (by simp [h]))
    unfold splitHostPort
    by_cases hcol : c = ':'
    · subst hcol
      simp [List.takeWhile, List.dropWhile]
    · have hb : (c == ':') = false := by simp [hcol]
      have hb1 : (c == '[') = false := by simp [hc1]
      have hb2 : (c == ']') = false := by simp [hc2]
      have hne : (c != ':') = true := by simp [hcol]
      simp only [hb, hb1, hb2, Bool.false_and, Bool.false_eq_true, if_false, ih', List.takeWhile, List.dropWhile, hne]

theorem splitHostPort_port (l : Str) (h1 : '[' ∉ l) (h2 : ']' ∉ l) :
    ((splitHostPort l false).2).getD [] = afterColon l := by
  rw [splitHostPort_plain l h1 h2]
  unfold afterColon partition
  cases l.dropWhile (· != ':') <;> rfl

/-- **plain authority**: without `@`, `[`, `]` the host buffer is what precedes the first `:` and the port buffer what
follows it — the same split as `urllib.parse`'s `_hostinfo` -/
theorem authorityParts_plain (scheme N R : Str) (h0 : '@' ∉ N) (h1 : '[' ∉ N) (h2 : ']' ∉ N) :
    authorityParts scheme N R = hostPort scheme [] [] (N.takeWhile (· != ':')) (afterColon N) R := by
  unfold authorityParts
  simp only [rpartition_not_found _ _ h0, Bool.false_and, Bool.false_eq_true, if_false]
  rw [splitHostPort_port N h1 h2, splitHostPort_plain N h1 h2]

/-! ## the origin a host buffer and a port buffer produce -/

/-- origin of `hostPort scheme _ _ H P _` -/
def originFrom (scheme H P : Str) : Option Origin :=
  if H.isEmpty then none
  else
    match hostParse H with
    | .ok host =>
      match portParse scheme P with
      | some port => some ⟨scheme, host, port.getD ((defaultPort scheme).getD 0)⟩
      | none => none
    | _ => none

theorem pathState_origin (u : Url) (init : List Str) (s : Str) :
    (pathState u init s).scheme = u.scheme ∧ (pathState u init s).host = u.host ∧ (pathState u init s).port = u.port := by
  unfold pathState
  exact ⟨rfl, rfl, rfl⟩

theorem pathStart_origin (u : Url) (s : Str) :
    (pathStart u s).scheme = u.scheme ∧ (pathStart u s).host = u.host ∧ (pathStart u s).port = u.port := by
  unfold pathStart
  split
  · split <;> exact pathState_origin _ _ _
  · exact pathState_origin _ _ _

theorem originOf_pathStart (u : Url) (s : Str) : originOf (pathStart u s) = originOf u := by
  obtain ⟨h1, h2, h3⟩ := pathStart_origin u s
  unfold originOf
  rw [h1, h2, h3]

theorem hostPort_origin (scheme un pw H P R : Str) (o : Origin) :
    originFrom scheme H P = some o ↔ ∃ url, hostPort scheme un pw H P R = .ok url ∧ originOf url = o := by
  unfold originFrom hostPort
  by_cases hH : H.isEmpty = true
  · simp [hH]
  · simp only [hH, Bool.false_eq_true, if_false]
    cases hostParse H with
    | failure => simp
    | unsupported => simp
    | ok host =>
      simp only
      cases portParse scheme P with
      | none => simp
      | some port =>
        simp only [Option.some.injEq, Result.ok.injEq, exists_eq_left', originOf_pathStart]
        rfl

/-! ## the host parser on an ASCII host without percent-escapes -/

theorem ofNat_add32_toNat : ∀ n < 91, 65 ≤ n → (Char.ofNat (n + 32)).toNat = n + 32 := by decide

theorem asciiLower_toNat (c : Char) :
    (asciiLower c).toNat = if 65 ≤ c.toNat ∧ c.toNat ≤ 90 then c.toNat + 32 else c.toNat := by
  unfold asciiLower
  split
  · rename_i h
    exact ofNat_add32_toNat _ (by omega) h.1
  · rfl

theorem asciiLower_idem (c : Char) : asciiLower (asciiLower c) = asciiLower c := by
  apply Char.toNat_inj.mp
  rw [asciiLower_toNat (asciiLower c), asciiLower_toNat c]
  by_cases h : 65 ≤ c.toNat ∧ c.toNat ≤ 90
  · rw [if_pos h, if_neg (by omega)]
  · rw [if_neg h, if_neg h]

theorem asciiLower_eq_of_not_upper {c : Char} (h : ¬ (65 ≤ c.toNat ∧ c.toNat ≤ 90)) : asciiLower c = c := by
  unfold asciiLower; rw [if_neg h]

theorem asciiLower_ne {c : Char} (x : Char) (hx : ¬ (97 ≤ x.toNat ∧ x.toNat ≤ 122)) (h : c ≠ x) : asciiLower c ≠ x := by
  intro heq
  have := asciiLower_toNat c
  rw [heq] at this
  split at this
  · omega
  · exact h (Char.toNat_inj.mp this.symm)

theorem map_asciiLower_idem (s : Str) : (s.map asciiLower).map asciiLower = s.map asciiLower := by
  rw [List.map_map]
  apply List.map_congr_left
  intro c _
  exact asciiLower_idem c

theorem asciiLower_isAscii (c : Char) (h : isAscii c = true) : isAscii (asciiLower c) = true := by
  simp only [isAscii, decide_eq_true_eq] at h ⊢
  rw [asciiLower_toNat]
  split <;> omega

theorem percentDecode_plain (s : Str) (hp : '%' ∉ s) (ha : ∀ c ∈ s, isAscii c = true) :
    percentDecode s = s.map Char.toNat := by
  induction s with
  | nil => rfl
  | cons c r ih =>
    have hc : c ≠ '%' := by rintro rfl; exact hp (by simp)
    have ihr := ih (fun h => hp (by simp [h])) (fun x hx => ha x (by simp [hx]))
    have hac : c.toNat < 128 := by simpa [isAscii] using ha c (by simp)
    rw [percentDecode.eq_def]
    split
    · rename_i heq
      simp only [List.cons.injEq] at heq
      exact absurd heq.1 hc
    · rename_i c' r' _ heq
      simp only [List.cons.injEq] at heq
      obtain ⟨rfl, rfl⟩ := heq
      rw [ihr]
      simp [utf8, hac]
    · rename_i heq
      cases heq

theorem ofNat_toNat_map (s : Str) : (s.map Char.toNat).map Char.ofNat = s := by
  induction s with
  | nil => rfl
  | cons c r ih => simp [ih]

/-- on an ASCII buffer without `%` that is not a bracketed literal, the host parser only sees the lower-cased buffer -/
theorem hostParse_plain (buf : Str) (hbr : ∀ r, buf ≠ '[' :: r) (hp : '%' ∉ buf) (ha : ∀ c ∈ buf, isAscii c = true) :
    hostParse buf = domainToHost (buf.map asciiLower) := by
  unfold hostParse
  split
  · rename_i r
    exact absurd rfl (hbr r)
  · have hall : buf.all isAscii = true := List.all_eq_true.2 ha
    rw [percentDecode_plain buf hp ha, ofNat_toNat_map]
    have hany : (buf.map Char.toNat).any (fun b => decide (b ≥ 0x80)) = false := by
      rw [List.any_eq_false]
      intro b hb
      simp only [List.mem_map] at hb
      obtain ⟨c, hc, rfl⟩ := hb
      have := ha c hc
      simp only [isAscii, decide_eq_true_eq] at this
      simp; omega
    simp [hall, hany]

theorem hostParse_lower (buf : Str) (hbr : ∀ r, buf ≠ '[' :: r) (hp : '%' ∉ buf) (ha : ∀ c ∈ buf, isAscii c = true) :
    hostParse (buf.map asciiLower) = hostParse buf := by
  rw [hostParse_plain buf hbr hp ha, hostParse_plain (buf.map asciiLower), map_asciiLower_idem]
  · intro r heq
    cases buf with
    | nil => simp at heq
    | cons c cs =>
      simp only [List.map_cons, List.cons.injEq] at heq
      have hc : c ≠ '[' := by rintro rfl; exact hbr cs rfl
      exact asciiLower_ne '[' (by decide) hc heq.1
  · intro hmem
    simp only [List.mem_map] at hmem
    obtain ⟨c, hc, heq⟩ := hmem
    have hne : c ≠ '%' := by rintro rfl; exact hp hc
    exact asciiLower_ne '%' (by decide) hne heq
  · intro c hc
    simp only [List.mem_map] at hc
    obtain ⟨x, hx, rfl⟩ := hc
    exact asciiLower_isAscii x (ha x hx)

/-! ## the port state -/

theorem portParse_nil (scheme : Str) : portParse scheme [] = some none := by
  unfold portParse; simp

theorem portParse_digits (scheme P : Str) (hd : P.all isAsciiDigit = true) (hne : P ≠ []) (hle : decimalVal P ≤ 65535) :
    portParse scheme P = some (if defaultPort scheme = some (decimalVal P) then none else some (decimalVal P)) := by
  unfold portParse
  have he : P.isEmpty = false := by cases P <;> simp at hne ⊢
  simp only [hd, Bool.not_true, Bool.false_eq_true, if_false, he]
  rw [if_neg (by omega)]
  split <;> rfl

/-! ## an absolute-path reference without dot segments -/

theorem splitSlash_eq_splitOn (p : Str) (h : '\\' ∉ p) : splitSlash p = splitOn '/' p := by
  induction p with
  | nil => rfl
  | cons c cs ih =>
    have hc : c ≠ '\\' := by rintro rfl; exact h (by simp)
    have ih' := ih (fun hm => h (by simp [hm]))
    unfold splitSlash splitOn
    by_cases hs : c = '/'
    · subst hs
      simp [isSlash, ih']
    · have : isSlash c = false := by simp [isSlash, hs, hc]
      simp only [this, Bool.false_eq_true, if_false, hs, ih']
      rfl

theorem splitSlash_ne_nil (p : Str) : splitSlash p ≠ [] := by
  induction p with
  | nil => simp [splitSlash]
  | cons c cs ih =>
    unfold splitSlash
    split
    · simp
    · split <;> simp

/-- without dot segments the path state appends every (encoded) segment -/
theorem pathFold_nodots (segs : List Str) (acc : List Str)
    (h : ∀ seg ∈ segs, isSingleDot seg = false ∧ isDoubleDot seg = false) :
    pathFold acc segs = acc ++ segs.map (encodeWith inPathSet) := by
  induction segs generalizing acc with
  | nil => simp [pathFold]
  | cons b rest ih =>
    obtain ⟨h1, h2⟩ := h b (by simp)
    cases rest with
    | nil => simp [pathFold, h1, h2]
    | cons b2 rest2 =>
      rw [pathFold]
      · simp only [h1, h2, Bool.false_eq_true, if_false]
        rw [ih _ (fun seg hs => h seg (by simp [hs]))]
        simp
      · simp

theorem encodeWith_append (set : Char → Bool) (a b : Str) : encodeWith set (a ++ b) = encodeWith set a ++ encodeWith set b := by
  unfold encodeWith; simp

theorem encodeWith_cons_keep (set : Char → Bool) (c : Char) (r : Str) (h : set c = false) :
    encodeWith set (c :: r) = c :: encodeWith set r := by
  unfold encodeWith; simp [h]

theorem encodeWith_id (set : Char → Bool) (s : Str) (h : ∀ c ∈ s, set c = false) : encodeWith set s = s := by
  induction s with
  | nil => rfl
  | cons c r ih => rw [encodeWith_cons_keep _ _ _ (h c (by simp)), ih (fun x hx => h x (by simp [hx]))]

theorem slash_not_in_pathSet : inPathSet '/' = false := by decide

/-- joining the encoded segments with `/` is encoding the unsplit text -/
theorem join_encoded (p : Str) :
    (splitOn '/' p).flatMap (fun seg => '/' :: encodeWith inPathSet seg) = '/' :: encodeWith inPathSet p := by
  induction p with
  | nil => rfl
  | cons c cs ih =>
    unfold splitOn
    by_cases hs : c = '/'
    · subst hs
      simp only [if_true, List.flatMap_cons, ih]
      rw [encodeWith_cons_keep _ _ _ slash_not_in_pathSet]
      rfl
    · simp only [hs, if_false]
      cases hsp : splitOn '/' cs with
      | nil => exact absurd hsp (splitOn_ne_nil _ _)
      | cons h t =>
        rw [hsp] at ih
        simp only [List.flatMap_cons] at ih ⊢
        have e : encodeWith inPathSet (c :: h) = encodeWith inPathSet [c] ++ encodeWith inPathSet h :=
          encodeWith_append _ [c] h
        have e2 : encodeWith inPathSet (c :: cs) = encodeWith inPathSet [c] ++ encodeWith inPathSet cs :=
          encodeWith_append _ [c] cs
        rw [e, e2]
        have ih' : encodeWith inPathSet h ++ List.flatMap (fun seg => '/' :: encodeWith inPathSet seg) t = encodeWith inPathSet cs := by
          simpa using ih
        rw [List.cons_append, List.append_assoc, ih']

theorem pathString_def (u : Url) : pathString u = u.path.flatMap (fun seg => '/' :: seg) := rfl

/-- **absolute-path reference**: `/g'` with `g'` not starting with a slash, clean, and without dot segments resolves to
the base's origin with the (encoded) text up to `?`/`#` as its path -/
theorem parse_abspath (base : Url) (g' : Str) (hcl : Clean ('/' :: g')) (hns : ∀ r, g' ≠ '/' :: r)
    (hdots : ∀ seg ∈ splitOn '/' (g'.takeWhile (fun c => !isPathEnd c)), isSingleDot seg = false ∧ isDoubleDot seg = false) :
    ∃ url, parse base ('/' :: g') = .ok url ∧ url.scheme = base.scheme ∧ url.host = base.host ∧ url.port = base.port ∧
      pathString url = encodeWith inPathSet (('/' :: g').takeWhile (fun c => !isPathEnd c)) := by
  have hpre := preprocess_clean hcl
  have hps : parseScheme ('/' :: g') = none := by
    unfold parseScheme
    have : isAsciiAlpha '/' = false := by decide
    simp [this]
  have hslash : isSlash '/' = true := by decide
  have hbs : '\\' ∉ g'.takeWhile (fun c => !isPathEnd c) := by
    intro hm
    exact (hcl.tail _ (mem_of_mem_takeWhile _ _ _ hm)).2 rfl
  have key : ∀ B : Url, pathString (pathState B [] g') = encodeWith inPathSet (('/' :: g').takeWhile (fun c => !isPathEnd c)) := by
    intro B
    have hpe : (!isPathEnd '/') = true := by decide
    rw [pathString_def]
    unfold pathState
    simp only
    rw [splitSlash_eq_splitOn _ hbs, pathFold_nodots _ _ hdots, List.nil_append, List.flatMap_map, join_encoded]
    rw [List.takeWhile_cons, if_pos hpe, encodeWith_cons_keep _ _ _ slash_not_in_pathSet]
  unfold parse
  simp only [hpre, hps]
  unfold relativeState
  simp only [hslash, if_true]
  unfold relativeSlash
  cases g' with
  | nil =>
    exact ⟨_, rfl, (pathState_origin _ _ _).1, (pathState_origin _ _ _).2.1, (pathState_origin _ _ _).2.2, key _⟩
  | cons c r =>
    have hc1 : c ≠ '/' := by rintro rfl; exact hns r rfl
    have hc2 : c ≠ '\\' := (hcl c (by simp)).2
    have hsl : isSlash c = false := by simp [isSlash, hc1, hc2]
    simp only [hsl, Bool.false_eq_true, if_false]
    exact ⟨_, rfl, (pathState_origin _ _ _).1, (pathState_origin _ _ _).2.1, (pathState_origin _ _ _).2.2, key _⟩

end VgiVerif.UrlWhatwg
