import VgiVerif.Prelude.PyInt
/-
`int(str(n)) = n` for the model of `str(int)` / `int(str)`, and `strip` on strings without whitespace.
-/
namespace VgiVerif.PyInt

theorem digitChar_isDigit : ∀ d, d < 10 → isDigit (digitChar d) = true := by decide
theorem digitChar_val : ∀ d, d < 10 → (digitChar d).toNat - 48 = d := by decide
theorem digitChar_not_space : ∀ d, d < 10 → isSpace (digitChar d) = false := by decide
theorem digitChar_ne_minus : ∀ d, d < 10 → digitChar d ≠ '-' := by decide
theorem digitChar_ne_plus : ∀ d, d < 10 → digitChar d ≠ '+' := by decide

theorem natDigits_digits (n : Nat) : ∀ c ∈ natDigits n, isDigit c = true := by
  induction n using natDigits.induct with
  | case1 n h =>
    rw [natDigits]; simp only [h, if_true, List.mem_singleton]
    rintro c rfl; exact digitChar_isDigit n h
  | case2 n h ih =>
    rw [natDigits]; simp only [h, if_false, List.mem_append, List.mem_singleton]
    rintro c (hc | rfl)
    · exact ih c hc
    · exact digitChar_isDigit _ (Nat.mod_lt _ (by decide))

theorem natDigits_ne_nil (n : Nat) : natDigits n ≠ [] := by
  rw [natDigits]; split <;> simp

theorem digitsVal_append_digit (s : List Char) (c : Char) (hc : isDigit c = true) :
    digitsVal (s ++ [c]) = digitsVal s * 10 + (c.toNat - 48) := by
  simp [digitsVal, List.foldl_append, hc]

theorem digitsVal_natDigits (n : Nat) : digitsVal (natDigits n) = n := by
  induction n using natDigits.induct with
  | case1 n h =>
    rw [natDigits]; simp only [h, if_true]
    simp [digitsVal, digitChar_isDigit n h, digitChar_val n h]
  | case2 n h ih =>
    rw [natDigits]; simp only [h, if_false]
    have hm : n % 10 < 10 := Nat.mod_lt _ (by decide)
    rw [digitsVal_append_digit _ _ (digitChar_isDigit _ hm), ih, digitChar_val _ hm]
    omega

theorem validGo_digits (s : List Char) (hs : ∀ c ∈ s, isDigit c = true) :
    ∀ p, (s ≠ [] ∨ p = true) → validGo p s = true := by
  induction s with
  | nil => intro p h; rcases h with h | h; exact absurd rfl h; simp [validGo, h]
  | cons c r ih =>
    intro p _
    have hc := hs c (by simp)
    simp only [validGo, hc, if_true]
    exact ih (fun x hx => hs x (by simp [hx])) true (Or.inr rfl)

theorem parseDigits_natDigits (n : Nat) : parseDigits (natDigits n) = some n := by
  simp [parseDigits, validGo_digits _ (natDigits_digits n) false (Or.inl (natDigits_ne_nil n)), digitsVal_natDigits]

theorem dropWhile_none {α} (p : α → Bool) (s : List α) (h : ∀ c ∈ s, p c = false) : s.dropWhile p = s := by
  cases s with
  | nil => rfl
  | cons c r => simp [List.dropWhile, h c (by simp)]

/-- a string that neither starts nor ends with whitespace is its own `strip()` -/
theorem stripBy_of_ends (p : Char → Bool) (s : List Char) (h1 : ∀ c, s.head? = some c → p c = false)
    (h2 : ∀ c, s.getLast? = some c → p c = false) : stripBy p s = s := by
  unfold stripBy
  have e1 : s.dropWhile p = s := by
    cases s with
    | nil => rfl
    | cons c r => simp [List.dropWhile, h1 c rfl]
  rw [e1]
  have e2 : s.reverse.dropWhile p = s.reverse := by
    cases hr : s.reverse with
    | nil => rfl
    | cons c r =>
      have : s.getLast? = some c := by
        rw [← List.reverse_reverse s, hr]; simp
      simp [List.dropWhile, h2 c this]
  rw [e2, List.reverse_reverse]

theorem stripBy_none (p : Char → Bool) (s : List Char) (h : ∀ c ∈ s, p c = false) : stripBy p s = s := by
  apply stripBy_of_ends
  · intro c hc; exact h c (List.mem_of_mem_head? hc)
  · intro c hc; exact h c (List.mem_of_mem_getLast? hc)

theorem strip_of_ends (s : List Char) (h1 : ∀ c, s.head? = some c → isSpace c = false)
    (h2 : ∀ c, s.getLast? = some c → isSpace c = false) : strip s = s := stripBy_of_ends isSpace s h1 h2

theorem strip_no_space (s : List Char) (h : ∀ c ∈ s, isSpace c = false) : strip s = s := stripBy_none isSpace s h

theorem isSpaceC_imp (c : Char) (h : isSpace c = false) : isSpaceC c = false := by
  simp only [isSpace, isSpaceC, Bool.or_eq_false_iff, Bool.and_eq_false_iff, decide_eq_false_iff_not] at *
  omega

theorem natDigits_no_space (n : Nat) : ∀ c ∈ natDigits n, isSpace c = false := by
  intro c hc
  have := natDigits_digits n c hc
  simp only [isDigit, Bool.and_eq_true, decide_eq_true_eq] at this
  simp only [isSpace, Bool.or_eq_false_iff, Bool.and_eq_false_iff, decide_eq_false_iff_not]
  omega

theorem natDigits_head (n : Nat) : ∃ c r, natDigits n = c :: r ∧ isDigit c = true := by
  cases h : natDigits n with
  | nil => exact absurd h (natDigits_ne_nil n)
  | cons c r => exact ⟨c, r, rfl, natDigits_digits n c (by simp [h])⟩

/-- **round trip**: `int(str(n)) == n` -/
theorem pyIntParse_pyStrInt (n : Int) : pyIntParse (pyStrInt n) = some n := by
  cases n with
  | ofNat k =>
    obtain ⟨c, r, hcr, hd⟩ := natDigits_head k
    have hs : stripBy isSpaceC (natDigits k) = natDigits k :=
      stripBy_none _ _ (fun c hc => isSpaceC_imp c (natDigits_no_space k c hc))
    have hm : c ≠ '-' := by rintro rfl; revert hd; decide
    have hp : c ≠ '+' := by rintro rfl; revert hd; decide
    simp only [pyIntParse, pyStrInt, hs]
    rw [hcr]
    split
    · rename_i heq; cases heq; exact absurd rfl hm
    · rename_i heq; cases heq; exact absurd rfl hp
    · rw [← hcr, parseDigits_natDigits]; rfl
  | negSucc k =>
    have hns : ∀ c ∈ ('-' :: natDigits (k + 1)), isSpace c = false := by
      intro c hc
      rcases List.mem_cons.mp hc with rfl | hc
      · decide
      · exact natDigits_no_space _ c hc
    have hs : stripBy isSpaceC ('-' :: natDigits (k + 1)) = '-' :: natDigits (k + 1) :=
      stripBy_none _ _ (fun c hc => isSpaceC_imp c (hns c hc))
    simp only [pyIntParse, pyStrInt, hs, parseDigits_natDigits, Option.map]
    rfl

end VgiVerif.PyInt
