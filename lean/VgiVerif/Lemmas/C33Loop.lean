import VgiVerif.Model.C33
import VgiVerif.Lemmas.Sched
/-
C33 (b): the inductive invariant of the accept-loop transition system (`Model/C33.lean`, `Loop`) for the repaired
shape (`clearOnAccept`, `cbCheck = own`), preserved label by label; `inv_reachable` is what `Proofs/C33.lean` uses.
-/
namespace VgiVerif.C33
open VgiVerif.Sched

namespace Loop

/-! ### projections of the helpers -/

section helpers
variable (cfg : Cfg) (s : St)

@[simp] theorem emit_now (e) : (emit cfg s e).now = s.now := rfl
@[simp] theorem emit_lpc (e) : (emit cfg s e).lpc = s.lpc := rfl
@[simp] theorem emit_hpc (e) : (emit cfg s e).hpc = s.hpc := rfl
@[simp] theorem emit_connCount (e) : (emit cfg s e).connCount = s.connCount := rfl
@[simp] theorem emit_timer (e) : (emit cfg s e).timer = s.timer := rfl
@[simp] theorem emit_flag (e) : (emit cfg s e).flag = s.flag := rfl
@[simp] theorem emit_tstate (e) : (emit cfg s e).tstate = s.tstate := rfl
@[simp] theorem emit_deadline (e) : (emit cfg s e).deadline = s.deadline := rfl
@[simp] theorem emit_live (e) : (emit cfg s e).live = s.live := rfl
@[simp] theorem emit_sinceDec (e) : (emit cfg s e).sinceDec = s.sinceDec := rfl
@[simp] theorem emit_hist (e) : (emit cfg s e).hist = s.hist ++ [e] := rfl
@[simp] theorem emit_mon (e) : (emit cfg s e).mon = s.mon.step (idleOf cfg) cfg.grace e := rfl

@[simp] theorem cancelCur_now : (cancelCur s).now = s.now := by unfold cancelCur; split <;> rfl
@[simp] theorem cancelCur_lpc : (cancelCur s).lpc = s.lpc := by unfold cancelCur; split <;> rfl
@[simp] theorem cancelCur_hpc : (cancelCur s).hpc = s.hpc := by unfold cancelCur; split <;> rfl
@[simp] theorem cancelCur_connCount : (cancelCur s).connCount = s.connCount := by unfold cancelCur; split <;> rfl
@[simp] theorem cancelCur_timer : (cancelCur s).timer = none := by unfold cancelCur; split <;> simp_all
@[simp] theorem cancelCur_flag : (cancelCur s).flag = s.flag := by unfold cancelCur; split <;> rfl
@[simp] theorem cancelCur_deadline : (cancelCur s).deadline = s.deadline := by unfold cancelCur; split <;> rfl
@[simp] theorem cancelCur_live : (cancelCur s).live = s.live := by unfold cancelCur; split <;> rfl
@[simp] theorem cancelCur_sinceDec : (cancelCur s).sinceDec = s.sinceDec := by unfold cancelCur; split <;> rfl
@[simp] theorem cancelCur_hist : (cancelCur s).hist = s.hist := by unfold cancelCur; split <;> rfl
@[simp] theorem cancelCur_mon : (cancelCur s).mon = s.mon := by unfold cancelCur; split <;> rfl

/-- cancelling never makes a timer `fired`, and never un-fires one -/
theorem cancel_fired_iff (t : Timer) : t.cancel = .fired ↔ t = .fired := by cases t <;> simp [Timer.cancel]

theorem cancelCur_fired (k : Nat) : (cancelCur s).tstate k = .fired ↔ s.tstate k = .fired := by
  unfold cancelCur
  split
  next j _ =>
    by_cases h : k = j
    · subst h; simp [upd, cancel_fired_iff]
    · simp [upd, h]
  next => rfl

@[simp] theorem arm_now (d) : (arm s d).now = s.now := rfl
@[simp] theorem arm_lpc (d) : (arm s d).lpc = s.lpc := rfl
@[simp] theorem arm_hpc (d) : (arm s d).hpc = s.hpc := rfl
@[simp] theorem arm_connCount (d) : (arm s d).connCount = s.connCount := rfl
@[simp] theorem arm_timer (d) : (arm s d).timer = some s.nextTimer := rfl
@[simp] theorem arm_flag (d) : (arm s d).flag = s.flag := rfl
@[simp] theorem arm_live (d) : (arm s d).live = s.live := rfl
@[simp] theorem arm_sinceDec (d) : (arm s d).sinceDec = s.sinceDec := rfl
@[simp] theorem arm_hist (d) : (arm s d).hist = s.hist := rfl
@[simp] theorem arm_mon (d) : (arm s d).mon = s.mon := rfl
@[simp] theorem arm_deadline_new (d) : (arm s d).deadline s.nextTimer = s.now + d := by simp [arm, upd]

theorem arm_fired (d k : Nat) (h : (arm s d).tstate k = .fired) : s.tstate k = .fired ∧ (arm s d).deadline k = s.deadline k := by
  unfold arm at h ⊢
  by_cases hk : k = s.nextTimer
  · subst hk; simp [upd] at h
  · cases ht : s.timer with
    | none => simp only [ht, upd, hk, if_false] at h ⊢; exact ⟨h, trivial⟩
    | some j =>
      simp only [ht, upd, hk, if_false] at h ⊢
      refine ⟨?_, trivial⟩
      by_cases hj : k = j
      · subst hj; simpa [cancel_fired_iff] using h
      · simpa [hj] using h

end helpers

/-! ### the invariant -/

/-- the loop thread holds an accepted connection that is not yet counted in `conn_count` -/
def lHolds : LPc → Bool
  | .got _ => true
  | _ => false

/-- handler states in which the connection is counted in `conn_count` -/
def counted : HPc → Bool
  | .started | .permitted | .serving | .served | .released => true
  | _ => false

/-- handler states in which the service of the connection has finished -/
def ended : HPc → Bool
  | .served | .released | .done => true
  | _ => false

abbrev needOf (cfg : Cfg) (s : St) : Nat := Spec.need (idleOf cfg) cfg.grace s.mon.any

structure Inv (cfg : Cfg) (s : St) : Prop where
  cc : s.connCount = s.live.length
  hlive : ∀ c, counted (s.hpc c) = true → c ∈ s.live
  llive : ∀ c, (s.lpc = .registered c ∨ s.lpc = .added c) → c ∈ s.live
  lnone : ∀ c, (s.lpc = .got c ∨ s.lpc = .registered c ∨ s.lpc = .added c) → s.hpc c = .none
  openLive : ∀ c ∈ s.mon.openConns, s.lpc = .got c ∨ c ∈ s.live
  openPc : ∀ c ∈ s.mon.openConns, ended (s.hpc c) = false
  anyLive : s.live ≠ [] → s.mon.any = true
  anyGot : lHolds s.lpc = true → s.mon.any = true
  lastNow : s.mon.last ≤ s.now
  flagI : s.flag = true → lHolds s.lpc = false →
    s.live = [] ∧ s.mon.last + needOf cfg s ≤ s.now ∧ s.sinceDec = false
  timerI : ∀ k, s.timer = some k → s.live = [] ∧ (lHolds s.lpc = false → s.mon.last + needOf cfg s ≤ s.deadline k)
  firedI : ∀ k, s.tstate k = .fired → s.deadline k ≤ s.now
  bad : s.mon.bad = false
  monHist : s.mon = Spec.Mon.run (idleOf cfg) cfg.grace s.hist

theorem run_snoc (i g : Nat) (h : List Spec.Ev) (e : Spec.Ev) :
    Spec.Mon.run i g (h ++ [e]) = (Spec.Mon.run i g h).step i g e := by
  simp [Spec.Mon.run, List.foldl_append]

theorem inv_init (cfg : Cfg) : Inv cfg (init cfg) := by
  unfold init
  cases hi : cfg.idle with
  | none =>
    constructor <;> simp [lHolds, counted, ended, Spec.Mon.run]
  | some i =>
    constructor <;> simp [lHolds, counted, ended, Spec.Mon.run, arm, upd, Spec.need]
    · intro k hk; split at hk <;> simp_all

/-! ### preservation, label by label -/

section steps
variable {cfg : Cfg} {s : St}

theorem inv_tick (h : Inv cfg s) (d : Nat) : Inv cfg { s with now := s.now + d } := by
  obtain ⟨cc, hlive, llive, lnone, openLive, openPc, anyLive, anyGot, lastNow, flagI, timerI, firedI, bad, monHist⟩ := h
  refine ⟨cc, hlive, llive, lnone, openLive, openPc, anyLive, anyGot, ?_, ?_, timerI, ?_, bad, monHist⟩
  · show s.mon.last ≤ s.now + d; omega
  · intro hf hl
    obtain ⟨a, b, c⟩ := flagI hf hl
    exact ⟨a, by show s.mon.last + needOf cfg s ≤ s.now + d; omega, c⟩
  · intro k hk
    have := firedI k hk
    show s.deadline k ≤ s.now + d; omega

theorem inv_sockAccept (h : Inv cfg s) (c : Conn) (hl : s.lpc = .atAccept) (hc : s.hpc c = .none) :
    Inv cfg (emit cfg { s with lpc := .got c, sinceDec := true } (.acc c s.now)) := by
  obtain ⟨cc, hlive, llive, lnone, openLive, openPc, anyLive, anyGot, lastNow, flagI, timerI, firedI, bad, monHist⟩ := h
  constructor
  · exact cc
  · exact hlive
  · intro c' hc'; simp at hc'
  · intro c' hc'; simp at hc'; subst hc'; exact hc
  · intro c' hc'
    simp only [emit_mon, Spec.Mon.step, List.mem_cons] at hc'
    rcases hc' with rfl | hc'
    · left; rfl
    · right
      rcases openLive c' hc' with h1 | h1
      · rw [hl] at h1; cases h1
      · exact h1
  · intro c' hc'
    simp only [emit_mon, Spec.Mon.step, List.mem_cons] at hc'
    rcases hc' with rfl | hc'
    · simp [hc, ended]
    · exact openPc c' hc'
  · intro _; rfl
  · intro _; rfl
  · simp [Spec.Mon.step]
  · intro _ hl'; simp [lHolds] at hl'
  · intro k hk
    exact ⟨(timerI k hk).1, by intro hl'; simp [lHolds] at hl'⟩
  · exact firedI
  · simpa [Spec.Mon.step] using bad
  · simp only [emit_mon, emit_hist, run_snoc]; rw [← monHist]

theorem inv_register {sh : Shape} (hsh : sh.clearOnAccept = true) (h : Inv cfg s) (c : Conn) (hl : s.lpc = .got c) :
    Inv cfg { cancelCur s with connCount := s.connCount + 1, flag := if sh.clearOnAccept then false else s.flag,
                               live := c :: s.live, lpc := .registered c } := by
  obtain ⟨cc, hlive, llive, lnone, openLive, openPc, anyLive, anyGot, lastNow, flagI, timerI, firedI, bad, monHist⟩ := h
  constructor
  · simp [cc]
  · intro c' hc'; simp only [cancelCur_hpc] at hc'; exact List.mem_cons_of_mem _ (hlive c' hc')
  · intro c' hc'; simp at hc'; subst hc'; simp
  · intro c' hc'; simp at hc'; subst hc'; simpa using lnone c (Or.inl hl)
  · intro c' hc'
    simp only [cancelCur_mon] at hc'
    right
    rcases openLive c' hc' with h1 | h1
    · rw [hl] at h1; cases h1; simp
    · exact List.mem_cons_of_mem _ h1
  · intro c' hc'; simp only [cancelCur_mon] at hc'; simpa using openPc c' hc'
  · intro _; simpa using anyGot (by simp [hl, lHolds])
  · intro hl'; simp [lHolds] at hl'
  · simpa using lastNow
  · intro hf; simp [hsh] at hf
  · intro k hk; simp at hk
  · intro k hk
    simp only [cancelCur_deadline, cancelCur_now]
    exact firedI k ((cancelCur_fired s k).1 hk)
  · simpa using bad
  · simpa using monHist

/-- steps of the loop thread that only move its pc between states in which it holds no uncounted connection -/
theorem inv_lpc (h : Inv cfg s) (p : LPc) (hold : lHolds s.lpc = false) (hp : lHolds p = false)
    (hreg : ∀ c, (p = .registered c ∨ p = .added c) → (s.lpc = .registered c ∨ s.lpc = .added c))
    (hgot : ∀ c, p ≠ .got c) :
    Inv cfg { s with lpc := p } := by
  obtain ⟨cc, hlive, llive, lnone, openLive, openPc, anyLive, anyGot, lastNow, flagI, timerI, firedI, bad, monHist⟩ := h
  refine ⟨cc, hlive, ?_, ?_, ?_, openPc, anyLive, ?_, lastNow, ?_, ?_, firedI, bad, monHist⟩
  · intro c hc; exact llive c (hreg c hc)
  · intro c hc
    rcases hc with hc | hc
    · exact absurd hc (hgot c)
    · exact lnone c (Or.inr (by rcases hreg c hc with h1 | h1 <;> simp [h1]))
  · intro c hc
    rcases openLive c hc with h1 | h1
    · rw [h1] at hold; simp [lHolds] at hold
    · exact Or.inr h1
  · intro hp'; simp [show lHolds p = false from hp] at hp'
  · intro hf _; exact flagI hf hold
  · intro k hk; exact ⟨(timerI k hk).1, fun _ => (timerI k hk).2 hold⟩

theorem inv_spawn (h : Inv cfg s) (c : Conn) (hl : s.lpc = .added c) :
    Inv cfg { s with lpc := .atAccept, hpc := upd s.hpc c .started } := by
  obtain ⟨cc, hlive, llive, lnone, openLive, openPc, anyLive, anyGot, lastNow, flagI, timerI, firedI, bad, monHist⟩ := h
  have hcl : c ∈ s.live := llive c (Or.inr hl)
  have hold : lHolds s.lpc = false := by simp [hl, lHolds]
  refine ⟨cc, ?_, ?_, ?_, ?_, ?_, anyLive, ?_, lastNow, ?_, ?_, firedI, bad, monHist⟩
  · intro c' hc'
    by_cases he : c' = c
    · subst he; exact hcl
    · simp only [upd, he, if_false] at hc'; exact hlive c' hc'
  · intro c' hc'; simp at hc'
  · intro c' hc'; simp at hc'
  · intro c' hc'
    rcases openLive c' hc' with h1 | h1
    · rw [hl] at h1; cases h1
    · exact Or.inr h1
  · intro c' hc'
    by_cases he : c' = c
    · subst he; simp [upd, ended]
    · simp only [upd, he, if_false]; exact openPc c' hc'
  · intro hp; simp [lHolds] at hp
  · intro hf _; exact flagI hf hold
  · intro k hk; exact ⟨(timerI k hk).1, fun _ => (timerI k hk).2 hold⟩

theorem inv_stop (h : Inv cfg s) (hl : s.lpc = .timedOut) (hf : s.flag = true) :
    Inv cfg (emit cfg { s with lpc := .exiting true } (.stop s.now)) := by
  have hold : lHolds s.lpc = false := by simp [hl, lHolds]
  have h1 : Inv cfg { s with lpc := .exiting true } :=
    inv_lpc h _ hold rfl (by intro c hc; simp at hc) (by intro c; simp)
  obtain ⟨hlive0, hbound, _⟩ := h.flagI hf hold
  have hopen : s.mon.openConns = [] := by
    apply List.eq_nil_iff_forall_not_mem.2
    intro c hc
    rcases h.openLive c hc with h2 | h2
    · rw [hl] at h2; cases h2
    · rw [hlive0] at h2; cases h2
  obtain ⟨cc, hlive, llive, lnone, openLive, openPc, anyLive, anyGot, lastNow, flagI, timerI, firedI, bad, monHist⟩ := h1
  refine ⟨cc, hlive, llive, lnone, ?_, ?_, anyLive, anyGot, ?_, ?_, ?_, firedI, ?_, ?_⟩
  · intro c hc; simp only [emit_mon, Spec.Mon.step] at hc; exact openLive c hc
  · intro c hc; simp only [emit_mon, Spec.Mon.step] at hc; exact openPc c hc
  · simpa [Spec.Mon.step] using lastNow
  · intro hf' hl'; simpa [Spec.Mon.step, needOf] using flagI hf' hl'
  · intro k hk; simpa [Spec.Mon.step, needOf] using timerI k hk
  · simp only [emit_mon, Spec.Mon.step, Bool.or_eq_false_iff]
    refine ⟨⟨by simpa using bad, by simp [hopen]⟩, ?_⟩
    simp only [decide_eq_false_iff_not, Nat.not_lt]
    exact hbound
  · simp only [emit_mon, emit_hist, run_snoc]; rw [← monHist]

theorem inv_finalize (h : Inv cfg s) (b : Bool) (hl : s.lpc = .exiting b) :
    Inv cfg { cancelCur s with lpc := .joined } := by
  obtain ⟨cc, hlive, llive, lnone, openLive, openPc, anyLive, anyGot, lastNow, flagI, timerI, firedI, bad, monHist⟩ := h
  have hold : lHolds s.lpc = false := by simp [hl, lHolds]
  constructor
  · simpa using cc
  · simpa using hlive
  · intro c hc; simp at hc
  · intro c hc; simp at hc
  · intro c hc
    simp only [cancelCur_mon] at hc
    rcases openLive c hc with h1 | h1
    · rw [hl] at h1; cases h1
    · right; simpa using h1
  · intro c hc; simp only [cancelCur_mon] at hc; simpa using openPc c hc
  · simpa using anyLive
  · intro hp; simp [lHolds] at hp
  · simpa using lastNow
  · intro hf _; simpa using flagI (by simpa using hf) hold
  · intro k hk; simp at hk
  · intro k hk
    simp only [cancelCur_deadline, cancelCur_now]
    exact firedI k ((cancelCur_fired s k).1 hk)
  · simpa using bad
  · simpa using monHist

/-- handler steps that change only `hpc c` (and possibly the semaphore) between two counted, not-ended states
or between two counted, ended states -/
theorem inv_hpc (h : Inv cfg s) (c : Conn) (p : HPc) (sm : Sem) (hcnt : counted (s.hpc c) = true)
    (hend : ended p = ended (s.hpc c)) :
    Inv cfg { s with sem := sm, hpc := upd s.hpc c p } := by
  obtain ⟨cc, hlive, llive, lnone, openLive, openPc, anyLive, anyGot, lastNow, flagI, timerI, firedI, bad, monHist⟩ := h
  refine ⟨cc, ?_, llive, ?_, openLive, ?_, anyLive, anyGot, lastNow, flagI, timerI, firedI, bad, monHist⟩
  · intro c' hc'
    by_cases he : c' = c
    · subst he; exact hlive _ hcnt
    · simp only [upd, he, if_false] at hc'; exact hlive c' hc'
  · intro c' hc'
    have := lnone c' hc'
    by_cases he : c' = c
    · subst he; rw [this] at hcnt; simp [counted] at hcnt
    · simp only [upd, he, if_false]; exact this
  · intro c' hc'
    by_cases he : c' = c
    · subst he; simp only [upd, if_true]; rw [hend]; exact openPc _ hc'
    · simp only [upd, he, if_false]; exact openPc c' hc'

theorem inv_serveEnd (h : Inv cfg s) (c : Conn) (hc : s.hpc c = .serving) :
    Inv cfg (emit cfg { s with hpc := upd s.hpc c .served } (.fin c s.now)) := by
  obtain ⟨cc, hlive, llive, lnone, openLive, openPc, anyLive, anyGot, lastNow, flagI, timerI, firedI, bad, monHist⟩ := h
  have hcl : c ∈ s.live := hlive c (by simp [hc, counted])
  have hne : s.live ≠ [] := by intro h0; rw [h0] at hcl; cases hcl
  constructor
  · exact cc
  · intro c' hc'
    by_cases he : c' = c
    · subst he; exact hcl
    · simp only [emit_hpc, upd, he, if_false] at hc'; exact hlive c' hc'
  · exact llive
  · intro c' hc'
    have := lnone c' hc'
    by_cases he : c' = c
    · subst he; rw [this] at hc; cases hc
    · simp only [emit_hpc, upd, he, if_false]; exact this
  · intro c' hc'
    simp only [emit_mon, Spec.Mon.step, List.mem_filter] at hc'
    exact openLive c' hc'.1
  · intro c' hc'
    simp only [emit_mon, Spec.Mon.step, List.mem_filter, bne_iff_ne, ne_eq] at hc'
    simp only [emit_hpc, upd, hc'.2, if_false]
    exact openPc c' hc'.1
  · intro _; simpa [Spec.Mon.step] using anyLive hne
  · intro hp; simpa [Spec.Mon.step] using anyGot hp
  · simp [Spec.Mon.step]
  · intro hf hl'
    exact absurd (flagI hf hl').1 hne
  · intro k hk
    exact absurd (timerI k hk).1 hne
  · exact firedI
  · simpa [Spec.Mon.step] using bad
  · simp only [emit_mon, emit_hist, run_snoc]; rw [← monHist]

theorem inv_fire (h : Inv cfg s) (k : Nat) (hd : s.deadline k ≤ s.now) (t' : Timer) :
    Inv cfg { s with tstate := upd s.tstate k t' } := by
  obtain ⟨cc, hlive, llive, lnone, openLive, openPc, anyLive, anyGot, lastNow, flagI, timerI, firedI, bad, monHist⟩ := h
  refine ⟨cc, hlive, llive, lnone, openLive, openPc, anyLive, anyGot, lastNow, flagI, timerI, ?_, bad, monHist⟩
  intro k' hk'
  by_cases he : k' = k
  · subst he; exact hd
  · simp only [upd, he, if_false] at hk'; exact firedI k' hk'

/-- the handler's final critical section, before the optional re-arm -/
theorem inv_handlerEnd (h : Inv cfg s) (c : Conn) (hc : counted (s.hpc c) = true) (he : ended (s.hpc c) = true) :
    Inv cfg { s with connCount := s.connCount - 1, live := s.live.erase c, hpc := upd s.hpc c .done } ∧
    c ∈ s.live ∧ s.mon.any = true := by
  obtain ⟨cc, hlive, llive, lnone, openLive, openPc, anyLive, anyGot, lastNow, flagI, timerI, firedI, bad, monHist⟩ := h
  have hcl : c ∈ s.live := hlive c hc
  have hne : s.live ≠ [] := by intro h0; rw [h0] at hcl; cases hcl
  have hnotopen : c ∉ s.mon.openConns := by
    intro ho; have := openPc c ho; rw [he] at this; cases this
  refine ⟨?_, hcl, anyLive hne⟩
  constructor
  · simp [cc, List.length_erase_of_mem hcl]
  · intro c' hc'
    by_cases hcc : c' = c
    · subst hcc; simp [upd, counted] at hc'
    · simp only [upd, hcc, if_false] at hc'
      exact (List.mem_erase_of_ne hcc).2 (hlive c' hc')
  · intro c' hc'
    have hn := lnone c' (Or.inr hc')
    have hcc : c' ≠ c := by intro h0; subst h0; rw [hn] at hc; simp [counted] at hc
    exact (List.mem_erase_of_ne hcc).2 (llive c' hc')
  · intro c' hc'
    have hn := lnone c' hc'
    have hcc : c' ≠ c := by intro h0; subst h0; rw [hn] at hc; simp [counted] at hc
    simp only [upd, hcc, if_false]; exact hn
  · intro c' hc'
    have hcc : c' ≠ c := by intro h0; subst h0; exact hnotopen hc'
    rcases openLive c' hc' with h1 | h1
    · exact Or.inl h1
    · exact Or.inr ((List.mem_erase_of_ne hcc).2 h1)
  · intro c' hc'
    have hcc : c' ≠ c := by intro h0; subst h0; exact hnotopen hc'
    simp only [upd, hcc, if_false]; exact openPc c' hc'
  · intro _; exact anyLive hne
  · exact anyGot
  · exact lastNow
  · intro hf hl
    exact absurd (flagI hf hl).1 hne
  · intro k hk
    exact absurd (timerI k hk).1 hne
  · exact firedI
  · exact bad
  · exact monHist

/-- re-arming the idle timer when the last connection has gone -/
theorem inv_arm (h : Inv cfg s) (i : Nat) (hi : cfg.idle = some i) (hcc : s.connCount = 0) (hany : s.mon.any = true) :
    Inv cfg (arm s i) := by
  obtain ⟨cc, hlive, llive, lnone, openLive, openPc, anyLive, anyGot, lastNow, flagI, timerI, firedI, bad, monHist⟩ := h
  have hl0 : s.live = [] := List.eq_nil_of_length_eq_zero (by omega)
  refine ⟨cc, hlive, llive, lnone, openLive, openPc, anyLive, anyGot, lastNow, flagI, ?_, ?_, bad, monHist⟩
  · intro k hk
    simp only [arm_timer, Option.some.injEq] at hk
    subst hk
    refine ⟨hl0, fun _ => ?_⟩
    simp only [arm_deadline_new, arm_mon, needOf, Spec.need, hany, if_true, idleOf, hi, Option.getD_some]
    have : s.mon.last ≤ s.now := lastNow
    omega
  · intro k hk
    obtain ⟨h1, h2⟩ := arm_fired s i k hk
    rw [h2]; exact firedI k h1

/-- the timer callback's critical section (repaired shape: a stale callback changes nothing) -/
theorem inv_callback {sh : Shape} (hsh : sh.cbCheck = .own) (h : Inv cfg s) (k : Nat) (hf : s.tstate k = .fired)
    (arg : Option Nat) (s' : St)
    (hs' : (let s1 : St := { s with cbDone := upd s.cbDone k true }
            if sh.cbCheck.stale s.timer k arg then some s1
            else if s.connCount ≠ 0 then some { s1 with timer := none }
            else some { s1 with timer := none, flag := true, sinceDec := false }) = some s') :
    Inv cfg s' := by
  obtain ⟨cc, hlive, llive, lnone, openLive, openPc, anyLive, anyGot, lastNow, flagI, timerI, firedI, bad, monHist⟩ := h
  simp only [hsh, CbCheck.stale, bne_iff_ne, ne_eq] at hs'
  split at hs'
  · cases hs'
    exact ⟨cc, hlive, llive, lnone, openLive, openPc, anyLive, anyGot, lastNow, flagI, timerI, firedI, bad, monHist⟩
  next hcur =>
    have hcur : s.timer = some k := by simpa using hcur
    split at hs'
    · cases hs'
      refine ⟨cc, hlive, llive, lnone, openLive, openPc, anyLive, anyGot, lastNow, flagI, ?_, firedI, bad, monHist⟩
      intro k' hk'; simp at hk'
    · cases hs'
      refine ⟨cc, hlive, llive, lnone, openLive, openPc, anyLive, anyGot, lastNow, ?_, ?_, firedI, bad, monHist⟩
      · intro _ hl
        obtain ⟨h1, h2⟩ := timerI k hcur
        have h3 := firedI k hf
        have h4 := h2 hl
        exact ⟨h1, by show s.mon.last + needOf cfg s ≤ s.now; omega, rfl⟩
      · intro k' hk'; simp at hk'

end steps

/-! ### the invariant holds in every reachable state -/

theorem inv_step {sh : Shape} (h1 : sh.clearOnAccept = true) (h2 : sh.cbCheck = .own) (h3 : sh.regInHandler = false)
    (cfg : Cfg)
    (s : St) (l : Label) (s' : St) (h : Inv cfg s) (hst : step sh cfg s l = some s') : Inv cfg s' := by
  cases l with
  | tick d => simp only [step, Option.some.injEq] at hst; subst hst; exact inv_tick h d
  | sockAccept c =>
    simp only [step] at hst
    split at hst
    next hl =>
      split at hst
      next hc => cases hst; exact inv_sockAccept h c hl hc
      next => cases hst
    next => cases hst
  | register =>
    simp only [step, h3] at hst
    split at hst
    next c hl => simp only [Bool.false_eq_true, if_false] at hst; cases hst; exact inv_register h1 h c hl
    next => cases hst
  | hregister c =>
    simp [step, h3] at hst
  | addActive =>
    simp only [step, h3] at hst
    split at hst
    next c hl =>
      cases hst
      exact inv_lpc h _ (by simp [hl, lHolds]) rfl (by intro c' hc'; simp at hc'; subst hc'; exact Or.inl hl) (by intro c'; simp)
    next => simp at hst
    next => cases hst
  | spawn =>
    simp only [step, h3] at hst
    split at hst
    next c hl => simp only [Bool.false_eq_true, if_false] at hst; cases hst; exact inv_spawn h c hl
    next => cases hst
  | acceptTimeout =>
    simp only [step] at hst
    split at hst
    next hl =>
      cases hst
      exact inv_lpc h _ (by simp [hl, lHolds]) rfl (by intro c' hc'; simp at hc') (by intro c'; simp)
    next => cases hst
  | check ex =>
    simp only [step] at hst
    split at hst
    next hl =>
      split at hst
      next hex =>
        split at hst
        next hx => cases hst; exact inv_stop h hl (by rw [← hex]; exact hx)
        next =>
          cases hst
          exact inv_lpc h _ (by simp [hl, lHolds]) rfl (by intro c' hc'; simp at hc') (by intro c'; simp)
      next => cases hst
    next => cases hst
  | acceptError =>
    simp only [step] at hst
    split at hst
    next hl =>
      cases hst
      exact inv_lpc h _ (by simp [hl, lHolds]) rfl (by intro c' hc'; simp at hc') (by intro c'; simp)
    next => cases hst
  | finalize =>
    simp only [step] at hst
    split at hst
    next b hl => cases hst; exact inv_finalize h b hl
    next => cases hst
  | semAcq c =>
    simp only [step] at hst
    split at hst
    next hg =>
      split at hst
      next sm _ => cases hst; exact inv_hpc h c _ sm (by simp [hg.2, counted]) (by simp [hg.2, ended])
      next => cases hst
    next => cases hst
  | serveBegin c =>
    simp only [step] at hst
    split at hst
    next hg =>
      cases hst
      have : counted (s.hpc c) = true ∧ ended (s.hpc c) = false := by
        rw [hg]; unfold preServe; split <;> simp [counted, ended]
      exact inv_hpc h c _ s.sem this.1 (by rw [this.2]; rfl)
    next => cases hst
  | serveEnd c =>
    simp only [step] at hst
    split at hst
    next hg => cases hst; exact inv_serveEnd h c hg
    next => cases hst
  | semRel c =>
    simp only [step] at hst
    split at hst
    next hg =>
      split at hst
      next sm _ => cases hst; exact inv_hpc h c _ sm (by simp [hg.2, counted]) (by simp [hg.2, ended])
      next => cases hst
    next => cases hst
  | handlerEnd c armed =>
    simp only [step] at hst
    split at hst
    next hg =>
      have hce : counted (s.hpc c) = true ∧ ended (s.hpc c) = true := by
        rw [hg]; unfold preEnd; split <;> simp [counted, ended]
      obtain ⟨hinv, _, hany⟩ := inv_handlerEnd h c hce.1 hce.2
      split at hst
      next i hi =>
        split at hst
        next hz =>
          split at hst
          · cases hst; exact inv_arm hinv i hi hz hany
          · cases hst
        next =>
          split at hst
          · cases hst
          · cases hst; exact hinv
      next =>
        split at hst
        · cases hst
        · cases hst; exact hinv
    next => cases hst
  | fire k =>
    simp only [step] at hst
    split at hst
    next t' _ =>
      split at hst
      next hd => cases hst; exact inv_fire h k hd t'
      next => cases hst
    next => cases hst
  | cbRead k =>
    simp only [step] at hst
    split at hst
    · cases hst
      obtain ⟨cc, hlive, llive, lnone, openLive, openPc, anyLive, anyGot, lastNow, flagI, timerI, firedI, bad, monHist⟩ := h
      exact ⟨cc, hlive, llive, lnone, openLive, openPc, anyLive, anyGot, lastNow, flagI, timerI, firedI, bad, monHist⟩
    · cases hst
  | callback k =>
    simp only [step] at hst
    split at hst
    next => cases hst
    next arg _ =>
      split at hst
      next hg => exact inv_callback h2 h k hg.1 arg s' hst
      next => cases hst
  | vars cc tm fl =>
    simp only [step] at hst
    split at hst
    · cases hst; exact h
    · cases hst

theorem inv_reachable {sh : Shape} (h1 : sh.clearOnAccept = true) (h2 : sh.cbCheck = .own)
    (h3 : sh.regInHandler = false) (cfg : Cfg) :
    ∀ s, (ts sh cfg).Reachable s → Inv cfg s :=
  TS.invariant_of_step (ts sh cfg) (Inv cfg) (inv_init cfg) (fun s l s' hi hst => inv_step h1 h2 h3 cfg s l s' hi hst)

end Loop
end VgiVerif.C33
