/-
C12 spec — written from the property text only:

"A stream continuation, exchange or cancel is served only if its cursor and call tokens were minted by a server
 holding the same key, for the same caller identity (domain and principal), within the token TTL.  Any modified,
 truncated, re-encoded, swapped, foreign-key, cross-identity, cross-stream or expired token is rejected with HTTP 400
 before any state is deserialized or any user hook runs, with no detail distinguishing which check failed, and token
 bytes never reveal the state plaintext."

Reading (DESIGN §7.3): a *modified / re-encoded* token is any wire text not byte-identical to a minted token.
The call token's *text* is an input of the decision only when the server consults it (call-state cache miss); on a hit
the call is the one the server itself cached for that authenticated call id and identity.  "Within the token TTL"
holds for the stream's call token either way: a cached call must not be served after its token has expired.
-/
namespace VgiVerif.C12.Spec

/-- a token the service handed out: the exact wire text, who it was for, which stream (call id), when -/
structure Minted (Id : Type) where
  text : List UInt8
  key : Nat
  who : Id
  callId : List UInt8
  issuedAt : Nat

/-- "within the token TTL" (`ttl = 0` disables expiry) -/
def WithinTtl (ttl : Nat) (now : Int) (issuedAt : Nat) : Prop := ttl = 0 ∨ now - (issuedAt : Int) ≤ (ttl : Int)

/-- the presented text is byte-identical to a token minted under `key` for `who`, still fresh -/
def Genuine {Id : Type} (minted : List (Minted Id)) (key : Nat) (who : Id) (ttl : Nat) (now : Int) (text : List UInt8)
    (callId : List UInt8) : Prop :=
  ∃ m ∈ minted, m.text = text ∧ m.key = key ∧ m.who = who ∧ m.callId = callId ∧ WithinTtl ttl now m.issuedAt

/-- **served only if** both tokens are genuine, for this key and identity, unexpired, and of the *same stream* -/
def ServedOnlyIfMinted {Id : Type} (cursors calls : List (Minted Id)) (key : Nat) (who : Id) (ttl : Nat) (now : Int)
    (cursorText : List UInt8) (callText : Option (List UInt8)) (callConsulted : Bool) : Prop :=
  ∃ callId, Genuine cursors key who ttl now cursorText callId ∧
    (callConsulted = true → ∃ c, callText = some c ∧ Genuine calls key who ttl now c callId) ∧
    (callConsulted = false → ∃ m ∈ calls, m.key = key ∧ m.who = who ∧ m.callId = callId ∧ WithinTtl ttl now m.issuedAt)

/-- the effects the property forbids before a rejection -/
inductive Forbidden where
  | stateDeserialized | hookRan
deriving DecidableEq

/-- "no detail distinguishing which check failed" -/
def Uniform {R Resp : Type} (response : R → Resp) : Prop := ∀ a b, response a = response b

end VgiVerif.C12.Spec
