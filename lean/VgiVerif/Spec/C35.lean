import VgiVerif.Prelude.ClaimTree
/-
C35 spec — written from the property text only:

"No access-log record contains the value of a claim whose name designates a credential or personal data
(token, secret, key, password, authorization, email, phone, address, birthdate, gender, name fields and the
other listed OIDC claims), at any nesting depth of the claims object.  Such keys remain visible with a
redacted value, and a failing custom redactor drops claims entirely."

and docs/access-log-spec.md §4 (`claims`): redaction is key-based; replace values, do not drop keys; a
redactor that raises MUST fail closed.
-/
namespace VgiVerif.C35.Spec
open VgiVerif.ClaimTree

/-- ASCII lower-casing of a code point -/
def lowerNat (n : Nat) : Nat := if 65 ≤ n ∧ n ≤ 90 then n + 32 else n

/-- `w` (a lower-case word) is a prefix of `s`, ASCII-case-insensitively -/
def ciPrefix : List Char → List Char → Bool
  | [], _ => true
  | _ :: _, [] => false
  | w :: ws, c :: cs => (w.toNat == lowerNat c.toNat) && ciPrefix ws cs

/-- `w` occurs in `s` as a substring, in any ASCII case -/
def ciContains (w : List Char) : List Char → Bool
  | [] => ciPrefix w []
  | c :: cs => ciPrefix w (c :: cs) || ciContains w cs

/-- `s` is `w` in some ASCII case -/
def ciEq (w s : List Char) : Bool := (w.length == s.length) && ciPrefix w s

/-- names that designate a credential or personal data when they occur *anywhere* in a claim name -/
def substringWords : List (List Char) :=
  ["password", "token", "secret", "key", "authorization",
   "email", "phone", "address", "birthdate", "gender",
   "given_name", "family_name", "middle_name", "nickname", "preferred_username",
   "picture", "profile", "website"].map String.toList

/-- OIDC `name`: only as the whole claim name (`hostname`, `token_name`… are judged by the other words) -/
def exactWords : List (List Char) := ["name"].map String.toList

/-- the claim name designates a credential or personal data -/
def designates (k : Key) : Bool :=
  substringWords.any (fun w => ciContains w k) || exactWords.any (fun w => ciEq w k)

/-! ### The statement, for any notion `sens` of sensitive name, placeholder `ph` and logged view `out` of `claims` -/

/-- no key on the path is sensitive -/
def Clear (sens : Key → Bool) (p : Path) : Prop := ∀ k ∈ Path.keys p, sens k = false

/-- Every value under a sensitive key — at any depth, through objects and arrays — is gone from `out`:
either it is replaced by the placeholder, or an enclosing sensitive key already was (and then nothing at all
is left below that key). -/
def RedactedAtEveryDepth (sens : Key → Bool) (ph : Json) (claims out : Json) : Prop :=
  ∀ (p : Path) (k : Key) (v : Json), sens k = true → claims.get (p ++ [.key k]) = some v →
    out.get (p ++ [.key k]) = some ph ∨
    ∃ q k' r, p = q ++ .key k' :: r ∧ out.get (q ++ [.key k']) = some ph ∧
      out.get (p ++ [.key k]) = none

/-- Keys remain visible: every node reached without crossing a sensitive key keeps its visible shape
(same scalar, same array length, same object keys in the same order) — in particular a sensitive key is
still listed by its parent object. -/
def KeysVisible (sens : Key → Bool) (claims out : Json) : Prop :=
  ∀ p, Clear sens p → (out.get p).map Json.kind = (claims.get p).map Json.kind

mutual
/-- two claim trees that differ at most in the values held under sensitive keys -/
def agreeV (sens : Key → Bool) : Json → Json → Prop
  | .atom a, .atom b => a = b
  | .arr xs, .arr ys => agreeL sens xs ys
  | .obj a, .obj b => agreeO sens a b
  | .atom _, .arr _ => False
  | .atom _, .obj _ => False
  | .arr _, .atom _ => False
  | .arr _, .obj _ => False
  | .obj _, .atom _ => False
  | .obj _, .arr _ => False
def agreeL (sens : Key → Bool) : JList → JList → Prop
  | .nil, .nil => True
  | .cons h t, .cons h' t' => agreeV sens h h' ∧ agreeL sens t t'
  | .nil, .cons _ _ => False
  | .cons _ _, .nil => False
def agreeO (sens : Key → Bool) : JObj → JObj → Prop
  | .nil, .nil => True
  | .cons k v t, .cons k' v' t' => k = k' ∧ (sens k = true ∨ agreeV sens v v') ∧ agreeO sens t t'
  | .nil, .cons _ _ _ => False
  | .cons _ _ _, .nil => False
end

/-- The record does not depend on sensitive values: what is logged is a function of the rest. -/
def Noninterference (sens : Key → Bool) (logged : JObj → Option JObj) : Prop :=
  ∀ c c', agreeO sens c c' → logged c = logged c'

end VgiVerif.C35.Spec
