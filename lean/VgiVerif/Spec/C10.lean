import VgiVerif.Spec.Engine
import VgiVerif.Model.C10
/-
C10 spec — written from the property text:

 "the client receives exactly the data batches the producer emitted, in order, ending exactly when it finishes (an emit
  and finish in the same step still delivers that batch); an exchange yields exactly one output per input and refuses
  finish; inputs reach the state with the declared input schema (reordered or compatibly typed inputs are coerced, a
  different field set is rejected); and a declared header arrives once before any data.  After a cancel the state is
  never processed again, its cancel hook runs at most once, no error is reported, and the session refuses further use."
-/
namespace VgiVerif.C10
open VgiVerif.Engine

/-- the data batches a producer script emits, up to and including the step in which it finishes (or fails) -/
def emitted : List Step → List Batch
  | [] => []
  | s :: r =>
    match s.act with
    | .emit b => b :: emitted r
    | .emitFinish b => [b]
    | _ => []

/-- how a producer stream ends: normally, exactly at the finishing step (or the script's end), or with the step's error -/
def terminal : List Step → List Ev
  | [] => [.fin]
  | s :: r =>
    match s.act with
    | .emit _ => terminal r
    | .finish => [.fin]
    | .emitFinish _ => [.fin]
    | .raise e => [errEv e]
    | .nothing => [errEv noDataExn]

/-- outputs of an exchange session fed one input per step: one per input, up to the first step that does not emit -/
def exchanged : List Step → List Batch
  | [] => []
  | s :: r =>
    match s.act with
    | .emit b => b :: exchanged r
    | _ => []

/-- how an exchange session's input sequence ends: no terminal event, or the error of the first non-emitting step;
`finish` (with or without data) is refused with the RuntimeError -/
def exchangeEnd : List Step → List Ev
  | [] => []
  | s :: r =>
    match s.act with
    | .emit _ => exchangeEnd r
    | .finish => [errEv finishOnExchangeExn]
    | .emitFinish _ => [errEv finishOnExchangeExn]
    | .raise e => [errEv e]
    | .nothing => [errEv noDataExn]

/-- the steps the `k`-th, `k+1`-th, … inputs of an exchange session play -/
def playedFrom (p : Prog) (k n : Nat) : List Step := (List.range' k n).map p.stepAt

/-! "an emit and finish in the same step still delivers that batch" — at the level of the calls the state makes.
A well-formed step makes at most one `emit` and raises nothing; its calls may come in any order. -/

def isEmitOp : COp → Bool | .emit _ => true | _ => false
def isFinishOp : COp → Bool | .finish => true | _ => false
def isRaiseOp : COp → Bool | .raise _ => true | _ => false

/-- the batch a step emits (order-blind: the first and only `emit` wherever it stands) -/
def batchOf : List COp → Option Batch
  | [] => none
  | .emit b :: _ => some b
  | _ :: r => batchOf r

/-- the step calls `finish()` somewhere -/
def finishes (ops : List COp) : Bool := ops.any isFinishOp

def WellFormedStep (ops : List COp) : Prop := (ops.filter isEmitOp).length ≤ 1 ∧ ops.any isRaiseOp = false

/-- the batches a producer emits up to and including the step in which it finishes, from the calls alone -/
def emittedOps : List (List COp) → List Batch
  | [] => []
  | s :: r =>
    match batchOf s, finishes s with
    | some b, false => b :: emittedOps r
    | some b, true => [b]
    | none, _ => []

def AllEmit (steps : List Step) : Prop := ∀ s ∈ steps, ∃ b, s.act = .emit b

/-- same field set (order and types apart) -/
def SameFieldSet (a b : Schema) : Prop := ∀ n, n ∈ names a ↔ n ∈ names b

def isOnCancel : SEv → Bool | .onCancel _ => true | _ => false
def onCancels (l : List SEv) : Nat := (l.filter isOnCancel).length

/-- every `process` call recorded in the server log received an input with schema `decl` -/
def InputsConform (decl : Schema) (l : List SEv) : Prop := ∀ k sch, SEv.process k sch ∈ l → sch = decl

/-- "a declared header arrives once before any data": the event sequence splits around its single header event -/
def HeaderOnceFirst (h : Nat) (all : List Ev) : Prop :=
  ∃ pre rest, all = pre ++ Ev.header h :: rest ∧ (∀ e ∈ pre, isData e = false ∧ isHeader e = false) ∧
    ∀ e ∈ rest, isHeader e = false

/-- what an op issued after the cancel may return on the socket family: refused with the RpcError (`next` on an
iterator that had already ended just stops); `close` / `cancel` are no-ops -/
def PipeRefused : PipeM.Op → List Ev → Prop
  | .tick, evs => evs = [PipeM.refusedEv]
  | .send _, evs => evs = [PipeM.refusedEv]
  | .next, evs => evs = [PipeM.refusedEv] ∨ evs = [.fin]
  | .close, evs => evs = []
  | .cancel, evs => evs = []

/-- … and over HTTP: `exchange` is refused with the RpcError, `close` / `cancel` are no-ops, iteration hands out only what
the client had buffered before the cancel (no server contact is stated separately through `reqs`) -/
def HttpRefused : HttpM.Op → List Ev → Prop
  | .send _, evs => evs = [HttpM.refusedEv]
  | .next, _ => True
  | .close, evs => evs = []
  | .cancel, evs => evs = []

/-- `R op events` holds for every op of a run, position by position -/
def AllOps {Op : Type} (R : Op → List Ev → Prop) : List Op → List (List Ev) → Prop
  | [], [] => True
  | op :: r, e :: es => R op e ∧ AllOps R r es
  | _, _ => False

end VgiVerif.C10
