import VgiVerif.Model.Engine
/-
C08 — client log messages are delivered once, in order, robustly.  Written from the property text:

  "Every client-directed log message emitted during a call is delivered to the client's log callback exactly once, in
   emission order, before the result or batch it precedes is returned, with its level, text and extra fields
   preserved.  For any log metadata a peer sends — including free-form extra objects with arbitrary keys and extras
   that are not JSON objects — the client delivers or ignores the message rather than failing the call."

`emitted…` = what the service did, in the order it did it (a `Step` = one `process()` call: `logs`, the action, `post`
logs emitted after the data batch).  `Delivered e d` = the client's event list `d` satisfies the property for the
emitted sequence `e`.
-/
namespace VgiVerif.C08.Spec
open VgiVerif.Engine

def lg (ls : List Log) : List Ev := ls.map .log

/-- a producer stream iterated to its end: everything every executed `process()` call emitted, then how it ended -/
def emittedProducer : List Step → List Ev
  | [] => [.fin]
  | s :: r =>
    match s.act with
    | .emit b => lg s.logs ++ [.data b] ++ lg s.post ++ emittedProducer r
    | .finish => lg s.logs ++ lg s.post ++ [.fin]
    | .emitFinish b => lg s.logs ++ [.data b] ++ lg s.post ++ [.fin]
    | .raise e => lg s.logs ++ [errEv e]
    | .nothing => lg s.logs ++ [errEv noDataExn]

/-- an exchange session fed one input per step: `finish()` is refused there (the call fails after what it emitted; a
failed call returns no batch) -/
def emittedExchange : List Step → List Ev
  | [] => []
  | s :: r =>
    match s.act with
    | .emit b => lg s.logs ++ [.data b] ++ lg s.post ++ emittedExchange r
    | .finish => lg s.logs ++ lg s.post ++ [errEv finishOnExchangeExn]
    | .emitFinish _ => lg s.logs ++ lg s.post ++ [errEv finishOnExchangeExn]
    | .raise e => lg s.logs ++ [errEv e]
    | .nothing => lg s.logs ++ [errEv noDataExn]

def emittedUnary (logs : List Log) (out : Except Exn Nat) : List Ev :=
  lg logs ++ [match out with | .ok v => .value v | .error e => errEv e]

/-- a stream method that logs and then raises -/
def emittedInitFail (il : List Log) (e : Exn) : List Ev := lg il ++ [errEv e]

def logsOf (evs : List Ev) : List Log := evs.filterMap fun | .log l => some l | _ => none

/-- every non-log event (batch, result, header, error, end) with the number of logs that come before it -/
def marks : Nat → List Ev → List (Nat × Ev)
  | _, [] => []
  | n, .log _ :: r => marks (n + 1) r
  | n, x :: r => (n, x) :: marks n r

/-- "before the result or batch it precedes": the same batches / results in the same order, and at each of them at
least the logs emitted before it have already been delivered -/
def Pointwise : List (Nat × Ev) → List (Nat × Ev) → Prop
  | [], [] => True
  | a :: r, b :: r' => a.2 = b.2 ∧ a.1 ≤ b.1 ∧ Pointwise r r'
  | _, _ => False

def NotLater (e d : List Ev) : Prop := Pointwise (marks 0 e) (marks 0 d)

/-- the property for one call: each emitted log exactly once, in emission order, with its level / text / extras (a `Log`
carries all three), and not later than the item it precedes -/
structure Delivered (e d : List Ev) : Prop where
  once_in_order : logsOf d = logsOf e
  not_later : NotLater e d

/-- peer robustness: the client's handling of one batch never fails the call -/
inductive Handling where
  | data | delivered | ignored | rpcError | callFails
deriving DecidableEq, Repr

end VgiVerif.C08.Spec
