import VgiVerif.Model.C30
import VgiVerif.Spec.Engine
/-
C30 as a specification, written from the property text and docs/WIRE_PROTOCOL.md §12 (not from the code):

  (integrity)     "A fetched payload whose SHA-256 differs from the pointer's, whose schema differs, that contains another
                   pointer, or that holds zero or several data batches is never handed to application code."
  (transparency)  "For any output and any threshold and compression setting, externalized unary results, stream batches,
                   headers and client-uploaded requests resolve to batches and log messages identical to inline delivery."
-/
namespace VgiVerif.C30
open VgiVerif.Engine
namespace Spec

/-- the data batches / the log messages of a payload, in stream order -/
def dataBatches (bs : List WBatch) : List WBatch := bs.filter fun b => classify b == .data
def logsOf (bs : List WBatch) : List Log := bs.filterMap fun b => match classify b with | .log l => some l | _ => none

/-- what "handing a payload to application code" consists of: the `on_log` calls and the returned batch -/
def onLogCalls : Except Reject (List Log × WBatch) → List Log
  | .ok (ls, _) => ls
  | .error _ => []
def returned : Except Reject (List Log × WBatch) → Option WBatch
  | .ok (_, d) => some d
  | .error _ => none

/-- A fetched payload is *intact* for a pointer (expected schema, optional digest): it decodes and parses to the end, its
digest is the pointer's (when the pointer has one), its schema is the pointer's, no batch inside is a pointer, and it
holds exactly one data batch `d`; `logs` are its log messages. -/
def Intact (expSchema : Nat) (expSha : Option Str) (f : Fetched) (logs : List Log) (d : WBatch) : Prop :=
  ∃ sha sch bs, f = .got sha (.stream sch bs .clean) ∧ (∀ h, expSha = some h → sha = h) ∧ sch = expSchema ∧
    (∀ b ∈ bs, hasLocation b = false) ∧ dataBatches bs = [d] ∧ logsOf bs = logs

/-- Integrity of a resolution procedure `res` (pointer data, retry budget, fault sequence ↦ outcome): whatever it hands to
application code comes from an intact payload seen by one of its attempts. -/
def Integrity (res : Nat → Option Str → Int → (Nat → Fetched) → Except Reject (List Log × WBatch)) : Prop :=
  ∀ expSchema expSha maxRetries fetch logs d,
    res expSchema expSha maxRetries fetch = .ok (logs, d) →
      ∃ k, k ≤ Gen.C30.retryCap ∧ Intact expSchema expSha (fetch k) logs d

/-- …and when no attempt sees an intact payload, nothing at all is handed over -/
def NeverHanded (res : Nat → Option Str → Int → (Nat → Fetched) → Except Reject (List Log × WBatch)) : Prop :=
  ∀ expSchema expSha maxRetries fetch,
    (∀ k logs d, ¬ Intact expSchema expSha (fetch k) logs d) →
      onLogCalls (res expSchema expSha maxRetries fetch) = [] ∧ returned (res expSchema expSha maxRetries fetch) = none

/-- log levels a service can emit through `client_log` (every `Level` but EXCEPTION) -/
def ValidLog (l : Log) : Prop := Gen.C30.logLevels.contains l.level = true
def ValidStep (s : Step) : Prop := (∀ l ∈ s.logs, ValidLog l) ∧ (∀ l ∈ s.post, ValidLog l)

/-- the store `s'` still holds every object `s` held (objects are immutable once uploaded; later uploads add objects) -/
def Keeps {B : Type} (st : Storage B) (s s' : st.S) : Prop := ∀ u x, st.get s u = some x → st.get s' u = some x

/-- Transparency of a stream: what the client observes (logs in order, data batches in order, terminal events) with
offload under a configuration equals what it observes inline. -/
def Transparent (external inline : List Ev) : Prop := obs external = obs inline

end Spec
end VgiVerif.C30
