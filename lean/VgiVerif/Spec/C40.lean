import VgiVerif.Prelude.CapsTypes
import VgiVerif.Prelude.PyInt
import VgiVerif.Prelude.PyStr
/-
C40 spec — written from the property text and docs/WIRE_PROTOCOL.md ("Capability discovery" table):

"Every HTTP response carries exactly the capability headers implied by the server configuration, each present if and only
 if its feature is configured and with the configured value.  The client's capability probe reads that configuration back."
-/
namespace VgiVerif.C40.Spec
open VgiVerif.Caps

/-- "Integer": decimal text -/
def decimal (n : Int) : List Char := VgiVerif.PyInt.pyStrInt n
def yes : List Char := ['t', 'r', 'u', 'e']
def no : List Char := ['f', 'a', 'l', 's', 'e']
/-- "Comma-separated" -/
def commaSep (xs : List (List Char)) : List Char := VgiVerif.PyStr.join [',', ' '] xs

def hMaxRequestBytes : List Char := ['V', 'G', 'I', '-', 'M', 'a', 'x', '-', 'R', 'e', 'q', 'u', 'e', 's', 't', '-', 'B', 'y', 't', 'e', 's']
def hMaxResponseBytes : List Char := ['V', 'G', 'I', '-', 'M', 'a', 'x', '-', 'R', 'e', 's', 'p', 'o', 'n', 's', 'e', '-', 'B', 'y', 't', 'e', 's']
def hMaxExternalizedResponseBytes : List Char := ['V', 'G', 'I', '-', 'M', 'a', 'x', '-', 'E', 'x', 't', 'e', 'r', 'n', 'a', 'l', 'i', 'z', 'e', 'd', '-', 'R', 'e', 's', 'p', 'o', 'n', 's', 'e', '-', 'B', 'y', 't', 'e', 's']
def hExternalizationEnabled : List Char := ['V', 'G', 'I', '-', 'E', 'x', 't', 'e', 'r', 'n', 'a', 'l', 'i', 'z', 'a', 't', 'i', 'o', 'n', '-', 'E', 'n', 'a', 'b', 'l', 'e', 'd']
def hSupportedEncodings : List Char := ['V', 'G', 'I', '-', 'S', 'u', 'p', 'p', 'o', 'r', 't', 'e', 'd', '-', 'E', 'n', 'c', 'o', 'd', 'i', 'n', 'g', 's']
def hUploadUrlSupport : List Char := ['V', 'G', 'I', '-', 'U', 'p', 'l', 'o', 'a', 'd', '-', 'U', 'R', 'L', '-', 'S', 'u', 'p', 'p', 'o', 'r', 't']
def hMaxUploadBytes : List Char := ['V', 'G', 'I', '-', 'M', 'a', 'x', '-', 'U', 'p', 'l', 'o', 'a', 'd', '-', 'B', 'y', 't', 'e', 's']
def hProxyProofRequired : List Char := ['V', 'G', 'I', '-', 'P', 'r', 'o', 'x', 'y', '-', 'P', 'r', 'o', 'o', 'f', '-', 'R', 'e', 'q', 'u', 'i', 'r', 'e', 'd']
def hStickyEnabled : List Char := ['V', 'G', 'I', '-', 'S', 't', 'i', 'c', 'k', 'y', '-', 'E', 'n', 'a', 'b', 'l', 'e', 'd']
def hStickyDefaultTtl : List Char := ['V', 'G', 'I', '-', 'S', 't', 'i', 'c', 'k', 'y', '-', 'D', 'e', 'f', 'a', 'u', 'l', 't', '-', 'T', 'T', 'L']
def hStickyEchoHeaders : List Char := ['V', 'G', 'I', '-', 'S', 't', 'i', 'c', 'k', 'y', '-', 'E', 'c', 'h', 'o', '-', 'H', 'e', 'a', 'd', 'e', 'r', 's']
def hTokenIntrospection : List Char := ['V', 'G', 'I', '-', 'T', 'o', 'k', 'e', 'n', '-', 'I', 'n', 't', 'r', 'o', 's', 'p', 'e', 'c', 't', 'i', 'o', 'n']

def codecToken : Encoding → List Char
  | .zstd => ['z', 's', 't', 'd']
  | .gzip => ['g', 'z', 'i', 'p']
  | .identity => ['i', 'd', 'e', 'n', 't', 'i', 't', 'y']

/-- the content codings the server will produce: none without compression, else zstd (if the runtime has it) and gzip -/
def codecs (cfg : Cfg) : List Encoding :=
  if cfg.compression then (if cfg.zstdAvailable then [Encoding.zstd, Encoding.gzip] else [Encoding.gzip]) else []

def flag (b : Bool) : Option (List Char) := if b then some yes else none

/-- the documented table, in the document's order: header ↦ value (`none` = the header is absent) -/
def docTable (cfg : Cfg) : List (List Char × Option (List Char)) :=
  [ (hMaxRequestBytes, cfg.maxRequestBytes.map decimal),                         -- Integer, when configured
    (hMaxResponseBytes, cfg.maxResponseBytes.map decimal),                       -- Integer, when configured
    (hMaxExternalizedResponseBytes, cfg.maxExternalizedResponseBytes.map decimal), -- Integer, when configured
    (hExternalizationEnabled, some (if cfg.storage then yes else no)),           -- "true"/"false", always
    (hSupportedEncodings, some (commaSep ((codecs cfg).map codecToken))),        -- codec tokens, always (may be empty)
    (hUploadUrlSupport, flag cfg.uploadProvider),                                -- "true", when enabled
    (hMaxUploadBytes, if cfg.uploadProvider then cfg.maxUploadBytes.map decimal else none), -- when enabled + configured
    (hProxyProofRequired, flag cfg.proofRequired),                               -- "true", when required
    (hStickyEnabled, flag cfg.sticky),                                           -- "true", when enabled
    (hStickyDefaultTtl, if cfg.sticky then some (decimal cfg.stickyTtl) else none),  -- Integer seconds, when sticky enabled
    (hStickyEchoHeaders, if cfg.sticky && !cfg.stickyEcho.isEmpty then some (commaSep cfg.stickyEcho) else none),
    (hTokenIntrospection, flag cfg.introspect) ]                                 -- "true", when enabled

/-- every capability header name -/
def capNames : List (List Char) :=
  [hMaxRequestBytes, hMaxResponseBytes, hMaxExternalizedResponseBytes, hExternalizationEnabled, hSupportedEncodings,
   hUploadUrlSupport, hMaxUploadBytes, hProxyProofRequired, hStickyEnabled, hStickyDefaultTtl, hStickyEchoHeaders,
   hTokenIntrospection]

/-- the value header `h` must carry for `cfg` (`none` = must be absent; also for any name that is not a capability header) -/
def expected (cfg : Cfg) (h : List Char) : Option (List Char) :=
  match (docTable cfg).find? (fun p => p.1 == h) with
  | some p => p.2
  | none => none

/-- the configuration read directly, as the probe's result type -/
def capsOf (cfg : Cfg) : Caps :=
  { maxRequestBytes := cfg.maxRequestBytes,
    maxResponseBytes := cfg.maxResponseBytes,
    maxExternalizedResponseBytes := cfg.maxExternalizedResponseBytes,
    externalizationEnabled := cfg.storage,
    uploadUrlSupport := cfg.uploadProvider,
    maxUploadBytes := if cfg.uploadProvider then cfg.maxUploadBytes else none,   -- only meaningful with a provider
    supportedEncodings := codecs cfg,
    stickyEnabled := cfg.sticky,
    stickyDefaultTtl := if cfg.sticky then some cfg.stickyTtl else none,
    stickyEchoHeaders := if cfg.sticky then cfg.stickyEcho else [] }

/-- an HTTP header name usable in a comma-separated list: non-empty, no comma, no whitespace -/
def TokenName (n : List Char) : Prop := n ≠ [] ∧ ∀ c ∈ n, c ≠ ',' ∧ VgiVerif.PyInt.isSpace c = false

end VgiVerif.C40.Spec
