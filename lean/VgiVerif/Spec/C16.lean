/-
C16 spec — written from the property text only:

"For any result size and cap configuration, a unary or exchange HTTP response body never exceeds
max_response_bytes (an oversize result becomes an RPC error instead), the bytes uploaded to external storage for
one successful response never exceed max_externalized_response_bytes (an overshoot is refused before upload), and
a producer turn exceeds the wire cap by at most its last batch while never exceeding the external cap."

Sizes are naturals.  "Bytes uploaded" are the bytes of the IPC payload handed to the storage backend (the cap, like
the `external_bytes` the helpers report, is about the payload a client will have to fetch and hold, i.e. before any
optional transport compression of the upload).
-/
namespace VgiVerif.C16.Spec

def total : List Nat → Nat
  | [] => 0
  | x :: xs => x + total xs

/-- what a client and the storage backend see of one unary / exchange response -/
structure Obs where
  isError : Bool          -- the client gets an RpcError instead of a result
  extRefused : Bool       -- … and the error is the external-cap refusal
  body : Nat              -- HTTP body bytes
  uploads : List Nat      -- bytes received by the storage backend, per upload

/-- a unary or exchange body never exceeds `max_response_bytes`; an oversize result becomes an RPC error instead -/
def WireOk (wireCap : Option Nat) (o : Obs) : Prop :=
  ∀ w, wireCap = some w → o.isError = true ∨ o.body ≤ w

/-- uploads of a successful response stay within `max_externalized_response_bytes`;
    an overshoot is refused *before* upload (a refused response has uploaded nothing) -/
def ExternalOk (extCap : Option Nat) (o : Obs) : Prop :=
  ∀ c, extCap = some c → (o.isError = false → total o.uploads ≤ c) ∧ (o.extRefused = true → o.uploads = [])

/-- a producer turn exceeds the wire cap by at most its last batch — plus the zero-row continuation sentinel and the
    end-of-stream marker, and counted from the bytes already in the stream when production starts (`pre`: schema
    message and log batches, which may alone exceed a tiny cap) — and never exceeds the external cap -/
def ProducerOk (wireCap extCap : Option Nat) (pre last sentinel eos body : Nat) (uploads : List Nat) : Prop :=
  (∀ w, wireCap = some w → body ≤ max w pre + last + sentinel + eos) ∧ (∀ c, extCap = some c → total uploads ≤ c)

end VgiVerif.C16.Spec
