import VgiVerif.Prelude.PyVal
import VgiVerif.Prelude.DcAnn
/-
C03 spec — from the property text and the class docstring of `ArrowSerializableDataclass` only.

"For any dataclass built from the documented supported field annotations … and any instance, deserializing its serialized
form yields an equal instance.  The compact encoding used for HTTP stream state decodes every instance it accepts to the
same object as the Arrow encoding."

Reading fixed here:
  * an *instance* (`inhabits`) holds, in every field, a value of the annotated Python type that the declared Arrow type can
    represent (ints inside the declared width; members of the declared Enum; sets and dict keys are pairwise distinct
    because they come out of a real frozenset / dict; dict keys are not None);
  * *equal* (`norm`): transient fields are excluded from serialization by design, so they come back at their defaults; a field
    declared float32 comes back rounded to binary32 (DESIGN §7.3: rounding to the declared width is not a change).  On a
    class with neither (`exact`) the instance comes back identical (`Exact`);
  * *supported* annotations: the grammar of `Prelude/DcAnn.lean` with the `ArrowType(pa.binary())` dataclass marker at field
    level only (the only place the docstring offers it), distinct field names, a default on every transient field
    (both enforced by Python / by schema generation).
-/
namespace VgiVerif.C03
open VgiVerif.Py


def int64Fits (i : Int) : Bool := IntW.i64.fits i

mutual
/-- well-typed instances: the Python type the annotation names, representable in the declared Arrow type;
sets and dict keys pairwise distinct (they come from a real frozenset / dict); dict keys not `None` -/
def inhabits (env : Env) : Ann → V → Bool
  | .scalar .str, .str _ => true
  | .scalar .bytes, .bytes _ => true
  | .scalar .int, .int i => int64Fits i
  | .scalar .float, .float _ => true
  | .scalar .bool, .bool _ => true
  | .intW w, .int i => w.fits i
  | .float32, .float _ => true
  | .enum ms, .enum n => ms.any (fun m => m.1 == n)
  | .opt _, .none => true
  | .opt a, v => inhabits env a v
  | .list a, .list xs => xs.all (inhabits env a)
  | .set a, .set xs => xs.all (inhabits env a) && pyDistinct xs
  | .map k v, .dict kvs =>
    kvs.all (fun p => inhabits env k p.1 && inhabits env v p.2 && (match p.1 with | .none => false | _ => true))
      && pyDistinct (kvs.map Prod.fst)
  | .dc n fs, .obj n' ofs => n == n' && inhabitsF env fs ofs
  | .dcBin n fs, .obj n' ofs => n == n' && inhabitsF env fs ofs
  | .schema, .arrowObj k _ => k == 0
  | .batch, .arrowObj k _ => k == 1
  | _, _ => false
/-- the object's fields are exactly the class's, in order; a transient field may hold anything -/
def inhabitsF (env : Env) : Fields → List (List Char × V) → Bool
  | .nil, [] => true
  | .cons n tr _ a rest, (n', v) :: ofs => n == n' && (tr || inhabits env a v) && inhabitsF env rest ofs
  | _, _ => false
end

mutual
/-- what a round trip is specified to return: the same value, transient fields reset to their defaults, a float32 field
rounded to binary32 (DESIGN §7.3: rounding to the declared width is not a change); a set whose elements become equal
that way collapses, as in Python -/
def norm (env : Env) : Ann → V → V
  | _, .none => .none
  | .opt a, v => norm env a v
  | .float32, .float b => .float (env.round32 b)
  | .list a, .list xs => .list (xs.map (norm env a))
  | .set a, .set xs => .set (dedup (xs.map (norm env a)))
  | .map k v, .dict kvs => .dict (dictOfPairs (kvs.map (fun p => (norm env k p.1, norm env v p.2))))
  | .dc _ fs, .obj n' ofs => .obj n' (normF env fs ofs)
  | .dcBin _ fs, .obj n' ofs => .obj n' (normF env fs ofs)
  | _, v => v
def normF (env : Env) : Fields → List (List Char × V) → List (List Char × V)
  | .cons n tr d a rest, (_, v) :: ofs => (n, if tr then d.getD .none else norm env a v) :: normF env rest ofs
  | _, _ => []
end

mutual
/-- no transient field and no float32 field anywhere below: the round trip is then the identity -/
def exact : Ann → Bool
  | .float32 => false
  | .opt a => exact a
  | .list a => exact a
  | .set a => exact a
  | .map k v => exact k && exact v
  | .dc _ fs => exactF fs
  | .dcBin _ fs => exactF fs
  | _ => true
def exactF : Fields → Bool
  | .nil => true
  | .cons _ tr _ a rest => !tr && exact a && exactF rest
end

mutual
/-- the documented grammar, at a position inside a container / behind an Optional of a container element:
no `ArrowType(pa.binary())` dataclass (that marker only works on a field), classes well formed -/
def supported : Ann → Bool
  | .opt a => supported a
  | .list a => supported a
  | .set a => supported a
  | .map k v => supported k && supported v
  | .dc _ fs => supportedF fs
  | .dcBin _ _ => false
  | _ => true
/-- a class: distinct field names, every transient field has a default, every field annotation supported at field level -/
def supportedF : Fields → Bool
  | .nil => true
  | .cons n tr d a rest =>
    !(fieldNames rest).contains n && (!tr || d.isSome) && supportedTop a && supportedF rest
/-- a field annotation: additionally `dcBin` and `opt dcBin` -/
def supportedTop : Ann → Bool
  | .dcBin _ fs => supportedF fs
  | .opt (.dcBin _ fs) => supportedF fs
  | .opt a => supported a
  | .list a => supported a
  | .set a => supported a
  | .map k v => supported k && supported v
  | .dc _ fs => supportedF fs
  | _ => true
end


/-- a flat class (what the compact codec is for): every non-transient field is a plain scalar, possibly Optional -/
def flatAnn : Ann → Bool
  | .scalar _ => true
  | .opt (.scalar _) => true
  | _ => false

def flatF : Fields → Bool
  | .nil => true
  | .cons _ tr _ a rest => (tr || flatAnn a) && flatF rest

namespace Spec

/-- every instance of every supported annotation round-trips (`rt` = serialize → typed Arrow column → deserialize) -/
def RoundTrip (env : Env) (rt : Ann → V → R V) : Prop :=
  ∀ a v, supported a = true → inhabits env a v = true → rt a v = .ok (norm env a v)

/-- every instance of every supported class round-trips through bytes -/
def RoundTripBytes (env : Env) (rt : List Char → Fields → List (List Char × V) → R V) : Prop :=
  ∀ n fs ofs, supportedF fs = true → inhabitsF env fs ofs = true → rt n fs ofs = .ok (.obj n (normF env fs ofs))

/-- "equal instance" is the identity when nothing is transient and nothing is declared float32 -/
def Exact (env : Env) : Prop :=
  ∀ a v, exact a = true → inhabits env a v = true → norm env a v = v

/-- whatever the compact codec accepts decodes to what the Arrow encoding decodes to -/
def CompactAgrees (env : Env) (enc : Fields → List (List Char × V) → R (Option V)) (dec : List Char → Fields → V → R V)
    (arrow : List Char → Fields → List (List Char × V) → R V) : Prop :=
  ∀ n fs ofs b, supportedF fs = true → inhabitsF env fs ofs = true → enc fs ofs = .ok (some b) → dec n fs b = arrow n fs ofs

/-- the compact codec refuses every class that is not flat -/
def CompactRefusesNonFlat {α} (plan : Fields → Option α) : Prop :=
  ∀ fs, flatF fs = false → plan fs = Option.none

end Spec
end VgiVerif.C03
