import VgiVerif.Model.C04
/-
C04 spec — from the property text:
 "after any call ends — successfully, with a method error, an initialization or header error, an unknown method, a version
  or parameter rejection, a mid-stream error, a client close or cancel at any point, or an exception raised by a client-side
  log callback — the next call on the same connection receives its own correct response.  No call leaves the client blocked
  on a response that will never be written."

A call "ends" when the unary call returned / raised, or when the stream session has been left through its context manager
(DESIGN §7.3).  The statement quantifies over every service, every history of calls, every behaviour of the service's
methods (fault plans), every sequence of session operations and every behaviour of the log callback.
-/
namespace VgiVerif.C04
namespace Spec

/-- nothing unread in either direction, the server is at the request boundary, the client is idle: the connection is
exactly as it was before the first call -/
def Synced (st : St) : Prop := st = St.init

/-- client and server were built from the same Protocol: a method both know has the same shape on both sides
(a method only the client knows — "unknown method" — may have any shape) -/
def Agree (svc : Svc) : Call → Prop
  | .unary _ r => ∀ m, svc.methods[r.method]? = some m → ∃ n b, m = .unary n b
  | .stream _ r hdr _ => ∀ m, svc.methods[r.method]? = some m → ∃ ex il init steps, m = .stream ex hdr il init steps

def AllAgree (svc : Svc) (hist : List Call) : Prop := ∀ c ∈ hist, Agree svc c

/-- C04, first sentence (state form): after every call of every history the connection is synced -/
def SyncAfterEveryCall (sh : Gen.C04.Shape) : Prop :=
  ∀ svc hist, AllAgree svc hist → Synced (runHist sh svc hist St.init).1

/-- C04, first sentence (observable form): what a call gives its caller — the outcome of each of its operations and the
frames exchanged — does not depend on the calls made before it on the same connection -/
def NextCallIndependent (sh : Gen.C04.Shape) : Prop :=
  ∀ svc hist c, AllAgree svc (hist ++ [c]) →
    (runHist sh svc (hist ++ [c]) St.init).2.getLast? = some (runCall sh svc c St.init).2

/-- C04, second sentence: every operation of every call of every history finishes for its caller (the client is not left
in a read) with nothing left for the server to consume, and is never stuck -/
def NeverBlocked (sh : Gen.C04.Shape) : Prop :=
  ∀ svc hist, AllAgree svc hist →
    ∀ o ∈ (runHist sh svc hist St.init).2, ∀ x ∈ o.outs, x.settled = true ∧ x.blocked = false

/-- What the current tree cannot guarantee (open finding C04:desync:unknown-method-headerless-stream): a stream method
that the CLIENT declares without a header and the SERVER does not have.  The `_partial` theorems assume every
header-less stream call names a method the server knows. -/
def KnownIfHeaderless (svc : Svc) : Call → Prop
  | .stream _ r false _ => r.method < svc.methods.length
  | _ => True

def AllKnownIfHeaderless (svc : Svc) (hist : List Call) : Prop := ∀ c ∈ hist, KnownIfHeaderless svc c

end Spec
end VgiVerif.C04
