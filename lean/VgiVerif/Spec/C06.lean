/-
C06 spec — written from the property text only:

"A service method is invoked only when the request's columns match its declared parameter names, order, Arrow types and
nullability exactly and every non-optional parameter is non-null, omitted defaulted parameters having been filled in by
the client.  Any other request is rejected before the method runs (HTTP 400 or an error stream on sockets), while an
exception raised by the method itself is never reported as a request error."

(docs/WIRE_PROTOCOL.md §13: request errors are `400`; "any error raised by the method implementation" is
`200 OK` + `X-VGI-RPC-Error: true`.)
-/
namespace VgiVerif.C06.Spec

abbrev Str := List Char

/-- a declared parameter as the contract shows it: name, Arrow type (canonical descriptor), optional (`X | None`) -/
structure DeclP where
  name : Str
  ty : Str
  optional : Bool
deriving Repr, DecidableEq

/-- a request column as sent: field name, Arrow type, nullability flag of the field, whether the value is null -/
structure ColP where
  name : Str
  ty : Str
  nullable : Bool
  isNull : Bool
deriving Repr, DecidableEq

/-- the request's columns match the declared parameter names, order, Arrow types and nullability exactly, and every
non-optional parameter is non-null (a defaulted parameter is a parameter like any other: its column must be there) -/
def Conforms (d : List DeclP) (cols : List ColP) : Prop :=
  cols.map (·.name) = d.map (·.name) ∧
  cols.map (·.ty) = d.map (·.ty) ∧
  cols.map (·.nullable) = d.map (·.optional) ∧
  ∀ i (hd : i < d.length) (hc : i < cols.length), (d[i]).optional = false → (cols[i]).isNull = false

/-- what came back -/
inductive Answer where
  | result               -- the method's result
  | requestError400      -- HTTP 400 without `X-VGI-RPC-Error`
  | requestErrorStream   -- sockets: an error stream written before the method ran; the connection keeps serving
  | methodError200       -- HTTP 200 + `X-VGI-RPC-Error: true`
  | methodErrorStream    -- sockets: the error batch of a call that reached the method
  | other                -- anything else (an exception escaping the dispatch loop, a 5xx, …)
deriving Repr, DecidableEq

/-- observed at: implementation invocation log; HTTP status / error stream returned (+ the exception class it names) -/
structure Observation where
  invoked : Bool
  answer : Answer
  reported : Option Str
deriving Repr, DecidableEq

/-- the property for one call of a method declared `d`, over HTTP (`http`) or a socket transport; `raises` = the class
name of the exception the method body raises when it runs (`none` = it returns) -/
def Holds (http : Bool) (d : List DeclP) (cols : List ColP) (raises : Option Str) (o : Observation) : Prop :=
  (o.invoked = true → Conforms d cols) ∧
  (¬ Conforms d cols →
     o.invoked = false ∧ o.answer = (if http then Answer.requestError400 else Answer.requestErrorStream)) ∧
  (∀ e, o.invoked = true → raises = some e →
     o.answer = (if http then Answer.methodError200 else Answer.methodErrorStream) ∧ o.reported = some e)

end VgiVerif.C06.Spec
