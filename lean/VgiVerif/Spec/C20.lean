/-
C20 spec — written from the property text only:

"When an authenticate callback is configured, no RPC route — unary, stream init, exchange, introspection or upload-URL —
 runs any service code for a request the callback rejected, whatever the method name or URL prefix.  Only OPTIONS
 requests, paths under /.well-known/, the exact health endpoint and the OAuth browser-flow endpoints bypass
 authentication."
-/
namespace VgiVerif.C20.Spec

def options : List Char := ['O', 'P', 'T', 'I', 'O', 'N', 'S']
def wellKnown : List Char := ['/', '.', 'w', 'e', 'l', 'l', '-', 'k', 'n', 'o', 'w', 'n', '/']
def healthSuffix : List Char := ['/', 'h', 'e', 'a', 'l', 't', 'h']
def oauthSuffix : List Char := ['/', '_', 'o', 'a', 'u', 't', 'h', '/']

/-- the only requests that may bypass authentication (`pfx` = URL prefix, `health` = health endpoint enabled,
    `pkce` = OAuth browser flow active) -/
def Bypass (pfx : List Char) (health pkce : Bool) (verb path : List Char) : Prop :=
  verb = options
  ∨ wellKnown <+: path
  ∨ (health = true ∧ path = pfx ++ healthSuffix)
  ∨ (pkce = true ∧ (pfx ++ oauthSuffix) <+: path)

/-- the prefixes the property quantifies over: empty, or `/x…` with `x` not a slash, and not `/.well-known` or below it
    (`/.well-known/` is reserved for metadata discovery and is exempt by design) -/
def PrefixOk (pfx : List Char) : Prop :=
  pfx = [] ∨ ∃ t, pfx = '/' :: t ∧ t ≠ [] ∧ t.head? ≠ some '/'
    ∧ ¬ (['.', 'w', 'e', 'l', 'l', '-', 'k', 'n', 'o', 'w', 'n', '/'] <+: t ++ ['/'])

/-- a method name as Python allows it: no `.` and no `/` -/
def IdentLike (m : List Char) : Prop := ∀ c ∈ m, c ≠ '.' ∧ c ≠ '/'

end VgiVerif.C20.Spec
