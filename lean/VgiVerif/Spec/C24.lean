import VgiVerif.Prelude.AuthTypes
/-
C24 spec — from the property text and docs/proxy-proof-spec.md §7 (modes) and §8 (composition) only.

"A request authenticated through require_all is treated as authenticated only if the proof gate verified it
(when no inner authenticator is given) or the inner authenticator accepted it.  In allow mode a request without a
valid proof proceeds exactly as an anonymous request would, in require mode the inner authenticator is never
consulted after a gate failure, and a gate can never be placed inside an OR chain."
-/
namespace VgiVerif.C24.Spec
open VgiVerif.PP VgiVerif.Auth

/-- the gate *verified* the request: it returned claims that do not say `verified = "false"` -/
def gateVerified (g : Gate) : Prop :=
  ∃ c, g.res = .claims c ∧ c.get "verified".toList ≠ some "false".toList

/-- the gate let the request through without verifying it (allow mode, no valid proof) -/
def gatePassedUnverified (g : Gate) : Prop :=
  ∃ c, g.res = .claims c ∧ c.get "verified".toList = some "false".toList

/-- the gate refused (require mode, no valid proof) -/
def gateRefused (g : Gate) : Prop := ∃ e, g.res = .raises e

/-- the inner authenticator accepted the request as an authenticated caller -/
def innerAccepted (i : AuthOut) : Prop := ∃ ctx, i = .ok ctx ∧ ctx.authenticated = true

/-- what the same request gets without the gate: `inner`'s answer, or the anonymous context -/
def withoutGate : Option AuthOut → AuthOut
  | none => .ok anonymous
  | some i => i

/-- same outcome up to the attribution entry under the gate's claims key:
identical error, or identical domain / authenticated / principal and identical other claims -/
def sameUpToAttribution (key : Str) : AuthOut → AuthOut → Prop
  | .ok a, .ok b =>
    a.domain = b.domain ∧ a.authenticated = b.authenticated ∧ a.principal = b.principal ∧
      dropKey a.claims key = dropKey b.claims key
  | .err e, .err e' => e = e'
  | _, _ => False

end VgiVerif.C24.Spec
