import VgiVerif.Prelude.UrlWhatwg
/-
C37 spec — from the property text only:

 "every redirect the OAuth browser flow issues targets either a same-origin path under the service prefix or a URL
  that a WHATWG-conformant browser resolves to an allowlisted or loopback origin […] The callback completes only with
  an untampered, unexpired session cookie whose state matches."

"What a browser resolves a `Location` to" is `UrlWhatwg.parse base location` with `base` the URL of the request that
was answered with the redirect (an `http(s)` URL of the service).
-/
namespace VgiVerif.C37.Spec
open VgiVerif.UrlWhatwg VgiVerif.UrlPy

/-- the URL of a request to the service: `http` or `https` -/
def BaseOK (b : Url) : Prop := b.scheme = "http".toList ∨ b.scheme = "https".toList

/-- `loc` is a URL that the browser resolves to an allow-listed origin (the origin some allow-list entry itself
resolves to) or to an `http` loopback origin -/
def SafeExternal (base : Url) (allow : List Str) (loc : Str) : Prop :=
  ∃ u, parse base loc = .ok u ∧
    ((originOf u).isLoopbackHttp = true ∨
      ∃ o ∈ allow, ∃ uo, parse base o = .ok uo ∧ originOf uo = originOf u)

/-- `loc` is resolved by the browser to the service's own origin, with a path under the prefix -/
def SafeSameOrigin (base : Url) (pfx : Str) (loc : Str) : Prop :=
  ∃ u, parse base loc = .ok u ∧ u.scheme = base.scheme ∧ u.host = base.host ∧ u.port = base.port ∧
    pfx <+: pathString u

/-- a character that may appear in a configured prefix: printable ASCII that the path state neither treats as a
delimiter nor percent-encodes -/
def PlainPathChar (c : Char) : Prop :=
  0x20 < c.toNat ∧ c.toNat < 0x7F ∧ c ≠ '\\' ∧ c ≠ '?' ∧ c ≠ '#' ∧ c ≠ '"' ∧ c ≠ '<' ∧ c ≠ '>' ∧ c ≠ '^' ∧ c ≠ '`'
    ∧ c ≠ '{' ∧ c ≠ '}'

instance (c : Char) : Decidable (PlainPathChar c) := by unfold PlainPathChar; infer_instance

/-- a service prefix as an operator configures it: empty, or `/seg/seg…` of plain characters, not starting with `//`,
without `.` / `..` segments (in any spelling) -/
def PrefixOK (p : Str) : Prop :=
  p = [] ∨
    (∃ r, p = '/' :: r ∧ (∀ r', r ≠ '/' :: r')) ∧ (∀ c ∈ p, PlainPathChar c) ∧
      ∀ seg ∈ VgiVerif.PyStr.splitOn '/' p, isSingleDot seg = false ∧ isDoubleDot seg = false

/-- the allow-list as an operator configures it: every entry is a URL (without percent-escapes) that the browser model
resolves -/
def AllowOK (base : Url) (allow : List Str) : Prop :=
  ∀ o ∈ allow, '%' ∉ o ∧ ∃ uo, parse base o = .ok uo

/-- "allowlisted" refers to the allow-list the operator configured: an explicit list — the empty one included, which
leaves only loopback — is the list in force; only an absent configuration means the built-in default -/
def AllowInForce (dflt : List Str) (configured : Option (List Str)) : List Str := configured.getD dflt

end VgiVerif.C37.Spec
