/-
C14 spec — written from the property text and docs/WIRE_PROTOCOL.md ("Stream exchange (HTTP)") only:

  "For any sequence of requests spread over any number of workers sharing a token key, with any cache capacities
   (including zero), evictions and clock advances, each continuation request gets the same outcome — the same output or
   the same rejection — that a worker with an empty cache would give it.  A cache hit never yields call state minted for a
   different caller identity."

A *continuation request* is what the protocol says a client sends: "The request MUST also echo `vgi_rpc.call_state#b64`,
unchanged, on every subsequent request … a client that omits the token still works while that cache is warm; it fails as
soon as the cache is not".  So the outcome of a request that does not echo the call token is *allowed* to depend on the
cache; `conforming` is that obligation of the client, and transparency is demanded of conforming requests.
(`Nonconforming` below says what must still hold of the others.)
-/
namespace VgiVerif.C14.Spec

/-- a deployment: workers sharing one token key, each with its own call-state cache -/
structure Deployment where
  /-- clock, every worker's cache, every token issued so far -/
  State : Type
  /-- one request to one worker, or a clock advance -/
  Event : Type
  Worker : Type
  /-- a `POST /{method}/exchange` request: caller identity, method, cursor token, call token, cancel flag -/
  Request : Type
  /-- output or rejection -/
  Outcome : Type
  Identity : Type
  CallState : Type
  step : State → Event → State
  /-- the outcome worker `w` gives the request in state `s` -/
  serve : State → Worker → Request → Outcome
  /-- same clock, same tokens in circulation, same capacities — every cache empty -/
  emptied : State → State
  /-- the request echoes, unchanged, the call token `/init` handed out with the stream its cursor belongs to -/
  conforming : State → Request → Prop
  /-- the request as a conforming client would have sent it -/
  conformed : State → Request → Request
  requester : Request → Identity
  /-- the call state a successful outcome was computed from -/
  usedCallState : Outcome → Option CallState
  /-- `cs` was minted by an `/init` whose caller the token layer identifies with `x` -/
  mintedFor : State → CallState → Identity → Prop

def reach (D : Deployment) (s0 : D.State) (h : List D.Event) : D.State := h.foldl D.step s0

/-- the cache never changes a continuation request's outcome -/
def Transparent (D : Deployment) (start : D.State → Prop) : Prop :=
  ∀ s0, start s0 → ∀ (h : List D.Event) (w : D.Worker) (rq : D.Request), D.conforming (reach D s0 h) rq →
    D.serve (reach D s0 h) w rq = D.serve (D.emptied (reach D s0 h)) w rq

/-- a request that does not echo the call token is answered as a cold worker answers it, or as a cold worker answers
    the conforming request — never anything else -/
def Nonconforming (D : Deployment) (start : D.State → Prop) : Prop :=
  ∀ s0, start s0 → ∀ (h : List D.Event) (w : D.Worker) (rq : D.Request),
    D.serve (reach D s0 h) w rq = D.serve (D.emptied (reach D s0 h)) w rq ∨
    D.serve (reach D s0 h) w rq = D.serve (D.emptied (reach D s0 h)) w (D.conformed (reach D s0 h) rq)

/-- no outcome is ever computed from call state minted for a different caller identity -/
def NoCrossIdentity (D : Deployment) (start : D.State → Prop) : Prop :=
  ∀ s0, start s0 → ∀ (h : List D.Event) (w : D.Worker) (rq : D.Request) (cs : D.CallState),
    D.usedCallState (D.serve (reach D s0 h) w rq) = some cs → D.mintedFor (reach D s0 h) cs (D.requester rq)

end VgiVerif.C14.Spec
