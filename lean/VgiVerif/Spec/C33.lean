/-
C33 spec — written from the property text only:

"For any interleaving of concurrent launches of the same worker command, connection arrivals and idle
timers, at most one worker is spawned per command hash while one is alive, and every launch returns the
path of a worker that was accepting at that moment.  A threaded socket worker stops accepting only after
idle_timeout (or the startup grace) elapsed with zero connections — never while, or just after, a
connection it accepted is being served."

Both halves are stated as *monitors over observable event sequences* (the harness evaluates the very same
monitors on the event traces of the real code; the theorems say that no run of the models drives them into
`bad`).  Times are natural numbers (multiples of the harness' quantum).

(b) the worker (accept loop).  Events: a connection was accepted / its service finished / the worker stopped
accepting because it was idle.  At a `stop` at time `t`
  * every connection accepted so far has finished ("never while a connection it accepted is being served"),
  * `t - last ≥ need`, where `last` is the time of the most recent accept / finish (0 = start-up) and `need`
    is `idle` once any connection was ever accepted and the start-up `grace` before that ("only after
    idle_timeout (or the startup grace) elapsed with zero connections", "never just after").
A stop that is not an idle shutdown (the listening socket failed: `accept()` raised `OSError`) is outside the
property and is not an event.

(a) the launcher, per endpoint (command hash).  A worker is *alive* from the moment its process is created until it stops
accepting (or dies during start-up); it is *accepting* from the moment its socket listens (DESIGN §7.3 reads "alive" as
accepting for a worker that has LEFT its accept loop: such a worker is no longer alive here either).  Events: a worker
process was created / bound the endpoint's path / started listening / stopped accepting (or died) / the path was removed /
a launch returned.
  * `spawn`: no other worker of the endpoint is alive at that moment — neither accepting nor still starting up;
  * `ret t0 t`: a launch that decided at `t0` (its probe connected, or its worker reported readiness) returns
    at `t`: the path names an ACCEPTING worker (one that is listening: a bound socket that does not listen yet refuses
    connections) — demanded whenever `t < t0 + idle`: a worker may legitimately idle out `idle` after its last
    connection, and the launcher's probe is such a connection, so no launcher can promise more than that.
-/
namespace VgiVerif.C33.Spec

/-! ### (b) worker: idle shutdown -/

inductive Ev where
  | acc (c : Nat) (t : Nat)     -- connection `c` accepted at `t`
  | fin (c : Nat) (t : Nat)     -- service of `c` finished at `t`
  | stop (t : Nat)              -- idle shutdown: the worker stops accepting at `t`
deriving Repr, DecidableEq

structure Mon where
  openConns : List Nat := []    -- accepted, not yet finished
  last : Nat := 0               -- time of the most recent accept / finish (0 = start-up)
  any : Bool := false           -- some connection was accepted
  bad : Bool := false
deriving Repr, DecidableEq

/-- the zero-connection period that must have elapsed before an idle shutdown -/
def need (idle grace : Nat) (any : Bool) : Nat := if any then idle else grace

def Mon.step (idle grace : Nat) (m : Mon) : Ev → Mon
  | .acc c t => { m with openConns := c :: m.openConns, last := t, any := true }
  | .fin c t => { m with openConns := m.openConns.filter (fun x => x != c), last := t }
  | .stop t =>
    { m with bad := m.bad || !m.openConns.isEmpty || decide (t < m.last + need idle grace m.any) }

def Mon.run (idle grace : Nat) (evs : List Ev) : Mon := evs.foldl (Mon.step idle grace) {}

/-- the worker half of C33 on an event sequence -/
def WorkerOk (idle grace : Nat) (evs : List Ev) : Prop := (Mon.run idle grace evs).bad = false

/-! ### (a) launcher: single spawn, accepting at return -/

inductive LEv where
  | spawn (w : Nat)             -- worker process `w` created
  | bind (w : Nat)              -- worker `w` bound its socket: the path names it
  | ready (w : Nat)             -- worker `w` listens: connections are accepted from now on
  | exit (w : Nat)              -- worker `w` stopped accepting (idle exit) or died during start-up
  | unlink                      -- the endpoint's socket path was removed
  | ret (t0 t : Nat)            -- a launch that decided at `t0` returned the path at `t`
deriving Repr, DecidableEq

structure LMon where
  alive : List Nat := []        -- created, not yet exited
  acc : List Nat := []          -- accepting (listening, not yet exited)
  path : Option Nat := none     -- the worker the path names
  badSpawn : Bool := false      -- a worker was spawned while another one was alive
  badRet : Bool := false        -- a launch returned a path that names no accepting worker
deriving Repr, DecidableEq

def LMon.pathAccepting (m : LMon) : Bool :=
  match m.path with
  | some w => m.acc.contains w
  | none => false

def LMon.step (idle : Nat) (m : LMon) : LEv → LMon
  | .spawn w => { m with alive := w :: m.alive, badSpawn := m.badSpawn || !m.alive.isEmpty }
  | .bind w => { m with path := some w }
  | .ready w => { m with acc := w :: m.acc }
  | .exit w => { m with alive := m.alive.filter (fun x => x != w), acc := m.acc.filter (fun x => x != w) }
  | .unlink => { m with path := none }
  | .ret t0 t => { m with badRet := m.badRet || (decide (t < t0 + idle) && !m.pathAccepting) }

def LMon.run (idle : Nat) (evs : List LEv) : LMon := evs.foldl (LMon.step idle) {}

/-- the launcher half of C33 on an event sequence -/
def LauncherOk (idle : Nat) (evs : List LEv) : Prop :=
  (LMon.run idle evs).badSpawn = false ∧ (LMon.run idle evs).badRet = false

end VgiVerif.C33.Spec
