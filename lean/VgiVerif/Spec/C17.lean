import VgiVerif.Model.C17
import VgiVerif.Spec.C18
/-
C17 spec — from the property text:
"For any request body and Content-Encoding header, a body larger than max_request_bytes on the wire or after decoding is
refused with 413 without the server materializing more than the cap plus a bounded chunk of decoded bytes.  An unknown or
disabled coding is refused with 415, an undecodable body with 400, and any other body reaches the RPC layer byte-for-byte
equal to the client's uncompressed request."

The statements below are over an arbitrary `process` with the model's signature, so that the *full* property stays
visible next to the `_partial` theorems that are proved of the code as it is (Proofs/C17.lean) and the counterexamples
(Findings/C17.lean).  "Honest" = the request's `Content-Length`, if any, is the length of what is on the wire.
-/
namespace VgiVerif.C17.Spec
open VgiVerif.Codec VgiVerif.C17

abbrev Process := Libs → Cfg → Req → Result

/-- a request as a well-behaved client frames it: Content-Length absent (chunked) or equal to the body length -/
def HonestLength (r : Req) : Prop := r.contentLength = none ∨ r.contentLength = some r.wire.length

/-- FULL: every POST body longer than the cap on the wire is refused with 413 — chunked or not -/
def WireCapEnforced (process : Process) : Prop :=
  ∀ L cfg r c, cfg.cap = some c → r.verb = post → HonestLength r → c < r.wire.length →
    (process L cfg r).outcome = .status 413

/-- FULL: an uncoded (or `identity`) body within the cap reaches the RPC layer unchanged — chunked or not -/
def PlainDelivered (process : Process) : Prop :=
  ∀ L cfg r, HonestLength r → (∀ c, cfg.cap = some c → r.wire.length ≤ c) →
    (normalisedCoding r = [] ∨ Enc.ofValue (normalisedCoding r) = some .identity) →
    (process L cfg r).outcome = .toRpc r.wire

/-- FULL: a body in an enabled coding that is *not* a complete frame never reaches the RPC layer.  `Truncated F p x`: the
library shows a size-less zstd frame whose reader delivers the strict prefix `p` of `x` and then reports the end. -/
def TruncatedZ (F : ZFrame) (p x : Bytes) : Prop :=
  p.length < x.length ∧ p <+: x ∧ (∃ raw ∈ C18.Spec.libUnknownSizes, F.rawSize = some raw) ∧
    ∃ rem, C18.Spec.ReaderFor F.R rem ∧ rem F.s0 = p

def TruncatedRefused (process : Process) : Prop :=
  ∀ L cfg r c n p x, cfg.cap = some c → r.contentLength = some n → n ≤ c → x.length ≤ c →
    Enc.ofValue (normalisedCoding r) = some .zstd → cfg.decode.contains .zstd = true →
    TruncatedZ (L.zstdView (bounded r)) p x → (process L cfg r).outcome = .status 400

end VgiVerif.C17.Spec
