import VgiVerif.Prelude.HttpReq
/-
C15 spec — written from the property text and docs/WIRE_PROTOCOL.md §13 only.

"Every HTTP response on an RPC route is 200 for a dispatched call (carrying the error marker exactly when the
call failed), 400 for malformed IPC, missing or mismatched metadata, parameter or version rejections and bad
tokens, 401 for authentication failures, 404 for unknown methods, 413 for oversize bodies and 415 for a wrong
content type or unsupported content encoding.  No client-controlled input yields a 5xx, and every response other
than 401 and 415 has a decodable Arrow IPC body."

The property fixes a status per *defect*; it does not say which defect wins when a request has several.  The
spec therefore has two layers: `Allowed` (any status belonging to a defect the request really has — all the
property demands) and `specStatus` (the first defect in the order `defects` lists them — the precedence of the
reference implementation, which the stronger theorem `C15_table` pins).
-/
namespace VgiVerif.C15.Spec
open VgiVerif.HttpReq

/-- what can be wrong with a request, in the property's words -/
inductive Defect where
  | oversize           -- body larger than `VGI-Max-Request-Bytes` (on the wire, or after decoding)
  | badEncoding        -- unsupported `Content-Encoding`
  | undecodable        -- body does not decode with the named (supported) coding   (§13: 400)
  | authFailure
  | wrongContentType
  | unknownMethod
  | routeMismatch      -- stream method on the unary route / unary method on a stream route
  | malformed          -- malformed IPC, missing or mismatched metadata, parameter or version rejection
  | badToken           -- missing / tampered / unresolvable state token
deriving Repr, DecidableEq

def statusOf : Defect → Nat
  | .oversize => 413
  | .badEncoding => 415
  | .undecodable => 400
  | .authFailure => 401
  | .wrongContentType => 415
  | .unknownMethod => 404
  | .routeMismatch => 400
  | .malformed => 400
  | .badToken => 400

/-- a stream method is served on /init and /exchange, a unary method on the unary route -/
def routeFits : Route → MethodKind → Bool
  | .uploadUrl, _ => true        -- a literal route: the framework's own method, whatever the path segment would name
  | .unary, .unary => true
  | .unary, .describe => true    -- `__describe__` is a unary method
  | .init, .producer | .init, .exchanger => true
  | .exchange, .producer | .exchange, .exchanger => true
  | _, .unknown => true          -- an unknown method is `unknownMethod`, not a mismatch
  | _, _ => false

/-- is the body itself defective *for this route and method*?
    Request metadata (`vgi_rpc.method`, `request_version`, `protocol_version`) is part of unary and init
    requests only; an exchange request carries an input batch plus tokens.  A producer continuation's input
    is a tick whose columns are not looked at; `vgi_rpc.cancel` means something on /exchange only. -/
def bodyDefect (r : Route) (k : MethodKind) : Body → Bool
  | .valid => false
  | .cancel => false
  | .parseFail _ => true
  | .badMeta .protocolVersion =>
    -- the application-protocol version is not demanded of introspection (`__describe__` is how a mismatched client
    -- learns the server's version) nor of the framework's upload-URL method
    r != .exchange && r != .uploadUrl && k != .describe
  | .badMeta _ => r != .exchange
  | .badParams .mismatch => (r != .exchange || k == .exchanger) && r != .uploadUrl   -- upload-URL: one optional `count`, other columns ignored
  | .badParams .badNames => r != .exchange || k == .exchanger
  | .badValue _ => r != .exchange && r != .uploadUrl   -- typed parameters travel on unary and init requests only

/-- the defects of a request class, listed in the reference implementation's order of precedence -/
def defects (rq : Req) : List Defect :=
  (if rq.size = .oversize then [.oversize] else [])
  ++ (match rq.cenc with
      | .unsupported => [.badEncoding]
      | .corrupt => [.undecodable]
      | .bomb => [.oversize]
      | _ => [])
  ++ (if rq.auth = .rejected then [.authFailure] else [])
  ++ (if rq.ctype = .correct then [] else [.wrongContentType])
  ++ (if rq.route ≠ .uploadUrl ∧ rq.kind = .unknown then [.unknownMethod] else [])
  ++ (if routeFits rq.route rq.kind then [] else [.routeMismatch])
  ++ (match rq.body with
      | .parseFail _ => [.malformed]
      | _ => [])
  ++ (if rq.route = .exchange ∧ rq.token ≠ .valid then [.badToken] else [])
  ++ (match rq.body with
      | .parseFail _ => []
      | b => if bodyDefect rq.route rq.kind b then [.malformed] else [])

/-- a request without defects is a call that gets dispatched -/
def dispatched (rq : Req) : Bool := (defects rq).isEmpty

/-- does the dispatched call fail?  A method that raises fails; a result over `max_response_bytes` fails where
    the cap is hard (unary results and exchange turns — a producer's cap is soft, covered by continuation
    tokens, and an exchange stream's /init returns only tokens).  A cancel request dispatches nothing. -/
def failed (rq : Req) : Bool :=
  if rq.route = .exchange ∧ rq.body = .cancel then false
  else if rq.route ≠ .uploadUrl ∧ rq.kind = .describe then false     -- introspection runs no user code and has no cap
  else match rq.beh with
    | .ok => false
    | .raises | .turnRaises => true
    | .overshoot => rq.route = .unary || (rq.route = .exchange && rq.kind == .exchanger)

/-- all the property demands of the status -/
def Allowed (rq : Req) (status : Nat) : Prop :=
  if defects rq = [] then status = 200 else ∃ d ∈ defects rq, status = statusOf d

/-- the reference precedence: the first defect wins -/
def specStatus (rq : Req) : Nat :=
  match defects rq with
  | [] => 200
  | d :: _ => statusOf d

/-- "carrying the error marker exactly when the call failed" -/
def MarkerOk (rq : Req) (marker : Bool) : Prop := marker = true ↔ (dispatched rq = true ∧ failed rq = true)

/-- "every response other than 401 and 415 has a decodable Arrow IPC body" -/
def BodyOk (status : Nat) (arrowBody : Bool) : Prop := status ≠ 401 → status ≠ 415 → arrowBody = true

instance (rq : Req) (s : Nat) : Decidable (Allowed rq s) := by unfold Allowed; infer_instance
instance (rq : Req) (m : Bool) : Decidable (MarkerOk rq m) := by unfold MarkerOk; infer_instance
instance (s : Nat) (a : Bool) : Decidable (BodyOk s a) := by unfold BodyOk; infer_instance

end VgiVerif.C15.Spec
