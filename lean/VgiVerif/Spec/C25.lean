import VgiVerif.Model.C25
/-
C25 spec — from the property text and docs/sticky-sessions-spec.md §2.5, §3, §3.1, §6 only.

"A VGI-Session token gives access to its session only on the worker that minted it and only under the caller identity that
opened it, until the session is closed, evicted or expired.  Any other presentation (another worker, another identity,
tampered, closed or expired) gets a session_lost error without the method being dispatched, and DELETE of the session
endpoint returns 204 only for a live session owned by the caller and an indistinguishable 200 otherwise."
-/
namespace VgiVerif.C25.Spec
open VgiVerif.Sticky

/-- keys held by the workers -/
def serverKey (cfg : Nat → Cfg) (k : Nat) : Prop := ∃ i, (cfg i).key = k

/-- What anybody who is not a worker can put into a header (Dolev–Yao closure, DESIGN Appendix B): envelopes the workers
minted as session tokens, arbitrary bytes, envelopes sealed under keys the workers do not hold — and any of these with the
version byte changed (it is outside the AEAD). -/
inductive Known (mints : List Mint) (sk : Nat → Prop) : Tok → Prop
  | minted {m : Mint} : m ∈ mints → Known mints sk m.tok
  | raw (bs : Bytes) : Known mints sk (.raw bs)
  | ownSeal {k : Nat} {a : Bytes} {v n : Nat} {p : Bytes} : ¬ sk k → Known mints sk (.sealed k a v n p)
  | reversion {k : Nat} {a : Bytes} {v v' n : Nat} {p : Bytes} :
      Known mints sk (.sealed k a v n p) → Known mints sk (.sealed k a v' n p)

/-- a header value somebody can present -/
def Admissible {Wire : Type} (C : Codec Wire) (mints : List Mint) (sk : Nat → Prop) (w : Wire) : Prop :=
  ∀ t, C.dec w = some t → Known mints sk t

/-- identities are told apart by (domain, principal); the AAD layout needs a NUL-free domain for that -/
def NulFree : Identity → Prop
  | .anon => True
  | .user d _ => (0 : UInt8) ∉ d

/-- worker configuration the property presupposes: the `N` workers have ASCII, pairwise different server ids -/
structure GoodCfg (cfg : Nat → Cfg) (N : Nat) : Prop where
  ascii : ∀ i, i < N → ∀ b ∈ (cfg i).serverId, b.toNat < 128
  distinct : ∀ i j, i < N → j < N → (cfg i).serverId = (cfg j).serverId → i = j

/-- "the token gives access to its session": `w` is byte-for-byte a token minted by worker `wk` for identity `id`,
for a session that is in `wk`'s registry and has not expired -/
def Grants {Wire : Type} (C : Codec Wire) (n : Net) (wk : Nat) (id : Identity) (w : Wire) (e : Entry) : Prop :=
  ∃ m ∈ n.mints, w = C.enc m.tok ∧ m.wk = wk ∧ m.ident = id ∧ m.sid = e.sid ∧ e ∈ (n.regs wk).entries ∧ n.env.now ≤ e.expires

/-- side conditions of one history step (workers are numbered below `N`) -/
def OpOK {Wire : Type} (N : Nat) (n : Net) : Op Wire → Prop
  | .call wk rq script _ => wk < N ∧ NulFree rq.ident ∧ n.env.sidCtr + script.length ≤ 256 ^ 12   -- the 96-bit id space is not exhausted
  | _ => True

/-- states reachable from empty registries -/
inductive Reachable {Wire : Type} [DecidableEq Wire] (C : Codec Wire) (cfg : Nat → Cfg) (N : Nat) : Net → Prop
  | init (env : Env) : Reachable C cfg N { cfg := cfg, regs := fun _ => {}, env := env }
  | step {n : Net} (op : Op Wire) : Reachable C cfg N n → OpOK N n op → Reachable C cfg N (n.step C op).1

/-- the one answer every unsuccessful DELETE gets -/
def deleteMiss : Nat × Bool := (200, false)
def deleteHit : Nat × Bool := (204, true)

end VgiVerif.C25.Spec
