/-
C23 spec — written from the property text only:

"For any interleaving of concurrent verifications, a nonce that has been accepted is rejected for the
remainder of its skew window as long as fewer than capacity distinct nonces arrived in that window, and
the nonce cache never holds more than its capacity."

A *history* is the list of verifications in the order in which they took effect (for concurrent callers:
the order in which they entered the cache's critical section).  Each verification carries the clock
reading it used (`now`), its nonce, the answer it got (`res = true` = accepted) and — for concurrent
histories — the true time at which it took effect (`time`).  The skew window of a nonce accepted with
reading `t` is `[t, t + ttl)`.

Reading of "fewer than capacity distinct nonces arrived in that window": the nonces *other than the
replayed one* that arrived between the acceptance and the replay are drawn from fewer than `capacity`
distinct values (this is the weakest hypothesis, hence the strongest demand; it implies the reading
that also counts the replayed nonce itself).
-/
namespace VgiVerif.C23.Spec

/-- one verification as it took effect -/
structure Call where
  now : Int      -- the clock reading the verification used
  nonce : Nat
  res : Bool     -- true = accepted (fresh), false = rejected (replay)
  time : Int := now   -- true time at which it took effect (concurrent histories)
deriving Repr, DecidableEq

/-- remove duplicates (first occurrences from the right are kept; only the length matters) -/
def dedup : List Nat → List Nat
  | [] => []
  | x :: r => if x ∈ dedup r then dedup r else x :: dedup r

/-- the distinct nonces other than `n` that arrived in `mid` -/
def distinctOthers (n : Nat) (mid : List Call) : List Nat :=
  dedup ((mid.map (·.nonce)).filter (· ≠ n))

/-- **replay safety of a history**, clock readings possibly non-monotone: whenever the history splits as
`pre ++ a :: mid ++ b :: post` where `a` was accepted, `b` carries the same nonce, every clock reading
after `a` up to and including `b`'s is still inside `a`'s window, and fewer than `cap` distinct other
nonces arrived in between — then `b` was rejected. -/
def ReplaySafe (cap : Nat) (ttl : Int) (h : List Call) : Prop :=
  ∀ pre a mid b post, h = pre ++ a :: (mid ++ b :: post) →
    a.res = true → b.nonce = a.nonce →
    (∀ c ∈ mid ++ [b], c.now < a.now + ttl) →
    (distinctOthers a.nonce mid).length < cap →
    b.res = false

/-- **replay safety in true time** (concurrent callers, monotone true clock): as above, but the window
condition is only that the *true time at which `b` took effect* is still inside `a`'s window. -/
def ReplaySafeRT (cap : Nat) (ttl : Int) (h : List Call) : Prop :=
  ∀ pre a mid b post, h = pre ++ a :: (mid ++ b :: post) →
    a.res = true → b.nonce = a.nonce →
    b.time < a.now + ttl →
    (distinctOthers a.nonce mid).length < cap →
    b.res = false

/-- "the nonce cache never holds more than its capacity": every observed size is within the capacity -/
def SizeBounded (cap : Nat) (sizes : List Nat) : Prop := ∀ k ∈ sizes, k ≤ cap

/-- executable form of `ReplaySafe` (`rt = false`) / `ReplaySafeRT` (`rt = true`) for one chosen pair of
positions (used by the driver's monitor): `none` = the hypotheses do not apply, `some ok` = they apply and
`ok` tells whether `b` was rejected -/
def checkPair (rt : Bool) (cap : Nat) (ttl : Int) (a : Call) (mid : List Call) (b : Call) : Option Bool :=
  if a.res = true ∧ b.nonce = a.nonce
      ∧ (if rt then decide (b.time < a.now + ttl) else (mid ++ [b]).all (fun c => c.now < a.now + ttl)) = true
      ∧ (distinctOthers a.nonce mid).length < cap
  then some (b.res == false) else none

/-- pairs `(i, j)` with `a` at position `i` fixed, scanning `b` over the rest (`mid` accumulates reversed) -/
def scanPairs (rt : Bool) (cap : Nat) (ttl : Int) (i : Nat) (a : Call) : List Call → Nat → List Call → List (Nat × Nat)
  | _, _, [] => []
  | mid, j, b :: post =>
    (match checkPair rt cap ttl a mid.reverse b with
     | some false => [(i, j)]
     | _ => []) ++ scanPairs rt cap ttl i a (b :: mid) (j + 1) post

/-- all violating pairs `(i, j)` of a history (empty = the history is replay-safe) -/
def violationsFrom (rt : Bool) (cap : Nat) (ttl : Int) : Nat → List Call → List (Nat × Nat)
  | _, [] => []
  | i, a :: rest => scanPairs rt cap ttl i a [] (i + 1) rest ++ violationsFrom rt cap ttl (i + 1) rest

def violations (rt : Bool) (cap : Nat) (ttl : Int) (h : List Call) : List (Nat × Nat) := violationsFrom rt cap ttl 0 h

end VgiVerif.C23.Spec
