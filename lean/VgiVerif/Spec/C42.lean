/-
C42 spec — written from the property text only:

"For any number of concurrent first requests, a service's on_serve_start hook runs exactly once per
transport-kind binding before any method of that binding is dispatched.  If the hook raises, the binding
is not recorded and the next request runs it again."

What can be observed of a server, whatever its implementation:

  * the hook invocation log:   `hookOk k` / `hookRaise k`   (on_serve_start(k) returned / raised),
  * the recorded binding (`transport_kind`, `transport_capabilities`) and the moments it is written:
    `setKind k`, then `setCaps c` (which completes the binding),
  * the dispatch log:          `dispatch k c`  — a method ran and saw the recorded binding `(k, c)`
                                                 (`k = none`: it saw an unbound server).

Reading of the text as a safety monitor over such an event sequence (`Mon`, executable — the harness runs it
on the events of the real code, the theorem `C42_monitor` proves it for every run of the model):

  once      a hook success needs a *new* binding: no second success while the previous one has not been
            turned into a completed binding (`credit`), and the completed binding differs from the one that
            was recorded when the hook succeeded (so a server that is already bound to `b` does not run the
            hook again for `b`);
  before    the binding is written only after a hook success, for that kind (`setKind k` needs
            `credit = 1 ∧ okKind = k`): a raise records nothing, and whatever is dispatched under a recorded
            kind was preceded by the hook's success for it;
  dispatch  a method is dispatched only on a bound server, and it sees the recorded binding.

"The next request runs it again" is the per-call contract `CallOk`: a notification that obtains the lock
while the recorded binding is not its target runs the hook — whatever happened before (earlier raises
included); on success the binding is its target when it returns, on a raise the binding is what it was and
the caller gets the exception; a notification that finds its target recorded does nothing.
-/
namespace VgiVerif.C42.Spec

inductive Ev where
  | hookOk (k : Nat)
  | hookRaise (k : Nat)
  | setKind (k : Nat)
  | setCaps (c : Nat)
  | dispatch (k : Option Nat) (c : Nat)
deriving Repr, DecidableEq

/-- monitor state -/
structure Mon where
  kind : Option Nat := none            -- recorded kind
  caps : Nat := 0                      -- recorded capabilities
  credit : Nat := 0                    -- hook successes not yet turned into a completed binding
  okKind : Option Nat := none          -- argument of the pending success
  before : Option (Nat × Nat) := none  -- binding that was recorded when the pending success happened
deriving Repr, DecidableEq

/-- one event; `none` = the property is violated by this event -/
def Mon.step (m : Mon) : Ev → Option Mon
  | .hookOk k =>
    if m.credit = 0 then some { m with credit := 1, okKind := some k, before := m.kind.map (fun x => (x, m.caps)) }
    else none
  | .hookRaise _ => some m
  | .setKind k => if m.credit = 1 ∧ m.okKind = some k then some { m with kind := some k } else none
  | .setCaps c =>
    if m.credit = 1 ∧ m.kind = m.okKind ∧ m.kind.map (fun x => (x, c)) ≠ m.before then
      some { m with caps := c, credit := 0 }
    else none
  | .dispatch k c => if k ≠ none ∧ k = m.kind ∧ c = m.caps then some m else none

def Mon.runFrom : Mon → List Ev → Option Mon
  | m, [] => some m
  | m, e :: es =>
    match m.step e with
    | none => none
    | some m' => Mon.runFrom m' es

/-- the event sequence satisfies the property -/
def accepts (es : List Ev) : Bool := (Mon.runFrom {} es).isSome

/-- index of the first violating event -/
def rejectFrom : Mon → List Ev → Nat → Option Nat
  | _, [], _ => none
  | m, e :: es, i =>
    match m.step e with
    | none => some i
    | some m' => rejectFrom m' es (i + 1)

def rejectIndex (es : List Ev) : Option Nat := rejectFrom {} es 0

/-- one notification (`_notify_transport(target)` or the middleware's), as observed from outside -/
structure Call where
  target : Nat × Nat
  atAcq : Option (Nat × Nat)     -- recorded binding when the call obtained the lock
  ranHook : Bool
  hookOk : Bool
  atRel : Option (Nat × Nat)     -- recorded binding when the call released the lock
  returned : Bool                -- true = returned normally, false = raised
deriving Repr, DecidableEq

/-- the per-call contract ("the next request runs it again") -/
def CallOk (hookPresent : Bool) (c : Call) : Bool :=
  if c.atAcq = some c.target then !c.ranHook && c.returned && c.atRel == c.atAcq
  else
    (c.ranHook == hookPresent) &&
    (if c.ranHook && !c.hookOk then !c.returned && c.atRel == c.atAcq
     else c.returned && c.atRel == some c.target)

end VgiVerif.C42.Spec
