import VgiVerif.Spec.Engine
/-
C34 spec — written from the property text and docs/access-log-spec.md only:

"Every dispatched call — unary, stream init, each producer continuation or exchange turn, and each cancel — on any
 transport yields exactly one access-log record that validates against the published schema (including a non-empty
 error_message for any failure, whatever the exception text).  Its status matches the outcome the client observed, all
 records of one stream share one stream_id, and error_message carries the full server-side message."

The vocabulary: a *line* is what a log reader can see of one record; the *client's events* are what the caller of the
dispatch observed (`Engine.Ev`); an exception is `Engine.Exn` (class name, `str(exc)`, error kind).
Schema validity itself is `Model.SchemaOk` (the schema is data extracted from access_log.schema.json, not prose).
-/
namespace VgiVerif.C34.Spec
open VgiVerif.Engine

inductive Status where | ok | error
deriving Repr, DecidableEq

/-- the part of a record the property talks about -/
structure Line where
  status : Status
  errorType : Str
  errorMessage : Option Str
  streamId : Option Str
  cancelled : Bool
deriving Repr, DecidableEq

/-- §4.1 "Required and non-empty when status == error.  No length cap.  The full server-side message is reported":
the field is present and not empty, and it is `str(exc)` itself whenever `str(exc)` is not empty -/
def FullMessage (e : Exn) (l : Line) : Prop :=
  ∃ m, l.errorMessage = some m ∧ m ≠ [] ∧ (e.text ≠ [] → m = e.text)

/-- the record of a dispatch that failed with `e` -/
def ReportsError (l : Line) (e : Exn) : Prop :=
  l.status = .error ∧ l.errorType = e.type ∧ FullMessage e l

/-- the record of a dispatch that succeeded (§3: `error_type` is the empty string when `status == "ok"`) -/
def ReportsOk (l : Line) : Prop := l.status = .ok ∧ l.errorType = []

def sawNoError (evs : List Ev) : Prop := ∀ t m k, Ev.error t m k ∉ evs

/-- "its status matches the outcome the client observed": the caller saw no error and the line says ok, or the caller
saw the RPC error of an exception `e` and the line reports `e` -/
def Matches (l : Line) (evs : List Ev) : Prop :=
  (ReportsOk l ∧ sawNoError evs) ∨ (∃ e, errEv e ∈ evs ∧ ReportsError l e)

/-- "all records of one stream share one stream_id" -/
def OneStreamId (ls : List Line) : Prop := ∃ id, ∀ l ∈ ls, l.streamId = some id

/-- "exactly one access-log record" per dispatch: `n` dispatches, `n` lines -/
def ExactlyOnce (dispatches : Nat) (ls : List Line) : Prop := ls.length = dispatches

/-- §4.2 `cancelled`: present and true on the record of a cancel; §3 status enum; the client's `cancel()` returned -/
def ReportsCancel (l : Line) : Prop := l.cancelled = true ∧ ReportsOk l

/-- §1 / §5c "one record per line … records are independently parseable": the characters at which a reader that splits
the log into lines may cut — `str.splitlines()` (what the shipped validator `access_log_conformance.main` and the repository's
own readers use) splits at every one of these, not only at `\n` -/
def isLineBoundary (c : Char) : Bool :=
  c.toNat == 0x0a || c.toNat == 0x0d || c.toNat == 0x0b || c.toNat == 0x0c || c.toNat == 0x1c || c.toNat == 0x1d ||
    c.toNat == 0x1e || c.toNat == 0x85 || c.toNat == 0x2028 || c.toNat == 0x2029

/-- a written record is one physical line for every such reader -/
def OneLine (line : Str) : Prop := ∀ c ∈ line, isLineBoundary c = false

end VgiVerif.C34.Spec
