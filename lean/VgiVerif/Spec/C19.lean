import VgiVerif.Prelude.Codec
import VgiVerif.Prelude.PyStr
import VgiVerif.Prelude.HdrStr
/-
C19 spec — from the property text:
"the response coding is the first entry the server can produce in the client's preference order with the VGI header
taking precedence, no coding when identity comes first or nothing overlaps, announced on the header matching how it was
negotiated.  The decoded body the client sees is identical in every case."

Reading of a header value (RFC 9110 list syntax as far as the property's quantifier goes): comma-separated items; an
item is a coding name optionally followed by `;parameters`; surrounding whitespace is not significant; names are
case-insensitive; items that name no known coding offer nothing.
-/
namespace VgiVerif.C19.Spec
open VgiVerif.Codec VgiVerif.PyStr VgiVerif.HdrStr

/-- the coding one list item offers: drop the parameters, trim, compare case-insensitively -/
def recognise (item : List Char) : Option Enc :=
  let name := lower (strip (item.takeWhile (· != ';')))
  Enc.all.find? (fun e => e.value = name)

/-- the codings a header value offers, in order (duplicates kept) -/
def offered (h : List Char) : List Enc := (splitOn ',' h).filterMap recognise

/-- keep the first occurrence of every element (what "order preserved, duplicates dropped" means) -/
def dedupFirst (l : List Enc) : List Enc := l.foldl (fun out e => if out.contains e then out else out ++ [e]) []

/-- first entry of a preference list the server can produce (`identity` is always producible) -/
def firstProducible (pref : List Enc) (srv : List Enc) : Option Enc :=
  pref.find? (fun e => e == .identity || srv.contains e)

/-- the response coding for a preference list: none when identity comes first or nothing overlaps -/
def choose (pref : List Enc) (srv : List Enc) : Option Enc :=
  match firstProducible pref srv with
  | none => none
  | some .identity => none
  | some e => some e

/-- … for a pair of header values (absent = empty), VGI header first -/
def chosen (xVgiAcceptEncoding acceptEncoding : Option (List Char)) (srv : List Enc) : Option Enc :=
  choose (offered (xVgiAcceptEncoding.getD []) ++ offered (acceptEncoding.getD [])) srv

/-- which response header may announce coding `e`: the custom one only if the client offered `e` under the custom
request header and not under the standard one (DESIGN §7.3: offered under both → `Content-Encoding`) -/
def announceOnCustom (e : Enc) (xVgiAcceptEncoding acceptEncoding : Option (List Char)) : Prop :=
  e ∈ offered (xVgiAcceptEncoding.getD []) ∧ e ∉ offered (acceptEncoding.getD [])

end VgiVerif.C19.Spec
