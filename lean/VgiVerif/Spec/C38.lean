import VgiVerif.Prelude.PyFloat
/-
C38 spec — written from the property text only:

"For any sequence of connection errors, timeouts, pre-response disconnects and status codes, a retried request is
 sent at most max_retries+1 times, only after a retryable status, connection error, timeout or disconnect before any
 response byte, with every wait between 0 and backoff_max.  Stream exchange and cancel requests are sent at most
 once, except for a single resend after a 413 the server did not process."

The vocabulary is a *trace of transmissions*: what each transmission met and the wait that followed it.
-/
namespace VgiVerif.C38.Spec
open VgiVerif.PyFloat

/-- what one transmission of a request met -/
inductive Happened
  | connectError
  | timeout
  | disconnectBeforeResponse
  | otherError
  | status (code : Nat)
deriving DecidableEq, Repr

/-- one transmission and the wait before the next one (`none`: nothing was waited for) -/
structure Send where
  happened : Happened
  wait : Option F
deriving Repr

/-- the retry policy the caller configured -/
structure Policy where
  maxRetries : Nat
  backoffMax : Rat
  retryableStatus : List Nat
  retryOnConnectionError : Bool

/-- the transmission met something the policy allows a retry after -/
def Retryable (p : Policy) : Happened → Prop
  | .status c => c ∈ p.retryableStatus
  | .connectError => p.retryOnConnectionError = true
  | .timeout => p.retryOnConnectionError = true
  | .disconnectBeforeResponse => p.retryOnConnectionError = true
  | .otherError => False

/-- "sent at most max_retries+1 times" -/
def Bounded (p : Policy) (t : List Send) : Prop := t.length ≤ p.maxRetries + 1

/-- "only after a retryable status, connection error, timeout or disconnect before any response byte":
    every transmission that is followed by another one met something retryable -/
def ResendsJustified (p : Policy) (t : List Send) : Prop :=
  ∀ i s, i + 1 < t.length → t[i]? = some s → Retryable p s.happened

/-- "with every wait between 0 and backoff_max" (in particular a wait is a number) -/
def WaitsInRange (p : Policy) (t : List Send) : Prop :=
  ∀ s ∈ t, ∀ w, s.wait = some w → ∃ q : Rat, w = .fin q ∧ 0 ≤ q ∧ q ≤ p.backoffMax

/-- "sent at most once" -/
def AtMostOnce (t : List Happened) : Prop := t.length ≤ 1

/-- "sent at most once, except for a single resend after a 413" -/
def AtMostOnceBut413 (t : List Happened) : Prop :=
  t.length ≤ 2 ∧ (t.length = 2 → t.head? = some (.status 413))

end VgiVerif.C38.Spec
