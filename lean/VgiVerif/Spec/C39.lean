/-
C39 spec — written from the property text (and the field list of WIRE_PROTOCOL §14 / access-log-spec `protocol_hash`):

"For any service definition, the introspection response describes exactly its methods with their kinds, parameter and
result schemas, header schemas and exchange flags, and remains callable under a protocol-version mismatch.  The protocol
hash is identical across processes, server ids, docstrings and parameter defaults, and differs whenever any wire-relevant
detail differs."

`σ` is the type of Arrow schemas (abstract here).
-/
namespace VgiVerif.C39.Spec

inductive Kind where
  | unary | stream
deriving DecidableEq, Repr

/-- everything about one method that matters on the wire = what introspection must report -/
structure MethodView (σ : Type) where
  name : List Char
  kind : Kind
  hasReturn : Bool
  params : σ
  result : σ
  hasHeader : Bool
  header : Option σ
  isExchange : Option Bool      -- streams: exchange / producer / unknown; unary: none
deriving DecidableEq, Repr

/-- one method of a service definition, as the server knows it: wire-relevant part + what is *not* wire relevant -/
structure Method (σ : Type) where
  name : List Char
  kind : Kind
  hasReturn : Bool
  params : σ
  result : σ
  header : Option σ             -- schema of the declared header type, if any
  isExchange : Option Bool      -- the only thing the state class contributes (DESIGN §7.3)
  -- not wire relevant:
  doc : Option (List Char) := none
  paramDefaults : List (List Char × List Char) := []
  paramTypes : List (List Char × List Char) := []      -- Python type names
  paramDocs : List (List Char × List Char) := []

def Method.view {σ : Type} (m : Method σ) : MethodView σ :=
  { name := m.name, kind := m.kind, hasReturn := m.hasReturn, params := m.params, result := m.result,
    hasHeader := m.header.isSome, header := m.header, isExchange := m.isExchange }

/-- a service definition served by one server process -/
structure Service (σ : Type) where
  name : List Char                         -- protocol (class) name
  methods : List (Method σ)                -- the method table, in any order
  -- not wire relevant:
  serverId : List Char := []
  protocolVersion : Option (List Char) := none   -- application version; gates calls (C09) but is not part of the contract's identity

/-- the method table is a mapping: names are unique -/
def Service.WellFormed {σ : Type} (s : Service σ) : Prop := (s.methods.map (·.name)).Nodup

/-- two definitions agree in every wire-relevant detail: same protocol name and the same *set* of method views -/
def SameWire {σ : Type} (a b : Service σ) : Prop :=
  a.name = b.name ∧ ∀ v, v ∈ a.methods.map Method.view ↔ v ∈ b.methods.map Method.view

/-- what a client obtains from introspection -/
structure Description (σ : Type) where
  protocolName : List Char
  requestVersion : List Char
  describeVersion : List Char
  protocolHash : List Char
  serverId : List Char
  methods : List (List Char × MethodView σ)      -- mapping name ↦ description
  protocolVersion : List Char                     -- "" when the service declares none

/-- "describes exactly its methods with their kinds, schemas, header schemas and exchange flags" -/
def Describes {σ : Type} (d : Description σ) (s : Service σ) : Prop :=
  d.protocolName = s.name ∧ d.serverId = s.serverId ∧ d.protocolVersion = s.protocolVersion.getD [] ∧
  (d.methods.map (·.1)).Nodup ∧
  ∀ n v, (n, v) ∈ d.methods ↔ ∃ m ∈ s.methods, m.name = n ∧ m.view = v

/-- introspection (`describe` = client-side parse of the server-built response) is faithful -/
def Faithful {σ ε : Type} (accepted : Service σ → Prop) (describe : Service σ → Except ε (Description σ)) : Prop :=
  ∀ s, s.WellFormed → accepted s → ∃ d, describe s = .ok d ∧ Describes d s

/-- the hash is a function of the wire-relevant details only (server id, docs, defaults, process are not inputs) -/
def Stable {σ H : Type} (hash : Service σ → H) : Prop :=
  ∀ a b, a.WellFormed → b.WellFormed → SameWire a b → hash a = hash b

/-- the hash differs whenever any wire-relevant detail differs — FULL statement (every service the server accepts) -/
def Sensitive {σ H : Type} (accepted : Service σ → Prop) (hash : Service σ → H) : Prop :=
  ∀ a b, a.WellFormed → b.WellFormed → accepted a → accepted b → hash a = hash b → SameWire a b

end VgiVerif.C39.Spec
