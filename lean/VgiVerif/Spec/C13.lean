/-
C13 spec — written from the property text only:

"A continuation, exchange or cancel is accepted only at the exchange endpoint of the stream method whose
 initialization minted its tokens.  Presenting one method's tokens to another method's endpoint is rejected, so a
 method never processes state that its own initialization did not produce."
-/
namespace VgiVerif.C13.Spec

/-- a stream as the property sees it: the method whose `/init` started it, and the tokens minted during its life -/
structure StreamTokens (M : Type) where
  method : M
  callId : List UInt8
  texts : List (List UInt8)        -- every cursor / call token text minted for this stream

/-- accepted at `endpoint` ⇒ the presented tokens belong to a stream that `endpoint`'s own `/init` started,
    and the state the method is about to process is one that stream produced -/
def AcceptedOnlyAtMintingMethod {M : Type} (streams : List (StreamTokens M)) (endpoint : M)
    (cursorText : List UInt8) : Prop :=
  ∃ s ∈ streams, s.method = endpoint ∧ cursorText ∈ s.texts

end VgiVerif.C13.Spec
