import VgiVerif.Prelude.Codec
/-
C18 spec — from the property text:
"For every byte string, codec (zstd, gzip, identity) and level, decompressing the compressed form returns the
original bytes.  With an output cap, decompression returns the original exactly when its length is within the cap
and otherwise fails with the limit error, for both size-declaring and streaming (size-less) frames."

The compression libraries are environment.  What is assumed of them is written here as predicates over the
environment structures (never as axioms): the contract of a streaming reader, of a zstd frame of plaintext `x`
(size-declaring or size-less) and of a zlib decompress object fed a gzip member of plaintext `x`.
-/
namespace VgiVerif.C18.Spec
open VgiVerif.Codec

/-- the property for one decode function (cap ↦ outcome) and the plaintext `x` of the frame it is given -/
def CapCorrect (dec : Option Nat → Res) (x : Bytes) : Prop :=
  dec none = .ok x ∧ ∀ cap : Nat, dec (some cap) = if x.length ≤ cap then .ok x else .limit

/-- Reader contract: `rem s` is the plaintext not yet returned.  A request of `n ≥ 1` bytes returns a prefix of it of
length ≤ n, non-empty unless nothing is left. -/
def ReaderFor (R : Reader) (rem : R.σ → Bytes) : Prop :=
  ∀ s n, 1 ≤ n → ∃ c s', R.read s n = some (c, s') ∧ c ++ rem s' = rem s ∧ c.length ≤ n ∧ (rem s ≠ [] → c ≠ [])

/-- the values python-zstandard reports for "content size not stored in the frame" (`ZSTD_CONTENTSIZE_UNKNOWN` as
unsigned; `-1` in older releases) -/
def libUnknownSizes : List Int := [-1, 18446744073709551615]

/-- `F` is how the library shows a zstd frame of plaintext `x`: the content size is either not stored (streaming
compressor) or is `|x|` (one-shot compressor); the one-shot API works when it is stored; the streaming reader works
for both kinds. -/
def HonestZ (F : ZFrame) (x : Bytes) : Prop :=
  ∃ raw, F.rawSize = some raw ∧ (raw ∈ libUnknownSizes ∨ raw = (x.length : Int)) ∧
    (raw ∉ libUnknownSizes → F.oneShot = some x) ∧
    F.readAll = some x ∧
    ∃ rem, ReaderFor F.R rem ∧ rem F.s0 = x

/-- `G` is a fresh `zlib.decompressobj(31)` about to be fed one complete gzip member of plaintext `x`.
`rem s` = plaintext not yet returned; `fed s` = the input has been handed over.
* `decompress(inbuf, n)` returns a prefix (≤ n) of what is left; an empty chunk means all input was consumed or the end
  of the member was reached;
* `decompress(data)` returns output and leaves no unconsumed tail;
* once the input is in and no tail is left (or the end of the member was reached), `flush()` returns whatever plaintext
  is still pending and `eof` is set. -/
def HonestG (G : GFrame) (x : Bytes) : Prop :=
  G.nonempty = true ∧ G.Z.hasTail G.s0 = false ∧
  ∃ (rem : G.Z.σ → Bytes) (fed : G.Z.σ → Prop), rem G.s0 = x ∧
    (∀ s f n, 1 ≤ n → ∃ c s', G.Z.dec s f n = some (c, s') ∧ c ++ rem s' = rem s ∧ c.length ≤ n ∧ fed s' ∧
        (c = [] → G.Z.hasTail s' = false ∨ G.Z.eof s' = true)) ∧
    (∀ s, ∃ c s', G.Z.decAll s = some (c, s') ∧ c ++ rem s' = rem s ∧ fed s' ∧ G.Z.hasTail s' = false) ∧
    (∀ s, fed s → (G.Z.hasTail s = false ∨ G.Z.eof s = true) → ∃ s', G.Z.flush s = some (rem s, s') ∧ G.Z.eof s' = true)

/-- the libraries round-trip: what a compressor emits is seen as an honest frame of its input -/
def HonestLibs (L : Libs) : Prop :=
  (∀ lvl x, HonestZ (L.zstdView (L.zstdCompress lvl x)) x) ∧ (∀ lvl x, HonestG (L.gzipView (L.gzipCompress lvl x)) x)

/-- weak contracts, enough for the allocation bound and for termination (no honesty about *what* is decoded):
the library never returns more than it was asked for … -/
def BoundedReads (R : Reader) : Prop := ∀ s n c s', R.read s n = some (c, s') → c.length ≤ n
def BoundedDec (Z : ZObj) : Prop := ∀ s f n c s', Z.dec s f n = some (c, s') → c.length ≤ n
/-- … and a decompress object that produced nothing has consumed its input or stands at the end of the member (zlib stops
only on full output, empty input or end of stream).  CPython keeps a stale non-empty `unconsumed_tail` once `eof` is
set and more input is offered, so "no tail" alone is **not** true of the real library. -/
def NoStall (Z : ZObj) : Prop :=
  ∀ s f n c s', Z.dec s f n = some (c, s') → c = [] → Z.hasTail s' = false ∨ Z.eof s' = true

end VgiVerif.C18.Spec
