/-
C09 spec — written from the property text only:
"every call except introspection is dispatched iff the client declared a canonical
MAJOR.MINOR.PATCH version with the same major and minor".
-/
namespace VgiVerif.C09.Spec

def IsDigit (c : Char) : Prop := 48 ≤ c.toNat ∧ c.toNat ≤ 57

/-- canonical decimal numeral: `0`, or a non-zero ASCII digit followed by ASCII digits -/
def CanonNum (s : List Char) : Prop :=
  s = ['0'] ∨ ∃ h t, s = h :: t ∧ 49 ≤ h.toNat ∧ h.toNat ≤ 57 ∧ ∀ x ∈ t, IsDigit x

/-- value of an ASCII decimal numeral -/
def decVal (s : List Char) : Nat := s.foldl (fun a c => a * 10 + (c.toNat - 48)) 0

/-- `s` is the canonical text of version `a.b.c` -/
def CanonVersion (s : List Char) (a b c : Nat) : Prop :=
  ∃ A B C, CanonNum A ∧ CanonNum B ∧ CanonNum C ∧ s = A ++ '.' :: (B ++ '.' :: C)
    ∧ decVal A = a ∧ decVal B = b ∧ decVal C = c

def describeName : List Char := "__describe__".toList

end VgiVerif.C09.Spec
