import VgiVerif.Prelude.PyVal
import VgiVerif.Spec.C03
import VgiVerif.Prelude.RpcTy
/-
C02 spec — from the property text:

"For every parameter and return type the framework supports (integers and floats at their declared Arrow widths, strings,
bytes, booleans, optionals, enums, lists, maps and sets of scalars, nested serializable dataclasses, temporal and decimal
types) and every value of that type, an echo call returns a value equal to the one passed, over every transport.  A value
the declared type cannot represent is rejected with an error rather than silently changed."

Reading fixed here (DESIGN §7.3): "equal" for a float declared float32 is bit equality after rounding to binary32 (`norm`);
a Decimal comes back at the declared scale (numerically equal); a dataclass comes back as C03 specifies (`C03.normF`).
Container elements are scalars (`plain`): the conversion layer is shallow by design.
-/
namespace VgiVerif.C02
open VgiVerif.Py

def notNone : V → Bool
  | .none => false
  | _ => true

/-- numerically equal temporal / decimal values (a Decimal is coefficient × 10^exponent) -/
def nativeSame (k : Nat) (a b a' b' : Int) : Bool :=
  if k = 5 then
    let m := min b b'
    decide (a * (10 : Int) ^ (b - m).toNat = a' * (10 : Int) ^ (b' - m).toNat)
  else decide (a = a') && decide (b = b')

/-- `v` has the Python type `t` names (shape only; a set / the keys of a dict are pairwise distinct and a key is not
None, as in any real Python value; a dataclass instance is an instance in the sense of C03) -/
def wellTyped (env : Env) : Ty → V → Bool
  | .int _, .int _ => true
  | .f64, .float _ => true
  | .f32, .float _ => true
  | .str, .str _ => true
  | .bytes, .bytes _ => true
  | .bool, .bool _ => true
  | .enum names, .enum n => names.contains n
  | .native k _ _, .native k' _ _ => k == k'
  | .opt _, .none => true
  | .opt t, v => wellTyped env t v
  | .list t, .list xs => xs.all (wellTyped env t)
  | .set t, .set xs => xs.all (wellTyped env t) && pyDistinct xs
  | .map k w, .dict kvs => kvs.all (fun p => wellTyped env k p.1 && wellTyped env w p.2 && notNone p.1) && pyDistinct (kvs.map Prod.fst)
  | .dc n fs, .obj n' ofs => n == n' && C03.inhabitsF env fs ofs
  | _, _ => false

/-- `v` is a value of type `t` that the declared Arrow type represents: ints inside the declared width, temporal /
decimal values the column stores without changing them -/
def inhabits (env : Env) : Ty → V → Bool
  | .int w, .int i => w.fits i
  | .f64, .float _ => true
  | .f32, .float _ => true
  | .str, .str _ => true
  | .bytes, .bytes _ => true
  | .bool, .bool _ => true
  | .enum names, .enum n => names.contains n
  | .native k p s, .native k' a b =>
    k == k' && (match env.native k p s a b with
      | some (a', b') => nativeSame k a b a' b'
      | Option.none => false)
  | .opt _, .none => true
  | .opt t, v => inhabits env t v
  | .list t, .list xs => xs.all (inhabits env t)
  | .set t, .set xs => xs.all (inhabits env t) && pyDistinct xs
  | .map k w, .dict kvs => kvs.all (fun p => inhabits env k p.1 && inhabits env w p.2 && notNone p.1) && pyDistinct (kvs.map Prod.fst)
  | .dc n fs, .obj n' ofs => n == n' && C03.inhabitsF env fs ofs
  | _, _ => false

/-- what an echo is specified to return -/
def norm (env : Env) : Ty → V → V
  | _, .none => .none
  | .opt t, v => norm env t v
  | .f32, .float b => .float (env.round32 b)
  | .native k p s, .native k' a b =>
    match env.native k p s a b with
    | some (a', b') => .native k' a' b'
    | Option.none => .native k' a b
  | .list t, .list xs => .list (xs.map (norm env t))
  | .set t, .set xs => .set (dedup (xs.map (norm env t)))
  | .map k w, .dict kvs => .dict (dictOfPairs (kvs.map (fun p => (norm env k p.1, norm env w p.2))))
  | .dc _ fs, .obj n ofs => .obj n (C03.normF env fs ofs)
  | _, v => v

/-- scalar element types (what "lists, maps and sets of scalars" ranges over), closed under Optional and list -/
def plain : Ty → Bool
  | .int _ | .f64 | .f32 | .str | .bytes | .bool | .native _ _ _ => true
  | .opt t => plain t && !isOpt t
  | .list t => plain t
  | _ => false

/-- the supported parameter / result types -/
def supported : Ty → Bool
  | .opt t => supported t && !isOpt t
  | .list t => plain t
  | .set t => plain t
  | .map k w => plain k && plain w
  | .dc _ fs => C03.supportedF fs
  | _ => true

/-- every temporal / decimal value inside `v` is stored unchanged by its column if it is accepted at all (true of dates,
microsecond units and decimals whose coefficient fits 128 bits; false of second / millisecond units, which truncate, and of
39-digit decimal coefficients, which pyarrow wraps) -/
def lossless (env : Env) : Ty → V → Prop
  | .native k p s, .native _ a b => ∀ a' b', env.native k p s a b = some (a', b') → nativeSame k a b a' b' = true
  | .opt t, v => lossless env t v
  | .list t, .list xs => ∀ x ∈ xs, lossless env t x
  | .set t, .set xs => ∀ x ∈ xs, lossless env t x
  | .map k w, .dict kvs => ∀ p ∈ kvs, lossless env k p.1 ∧ lossless env w p.2
  | _, _ => True

namespace Spec

/-- a value of the type arrives equal (one hop: the kwargs the implementation receives) -/
def Arrives (env : Env) (send : Ty → V → R V) : Prop :=
  ∀ t v, supported t = true → inhabits env t v = true → send t v = .ok (norm env t v)

/-- an echo returns a value equal to the one passed (two hops) -/
def Echoes (env : Env) (echo : Ty → V → R V) : Prop :=
  ∀ t v, supported t = true → inhabits env t v = true → echo t v = .ok (norm env t v)

/-- a value of the Python type that the declared type cannot represent is rejected, never changed -/
def Rejects (env : Env) (send : Ty → V → R V) : Prop :=
  ∀ t v, supported t = true → wellTyped env t v = true → inhabits env t v = false → ∃ e, send t v = .error e

end Spec
end VgiVerif.C02
