import VgiVerif.Model.Engine
/-
C07 — implementation errors reach the client faithfully.  Written from the property text:

  "Any exception raised by a service implementation during a unary call, stream initialization or stream processing
   reaches the client as an RPC error whose type is the exception's class name, whose message carries the exception
   text and whose error kind is carried and exposed for the typed framework errors.  Over HTTP such a response has
   status 200 with the error marker header, and a successful response never carries that marker."
-/
namespace VgiVerif.C07.Spec
open VgiVerif.Engine (Str)

/-- what the client exposes of a remote error (`RpcError.error_type / error_message / error_kind`) -/
structure ClientError where
  type : Str
  message : Str
  kind : Option Str

/-- the raised exception: class name, `str(exc)`, and the error kind it declares (a `str` class attribute) if any -/
structure Raised where
  className : Str
  text : Str
  declaredKind : Option Str

/-- the error is faithful: type = class name, the message carries the text, the declared kind is exposed (and no
kind is invented when none is declared) -/
structure Faithful (e : Raised) (c : ClientError) : Prop where
  type_eq : c.type = e.className
  carries : e.text <:+: c.message
  kind_eq : c.kind = e.declaredKind

/-- an HTTP response as far as the property talks about it -/
structure HttpResp where
  status : Nat
  marker : Bool

/-- a call whose implementation raised answers 200 + marker; a successful one never carries the marker -/
def HttpFaithful (implRaised : Bool) (r : HttpResp) : Prop :=
  (implRaised = true → r.status = 200 ∧ r.marker = true) ∧ (implRaised = false → r.marker = false)

end VgiVerif.C07.Spec
