/-
C28 spec — written from the property text only:

"For any sequence of allocations of arbitrary positive sizes and frees of allocated offsets, the
allocation table stays sorted, non-overlapping, within the segment's data region and within the
4094-entry limit, and an allocation fails only when no gap is large enough.  A batch written into
shared memory never extends beyond its own allocation, so writing one batch never alters another
live batch."

A table is the list of `(offset, length)` pairs stored in the segment header; the data region is
`[header, total)`; memory is a function from byte index to byte.
-/
namespace VgiVerif.C28.Spec

/-- the allocation table as stored in the header: `(offset, length)` pairs in table order -/
abbrev Table := List (Nat × Nat)

/-- a segment's bytes -/
abbrev Mem := Nat → UInt8

/-- strictly increasing offsets -/
def Sorted (t : Table) : Prop := t.Pairwise (fun a b => a.1 < b.1)

/-- an earlier entry ends before a later one starts -/
def NonOverlap (t : Table) : Prop := t.Pairwise (fun a b => a.1 + a.2 ≤ b.1)

/-- every entry is a non-empty region inside the data region `[lo, hi)` -/
def Within (lo hi : Nat) (t : Table) : Prop := ∀ e ∈ t, lo ≤ e.1 ∧ e.1 + e.2 ≤ hi ∧ 0 < e.2

/-- the table invariant of the property -/
structure Inv (header total maxAllocs : Nat) (t : Table) : Prop where
  sorted : Sorted t
  nonOverlap : NonOverlap t
  within : Within header total t
  count : t.length ≤ maxAllocs

/-- the free gaps `(start, size)` of a table, in address order: before the first entry, between
    neighbours, and from the last entry to the end of the segment (sizes may be 0) -/
def gapsFrom (total : Nat) : Nat → Table → List (Nat × Nat)
  | lo, [] => [(lo, total - lo)]
  | lo, (o, l) :: r => (lo, o - lo) :: gapsFrom total (o + l) r

def gaps (header total : Nat) (t : Table) : List (Nat × Nat) := gapsFrom total header t

/-- byte `i` lies in the region `[o, o + l)` -/
def InRegion (o l i : Nat) : Prop := o ≤ i ∧ i < o + l

/-- two regions share no byte -/
def Disjoint (o l o' l' : Nat) : Prop := o + l ≤ o' ∨ o' + l' ≤ o

/-- nothing outside `[o, o + l)` differs between `m` and `m'` -/
def UnchangedOutside (m m' : Mem) (o l : Nat) : Prop := ∀ i, ¬ InRegion o l i → m' i = m i

/-- every byte of every region of `t` is the same in `m` and `m'` ("no live batch is altered") -/
def LivePreserved (t : Table) (m m' : Mem) : Prop := ∀ e ∈ t, ∀ i, InRegion e.1 e.2 i → m' i = m i

/-- `t'` is `t` with the one entry `e` added (as a multiset; the order is fixed by `Sorted`) -/
def Inserted (t : Table) (e : Nat × Nat) (t' : Table) : Prop := t'.Perm (e :: t)

end VgiVerif.C28.Spec
