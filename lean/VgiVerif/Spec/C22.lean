import VgiVerif.Prelude.ProxyProofTypes
import VgiVerif.Prelude.PyStr
import VgiVerif.Prelude.Base64
/-
C22 spec — written from docs/proxy-proof-spec.md (§3 token format, §4 canonical string, §6 verifier
table, §9 attribution, §10 replay cache) and the property text only; nothing here looks at the code
or at the extracted regexes.

"the verifier accepts exactly the proofs the nine-step table accepts and otherwise reports the reason
code of the first failing step".
-/
namespace VgiVerif.C22.Spec
open VgiVerif.PP VgiVerif.PyStr

/-! ### §3 field charsets -/

def isDigit (c : Char) : Bool := decide (48 ≤ c.toNat ∧ c.toNat ≤ 57)

/-- `[A-Za-z0-9_-]` -/
def isUrlSafe (c : Char) : Bool :=
  decide ((65 ≤ c.toNat ∧ c.toNat ≤ 90) ∨ (97 ≤ c.toNat ∧ c.toNat ≤ 122) ∨ (48 ≤ c.toNat ∧ c.toNat ≤ 57)
    ∨ c.toNat = 95 ∨ c.toNat = 45)

/-- letters, digits and `. _ : / -` (§4, `origin_id`) -/
def isOriginChar (c : Char) : Bool :=
  decide ((65 ≤ c.toNat ∧ c.toNat ≤ 90) ∨ (97 ≤ c.toNat ∧ c.toNat ≤ 122) ∨ (48 ≤ c.toNat ∧ c.toNat ≤ 57)
    ∨ c.toNat = 46 ∨ c.toNat = 95 ∨ c.toNat = 58 ∨ c.toNat = 47 ∨ c.toNat = 45)

/-- `kid`: `[A-Za-z0-9_-]{1,64}` -/
def kidOk (s : Str) : Bool := decide (1 ≤ s.length ∧ s.length ≤ 64) && s.all isUrlSafe
/-- `ts`: `[0-9]{1,20}` -/
def tsOk (s : Str) : Bool := decide (1 ≤ s.length ∧ s.length ≤ 20) && s.all isDigit
/-- `nonce`: base64url, unpadded, 22 chars -/
def nonceOk (s : Str) : Bool := decide (s.length = 22) && s.all isUrlSafe
/-- `mac`: base64url, unpadded, 43 chars -/
def macOk (s : Str) : Bool := decide (s.length = 43) && s.all isUrlSafe
/-- `origin_id`: 1 to 255 origin characters -/
def originOk (s : Str) : Bool := decide (1 ≤ s.length ∧ s.length ≤ 255) && s.all isOriginChar

/-- the version tag -/
def v1 : Str := ['v', '1']

/-- length of a header value in bytes -/
def byteLen (s : Str) : Nat := (utf8 s).length

/-! ### §4 canonical string -/

/-- `b"vgi.proxy.proof.v1\x00" + kid + b"\x00" + ts + b"\x00" + nonce + b"\x00" + origin_id` -/
def canonical (kid ts nonce origin : Str) : Bytes :=
  utf8 "vgi.proxy.proof.v1".toList ++ [0] ++ utf8 kid ++ [0] ++ utf8 ts ++ [0] ++ utf8 nonce ++ [0] ++ utf8 origin

/-! ### §10 replay cache, as far as step 9 needs it -/

/-- entries still inside the window at cache time `t` -/
def live (t : Int) (es : List (Str × Int)) : List (Str × Int) := es.filter (fun e => decide (e.2 > t))

/-- "nonce already seen within the window" -/
def seen (st : NonceState) (t : Int) (nonce : Str) : Bool := (live t st.entries).any (fun e => e.1 == nonce)

/-- forgetting expired entries is unobservable -/
def purge (st : NonceState) (t : Int) : NonceState := { st with entries := live t st.entries }

/-- remember an accepted nonce; on overflow the oldest entries go ("SHOULD evict oldest") -/
def remember (st : NonceState) (t : Int) (nonce : Str) : NonceState :=
  let l := live t st.entries
  { st with entries := l.drop (l.length + 1 - st.capacity) ++ [(nonce, t + st.ttl)] }

/-! ### §9 attribution -/

def okClaims (label kid origin : Str) : Claims :=
  [("verified".toList, "true".toList), ("proxy".toList, label), ("kid".toList, kid),
   ("origin_id".toList, origin), ("reason".toList, "ok".toList)]

/-- §3: the header value a proxy mints: `v1.<kid>.<ts>.<nonce>.<base64url(mac)>` -/
def mintedToken (kid ts nonce : Str) (mac : Bytes) : Str :=
  v1 ++ '.' :: (kid ++ '.' :: (ts ++ '.' :: (nonce ++ '.' :: Base64.encode mac)))

/-! ### §6 the table -/

/-- The verifier table.  `vals` are the header instances the request carries (`[]` = header absent),
`now` the wall clock in Unix seconds, `st` the replay cache (`none` = disabled) read at cache time `t`.
Returns the result and the cache afterwards. -/
def table (hmac : Hmac) (cfg : Config) (vals : List Str) (now : Int) (st : Option NonceState) (t : Int) :
    Result × Option NonceState :=
  match vals with
  | [] => (.err .noProof, st)                                                        -- 1  header absent
  | _ :: _ :: _ => (.err .malformed, st)                                             -- 2  more than one instance
  | [v] =>
    if v = [] ∨ byteLen v > 512 then (.err .malformed, st)                           -- 2  empty, or > 512 bytes
    else match splitOn '.' v with
      | [f0, kid, ts, nonce, mac] =>
        if f0 ≠ v1 then (.err .malformed, st)                                        -- 3  field 0 ≠ v1
        else if !(kidOk kid && tsOk ts && nonceOk nonce && macOk mac) then (.err .malformed, st)   -- 4  charsets
        else match cfg.keys.lookup kid with
          | none => (.err .unknownKid, st)                                           -- 5
          | some (secret, label) =>
            if now - (decVal ts : Int) > cfg.skew then (.err .expired, st)           -- 6
            else if (decVal ts : Int) - now > cfg.skew then (.err .notYetValid, st)  -- 7
            else if Base64.decode mac ≠ some (hmac secret (canonical kid ts nonce cfg.origin)) then
              (.err .badMac, st)                                                     -- 8
            else match st with
              | none => (.ok (okClaims label kid cfg.origin), none)
              | some c =>
                if seen c t nonce then (.err .replayed, some (purge c t))            -- 9
                else (.ok (okClaims label kid cfg.origin), some (remember c t nonce))
      | _ => (.err .malformed, st)                                                   -- 3  not exactly 5 fields

/-- a history of requests against one worker: results in order, and the cache at the end -/
def runTable (hmac : Hmac) (cfg : Config) : Option NonceState → List Req → List Result × Option NonceState
  | st, [] => ([], st)
  | st, r :: rs =>
    let step := table hmac cfg r.vals r.now st r.mono
    let rest := runTable hmac cfg step.2 rs
    (step.1 :: rest.1, rest.2)

/-- the cache clock never goes backwards along a history that starts at cache time `t0` -/
def ClockMonotone (t0 : Int) : List Req → Prop
  | [] => True
  | r :: rs => t0 ≤ r.mono ∧ ClockMonotone r.mono rs

/-- the seven reason codes of the table -/
def reasons : List Reason := [.noProof, .malformed, .unknownKid, .expired, .notYetValid, .badMac, .replayed]

end VgiVerif.C22.Spec
