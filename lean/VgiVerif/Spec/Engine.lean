import VgiVerif.Model.Engine
/-
Engine spec — what a client must observe for a call, written from the property texts:
 C08 every emitted log is delivered once, in order, before the batch it precedes;
 C10 the client receives exactly the emitted batches, ending when the producer finishes (emit+finish still delivers),
     an exchange yields one output per input and refuses finish;
 C07 an exception reaches the client as an RPC error (class name, text, kind);
 C01 the observation — data sequence, log sequence, header, value, terminal event — is the same on every transport.
-/
namespace VgiVerif.Engine
namespace Sem

def lg (ls : List Log) : List Ev := ls.map .log

/-- The logs a failing `process()` call emitted before it failed are delivered (C08: *every* emitted log).  The `keep`
flag is historical: the pinned tree discarded them (`keep = false` then meant "as built"); since the repair
(known_findings/C08.json) as-built and as-specified coincide and the flag is ignored. -/
def failLogs (_keep : Bool) (s : Step) : List Ev := lg s.logs

/-- a producer stream iterated to its end -/
def producer (keep : Bool) : List Step → List Ev
  | [] => [.fin]
  | s :: r =>
    match s.act with
    | .emit b => lg s.logs ++ [.data b] ++ lg s.post ++ producer keep r
    | .finish => lg s.logs ++ lg s.post ++ [.fin]
    | .emitFinish b => lg s.logs ++ [.data b] ++ lg s.post ++ [.fin]
    | .raise e => failLogs keep s ++ [errEv e]
    | .nothing => failLogs keep s ++ [errEv noDataExn]

/-- an exchange session fed one input per step, then closed -/
def exchange (keep : Bool) : List Step → List Ev
  | [] => []
  | s :: r =>
    match s.act with
    | .emit b => lg s.logs ++ [.data b] ++ lg s.post ++ exchange keep r
    | .finish => failLogs keep s ++ lg s.post ++ [errEv finishOnExchangeExn]
    | .emitFinish _ => failLogs keep s ++ lg s.post ++ [errEv finishOnExchangeExn]
    | .raise e => failLogs keep s ++ [errEv e]
    | .nothing => failLogs keep s ++ [errEv noDataExn]

def unary (logs : List Log) (out : Except Exn Nat) : List Ev :=
  lg logs ++ [match out with | .ok v => .value v | .error e => errEv e]

end Sem

/-! ### Observation = the components the property lists, each in order -/

def logsOf (evs : List Ev) : List Log := evs.filterMap fun | .log l => some l | _ => none
def datasOf (evs : List Ev) : List Batch := evs.filterMap fun | .data b => some b | _ => none
/-- values, headers, errors and end-of-stream markers, in order -/
def restOf (evs : List Ev) : List Ev := evs.filter fun | .log _ => false | .data _ => false | _ => true

structure Obs where
  logs : List Log
  datas : List Batch
  rest : List Ev
deriving Repr, DecidableEq

def obs (evs : List Ev) : Obs := ⟨logsOf evs, datasOf evs, restOf evs⟩

/-- no step that fails has emitted logs (the hypothesis under which "as built" equals the property as stated) -/
def FailStepsLogFree (steps : List Step) : Prop :=
  ∀ s ∈ steps, (match s.act with | .raise _ => True | .nothing => True | _ => False) → s.logs = []

end VgiVerif.Engine
