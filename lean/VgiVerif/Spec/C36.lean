import VgiVerif.Prelude.Introspect
/-
C36 spec — from the property text and docs/WIRE_PROTOCOL.md §16:

"For any caller identity, request body and resolver behaviour, the introspection endpoint answers 403 to every
caller outside the allowlist, a byte-identical 404 to malformed, unknown and JWS-shaped subjects (the last without
consulting the resolver), 503 with Retry-After when the resolver reports unavailability, and otherwise exactly
principal, token_name and a finite positive ttl_seconds.  The subject credential never appears in any response,
and a worker without introspection answers a definitive 404."
-/
namespace VgiVerif.C36.Spec
open VgiVerif.Introspect

/-- allow-listed *and* authenticated -/
def Authorized (cfg : Cfg) (c : Caller) : Prop := c.authenticated = true ∧ c.principal ∈ cfg.allow

/-- the caller's principal is one of the names the operator configured: a non-empty string that occurs, as written,
among the configured entries.  A blank entry (e.g. from a trailing comma) names nobody; a caller that authenticated
without a principal (`None` / `""`) is named by no entry. -/
def Listed (configured : List (List Char)) (principal : List Char) : Prop := principal ≠ [] ∧ principal ∈ configured

/-- base64url alphabet -/
def B64Url (c : Char) : Prop :=
  (65 ≤ c.toNat ∧ c.toNat ≤ 90) ∨ (97 ≤ c.toNat ∧ c.toNat ≤ 122) ∨ (48 ≤ c.toNat ∧ c.toNat ≤ 57) ∨ c = '_' ∨ c = '-'

/-- three dot-separated base64url segments — a JWS compact serialisation (the signature may be empty) -/
def JwsShaped (s : List Char) : Prop :=
  ∃ a b c, s = a ++ '.' :: (b ++ '.' :: c) ∧ a ≠ [] ∧ b ≠ [] ∧
    (∀ x ∈ a, B64Url x) ∧ (∀ x ∈ b, B64Url x) ∧ (∀ x ∈ c, B64Url x)

/-- the request carries no usable subject: oversized (declared or actual), not JSON, not an object, `token` missing /
not a string / not encodable / empty / over-long -/
def Malformed (maxBody maxToken : Nat) (rq : Req) : Prop :=
  (∃ n, rq.contentLength = some n ∧ n > maxBody) ∨ rq.rawLen > maxBody ∨
  match rq.parsed with
  | .invalid => True
  | .notObject => True
  | .object .missing => True
  | .object .notStr => True
  | .object (.unencodable _) => True
  | .object (.str s) => s = [] ∨ s.length > maxToken

/-- the request carries the subject `tok` -/
def Subject (maxBody maxToken : Nat) (rq : Req) (tok : List Char) : Prop :=
  ¬ Malformed maxBody maxToken rq ∧ rq.parsed = .object (.str tok)

/-- "a finite positive ttl_seconds": a number (not a bool, not null, not a string), finite, > 0 -/
def FinitePositive : Ttl → Prop
  | .int n => 0 < n
  | .float .pos _ => True
  | _ => False

end VgiVerif.C36.Spec
