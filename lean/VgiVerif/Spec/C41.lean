/-
C41 spec — written from the property text only:

"With a threaded Unix or TCP server, any number of concurrent client connections each observe the same results
they would observe when served alone, with stream states never shared across connections, and with
max_connections set no more than that many connections are served at once."

A connection's *observation* is the list of results its client got, one entry per client operation, in order
(each entry itself a list of delivered events).  Whatever the type `Obs` of one entry:

  * `Isolated`   — the observation a connection has made so far in the concurrent run is a prefix of the observation
                   it makes when served alone, and it is the whole of it once its script is finished;
  * `AtMost n`   — among the connections there are never more than `n` being served.
-/
namespace VgiVerif.C41.Spec

/-- `conc` = what the connection has observed so far in a concurrent run, `rest` = what it would still observe if it
were alone from here on, `alone` = what it observes served alone from the start -/
def Isolated {Obs : Type} (alone conc rest : List Obs) : Prop := alone = conc ++ rest

/-- consequence for a finished connection: exactly the solo observation -/
theorem Isolated.done {Obs : Type} {alone conc : List Obs} (h : Isolated alone conc []) : conc = alone := by
  unfold Isolated at h; simp at h; exact h.symm

/-- "no more than `n` connections are served at once": every duplicate-free list of connections that are being
served has at most `n` elements -/
def AtMost {Id : Type} (serving : Id → Prop) (n : Nat) : Prop :=
  ∀ l : List Id, l.Nodup → (∀ i ∈ l, serving i) → l.length ≤ n

end VgiVerif.C41.Spec
