import VgiVerif.Prelude.Xfcc
/-
C43 spec — written from the property text and the XFCC header grammar (Envoy `x-forwarded-client-cert`,
docs/api/mtls.md), not from the code:

"For any x-forwarded-client-cert header value, the identity returned comes only from the selected (first or
last) element, quoted values containing commas, semicolons or escaped quotes never split or merge elements,
and a missing or empty header is rejected with the proxy_required or invalid_credential reason respectively."

The grammar: a header is a comma-separated list of elements, an element a semicolon-separated list of
`key=value` pairs; a value is either a bare token or a double-quoted string in which `"` and `\` are written
`\"` and `\\` — a quoted string may therefore contain ANY text, including `, ; = " \` and line breaks.
Optional white space may surround keys and values.  `render` writes an abstract header down, `meaning` says
which `XfccElement` each element denotes.  The property is then, for the parser `parse`, the authenticator
`auth` and every well-formed abstract header `es`:

  (round trip)  parse (render es) = es.map meaning            -- nothing splits, nothing merges, values verbatim
  (selection)   auth first/last (render es) is a function of `meaning es.head` / `meaning es.getLast` alone
  (injection)   replacing a quoted value by arbitrary text changes that field of that element and nothing else
  (rejection)   no header → proxy_required;  non-empty header without elements → invalid_credential
                (the literally empty string may give either: DESIGN §7.3)
-/
namespace VgiVerif.C43.Spec
open VgiVerif.Xfcc

/-- the six identity fields of an element -/
inductive Field where
  | hash | cert | subject | uri | dns | by_
deriving Repr, DecidableEq

def asciiLower (c : Char) : Char :=
  if 65 ≤ c.toNat ∧ c.toNat ≤ 90 then Char.ofNat (c.toNat + 32) else c

/-- key names are matched case-insensitively (`Hash`, `hash`, `HASH`, …) -/
def fieldOfKey (k : Str) : Option Field :=
  let l := k.map asciiLower
  if l = "hash".toList then some .hash
  else if l = "cert".toList then some .cert
  else if l = "subject".toList then some .subject
  else if l = "uri".toList then some .uri
  else if l = "dns".toList then some .dns
  else if l = "by".toList then some .by_
  else none

/-- White space in the sense of Python `str.strip()`: Unicode `White_Space` plus the ASCII separators
U+001C–U+001F (inclusive code-point ranges). -/
def wsRanges : List (Nat × Nat) :=
  [(9, 13), (28, 32), (133, 133), (160, 160), (5760, 5760), (8192, 8202), (8232, 8233), (8239, 8239),
   (8287, 8287), (12288, 12288)]

def isWs (c : Char) : Bool := wsRanges.any fun r => r.1 ≤ c.toNat && c.toNat ≤ r.2

/-- one `key=value` pair as written: optional white space `w1 key w2 = w3 value w4` -/
structure Pair where
  key : Str
  quoted : Bool
  value : Str
  w1 : Str := []
  w2 : Str := []
  w3 : Str := []
  w4 : Str := []
deriving Repr, DecidableEq

/-- inside a quoted string `"` and `\` are backslash-escaped, everything else is literal -/
def escape (v : Str) : Str := v.flatMap fun c => if c = '"' ∨ c = '\\' then ['\\', c] else [c]

def renderValue (p : Pair) : Str := if p.quoted then '"' :: (escape p.value ++ ['"']) else p.value

def renderPair (p : Pair) : Str := p.w1 ++ (p.key ++ (p.w2 ++ '=' :: (p.w3 ++ (renderValue p ++ p.w4))))

/-- `sep.join(parts)` -/
def join (sep : Char) : List Str → Str
  | [] => []
  | [x] => x
  | x :: y :: r => x ++ sep :: join sep (y :: r)

def renderElem (ps : List Pair) : Str := join ';' (ps.map renderPair)

def render (es : List (List Pair)) : Str := join ',' (es.map renderElem)

/-! ### well-formedness -/

/-- a key is a token of visible ASCII characters other than the separators and the quote -/
def KeyChar (c : Char) : Prop := 33 ≤ c.toNat ∧ c.toNat ≤ 126 ∧ c ≠ '=' ∧ c ≠ ';' ∧ c ≠ ',' ∧ c ≠ '"'

/-- `s` neither starts nor ends with white space -/
def Trimmed (s : Str) : Prop :=
  (∀ c, s.head? = some c → isWs c = false) ∧ (∀ c, s.getLast? = some c → isWs c = false)

def AllWs (s : Str) : Prop := ∀ c ∈ s, isWs c = true

structure Pair.WF (p : Pair) : Prop where
  key : ∀ c ∈ p.key, KeyChar c
  /-- a bare value contains no separator and no quote and is trimmed; a quoted value is ANY text -/
  bare : p.quoted = false → (∀ c ∈ p.value, c ≠ ',' ∧ c ≠ ';' ∧ c ≠ '"') ∧ Trimmed p.value
  w1 : AllWs p.w1
  w2 : AllWs p.w2
  w3 : AllWs p.w3
  w4 : AllWs p.w4

/-- every element has at least one pair, every pair is well formed -/
def WF (es : List (List Pair)) : Prop := ∀ ps ∈ es, ps ≠ [] ∧ ∀ p ∈ ps, p.WF

/-! ### meaning -/

/-- value of the last pair whose key names field `F` -/
def lastValue (F : Field) : List Pair → Option Str
  | [] => none
  | p :: ps =>
    match lastValue F ps with
    | some v => some v
    | none => if fieldOfKey p.key = some F then some p.value else none

/-- values of all pairs whose key names `dns`, in order -/
def dnsValues : List Pair → List Str
  | [] => []
  | p :: ps => if fieldOfKey p.key = some .dns then p.value :: dnsValues ps else dnsValues ps

/-- The element a list of pairs denotes: the last occurrence of a scalar key wins, `DNS` accumulates,
`Cert` / `URI` / `By` are URL-decoded with the environment's `unq`. -/
def meaning (unq : Str → Str) (ps : List Pair) : Elem :=
  { hash := lastValue .hash ps
    cert := (lastValue .cert ps).map unq
    subject := lastValue .subject ps
    uri := (lastValue .uri ps).map unq
    dns := dnsValues ps
    by_ := (lastValue .by_ ps).map unq }

/-! ### canonical rendering of identities (every value quoted, Cert/URI/By URL-encoded with `enc`) -/

def optPair (k : Str) (v : Option Str) : List Pair :=
  match v with
  | none => []
  | some v => [{ key := k, quoted := true, value := v }]

def pairsOf (enc : Str → Str) (e : Elem) : List Pair :=
  optPair "By".toList (e.by_.map enc) ++ optPair "Hash".toList e.hash ++ optPair "Cert".toList (e.cert.map enc)
    ++ optPair "Subject".toList e.subject ++ optPair "URI".toList (e.uri.map enc)
    ++ e.dns.map fun d => { key := "DNS".toList, quoted := true, value := d }

def renderIdent (enc : Str → Str) (es : List Elem) : Str := render (es.map (pairsOf enc))

/-! ### reasons (docs/unauthorized-spec.md) -/
def proxyRequired : String := "proxy_required"
def invalidCredential : String := "invalid_credential"

def selFirst : Str := "first".toList
def selLast : Str := "last".toList

end VgiVerif.C43.Spec
