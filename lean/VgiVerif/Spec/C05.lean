import VgiVerif.Model.C05
/-
C05 spec — from the property text:
 "For any well-framed request stream — arbitrary method names, metadata keys and values (including shared-memory segment
  names and sizes), column names, types and row counts — a socket or pipe server answers with a response or a typed error
  stream and keeps serving the connection.  Only bytes that are not a valid Arrow IPC stream may end the connection, and
  then without leaving the peer waiting for a reply."
-/
namespace VgiVerif.C05
namespace Spec
open VgiVerif.Gen.C05 (Exc)

/-- a well-framed request stream: pyarrow opens it and reads it to its end-of-stream marker — any number of batches
(the property's quantifier has one; zero and several are included), whatever their metadata, columns and rows.  A batch
whose *content* the framework's validation rejects (`IPCError`, raised after the batch has been read) is still framed. -/
def WellFramed (rq : Req) : Prop :=
  rq.openStream = .ok ∧
  (rq.firstRead = .ok ∨ rq.firstRead = .raises .StopIteration ∨ rq.firstRead = .raises .IPCError) ∧
  ∀ s ∈ rq.laterReads, s = .ok ∨ s = .raises .IPCError

/-- what the primitives can do (trusted: OS / pyarrow / Python behaviour; the harness measures it on every generated case) -/
def PrimitivesSane (T : Tables) (rq : Req) : Prop :=
  (∀ e, rq.shmOpen = .raises e → isA T e .OSError = true ∨ isA T e .ValueError = true) ∧
  (∀ e, rq.allocInit = .raises e → isA T e .ValueError = true ∨ isA T e .StructError = true) ∧
  (∀ e, rq.resolve = .raises e → isA T e .ValueError = true) ∧ rq.resolve ≠ .blocks ∧
  (∀ e, rq.deser = .raises e → isA T e .StopIteration = true ∨ isA T e .OSError = true ∨ isA T e .ValueError = true) ∧
  (∀ e, rq.release = .raises e → isA T e .ValueError = true) ∧
  (∀ e, rq.asPy = .raises e → isA T e .Exception_ = true) ∧
  (∀ e, rq.versionCheck = .raises e → isA T e .ProtocolVersionError = true) ∧
  (∀ e, rq.validate = .raises e → isA T e .Exception_ = true) ∧
  (∀ e, rq.call = .raises e → isA T e .Exception_ = true)

/-- "answers with a response or a typed error stream and keeps serving the connection" — and the request stream has been
read to its end, so the next request starts at a stream boundary -/
def AnsweredAndServing (s : Served) : Prop := s.outcome = .replyContinue ∧ s.consumed = true

/-- first sentence of the property -/
def WellFramedAnswered (T : Tables) : Prop :=
  ∀ rq, WellFramed rq → PrimitivesSane T rq → AnsweredAndServing (serveOne T rq)

/-- no read of the request waits for bytes the peer has not sent (the peer wrote what it wrote and closed / stopped) -/
def NoBlocks (rq : Req) : Prop :=
  rq.openStream ≠ .blocks ∧ rq.firstRead ≠ .blocks ∧ (∀ s ∈ rq.laterReads, s ≠ .blocks) ∧ rq.resolve ≠ .blocks

/-- second sentence: whatever the bytes, the peer is never left waiting: a reply is written or the connection ends -/
def NeverLeftWaiting (T : Tables) : Prop := ∀ rq, NoBlocks rq → (serveOne T rq).outcome ≠ .hang

/-- the next request on the connection is served exactly as it would be on a fresh one -/
def NextUnaffected (T : Tables) : Prop :=
  ∀ rq rest, WellFramed rq → PrimitivesSane T rq → serveMany T (rq :: rest) = serveOne T rq :: serveMany T rest

end Spec
end VgiVerif.C05
