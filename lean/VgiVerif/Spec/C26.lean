/-
C26 spec — written from the property text only:

"For any interleaving of concurrent requests on the same session, DELETE requests, in-method close_session
calls, reaper ticks, TTL expiry and drain/shutdown, at most one request dispatches against a session at a time.
A session's close hook runs at most once (exactly once if the session ends), never while a request is
dispatching against that session, and no request dispatches against a session after its close hook has started."

What can be observed of an execution is the sequence of four kinds of events, each carrying the thread that
performed it (one thread serves one request at a time) and the session:

  dispatchBegin / dispatchEnd  — a request that presented the session's token starts / finishes its dispatch;
  closeStart / closeEnd        — the session state's close hook is entered / returns.

Reading of "never while a request is dispatching": the property itself lists *in-method* `close_session` calls
among the legitimate events — there the hook is invoked synchronously by the dispatching request's own thread.
So the demand is: while the hook runs, no request **other than the one running the hook** is dispatching against
the session.  (Everything else is demanded literally.)
-/
namespace VgiVerif.C26.Spec

abbrev Tid := Nat
abbrev Sid := Nat

inductive Ev where
  | dispatchBegin (t : Tid) (s : Sid)
  | dispatchEnd (t : Tid) (s : Sid)
  | closeStart (t : Tid) (s : Sid)
  | closeEnd (t : Tid) (s : Sid)
deriving Repr, DecidableEq

/-- what an observer knows after a sequence of events -/
structure Obs where
  dsp : Tid → Sid → Bool := fun _ _ => false     -- t is dispatching against s
  crun : Tid → Sid → Bool := fun _ _ => false    -- t is inside the close hook of s
  cstart : Sid → Nat := fun _ => 0               -- how often the close hook of s was entered
  cend : Sid → Nat := fun _ => 0                 -- how often it returned

def set2 (f : Tid → Sid → Bool) (t : Tid) (s : Sid) (v : Bool) : Tid → Sid → Bool :=
  fun x y => if x = t ∧ y = s then v else f x y

def bump (f : Sid → Nat) (s : Sid) : Sid → Nat := fun y => if y = s then f s + 1 else f y

def Obs.step (o : Obs) : Ev → Obs
  | .dispatchBegin t s => { o with dsp := set2 o.dsp t s true }
  | .dispatchEnd t s => { o with dsp := set2 o.dsp t s false }
  | .closeStart t s => { o with crun := set2 o.crun t s true, cstart := bump o.cstart s }
  | .closeEnd t s => { o with crun := set2 o.crun t s false, cend := bump o.cend s }

def observe (tr : List Ev) : Obs := tr.foldl Obs.step {}

/-- (1) at most one request dispatches against a session at a time — at every moment of the execution -/
def Mutex (tr : List Ev) : Prop :=
  ∀ p, p <+: tr → ∀ s t t', (observe p).dsp t s = true → (observe p).dsp t' s = true → t = t'

/-- (2a) a session's close hook runs at most once -/
def CloseAtMostOnce (tr : List Ev) : Prop := ∀ s, (observe tr).cstart s ≤ 1

/-- (2b) … exactly once (entered once, returned once) for every session that has ended, once the execution
has come to rest; `ended` is supplied by the system (the session was removed from the registry) -/
def CloseExactlyOnce (ended : Sid → Prop) (tr : List Ev) : Prop :=
  ∀ s, ended s → (observe tr).cstart s = 1 ∧ (observe tr).cend s = 1

/-- (3) the close hook never runs while a request (other than the one running it) dispatches against the session -/
def NoCloseDuringDispatch (tr : List Ev) : Prop :=
  ∀ p, p <+: tr → ∀ s c t, (observe p).crun c s = true → (observe p).dsp t s = true → t = c

/-- (4) no request begins to dispatch against a session after its close hook has started -/
def NoDispatchAfterClose (tr : List Ev) : Prop :=
  ∀ p t s, p ++ [Ev.dispatchBegin t s] <+: tr → (observe p).cstart s = 0

structure Safe (tr : List Ev) : Prop where
  mutex : Mutex tr
  once : CloseAtMostOnce tr
  noCloseDuringDispatch : NoCloseDuringDispatch tr
  noDispatchAfterClose : NoDispatchAfterClose tr

/-! ### executable monitor (used by the driver; the harness cross-checks it against its Python oracle) -/

/-- monitor state: finite lists instead of functions -/
structure Mon where
  dsp : List (Tid × Sid) := []
  crun : List (Tid × Sid) := []
  started : List Sid := []
deriving Repr

/-- one violation: index of the event and which of the four demands it breaks -/
inductive Viol where
  | concurrentDispatch (i : Nat) (s : Sid)       -- (1)
  | closeTwice (i : Nat) (s : Sid)               -- (2a)
  | closeDuringDispatch (i : Nat) (s : Sid)      -- (3), at closeStart
  | dispatchDuringClose (i : Nat) (s : Sid)      -- (3), at dispatchBegin
  | dispatchAfterClose (i : Nat) (s : Sid)       -- (4)
deriving Repr, DecidableEq

def Mon.step (m : Mon) (i : Nat) : Ev → Mon × List Viol
  | .dispatchBegin t s =>
    ({ m with dsp := (t, s) :: m.dsp },
      (if m.dsp.any (fun p => p.2 == s && p.1 != t) then [Viol.concurrentDispatch i s] else [])
      ++ (if m.crun.any (fun p => p.2 == s && p.1 != t) then [Viol.dispatchDuringClose i s] else [])
      ++ (if m.started.contains s then [Viol.dispatchAfterClose i s] else []))
  | .dispatchEnd t s => ({ m with dsp := m.dsp.erase (t, s) }, [])
  | .closeStart t s =>
    ({ m with crun := (t, s) :: m.crun, started := s :: m.started },
      (if m.started.contains s then [Viol.closeTwice i s] else [])
      ++ (if m.dsp.any (fun p => p.2 == s && p.1 != t) then [Viol.closeDuringDispatch i s] else []))
  | .closeEnd t s => ({ m with crun := m.crun.erase (t, s) }, [])

def monitorFrom (m : Mon) (i : Nat) : List Ev → List Viol
  | [] => []
  | e :: r => (m.step i e).2 ++ monitorFrom (m.step i e).1 (i + 1) r

/-- all violations of demands (1), (2a), (3), (4) in an event sequence -/
def monitor (tr : List Ev) : List Viol := monitorFrom {} 0 tr

end VgiVerif.C26.Spec
