import VgiVerif.Model.C29
import VgiVerif.Spec.Engine
/-
C29 spec, from the property text:

  "Requests, results and stream batches carried through the shared-memory side channel … arrive identical to inline
   transfer."                                   →  `Abs`: the machine of *inline* delivery (no segment, no allocator, no memory);
                                                   the shm machine must produce the same observations, operation by operation.
  "Every region a peer allocated is freed once the receiving side has consumed it, so a long session neither leaks
   regions …"                                   →  `Accounted`: live regions = regions referenced by unreleased batches
  "… nor reuses one still referenced by an unreleased batch."
                                                →  `Disjoint` of every new allocation from every referenced region; a held batch
                                                   still reads as written (`Intact`).

The allocator is specified by its contract only (`AllocLaws`, hypotheses — C28 proves them of the real table).
-/
namespace VgiVerif.C29
open VgiVerif.Engine

/-! ### allocator contract -/

def Disjoint (a b : Region) : Prop := a.1 + a.2 ≤ b.1 ∨ b.1 + b.2 ≤ a.1

/-- What C29 needs from an allocator.  `Ok` is the allocator's own invariant (C28). -/
structure AllocLaws (A : Allocator) where
  Ok : A.σ → Prop
  init_ok : Ok A.init
  init_live : A.live A.init = []
  /-- a successful allocation adds exactly the returned region, and that region is disjoint from every live one -/
  alloc_spec : ∀ s n o s', Ok s → 0 < n → A.alloc s n = some (o, s') →
      Ok s' ∧ (A.live s').Perm ((o, n) :: A.live s) ∧ ∀ r ∈ A.live s, Disjoint (o, n) r
  /-- freeing the offset of a live region removes exactly that region -/
  free_spec : ∀ s o n, Ok s → (o, n) ∈ A.live s →
      Ok (A.free s o) ∧ (A.live s).Perm ((o, n) :: A.live (A.free s o))

/-! ### inline delivery (the reference the shm route is compared with) -/
namespace Abs

structure Sess where
  exch : Bool
  initErr : Option Exn
  carry : List Item
  rest : List Step
  srvDone : Bool
  closed : Bool
deriving Repr

abbrev St := Option Sess

def isOpen (s : St) : Bool :=
  match s with
  | some s => !s.closed
  | none => false

def closeS (s : Sess) : Sess := { s with carry := [], srvDone := true, closed := true }

/-- logs left in the output when the client drains it -/
def drain : List Item → List Ev
  | [] => []
  | .log l :: r => .log l :: drain r
  | _ :: r => drain r

def finishRead (s1 : Sess) (isTick : Bool) (seen : List Batch) (rd : List Ev × ReadEnd) : OpOut × Sess :=
  match rd with
  | (evs, .gotData rest) => (⟨evs, seen⟩, { s1 with carry := rest })
  | (evs, .raised) => (⟨evs, seen⟩, closeS s1)
  | (evs, .eos) =>
      if isTick then (⟨evs ++ [.fin], seen⟩, closeS s1) else (⟨evs ++ [.fin], seen⟩, { s1 with carry := [] })
  | (evs, .gotToken _ _) => (⟨evs, seen⟩, s1)

def items : StepOut → List Item
  | .cont i => i
  | .done i => i
  | .fail i => i

def isCont : StepOut → Bool
  | .cont _ => true
  | _ => false

/-- tick (`inp = none`) / exchange -/
def sendOp (s : Sess) (inp : Option Batch) (coerce : Option Exn) : OpOut × Sess :=
  if s.closed then (⟨[closedErr], []⟩, s)
  else match s.initErr with
    | some e => (⟨(readUntilData s.carry).1 ++ [errEv e], []⟩, { s with carry := [], srvDone := true, closed := true })
    | none =>
      if s.srvDone then finishRead s inp.isNone [] (readUntilData s.carry)
      else
        let so := stepOutOf s.exch s.rest coerce
        finishRead { s with rest := restAfter s.rest coerce, srvDone := !isCont so } inp.isNone
          (seenOf inp coerce (inItem inp))
          (readUntilData (s.carry ++ items so))

def step (a : St) : Op → OpOut × St
  | .call logs out req => if isOpen a then (⟨[], []⟩, a) else (⟨Sem.unary logs out, req.toList⟩, a)
  | .openS exch _ init il steps =>
      if isOpen a then (⟨[], []⟩, a)
      else (⟨[], []⟩, some ⟨exch, init, logItems il, steps, init.isSome, false⟩)
  | .tick => match a with
      | some s => let p := sendOp s none none; (p.1, some p.2)
      | none => (⟨[], []⟩, a)
  | .send inp coerce => match a with
      | some s => let p := sendOp s (some inp) coerce; (p.1, some p.2)
      | none => (⟨[], []⟩, a)
  | .close => match a with
      | some s => if s.closed then (⟨[], []⟩, a) else (⟨drain s.carry, []⟩, some (closeS s))
      | none => (⟨[], []⟩, a)
  | .cancel => match a with
      | some s => if s.closed then (⟨[], []⟩, a) else (⟨drain s.carry, []⟩, some (closeS s))
      | none => (⟨[], []⟩, a)
  | .release _ => (⟨[], []⟩, a)

def run : St → List Op → List OpOut
  | _, [] => []
  | a, op :: r => let p := step a op; p.1 :: run p.2 r

end Abs

/-! ### accounting -/

/-- live regions are exactly the regions referenced by unreleased batches (as multisets) -/
def Accounted {A : Allocator} (c : Conn A) : Prop := (A.live c.w.a).Perm ((refs c).map Hnd.region)

/-- a referenced region still holds what was written to it -/
def Intact (m : Mem) (h : Hnd) : Prop := ∀ i, i < h.len → m (h.off + i) = some (h.wid, h.b)

/-- a call has completed: no stream is open on the connection -/
def Quiescent {A : Allocator} (c : Conn A) : Prop := sessionOpen c.sess = false

/-! ### client loops (how a caller drives a stream to its end) -/

/-- `for batch in session` : tick until the session is closed -/
def iterAll {A : Allocator} (cfg : Cfg) : Nat → Conn A → List Ev × Conn A
  | 0, c => ([], c)
  | n + 1, c =>
      if sessionOpen c.sess then
        let p := step cfg c .tick
        let q := iterAll cfg n p.2
        (p.1.evs ++ q.1, q.2)
      else ([], c)

/-- send the inputs one by one, stopping at the first failure (the session closes itself), then `close()` -/
def exchAll {A : Allocator} (cfg : Cfg) : List Batch → Conn A → List Ev × Conn A
  | [], c => let p := step cfg c .close; (p.1.evs, p.2)
  | b :: r, c =>
      if sessionOpen c.sess then
        let p := step cfg c (.send b none)
        let q := exchAll cfg r p.2
        (p.1.evs ++ q.1, q.2)
      else ([], c)

end VgiVerif.C29
