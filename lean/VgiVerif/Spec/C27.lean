import VgiVerif.Model.C27
/-
C27 spec — from the property text and docs/sticky-sessions-spec.md §2, §4, §7 only.

"Sessions are opened only for requests that carried VGI-Session-Accept and never while the worker is draining (which yields
server_draining), and existing sessions keep serving during drain.  After every response the client's session view holds
exactly the token of the session the server keeps live for it — captured on open, cleared on close, including when one
request closes a session and opens another — so no live session is orphaned by the client."

The vocabulary used here: the registry of a worker, whose entries carry (as a ghost) the client view whose request opened
them; the session id sealed inside a token.
-/
namespace VgiVerif.C27.Spec
open VgiVerif.Sticky

/-- the session id sealed inside an envelope -/
def tokSid : Tok → Option Bytes
  | .sealed _ _ _ _ p =>
    match parseFrame p with
    | .ok (_, sid, _) => some sid
    | .error _ => none
  | .raw _ => none

/-- header value `w` is a token for session `sid` -/
def Designates {Wire : Type} (C : Codec Wire) (w : Wire) (sid : Bytes) : Prop :=
  ∃ t, C.dec w = some t ∧ tokSid t = some sid

/-- the sessions the registry keeps live for client view `c` -/
def liveOf (r : Reg) (c : Nat) : List Entry := r.entries.filter (fun e => e.owner == c)

/-- no live session of the view is unknown to the client -/
def NoOrphan {Wire : Type} (C : Codec Wire) (r : Reg) (c : Nat) (v : View Wire) : Prop :=
  ∀ e ∈ liveOf r c, ∃ w, v.token = some w ∧ Designates C w e.sid

/-- the client's token is the token of a live session of the view -/
def NoStale {Wire : Type} (C : Codec Wire) (r : Reg) (c : Nat) (v : View Wire) : Prop :=
  ∀ w, v.token = some w → ∃ e ∈ liveOf r c, Designates C w e.sid

/-- "the client's session view holds exactly the token of the session the server keeps live for it":
    none if none, otherwise the token of every (hence the one) live session of the view -/
def ViewOK {Wire : Type} (C : Codec Wire) (r : Reg) (c : Nat) (v : View Wire) : Prop :=
  NoOrphan C r c v ∧ NoStale C r c v

/-- the request carried the opt-in header -/
def OptedIn {Wire : Type} (rq : Req Wire) : Prop := acceptOpens rq.accept = true

/-- sessions a request added to the registry -/
def openedBy (before after : Reg) : List Entry := after.entries.filter (fun e => !(before.entries.any (fun x => x.sid == e.sid)))

/-- sealing accepts the values of this `open_session` (`struct.pack` ranges, the 255-byte server-id guard): outside this,
`_seal_session_token` raises *after* the registry insertion — excluded from the property's quantifier -/
def SealFits (cfg : Cfg) (now : Nat) : Action → Prop
  | .open _ ttl => openSealOk cfg now ttl = true
  | _ => True

/-- the session this `open_session` registers is not born expired (per-call TTL not negative) -/
def TtlNonneg (cfg : Cfg) : Action → Prop
  | .open _ ttl => 0 ≤ effTtl ttl cfg.defaultTtl
  | _ => True

/-- side conditions of one history step: sealing in range, and the 96-bit session-id space is not exhausted -/
def OpOK {Wire : Type} (cfg : Cfg) (s : Sys Wire) : SysOp → Prop
  | .call _ _ script _ =>
    (∀ a ∈ script, SealFits cfg s.W.env.now a) ∧ s.W.env.sidCtr + script.length ≤ 256 ^ 12 ∧
      (∀ a ∈ script, TtlNonneg cfg a) ∧
      (∀ a ∈ script, a.isApi = true)   -- nothing ends a session behind the client's back (else: `C27_no_orphan`, `C27_close_clears`)
  | _ => True

def RunOK {Wire : Type} [DecidableEq Wire] (C : Codec Wire) (cfg : Cfg) (wk : Nat) : Sys Wire → List SysOp → Prop
  | _, [] => True
  | s, op :: ops => OpOK cfg s op ∧ RunOK C cfg wk (s.step C cfg wk op) ops

end VgiVerif.C27.Spec
