/-
C21 spec — written from the property text and docs/unauthorized-spec.md only (no model, no code):

"Every authentication rejection is a 401 whose reason code comes from the closed set, appears in the VGI-Auth-Reason
header and (unless the client asked for HTML) in a JSON envelope with the same reason, carries Cache-Control: no-store,
and carries a proxy note that is identical on every 401 of the service and present only when its configuration depends
on proxy-injected headers. Chains report missing_credential only when every alternative saw none, an authenticator
outage yields 503 rather than 401, and the client turns any 401 body into an authentication error with a closed-set
reason."
-/
namespace VgiVerif.C21.Spec

abbrev Str := List Char

/-- unauthorized-spec §3: the closed set of reason codes -/
def closedSet : List String :=
  ["missing_credential", "invalid_credential", "expired_credential", "insufficient_scope", "proxy_required", "unauthorized"]

def IsClosedReason (s : Str) : Prop := ∃ c ∈ closedSet, s = c.toList

def missingCredential : Str := "missing_credential".toList

inductive ObsBody where
  /-- §4.3 envelope: `error`, `reason`, `detail`, optional `proxy_hint` -/
  | json (error reason detail : Str) (proxyHint : Option Str)
  /-- the styled page (presentation, not contract); `note` = the §5 note when the page shows one -/
  | html (note : Option Str)

/-- what an observer sees of one 401 -/
structure Obs401 where
  reasonHeader : Option Str          -- VGI-Auth-Reason
  proxyRequiredHeader : Option Str   -- VGI-Auth-Proxy-Required
  cacheControl : Option Str          -- Cache-Control
  jsonContentType : Bool             -- Content-Type is application/json
  body : ObsBody

/-- §4.1: `VGI-Auth-Reason` on every 401, one code of §3 -/
def ReasonOk (o : Obs401) : Prop := ∃ r, o.reasonHeader = some r ∧ IsClosedReason r

/-- §4.3: the envelope is marked `"error": "unauthorized"`, is `application/json`, and its reason agrees with the header -/
def EnvelopeOk (o : Obs401) : Prop :=
  match o.body with
  | .json e r _ _ => e = "unauthorized".toList ∧ o.reasonHeader = some r ∧ o.jsonContentType = true
  | .html _ => True

/-- the property: `Cache-Control: no-store` -/
def NoStore (o : Obs401) : Prop := o.cacheControl = some "no-store".toList

/-- §4.2: the caller asked for HTML iff `Accept` contains `text/html` (absent header = did not ask) -/
def AskedHtml (accept : Option Str) : Prop := "text/html".toList <:+: accept.getD []

/-- §4.2: a non-HTML request MUST get the JSON envelope -/
def NegotiationOk (accept : Option Str) (o : Obs401) : Prop :=
  ¬ AskedHtml accept → ∃ e r d h, o.body = .json e r d h

/-- the note as rendered on this 401 -/
def Obs401.note (o : Obs401) : Option Str :=
  match o.body with
  | .json _ _ _ h => h
  | .html n => n

/-- §4.1/§4.3/§5: `VGI-Auth-Proxy-Required` is `"true"` or omitted (never `"false"`), goes together with the note,
    the note is absent — not empty — when it does not apply -/
def NoteShapeOk (o : Obs401) : Prop :=
  (o.proxyRequiredHeader = none ∨ o.proxyRequiredHeader = some "true".toList) ∧
  (o.proxyRequiredHeader.isSome ↔ o.note.isSome) ∧ o.note ≠ some []

/-- §5: present exactly when the configuration depends on proxy-injected headers -/
def NoteIffOk (dependsOnProxy : Prop) (o : Obs401) : Prop := o.proxyRequiredHeader.isSome ↔ dependsOnProxy

/-- §5: identical on every 401 of the service -/
def SameNote (o₁ o₂ : Obs401) : Prop :=
  o₁.proxyRequiredHeader = o₂.proxyRequiredHeader ∧ o₁.note = o₂.note

/-- §3.1 for alternatives that all failed with the codes `codes` (in the order tried):
    `missing_credential` only when every alternative agreed; otherwise the first code that is not `missing_credential` -/
def ChainRule (codes : List Str) (result : Str) : Prop :=
  (result = missingCredential ↔ ∀ c ∈ codes, c = missingCredential) ∧
  (∀ pre c post, codes = pre ++ c :: post → (∀ x ∈ pre, x = missingCredential) → c ≠ missingCredential → result = c)

end VgiVerif.C21.Spec
