import VgiVerif.Model.C11
import VgiVerif.Spec.Engine
/-
C11 as a spec, from the property text:

 "For any producer stream served over HTTP, the sequence of batches a client iterates is the same for every
  max_response_bytes value, response compression setting and number of continuation turns, and resuming from any
  per-batch resume token — on the same or another worker sharing the token key, warm or cold — yields exactly the
  remaining batches.  A turn's body exceeds the cap by at most the last batch written."

Reading (DESIGN §7.3): "the last batch written" is the output of the last `process()` call of the turn (its data batch
with the log batches of the same call); the zero-row continuation sentinel and the stream framing (schema message,
end-of-stream marker) come on top and are reported with their measured sizes.  A worker is its cap: the continuation at
position `pos` may be served by any worker (`pool pos`), which knows nothing but the token — warm/cold caches are
transparent by C14.  The codec does not appear: since the `fix:` commit the decision reads the IPC sink's own `tell()`
(`Gen.C11.tellOnIpcSink`), so the break points are those of the uncompressed stream under every codec.
-/
namespace VgiVerif.C11.Spec
open VgiVerif.Engine VgiVerif.C11

/-- what the client observes is what the producer emitted, whatever the caps of the workers and the sizes of the batches -/
def IteratesTheEmittedSequence : Prop :=
  ∀ (cap0 : Option Nat) (pool : Nat → Option Nat) (sz : Item → Nat) (pre : Nat) (initLogs : List Log) (steps : List Step),
    obs (iterate cap0 pool sz pre initLogs steps) = obs (Sem.lg initLogs ++ Sem.producer false steps)

/-- two deployments (caps, hence turn boundaries and numbers of turns, chosen independently) show the same stream -/
def ChunkingIndependent : Prop :=
  ∀ (cap0 cap0' : Option Nat) (pool pool' : Nat → Option Nat) (sz sz' : Item → Nat) (pre pre' : Nat)
    (initLogs : List Log) (steps : List Step),
    obs (iterate cap0 pool sz pre initLogs steps) = obs (iterate cap0' pool' sz' pre' initLogs steps)

/-- resuming at the token for ANY step index on ANY pool of workers yields exactly the rest of the script -/
def ResumeYieldsTheRest : Prop :=
  ∀ (pool : Nat → Option Nat) (sz : Item → Nat) (pre : Nat) (steps : List Step) (pos : Nat),
    Http.follow (serve pool sz pre steps) (steps.length + 1) (serve pool sz pre steps pos)
      = Sem.producer false (steps.drop pos)

/-- a producer that reads its tick: whatever the caps, the client observes the run in which exactly the first `process()`
of the stream saw the init request's metadata -/
def ReactiveIteratesOneRun : Prop :=
  ∀ (cap0 : Option Nat) (pool : Nat → Option Nat) (sz : Item → Nat) (pre : Nat) (initLogs : List Log) (rs : List RStep),
    obs (iterateT cap0 pool sz pre initLogs rs) = obs (Sem.lg initLogs ++ Sem.producer false (resolve true rs))

/-- … and resuming at any position yields the rest of that run (every resumed call sees the empty tick) -/
def ReactiveResumeYieldsTheRest : Prop :=
  ∀ (pool : Nat → Option Nat) (sz : Item → Nat) (pre : Nat) (rs : List RStep) (pos : Nat),
    Http.follow (serveT pool sz pre rs) (rs.length + 1) (serveT pool sz pre rs pos)
      = Sem.producer false ((rs.map (·.plain)).drop pos)

/-- a turn under cap `c` that starts with `told` bytes in the buffer ends at most one step past the cap:
body (without the end-of-stream marker) ≤ max told c + bytes of the last step written + the sentinel -/
def OvershootAtMostLastStep : Prop :=
  ∀ (c : Nat) (sz : Item → Nat) (told pos : Nat) (rest : List Step) (sentinel : Nat),
    rest ≠ [] → (∀ p, sz (.token p) ≤ sentinel) →
    ∃ last, rest[ran (some c) sz told rest - 1]? = some last ∧
      told + bytes sz (turn (some c) sz told pos rest) ≤ max told c + wire sz last + sentinel

/-- every turn that hands out a token has run at least one step: the token's position is beyond the turn's start -/
def TurnsMakeProgress : Prop :=
  ∀ (cap : Option Nat) (sz : Item → Nat) (told pos : Nat) (rest : List Step) (p : Nat),
    Item.token p ∈ turn cap sz told pos rest → pos < p

/-- a client consumes at most one response more than the number of data batches the producer emits -/
def TurnsBoundedByBatches : Prop :=
  ∀ (cap0 : Option Nat) (pool : Nat → Option Nat) (sz : Item → Nat) (pre : Nat) (initLogs : List Log) (steps : List Step),
    countTurns (serve pool sz pre steps) (steps.length + 1) (initBody cap0 sz pre initLogs steps)
      ≤ (datasOf (Sem.producer false steps)).length + 1

/-- the resume blob round-trips for all byte strings the length prefix can describe; `b""` and `None` coincide -/
def ResumeTokenRoundTrip : Prop :=
  ∀ (state : Bytes) (call : Option Bytes), state.length < 256 ^ Gen.C11.lenWidth →
    ∃ t, encodeResume state call = .ok t ∧ decodeResume t = .ok (state, normCall call)

end VgiVerif.C11.Spec
