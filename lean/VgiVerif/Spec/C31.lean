/-
C31 spec — written from the property text only:

"For any origin behaviour … fetching an external location never contacts a URL the configured validator rejects,
follows at most max_redirects redirects, and never reads more than max_fetch_bytes encoded or max_decompressed_bytes
decoded bytes plus a bounded chunk.  It returns exactly the object's decoded bytes or fails, and its errors and logs
never contain URL userinfo, query strings or fragments."

What a fetch *does* is observed as a list of logical requests (each: the URLs it sent a request to, in order, and the
number of redirects it followed) and a list of body reads (how many bytes were taken out of one response).
(DESIGN §7.3: "never reads more than" is per response.)
-/
namespace VgiVerif.C31.Spec

abbrev Url := List Char

/-- one logical request as observed -/
structure Request where
  urls : List Url
  redirects : Nat

/-- every URL that was contacted is one the validator accepts -/
def Validated (valid : Url → Bool) (reqs : List Request) : Prop :=
  ∀ r ∈ reqs, ∀ u ∈ r.urls, valid u = true

/-- each logical request follows at most `maxRedirects` redirects (so it contacts at most `maxRedirects + 1` URLs) -/
def RedirectsBounded (maxRedirects : Nat) (reqs : List Request) : Prop :=
  ∀ r ∈ reqs, r.redirects ≤ maxRedirects ∧ r.urls.length ≤ r.redirects + 1

/-- the bounded chunk of a whole-body read -/
def chunk : Nat := 65536

/-- bytes taken out of one response: a whole-body read may overshoot the cap by one chunk, a range read (of a range of
`expected` bytes) by the one sentinel byte that proves the origin exceeded the contract -/
def ReadBounded (maxFetch : Nat) (expected : Option Nat) (bytes : Nat) : Prop :=
  match expected with
  | none => bytes ≤ maxFetch + chunk
  | some e => bytes ≤ min e maxFetch + 1

/-- inclusive byte ranges that tile `[pos, n)` in order, without gap or overlap -/
def Tiles : Nat → Nat → List (Nat × Nat) → Prop
  | pos, n, [] => pos = n
  | pos, n, (s, e) :: rest => s = pos ∧ s ≤ e ∧ e < n ∧ Tiles (e + 1) n rest

/-- `rs` partitions `[0, n)` exactly -/
def IsPartition (n : Nat) (rs : List (Nat × Nat)) : Prop := Tiles 0 n rs

/-- bytes `s..e` (inclusive) of an object -/
def slice {α : Type} (obj : List α) (s e : Nat) : List α := (obj.drop s).take (e + 1 - s)

/-! ### URL grammar for the redaction clause

`scheme "://" [userinfo "@"] host [":" port] path ["?" query] ["#" fragment]` with a registered-name host. -/

def isAlpha (c : Char) : Bool := (65 ≤ c.toNat && c.toNat ≤ 90) || (97 ≤ c.toNat && c.toNat ≤ 122)
def isDigit (c : Char) : Bool := 48 ≤ c.toNat && c.toNat ≤ 57
def isSchemeChar (c : Char) : Bool := isAlpha c || isDigit c || c.toNat == 43 || c.toNat == 45 || c.toNat == 46   -- + - .
/-- characters a URL component may not contain at all here: tab / CR / LF (Python removes them before parsing) -/
def isPlain (c : Char) : Bool := !(c.toNat == 9 || c.toNat == 10 || c.toNat == 13)
def isAsciiC (c : Char) : Bool := c.toNat < 128

structure UrlParts where
  scheme : List Char
  userinfo : Option (List Char)
  host : List Char
  port : Option (List Char)
  path : List Char
  query : Option (List Char)
  fragment : Option (List Char)

def lower (c : Char) : Char := if 65 ≤ c.toNat ∧ c.toNat ≤ 90 then Char.ofNat (c.toNat + 32) else c

def portValue (s : List Char) : Nat := s.foldl (fun a c => a * 10 + (c.toNat - 48)) 0

structure WellFormed (p : UrlParts) : Prop where
  scheme_ne : p.scheme ≠ []
  scheme_first : ∀ c ∈ p.scheme.head?, isAlpha c = true
  scheme_chars : ∀ c ∈ p.scheme, isSchemeChar c = true
  userinfo_chars : ∀ u ∈ p.userinfo, ∀ c ∈ u,
    isAsciiC c = true ∧ isPlain c = true ∧ c ≠ '/' ∧ c ≠ '?' ∧ c ≠ '#' ∧ c ≠ '[' ∧ c ≠ ']'
  host_ne : p.host ≠ []
  host_chars : ∀ c ∈ p.host,
    isAsciiC c = true ∧ isPlain c = true ∧ c ≠ '/' ∧ c ≠ '?' ∧ c ≠ '#' ∧ c ≠ '[' ∧ c ≠ ']' ∧ c ≠ '@' ∧ c ≠ ':' ∧ c ≠ '%'
  port_ok : ∀ q ∈ p.port, q ≠ [] ∧ (∀ c ∈ q, isDigit c = true) ∧ portValue q ≤ 65535
  path_ok : p.path = [] ∨ p.path.head? = some '/'
  path_chars : ∀ c ∈ p.path, isPlain c = true ∧ c ≠ '?' ∧ c ≠ '#' ∧ c ≠ ';'
  query_chars : ∀ q ∈ p.query, ∀ c ∈ q, isPlain c = true ∧ c ≠ '#'
  fragment_chars : ∀ f ∈ p.fragment, ∀ c ∈ f, isPlain c = true

/-- an optional component with its delimiter in front -/
def optPre (pre : Char) : Option (List Char) → List Char
  | some q => pre :: q
  | none => []

/-- optional userinfo with its `@` behind -/
def uiText : Option (List Char) → List Char
  | some u => u ++ ['@']
  | none => []

/-- the URL text -/
def render (p : UrlParts) : List Char :=
  p.scheme ++ "://".toList ++ uiText p.userinfo ++ p.host ++ optPre ':' p.port ++ p.path ++ optPre '?' p.query
    ++ optPre '#' p.fragment

/-- what may be shown of it: scheme, host, port (as a number), path — nothing else -/
def shown (p : UrlParts) (portText : List Char) : List Char :=
  p.scheme.map lower ++ "://".toList ++ p.host.map lower
    ++ (match p.port with | some _ => ':' :: portText | none => [])
    ++ p.path

end VgiVerif.C31.Spec
