/-
C32 spec — written from the property text only:

"For any interleaving of concurrent borrows, returns, idle-timeout sweeps and pool close, a worker process is held by at
most one borrower and the number of idle workers never exceeds max_idle.  A worker is handed to a later borrower only if
it is alive and its connection is at a message boundary — not after an abandoned stream or a call interrupted by a
client-side exception — so no borrower ever reads another borrower's response."

The property speaks about instants of an execution (`View`: who holds which worker, which workers are idle, the cap) and
about hand-overs (`Handover`: what is known about the worker at the moment a borrower receives it).  "Alive" can only mean
"alive when the pool last looked" (`proc.poll()`): a process may die at any time after.
-/
namespace VgiVerif.C32.Spec

/-- one instant of an execution -/
structure View where
  /-- `holder b w`: borrower (thread) `b` holds worker `w` -/
  holder : Nat → Nat → Prop
  /-- the idle workers, as the pool stores them -/
  idle : List Nat
  maxIdle : Nat

/-- "a worker process is held by at most one borrower" — and an idle worker by none, and the pool does not store a worker
twice (else two later borrowers would receive it) -/
def Exclusive (v : View) : Prop :=
  (∀ b b' w, v.holder b w → v.holder b' w → b = b') ∧ (∀ w ∈ v.idle, ∀ b, ¬ v.holder b w) ∧ v.idle.Nodup

/-- "the number of idle workers never exceeds max_idle" (for every `max_idle`, 0 included) -/
def IdleCap (v : View) : Prop := v.idle.length ≤ v.maxIdle

/-- what is known about a worker at the moment it is handed to a borrower -/
structure Handover where
  /-- the pool's last health check found the process running (a freshly spawned process counts); that this check is made
  by the borrowing thread for this very hand-over is `C32_handover_checked` -/
  lastPollAlive : Bool
  /-- the connection is at a message boundary: nothing unread in either direction, the server waits for a request -/
  synced : Bool

/-- "handed to a later borrower only if it is alive and its connection is at a message boundary" -/
def Clean (h : Handover) : Prop := h.lastPollAlive = true ∧ h.synced = true

end VgiVerif.C32.Spec
