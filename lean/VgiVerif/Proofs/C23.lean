import VgiVerif.Model.C23
import VgiVerif.Spec.C23
import VgiVerif.Lemmas.Sched
/-
C23 property theorems.  Helper lemmas are in `namespace Aux`; the obligations are at the bottom.
-/
namespace VgiVerif.C23
open VgiVerif.Sched VgiVerif.Gen.Nonce

namespace Aux

/-! ### the extracted comparisons -/

theorem live_of_lt {x now : Int} (h : now < x) : live x now = true := by
  simp only [live, sweepLiveCmp, cmpInt, gt_iff_lt, decide_eq_true_eq]; exact h

theorem full_iff (len cap : Nat) : full len cap = true ↔ cap ≤ len := by
  simp only [full, evictCmp, cmpInt, ge_iff_le, decide_eq_true_eq]; omega

theorem validate_iff (ttl cap : Int) : validate ttl cap = true ↔ 0 < ttl ∧ 0 < cap := by
  simp only [validate, ttlRejectCmp, capRejectCmp, cmpInt, Bool.and_eq_true, Bool.not_eq_true',
    decide_eq_false_iff_not]; omega

/-! ### keys -/

def keys (l : List Entry) : List Nat := l.map (·.1)

theorem hasKey_iff (n : Nat) (l : List Entry) : hasKey n l = true ↔ n ∈ keys l := by
  simp [hasKey, keys]

theorem hasKey_false_iff (n : Nat) (l : List Entry) : hasKey n l = false ↔ n ∉ keys l := by
  rw [← hasKey_iff]; cases hasKey n l <;> simp

/-- pigeonhole: a duplicate-free list drawn from `m` is no longer than `m` -/
theorem nodup_subset_length {l m : List Nat} (hn : l.Nodup) (hs : ∀ a ∈ l, a ∈ m) : l.length ≤ m.length := by
  induction l generalizing m with
  | nil => exact Nat.zero_le _
  | cons a l ih =>
    rw [List.nodup_cons] at hn
    have ham : a ∈ m := hs a (List.mem_cons_self ..)
    have hsub : ∀ b ∈ l, b ∈ m.erase a := by
      intro b hb
      have hne : b ≠ a := fun h => hn.1 (h ▸ hb)
      exact (List.mem_erase_of_ne hne).2 (hs b (List.mem_cons_of_mem _ hb))
    have := ih hn.2 hsub
    have hl := List.length_erase_of_mem ham
    have hpos : 0 < m.length := List.length_pos_of_mem ham
    simp only [List.length_cons]; omega

/-! ### `_sweep` -/

theorem sweep_suffix (now : Int) (l : List Entry) : sweep now l <:+ l := by
  induction l with
  | nil => exact List.suffix_refl _
  | cons e r ih =>
    simp only [sweep]
    split
    · exact List.suffix_refl _
    · exact ih.trans (List.suffix_cons e r)

/-- a live entry stops the sweep: everything from it on survives -/
theorem sweep_append_live (now : Int) (A : List Entry) (e : Entry) (B : List Entry) (h : live e.2 now = true) :
    ∃ A', A' <:+ A ∧ sweep now (A ++ e :: B) = A' ++ e :: B := by
  induction A with
  | nil => exact ⟨[], List.suffix_refl _, by simp [sweep, h]⟩
  | cons a A ih =>
    simp only [List.cons_append, sweep]
    split
    · exact ⟨a :: A, List.suffix_refl _, rfl⟩
    · obtain ⟨A', h1, h2⟩ := ih
      exact ⟨A', h1.trans (List.suffix_cons a A), h2⟩

/-! ### the evict loop -/

theorem evict_suffix (cap : Nat) (l : List Entry) : (evict cap l).1 <:+ l := by
  induction l with
  | nil => exact List.suffix_refl _
  | cons e r ih =>
    simp only [evict]
    split
    · exact ih.trans (List.suffix_cons e r)
    · exact List.suffix_refl _

/-- after the loop there is room for one more entry -/
theorem evict_length {cap : Nat} (hcap : 0 < cap) (l : List Entry) : (evict cap l).1.length < cap := by
  induction l with
  | nil => simpa [evict] using hcap
  | cons e r ih =>
    simp only [evict]
    split
    · exact ih
    · next hf =>
      have : ¬ cap ≤ r.length + 1 := fun h => hf ((full_iff _ _).2 h)
      simp only [List.length_cons]; omega

/-- the loop never reaches a tail that already fits -/
theorem evict_append_small (cap : Nat) (A S : List Entry) (h : S.length < cap) :
    ∃ A', A' <:+ A ∧ (evict cap (A ++ S)).1 = A' ++ S := by
  induction A with
  | nil =>
    refine ⟨[], List.suffix_refl _, ?_⟩
    cases S with
    | nil => rfl
    | cons e r =>
      have hf : full (r.length + 1) cap = false := by
        cases hfull : full (r.length + 1) cap with
        | false => rfl
        | true => have := (full_iff _ _).1 hfull; simp only [List.length_cons] at h; omega
      simp [evict, hf]
  | cons a A ih =>
    simp only [List.cons_append, evict]
    split
    · obtain ⟨A', h1, h2⟩ := ih
      exact ⟨A', h1.trans (List.suffix_cons a A), h2⟩
    · exact ⟨a :: A, List.suffix_refl _, rfl⟩

/-! ### the representation invariant of the cache -/

/-- size within capacity, keys pairwise distinct -/
def Inv (cap : Nat) (s : St) : Prop := s.entries.length ≤ cap ∧ (keys s.entries).Nodup

theorem keys_nodup_of_suffix {l l' : List Entry} (h : l' <:+ l) (hn : (keys l).Nodup) : (keys l').Nodup := by
  unfold keys at *
  exact List.Nodup.sublist (h.sublist.map _) hn

theorem inv_sweepSt {cap : Nat} {s : St} (now : Int) (h : Inv cap s) : Inv cap (sweepSt now s) := by
  have hs := sweep_suffix now s.entries
  exact ⟨Nat.le_trans hs.length_le h.1, keys_nodup_of_suffix hs h.2⟩

theorem testSt_entries (n : Nat) (s : St) : (testSt n s).1.entries = s.entries := by
  unfold testSt; split <;> rfl

theorem testSt_snd (n : Nat) (s : St) : (testSt n s).2 = hasKey n s.entries := by
  unfold testSt; split <;> simp_all

theorem inv_testSt {cap : Nat} {s : St} (n : Nat) (h : Inv cap s) : Inv cap (testSt n s).1 := by
  unfold Inv; rw [testSt_entries]; exact h

theorem inv_insertSt {cap : Nat} (hcap : 0 < cap) {s : St} (ttl now : Int) (n : Nat) (h : Inv cap s)
    (hn : hasKey n s.entries = false) : Inv cap (insertSt cap ttl now n s) := by
  have hs := evict_suffix cap s.entries
  have hl := evict_length hcap s.entries
  refine ⟨by simp only [insertSt, List.length_append, List.length_cons, List.length_nil]; omega, ?_⟩
  simp only [insertSt, keys, List.map_append, List.map_cons, List.map_nil]
  have hk : n ∉ keys s.entries := (hasKey_false_iff _ _).1 hn
  have hnd := keys_nodup_of_suffix hs h.2
  rw [List.nodup_append]
  refine ⟨hnd, by simp, ?_⟩
  intro a ha b hb
  simp only [List.mem_singleton] at hb
  subst hb
  intro hab; subst hab
  exact hk ((hs.sublist.map _).subset ha)

theorem step_fst (cap : Nat) (ttl : Int) (s : St) (now : Int) (n : Nat) :
    (step cap ttl s now n).1 =
      if hasKey n (sweep now s.entries) then (testSt n (sweepSt now s)).1
      else insertSt cap ttl now n (sweepSt now s) := by
  cases h : hasKey n (sweep now s.entries) <;> simp [step, testSt, sweepSt, h]

theorem step_snd (cap : Nat) (ttl : Int) (s : St) (now : Int) (n : Nat) :
    (step cap ttl s now n).2 = !hasKey n (sweep now s.entries) := by
  cases h : hasKey n (sweep now s.entries) <;> simp [step, testSt, sweepSt, h]

theorem inv_step {cap : Nat} (hcap : 0 < cap) (ttl : Int) {s : St} (now : Int) (n : Nat) (h : Inv cap s) :
    Inv cap (step cap ttl s now n).1 := by
  rw [step_fst]
  split
  · exact inv_testSt n (inv_sweepSt now h)
  · next hk =>
    exact inv_insertSt hcap ttl now n (inv_sweepSt now h) (by simpa [sweepSt] using hk)

theorem inv_init (cap : Nat) : Inv cap {} := ⟨Nat.zero_le _, List.nodup_nil⟩

theorem inv_runFrom {cap : Nat} (hcap : 0 < cap) (ttl : Int) {s : St} (ops : List Op) (h : Inv cap s) :
    Inv cap (runFrom cap ttl s ops) := by
  induction ops generalizing s with
  | nil => exact h
  | cons op r ih => exact ih (inv_step hcap ttl op.now op.nonce h)

theorem runFrom_append (cap : Nat) (ttl : Int) (s : St) (a b : List Op) :
    runFrom cap ttl s (a ++ b) = runFrom cap ttl (runFrom cap ttl s a) b := by
  induction a generalizing s with
  | nil => rfl
  | cons op r ih => exact ih _

theorem resultsFrom_append (cap : Nat) (ttl : Int) (s : St) (a b : List Op) :
    resultsFrom cap ttl s (a ++ b) = resultsFrom cap ttl s a ++ resultsFrom cap ttl (runFrom cap ttl s a) b := by
  induction a generalizing s with
  | nil => rfl
  | cons op r ih => simp only [List.cons_append, resultsFrom, runFrom, ih]

/-! ### tracking one accepted nonce through later operations -/

/-- the entry `(n, x)` is still present and everything inserted after it has a key from `D` -/
def Tracked (n : Nat) (x : Int) (D : List Nat) (l : List Entry) : Prop :=
  ∃ A B, l = A ++ (n, x) :: B ∧ ∀ e ∈ B, e.1 ∈ D

theorem tracked_hasKey {n : Nat} {x : Int} {D : List Nat} {l : List Entry} (h : Tracked n x D l) :
    hasKey n l = true := by
  obtain ⟨A, B, rfl, _⟩ := h
  simp [hasKey]

theorem tracked_sweep {n : Nat} {x : Int} {D : List Nat} {l : List Entry} {now : Int}
    (h : Tracked n x D l) (hw : now < x) : Tracked n x D (sweep now l) := by
  obtain ⟨A, B, rfl, hB⟩ := h
  obtain ⟨A', _, h2⟩ := sweep_append_live now A (n, x) B (live_of_lt hw)
  exact ⟨A', B, h2, hB⟩

/-- one later operation keeps the tracked entry, and rejects the tracked nonce -/
theorem tracked_step {cap : Nat} (ttl : Int) {s : St} {n : Nat} {x : Int} {D : List Nat}
    (hinv : Inv cap s) (ht : Tracked n x D s.entries) (hD : D.length < cap)
    (now : Int) (m : Nat) (hw : now < x) (hm : m ≠ n → m ∈ D) :
    Tracked n x D (step cap ttl s now m).1.entries ∧ (m = n → (step cap ttl s now m).2 = false) := by
  have hts := tracked_sweep ht hw
  have hinv1 := inv_sweepSt now hinv
  constructor
  · rw [step_fst]
    split
    · rw [testSt_entries]; exact hts
    · next hk =>
      have hk' : m ∉ keys (sweep now s.entries) := (hasKey_false_iff _ _).1 (by simpa using hk)
      obtain ⟨A, B, hl, hB⟩ := hts
      have hmn : m ≠ n := by
        intro h; subst h
        exact hk' (by rw [hl]; simp [keys])
      -- the tail from the tracked entry on is short: its keys are distinct, in `D`, and differ from `m ∈ D`
      have hnd : (keys (sweep now s.entries)).Nodup := hinv1.2
      have hBnd : (m :: keys B).Nodup := by
        rw [List.nodup_cons]
        constructor
        · intro hmB; exact hk' (by rw [hl]; simp only [keys, List.map_append, List.map_cons, List.mem_append, List.mem_cons]; exact Or.inr (Or.inr hmB))
        · rw [hl] at hnd
          simp only [keys, List.map_append, List.map_cons] at hnd
          exact ((List.nodup_append.1 hnd).2.1 |> List.nodup_cons.1).2
      have hlen : (m :: keys B).length ≤ D.length :=
        nodup_subset_length hBnd (by
          intro a ha
          rcases List.mem_cons.1 ha with rfl | ha
          · exact hm hmn
          · obtain ⟨e, he, rfl⟩ := List.mem_map.1 ha; exact hB e he)
      have hsmall : ((n, x) :: B).length < cap := by
        simp only [List.length_cons, keys, List.length_map] at hlen ⊢; omega
      obtain ⟨A', _, hev⟩ := evict_append_small cap A ((n, x) :: B) hsmall
      refine ⟨A', B ++ [(m, now + ttl)], ?_, ?_⟩
      · simp only [insertSt, sweepSt]; rw [hl, hev]; simp
      · intro e he
        rcases List.mem_append.1 he with he | he
        · exact hB e he
        · simp only [List.mem_singleton] at he; subst he; exact hm hmn
  · rintro rfl
    rw [step_snd, tracked_hasKey hts]; rfl

theorem tracked_runFrom {cap : Nat} (hcap : 0 < cap) (ttl : Int) {n : Nat} {x : Int} {D : List Nat}
    (hD : D.length < cap) (mid : List Op) {s : St}
    (hinv : Inv cap s) (ht : Tracked n x D s.entries)
    (hmid : ∀ op ∈ mid, op.now < x ∧ (op.nonce ≠ n → op.nonce ∈ D)) :
    Tracked n x D (runFrom cap ttl s mid).entries ∧ Inv cap (runFrom cap ttl s mid) := by
  induction mid generalizing s with
  | nil => exact ⟨ht, hinv⟩
  | cons op r ih =>
    have h1 := hmid op (List.mem_cons_self ..)
    have hstep := tracked_step ttl hinv ht hD op.now op.nonce h1.1 h1.2
    exact ih (inv_step hcap ttl op.now op.nonce hinv) hstep.1 (fun o ho => hmid o (List.mem_cons_of_mem _ ho))

/-- an accepted nonce sits at the end of the entries -/
theorem accepted_tracked {cap : Nat} {ttl : Int} {s : St} {now : Int} {n : Nat} (D : List Nat)
    (h : (step cap ttl s now n).2 = true) : Tracked n (now + ttl) D (step cap ttl s now n).1.entries := by
  rw [step_snd] at h
  have hk : hasKey n (sweep now s.entries) = false := by simpa using h
  rw [step_fst, hk]
  exact ⟨_, [], rfl, by simp⟩

/-- **core replay lemma** (decomposition form, arbitrary starting state satisfying the invariant) -/
theorem replay_core {cap : Nat} (hcap : 0 < cap) (ttl : Int) {s : St} (hinv : Inv cap s)
    (a : Op) (mid : List Op) (b : Op) (D : List Nat)
    (hacc : (step cap ttl s a.now a.nonce).2 = true)
    (hb : b.nonce = a.nonce)
    (hwin : ∀ op ∈ mid ++ [b], op.now < a.now + ttl)
    (hD : D.length < cap) (hmid : ∀ op ∈ mid, op.nonce ≠ a.nonce → op.nonce ∈ D) :
    (step cap ttl (runFrom cap ttl (step cap ttl s a.now a.nonce).1 mid) b.now b.nonce).2 = false := by
  have ht0 := accepted_tracked D hacc
  have hinv1 := inv_step hcap ttl a.now a.nonce hinv
  have hrun := tracked_runFrom hcap ttl hD mid hinv1 ht0
    (fun op ho => ⟨hwin op (List.mem_append_left _ ho), hmid op ho⟩)
  have hbw : b.now < a.now + ttl := hwin b (by simp)
  exact (tracked_step ttl hrun.2 hrun.1 hD b.now b.nonce hbw (fun h => absurd hb h)).2 hb

end Aux

end VgiVerif.C23
