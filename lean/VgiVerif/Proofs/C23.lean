import VgiVerif.Model.C23
import VgiVerif.Spec.C23
import VgiVerif.Lemmas.Sched
/-
C23 property theorems.  Helper lemmas are in `namespace Aux`; the obligations are at the bottom.
-/
namespace VgiVerif.C23
open VgiVerif.Sched VgiVerif.Gen.Nonce

namespace Aux

/-! ### the extracted comparisons -/

theorem live_of_lt {x now : Int} (h : now < x) : live x now = true := by
  simp only [live, sweepLiveCmp, cmpInt, gt_iff_lt, decide_eq_true_eq]; exact h

theorem full_iff (len cap : Nat) : full len cap = true ↔ cap ≤ len := by
  simp only [full, evictCmp, cmpInt, ge_iff_le, decide_eq_true_eq]; omega

theorem validate_iff (ttl cap : Int) : validate ttl cap = true ↔ 0 < ttl ∧ 0 < cap := by
  simp only [validate, ttlRejectCmp, capRejectCmp, cmpInt, Bool.and_eq_true, Bool.not_eq_true',
    decide_eq_false_iff_not]; omega

/-! ### keys -/

def keys (l : List Entry) : List Nat := l.map (·.1)

theorem hasKey_iff (n : Nat) (l : List Entry) : hasKey n l = true ↔ n ∈ keys l := by
  simp [hasKey, keys]

theorem hasKey_false_iff (n : Nat) (l : List Entry) : hasKey n l = false ↔ n ∉ keys l := by
  rw [← hasKey_iff]; cases hasKey n l <;> simp

/-- pigeonhole: a duplicate-free list drawn from `m` is no longer than `m` -/
theorem nodup_subset_length {l m : List Nat} (hn : l.Nodup) (hs : ∀ a ∈ l, a ∈ m) : l.length ≤ m.length := by
  induction l generalizing m with
  | nil => exact Nat.zero_le _
  | cons a l ih =>
    rw [List.nodup_cons] at hn
    have ham : a ∈ m := hs a (List.mem_cons_self ..)
    have hsub : ∀ b ∈ l, b ∈ m.erase a := by
      intro b hb
      have hne : b ≠ a := fun h => hn.1 (h ▸ hb)
      exact (List.mem_erase_of_ne hne).2 (hs b (List.mem_cons_of_mem _ hb))
    have := ih hn.2 hsub
    have hl := List.length_erase_of_mem ham
    have hpos : 0 < m.length := List.length_pos_of_mem ham
    simp only [List.length_cons]; omega

/-! ### `_sweep` -/

theorem sweep_suffix (now : Int) (l : List Entry) : sweep now l <:+ l := by
  induction l with
  | nil => exact List.suffix_refl _
  | cons e r ih =>
    simp only [sweep]
    split
    · exact List.suffix_refl _
    · exact ih.trans (List.suffix_cons e r)

/-- a live entry stops the sweep: everything from it on survives -/
theorem sweep_append_live (now : Int) (A : List Entry) (e : Entry) (B : List Entry) (h : live e.2 now = true) :
    ∃ A', A' <:+ A ∧ sweep now (A ++ e :: B) = A' ++ e :: B := by
  induction A with
  | nil => exact ⟨[], List.suffix_refl _, by simp [sweep, h]⟩
  | cons a A ih =>
    simp only [List.cons_append, sweep]
    split
    · exact ⟨a :: A, List.suffix_refl _, rfl⟩
    · obtain ⟨A', h1, h2⟩ := ih
      exact ⟨A', h1.trans (List.suffix_cons a A), h2⟩

/-! ### the evict loop -/

theorem evict_suffix (cap : Nat) (l : List Entry) : (evict cap l).1 <:+ l := by
  induction l with
  | nil => exact List.suffix_refl _
  | cons e r ih =>
    simp only [evict]
    split
    · exact ih.trans (List.suffix_cons e r)
    · exact List.suffix_refl _

/-- after the loop there is room for one more entry -/
theorem evict_length {cap : Nat} (hcap : 0 < cap) (l : List Entry) : (evict cap l).1.length < cap := by
  induction l with
  | nil => simpa [evict] using hcap
  | cons e r ih =>
    simp only [evict]
    split
    · exact ih
    · next hf =>
      have : ¬ cap ≤ r.length + 1 := fun h => hf ((full_iff _ _).2 h)
      simp only [List.length_cons]; omega

/-- the loop never reaches a tail that already fits -/
theorem evict_append_small (cap : Nat) (A S : List Entry) (h : S.length < cap) :
    ∃ A', A' <:+ A ∧ (evict cap (A ++ S)).1 = A' ++ S := by
  induction A with
  | nil =>
    refine ⟨[], List.suffix_refl _, ?_⟩
    cases S with
    | nil => rfl
    | cons e r =>
      have hf : full (r.length + 1) cap = false := by
        cases hfull : full (r.length + 1) cap with
        | false => rfl
        | true => have := (full_iff _ _).1 hfull; simp only [List.length_cons] at h; omega
      simp [evict, hf]
  | cons a A ih =>
    simp only [List.cons_append, evict]
    split
    · obtain ⟨A', h1, h2⟩ := ih
      exact ⟨A', h1.trans (List.suffix_cons a A), h2⟩
    · exact ⟨a :: A, List.suffix_refl _, rfl⟩

/-! ### the representation invariant of the cache -/

/-- size within capacity, keys pairwise distinct -/
def Inv (cap : Nat) (s : St) : Prop := s.entries.length ≤ cap ∧ (keys s.entries).Nodup

theorem keys_nodup_of_suffix {l l' : List Entry} (h : l' <:+ l) (hn : (keys l).Nodup) : (keys l').Nodup := by
  unfold keys at *
  exact List.Nodup.sublist (h.sublist.map _) hn

theorem inv_sweepSt {cap : Nat} {s : St} (now : Int) (h : Inv cap s) : Inv cap (sweepSt now s) := by
  have hs := sweep_suffix now s.entries
  exact ⟨Nat.le_trans hs.length_le h.1, keys_nodup_of_suffix hs h.2⟩

theorem testSt_entries (n : Nat) (s : St) : (testSt n s).1.entries = s.entries := by
  unfold testSt; split <;> rfl

theorem testSt_snd (n : Nat) (s : St) : (testSt n s).2 = hasKey n s.entries := by
  unfold testSt; split <;> simp_all

theorem inv_testSt {cap : Nat} {s : St} (n : Nat) (h : Inv cap s) : Inv cap (testSt n s).1 := by
  unfold Inv; rw [testSt_entries]; exact h

theorem inv_insertSt {cap : Nat} (hcap : 0 < cap) {s : St} (ttl now : Int) (n : Nat) (h : Inv cap s)
    (hn : hasKey n s.entries = false) : Inv cap (insertSt cap ttl now n s) := by
  have hs := evict_suffix cap s.entries
  have hl := evict_length hcap s.entries
  refine ⟨by simp only [insertSt, List.length_append, List.length_cons, List.length_nil]; omega, ?_⟩
  simp only [insertSt, keys, List.map_append, List.map_cons, List.map_nil]
  have hk : n ∉ keys s.entries := (hasKey_false_iff _ _).1 hn
  have hnd := keys_nodup_of_suffix hs h.2
  rw [List.nodup_append]
  refine ⟨hnd, by simp, ?_⟩
  intro a ha b hb
  simp only [List.mem_singleton] at hb
  subst hb
  intro hab; subst hab
  exact hk ((hs.sublist.map _).subset ha)

theorem step_fst (cap : Nat) (ttl : Int) (s : St) (now : Int) (n : Nat) :
    (step cap ttl s now n).1 =
      if hasKey n (sweep now s.entries) then (testSt n (sweepSt now s)).1
      else insertSt cap ttl now n (sweepSt now s) := by
  cases h : hasKey n (sweep now s.entries) <;> simp [step, testSt, sweepSt, h]

theorem step_snd (cap : Nat) (ttl : Int) (s : St) (now : Int) (n : Nat) :
    (step cap ttl s now n).2 = !hasKey n (sweep now s.entries) := by
  cases h : hasKey n (sweep now s.entries) <;> simp [step, testSt, sweepSt, h]

theorem inv_step {cap : Nat} (hcap : 0 < cap) (ttl : Int) {s : St} (now : Int) (n : Nat) (h : Inv cap s) :
    Inv cap (step cap ttl s now n).1 := by
  rw [step_fst]
  split
  · exact inv_testSt n (inv_sweepSt now h)
  · next hk =>
    exact inv_insertSt hcap ttl now n (inv_sweepSt now h) (by simpa [sweepSt] using hk)

theorem inv_init (cap : Nat) : Inv cap {} := ⟨Nat.zero_le _, List.nodup_nil⟩

theorem inv_runFrom {cap : Nat} (hcap : 0 < cap) (ttl : Int) {s : St} (ops : List Op) (h : Inv cap s) :
    Inv cap (runFrom cap ttl s ops) := by
  induction ops generalizing s with
  | nil => exact h
  | cons op r ih => exact ih (inv_step hcap ttl op.now op.nonce h)

theorem runFrom_append (cap : Nat) (ttl : Int) (s : St) (a b : List Op) :
    runFrom cap ttl s (a ++ b) = runFrom cap ttl (runFrom cap ttl s a) b := by
  induction a generalizing s with
  | nil => rfl
  | cons op r ih => exact ih _

theorem resultsFrom_append (cap : Nat) (ttl : Int) (s : St) (a b : List Op) :
    resultsFrom cap ttl s (a ++ b) = resultsFrom cap ttl s a ++ resultsFrom cap ttl (runFrom cap ttl s a) b := by
  induction a generalizing s with
  | nil => rfl
  | cons op r ih => simp only [List.cons_append, resultsFrom, runFrom, ih]

/-! ### tracking one accepted nonce through later operations -/

/-- the entry `(n, x)` is still present and everything inserted after it has a key from `D` -/
def Tracked (n : Nat) (x : Int) (D : List Nat) (l : List Entry) : Prop :=
  ∃ A B, l = A ++ (n, x) :: B ∧ ∀ e ∈ B, e.1 ∈ D

theorem tracked_hasKey {n : Nat} {x : Int} {D : List Nat} {l : List Entry} (h : Tracked n x D l) :
    hasKey n l = true := by
  obtain ⟨A, B, rfl, _⟩ := h
  simp [hasKey]

theorem tracked_sweep {n : Nat} {x : Int} {D : List Nat} {l : List Entry} {now : Int}
    (h : Tracked n x D l) (hw : now < x) : Tracked n x D (sweep now l) := by
  obtain ⟨A, B, rfl, hB⟩ := h
  obtain ⟨A', _, h2⟩ := sweep_append_live now A (n, x) B (live_of_lt hw)
  exact ⟨A', B, h2, hB⟩

/-- one later operation keeps the tracked entry, and rejects the tracked nonce -/
theorem tracked_step {cap : Nat} (ttl : Int) {s : St} {n : Nat} {x : Int} {D : List Nat}
    (hinv : Inv cap s) (ht : Tracked n x D s.entries) (hD : D.length < cap)
    (now : Int) (m : Nat) (hw : now < x) (hm : m ≠ n → m ∈ D) :
    Tracked n x D (step cap ttl s now m).1.entries ∧ (m = n → (step cap ttl s now m).2 = false) := by
  have hts := tracked_sweep ht hw
  have hinv1 := inv_sweepSt now hinv
  constructor
  · rw [step_fst]
    split
    · rw [testSt_entries]; exact hts
    · next hk =>
      have hk' : m ∉ keys (sweep now s.entries) := (hasKey_false_iff _ _).1 (by simpa using hk)
      obtain ⟨A, B, hl, hB⟩ := hts
      have hmn : m ≠ n := by
        intro h; subst h
        exact hk' (by rw [hl]; simp [keys])
      -- the tail from the tracked entry on is short: its keys are distinct, in `D`, and differ from `m ∈ D`
      have hnd : (keys (sweep now s.entries)).Nodup := hinv1.2
      have hBnd : (m :: keys B).Nodup := by
        rw [List.nodup_cons]
        constructor
        · intro hmB; exact hk' (by rw [hl]; simp only [keys, List.map_append, List.map_cons, List.mem_append, List.mem_cons]; exact Or.inr (Or.inr hmB))
        · rw [hl] at hnd
          simp only [keys, List.map_append, List.map_cons] at hnd
          exact ((List.nodup_append.1 hnd).2.1 |> List.nodup_cons.1).2
      have hlen : (m :: keys B).length ≤ D.length :=
        nodup_subset_length hBnd (by
          intro a ha
          rcases List.mem_cons.1 ha with rfl | ha
          · exact hm hmn
          · obtain ⟨e, he, rfl⟩ := List.mem_map.1 ha; exact hB e he)
      have hsmall : ((n, x) :: B).length < cap := by
        simp only [List.length_cons, keys, List.length_map] at hlen ⊢; omega
      obtain ⟨A', _, hev⟩ := evict_append_small cap A ((n, x) :: B) hsmall
      refine ⟨A', B ++ [(m, now + ttl)], ?_, ?_⟩
      · simp only [insertSt, sweepSt]; rw [hl, hev]; simp
      · intro e he
        rcases List.mem_append.1 he with he | he
        · exact hB e he
        · simp only [List.mem_singleton] at he; subst he; exact hm hmn
  · rintro rfl
    rw [step_snd, tracked_hasKey hts]; rfl

theorem tracked_runFrom {cap : Nat} (hcap : 0 < cap) (ttl : Int) {n : Nat} {x : Int} {D : List Nat}
    (hD : D.length < cap) (mid : List Op) {s : St}
    (hinv : Inv cap s) (ht : Tracked n x D s.entries)
    (hmid : ∀ op ∈ mid, op.now < x ∧ (op.nonce ≠ n → op.nonce ∈ D)) :
    Tracked n x D (runFrom cap ttl s mid).entries ∧ Inv cap (runFrom cap ttl s mid) := by
  induction mid generalizing s with
  | nil => exact ⟨ht, hinv⟩
  | cons op r ih =>
    have h1 := hmid op (List.mem_cons_self ..)
    have hstep := tracked_step ttl hinv ht hD op.now op.nonce h1.1 h1.2
    exact ih (inv_step hcap ttl op.now op.nonce hinv) hstep.1 (fun o ho => hmid o (List.mem_cons_of_mem _ ho))

/-- an accepted nonce sits at the end of the entries -/
theorem accepted_tracked {cap : Nat} {ttl : Int} {s : St} {now : Int} {n : Nat} (D : List Nat)
    (h : (step cap ttl s now n).2 = true) : Tracked n (now + ttl) D (step cap ttl s now n).1.entries := by
  rw [step_snd] at h
  have hk : hasKey n (sweep now s.entries) = false := by simpa using h
  rw [step_fst, hk]
  exact ⟨_, [], rfl, by simp⟩

/-- **core replay lemma** (decomposition form, arbitrary starting state satisfying the invariant) -/
theorem replay_core {cap : Nat} (hcap : 0 < cap) (ttl : Int) {s : St} (hinv : Inv cap s)
    (a : Op) (mid : List Op) (b : Op) (D : List Nat)
    (hacc : (step cap ttl s a.now a.nonce).2 = true)
    (hb : b.nonce = a.nonce)
    (hwin : ∀ op ∈ mid ++ [b], op.now < a.now + ttl)
    (hD : D.length < cap) (hmid : ∀ op ∈ mid, op.nonce ≠ a.nonce → op.nonce ∈ D) :
    (step cap ttl (runFrom cap ttl (step cap ttl s a.now a.nonce).1 mid) b.now b.nonce).2 = false := by
  have ht0 := accepted_tracked D hacc
  have hinv1 := inv_step hcap ttl a.now a.nonce hinv
  have hrun := tracked_runFrom hcap ttl hD mid hinv1 ht0
    (fun op ho => ⟨hwin op (List.mem_append_left _ ho), hmid op ho⟩)
  have hbw : b.now < a.now + ttl := hwin b (by simp)
  exact (tracked_step ttl hrun.2 hrun.1 hD b.now b.nonce hbw (fun h => absurd hb h)).2 hb


/-! ### bridge to the spec's histories -/

/-- the history of a sequential run as the spec sees it (true time := the reading) -/
def callsFrom (cap : Nat) (ttl : Int) (s : St) : List Op → List Spec.Call
  | [] => []
  | op :: r =>
    ⟨op.now, op.nonce, (step cap ttl s op.now op.nonce).2, op.now⟩ ::
      callsFrom cap ttl (step cap ttl s op.now op.nonce).1 r

theorem callsFrom_cons_inv {cap : Nat} {ttl : Int} {s : St} {ops : List Op} {a : Spec.Call} {Y : List Spec.Call}
    (h : callsFrom cap ttl s ops = a :: Y) :
    ∃ op r, ops = op :: r ∧ a = ⟨op.now, op.nonce, (step cap ttl s op.now op.nonce).2, op.now⟩ ∧
      Y = callsFrom cap ttl (step cap ttl s op.now op.nonce).1 r := by
  cases ops with
  | nil => cases h
  | cons op r =>
    simp only [callsFrom, List.cons.injEq] at h
    exact ⟨op, r, rfl, h.1.symm, h.2.symm⟩

theorem callsFrom_split {cap : Nat} {ttl : Int} {s : St} {ops : List Op} {X Y : List Spec.Call}
    (h : callsFrom cap ttl s ops = X ++ Y) :
    ∃ o1 o2, ops = o1 ++ o2 ∧ X = callsFrom cap ttl s o1 ∧ Y = callsFrom cap ttl (runFrom cap ttl s o1) o2 := by
  induction X generalizing s ops with
  | nil => exact ⟨[], ops, rfl, rfl, h.symm⟩
  | cons x X ih =>
    obtain ⟨op, r, rfl, hx, hY⟩ := callsFrom_cons_inv (show callsFrom cap ttl s ops = x :: (X ++ Y) from h)
    obtain ⟨o1, o2, rfl, h1, h2⟩ := ih hY.symm
    exact ⟨op :: o1, o2, rfl, by simp only [callsFrom, ← h1, hx], h2⟩

theorem mem_callsFrom {cap : Nat} {ttl : Int} {s : St} {ops : List Op} {op : Op} (h : op ∈ ops) :
    ∃ c ∈ callsFrom cap ttl s ops, c.now = op.now ∧ c.nonce = op.nonce := by
  induction ops generalizing s with
  | nil => cases h
  | cons o r ih =>
    rcases List.mem_cons.1 h with rfl | h
    · exact ⟨_, List.mem_cons_self .., rfl, rfl⟩
    · obtain ⟨c, hc, h1, h2⟩ := ih (s := (step cap ttl s o.now o.nonce).1) h
      exact ⟨c, List.mem_cons_of_mem _ hc, h1, h2⟩

theorem mem_dedup (x : Nat) (l : List Nat) : x ∈ Spec.dedup l ↔ x ∈ l := by
  induction l with
  | nil => simp [Spec.dedup]
  | cons a r ih =>
    simp only [Spec.dedup]
    split
    · next hm => rw [ih]; simp only [List.mem_cons]; constructor
                 · exact Or.inr
                 · rintro (rfl | h)
                   · exact (ih.1 hm)
                   · exact h
    · simp only [List.mem_cons, ih]

theorem mem_distinctOthers {n m : Nat} {mid : List Spec.Call} {c : Spec.Call} (hc : c ∈ mid) (hm : c.nonce = m)
    (hne : m ≠ n) : m ∈ Spec.distinctOthers n mid := by
  unfold Spec.distinctOthers
  rw [mem_dedup, List.mem_filter]
  exact ⟨List.mem_map.2 ⟨c, hc, hm⟩, by simpa using hne⟩

/-- replay safety of the sequential history from any state satisfying the invariant -/
theorem replaySafe_callsFrom {cap : Nat} (hcap : 0 < cap) (ttl : Int) {s : St} (hinv : Inv cap s) (ops : List Op) :
    Spec.ReplaySafe cap ttl (callsFrom cap ttl s ops) := by
  intro pre a mid b post hsplit ha hb hwin hD
  obtain ⟨o1, o2, rfl, _, h2⟩ := callsFrom_split hsplit
  obtain ⟨opa, r2, rfl, hea, h3⟩ := callsFrom_cons_inv h2.symm
  obtain ⟨om, r3, rfl, hmid, h4⟩ := callsFrom_split h3.symm
  obtain ⟨opb, r4, rfl, heb, _⟩ := callsFrom_cons_inv h4.symm
  have hinv1 : Inv cap (runFrom cap ttl s o1) := inv_runFrom hcap ttl o1 hinv
  have hanow : a.now = opa.now := by rw [hea]
  have hanonce : a.nonce = opa.nonce := by rw [hea]
  have hbnow : b.now = opb.now := by rw [heb]
  have hbnonce : b.nonce = opb.nonce := by rw [heb]
  have key := replay_core hcap ttl hinv1 opa om opb (Spec.distinctOthers a.nonce mid)
    (by rw [hea] at ha; exact ha)
    (by rw [← hbnonce, ← hanonce]; exact hb)
    (by
      intro op hop
      rcases List.mem_append.1 hop with hop | hop
      · obtain ⟨c, hc, h1, _⟩ := mem_callsFrom (cap := cap) (ttl := ttl) (s := (step cap ttl (runFrom cap ttl s o1) opa.now opa.nonce).1) hop
        rw [← hmid] at hc
        have := hwin c (List.mem_append_left _ hc)
        rw [h1, hanow] at this; exact this
      · simp only [List.mem_singleton] at hop; subst hop
        have := hwin b (by simp)
        rw [hbnow, hanow] at this; exact this)
    hD
    (by
      intro op hop hne
      obtain ⟨c, hc, _, h2'⟩ := mem_callsFrom (cap := cap) (ttl := ttl) (s := (step cap ttl (runFrom cap ttl s o1) opa.now opa.nonce).1) hop
      rw [← hmid] at hc
      exact mem_distinctOthers hc h2' (by rw [hanonce]; exact hne))
  rw [heb]; exact key

/-! ### the concurrent model: inversion of `cstep` -/

section Conc
variable {mono : Bool} {cap : Nat} {ttl : Int}

theorem cstep_tick {s s' : CSt} {d : Int} (h : cstep mono cap ttl s (.tick d) = some s') :
    (mono = true → 0 ≤ d) ∧ s' = { s with clock := s.clock + d } := by
  simp only [cstep] at h
  split at h
  · cases h
  · next hc =>
    cases h
    refine ⟨fun hm => ?_, rfl⟩
    simp only [hm, Bool.true_and, decide_eq_true_eq] at hc; omega

theorem cstep_call {s s' : CSt} {t : Tid} {n : Nat} (h : cstep mono cap ttl s (.call t n) = some s') :
    s.pc t = .idle ∧ s' = { s with pc := upd s.pc t (.called n) } := by
  simp only [cstep] at h
  split at h
  · next hp => cases h; exact ⟨hp, rfl⟩
  · cases h

theorem cstep_readClock {s s' : CSt} {t : Tid} {v : Int} (h : cstep mono cap ttl s (.readClock t v) = some s') :
    ∃ n, s.pc t = .called n ∧ v = s.clock ∧ s' = { s with pc := upd s.pc t (.read n v) } := by
  simp only [cstep] at h
  split at h
  · next n hp =>
    split at h
    · next hv => cases h; exact ⟨n, hp, hv, rfl⟩
    · cases h
  · cases h

theorem cstep_acquire {s s' : CSt} {t : Tid} (h : cstep mono cap ttl s (.acquire t) = some s') :
    ∃ n now, s.pc t = .read n now ∧ s.lock.owner = none ∧
      s' = { s with lock := ⟨some t⟩, pc := upd s.pc t (.locked n now s.clock) } := by
  simp only [cstep] at h
  split at h
  · next n now hp =>
    split at h
    · next l hl =>
      cases h
      obtain ⟨ho, rfl⟩ := Lock.acquire_eq_some.1 hl
      exact ⟨n, now, hp, ho, rfl⟩
    · cases h
  · cases h

theorem cstep_sweep {s s' : CSt} {t : Tid} (h : cstep mono cap ttl s (.sweep t) = some s') :
    ∃ n now ta, s.pc t = .locked n now ta ∧ s.lock.owner = some t ∧
      s' = { s with cache := sweepSt now s.cache, pc := upd s.pc t (.swept n now ta) } := by
  simp only [cstep] at h
  split at h
  · next n now ta hp =>
    split at h
    · next ho => cases h; exact ⟨n, now, ta, hp, ho, rfl⟩
    · cases h
  · cases h

theorem cstep_test {s s' : CSt} {t : Tid} (h : cstep mono cap ttl s (.test t) = some s') :
    ∃ n now ta, s.pc t = .swept n now ta ∧ s.lock.owner = some t ∧
      (((testSt n s.cache).2 = true ∧
        s' = { s with cache := (testSt n s.cache).1, pc := upd s.pc t .exiting,
                      hist := s.hist ++ [⟨t, ⟨now, n⟩, false, ta⟩] }) ∨
       ((testSt n s.cache).2 = false ∧ s' = { s with pc := upd s.pc t (.absent n now ta) })) := by
  simp only [cstep] at h
  split at h
  · next n now ta hp =>
    split at h
    · next ho =>
      split at h
      · next ht => cases h; exact ⟨n, now, ta, hp, ho, Or.inl ⟨ht, rfl⟩⟩
      · next ht => cases h; exact ⟨n, now, ta, hp, ho, Or.inr ⟨by simpa using ht, rfl⟩⟩
    · cases h
  · cases h

theorem cstep_insert {s s' : CSt} {t : Tid} (h : cstep mono cap ttl s (.insert t) = some s') :
    ∃ n now ta, s.pc t = .absent n now ta ∧ s.lock.owner = some t ∧
      s' = { s with cache := insertSt cap ttl now n s.cache, pc := upd s.pc t .exiting,
                    hist := s.hist ++ [⟨t, ⟨now, n⟩, true, ta⟩] } := by
  simp only [cstep] at h
  split at h
  · next n now ta hp =>
    split at h
    · next ho => cases h; exact ⟨n, now, ta, hp, ho, rfl⟩
    · cases h
  · cases h

theorem cstep_release {s s' : CSt} {t : Tid} (h : cstep mono cap ttl s (.release t) = some s') :
    s.pc t = .exiting ∧ s.lock.owner = some t ∧ s' = { s with lock := ⟨none⟩, pc := upd s.pc t .returning } := by
  simp only [cstep] at h
  split at h
  · next hp =>
    split at h
    · next l hl =>
      cases h
      obtain ⟨ho, rfl⟩ := Lock.release_eq_some.1 hl
      exact ⟨hp, ho, rfl⟩
    · cases h
  · cases h

theorem cstep_ret {s s' : CSt} {t : Tid} {r : Bool} (h : cstep mono cap ttl s (.ret t r) = some s') :
    s.pc t = .returning ∧ lastRes t s.hist = some r ∧ s' = { s with pc := upd s.pc t .idle } := by
  simp only [cstep] at h
  split at h
  · next hp =>
    split at h
    · next hr => cases h; exact ⟨hp, hr, rfl⟩
    · cases h
  · cases h

end Conc

/-! ### the linearisation invariant -/

def ops (h : List Lin) : List Op := h.map (·.op)

theorem ops_snoc (h : List Lin) (e : Lin) : ops (h ++ [e]) = ops h ++ [e.op] := by simp [ops]

theorem run_snoc (cap : Nat) (ttl : Int) (l : List Op) (op : Op) :
    run cap ttl (l ++ [op]) = (step cap ttl (run cap ttl l) op.now op.nonce).1 := by
  simp only [run, runFrom_append, runFrom]

theorem results_snoc (cap : Nat) (ttl : Int) (l : List Op) (op : Op) :
    results cap ttl (l ++ [op]) = results cap ttl l ++ [(step cap ttl (run cap ttl l) op.now op.nonce).2] := by
  simp only [results, run, resultsFrom_append, resultsFrom]

/-- how the cache relates to the linearised history while the thread with program counter `p` holds the lock -/
def Rel (base cache : St) : Pc → Prop
  | .locked _ _ _ => cache = base
  | .swept _ now _ => cache = sweepSt now base
  | .absent n now _ => cache = sweepSt now base ∧ hasKey n cache.entries = false
  | .exiting => cache = base
  | _ => False

theorem Rel.inCS {base cache : St} {p : Pc} (h : Rel base cache p) : p.inCS = true := by
  cases p <;> first | rfl | exact h.elim

structure CInv (cap : Nat) (ttl : Int) (s : CSt) : Prop where
  /-- mutual exclusion: a thread inside the critical section owns the lock -/
  mutex : ∀ x, (s.pc x).inCS = true → s.lock.owner = some x
  /-- the recorded results are the sequential results of the linearised operations -/
  res : s.hist.map (·.res) = results cap ttl (ops s.hist)
  /-- lock free: the cache is the sequential run of the linearised operations -/
  free : s.lock.owner = none → s.cache = run cap ttl (ops s.hist)
  /-- lock held: the cache is that run plus the owner's partial progress -/
  held : ∀ x, s.lock.owner = some x → Rel (run cap ttl (ops s.hist)) s.cache (s.pc x)

theorem cinv_init (cap : Nat) (ttl : Int) : CInv cap ttl {} :=
  ⟨fun _ h => (by cases h), rfl, fun _ => rfl, fun _ h => (by cases h)⟩

/-- a step of a thread outside the critical section that only moves its own program counter -/
theorem cinv_outside {cap : Nat} {ttl : Int} {s : CSt} {t : Tid} {v : Pc} (h : CInv cap ttl s)
    (hold : (s.pc t).inCS = false) (hnew : v.inCS = false) :
    CInv cap ttl { s with pc := upd s.pc t v } := by
  refine ⟨?_, h.res, h.free, ?_⟩
  · intro x hx
    by_cases hxt : x = t
    · subst hxt; simp only [upd_same] at hx; rw [hnew] at hx; cases hx
    · simp only [upd_other _ _ hxt] at hx; exact h.mutex x hx
  · intro x hx
    have hr := h.held x hx
    by_cases hxt : x = t
    · subst hxt; have := hr.inCS; rw [hold] at this; cases this
    · simp only [upd_other _ _ hxt]; exact hr

theorem cinv_step {mono : Bool} {cap : Nat} {ttl : Int} {s s' : CSt} {l : Label}
    (h : CInv cap ttl s) (hst : cstep mono cap ttl s l = some s') : CInv cap ttl s' := by
  cases l with
  | tick d =>
    obtain ⟨_, rfl⟩ := cstep_tick hst
    exact ⟨h.mutex, h.res, h.free, h.held⟩
  | call t n =>
    obtain ⟨hp, rfl⟩ := cstep_call hst
    exact cinv_outside h (by rw [hp]; rfl) rfl
  | readClock t v =>
    obtain ⟨n, hp, _, rfl⟩ := cstep_readClock hst
    exact cinv_outside h (by rw [hp]; rfl) rfl
  | ret t r =>
    obtain ⟨hp, _, rfl⟩ := cstep_ret hst
    exact cinv_outside h (by rw [hp]; rfl) rfl
  | acquire t =>
    obtain ⟨n, now, hp, ho, rfl⟩ := cstep_acquire hst
    refine ⟨?_, h.res, (fun hc => by cases hc), ?_⟩
    · intro x hx
      by_cases hxt : x = t
      · subst hxt; rfl
      · simp only [upd_other _ _ hxt] at hx
        have := h.mutex x hx; rw [ho] at this; cases this
    · intro x hx
      simp only [Option.some.injEq] at hx; subst hx
      simp only [upd_same, Rel]; exact h.free ho
  | sweep t =>
    obtain ⟨n, now, ta, hp, ho, rfl⟩ := cstep_sweep hst
    have hr := h.held t ho
    rw [hp] at hr; simp only [Rel] at hr
    refine ⟨?_, h.res, (fun hc => by simp only [ho] at hc; cases hc), ?_⟩
    · intro x hx
      by_cases hxt : x = t
      · subst hxt; exact ho
      · simp only [upd_other _ _ hxt] at hx; exact h.mutex x hx
    · intro x hx
      simp only [ho, Option.some.injEq] at hx; subst hx
      simp only [upd_same, Rel, hr]
  | test t =>
    obtain ⟨n, now, ta, hp, ho, hcase⟩ := cstep_test hst
    have hr := h.held t ho
    rw [hp] at hr; simp only [Rel] at hr
    have hmut : ∀ (v : Pc) x, (upd s.pc t v x).inCS = true → s.lock.owner = some x := by
      intro v x hx
      by_cases hxt : x = t
      · subst hxt; exact ho
      · simp only [upd_other _ _ hxt] at hx; exact h.mutex x hx
    rcases hcase with ⟨htest, rfl⟩ | ⟨htest, rfl⟩
    · have hk : hasKey n (sweep now (run cap ttl (ops s.hist)).entries) = true := by
        rw [testSt_snd, hr] at htest; exact htest
      refine ⟨hmut _, ?_, (fun hc => by simp only [ho] at hc; cases hc), ?_⟩
      · simp only [List.map_append, List.map_cons, List.map_nil, ops_snoc, results_snoc, h.res, step_snd, hk,
          Bool.not_true]
      · intro x hx
        simp only [ho, Option.some.injEq] at hx; subst hx
        simp only [upd_same, Rel, ops_snoc, run_snoc, step_fst, hk, if_true, hr]
    · have hk : hasKey n s.cache.entries = false := by rw [testSt_snd] at htest; exact htest
      refine ⟨hmut _, h.res, (fun hc => by simp only [ho] at hc; cases hc), ?_⟩
      intro x hx
      simp only [ho, Option.some.injEq] at hx; subst hx
      simp only [upd_same, Rel]; exact ⟨hr, hk⟩
  | insert t =>
    obtain ⟨n, now, ta, hp, ho, rfl⟩ := cstep_insert hst
    have hr := h.held t ho
    rw [hp] at hr; simp only [Rel] at hr
    have hk : hasKey n (sweep now (run cap ttl (ops s.hist)).entries) = false := by
      have := hr.2; rw [hr.1] at this; exact this
    refine ⟨?_, ?_, (fun hc => by simp only [ho] at hc; cases hc), ?_⟩
    · intro x hx
      by_cases hxt : x = t
      · subst hxt; exact ho
      · simp only [upd_other _ _ hxt] at hx; exact h.mutex x hx
    · simp only [List.map_append, List.map_cons, List.map_nil, ops_snoc, results_snoc, h.res, step_snd, hk,
        Bool.not_false]
    · intro x hx
      simp only [ho, Option.some.injEq] at hx; subst hx
      simp only [upd_same, Rel, ops_snoc, run_snoc, step_fst, hk, Bool.false_eq_true, if_false, hr.1]
  | release t =>
    obtain ⟨hp, ho, rfl⟩ := cstep_release hst
    have hr := h.held t ho
    rw [hp] at hr; simp only [Rel] at hr
    refine ⟨?_, h.res, fun _ => hr, fun x hx => (by cases hx)⟩
    intro x hx
    by_cases hxt : x = t
    · subst hxt; simp only [upd_same] at hx; cases hx
    · simp only [upd_other _ _ hxt] at hx
      have := h.mutex x hx; rw [ho] at this
      exact absurd (Option.some.inj this).symm hxt

theorem cinv_reachable {mono : Bool} {cap : Nat} {ttl : Int} {s : CSt} (h : (ts mono cap ttl).Reachable s) :
    CInv cap ttl s :=
  TS.invariant_of_step (ts mono cap ttl) (CInv cap ttl) (cinv_init cap ttl)
    (fun _ _ _ hi hst => cinv_step hi hst) s h

/-- in every reachable state (mid-critical-section included) the cache satisfies its representation invariant -/
theorem cinv_inv {cap : Nat} (hcap : 0 < cap) {ttl : Int} {s : CSt} (h : CInv cap ttl s) : Inv cap s.cache := by
  have hbase : Inv cap (run cap ttl (ops s.hist)) := inv_runFrom hcap ttl _ (inv_init cap)
  cases ho : s.lock.owner with
  | none => rw [h.free ho]; exact hbase
  | some x =>
    have hr := h.held x ho
    cases hp : s.pc x <;> rw [hp] at hr <;> simp only [Rel] at hr
    · rw [hr]; exact hbase
    · rw [hr]; exact inv_sweepSt _ hbase
    · rw [hr.1]; exact inv_sweepSt _ hbase
    · rw [hr]; exact hbase


/-! ### timing under a monotone true clock -/

/-- nonce, clock reading and acquire time of a thread inside the critical section before its result is decided -/
def csInfo : Pc → Option (Nat × Int × Int)
  | .locked n now ta => some (n, now, ta)
  | .swept n now ta => some (n, now, ta)
  | .absent n now ta => some (n, now, ta)
  | _ => none

theorem csInfo_inCS {p : Pc} {i : Nat × Int × Int} (h : csInfo p = some i) : p.inCS = true := by
  cases p <;> first | rfl | cases h

structure TInv (s : CSt) : Prop where
  /-- a clock reading is never ahead of the true clock -/
  read : ∀ x n now, s.pc x = .read n now → now ≤ s.clock
  /-- inside the critical section: reading ≤ acquire time ≤ true clock, and everything already linearised was
  acquired no later -/
  cs : ∀ x n now ta, csInfo (s.pc x) = some (n, now, ta) → now ≤ ta ∧ ta ≤ s.clock ∧ ∀ e ∈ s.hist, e.tacq ≤ ta
  hist : ∀ e ∈ s.hist, e.op.now ≤ e.tacq ∧ e.tacq ≤ s.clock
  /-- the linearisation order is the order of lock acquisition times -/
  sorted : s.hist.Pairwise (fun a b => a.tacq ≤ b.tacq)

theorem tinv_init : TInv {} :=
  ⟨fun _ _ _ h => (by cases h), fun _ _ _ _ h => (by cases h), fun _ h => (by cases h), List.Pairwise.nil⟩

/-- moving one thread to a program counter that carries no timing information -/
theorem tinv_upd_plain {s : CSt} {t : Tid} {v : Pc} (h : TInv s) (hv1 : ∀ n now, v ≠ .read n now)
    (hv2 : csInfo v = none) : TInv { s with pc := upd s.pc t v } := by
  refine ⟨?_, ?_, h.hist, h.sorted⟩
  · intro x n now hx
    by_cases hxt : x = t
    · subst hxt; simp only [upd_same] at hx; exact absurd hx (hv1 n now)
    · simp only [upd_other _ _ hxt] at hx; exact h.read x n now hx
  · intro x n now ta hx
    by_cases hxt : x = t
    · subst hxt; simp only [upd_same] at hx; rw [hv2] at hx; cases hx
    · simp only [upd_other _ _ hxt] at hx; exact h.cs x n now ta hx

/-- the owner decides its result: the history grows by its entry, its program counter becomes `exiting` -/
theorem tinv_linearise {cap : Nat} {ttl : Int} {s : CSt} {t : Tid} {n : Nat} {now ta : Int} {r : Bool} {c : St}
    (hc : CInv cap ttl s) (h : TInv s) (ho : s.lock.owner = some t) (hi : csInfo (s.pc t) = some (n, now, ta)) :
    TInv { s with cache := c, pc := upd s.pc t .exiting, hist := s.hist ++ [⟨t, ⟨now, n⟩, r, ta⟩] } := by
  obtain ⟨h1, h2, h3⟩ := h.cs t n now ta hi
  refine ⟨?_, ?_, ?_, ?_⟩
  · intro x n' now' hx
    by_cases hxt : x = t
    · subst hxt; simp only [upd_same] at hx; cases hx
    · simp only [upd_other _ _ hxt] at hx; exact h.read x n' now' hx
  · intro x n' now' ta' hx
    by_cases hxt : x = t
    · subst hxt; simp only [upd_same] at hx; cases hx
    · simp only [upd_other _ _ hxt] at hx
      have := hc.mutex x (csInfo_inCS hx)
      rw [ho] at this
      exact absurd (Option.some.inj this).symm hxt
  · intro e he
    rcases List.mem_append.1 he with he | he
    · exact h.hist e he
    · simp only [List.mem_singleton] at he; subst he; exact ⟨h1, h2⟩
  · show (s.hist ++ [_]).Pairwise _
    rw [List.pairwise_append]
    refine ⟨h.sorted, List.pairwise_singleton _ _, ?_⟩
    intro a ha b hb
    simp only [List.mem_singleton] at hb; subst hb
    exact h3 a ha

/-- the owner moves between two pre-decision program counters with the same timing information -/
theorem tinv_progress {s : CSt} {t : Tid} {v : Pc} {c : St} {i : Nat × Int × Int} (h : TInv s)
    (hold : csInfo (s.pc t) = some i) (hnew : csInfo v = some i) (hv1 : ∀ n now, v ≠ .read n now) :
    TInv { s with cache := c, pc := upd s.pc t v } := by
  refine ⟨?_, ?_, h.hist, h.sorted⟩
  · intro x n now hx
    by_cases hxt : x = t
    · subst hxt; simp only [upd_same] at hx; exact absurd hx (hv1 n now)
    · simp only [upd_other _ _ hxt] at hx; exact h.read x n now hx
  · intro x n now ta hx
    by_cases hxt : x = t
    · subst hxt; simp only [upd_same] at hx; rw [hnew] at hx; rw [hx] at hold; exact h.cs x n now ta hold
    · simp only [upd_other _ _ hxt] at hx; exact h.cs x n now ta hx

theorem tinv_step {cap : Nat} {ttl : Int} {s s' : CSt} {l : Label}
    (hc : CInv cap ttl s) (h : TInv s) (hst : cstep true cap ttl s l = some s') : TInv s' := by
  cases l with
  | tick d =>
    obtain ⟨hd, rfl⟩ := cstep_tick hst
    have hd := hd rfl
    refine ⟨?_, ?_, ?_, h.sorted⟩
    · intro x n now hx; have := h.read x n now hx; show now ≤ s.clock + d; omega
    · intro x n now ta hx
      obtain ⟨h1, h2, h3⟩ := h.cs x n now ta hx
      exact ⟨h1, (show ta ≤ s.clock + d by omega), h3⟩
    · intro e he
      obtain ⟨h1, h2⟩ := h.hist e he
      exact ⟨h1, (show e.tacq ≤ s.clock + d by omega)⟩
  | call t n =>
    obtain ⟨_, rfl⟩ := cstep_call hst
    exact tinv_upd_plain h (fun _ _ hh => by cases hh) rfl
  | ret t r =>
    obtain ⟨_, _, rfl⟩ := cstep_ret hst
    exact tinv_upd_plain h (fun _ _ hh => by cases hh) rfl
  | release t =>
    obtain ⟨_, _, rfl⟩ := cstep_release hst
    exact tinv_upd_plain (s := { s with lock := ⟨none⟩ }) ⟨h.read, h.cs, h.hist, h.sorted⟩
      (fun _ _ hh => by cases hh) rfl
  | readClock t v =>
    obtain ⟨n, _, hv, rfl⟩ := cstep_readClock hst
    refine ⟨?_, ?_, h.hist, h.sorted⟩
    · intro x n' now hx
      by_cases hxt : x = t
      · subst hxt; simp only [upd_same, Pc.read.injEq] at hx
        show now ≤ s.clock; omega
      · simp only [upd_other _ _ hxt] at hx; exact h.read x n' now hx
    · intro x n' now ta hx
      by_cases hxt : x = t
      · subst hxt; simp only [upd_same] at hx; cases hx
      · simp only [upd_other _ _ hxt] at hx; exact h.cs x n' now ta hx
  | acquire t =>
    obtain ⟨n, now, hp, _, rfl⟩ := cstep_acquire hst
    have hr := h.read t n now hp
    refine ⟨?_, ?_, h.hist, h.sorted⟩
    · intro x n' now' hx
      by_cases hxt : x = t
      · subst hxt; simp only [upd_same] at hx; cases hx
      · simp only [upd_other _ _ hxt] at hx; exact h.read x n' now' hx
    · intro x n' now' ta hx
      by_cases hxt : x = t
      · subst hxt; simp only [upd_same, csInfo, Option.some.injEq, Prod.mk.injEq] at hx
        obtain ⟨_, rfl, rfl⟩ := hx
        exact ⟨hr, Int.le_refl _, fun e he => (h.hist e he).2⟩
      · simp only [upd_other _ _ hxt] at hx; exact h.cs x n' now' ta hx
  | sweep t =>
    obtain ⟨n, now, ta, hp, _, rfl⟩ := cstep_sweep hst
    exact tinv_progress (i := (n, now, ta)) h (by rw [hp]; rfl) rfl (fun _ _ hh => by cases hh)
  | test t =>
    obtain ⟨n, now, ta, hp, ho, hcase⟩ := cstep_test hst
    rcases hcase with ⟨_, rfl⟩ | ⟨_, rfl⟩
    · exact tinv_linearise hc h ho (by rw [hp]; rfl)
    · exact tinv_progress (c := s.cache) (i := (n, now, ta)) h (by rw [hp]; rfl) rfl (fun _ _ hh => by cases hh)
  | insert t =>
    obtain ⟨n, now, ta, hp, ho, rfl⟩ := cstep_insert hst
    exact tinv_linearise hc h ho (by rw [hp]; rfl)

theorem tinv_reachable {cap : Nat} {ttl : Int} {s : CSt} (h : (ts true cap ttl).Reachable s) : TInv s := by
  have : CInv cap ttl s ∧ TInv s :=
    TS.invariant_of_step (ts true cap ttl) (fun s => CInv cap ttl s ∧ TInv s) ⟨cinv_init cap ttl, tinv_init⟩
      (fun _ _ _ hi hst => ⟨cinv_step hi.1 hst, tinv_step hi.1 hi.2 hst⟩) s h
  exact this.2

/-! ### from the linearisation invariant to the spec's histories -/

/-- a linearised operation as the spec sees it: its true time is the lock-acquisition time -/
def toCall (e : Lin) : Spec.Call := ⟨e.op.now, e.op.nonce, e.res, e.tacq⟩
/-- the same with the clock reading in place of the true time -/
def toCallSeq (e : Lin) : Spec.Call := ⟨e.op.now, e.op.nonce, e.res, e.op.now⟩

theorem hist_callsFrom {cap : Nat} {ttl : Int} (h : List Lin) (s : St)
    (hres : h.map (·.res) = resultsFrom cap ttl s (ops h)) : h.map toCallSeq = callsFrom cap ttl s (ops h) := by
  induction h generalizing s with
  | nil => rfl
  | cons e r ih =>
    simp only [ops, List.map_cons, resultsFrom, List.cons.injEq] at hres
    simp only [ops, List.map_cons, callsFrom, List.cons.injEq]
    refine ⟨by simp only [toCallSeq, hres.1], ih _ hres.2⟩

theorem distinctOthers_map_toCall (n : Nat) (l : List Lin) :
    Spec.distinctOthers n (l.map toCall) = Spec.distinctOthers n (l.map toCallSeq) := by
  simp only [Spec.distinctOthers, List.map_map]; rfl

end Aux

/-! ## The obligations -/

open Aux

/-- the shape facts of `check_and_add` / `__init__` that the model relies on hold in the extracted source:
clock read before the lock, one lock created eagerly in `__init__` (never lazily inside a method), sweep → test → evict-oldest loop → insert inside one `with` block,
sweep from the front, expiry = reading + ttl -/
theorem C23_shape :
    clockReadBeforeLock = true ∧ singleLock = true ∧ criticalSectionOrder = true ∧ evictsOldest = true ∧
      sweepFromFront = true ∧ expiryIsNowPlusTtl = true ∧ capDefaultIsConst = true ∧
      lockCreatedInInit = true := by decide

/-- `__init__` accepts exactly positive ttl and capacity -/
theorem nc_validate (ttl cap : Int) : validate ttl cap = true ↔ 0 < ttl ∧ 0 < cap := validate_iff ttl cap

/-- the cache never holds more than its capacity (any history, any capacity ≥ 1, any clock readings) -/
theorem nc_size (cap : Nat) (hcap : 0 < cap) (ttl : Int) (ops : List Op) :
    (run cap ttl ops).entries.length ≤ cap := (inv_runFrom hcap ttl ops (inv_init cap)).1

/-- the retained nonces are pairwise distinct -/
theorem nc_nodup (cap : Nat) (hcap : 0 < cap) (ttl : Int) (ops : List Op) :
    ((run cap ttl ops).entries.map (·.1)).Nodup := (inv_runFrom hcap ttl ops (inv_init cap)).2

/-- **replay theorem** (sequential histories, non-monotone clock readings allowed) -/
theorem nc_replay (cap : Nat) (hcap : 0 < cap) (ttl : Int) (ops : List Op) :
    Spec.ReplaySafe cap ttl (callsFrom cap ttl {} ops) := replaySafe_callsFrom hcap ttl (inv_init cap) ops

/-- `callsFrom` is the list of operations paired with `results` -/
theorem nc_calls_results (cap : Nat) (ttl : Int) (ops : List Op) :
    (callsFrom cap ttl {} ops).map (·.res) = results cap ttl ops ∧
    (callsFrom cap ttl {} ops).map (fun c => (⟨c.now, c.nonce⟩ : Op)) = ops := by
  unfold results
  generalize ({} : St) = s
  induction ops generalizing s with
  | nil => exact ⟨rfl, rfl⟩
  | cons op r ih =>
    simp only [callsFrom, List.map_cons, resultsFrom, List.cons.injEq, true_and]
    exact ⟨(ih _).1, (ih _).2⟩

/-- **linearizability**: in every run of the threaded model (any interleaving, any number of threads and
calls, clock monotone or not) the results recorded so far are the results of the *sequential* cache on the
operations in lock-acquisition order, whenever the lock is free the cache *is* that sequential cache, and
threads inside the critical section own the lock. -/
theorem C23_linearizable (mono : Bool) (cap : Nat) (ttl : Int) (ls : List Label) (s : CSt)
    (h : (ts mono cap ttl).run ls = some s) :
    s.hist.map (·.res) = results cap ttl (s.hist.map (·.op)) ∧
    (s.lock.owner = none → s.cache = run cap ttl (s.hist.map (·.op))) ∧
    (∀ x, (s.pc x).inCS = true → s.lock.owner = some x) := by
  have hi := cinv_reachable (TS.reachable_of_run _ h)
  exact ⟨hi.res, hi.free, hi.mutex⟩

/-- mutual exclusion: two threads inside the critical section are the same thread -/
theorem C23_mutex (mono : Bool) (cap : Nat) (ttl : Int) (s : CSt) (h : (ts mono cap ttl).Reachable s)
    (x y : Tid) (hx : (s.pc x).inCS = true) (hy : (s.pc y).inCS = true) : x = y := by
  have hi := cinv_reachable h
  exact (MutexInv.mk (inCS := fun t => (s.pc t).inCS = true) hi.mutex).excl hx hy

/-- the value a call returns is the result linearised for it -/
theorem C23_ret (mono : Bool) (cap : Nat) (ttl : Int) (s s' : CSt) (t : Tid) (r : Bool)
    (h : (ts mono cap ttl).step s (.ret t r) = some s') : lastRes t s.hist = some r :=
  (cstep_ret (mono := mono) (cap := cap) (ttl := ttl) h).2.1

/-- the size bound and key distinctness hold in EVERY reachable state of the threaded model, including
the states in the middle of a critical section -/
theorem C23_size_always (mono : Bool) (cap : Nat) (hcap : 0 < cap) (ttl : Int) (s : CSt)
    (h : (ts mono cap ttl).Reachable s) :
    s.cache.entries.length ≤ cap ∧ (s.cache.entries.map (·.1)).Nodup := cinv_inv hcap (cinv_reachable h)

/-- replay safety of every interleaving in terms of the clock *readings* (no assumption on the clock) -/
theorem C23_concurrent_readings (mono : Bool) (cap : Nat) (hcap : 0 < cap) (ttl : Int) (ls : List Label) (s : CSt)
    (h : (ts mono cap ttl).run ls = some s) : Spec.ReplaySafe cap ttl (s.hist.map toCallSeq) := by
  have hi := cinv_reachable (TS.reachable_of_run _ h)
  rw [hist_callsFrom s.hist {} hi.res]
  exact replaySafe_callsFrom hcap ttl (inv_init cap) _

/-- **the property for concurrent callers** (monotone true clock): in every interleaving, a nonce accepted
with reading `t` is rejected by every later call that enters the critical section at a true time
`< t + ttl`, provided fewer than `cap` distinct other nonces arrived in between. -/
theorem C23_concurrent (cap : Nat) (hcap : 0 < cap) (ttl : Int) (ls : List Label) (s : CSt)
    (h : (ts true cap ttl).run ls = some s) : Spec.ReplaySafeRT cap ttl (s.hist.map toCall) := by
  have hr := TS.reachable_of_run _ h
  have ht := tinv_reachable hr
  have hseq := C23_concurrent_readings true cap hcap ttl ls s h
  intro pre a mid b post hsplit ha hb hwin hD
  obtain ⟨preH, restH, hH, rfl, h2⟩ := List.map_eq_append_iff.1 hsplit
  obtain ⟨ea, rest2, rfl, rfl, h3⟩ := List.map_eq_cons_iff.1 h2
  obtain ⟨midH, rest3, rfl, rfl, h4⟩ := List.map_eq_append_iff.1 h3
  obtain ⟨eb, postH, rfl, rfl, _⟩ := List.map_eq_cons_iff.1 h4
  have hsorted := ht.sorted
  rw [hH, List.pairwise_append] at hsorted
  have hs2 := (List.pairwise_cons.1 hsorted.2.1).2
  rw [List.pairwise_append] at hs2
  have hmidle : ∀ e ∈ midH, e.tacq ≤ eb.tacq := fun e he => hs2.2.2 e he eb (List.mem_cons_self ..)
  have hnowle : ∀ e ∈ s.hist, e.op.now ≤ e.tacq := fun e he => (ht.hist e he).1
  have key := hseq (preH.map toCallSeq) (toCallSeq ea) (midH.map toCallSeq) (toCallSeq eb) (postH.map toCallSeq)
    (by rw [hH]; simp)
    ha hb
    (by
      intro c hc
      rcases List.mem_append.1 hc with hc | hc
      · obtain ⟨e, he, rfl⟩ := List.mem_map.1 hc
        have h1 := hnowle e (by rw [hH]; simp [he])
        have h2 := hmidle e he
        show e.op.now < ea.op.now + ttl
        have : eb.tacq < ea.op.now + ttl := hwin
        omega
      · simp only [List.mem_singleton] at hc; subst hc
        have h1 := hnowle eb (by rw [hH]; simp)
        show eb.op.now < ea.op.now + ttl
        have : eb.tacq < ea.op.now + ttl := hwin
        omega)
    (by rw [← distinctOthers_map_toCall]; exact hD)
  exact key

/-- under a monotone true clock every linearised call read the clock no later than it acquired the lock
(`now_k ≤ trueTime(acquire_k)`), and the linearisation order is the order of the acquisition times -/
theorem C23_reading_le_acquire (cap : Nat) (ttl : Int) (ls : List Label) (s : CSt)
    (h : (ts true cap ttl).run ls = some s) :
    (∀ e ∈ s.hist, e.op.now ≤ e.tacq ∧ e.tacq ≤ s.clock) ∧ s.hist.Pairwise (fun a b => a.tacq ≤ b.tacq) := by
  have ht := tinv_reachable (TS.reachable_of_run _ h)
  exact ⟨ht.hist, ht.sorted⟩

/-- what the driver's `observe` accepts (harness events with the internal critical-section steps inserted
by the model) is a run of the threaded model, so all of the above applies to every validated trace -/
theorem C23_observe_sound (mono : Bool) (cap : Nat) (ttl : Int) (ls : List Label) (s : CSt)
    (h : observe mono cap ttl ls = some s) :
    (ts mono cap ttl).run ((ts mono cap ttl).expandFrom expand (ts mono cap ttl).init ls) = some s :=
  TS.runExpand_run _ expand ls h

/-! ### non-vacuity -/

-- sequential: accepted, another nonce, replay inside the window → rejected; after the window → accepted again
example : results 2 10 [⟨0, 1⟩, ⟨1, 2⟩, ⟨5, 1⟩, ⟨10, 1⟩] = [true, true, false, true] := by decide
-- overflow: capacity 1, a second nonce evicts the first, whose replay is then accepted (hypothesis `< cap` fails)
example : results 1 10 [⟨0, 1⟩, ⟨1, 2⟩, ⟨2, 1⟩] = [true, true, true] := by decide
-- a non-monotone reading inside the window is still rejected
example : results 2 10 [⟨5, 1⟩, ⟨0, 1⟩] = [true, false] := by decide
-- the hypotheses of `ReplaySafe` are satisfiable on a real history of the model
example : Spec.checkPair false 2 10 ⟨0, 1, true, 0⟩ [⟨1, 2, true, 1⟩] ⟨5, 1, false, 5⟩ = some true := by decide
-- two threads racing on the same nonce: exactly one is accepted (observed trace, internal steps inserted)
example : ((observe true 2 10 [.call 0 7, .call 1 7, .readClock 0 0, .readClock 1 0, .acquire 1, .tick 3,
    .release 1, .acquire 0, .release 0, .ret 0 false, .ret 1 true]).map (fun s => s.hist.map (·.res))) =
    some [true, false] := by decide
-- a trace in which both racers are accepted is NOT a run of the model
example : (observe true 2 10 [.call 0 7, .call 1 7, .readClock 0 0, .readClock 1 0, .acquire 1,
    .release 1, .acquire 0, .release 0, .ret 0 true]).isSome = false := by decide

end VgiVerif.C23
