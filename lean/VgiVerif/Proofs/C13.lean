import VgiVerif.Lemmas.Token
import VgiVerif.Spec.C13
/-
C13 — stream tokens are bound to the method that minted them.

The repaired code binds the method through the *call*: the call token's AAD carries the method name (cache miss) and
the cache entry records it (cache hit); the cursor token is tied to its call by the authenticated call id.  So the
theorem needs the history invariant "every cursor belongs to a call of the same method" (`Inv.owner`) and the
uniqueness of call ids (`Inv.distinct`, from the freshness premise of `Step.init`).
-/
namespace VgiVerif.C13
open VgiVerif.Token VgiVerif.Gen

namespace Aux

/-- two cursor mints with the same envelope name the same stream -/
theorem cursor_tok_callId {z : Zstd} (hz : z.Lawful) {key : KeyId} {a b : CursorMint} (ha : a.WF) (hb : b.WF)
    (h : a.tok z key = b.tok z key) : a.callId = b.callId ∧ a.state = b.state := by
  unfold CursorMint.tok at h
  simp only [Tok.sealed.injEq, true_and] at h
  obtain ⟨_, _, hp⟩ := h
  have h1 := congrArg (unpackTagged z) hp
  rw [unpackTagged_pack z hz, unpackTagged_pack z hz] at h1
  have h2 : packCursorPlain a.t a.callId a.state = packCursorPlain b.t b.callId b.state := by
    simpa using h1
  have h3 := congrArg unpackCursorPlain h2
  rw [unpackCursorPlain_pack _ _ _ ha.1 ha.2.2.1, unpackCursorPlain_pack _ _ _ hb.1 hb.2.2.1] at h3
  simp only [Res.ok.injEq, Prod.mk.injEq] at h3
  exact ⟨h3.2, h3.1⟩

end Aux

/-- the method binding is in place in the extracted tree: AAD, mint, open, both cache writes, the check -/
theorem binding_in_place :
    Token.methodBound = true ∧ Token.methodBindingPartial = false ∧ Token.callAadHasMethod = true ∧
    Token.callAadMethodWidth = 0 ∧
    Token.methodBindingParts.all (·.2) = true := by decide

/-- **the call AAD binds the whole method name**: in the extracted layout (`method.encode() + sep`, nothing truncated
    or padded) two call AADs are equal only for the same method *and* the same identity — whatever the length of the
    names, whether one is a prefix of the other, ASCII or not (NUL-free names, i.e. identifiers) -/
theorem C13_call_aad_binds_method (m m' : List Char) (i j : Identity) (hm : NulFree m) (hm' : NulFree m')
    (hi : i.NulFreeDomain) (hj : j.NulFreeDomain)
    (h : callAad Shape.extracted.methodBound m i = callAad Shape.extracted.methodBound m' j) : m = m' ∧ i = j :=
  callAad_inj_bound hm hm' hi hj h

example : callAad true ("gen".toList) .anonymous ≠ callAad true ("gena".toList) .anonymous := by decide
example : callAad true (List.replicate 40 'a' ++ ['1']) .anonymous ≠ callAad true (List.replicate 40 'a' ++ ['2']) .anonymous := by
  decide

/-- the streams of a history as the spec sees them: per `/init`, the texts of its call token and of every cursor
    carrying its call id -/
def streams (E : Wire) (z : Zstd) (key : KeyId) (W : World) : List (Spec.StreamTokens (List Char)) :=
  W.calls.map fun km =>
    ⟨km.method, km.callId,
      E.enc (km.tok Shape.extracted z key) ::
        ((W.cursors.filter (fun cm => cm.callId == km.callId)).map (fun cm => E.enc (cm.tok z key)))⟩

/-- **C13** — in every reachable history, a continuation / exchange / cancel accepted at the endpoint of `r.method`
    presents the cursor of a stream that `r.method`'s own `/init` started: the call behind it was minted by that
    `/init`, the cursor was minted by `/init` or by an earlier turn at the same endpoint, and the state about to be
    processed is the state sealed in that cursor. -/
theorem C13_method_bound {E : Wire} {z : Zstd} {D : Decoders} {srv : Server} {keys : List KeyId} {W : World} {i : Nat}
    {r : Req} {effs : List Effect} {acc : Accepted}
    (hz : z.Lawful) (hk : srv.key ∉ keys) (hW : Reachable Shape.extracted E z D srv keys W)
    (hknown : ReqKnown E (W.toks Shape.extracted z srv.key) keys r) (hnf : r.who.NulFreeDomain) (hnm : NulFree r.method)
    (h : recover Shape.extracted E z D srv (W.caches i) r = (effs, .ok acc)) :
    Spec.AcceptedOnlyAtMintingMethod (streams E z srv.key W) r.method r.cursor ∧
    ∃ km ∈ W.calls, ∃ cm ∈ W.cursors, km.method = r.method ∧ cm.method = r.method ∧ km.callId = cm.callId ∧
      r.cursor = E.enc (cm.tok z srv.key) ∧ acc.state = cm.state ∧ acc.entry.body = km.body := by
  have hinv := reachable_inv hz hk hW
  obtain ⟨cm, hcm, km, hkm, S⟩ := recover_sound hinv hz hk hknown hnf hnm h
  obtain ⟨m1, m2, _⟩ := S.method rfl
  have htext := S.cursorText rfl
  refine ⟨⟨⟨km.method, km.callId, _⟩, List.mem_map.mpr ⟨km, hkm, rfl⟩, m1, ?_⟩,
    km, hkm, cm, hcm, m1, m2, by rw [S.callId, S.cursorCall], htext, S.cursorState.symm, S.callBody.symm⟩
  simp only [List.mem_cons, List.mem_map, List.mem_filter, beq_iff_eq]
  exact Or.inr ⟨cm, ⟨hcm, by rw [S.cursorCall, S.callId]⟩, htext.symm⟩

/-- **C13, rejection** — a cursor token minted in another method's stream is never accepted at this endpoint
    (whatever call token accompanies it, warm or cold cache) -/
theorem C13_foreign_rejected {E : Wire} {z : Zstd} {D : Decoders} {srv : Server} {keys : List KeyId} {W : World} {i : Nat}
    {r : Req} {effs : List Effect} {acc : Accepted}
    (hE : E.Lawful) (hz : z.Lawful) (hk : srv.key ∉ keys) (hW : Reachable Shape.extracted E z D srv keys W)
    (hknown : ReqKnown E (W.toks Shape.extracted z srv.key) keys r) (hnf : r.who.NulFreeDomain) (hnm : NulFree r.method)
    (foreign : CursorMint) (hf : foreign ∈ W.cursors) (hm : foreign.method ≠ r.method)
    (htext : r.cursor = E.enc (foreign.tok z srv.key)) :
    recover Shape.extracted E z D srv (W.caches i) r ≠ (effs, .ok acc) := by
  intro h
  have hinv := reachable_inv hz hk hW
  obtain ⟨cm, hcm, km, hkm, S⟩ := recover_sound hinv hz hk hknown hnf hnm h
  obtain ⟨m1, m2, _⟩ := S.method rfl
  have hd := S.cursorDec
  rw [htext, hE] at hd
  simp only [Option.some.injEq] at hd
  have hc := (Aux.cursor_tok_callId hz (hinv.wfc _ hf) (hinv.wfc _ hcm) hd).1
  obtain ⟨kf, hkf, f1, _, f3⟩ := hinv.owner foreign hf
  have : kf = km := hinv.distinct kf hkf km hkm (by rw [f1, hc, S.cursorCall, S.callId])
  subst this
  exact hm (by rw [← f3 rfl, m1])

/-- **C13, history** — streams stay with their method: every cursor ever minted carries the call id of a call
    minted by the `/init` of the method whose endpoint minted the cursor -/
theorem C13_streams_stay_with_method {E : Wire} {z : Zstd} {D : Decoders} {srv : Server} {keys : List KeyId} {W : World}
    (hz : z.Lawful) (hk : srv.key ∉ keys) (hW : Reachable Shape.extracted E z D srv keys W) :
    ∀ cm ∈ W.cursors, ∃ km ∈ W.calls, km.callId = cm.callId ∧ km.who = cm.who ∧ km.method = cm.method := by
  intro cm hcm
  obtain ⟨km, hkm, a, b, c⟩ := (reachable_inv hz hk hW).owner cm hcm
  exact ⟨km, hkm, a, b, c rfl⟩

/-- **C13, one endpoint per token** — the same cursor text is never accepted at the endpoints of two different
    methods, on any two workers (cache states `i`, `j`), whatever call tokens, identities and inputs accompany it -/
theorem C13_one_endpoint_per_token {E : Wire} {z : Zstd} {D : Decoders} {srv : Server} {keys : List KeyId} {W : World}
    {i j : Nat} {r r' : Req} {effs effs' : List Effect} {acc acc' : Accepted}
    (hE : E.Lawful) (hz : z.Lawful) (hk : srv.key ∉ keys) (hW : Reachable Shape.extracted E z D srv keys W)
    (hknown : ReqKnown E (W.toks Shape.extracted z srv.key) keys r) (hnf : r.who.NulFreeDomain) (hnm : NulFree r.method)
    (hknown' : ReqKnown E (W.toks Shape.extracted z srv.key) keys r') (hnf' : r'.who.NulFreeDomain)
    (hnm' : NulFree r'.method) (hcur : r.cursor = r'.cursor)
    (h : recover Shape.extracted E z D srv (W.caches i) r = (effs, .ok acc))
    (h' : recover Shape.extracted E z D srv (W.caches j) r' = (effs', .ok acc')) : r.method = r'.method := by
  apply Classical.byContradiction
  intro hne
  obtain ⟨_, _, _, cm', hcm', _, hm', _, htext', _⟩ := C13_method_bound hz hk hW hknown' hnf' hnm' h'
  exact C13_foreign_rejected hE hz hk hW hknown hnf hnm cm' hcm' (by rw [hm']; exact fun e => hne e.symm)
    (hcur.trans htext') h

end VgiVerif.C13
