import VgiVerif.Spec.C10
import VgiVerif.Proofs.Engine
/-
C10 proofs.  Helper lemmas in `Aux`; the property theorems (obligations) are the `C10_*` theorems.
-/
namespace VgiVerif.C10
open VgiVerif.Engine

namespace Aux

/-! ### coerceInput -/

theorem castCols_schema (env : Env) : ∀ (cs : List Col) (decl : Schema) (r : List Col),
    castCols env cs decl = some r → r.map Col.field = decl := by
  intro cs
  induction cs with
  | nil =>
    intro decl r h
    cases decl with
    | nil => simp [castCols] at h; subst h; rfl
    | cons f fs => simp [castCols] at h
  | cons c cs ih =>
    intro decl r h
    cases decl with
    | nil => simp [castCols] at h
    | cons f fs =>
      simp only [castCols] at h
      cases hc : env.cast c.data c.ty f.ty with
      | none => simp [hc] at h
      | some d =>
        simp only [hc] at h
        cases hr : castCols env cs fs with
        | none => simp [hr] at h
        | some r' =>
          simp only [hr, Option.some.injEq] at h
          subst h
          simp [Col.field, ih fs r' hr]

theorem sameSet_iff (a b : List Str) : sameSet a b = true ↔ ∀ n, n ∈ a ↔ n ∈ b := by
  simp only [sameSet, Bool.and_eq_true, List.all_eq_true, List.contains_iff_mem]
  constructor
  · intro ⟨h1, h2⟩ n; exact ⟨h1 n, h2 n⟩
  · intro h; exact ⟨fun n hn => (h n).1 hn, fun n hn => (h n).2 hn⟩

theorem C10_inputs_schema_aux (env : Env) (decl : Schema) (b b' : IBatch)
    (h : coerceInput env decl b = .ok b') : b'.schema = decl := by
  unfold coerceInput at h
  split at h
  · rename_i heq
    cases h; exact heq
  · split at h
    · cases h
    · split at h
      · cases h
      · rename_i b1 _
        split at h
        · split at h
          · rename_i cs hcs
            cases h
            exact castCols_schema env _ _ _ hcs
          · cases h
        · rename_i hne
          cases h
          exact Decidable.of_not_not hne

theorem mismatch_type (decl got : Schema) : (mismatchExn decl got).type = "TypeError".toList := by
  simp [mismatchExn, Gen.C10.coerceCastRaises]

/-! ### event shapes -/

theorem drainAll_logs : ∀ (xs : List Item) (e : Ev), e ∈ drainAll xs → ∃ l, e = .log l := by
  intro xs
  induction xs with
  | nil => intro e h; simp [drainAll] at h
  | cons x r ih =>
    intro e h
    cases x with
    | log l =>
      simp only [drainAll, List.mem_cons] at h
      rcases h with h | h
      · exact ⟨l, h⟩
      · exact ih e h
    | data b => exact ih e (by simpa [drainAll] using h)
    | err x => exact ih e (by simpa [drainAll] using h)
    | token t => exact ih e (by simpa [drainAll] using h)

theorem onCancels_append (a b : List SEv) : onCancels (a ++ b) = onCancels a + onCancels b := by
  simp [onCancels, List.filter_append]

@[simp] theorem onCancels_process (k : Nat) (sch : Schema) : onCancels [SEv.process k sch] = 0 := rfl
@[simp] theorem onCancels_onCancel (k : Nat) : onCancels [SEv.onCancel k] = 1 := rfl

/-! ### socket family: how one op changes the server log -/
section Pipe
open PipeM
variable (env : Env) (p : Prog)

/-- one op leaves the server log alone, or appends one `process` whose input passed the coercion, or (cancel on an open
session) appends one `on_cancel` and closes the session -/
def PStep (s s' : St) : Prop :=
  s'.slog = s.slog ∨
  (∃ b b', coerceInput env p.decl b = .ok b' ∧ s'.slog = s.slog ++ [.process s.k b'.schema]) ∨
  (s.closed = false ∧ s'.closed = true ∧ s'.slog = s.slog ++ [.onCancel s.k])

theorem close_slog (s : St) : (close s).1.slog = s.slog := by
  unfold close; split <;> rfl

theorem close_closed (s : St) : (close s).1.closed = true := by
  unfold close; split <;> simp_all

theorem close_k (s : St) : (close s).1.k = s.k := by
  unfold close; split <;> rfl

theorem recv_slog (s2 : St) (items : List Item) : (recv s2 items).1.slog = s2.slog := by
  unfold recv
  split
  · rfl
  · simp [close_slog]
  · rfl
  · rfl

theorem serveBatch_slog (s : St) (b : IBatch) :
    (serveBatch env p s b).1.slog = s.slog ∨
    ∃ b', coerceInput env p.decl b = .ok b' ∧ (serveBatch env p s b).1.slog = s.slog ++ [.process s.k b'.schema] := by
  unfold serveBatch
  split
  · left; rfl
  · split
    · left; rfl
    · rename_i b' hb
      right
      refine ⟨b', hb, ?_⟩
      split <;> rfl

theorem sendRecv_pstep (op : String) (s : St) (b : IBatch) : PStep env p s (sendRecv env p op s b).1 := by
  unfold sendRecv
  by_cases hc : s.closed = true
  · rw [if_pos hc]; left; rfl
  · rw [if_neg hc]
    by_cases hm : wrongSchema s b = true
    · rw [if_pos hm]; left; rfl
    · rw [if_neg hm]
      unfold PStep
      simp only [recv_slog]
      rcases serveBatch_slog env p { s with wschema := some b.schema, writes := s.writes + 1 } b with h | ⟨b', hb, h⟩
      · left; exact h
      · right; left; exact ⟨b, b', hb, h⟩

theorem pstep_close (s s' : St) (h : PStep env p s s') : PStep env p s (close s').1 := by
  rcases h with h | ⟨b, b', hb, h⟩ | ⟨h1, _, h⟩
  · left; rw [close_slog]; exact h
  · right; left; exact ⟨b, b', hb, by rw [close_slog]; exact h⟩
  · right; right; exact ⟨h1, close_closed _, by rw [close_slog]; exact h⟩

theorem tick_pstep (s : St) : PStep env p s (tick env p s).1 := by
  have h := sendRecv_pstep env p "tick" s tickBatch
  unfold tick
  split
  · rename_i s' evs heq
    rw [heq] at h
    exact pstep_close env p s s' h
  · exact h

theorem next_pstep (s : St) : PStep env p s (next env p s).1 := by
  have h := tick_pstep env p s
  unfold next
  split
  · left; rfl
  · split
    · rename_i heq; rw [heq] at h; exact h
    · rename_i heq; rw [heq] at h; exact h

theorem exchange_pstep (s : St) (b : IBatch) : PStep env p s (exchange env p s b).1 := by
  have h := sendRecv_pstep env p "exchange" s b
  unfold exchange
  split
  · rename_i heq; rw [heq] at h; exact h
  · rename_i heq; rw [heq] at h; exact h

theorem cancel_pstep (s : St) : PStep env p s (cancel s).1 := by
  unfold cancel
  cases hc : s.closed with
  | true => left; simp
  | false =>
    cases hl : s.live with
    | true => right; right; simp [hc]
    | false => left; simp

theorem step_pstep (s : St) (op : Op) : PStep env p s (step env p s op).1 := by
  cases op with
  | next => exact next_pstep env p s
  | tick => exact tick_pstep env p s
  | send b => exact exchange_pstep env p s b
  | close => left; exact close_slog s
  | cancel => exact cancel_pstep env p s

/-! ### socket family: a closed session is inert -/

theorem closed_step (s : St) (h : s.closed = true) (op : Op) :
    (step env p s op).1.closed = true ∧ (step env p s op).1.slog = s.slog ∧
    (step env p s op).1.writes = s.writes ∧ PipeRefused op (step env p s op).2 := by
  cases op with
  | next =>
    cases hg : s.genDead with
    | true => simp [step, next, hg, h, PipeRefused]
    | false => simp [step, next, tick, sendRecv, hg, h, PipeRefused]
  | tick => simp [step, tick, sendRecv, h, PipeRefused]
  | send b => simp [step, exchange, sendRecv, h, PipeRefused]
  | close => simp [step, close, h, PipeRefused]
  | cancel => simp [step, cancel, h, PipeRefused]

theorem closed_run (ops : List Op) : ∀ (s : St), s.closed = true →
    (run env p s ops).1.closed = true ∧ (run env p s ops).1.slog = s.slog ∧
    (run env p s ops).1.writes = s.writes ∧ AllOps PipeRefused ops (run env p s ops).2 := by
  induction ops with
  | nil => intro s h; simp [run, h, AllOps]
  | cons op r ih =>
    intro s h
    obtain ⟨h1, h2, h3, h4⟩ := closed_step env p s h op
    obtain ⟨i1, i2, i3, i4⟩ := ih (step env p s op).1 h1
    simp only [run]
    exact ⟨i1, i2.trans h2, i3.trans h3, h4, i4⟩

theorem run_append (a b : List Op) : ∀ (s : St),
    run env p s (a ++ b) =
      ((run env p (run env p s a).1 b).1, (run env p s a).2 ++ (run env p (run env p s a).1 b).2) := by
  induction a with
  | nil => intro s; simp [run]
  | cons op r ih => intro s; simp [run, ih]

/-! ### socket family: invariants along a run -/

/-- `on_cancel` has not run, or it ran once and the session is closed -/
def PInv (s : St) : Prop := onCancels s.slog = 0 ∨ (s.closed = true ∧ onCancels s.slog = 1)

theorem pinv_step (s : St) (hi : PInv s) (op : Op) : PInv (step env p s op).1 := by
  cases hc : s.closed with
  | true =>
    obtain ⟨h1, h2, _, _⟩ := closed_step env p s hc op
    unfold PInv at hi ⊢
    rw [h2, h1]
    rcases hi with hi | hi
    · left; exact hi
    · right; exact ⟨rfl, hi.2⟩
  | false =>
    have h0 : onCancels s.slog = 0 := by
      rcases hi with hi | hi
      · exact hi
      · rw [hc] at hi; exact absurd hi.1 (by simp)
    rcases step_pstep env p s op with h | ⟨b, b', _, h⟩ | ⟨_, h2, h⟩
    · left; rw [h]; exact h0
    · left; rw [h, onCancels_append, h0]; rfl
    · right; refine ⟨h2, ?_⟩; rw [h, onCancels_append, h0]; rfl

theorem pinv_run (ops : List Op) : ∀ (s : St), PInv s → PInv (run env p s ops).1 := by
  induction ops with
  | nil => intro s h; exact h
  | cons op r ih => intro s h; simp only [run]; exact ih _ (pinv_step env p s h op)

theorem conform_step (s : St) (hi : InputsConform p.decl s.slog) (op : Op) :
    InputsConform p.decl (step env p s op).1.slog := by
  rcases step_pstep env p s op with h | ⟨b, b', hb, h⟩ | ⟨_, _, h⟩
  · rw [h]; exact hi
  · rw [h]
    intro k sch hm
    simp only [List.mem_append, List.mem_singleton, SEv.process.injEq] at hm
    rcases hm with hm | ⟨_, hm⟩
    · exact hi k sch hm
    · rw [hm]; exact C10_inputs_schema_aux env p.decl b b' hb
  · rw [h]
    intro k sch hm
    simp only [List.mem_append, List.mem_singleton] at hm
    rcases hm with hm | hm
    · exact hi k sch hm
    · cases hm

theorem conform_run (ops : List Op) : ∀ (s : St), InputsConform p.decl s.slog →
    InputsConform p.decl (run env p s ops).1.slog := by
  induction ops with
  | nil => intro s h; exact h
  | cons op r ih => intro s h; simp only [run]; exact ih _ (conform_step env p s h op)

theorem openS_st0 (m : Method) (s0 : St) (h : (openS m).2 = some s0) :
    s0.slog = [] ∧ s0.closed = false ∧ s0.k = 0 ∧ s0.genDead = false ∧ s0.wschema = none := by
  unfold openS at h
  split at h <;> simp at h <;> subst h <;> simp [st0]

end Pipe

/-! ### HTTP: how one op changes the server log -/
section Http
open HttpM
variable (c : Cfg) (p : Prog)

/-- the server log grew by `process` calls on conforming inputs only -/
def Grow (s s' : St) : Prop := ∃ l, s'.slog = s.slog ++ l ∧ ∀ e ∈ l, ∃ k, e = SEv.process k p.decl

theorem grow_refl (s s' : St) (h : s'.slog = s.slog) : Grow p s s' := ⟨[], by simp [h], by simp⟩

theorem grow_trans (s s' s'' : St) (h1 : Grow p s s') (h2 : Grow p s' s'') : Grow p s s'' := by
  obtain ⟨l1, e1, a1⟩ := h1
  obtain ⟨l2, e2, a2⟩ := h2
  refine ⟨l1 ++ l2, by rw [e2, e1, List.append_assoc], ?_⟩
  intro e he
  rcases List.mem_append.1 he with h | h
  · exact a1 e h
  · exact a2 e h

theorem producer_decl (h : p.isProducer = true) : p.decl = [] := by
  unfold Prog.isProducer at h
  exact List.isEmpty_iff.1 h

theorem turnLog_process (brk : Nat → Bool) : ∀ (rest : List Step) (pos : Nat) (e : SEv),
    e ∈ turnLog brk pos rest → ∃ k, e = SEv.process k [] := by
  intro rest
  induction rest with
  | nil => intro pos e h; simp [turnLog] at h; exact ⟨pos, h⟩
  | cons st r ih =>
    intro pos e h
    simp only [turnLog, List.mem_cons] at h
    rcases h with h | h
    · exact ⟨pos, h⟩
    · split at h
      · split at h
        · cases h
        · exact ih (pos + 1) e h
      · cases h

theorem serve_log (pos : Nat) (b : IBatch) : ∀ e ∈ (serve c p pos b).2, ∃ k, e = SEv.process k p.decl := by
  unfold serve
  split
  · rename_i hp
    intro e he
    obtain ⟨k, hk⟩ := turnLog_process c.brk _ _ e he
    exact ⟨k, by rw [hk, producer_decl p hp]⟩
  · split
    · intro e he; cases he
    · rename_i b' hb
      intro e he
      simp only [List.mem_singleton] at he
      exact ⟨pos, by rw [he, C10_inputs_schema_aux c.env p.decl b b' hb]⟩

/-! network: attempts, retries -/

theorem rep_mem (n : Nat) (l : List SEv) (e : SEv) (h : e ∈ rep n l) : e ∈ l := by
  unfold rep at h
  rw [List.mem_flatten] at h
  obtain ⟨x, hx, he⟩ := h
  rw [(List.mem_replicate.1 hx).2] at he
  exact he

theorem rep_one (l : List SEv) : rep 1 l = l := by simp [rep]

/-- a bare `client.post` is one attempt -/
theorem post_bare (r : Nat) : (post c false r).1 = 1 := by simp [post]

theorem attempts_clean (lost : Nat → Bool) (hl : ∀ r, lost r = false) (n r : Nat) : attempts lost n r = (1, true) := by
  cases n <;> simp [attempts, hl]

/-- nothing is lost: every request is one POST and is answered -/
theorem post_clean (hl : ∀ r, c.lost r = false) (retrying : Bool) (r : Nat) : post c retrying r = (1, .ok) := by
  unfold post
  split
  · simp [hl]
  · simp [attempts_clean c.lost hl]

theorem grow_rep (s s' : St) (n pos : Nat) (b : IBatch) (h : s'.slog = s.slog ++ rep n (serve c p pos b).2) :
    Grow p s s' :=
  ⟨_, h, fun e he => serve_log c p pos b e (rep_mem _ _ e he)⟩

/-- `pull` touches only the iterator position, the server log and the request counter -/
theorem pull_client (fuel : Nat) (s : St) (items : List Item) :
    (pull c p fuel s items).1.finished = s.finished ∧ (pull c p fuel s items).1.tok = s.tok ∧
    (pull c p fuel s items).1.perr = s.perr ∧ (pull c p fuel s items).1.pend = s.pend := by
  fun_induction pull c p fuel s items with
  | case1 => simp
  | case2 f s l r q ih => exact ih
  | case3 => simp
  | case4 => simp
  | case5 => simp
  | case6 => simp
  | case7 f s pos tail hchk hok ih => exact ih
  | case8 => simp

theorem pull_grow (fuel : Nat) (s : St) (items : List Item) : Grow p s (pull c p fuel s items).1 := by
  fun_induction pull c p fuel s items with
  | case1 => exact grow_refl p _ _ rfl
  | case2 f s l r q ih => exact ih
  | case3 => exact grow_refl p _ _ rfl
  | case4 => exact grow_refl p _ _ rfl
  | case5 => exact grow_refl p _ _ rfl
  | case6 => exact grow_refl p _ _ rfl
  | case7 f s pos tail hchk hok ih => exact grow_trans p s _ _ (grow_rep c p s _ _ pos tickBatch rfl) ih
  | case8 f s pos tail hchk hno => exact grow_rep c p s _ _ pos tickBatch rfl

/-- a finished session: `pull` never contacts the server (needs the `_finished` check in the token branch) -/
theorem pull_sealed (hchk : c.chk = true) (fuel : Nat) (s : St) (items : List Item) (hf : s.finished = true) :
    (pull c p fuel s items).1.slog = s.slog ∧ (pull c p fuel s items).1.reqs = s.reqs := by
  fun_induction pull c p fuel s items with
  | case1 => simp
  | case2 f s l r q ih => exact ih hf
  | case3 => simp
  | case4 => simp
  | case5 => simp
  | case6 => simp
  | case7 f s pos tail hno hok ih => simp [hchk, hf] at hno
  | case8 f s pos tail hno _ => simp [hchk, hf] at hno

/-- the session holds no usable token: `cancel()` ran, or the whole stream arrived with the init response -/
def Sealed (s : St) : Prop := s.finished = true ∧ s.tok = none

/-- one op: the log grows by conforming `process` calls, or (cancel of an unsealed session) by one `on_cancel` per POST
attempt of the cancel request, and the session is sealed -/
def HStep (s s' : St) : Prop :=
  Grow p s s' ∨
  (∃ pos, ¬ Sealed s ∧ Sealed s' ∧ s'.slog = s.slog ++ rep (post c c.retryCancel s.reqs).1 [.onCancel pos])

theorem afterPendingEnd_grow (s : St) : Grow p s (afterPendingEnd c p s).1 := by
  unfold afterPendingEnd
  split
  · exact grow_refl p _ _ rfl
  · split
    · exact grow_refl p _ _ rfl
    · split
      · exact grow_refl p _ _ rfl
      · rename_i pos _
        split
        · exact grow_trans p s _ _ (grow_rep c p s _ _ pos tickBatch rfl) (pull_grow c p _ _ _)
        · exact grow_rep c p s _ _ pos tickBatch rfl

theorem afterPending_grow (s : St) (j : Nat) : Grow p s (afterPending c p s j).1 := by
  unfold afterPending
  split
  · exact grow_refl p _ _ rfl
  · exact afterPendingEnd_grow c p s

theorem next_grow (s : St) : Grow p s (next c p s).1 := by
  unfold next
  split
  · exact grow_refl p _ _ rfl
  · exact afterPending_grow c p s 0
  · exact afterPending_grow c p s _
  · exact pull_grow c p _ _ _

theorem send_grow (s : St) (b : IBatch) : Grow p s (send c p s b).1 := by
  unfold send
  split
  · exact grow_refl p _ _ rfl
  · rename_i pos _
    split
    · split
      · exact grow_rep c p s _ _ pos b rfl
      · exact grow_rep c p s _ _ pos b rfl
    · exact grow_rep c p s _ _ pos b rfl

theorem cancel_hstep (s : St) : HStep c p s (cancel c s).1 := by
  unfold cancel
  split
  · rename_i pos hf ht
    right
    refine ⟨pos, ?_, ⟨rfl, rfl⟩, rfl⟩
    intro hs; rw [hs.2] at ht; cases ht
  · left; exact grow_refl p _ _ rfl

theorem step_hstep (s : St) (op : Op) : HStep c p s (step c p s op).1 := by
  cases op with
  | next => left; exact next_grow c p s
  | send b => left; exact send_grow c p s b
  | close => left; exact grow_refl p _ _ rfl
  | cancel => exact cancel_hstep c p s

/-! ### HTTP: a sealed session is inert -/

theorem afterPending_sealed (s : St) (j : Nat) (hs : Sealed s) :
    Sealed (afterPending c p s j).1 ∧ (afterPending c p s j).1.slog = s.slog ∧ (afterPending c p s j).1.reqs = s.reqs := by
  obtain ⟨hf, ht⟩ := hs
  unfold afterPending
  split
  · exact ⟨⟨hf, ht⟩, rfl, rfl⟩
  · unfold afterPendingEnd
    split
    · exact ⟨⟨hf, ht⟩, rfl, rfl⟩
    · simp [hf, Sealed, ht]

theorem sealed_step (hchk : c.chk = true) (s : St) (hs : Sealed s) (op : Op) :
    Sealed (step c p s op).1 ∧ (step c p s op).1.slog = s.slog ∧ (step c p s op).1.reqs = s.reqs ∧
    HttpRefused op (step c p s op).2 := by
  cases op with
  | next =>
    simp only [step, HttpRefused, and_true]
    unfold next
    split
    · exact ⟨hs, rfl, rfl⟩
    · exact afterPending_sealed c p s 0 hs
    · exact afterPending_sealed c p s _ hs
    · rename_i items _
      obtain ⟨h1, h2⟩ := pull_sealed c p hchk (fuel p) s items hs.1
      obtain ⟨g1, g2, _, _⟩ := pull_client c p (fuel p) s items
      exact ⟨⟨g1.trans hs.1, g2.trans hs.2⟩, h1, h2⟩
  | send b => simp [step, send, hs.2, HttpRefused, hs]
  | close => simp [step, HttpRefused, hs]
  | cancel =>
    obtain ⟨hf, ht⟩ := hs
    simp [step, cancel, hf, ht, HttpRefused, Sealed]

theorem sealed_run (hchk : c.chk = true) (ops : List Op) : ∀ (s : St), Sealed s →
    Sealed (run c p s ops).1 ∧ (run c p s ops).1.slog = s.slog ∧ (run c p s ops).1.reqs = s.reqs ∧
    AllOps HttpRefused ops (run c p s ops).2 := by
  induction ops with
  | nil => intro s h; simp [run, h, AllOps]
  | cons op r ih =>
    intro s h
    obtain ⟨h1, h2, h3, h4⟩ := sealed_step c p hchk s h op
    obtain ⟨i1, i2, i3, i4⟩ := ih (step c p s op).1 h1
    simp only [run]
    exact ⟨i1, i2.trans h2, i3.trans h3, h4, i4⟩

theorem hrun_append (a b : List Op) : ∀ (s : St),
    run c p s (a ++ b) =
      ((run c p (run c p s a).1 b).1, (run c p s a).2 ++ (run c p (run c p s a).1 b).2) := by
  induction a with
  | nil => intro s; simp [run]
  | cons op r ih => intro s; simp [run, ih]

/-! ### HTTP: invariants along a run -/

def HInv (s : St) : Prop := onCancels s.slog = 0 ∨ (Sealed s ∧ onCancels s.slog = 1)

theorem allProcess_onCancels (l : List SEv) (a : ∀ e ∈ l, ∃ k, e = SEv.process k p.decl) : onCancels l = 0 := by
  unfold onCancels
  rw [List.length_eq_zero_iff, List.filter_eq_nil_iff]
  intro x hx
  obtain ⟨k, hk⟩ := a x hx
  rw [hk]; simp [isOnCancel]

theorem grow_onCancels (s s' : St) (h : Grow p s s') : onCancels s'.slog = onCancels s.slog := by
  obtain ⟨l, e, a⟩ := h
  rw [e, onCancels_append, allProcess_onCancels p l a]
  omega

/-- needs BOTH extracted facts: the `_finished` check in `__iter__`, and the cancel POST not being retried -/
theorem hinv_step (hchk : c.chk = true) (hrc : c.retryCancel = false) (s : St) (hi : HInv s) (op : Op) :
    HInv (step c p s op).1 := by
  by_cases hs : Sealed s
  · obtain ⟨h1, h2, _, _⟩ := sealed_step c p hchk s hs op
    unfold HInv at hi ⊢
    rw [h2]
    rcases hi with hi | hi
    · left; exact hi
    · right; exact ⟨h1, hi.2⟩
  · have h0 : onCancels s.slog = 0 := by
      rcases hi with hi | hi
      · exact hi
      · exact absurd hi.1 hs
    rcases step_hstep c p s op with h | ⟨pos, _, h2, h⟩
    · left; rw [grow_onCancels p s _ h]; exact h0
    · right; refine ⟨h2, ?_⟩
      rw [h, hrc, post_bare, rep_one, onCancels_append, h0]; rfl

theorem hinv_run (hchk : c.chk = true) (hrc : c.retryCancel = false) (ops : List Op) :
    ∀ (s : St), HInv s → HInv (run c p s ops).1 := by
  induction ops with
  | nil => intro s h; exact h
  | cons op r ih => intro s h; simp only [run]; exact ih _ (hinv_step c p hchk hrc s h op)

theorem hconform_step (s : St) (hi : InputsConform p.decl s.slog) (op : Op) :
    InputsConform p.decl (step c p s op).1.slog := by
  rcases step_hstep c p s op with ⟨l, h, a⟩ | ⟨pos, _, _, h⟩
  · rw [h]
    intro k sch hm
    rcases List.mem_append.1 hm with hm | hm
    · exact hi k sch hm
    · obtain ⟨k', hk⟩ := a _ hm
      cases hk; rfl
  · rw [h]
    intro k sch hm
    rcases List.mem_append.1 hm with hm | hm
    · exact hi k sch hm
    · have := rep_mem _ _ _ hm
      simp at this

theorem hconform_run (ops : List Op) : ∀ (s : St), InputsConform p.decl s.slog →
    InputsConform p.decl (run c p s ops).1.slog := by
  induction ops with
  | nil => intro s h; exact h
  | cons op r ih => intro s h; simp only [run]; exact ih _ (hconform_step c p s h op)

theorem initBody_log (m : Method) : ∀ e ∈ (initBody c m).2, ∃ k, e = SEv.process k m.prog.decl := by
  unfold initBody
  split
  · rename_i hp
    intro e he
    obtain ⟨k, hk⟩ := turnLog_process c.brk _ _ e he
    exact ⟨k, by rw [hk, producer_decl m.prog hp]⟩
  · intro e he; cases he

/-- the ways `openS` ends, once the `/init` request was answered and the method body did not raise -/
theorem openS_cases (m : Method) (hi : m.init = none) (hok : (post c true 0).2 = .ok) :
    (∃ e, (Http.parseInit (initBody c m).1).err = some e ∧ (Http.parseInit (initBody c m).1).pending = [] ∧
        m.header = none ∧ openS c m = ((Http.parseInit (initBody c m).1).evs ++ [e], none)) ∨
    openS c m = (openEvs m (Http.parseInit (initBody c m).1), some (session c m (Http.parseInit (initBody c m).1))) := by
  unfold openS
  rw [hok, hi]
  simp only
  split
  · rename_i e he hpend hh
    exact Or.inl ⟨e, he, hpend, hh, rfl⟩
  · exact Or.inr rfl

theorem openS_session (m : Method) (s0 : St) (h : (openS c m).2 = some s0) :
    s0 = session c m (Http.parseInit (initBody c m).1) ∧ m.init = none ∧ (post c true 0).2 = .ok := by
  have hok : (post c true 0).2 = .ok := by
    unfold openS at h
    split at h
    · assumption
    · cases h
  have hinit : m.init = none := by
    unfold openS at h
    rw [hok] at h
    simp only at h
    split at h
    · cases h
    · assumption
  rcases openS_cases c m hinit hok with ⟨e, _, _, _, ho⟩ | ho
  · rw [ho] at h; cases h
  · rw [ho] at h
    simp only [Option.some.injEq] at h
    exact ⟨h.symm, hinit, hok⟩

theorem openS_slog (m : Method) (s0 : St) (h : (openS c m).2 = some s0) :
    s0.slog = rep (post c true 0).1 (initBody c m).2 := by
  rw [(openS_session c m s0 h).1]; rfl

end Http

/-! ### no op ever produces a header event -/

def NoHdr (evs : List Ev) : Prop := ∀ e ∈ evs, isHeader e = false

theorem nohdr_nil : NoHdr [] := by intro e h; cases h

theorem nohdr_append (a b : List Ev) (ha : NoHdr a) (hb : NoHdr b) : NoHdr (a ++ b) := by
  intro e h
  rcases List.mem_append.1 h with h | h
  · exact ha e h
  · exact hb e h

theorem nohdr_cons (x : Ev) (a : List Ev) (hx : isHeader x = false) (ha : NoHdr a) : NoHdr (x :: a) := by
  intro e h
  rcases List.mem_cons.1 h with h | h
  · rw [h]; exact hx
  · exact ha e h

theorem nohdr_single (x : Ev) (hx : isHeader x = false) : NoHdr [x] := nohdr_cons x [] hx nohdr_nil

theorem errEv_nohdr (e : Exn) : isHeader (errEv e) = false := rfl

theorem lgEv_logs (ls : List Log) : ∀ e ∈ lgEv ls, ∃ l, e = Ev.log l := by
  intro e h
  simp only [lgEv, List.mem_map] at h
  obtain ⟨l, _, hl⟩ := h
  exact ⟨l, hl.symm⟩

theorem logs_nohdr (evs : List Ev) (h : ∀ e ∈ evs, ∃ l, e = Ev.log l) : NoHdr evs := by
  intro e he
  obtain ⟨l, hl⟩ := h e he
  rw [hl]; rfl

theorem logs_nodata (evs : List Ev) (h : ∀ e ∈ evs, ∃ l, e = Ev.log l) :
    ∀ e ∈ evs, isData e = false ∧ isHeader e = false := by
  intro e he
  obtain ⟨l, hl⟩ := h e he
  rw [hl]; exact ⟨rfl, rfl⟩

theorem readUntilData_nohdr : ∀ xs : List Item, NoHdr (readUntilData xs).1 := by
  intro xs
  induction xs with
  | nil => exact nohdr_nil
  | cons x r ih =>
    cases x with
    | log l => simp only [readUntilData]; exact nohdr_cons _ _ rfl ih
    | data b => simp only [readUntilData]; exact nohdr_single _ rfl
    | err e => simp only [readUntilData]; exact nohdr_single _ rfl
    | token t => simp only [readUntilData]; exact nohdr_nil

theorem drainAll_nohdr (xs : List Item) : NoHdr (drainAll xs) := logs_nohdr _ (drainAll_logs xs)

theorem trailing_nohdr : ∀ xs : List Item, NoHdr (Http.trailing xs) := by
  intro xs
  induction xs with
  | nil => exact nohdr_nil
  | cons x r ih =>
    cases x with
    | log l => simp only [Http.trailing]; exact nohdr_cons _ _ rfl ih
    | data b => simp only [Http.trailing]; exact ih
    | err e => simp only [Http.trailing]; exact nohdr_single _ rfl
    | token t => simp only [Http.trailing]; exact ih

theorem parseInit_evs_logs : ∀ (xs : List Item) (e : Ev), e ∈ (Http.parseInit xs).evs → ∃ l, e = Ev.log l := by
  intro xs
  induction xs with
  | nil => intro e h; simp [Http.parseInit] at h
  | cons x r ih =>
    intro e h
    cases x with
    | log l =>
      simp only [Http.parseInit, List.mem_cons] at h
      rcases h with h | h
      · exact ⟨l, h⟩
      · exact ih e h
    | data b => simp only [Http.parseInit] at h; exact ih e h
    | err x => simp [Http.parseInit] at h
    | token t => simp [Http.parseInit] at h

theorem parseInit_err : ∀ (xs : List Item) (e : Ev), (Http.parseInit xs).err = some e → isHeader e = false := by
  intro xs
  induction xs with
  | nil => intro e h; simp [Http.parseInit] at h
  | cons x r ih =>
    intro e h
    cases x with
    | log l => simp only [Http.parseInit] at h; exact ih e h
    | data b => simp only [Http.parseInit] at h; exact ih e h
    | err x => simp only [Http.parseInit, Option.some.injEq] at h; rw [← h]; rfl
    | token t => simp [Http.parseInit] at h

section PipeHdr
open PipeM
variable (env : Env) (p : Prog)

theorem close_nohdr (s : St) : NoHdr (close s).2 := by
  unfold close; split
  · exact nohdr_nil
  · exact drainAll_nohdr _

theorem cancel_nohdr (s : St) : NoHdr (cancel s).2 := by
  unfold cancel; split
  · exact nohdr_nil
  · exact drainAll_nohdr _

theorem recv_nohdr (s2 : St) (items : List Item) : NoHdr (recv s2 items).2.1 := by
  have h := readUntilData_nohdr (s2.unread ++ items)
  unfold recv
  split <;> rename_i heq <;> rw [heq] at h
  · exact h
  · exact nohdr_append _ _ h (close_nohdr _)
  · exact h
  · exact h

theorem sendRecv_nohdr (op : String) (s : St) (b : IBatch) : NoHdr (sendRecv env p op s b).2.1 := by
  unfold sendRecv
  by_cases hc : s.closed = true
  · rw [if_pos hc]; exact nohdr_single _ rfl
  · rw [if_neg hc]
    by_cases hm : wrongSchema s b = true
    · rw [if_pos hm]; exact nohdr_single _ rfl
    · rw [if_neg hm]; exact recv_nohdr _ _

theorem tick_nohdr (s : St) : NoHdr (tick env p s).2.1 := by
  have h := sendRecv_nohdr env p "tick" s tickBatch
  unfold tick
  split
  · rename_i s' evs heq
    rw [heq] at h
    exact nohdr_append _ _ (nohdr_append _ _ h (close_nohdr _)) (nohdr_single _ rfl)
  · exact h

theorem next_nohdr (s : St) : NoHdr (next env p s).2.1 := by
  have h := tick_nohdr env p s
  unfold next
  split
  · exact nohdr_single _ rfl
  · split
    · rename_i heq; rw [heq] at h; exact h
    · rename_i heq; rw [heq] at h; exact h

theorem exchange_nohdr (s : St) (b : IBatch) : NoHdr (exchange env p s b).2 := by
  have h := sendRecv_nohdr env p "exchange" s b
  unfold exchange
  split
  · rename_i heq; rw [heq] at h; exact nohdr_append _ _ h (nohdr_single _ rfl)
  · rename_i heq; rw [heq] at h; exact h

theorem step_nohdr (s : St) (op : Op) : NoHdr (step env p s op).2 := by
  cases op with
  | next => exact next_nohdr env p s
  | tick => exact tick_nohdr env p s
  | send b => exact exchange_nohdr env p s b
  | close => exact close_nohdr s
  | cancel => exact cancel_nohdr s

theorem run_nohdr (ops : List Op) : ∀ s : St, NoHdr (run env p s ops).2.flatten := by
  induction ops with
  | nil => intro s; exact nohdr_nil
  | cons op r ih =>
    intro s
    simp only [run, List.flatten_cons]
    exact nohdr_append _ _ (step_nohdr env p s op) (ih _)

end PipeHdr

section HttpHdr
open HttpM
variable (c : Cfg) (p : Prog)

/-- the buffered error of the init response is an error event -/
def PerrOk (s : St) : Prop := ∀ e, s.perr = some e → isHeader e = false

theorem failEv_nohdr (o : Sent) : isHeader (failEv o) = false := by cases o <;> rfl

theorem readX_nohdr : ∀ xs : List Item, NoHdr (readX xs).1 := by
  intro xs
  induction xs with
  | nil => exact nohdr_nil
  | cons x r ih =>
    cases x with
    | log l => simp only [readX]; exact nohdr_cons _ _ rfl ih
    | data b =>
      simp only [readX]
      split
      · exact trailing_nohdr r
      · exact nohdr_append _ _ (trailing_nohdr r) (nohdr_single _ rfl)
    | err e => simp only [readX]; exact nohdr_single _ rfl
    | token t => simp only [readX]; exact ih

theorem pull_nohdr (fuel : Nat) (s : St) (items : List Item) : NoHdr (pull c p fuel s items).2.1 := by
  fun_induction pull c p fuel s items with
  | case1 => exact nohdr_single _ rfl
  | case2 f s l r q ih => exact nohdr_cons _ _ rfl ih
  | case3 => exact nohdr_single _ rfl
  | case4 => exact nohdr_single _ rfl
  | case5 => exact nohdr_nil
  | case6 => exact nohdr_single _ rfl
  | case7 f s pos tail hchk hok ih => exact ih
  | case8 f s pos tail hchk hno => exact nohdr_single _ (failEv_nohdr _)

theorem afterPending_nohdr (s : St) (j : Nat) (hp : PerrOk s) : NoHdr (afterPending c p s j).2.1 := by
  unfold afterPending
  split
  · exact nohdr_single _ rfl
  · unfold afterPendingEnd
    split
    · rename_i e he; exact nohdr_single _ (hp e he)
    · split
      · exact nohdr_single _ rfl
      · split
        · exact nohdr_single _ rfl
        · split
          · exact pull_nohdr c p _ _ _
          · exact nohdr_single _ (failEv_nohdr _)

theorem afterPending_perr (s : St) (j : Nat) (hp : PerrOk s) : PerrOk (afterPending c p s j).1 := by
  unfold afterPending
  split
  · exact hp
  · unfold afterPendingEnd
    split
    · intro e he; cases he
    · split
      · exact hp
      · split
        · exact hp
        · split
          · intro e he
            rw [(pull_client c p _ _ _).2.2.1] at he
            exact hp e he
          · exact hp

theorem step_nohdr_http (s : St) (op : Op) (hp : PerrOk s) :
    NoHdr (step c p s op).2 ∧ PerrOk (step c p s op).1 := by
  cases op with
  | next =>
    simp only [step]
    unfold next
    split
    · exact ⟨nohdr_single _ rfl, hp⟩
    · exact ⟨afterPending_nohdr c p s 0 hp, afterPending_perr c p s 0 hp⟩
    · exact ⟨afterPending_nohdr c p s _ hp, afterPending_perr c p s _ hp⟩
    · refine ⟨pull_nohdr c p _ _ _, ?_⟩
      intro e he
      rw [(pull_client c p _ _ _).2.2.1] at he
      exact hp e he
  | send b =>
    simp only [step]
    unfold send
    split
    · exact ⟨nohdr_single _ rfl, hp⟩
    · rename_i pos _
      have h := readX_nohdr (serve c p pos b).1
      split
      · split <;> rename_i heq <;> rw [heq] at h
        · exact ⟨h, hp⟩
        · refine ⟨?_, hp⟩
          split
          · exact h
          · exact nohdr_append _ _ h (nohdr_single _ rfl)
      · exact ⟨nohdr_single _ (failEv_nohdr _), hp⟩
  | close => exact ⟨nohdr_nil, hp⟩
  | cancel =>
    simp only [step]
    unfold cancel
    split
    · exact ⟨nohdr_nil, hp⟩
    · exact ⟨nohdr_nil, hp⟩

theorem run_nohdr_http (ops : List Op) : ∀ s : St, PerrOk s → NoHdr (run c p s ops).2.flatten := by
  induction ops with
  | nil => intro s _; exact nohdr_nil
  | cons op r ih =>
    intro s hp
    simp only [run, List.flatten_cons]
    obtain ⟨h1, h2⟩ := step_nohdr_http c p s op hp
    exact nohdr_append _ _ h1 (ih _ h2)

end HttpHdr

/-! ### what `Sem` delivers, component by component -/

theorem datasOf_lg (ls : List Log) : datasOf (Sem.lg ls) = [] := by
  induction ls with
  | nil => rfl
  | cons l r ih => simp only [Sem.lg, List.map_cons] at ih ⊢; exact ih

theorem restOf_lg (ls : List Log) : restOf (Sem.lg ls) = [] := by
  induction ls with
  | nil => rfl
  | cons l r ih => simp only [Sem.lg, List.map_cons] at ih ⊢; exact ih

theorem restOf_errEv (e : Exn) : restOf [errEv e] = [errEv e] := rfl
theorem datasOf_errEv (e : Exn) : datasOf [errEv e] = [] := rfl
theorem datasOf_data (b : Batch) : datasOf [Ev.data b] = [b] := rfl
theorem restOf_data (b : Batch) : restOf [Ev.data b] = [] := rfl
theorem datasOf_fin : datasOf [Ev.fin] = [] := rfl
theorem restOf_fin : restOf [Ev.fin] = [Ev.fin] := rfl

theorem producer_datas (steps : List Step) : datasOf (Sem.producer false steps) = emitted steps := by
  induction steps with
  | nil => rfl
  | cons s r ih =>
    cases hact : s.act <;>
      simp [Sem.producer, emitted, hact, Engine.Aux.datasOf_append, datasOf_lg, ih, Sem.failLogs, datasOf_errEv,
        datasOf_fin]

theorem producer_rest (steps : List Step) : restOf (Sem.producer false steps) = terminal steps := by
  induction steps with
  | nil => rfl
  | cons s r ih =>
    cases hact : s.act <;>
      simp [Sem.producer, terminal, hact, Engine.Aux.restOf_append, restOf_lg, ih, Sem.failLogs, restOf_errEv,
        restOf_fin]

theorem exchange_datas (steps : List Step) : datasOf (Sem.exchange false steps) = exchanged steps := by
  induction steps with
  | nil => rfl
  | cons s r ih =>
    cases hact : s.act <;>
      simp [Sem.exchange, exchanged, hact, Engine.Aux.datasOf_append, datasOf_lg, ih, Sem.failLogs, datasOf_errEv]

theorem exchange_rest (steps : List Step) : restOf (Sem.exchange false steps) = exchangeEnd steps := by
  induction steps with
  | nil => rfl
  | cons s r ih =>
    cases hact : s.act <;>
      simp [Sem.exchange, exchangeEnd, hact, Engine.Aux.restOf_append, restOf_lg, ih, Sem.failLogs, restOf_errEv]

theorem allEmit_exchanged (steps : List Step) (h : AllEmit steps) :
    (exchanged steps).length = steps.length ∧ exchangeEnd steps = [] := by
  induction steps with
  | nil => exact ⟨rfl, rfl⟩
  | cons s r ih =>
    obtain ⟨b, hb⟩ := h s (by simp)
    have hr : AllEmit r := fun x hx => h x (by simp [hx])
    simp [exchanged, exchangeEnd, hb, ih hr]

theorem finish_refused (pre : List Step) (s : Step) (post : List Step) (h : AllEmit pre)
    (hs : s.act = .finish ∨ ∃ b, s.act = .emitFinish b) :
    (exchanged (pre ++ s :: post)).length = pre.length ∧ exchangeEnd (pre ++ s :: post) = [errEv finishOnExchangeExn] := by
  induction pre with
  | nil =>
    rcases hs with hs | ⟨b, hs⟩ <;> simp [exchanged, exchangeEnd, hs]
  | cons x r ih =>
    obtain ⟨b, hb⟩ := h x (by simp)
    have hr : AllEmit r := fun y hy => h y (by simp [hy])
    simp [exchanged, exchangeEnd, hb, ih hr]

/-! ### socket family: a producer session iterated to its end is `Engine.Pipe.iterate` -/
section PipeSession
open PipeM Engine.Aux
variable (env : Env) (p : Prog)

theorem coerce_tick (env : Env) : coerceInput env [] tickBatch = .ok tickBatch := by
  simp [coerceInput, tickBatch, IBatch.schema]

theorem wrongSchema_tick (s : St) (h : s.wschema = none ∨ s.wschema = some []) : wrongSchema s tickBatch = false := by
  unfold wrongSchema
  rcases h with h | h <;> simp [h, tickBatch, IBatch.schema]

theorem stepAt_of_drop (k : Nat) (st : Step) (r : List Step) (h : p.steps.drop k = st :: r) : p.stepAt k = st := by
  have : p.steps[k]? = some st := by
    have := List.getElem?_drop (xs := p.steps) (i := k) (j := 0)
    rw [h] at this
    simpa using this.symm
  simp [Prog.stepAt, this]

theorem stepAt_past (k : Nat) (h : p.steps.drop k = []) (hd : p.decl = []) : p.stepAt k = ⟨[], .finish, []⟩ := by
  have : p.steps[k]? = none := by
    rw [List.getElem?_eq_none_iff]
    exact List.drop_eq_nil_iff.1 h
  simp [Prog.stepAt, this, Prog.isProducer, hd]

/-- the served state after one `process` call -/
def served (s : St) (sch : Schema) (live : Bool) : St :=
  { s with k := s.k + 1, slog := s.slog ++ [.process s.k sch], live := live }

theorem serveBatch_ok (s : St) (b b' : IBatch) (hl : s.live = true) (hb : coerceInput env p.decl b = .ok b') :
    serveBatch env p s b =
      (match runStep p s.k with
       | .cont items => (served s b'.schema true, items)
       | .done items => (served s b'.schema false, items)
       | .fail items => (served s b'.schema false, items)) := by
  simp only [serveBatch, hl, hb, served]
  cases runStep p s.k <;> simp

theorem serveBatch_dead (s : St) (b : IBatch) (hl : s.live = false) : serveBatch env p s b = (s, []) := by
  simp [serveBatch, hl]

theorem recv_data (s2 : St) (c a post : List Log) (b : Batch) (hu : s2.unread = logItems c) :
    recv s2 (logItems a ++ [Item.data b] ++ logItems post) =
      ({ s2 with unread := logItems post }, Sem.lg (c ++ a) ++ [.data b], .data) := by
  unfold recv
  rw [hu, regroup, read_logs_data]

theorem recv_eos (s2 : St) (c a : List Log) (hu : s2.unread = logItems c) :
    recv s2 (logItems a) = ({ s2 with unread := [] }, Sem.lg (c ++ a), .eos) := by
  unfold recv
  rw [hu, ← logItems_append, read_logs_only]

theorem recv_err (s2 : St) (c a : List Log) (e : Exn) (hu : s2.unread = logItems c) :
    recv s2 (logItems a ++ [Item.err e]) =
      ((close { s2 with unread := [] }).1, Sem.lg (c ++ a) ++ [errEv e] ++ (close { s2 with unread := [] }).2, .error) := by
  unfold recv
  rw [hu, regroup_err, read_logs_err]

/-- a session in the state the producer iteration keeps it in -/
structure Ready (s : St) (c : List Log) : Prop where
  closed : s.closed = false
  gen : s.genDead = false
  ws : s.wschema = none ∨ s.wschema = some []
  unread : s.unread = logItems c

theorem sendRecv_tick (s : St) (c : List Log) (h : Ready s c) (op : String) :
    sendRecv env p op s tickBatch =
      recv (serveBatch env p { s with wschema := some [], writes := s.writes + 1 } tickBatch).1
           (serveBatch env p { s with wschema := some [], writes := s.writes + 1 } tickBatch).2 := by
  unfold sendRecv
  rw [if_neg (by simp [h.closed]), if_neg (by simp [wrongSchema_tick s h.ws])]
  rfl

theorem nextN_succ (n : Nat) (s : St) :
    nextN env p (n + 1) s =
      match next env p s with
      | (s', evs, true) => ((nextN env p n s').1, evs ++ (nextN env p n s').2)
      | (s', evs, false) => (s', evs) := by
  simp only [nextN]
  split <;> simp_all

/-- state after the server ran `process` for a tick of a ready session -/
def ticked (s : St) (live : Bool) (unread : List Item) : St :=
  { s with wschema := some [], writes := s.writes + 1, k := s.k + 1, slog := s.slog ++ [.process s.k []],
           live := live, unread := unread }

theorem tick_run (s : St) (c : List Log) (h : Ready s c) (hl : s.live = true) (hd : p.decl = []) :
    sendRecv env p "tick" s tickBatch =
      (match runStep p s.k with
       | .cont items => recv (ticked s true s.unread) items
       | .done items => recv (ticked s false s.unread) items
       | .fail items => recv (ticked s false s.unread) items) := by
  have hct : coerceInput env p.decl tickBatch = .ok tickBatch := by rw [hd]; exact coerce_tick env
  rw [sendRecv_tick env p s c h,
    serveBatch_ok env p { s with wschema := some [], writes := s.writes + 1 } tickBatch tickBatch hl hct]
  cases runStep p s.k <;> rfl

theorem next_emit (s : St) (c : List Log) (h : Ready s c) (hl : s.live = true) (hd : p.decl = []) (b : Batch)
    (hact : (p.stepAt s.k).act = .emit b) :
    next env p s = (ticked s true (logItems (p.stepAt s.k).post), Sem.lg (c ++ (p.stepAt s.k).logs) ++ [.data b], true) := by
  have hp : p.isProducer = true := by simp [Prog.isProducer, hd]
  have hrs : runStep p s.k = .cont (logItems (p.stepAt s.k).logs ++ [Item.data b] ++ logItems (p.stepAt s.k).post) := by
    simp [runStep, hp, processStep, hact]
  simp only [next, h.gen, Bool.false_eq_true, if_false, tick]
  rw [tick_run env p s c h hl hd]
  simp only [hrs]
  rw [recv_data _ c _ _ b (by simp [ticked, h.unread])]
  rfl

theorem next_emitFinish (s : St) (c : List Log) (h : Ready s c) (hl : s.live = true) (hd : p.decl = []) (b : Batch)
    (hact : (p.stepAt s.k).act = .emitFinish b) :
    next env p s = (ticked s false (logItems (p.stepAt s.k).post), Sem.lg (c ++ (p.stepAt s.k).logs) ++ [.data b], true) := by
  have hp : p.isProducer = true := by simp [Prog.isProducer, hd]
  have hrs : runStep p s.k = .done (logItems (p.stepAt s.k).logs ++ [Item.data b] ++ logItems (p.stepAt s.k).post) := by
    simp [runStep, hp, processStep, hact]
  simp only [next, h.gen, Bool.false_eq_true, if_false, tick]
  rw [tick_run env p s c h hl hd]
  simp only [hrs]
  rw [recv_data _ c _ _ b (by simp [ticked, h.unread])]
  rfl

theorem next_finish (s : St) (c : List Log) (h : Ready s c) (hl : s.live = true) (hd : p.decl = [])
    (hact : (p.stepAt s.k).act = .finish) :
    (next env p s).2 = (Sem.lg (c ++ ((p.stepAt s.k).logs ++ (p.stepAt s.k).post)) ++ [.fin], false) := by
  have hp : p.isProducer = true := by simp [Prog.isProducer, hd]
  have hrs : runStep p s.k = .done (logItems ((p.stepAt s.k).logs ++ (p.stepAt s.k).post)) := by
    simp [runStep, hp, processStep, hact, logItems_append]
  simp only [next, h.gen, Bool.false_eq_true, if_false, tick]
  rw [tick_run env p s c h hl hd]
  simp only [hrs]
  rw [recv_eos _ c _ (by simp [ticked, h.unread])]
  simp [close, ticked, h.closed, drainAll]

theorem next_fail (s : St) (c a : List Log) (h : Ready s c) (hl : s.live = true) (hd : p.decl = []) (e : Exn)
    (hrs : runStep p s.k = .fail (logItems a ++ [.err e])) :
    (next env p s).2 = (Sem.lg (c ++ a) ++ [errEv e], false) := by
  simp only [next, h.gen, Bool.false_eq_true, if_false, tick]
  rw [tick_run env p s c h hl hd]
  simp only [hrs]
  rw [recv_err _ c a e (by simp [ticked, h.unread])]
  simp [close, ticked, h.closed, drainAll]

/-- the server has left its loop (after emit+finish): the next tick only reads what is left and meets EOS -/
theorem next_dead (s : St) (c : List Log) (h : Ready s c) (hl : s.live = false) :
    (next env p s).2 = (Sem.lg c ++ [.fin], false) := by
  simp only [next, h.gen, Bool.false_eq_true, if_false, tick]
  rw [sendRecv_tick env p s c h, serveBatch_dead env p _ _ (by simpa using hl)]
  rw [show ([] : List Item) = logItems [] from rfl, recv_eos _ c [] (by simp [h.unread])]
  simp [close, h.closed, drainAll]

theorem regroup' (c a p : List Log) (b : Batch) :
    logItems c ++ (logItems a ++ Item.data b :: logItems p) = logItems (c ++ a) ++ (Item.data b :: logItems p) := by
  simp [logItems]

theorem ready_ticked (s : St) (c : List Log) (h : Ready s c) (live : Bool) (post : List Log) :
    Ready (ticked s live (logItems post)) post :=
  ⟨by simp [ticked, h.closed], by simp [ticked, h.gen], by simp [ticked], by simp [ticked]⟩

theorem nextN_iterate (hd : p.decl = []) : ∀ (rest : List Step) (s : St) (c : List Log), Ready s c → s.live = true →
    p.steps.drop s.k = rest → (nextN env p (rest.length + 1) s).2 = Pipe.iterate (logItems c) rest := by
  have hp : p.isProducer = true := by simp [Prog.isProducer, hd]
  intro rest
  induction rest with
  | nil =>
    intro s c h hl hdrop
    have hst := stepAt_past p s.k hdrop hd
    have hn := next_finish env p s c h hl hd (by rw [hst])
    rw [List.length_nil, nextN_succ]
    rw [show next env p s = ((next env p s).1, (next env p s).2) from rfl, hn]
    simp [hst, Pipe.iterate, read_logs_only]
  | cons st r ih =>
    intro s c h hl hdrop
    have hst := stepAt_of_drop p s.k st r hdrop
    have hr : p.steps.drop (s.k + 1) = r := drop_succ_of_drop _ _ _ _ hdrop
    rw [List.length_cons, nextN_succ]
    cases hact : st.act with
    | emit b =>
      rw [next_emit env p s c h hl hd b (by rw [hst]; exact hact)]
      simp only [hst]
      rw [ih _ st.post (ready_ticked s c h true st.post) (by simp [ticked]) (by simpa [ticked] using hr)]
      simp only [Pipe.iterate, processStep, hact]
      rw [regroup, read_logs_data]
    | finish =>
      have hn := next_finish env p s c h hl hd (by rw [hst]; exact hact)
      rw [show next env p s = ((next env p s).1, (next env p s).2) from rfl, hn]
      simp [hst, Pipe.iterate, processStep, hact, ← logItems_append, read_logs_only, lg_append]
    | emitFinish b =>
      rw [next_emitFinish env p s c h hl hd b (by rw [hst]; exact hact)]
      simp only [hst]
      rw [nextN_succ]
      have hn := next_dead env p _ st.post (ready_ticked s c h false st.post) (by simp [ticked])
      rw [show next env p (ticked s false (logItems st.post)) = ((next env p (ticked s false (logItems st.post))).1,
        (next env p (ticked s false (logItems st.post))).2) from rfl, hn]
      simp only [Pipe.iterate, processStep, hact]
      rw [regroup, read_logs_data]
      simp [read_logs_only]
    | raise e =>
      have hn := next_fail env p s c st.logs h hl hd e (by simp [runStep, hp, hst, processStep, hact])
      rw [show next env p s = ((next env p s).1, (next env p s).2) from rfl, hn]
      simp only [Pipe.iterate, processStep, hact]
      rw [regroup_err, read_logs_err]
    | nothing =>
      have hn := next_fail env p s c st.logs h hl hd noDataExn (by simp [runStep, hp, hst, processStep, hact])
      rw [show next env p s = ((next env p s).1, (next env p s).2) from rfl, hn]
      simp only [Pipe.iterate, processStep, hact]
      rw [regroup_err, read_logs_err]

end PipeSession

/-! ### HTTP: a producer session iterated to its end is `Engine.Http.iterate` -/
section HttpSession
open HttpM Engine.Aux
variable (c : Cfg) (p : Prog)

/-- the first `pull` of a `next`, then up to `n` further `next`s -/
def pullThen (f n : Nat) (s : St) (items : List Item) : List Ev :=
  match pull c p f s items with
  | (s', evs, true) => evs ++ (nextN c p n s').2
  | (_, evs, false) => evs

theorem pull_logs (f : Nat) (s : St) (cl : List Log) (xs : List Item) :
    pull c p f s (logItems cl ++ xs) =
      ((pull c p f s xs).1, Sem.lg cl ++ (pull c p f s xs).2.1, (pull c p f s xs).2.2) := by
  induction cl with
  | nil => simp [logItems, Sem.lg]
  | cons l r ih =>
    simp only [logItems, List.map_cons, List.cons_append, Sem.lg] at ih ⊢
    rw [pull.eq_2, ih]

theorem pullThen_logs (f n : Nat) (s : St) (cl : List Log) (xs : List Item) :
    pullThen c p f n s (logItems cl ++ xs) = Sem.lg cl ++ pullThen c p f n s xs := by
  unfold pullThen
  rw [pull_logs]
  cases h : pull c p f s xs with
  | mk s' r =>
    cases r with
    | mk evs y => cases y <;> simp

theorem nextN_reader (n : Nat) (s : St) (items : List Item) (hg : s.gen = .reader items) :
    (nextN c p (n + 1) s).2 = pullThen c p (fuel p) n s items := by
  simp only [nextN, next, hg, pullThen]
  split <;> simp_all


theorem serve_producer (hp : p.isProducer = true) (pos : Nat) (b : IBatch) :
    (serve c p pos b).1 = Http.turn c.brk pos (p.steps.drop pos) := by
  simp [serve, hp]

theorem pull_fin (f : Nat) (s : St) (items : List Item) : (pull c p f s items).1.finished = s.finished :=
  (pull_client c p f s items).1

/-- reading a producer turn (after any unread logs) and carrying on with `next` delivers the rest of the script -/
theorem pullThen_turn (hp : p.isProducer = true) (hl : ∀ r, c.lost r = false) : ∀ (rest : List Step) (pos : Nat) (cl : List Log) (f n : Nat) (s : St),
    p.steps.drop pos = rest → rest.length ≤ n → s.finished = false →
    pullThen c p f n s (logItems cl ++ Http.turn c.brk pos rest) = Sem.lg cl ++ Sem.producer false rest := by
  intro rest
  induction rest with
  | nil =>
    intro pos cl f n s _ _ _
    rw [pullThen_logs]
    simp [pullThen, Http.turn, pull, Sem.producer]
  | cons st r ih =>
    intro pos cl f n s hdrop hn hf
    have hr : p.steps.drop (pos + 1) = r := drop_succ_of_drop _ _ _ _ hdrop
    simp only [List.length_cons] at hn
    obtain ⟨n', rfl⟩ : ∃ n', n = n' + 1 := ⟨n - 1, by omega⟩
    rw [pullThen_logs]
    congr 1
    cases hact : st.act with
    | emit b =>
      simp only [Http.turn, processStep, hact, Sem.producer]
      rw [List.append_assoc, List.append_assoc, pullThen_logs, List.singleton_append]
      simp only [pullThen, pull]
      rw [nextN_reader c p n' _ _ rfl]
      cases hb : c.brk pos with
      | true =>
        simp only [if_true]
        -- the response ends with the token: the next `next` follows it
        rw [pullThen_logs]
        have hfuel : fuel p = (fuel p - 1) + 1 := by simp [fuel]
        have : pullThen c p (fuel p) n' { s with gen := .reader (logItems st.post ++ [Item.token (pos + 1)]) }
            [Item.token (pos + 1)] = Sem.producer false r := by
          rw [hfuel]
          unfold pullThen
          rw [pull.eq_6, if_neg (by simp [hf])]
          simp only [post_clean c hl, rep_one]
          have := ih (pos + 1) [] (fuel p - 1) n'
            { s with gen := .reader (logItems st.post ++ [Item.token (pos + 1)]),
                     slog := s.slog ++ (serve c p (pos + 1) tickBatch).2, reqs := s.reqs + 1 } hr (by omega) hf
          simp only [logItems, List.map_nil, List.nil_append, Sem.lg, pullThen] at this
          rw [serve_producer c p hp, hr]
          exact this
        rw [this]
        simp [List.append_assoc]
      | false =>
        simp only [Bool.false_eq_true, if_false]
        rw [ih (pos + 1) st.post (fuel p) n'
          { s with gen := .reader (logItems st.post ++ Http.turn c.brk (pos + 1) r) } hr (by omega) hf]
        simp [List.append_assoc]
    | finish =>
      simp only [Http.turn, processStep, hact, Sem.producer]
      rw [pullThen_logs, ← List.append_nil (logItems st.post), pullThen_logs]
      simp [pullThen, pull, List.append_assoc]
    | emitFinish b =>
      simp only [Http.turn, processStep, hact, Sem.producer]
      rw [List.append_assoc, pullThen_logs, List.singleton_append]
      simp only [pullThen, pull]
      rw [nextN_reader c p n' _ _ rfl, ← List.append_nil (logItems st.post), pullThen_logs]
      simp [pullThen, pull, List.append_assoc]
    | raise e =>
      simp only [Http.turn, processStep, hact, Sem.producer, Sem.failLogs]
      rw [pullThen_logs]
      simp [pullThen, pull]
    | nothing =>
      simp only [Http.turn, processStep, hact, Sem.producer, Sem.failLogs]
      rw [pullThen_logs]
      simp [pullThen, pull]


/-- what the iterator still delivers once the pending batches are handed out -/
def endEvs (s : St) : List Ev :=
  match s.perr with
  | some e => [e]
  | none =>
    if s.finished then [.fin]
    else match s.tok with
      | none => [.fin]
      | some pos => Sem.producer false (p.steps.drop pos)

theorem afterPendingEnd_then (hp : p.isProducer = true) (hl : ∀ r, c.lost r = false) (n : Nat) (s : St) (hn : p.steps.length ≤ n) :
    (match afterPendingEnd c p s with
     | (s', evs, true) => evs ++ (nextN c p n s').2
     | (_, evs, false) => evs) = endEvs p s := by
  unfold afterPendingEnd endEvs
  cases hperr : s.perr with
  | some e => simp
  | none =>
    cases hf : s.finished with
    | true => simp
    | false =>
      cases ht : s.tok with
      | none => simp
      | some pos =>
        simp only [Bool.false_eq_true, if_false]
        simp only [post_clean c hl, rep_one]
        have := pullThen_turn c p hp hl (p.steps.drop pos) pos [] (fuel p) n
          { s with pend := [], slog := s.slog ++ (serve c p pos tickBatch).2, reqs := s.reqs + 1 } rfl
          (by simp; omega) hf
        simp only [logItems, List.map_nil, List.nil_append, Sem.lg, pullThen, hperr, hf, ht] at this
        rw [serve_producer c p hp]
        exact this

theorem endEvs_gen (s : St) (g : Gen) : endEvs p { s with gen := g } = endEvs p s := rfl

theorem nextN_pending (hp : p.isProducer = true) (hl : ∀ r, c.lost r = false) : ∀ (d j n : Nat) (s : St), s.pend.length = j + d →
    (s.gen = .pending j ∨ (j = 0 ∧ s.gen = .fresh)) → d + p.steps.length + 1 ≤ n →
    (nextN c p n s).2 = (s.pend.drop j).map Ev.data ++ endEvs p s := by
  intro d
  induction d with
  | zero =>
    intro j n s hlen hg hn
    obtain ⟨n', rfl⟩ : ∃ n', n = n' + 1 := ⟨n - 1, by omega⟩
    have hnone : s.pend[j]? = none := by rw [List.getElem?_eq_none_iff]; omega
    have hnext : next c p s = afterPendingEnd c p s := by
      rcases hg with hg | ⟨hj, hg⟩
      · simp [next, hg, afterPending, hnone]
      · subst hj; simp [next, hg, afterPending, hnone]
    have hdrop : s.pend.drop j = [] := by rw [List.drop_eq_nil_iff]; omega
    have := afterPendingEnd_then c p hp hl n' s (by omega)
    simp only [nextN, hnext, hdrop, List.map_nil, List.nil_append]
    rw [← this]
    split <;> simp_all
  | succ d ih =>
    intro j n s hlen hg hn
    obtain ⟨n', rfl⟩ : ∃ n', n = n' + 1 := ⟨n - 1, by omega⟩
    have hj : j < s.pend.length := by omega
    have hsome : s.pend[j]? = some s.pend[j] := List.getElem?_eq_getElem hj
    have hnext : next c p s = ({ s with gen := .pending (j + 1) }, [.data s.pend[j]], true) := by
      rcases hg with hg | ⟨hj0, hg⟩
      · simp [next, hg, afterPending, hsome]
      · subst hj0; simp [next, hg, afterPending, hsome]
    have hdrop : s.pend.drop j = s.pend[j] :: s.pend.drop (j + 1) := List.drop_eq_getElem_cons hj
    simp only [nextN, hnext]
    rw [ih (j + 1) n' { s with gen := .pending (j + 1) } (by simp; omega) (Or.inl rfl) (by omega)]
    show [Ev.data s.pend[j]] ++ ((s.pend.drop (j + 1)).map Ev.data ++ endEvs p s) = (s.pend.drop j).map Ev.data ++ endEvs p s
    rw [hdrop]; rfl


/-- the tail of `Http.assemble` once continuations are known to deliver the rest of the script -/
def tailEvs (pr : Http.InitParse) : List Ev :=
  match pr.err with
  | some e => [e]
  | none => match pr.cursor with
    | none => [.fin]
    | some pos => Sem.producer false (p.steps.drop pos)

theorem assemble_tail (pr : Http.InitParse) :
    Http.assemble pr (fun pos => Sem.producer false (p.steps.drop pos)) =
      pr.evs ++ pr.pending.map Ev.data ++ tailEvs p pr := by
  unfold Http.assemble tailEvs
  rfl

theorem iterate_assemble (brk : Nat → Bool) (il : List Log) (steps : List Step) :
    Http.iterate brk il steps =
      Http.assemble (Http.parseInit (logItems il ++ Http.turn brk 0 steps))
        (fun pos => Sem.producer false (steps.drop pos)) := by
  unfold Http.iterate Http.initBody
  congr 1
  funext pos
  exact http_resume brk steps pos

theorem tail_aux (perr : Option Ev) (cur : Option Nat) :
    (match perr with
     | some e => [e]
     | none => if cur.isNone = true then [Ev.fin]
        else match cur with
          | none => [Ev.fin]
          | some pos => Sem.producer false (p.steps.drop pos)) =
    (match perr with
     | some e => [e]
     | none => match cur with
        | none => [Ev.fin]
        | some pos => Sem.producer false (p.steps.drop pos)) := by
  cases perr <;> cases cur <;> rfl

theorem openIterate_eq (m : Method) (hp : m.prog.isProducer = true) (hi : m.init = none) (hl : ∀ r, c.lost r = false) :
    openIterate c m =
      openEvs m (Http.parseInit (initBody c m).1) ++ (Http.parseInit (initBody c m).1).pending.map Ev.data ++
        tailEvs m.prog (Http.parseInit (initBody c m).1) := by
  rcases openS_cases c m hi (by rw [post_clean c hl]) with ⟨e, he, hpend, hh, hopen⟩ | hopen
  · unfold openIterate
    rw [hopen]
    simp [openEvs, hh, tailEvs, he, hpend]
  · unfold openIterate
    rw [hopen]
    simp only
    rw [nextN_pending c m.prog hp hl (session c m (Http.parseInit (initBody c m).1)).pend.length 0 _ _ (by simp)
      (Or.inr ⟨rfl, rfl⟩) (by omega)]
    simp only [List.drop_zero, List.append_assoc]
    congr 2
    simp only [endEvs, session, tailEvs]
    exact tail_aux m.prog _ _

end HttpSession

/-! ### exchange sessions: the op machines replay `Engine.Pipe.exchangeAll` / `Engine.Http.exchangeAll` -/
section PipeExchange
open PipeM Engine.Aux
variable (env : Env) (p : Prog)

theorem playedFrom_succ (k n : Nat) : playedFrom p k (n + 1) = p.stepAt k :: playedFrom p (k + 1) n := by
  simp [playedFrom, List.range'_succ]

/-- an exchange session between two inputs -/
structure XReady (s : St) (cl : List Log) (sch : Schema) : Prop where
  closed : s.closed = false
  live : s.live = true
  ws : s.wschema = none ∨ s.wschema = some sch
  unread : s.unread = logItems cl

theorem wrongSchema_same (s : St) (b : IBatch) (h : s.wschema = none ∨ s.wschema = some b.schema) :
    wrongSchema s b = false := by
  unfold wrongSchema
  rcases h with h | h <;> simp [h]

theorem sendRecv_x (s : St) (cl : List Log) (b b' : IBatch) (h : XReady s cl b.schema)
    (hb : coerceInput env p.decl b = .ok b') (op : String) :
    sendRecv env p op s b =
      (match runStep p s.k with
       | .cont items => recv (served { s with wschema := some b.schema, writes := s.writes + 1 } b'.schema true) items
       | .done items => recv (served { s with wschema := some b.schema, writes := s.writes + 1 } b'.schema false) items
       | .fail items => recv (served { s with wschema := some b.schema, writes := s.writes + 1 } b'.schema false) items) := by
  unfold sendRecv
  rw [if_neg (by simp [h.closed]), if_neg (by simp [wrongSchema_same s b h.ws])]
  simp only
  rw [serveBatch_ok env p { s with wschema := some b.schema, writes := s.writes + 1 } b b' h.live hb]
  cases runStep p s.k <;> rfl

theorem exchange_emit (s : St) (cl : List Log) (b b' : IBatch) (h : XReady s cl b.schema)
    (hb : coerceInput env p.decl b = .ok b') (hx : p.isProducer = false) (d : Batch) (hact : (p.stepAt s.k).act = .emit d) :
    exchange env p s b =
      ({ served { s with wschema := some b.schema, writes := s.writes + 1 } b'.schema true with
          unread := logItems (p.stepAt s.k).post },
       Sem.lg (cl ++ (p.stepAt s.k).logs) ++ [.data d]) := by
  have hrs : runStep p s.k = .cont (logItems (p.stepAt s.k).logs ++ [Item.data d] ++ logItems (p.stepAt s.k).post) := by
    simp [runStep, hx, processExchangeStep, processStep, hact]
  unfold exchange
  rw [sendRecv_x env p s cl b b' h hb]
  simp only [hrs]
  rw [recv_data _ cl _ _ d (by simp [served, h.unread])]

theorem exchange_fail (s : St) (cl a : List Log) (b b' : IBatch) (h : XReady s cl b.schema)
    (hb : coerceInput env p.decl b = .ok b') (e : Exn) (hrs : runStep p s.k = .fail (logItems a ++ [.err e])) :
    (exchange env p s b).2 = Sem.lg (cl ++ a) ++ [errEv e] ∧ (exchange env p s b).1.closed = true := by
  unfold exchange
  rw [sendRecv_x env p s cl b b' h hb]
  simp only [hrs]
  rw [recv_err _ cl a e (by simp [served, h.unread])]
  simp [close, served, h.closed, drainAll]

theorem drainAll_logItems (cl : List Log) : drainAll (logItems cl) = Sem.lg cl := by
  induction cl with
  | nil => rfl
  | cons l r ih => simp only [logItems, List.map_cons, drainAll, Sem.lg] at ih ⊢; rw [ih]

/-- in exchange mode every step that does not emit fails: its logs, then one EXCEPTION batch -/
theorem runStep_fail (hx : p.isProducer = false) (k : Nat) (hne : ∀ d, (p.stepAt k).act ≠ .emit d) :
    ∃ a e, runStep p k = .fail (logItems a ++ [.err e]) ∧
      processExchangeStep (p.stepAt k) = .fail (logItems a ++ [.err e]) := by
  cases hact : (p.stepAt k).act with
  | emit d => exact absurd hact (hne d)
  | finish =>
    exact ⟨(p.stepAt k).logs ++ (p.stepAt k).post, finishOnExchangeExn,
      by simp [runStep, hx, processExchangeStep, hact, logItems_append],
      by simp [processExchangeStep, hact, logItems_append]⟩
  | emitFinish d =>
    exact ⟨(p.stepAt k).logs ++ (p.stepAt k).post, finishOnExchangeExn,
      by simp [runStep, hx, processExchangeStep, hact, logItems_append],
      by simp [processExchangeStep, hact, logItems_append]⟩
  | raise e =>
    exact ⟨(p.stepAt k).logs, e, by simp [runStep, hx, processExchangeStep, processStep, hact],
      by simp [processExchangeStep, processStep, hact]⟩
  | nothing =>
    exact ⟨(p.stepAt k).logs, noDataExn, by simp [runStep, hx, processExchangeStep, processStep, hact],
      by simp [processExchangeStep, processStep, hact]⟩

theorem run_exchange (hx : p.isProducer = false) (sch : Schema) : ∀ (inputs : List IBatch) (s : St) (cl : List Log),
    XReady s cl sch → (∀ b ∈ inputs, b.schema = sch ∧ ∃ b', coerceInput env p.decl b = .ok b') →
    AllEmit (playedFrom p s.k inputs.length).dropLast →
    (run env p s (inputs.map Op.send ++ [Op.close])).2.flatten =
      Pipe.exchangeAll (logItems cl) (playedFrom p s.k inputs.length) := by
  intro inputs
  induction inputs with
  | nil =>
    intro s cl h _ _
    simp [run, step, close, h.closed, h.unread, playedFrom, Pipe.exchangeAll, drainAll_logItems, drainLogs_logs]
  | cons b rest ih =>
    intro s cl h hin hall
    obtain ⟨hsch, b', hb⟩ := hin b (by simp)
    have h' : XReady s cl b.schema := by rw [hsch]; exact h
    simp only [List.length_cons, playedFrom_succ] at hall ⊢
    simp only [List.map_cons, List.cons_append, run, step, List.flatten_cons]
    by_cases hem : ∃ d, (p.stepAt s.k).act = .emit d
    · obtain ⟨d, hact⟩ := hem
      rw [exchange_emit env p s cl b b' h' hb hx d hact]
      simp only
      have hall' : AllEmit (playedFrom p (s.k + 1) rest.length).dropLast := by
        intro x hxm
        apply hall x
        cases hl : playedFrom p (s.k + 1) rest.length with
        | nil => rw [hl] at hxm; simp at hxm
        | cons y l => rw [hl] at hxm; simp [List.dropLast]; right; exact hxm
      have := ih { served { s with wschema := some b.schema, writes := s.writes + 1 } b'.schema true with
          unread := logItems (p.stepAt s.k).post } (p.stepAt s.k).post
        ⟨by simp [served, h.closed], by simp [served], by simp [served, hsch], by simp [served]⟩
        (fun x hxm => hin x (by simp [hxm])) (by simpa [served] using hall')
      simp only [served] at this ⊢
      rw [this]
      simp only [Pipe.exchangeAll, Pipe.exchangeOne, processExchangeStep, processStep, hact]
      rw [regroup, read_logs_data]
    · have hne : ∀ d, (p.stepAt s.k).act ≠ .emit d := fun d hd => hem ⟨d, hd⟩
      obtain ⟨a, e, hrs, hpx⟩ := runStep_fail p hx s.k hne
      have hrest : rest = [] := by
        cases rest with
        | nil => rfl
        | cons y l =>
          exfalso
          obtain ⟨d, hd⟩ := hall (p.stepAt s.k) (by simp [playedFrom_succ])
          exact hne d hd
      subst hrest
      obtain ⟨h1, h2⟩ := exchange_fail env p s cl a b b' h' hb e hrs
      simp only [List.map_nil, List.nil_append, run, step, close, h2, if_true, List.flatten_cons, List.flatten_nil,
        List.append_nil, Pipe.exchangeAll, Pipe.exchangeOne, hpx]
      rw [h1, regroup_err, read_logs_err]

end PipeExchange

section HttpExchange
open HttpM Engine.Aux
variable (c : Cfg) (p : Prog)

theorem lg_noerr (post : List Log) : (Sem.lg post).any isError = false := by
  induction post with
  | nil => rfl
  | cons l r ih => simp only [Sem.lg, List.map_cons, List.any_cons] at ih ⊢; rw [ih]; rfl

theorem readX_logs (ls : List Log) (xs : List Item) :
    readX (logItems ls ++ xs) = (Sem.lg ls ++ (readX xs).1, (readX xs).2) := by
  induction ls with
  | nil => simp [logItems, Sem.lg]
  | cons l r ih =>
    simp only [logItems, List.map_cons, List.cons_append, readX, Sem.lg] at ih ⊢
    rw [ih]

theorem readX_emit (a post : List Log) (d : Batch) :
    readX (logItems a ++ [Item.data d] ++ logItems post) = (Sem.lg a ++ (Sem.lg post ++ [Ev.data d]), true) := by
  rw [List.append_assoc, readX_logs]
  simp only [List.singleton_append, readX, trailing_logs, lg_noerr, Bool.false_eq_true, if_false]

theorem send_emit (hl : ∀ r, c.lost r = false) (s : St) (pos : Nat) (b b' : IBatch) (ht : s.tok = some pos)
    (hb : coerceInput c.env p.decl b = .ok b') (hx : p.isProducer = false) (d : Batch)
    (hact : (p.stepAt pos).act = .emit d) :
    send c p s b =
      ({ s with slog := s.slog ++ [.process pos b'.schema], reqs := s.reqs + 1, tok := some (pos + 1) },
       Sem.lg (p.stepAt pos).logs ++ (Sem.lg (p.stepAt pos).post ++ [Ev.data d])) := by
  have hsv : serve c p pos b =
      (logItems (p.stepAt pos).logs ++ [Item.data d] ++ logItems (p.stepAt pos).post, [.process pos b'.schema]) := by
    simp [serve, hx, hb, runStep, processExchangeStep, processStep, hact]
  simp only [send, ht, hsv, readX_emit, hx, post_clean c hl, rep_one]
  simp

theorem send_fail (hl : ∀ r, c.lost r = false) (s : St) (pos : Nat) (a : List Log) (b b' : IBatch) (ht : s.tok = some pos)
    (hb : coerceInput c.env p.decl b = .ok b') (hx : p.isProducer = false) (e : Exn)
    (hrs : runStep p pos = .fail (logItems a ++ [.err e])) :
    (send c p s b).2 = Sem.lg a ++ [errEv e] := by
  have hsv : (serve c p pos b).1 = logItems a ++ [.err e] := by simp [serve, hx, hb, hrs]
  simp only [send, ht, hsv, readX_logs, readX, post_clean c hl]
  simp [errEv]

theorem hrun_exchange (hx : p.isProducer = false) (hl : ∀ r, c.lost r = false) : ∀ (inputs : List IBatch) (s : St) (pos : Nat),
    s.tok = some pos → (∀ b ∈ inputs, ∃ b', coerceInput c.env p.decl b = .ok b') →
    AllEmit (playedFrom p pos inputs.length).dropLast →
    (run c p s (inputs.map Op.send)).2.flatten = Http.exchangeAll (playedFrom p pos inputs.length) := by
  intro inputs
  induction inputs with
  | nil => intro s pos _ _ _; simp [run, playedFrom, Http.exchangeAll]
  | cons b rest ih =>
    intro s pos ht hin hall
    obtain ⟨b', hb⟩ := hin b (by simp)
    simp only [List.length_cons, playedFrom_succ] at hall ⊢
    simp only [List.map_cons, run, step, List.flatten_cons]
    by_cases hem : ∃ d, (p.stepAt pos).act = .emit d
    · obtain ⟨d, hact⟩ := hem
      rw [send_emit c p hl s pos b b' ht hb hx d hact]
      simp only
      have hall' : AllEmit (playedFrom p (pos + 1) rest.length).dropLast := by
        intro x hxm
        apply hall x
        cases hl : playedFrom p (pos + 1) rest.length with
        | nil => rw [hl] at hxm; simp at hxm
        | cons y l => rw [hl] at hxm; simp [List.dropLast]; right; exact hxm
      rw [ih _ (pos + 1) rfl (fun x hxm => hin x (by simp [hxm])) hall']
      simp only [Http.exchangeAll, Http.exchangeOne, processExchangeStep, processStep, hact]
      rw [show logItems (p.stepAt pos).logs ++ [Item.data d] ++ logItems (p.stepAt pos).post =
        logItems (p.stepAt pos).logs ++ ([Item.data d] ++ logItems (p.stepAt pos).post) from List.append_assoc _ _ _,
        readExchange_logs]
      simp [Http.readExchange, trailing_logs]
    · have hne : ∀ d, (p.stepAt pos).act ≠ .emit d := fun d hd => hem ⟨d, hd⟩
      obtain ⟨a, e, hrs, hpx⟩ := runStep_fail p hx pos hne
      have hrest : rest = [] := by
        cases rest with
        | nil => rfl
        | cons y l =>
          exfalso
          obtain ⟨d, hd⟩ := hall (p.stepAt pos) (by simp [playedFrom_succ])
          exact hne d hd
      subst hrest
      simp only [List.map_nil, run, List.flatten_nil, List.append_nil, Http.exchangeAll, Http.exchangeOne, hpx]
      rw [send_fail c p hl s pos a b b' ht hb hx e hrs, readExchange_logs]
      simp [Http.readExchange]


theorem parseInit_token (ls : List Log) (pos : Nat) :
    Http.parseInit (logItems ls ++ [Item.token pos]) = ⟨Sem.lg ls, [], some pos, none⟩ := by
  induction ls with
  | nil => rfl
  | cons l r ih =>
    simp only [logItems, List.map_cons, List.cons_append, Http.parseInit, Sem.lg] at ih ⊢
    rw [ih]

end HttpExchange

/-! ### one `process()` call at collector-operation level: the order of the calls does not matter -/

theorem collect_wf : ∀ (ops : List COp) (a : Acc), ops.any isRaiseOp = false →
    (a.data = none → (ops.filter isEmitOp).length ≤ 1) → (a.data ≠ none → ops.filter isEmitOp = []) →
    ∃ a', collect true false a ops = (a', none) ∧ a'.fin = (a.fin || finishes ops) ∧
      a'.data = (match a.data with | some b => some b | none => batchOf ops) := by
  intro ops
  induction ops with
  | nil => intro a _ _ _; exact ⟨a, rfl, by simp [finishes], by cases a.data <;> rfl⟩
  | cons op r ih =>
    intro a hr h1 h2
    have hr' : r.any isRaiseOp = false := by
      simp only [List.any_cons, Bool.or_eq_false_iff] at hr; exact hr.2
    cases op with
    | log l =>
      simp only [collect]
      cases hd : a.data with
      | none =>
        obtain ⟨a', e1, e2, e3⟩ := ih { a with pre := a.pre ++ [l] } hr'
          (fun _ => by simpa [isEmitOp] using h1 hd) (fun hne => absurd hd hne)
        exact ⟨a', by simpa [hd] using e1, by simpa [finishes, isFinishOp] using e2, by simpa [hd, batchOf] using e3⟩
      | some b =>
        obtain ⟨a', e1, e2, e3⟩ := ih { a with post := a.post ++ [l] } hr'
          (fun hn => by simp [hd] at hn) (fun _ => by simpa [isEmitOp] using h2 (by simp [hd]))
        exact ⟨a', by simpa [hd] using e1, by simpa [finishes, isFinishOp] using e2, by simpa [hd] using e3⟩
    | emit b =>
      cases hd : a.data with
      | some x => have := h2 (by simp [hd]); simp [isEmitOp] at this
      | none =>
        simp only [collect, hd, Bool.false_and, Bool.false_eq_true, if_false]
        have hno : r.filter isEmitOp = [] := by
          have := h1 hd
          simp only [List.filter_cons, isEmitOp, if_true, List.length_cons] at this
          exact List.length_eq_zero_iff.1 (by omega)
        obtain ⟨a', e1, e2, e3⟩ := ih { a with data := some b } hr' (fun hn => by simp at hn) (fun _ => hno)
        exact ⟨a', e1, by simpa [finishes, isFinishOp] using e2, by simpa [batchOf] using e3⟩
    | finish =>
      simp only [collect, if_true]
      obtain ⟨a', e1, e2, e3⟩ := ih { a with fin := true } hr'
        (fun hn => by simpa [isEmitOp] using h1 hn) (fun hne => by simpa [isEmitOp] using h2 hne)
      refine ⟨a', e1, ?_, ?_⟩
      · rw [e2]; simp [finishes, isFinishOp]
      · rw [e3]; cases a.data <;> simp [batchOf]
    | raise e => simp [isRaiseOp] at hr

/-- the action a well-formed step amounts to does not depend on the order of its calls -/
theorem normalize_act (ops : List COp) (h : WellFormedStep ops) :
    (normalizeWith true false ops).act =
      (match batchOf ops, finishes ops with
       | some b, true => .emitFinish b
       | some b, false => .emit b
       | none, true => .finish
       | none, false => .nothing) := by
  obtain ⟨a', e1, e2, e3⟩ := collect_wf ops ⟨[], none, [], false⟩ h.2 (fun _ => h.1) (fun hne => absurd rfl hne)
  simp only [Bool.false_or] at e2 e3
  unfold normalizeWith
  rw [e1]
  simp only [e2, e3]
  cases batchOf ops <;> cases finishes ops <;> rfl

theorem emitted_normalize (steps : List (List COp)) (h : ∀ s ∈ steps, WellFormedStep s) :
    emitted (steps.map (normalizeWith true false)) = emittedOps steps := by
  induction steps with
  | nil => rfl
  | cons s r ih =>
    have hs := normalize_act s (h s (by simp))
    have hr := ih (fun x hx => h x (by simp [hx]))
    simp only [List.map_cons, emitted, emittedOps, hs]
    cases batchOf s <;> cases finishes s <;> simp [hr]

end Aux

open Aux

/-! ## Shapes of the anchored code (re-checked against the regenerated `Gen/C10.lean` on every run) -/

theorem C10_shapes :
    Gen.C10.coerceGuards = ["batch.schema == target_schema", "set(batch_names) != set(target_names)",
                            "batch_names != target_names", "batch.schema != target_schema"] ∧
    Gen.C10.coerceHandlers = ["batch = batch.select(target_names) | KeyError -> TypeError",
      "batch = batch.cast(target_schema) | pa.ArrowInvalid, pa.ArrowNotImplementedError, ValueError -> TypeError"] ∧
    Gen.C10.coerceCastRaises = "TypeError" ∧
    Gen.C10.mismatchParts = ["Input schema mismatch: expected ", "{target_schema}", ", got ", "{batch.schema}"] ∧
    Gen.C10.coerceAtPipe = true ∧ Gen.C10.coerceAtHttp = true ∧
    Gen.C10.finishGuard = "not self._producer_mode" ∧
    finishOnExchangeExn.text = Gen.C10.finishOnExchangeMsg.toList ∧ noDataExn.text = Gen.C10.noDataMsg.toList ∧
    Gen.C10.pipeExchangeGuard = true ∧ Gen.C10.pipeTickGuard = true ∧ Gen.C10.pipeCloseGuard = true ∧
    Gen.C10.pipeCancelGuard = true ∧
    Gen.C10.pipeTickClosesOn = ["StopIteration", "RpcError"] ∧ Gen.C10.pipeExchangeClosesOn = ["RpcError"] ∧
    Gen.C10.serveCancelBranch = true ∧
    Gen.C10.httpExchangeGuard = true ∧ Gen.C10.httpCancelGuard = true ∧ Gen.C10.httpCancelSeals = true ∧
    Gen.C10.httpCloseNoop = true ∧ Gen.C10.iterChecksFinishedAtStart = true ∧
    Gen.C10.iterChecksFinishedAtToken = true ∧ Gen.C10.httpServerCancelBranch = true ∧
    Gen.C10.cancelKey = "vgi_rpc.cancel" := by
  refine ⟨?_, ?_, ?_, ?_, ?_, ?_, ?_, ?_, ?_, ?_, ?_, ?_, ?_, ?_, ?_, ?_, ?_, ?_, ?_, ?_, ?_, ?_, ?_, ?_⟩ <;> decide

/-- which client requests are retried: init and continuations go through `_post_with_retry`; `exchange()` and
`cancel()` are a bare POST — the server is stateless, so each cancel request that reaches it runs `on_cancel` -/
theorem C10_retry_shapes :
    Gen.C10.postInit = "retry" ∧ Gen.C10.postContinuation = "retry" ∧ Gen.C10.postExchange = "bare" ∧
    Gen.C10.postCancel = "bare" ∧ Gen.C10.cancelRetried = false := by
  refine ⟨?_, ?_, ?_, ?_, ?_⟩ <;> decide

/-! ## Inputs -/

/-- an input that passes `_coerce_input_batch` has exactly the declared schema -/
theorem C10_inputs_schema (env : Env) (decl : Schema) (b b' : IBatch)
    (h : coerceInput env decl b = .ok b') : b'.schema = decl := C10_inputs_schema_aux env decl b b' h

/-- a different field set is rejected with the TypeError, whatever the types and the cast environment -/
theorem C10_inputs_reject (env : Env) (decl : Schema) (b : IBatch) (h : ¬ SameFieldSet b.schema decl) :
    ∃ e, coerceInput env decl b = .error e ∧ e.type = "TypeError".toList := by
  have hs : sameSet (names b.schema) (names decl) = false := by
    cases hss : sameSet (names b.schema) (names decl) with
    | false => rfl
    | true => exact absurd ((sameSet_iff _ _).1 hss) h
  have hne : b.schema ≠ decl := by
    intro heq
    apply h
    rw [heq]
    intro n; exact Iff.rfl
  refine ⟨mismatchExn decl b.schema, ?_, mismatch_type _ _⟩
  unfold coerceInput
  simp [hne, hs]

example : ∃ env decl b b', coerceInput env decl b = .ok b' ∧ b ≠ b' :=
  ⟨⟨fun d _ _ => some (d + 1)⟩, [⟨['v'], ['a']⟩, ⟨['w'], ['b']⟩],
   ⟨[⟨['w'], ['c'], 0⟩, ⟨['v'], ['a'], 5⟩]⟩, ⟨[⟨['v'], ['a'], 6⟩, ⟨['w'], ['b'], 1⟩]⟩, by rfl, by decide⟩

/-- socket family: every `process` call of every run receives an input with the declared schema -/
theorem C10_inputs_reach_state_pipe (env : Env) (m : Method) (s0 : PipeM.St) (ops : List PipeM.Op)
    (h : (PipeM.openS m).2 = some s0) :
    InputsConform m.prog.decl (PipeM.run env m.prog s0 ops).1.slog := by
  apply conform_run
  rw [(openS_st0 m s0 h).1]
  intro k sch hm; cases hm

/-- HTTP: every `process` call of every run (init turn, continuation turns, exchange turns) receives an input with the
declared schema -/
theorem C10_inputs_reach_state_http (c : HttpM.Cfg) (m : Method) (s0 : HttpM.St) (ops : List HttpM.Op)
    (h : (HttpM.openS c m).2 = some s0) :
    InputsConform m.prog.decl (HttpM.run c m.prog s0 ops).1.slog := by
  apply hconform_run
  rw [openS_slog c m s0 h]
  intro k sch hm
  obtain ⟨k', hk⟩ := initBody_log c m _ (rep_mem _ _ _ hm)
  cases hk; rfl

/-! ## Producer and exchange streams consumed to the end (corollaries of the Engine refinement theorems) -/

/-- For every step script, init-log list and — over HTTP — every break-decision function: the data batches the client
receives are exactly the emitted ones, in order, up to and including the finishing step (emit + finish in one step
delivers that batch), and the stream ends exactly there: normally, or with the error of the failing step. -/
theorem C10_producer (brk : Nat → Bool) (il : List Log) (steps : List Step) :
    datasOf (Pipe.iterate (logItems il) steps) = emitted steps ∧
    restOf (Pipe.iterate (logItems il) steps) = terminal steps ∧
    datasOf (Http.iterate brk il steps) = emitted steps ∧
    restOf (Http.iterate brk il steps) = terminal steps := by
  have hp := pipe_producer_refines il steps
  have hh := http_producer_refines brk il steps
  have d : datasOf (Sem.lg il ++ Sem.producer false steps) = emitted steps := by
    rw [Engine.Aux.datasOf_append, datasOf_lg, producer_datas]; rfl
  have r : restOf (Sem.lg il ++ Sem.producer false steps) = terminal steps := by
    rw [Engine.Aux.restOf_append, restOf_lg, producer_rest]; rfl
  refine ⟨by rw [hp]; exact d, by rw [hp]; exact r, ?_, ?_⟩
  · have := congrArg Obs.datas hh; simp only [obs] at this; rw [this]; exact d
  · have := congrArg Obs.rest hh; simp only [obs] at this; rw [this]; exact r

example : emitted [⟨[], .emit ⟨1, 1, []⟩, []⟩, ⟨[], .emitFinish ⟨2, 1, []⟩, []⟩, ⟨[], .emit ⟨3, 1, []⟩, []⟩]
    = [⟨1, 1, []⟩, ⟨2, 1, []⟩] := rfl

/-- For every response script (one step per input): the outputs are exactly one per input up to the first step that does
not emit; `finish` — alone or with data — is refused with the RuntimeError "finish() is not allowed on exchange
streams…" and ends the session; when every step emits, |outputs| = |inputs| and there is no terminal event. -/
theorem C10_exchange (il : List Log) (steps : List Step) :
    datasOf (Pipe.exchangeAll (logItems il) steps) = exchanged steps ∧
    restOf (Pipe.exchangeAll (logItems il) steps) = exchangeEnd steps ∧
    datasOf (Http.exchangeAll steps) = exchanged steps ∧
    restOf (Http.exchangeAll steps) = exchangeEnd steps ∧
    (AllEmit steps → (exchanged steps).length = steps.length ∧ exchangeEnd steps = []) ∧
    (∀ pre s post, steps = pre ++ s :: post → AllEmit pre → (s.act = .finish ∨ ∃ b, s.act = .emitFinish b) →
      (exchanged steps).length = pre.length ∧ exchangeEnd steps = [errEv finishOnExchangeExn]) := by
  have hp := pipe_exchange_refines il steps
  have hh := http_exchange_refines steps
  have d : datasOf (Sem.lg il ++ Sem.exchange false steps) = exchanged steps := by
    rw [Engine.Aux.datasOf_append, datasOf_lg, exchange_datas]; rfl
  have r : restOf (Sem.lg il ++ Sem.exchange false steps) = exchangeEnd steps := by
    rw [Engine.Aux.restOf_append, restOf_lg, exchange_rest]; rfl
  refine ⟨by rw [hp]; exact d, by rw [hp]; exact r, ?_, ?_, allEmit_exchanged steps, ?_⟩
  · have := congrArg Obs.datas hh; simp only [obs] at this; rw [this]; exact exchange_datas steps
  · have := congrArg Obs.rest hh; simp only [obs] at this; rw [this]; exact exchange_rest steps
  · intro pre s post he ha hs
    rw [he]; exact finish_refused pre s post ha hs

/-- Socket family, the op machine: opening a producer and calling `next` until the iterator stops IS
`Engine.Pipe.iterate` (event for event), hence delivers exactly the emitted batches up to the finish and ends there. -/
theorem C10_producer_pipe_session (env : Env) (m : Method) (hd : m.prog.decl = []) (hi : m.init = none) :
    ∃ s0, (PipeM.openS m).2 = some s0 ∧
      (PipeM.nextN env m.prog (m.prog.steps.length + 1) s0).2 = Pipe.iterate s0.unread m.prog.steps ∧
      datasOf ((PipeM.openS m).1 ++ (PipeM.nextN env m.prog (m.prog.steps.length + 1) s0).2) = emitted m.prog.steps ∧
      restOf (PipeM.nextN env m.prog (m.prog.steps.length + 1) s0).2 = terminal m.prog.steps := by
  cases hh : m.header with
  | none =>
    have hopen : PipeM.openS m = ([], some (PipeM.st0 (logItems m.initLogs) true)) := by simp [PipeM.openS, hh, hi]
    have key := nextN_iterate env m.prog hd m.prog.steps (PipeM.st0 (logItems m.initLogs) true) m.initLogs
      ⟨rfl, rfl, Or.inl rfl, rfl⟩ rfl (by simp [PipeM.st0])
    have c10 := C10_producer (fun _ => true) m.initLogs m.prog.steps
    refine ⟨_, by rw [hopen], ?_, ?_, ?_⟩
    · rw [key]; rfl
    · rw [hopen, key]; simpa using c10.1
    · rw [key]; exact c10.2.1
  | some h =>
    have hopen : PipeM.openS m = (lgEv m.initLogs ++ [.header h], some (PipeM.st0 [] true)) := by
      simp [PipeM.openS, hh, hi]
    have key := nextN_iterate env m.prog hd m.prog.steps (PipeM.st0 [] true) []
      ⟨rfl, rfl, Or.inl rfl, rfl⟩ rfl (by simp [PipeM.st0])
    have c10 := C10_producer (fun _ => true) [] m.prog.steps
    refine ⟨_, by rw [hopen], ?_, ?_, ?_⟩
    · rw [key]; rfl
    · rw [hopen, key]
      have hl : datasOf (lgEv m.initLogs ++ [Ev.header h]) = [] := by
        rw [Engine.Aux.datasOf_append]
        have : datasOf (lgEv m.initLogs) = [] := datasOf_lg m.initLogs
        rw [this]; rfl
      rw [Engine.Aux.datasOf_append, hl]; exact c10.1
    · rw [key]; exact c10.2.1

/-- HTTP, the op machine, every break-decision function (hence every cap / codec / number of turns) and either value of
the `_finished` check: opening a producer and iterating it to the end.  Without a header the event sequence IS
`Engine.Http.iterate`; with a header it is the same sequence with the header-stream logs in front and the header event
after the logs delivered at the open.  Either way the data delivered = the emitted batches up to the finish, and the
stream ends exactly there. -/
theorem C10_producer_http_session (c : HttpM.Cfg) (m : Method) (hd : m.prog.decl = []) (hi : m.init = none)
    (hl : ∀ r, c.lost r = false) :
    (m.header = none → HttpM.openIterate c m = Http.iterate c.brk m.initLogs m.prog.steps) ∧
    (∀ h, m.header = some h → ∃ evs tail, Http.iterate c.brk [] m.prog.steps = evs ++ tail ∧
        (∀ e ∈ evs, ∃ l, e = Ev.log l) ∧
        HttpM.openIterate c m = lgEv m.initLogs ++ evs ++ [Ev.header h] ++ tail) ∧
    datasOf (HttpM.openIterate c m) = emitted m.prog.steps ∧
    restOf (HttpM.openIterate c m) =
      (match m.header with | some h => [Ev.header h] | none => []) ++ terminal m.prog.steps := by
  have hp : m.prog.isProducer = true := by simp [Prog.isProducer, hd]
  have key := openIterate_eq c m hp hi hl
  have hnone : m.header = none → HttpM.openIterate c m = Http.iterate c.brk m.initLogs m.prog.steps := by
    intro hh
    rw [key, iterate_assemble, assemble_tail]
    simp [HttpM.openEvs, hh, HttpM.initBody, hp, HttpM.sinkLogs]
  have hsome : ∀ h, m.header = some h → ∃ evs tail, Http.iterate c.brk [] m.prog.steps = evs ++ tail ∧
      (∀ e ∈ evs, ∃ l, e = Ev.log l) ∧
      HttpM.openIterate c m = lgEv m.initLogs ++ evs ++ [Ev.header h] ++ tail := by
    intro h hh
    have hb : (HttpM.initBody c m).1 = logItems [] ++ Http.turn c.brk 0 m.prog.steps := by
      simp [HttpM.initBody, hp, HttpM.sinkLogs, hh]
    refine ⟨(Http.parseInit (HttpM.initBody c m).1).evs,
      (Http.parseInit (HttpM.initBody c m).1).pending.map Ev.data ++ tailEvs m.prog (Http.parseInit (HttpM.initBody c m).1),
      ?_, parseInit_evs_logs _, ?_⟩
    · rw [iterate_assemble, assemble_tail, ← hb, List.append_assoc]
    · rw [key]; simp [HttpM.openEvs, hh, List.append_assoc]
  have c10 := C10_producer c.brk
  refine ⟨hnone, hsome, ?_, ?_⟩
  · cases hh : m.header with
    | none => rw [hnone hh]; exact (c10 m.initLogs m.prog.steps).2.2.1
    | some h =>
      obtain ⟨evs, tail, e1, hl, e2⟩ := hsome h hh
      have := (c10 [] m.prog.steps).2.2.1
      rw [e1, Engine.Aux.datasOf_append] at this
      rw [e2]
      simp only [Engine.Aux.datasOf_append]
      have h1 : datasOf (lgEv m.initLogs) = [] := datasOf_lg m.initLogs
      have h2 : datasOf [Ev.header h] = [] := rfl
      rw [h1, h2]
      simpa using this
  · cases hh : m.header with
    | none => rw [hnone hh]; simpa using (c10 m.initLogs m.prog.steps).2.2.2
    | some h =>
      obtain ⟨evs, tail, e1, hl, e2⟩ := hsome h hh
      have := (c10 [] m.prog.steps).2.2.2
      rw [e1, Engine.Aux.restOf_append] at this
      have hev : restOf evs = [] := by
        clear this e1 e2
        induction evs with
        | nil => rfl
        | cons x r ih =>
          obtain ⟨l, hx⟩ := hl x (by simp)
          rw [hx]
          exact ih (fun e he => hl e (by simp [he]))
      rw [hev, List.nil_append] at this
      rw [e2]
      simp only [Engine.Aux.restOf_append]
      have h1 : restOf (lgEv m.initLogs) = [] := restOf_lg m.initLogs
      have h2 : restOf [Ev.header h] = [Ev.header h] := rfl
      rw [h1, h2, hev, this]
      rfl

theorem notProducer (p : Prog) (h : p.decl ≠ []) : p.isProducer = false := by
  unfold Prog.isProducer
  cases hd : p.decl with
  | nil => exact absurd hd h
  | cons x r => rfl

/-- Socket family, the op machine: an exchange session fed conforming inputs (all written with one schema — the input
IPC stream's — and each passing the coercion) and then closed, where only the last input may meet a step that does not
emit, IS `Engine.Pipe.exchangeAll` on the steps those inputs play; hence one output per input, and `finish` refused. -/
theorem C10_exchange_pipe_session (env : Env) (m : Method) (inputs : List IBatch) (sch : Schema)
    (hx : m.prog.decl ≠ []) (hi : m.init = none)
    (hin : ∀ b ∈ inputs, b.schema = sch ∧ ∃ b', coerceInput env m.prog.decl b = .ok b')
    (hall : AllEmit (playedFrom m.prog 0 inputs.length).dropLast) :
    ∃ s0, (PipeM.openS m).2 = some s0 ∧
      (PipeM.run env m.prog s0 (inputs.map PipeM.Op.send ++ [PipeM.Op.close])).2.flatten =
        Pipe.exchangeAll s0.unread (playedFrom m.prog 0 inputs.length) ∧
      datasOf (PipeM.run env m.prog s0 (inputs.map PipeM.Op.send ++ [PipeM.Op.close])).2.flatten =
        exchanged (playedFrom m.prog 0 inputs.length) ∧
      restOf (PipeM.run env m.prog s0 (inputs.map PipeM.Op.send ++ [PipeM.Op.close])).2.flatten =
        exchangeEnd (playedFrom m.prog 0 inputs.length) ∧
      (AllEmit (playedFrom m.prog 0 inputs.length) →
        (datasOf (PipeM.run env m.prog s0 (inputs.map PipeM.Op.send ++ [PipeM.Op.close])).2.flatten).length
          = inputs.length) := by
  have hnp := notProducer m.prog hx
  have main : ∀ (il : List Log), (PipeM.openS m).2 = some (PipeM.st0 (logItems il) true) →
      ∃ s0, (PipeM.openS m).2 = some s0 ∧
      (PipeM.run env m.prog s0 (inputs.map PipeM.Op.send ++ [PipeM.Op.close])).2.flatten =
        Pipe.exchangeAll s0.unread (playedFrom m.prog 0 inputs.length) ∧
      datasOf (PipeM.run env m.prog s0 (inputs.map PipeM.Op.send ++ [PipeM.Op.close])).2.flatten =
        exchanged (playedFrom m.prog 0 inputs.length) ∧
      restOf (PipeM.run env m.prog s0 (inputs.map PipeM.Op.send ++ [PipeM.Op.close])).2.flatten =
        exchangeEnd (playedFrom m.prog 0 inputs.length) ∧
      (AllEmit (playedFrom m.prog 0 inputs.length) →
        (datasOf (PipeM.run env m.prog s0 (inputs.map PipeM.Op.send ++ [PipeM.Op.close])).2.flatten).length
          = inputs.length) := by
    intro il hopen
    have key := run_exchange env m.prog hnp sch inputs (PipeM.st0 (logItems il) true) il
      ⟨rfl, rfl, Or.inl rfl, rfl⟩ hin hall
    have c10 := C10_exchange il (playedFrom m.prog 0 inputs.length)
    have hk0 : (PipeM.st0 (logItems il) true).k = 0 := rfl
    rw [hk0] at key
    refine ⟨_, hopen, ?_, ?_, ?_, ?_⟩
    · rw [key]; rfl
    · rw [key]; exact c10.1
    · rw [key]; exact c10.2.1
    · intro ha
      rw [key, c10.1, (c10.2.2.2.2.1 ha).1]
      simp [playedFrom]
  cases hh : m.header with
  | none => exact main m.initLogs (by simp [PipeM.openS, hh, hi])
  | some h => exact main [] (by simp [PipeM.openS, hh, hi, logItems])

/-- HTTP, the op machine: the same for one request per input -/
theorem C10_exchange_http_session (c : HttpM.Cfg) (m : Method) (inputs : List IBatch)
    (hx : m.prog.decl ≠ []) (hi : m.init = none)
    (hin : ∀ b ∈ inputs, ∃ b', coerceInput c.env m.prog.decl b = .ok b')
    (hall : AllEmit (playedFrom m.prog 0 inputs.length).dropLast) (hl : ∀ r, c.lost r = false) :
    ∃ s0, (HttpM.openS c m).2 = some s0 ∧
      (HttpM.run c m.prog s0 (inputs.map HttpM.Op.send)).2.flatten =
        Http.exchangeAll (playedFrom m.prog 0 inputs.length) ∧
      datasOf (HttpM.run c m.prog s0 (inputs.map HttpM.Op.send)).2.flatten =
        exchanged (playedFrom m.prog 0 inputs.length) ∧
      restOf (HttpM.run c m.prog s0 (inputs.map HttpM.Op.send)).2.flatten =
        exchangeEnd (playedFrom m.prog 0 inputs.length) ∧
      (AllEmit (playedFrom m.prog 0 inputs.length) →
        (datasOf (HttpM.run c m.prog s0 (inputs.map HttpM.Op.send)).2.flatten).length = inputs.length) := by
  have hnp := notProducer m.prog hx
  have hbody : (HttpM.initBody c m).1 = logItems (HttpM.sinkLogs m) ++ [Item.token 0] := by
    simp [HttpM.initBody, hnp]
  have hpr := parseInit_token (HttpM.sinkLogs m) 0
  rw [← hbody] at hpr
  have hopen : (HttpM.openS c m).2 = some (HttpM.session c m (Http.parseInit (HttpM.initBody c m).1)) := by
    rcases openS_cases c m hi (by rw [post_clean c hl]) with ⟨e, he, _⟩ | h
    · rw [hpr] at he; cases he
    · rw [h]
  have htok : (HttpM.session c m (Http.parseInit (HttpM.initBody c m).1)).tok = some 0 := by
    simp [HttpM.session, hpr]
  have key := hrun_exchange c m.prog hnp hl inputs _ 0 htok hin hall
  have c10 := C10_exchange [] (playedFrom m.prog 0 inputs.length)
  refine ⟨_, hopen, key, ?_, ?_, ?_⟩
  · rw [key]; exact c10.2.2.1
  · rw [key]; exact c10.2.2.2.1
  · intro ha
    rw [key, c10.2.2.1, (c10.2.2.2.2.1 ha).1]
    simp [playedFrom]

/-- the guards of `OutputCollector.emit` / `finish` as extracted: `emit` refuses a SECOND data batch and nothing else —
in particular not a collector on which `finish()` has already been called -/
theorem C10_collector_shapes :
    Gen.C10.emitGuards = ["self._data_batch_idx is not None -> RuntimeError: Only one data batch may be emitted per call"] ∧
    Gen.C10.finishGuards = ["not self._producer_mode -> RuntimeError: finish() is not allowed on exchange streams; exchange streams must emit exactly one data batch per call"] ∧
    Gen.C10.emitHelpersDelegate = true ∧ Gen.C10.emitRefusesAfterFinish = false :=
  ⟨rfl, rfl, rfl, rfl⟩

/-- `_serve_stream` ends a stream silently only when the CLIENT's input ends (the `StopIteration` of the input read, caught
around that one call); every exception out of the loop body — `state.process()` included, whatever its class, also the
classes the framework's own control flow uses (StopIteration, EOFError, BrokenPipeError, ArrowInvalid …) — reaches the single
`except Exception` that writes the error batch.  This is what `processStep (.raise e) = .fail (… ++ [.err e])` models for
EVERY exception `e`. -/
theorem C10_serve_loop_shapes :
    Gen.C10.serveLoopHandlers = ["Exception"] ∧
    Gen.C10.serveLoopSilentExits = ["input_reader.read_next_batch_with_custom_metadata() | StopIteration -> break"] :=
  ⟨rfl, rfl⟩

/-- "An emit and finish in the same step still delivers that batch", at the level of the calls a state makes and in
EITHER order, with client logs anywhere in between: for every script of well-formed steps (at most one `emit`, no
raise; `finish()`, `emit()` and `client_log()` in any order), every init-log list and every HTTP break function, the
client receives exactly the batches of the steps up to and including the first one that calls `finish()` — a function
of which calls a step makes, not of their order. -/
theorem C10_step_order (brk : Nat → Bool) (il : List Log) (steps : List (List COp))
    (h : ∀ s ∈ steps, WellFormedStep s) :
    datasOf (Pipe.iterate (logItems il) (steps.map (normalize true))) = emittedOps steps ∧
    datasOf (Http.iterate brk il (steps.map (normalize true))) = emittedOps steps ∧
    ∀ s ∈ steps, (normalize true s).act =
      (match batchOf s, finishes s with
       | some b, true => .emitFinish b
       | some b, false => .emit b
       | none, true => .finish
       | none, false => .nothing) := by
  have hn : normalize true = normalizeWith true false := by
    funext ops; unfold normalize; rw [C10_collector_shapes.2.2.2]
  have c10 := C10_producer brk il (steps.map (normalize true))
  rw [hn] at c10 ⊢
  refine ⟨by rw [c10.1]; exact emitted_normalize steps h, by rw [c10.2.2.1]; exact emitted_normalize steps h, ?_⟩
  intro s hs
  exact normalize_act s (h s hs)

example : WellFormedStep [.finish, .log ⟨[], [], []⟩, .emit ⟨2, 1, []⟩] ∧
    emittedOps [[.emit ⟨1, 1, []⟩], [.finish, .log ⟨[], [], []⟩, .emit ⟨2, 1, []⟩], [.emit ⟨3, 1, []⟩]]
      = [⟨1, 1, []⟩, ⟨2, 1, []⟩] := by
  refine ⟨⟨by decide, by decide⟩, rfl⟩

/-! ## Header -/

/-- Socket family: a stream that declares a header and starts delivers it exactly once, at the open, before any data —
whatever the script and whatever the client does afterwards -/
theorem C10_header_pipe (env : Env) (m : Method) (h : Nat) (ops : List PipeM.Op)
    (hh : m.header = some h) (hi : m.init = none) :
    ∃ s0, (PipeM.openS m).2 = some s0 ∧
      HeaderOnceFirst h ((PipeM.openS m).1 ++ (PipeM.run env m.prog s0 ops).2.flatten) := by
  refine ⟨PipeM.st0 [] true, by simp [PipeM.openS, hh, hi], ?_⟩
  refine ⟨lgEv m.initLogs, (PipeM.run env m.prog (PipeM.st0 [] true) ops).2.flatten, ?_, ?_, ?_⟩
  · simp [PipeM.openS, hh, hi]
  · exact logs_nodata _ (lgEv_logs _)
  · exact run_nohdr env m.prog ops _

/-- HTTP: the same — including the stream whose first producer step fails inside the `/init` turn (the session is kept
and carries the header; the error follows on iteration) -/
theorem C10_header_http (c : HttpM.Cfg) (m : Method) (h : Nat) (ops : List HttpM.Op)
    (hh : m.header = some h) (hi : m.init = none) (hok : (HttpM.post c true 0).2 = .ok) :
    ∃ s0, (HttpM.openS c m).2 = some s0 ∧
      HeaderOnceFirst h ((HttpM.openS c m).1 ++ (HttpM.run c m.prog s0 ops).2.flatten) := by
  have hopen : HttpM.openS c m = (HttpM.openEvs m (Http.parseInit (HttpM.initBody c m).1),
      some (HttpM.session c m (Http.parseInit (HttpM.initBody c m).1))) := by
    rcases openS_cases c m hi hok with ⟨e, _, _, hx, _⟩ | ho
    · rw [hh] at hx; cases hx
    · exact ho
  refine ⟨_, by rw [hopen], ?_⟩
  rw [hopen]
  refine ⟨lgEv m.initLogs ++ (Http.parseInit (HttpM.initBody c m).1).evs,
    (HttpM.run c m.prog (HttpM.session c m (Http.parseInit (HttpM.initBody c m).1)) ops).2.flatten, ?_, ?_, ?_⟩
  · simp [HttpM.openEvs, hh]
  · intro e he
    rcases List.mem_append.1 he with he | he
    · exact logs_nodata _ (lgEv_logs _) e he
    · exact logs_nodata _ (parseInit_evs_logs _) e he
  · apply run_nohdr_http
    intro e he
    exact parseInit_err _ e he

/-! ## Cancel -/

/-- Socket family, ALL step scripts, ALL op sequences before (`pre`) and after (`post`) the cancel: once the cancel has
been served the server log does not grow (no `process`, no second `on_cancel`), `on_cancel` has run at most once in the
whole session, the cancel itself reports nothing but trailing logs, the client never writes to the transport again, and
every later op is refused locally. -/
theorem C10_cancel_pipe (env : Env) (m : Method) (s0 : PipeM.St) (pre post : List PipeM.Op)
    (h : (PipeM.openS m).2 = some s0) :
    let s1 := (PipeM.run env m.prog s0 pre).1
    let c := PipeM.step env m.prog s1 .cancel
    let r := PipeM.run env m.prog c.1 post
    (PipeM.run env m.prog s0 (pre ++ PipeM.Op.cancel :: post)).1 = r.1 ∧
    r.1.slog = c.1.slog ∧ r.1.writes = c.1.writes ∧ onCancels r.1.slog ≤ 1 ∧
    (∀ e ∈ c.2, ∃ l, e = Ev.log l) ∧ AllOps PipeRefused post r.2 := by
  intro s1 c r
  have hclosed : c.1.closed = true := by
    show (PipeM.cancel s1).1.closed = true
    unfold PipeM.cancel; split <;> simp_all
  obtain ⟨_, h2, h3, h4⟩ := closed_run env m.prog post c.1 hclosed
  have hinv0 : PInv s0 := by left; rw [(openS_st0 m s0 h).1]; rfl
  have hinv : PInv c.1 := pinv_step env m.prog s1 (pinv_run env m.prog pre s0 hinv0) .cancel
  refine ⟨?_, h2, h3, ?_, ?_, h4⟩
  · rw [run_append]; simp only [PipeM.run]; rfl
  · show onCancels r.1.slog ≤ 1
    rw [h2]
    rcases hinv with hi | hi
    · omega
    · omega
  · intro e he
    have : c.2 = (PipeM.cancel s1).2 := rfl
    rw [this] at he
    unfold PipeM.cancel at he
    split at he
    · simp at he
    · exact drainAll_logs _ e he

/-- the client as extracted from the source: whether `__iter__` re-checks `_finished` at a token, and whether `cancel()`
retries its POST; over an arbitrary network (`lost`) and retry budget -/
def HttpM.asBuilt (env : Env) (brk : Nat → Bool) (lost : Nat → Bool) (retries : Option Nat) : HttpM.Cfg :=
  { env := env, brk := brk, chk := Gen.C10.iterChecksFinishedAtToken, lost := lost, retries := retries,
    retryCancel := Gen.C10.cancelRetried }

/-- HTTP, ALL step scripts, break decisions, op sequences before and after the cancel — and ALL networks: any set of
requests (init, continuation, exchange, cancel attempts) may have its response lost after the server handled it, under
any retry budget of the client.  The producer runs ahead of the client (a turn may have executed more steps than the
client consumed) and lost responses make the server run turns again, so the statement is about what happens AFTER the
cancel request is served: the server log does not grow, no further request is sent, `on_cancel` ran at most once in the
whole session, the cancel reports nothing, `exchange()` is refused, iteration only hands out what was buffered.
Rests on two extracted facts: `__iter__` re-checks `_finished` before following a continuation token, and `cancel()`
sends a bare POST (the stateless server runs `on_cancel` for every cancel request that reaches it). -/
theorem C10_cancel_http (env : Env) (brk : Nat → Bool) (lost : Nat → Bool) (retries : Option Nat) (m : Method)
    (s0 : HttpM.St) (pre post : List HttpM.Op)
    (h : (HttpM.openS (HttpM.asBuilt env brk lost retries) m).2 = some s0) :
    let c : HttpM.Cfg := HttpM.asBuilt env brk lost retries
    let s1 := (HttpM.run c m.prog s0 pre).1
    let k := HttpM.step c m.prog s1 .cancel
    let r := HttpM.run c m.prog k.1 post
    (HttpM.run c m.prog s0 (pre ++ HttpM.Op.cancel :: post)).1 = r.1 ∧
    r.1.slog = k.1.slog ∧ r.1.reqs = k.1.reqs ∧ onCancels r.1.slog ≤ 1 ∧ k.2 = [] ∧ AllOps HttpRefused post r.2 := by
  intro c s1 k r
  have hchk : c.chk = true := C10_shapes.2.2.2.2.2.2.2.2.2.2.2.2.2.2.2.2.2.2.2.2.2.1
  have hrc : c.retryCancel = false := C10_retry_shapes.2.2.2.2
  have hsealed : Sealed k.1 := by
    show Sealed (HttpM.cancel c s1).1
    unfold HttpM.cancel; split <;> exact ⟨rfl, rfl⟩
  obtain ⟨_, h2, h3, h4⟩ := sealed_run c m.prog hchk post k.1 hsealed
  have hinv0 : HInv s0 := by
    left
    rw [openS_slog c m s0 h]
    exact allProcess_onCancels m.prog _ (fun x hx => initBody_log c m x (rep_mem _ _ _ hx))
  have hinv : HInv k.1 := hinv_step c m.prog hchk hrc s1 (hinv_run c m.prog hchk hrc pre s0 hinv0) .cancel
  refine ⟨?_, h2, h3, ?_, ?_, h4⟩
  · rw [hrun_append]; simp only [HttpM.run]; rfl
  · show onCancels r.1.slog ≤ 1
    rw [h2]
    rcases hinv with hi | hi
    · omega
    · omega
  · show (HttpM.cancel c s1).2 = []
    unfold HttpM.cancel; split <;> rfl

namespace Examples

/-! ### non-vacuity of the hypotheses -/

def exDecl : Schema := [⟨['v'], ['i']⟩]
def exMethod : Method := ⟨⟨exDecl, [⟨[], .emit ⟨1, 1, []⟩, []⟩, ⟨[], .finish, []⟩]⟩, some 7, [], none⟩
def exInput : IBatch := ⟨[⟨['v'], ['i'], 0⟩]⟩
def exEnv : Env := ⟨fun _ _ _ => none⟩

example : ∃ s0, (PipeM.openS exMethod).2 = some s0 := ⟨_, rfl⟩
example : ∃ s0, (HttpM.openS { env := exEnv, brk := fun _ => true, chk := true } exMethod).2 = some s0 := ⟨_, rfl⟩
/-- a network that loses the first answer of `/init`, a client with one retry: the stream still opens -/
example : ∃ s0, (HttpM.openS { env := exEnv, brk := fun _ => true, chk := true, lost := fun r => r == 0, retries := some 1 }
    exMethod).2 = some s0 := ⟨_, rfl⟩
example : exMethod.prog.decl ≠ [] ∧ exMethod.init = none ∧ exMethod.header = some 7 := by decide
example : ∀ b ∈ [exInput, exInput], b.schema = exDecl ∧ ∃ b', coerceInput exEnv exMethod.prog.decl b = .ok b' := by
  intro b hb
  simp only [List.mem_cons, List.not_mem_nil, or_false, or_self] at hb
  subst hb
  exact ⟨rfl, exInput, rfl⟩
example : AllEmit (playedFrom exMethod.prog 0 2).dropLast ∧ ¬ AllEmit (playedFrom exMethod.prog 0 2) := by
  constructor
  · intro s hs
    simp [playedFrom, exMethod, Prog.stepAt, List.range', List.dropLast] at hs
    exact ⟨⟨1, 1, []⟩, by rw [hs]⟩
  · intro h
    obtain ⟨b, hb⟩ := h ⟨[], .finish, []⟩ (by simp [playedFrom, exMethod, Prog.stepAt, List.range'])
    cases hb
example : ¬ SameFieldSet (⟨[⟨['z'], ['i'], 0⟩]⟩ : IBatch).schema exDecl := by
  intro h
  have := (h ['z']).1 (by simp [names, IBatch.schema, Col.field])
  simp [names, exDecl] at this

end Examples

end VgiVerif.C10
