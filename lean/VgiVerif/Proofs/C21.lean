import VgiVerif.Model.C21
import VgiVerif.Spec.C21
/-
C21 property theorems.  Helper lemmas are in `namespace Aux`; the obligations audited by the check are at the bottom.
Everything is stated over the definitions regenerated from the source (`VgiVerif.Gen.C21`), so an edit of an enum member,
an `except` clause, a header, the `suppress(...)` list … re-checks (or breaks) these proofs.
-/
namespace VgiVerif.C21
open VgiVerif.PyStr

/-- what the spec's observer sees of a modelled 401 -/
def obs (u : Unauthorized) : Spec.Obs401 where
  reasonHeader := u.header "VGI-Auth-Reason"
  proxyRequiredHeader := u.header "VGI-Auth-Proxy-Required"
  cacheControl := u.header "Cache-Control"
  jsonContentType := u.contentType == "application/json".toList
  body := match u.body with
    | .json e r d h => .json e r d h
    | .html _ _ n => .html n

/-- the chain's view of one member: the code it records when the member's exception is caught -/
def memberCode (ρ : Env) (a : Auth) : Reason :=
  match eval ρ a with
  | .raise e => chainCode e
  | .ok => .unauthorized

/-- "this authenticator rejected the request reporting `missing_credential`" -/
def SawNone (o : Outcome) : Prop :=
  ∃ e, o = .raise e ∧ e.isInstance "ValueError" = true ∧ classify e = .missing

namespace Aux

/-! ### facts about the extracted constants -/

theorem value_table :
    Reason.missing.value = "missing_credential".toList ∧ Reason.invalid.value = "invalid_credential".toList ∧
    Reason.expired.value = "expired_credential".toList ∧ Reason.scope.value = "insufficient_scope".toList ∧
    Reason.proxy.value = "proxy_required".toList ∧ Reason.unauthorized.value = "unauthorized".toList := by
  decide

theorem ofName_consts :
    Reason.ofName Gen.C21.classifyThen = .scope ∧ Reason.ofName Gen.C21.classifyElse = .unauthorized ∧
    Reason.ofName Gen.C21.combineEmpty = .unauthorized ∧ Reason.ofName Gen.C21.combineAllMember = .missing ∧
    Reason.ofName Gen.C21.combineAllResult = .missing ∧ Reason.ofName Gen.C21.combineSkip = .missing ∧
    Reason.ofName Gen.C21.combineFall = .unauthorized ∧ Reason.ofName Gen.C21.chainCodeElse = .unauthorized ∧
    Reason.ofName Gen.C21.serializerDefaultReason = .unauthorized ∧
    Reason.ofName Gen.C21.clientUnknownReason = .unauthorized ∧
    Reason.ofName Gen.C21.clientNonEnvelopeReason = .unauthorized := by
  decide

theorem value_closed (r : Reason) : Spec.IsClosedReason r.value := by
  cases r
  · exact ⟨"missing_credential", by decide, by decide⟩
  · exact ⟨"invalid_credential", by decide, by decide⟩
  · exact ⟨"expired_credential", by decide, by decide⟩
  · exact ⟨"insufficient_scope", by decide, by decide⟩
  · exact ⟨"proxy_required", by decide, by decide⟩
  · exact ⟨"unauthorized", by decide, by decide⟩

theorem value_injective (r s : Reason) (h : r.value = s.value) : r = s := by
  cases r <;> cases s <;> first | rfl | (exfalso; revert h; decide)

theorem value_ne_nil (r : Reason) : r.value ≠ [] := by
  cases r <;> decide

theorem ofValue_value (r : Reason) : Reason.ofValue? r.value = some r := by
  cases r <;> decide

theorem ofValue_some (v : Str) (r : Reason) (h : Reason.ofValue? v = some r) : r.value = v := by
  unfold Reason.ofValue? at h
  have := List.find?_some h
  simpa using this

/-! ### exception classes against the extracted `except` clauses -/

theorem caught_authFailure (r d) : (Exc.authFailure r d).caughtBy Gen.C21.chainCatches = true := by rfl
theorem caught_valueError (x s t) : (Exc.valueError x s t).caughtBy Gen.C21.chainCatches = true := by rfl
theorem caught_perm (x s) : (Exc.permissionError x s).caughtBy Gen.C21.chainCatches = false := by rfl
theorem caught_unav (x s) : (Exc.unavailable x s).caughtBy Gen.C21.chainCatches = false := by rfl
theorem caught_other (t) : (Exc.other t).caughtBy Gen.C21.chainCatches = false := by rfl

/-- the chain catches exactly the `ValueError` instances -/
theorem caught_iff (e : Exc) : e.caughtBy Gen.C21.chainCatches = e.isInstance "ValueError" := by
  cases e <;> rfl

theorem isVE_perm (x s) : (Exc.permissionError x s).isInstance "ValueError" = false := rfl
theorem isVE_unav (x s) : (Exc.unavailable x s).isInstance "ValueError" = false := rfl
theorem isVE_other (t) : (Exc.other t).isInstance "ValueError" = false := rfl
theorem isPE_unav (x s) : (Exc.unavailable x s).isInstance "PermissionError" = false := rfl
theorem isPE_other (t) : (Exc.other t).isInstance "PermissionError" = false := rfl
theorem chainCode_valueError (x s t) : chainCode (.valueError x s t) = .unauthorized := rfl
theorem chainCode_perm (x s) : chainCode (.permissionError x s) = .unauthorized := rfl
theorem chainCode_unav (x s) : chainCode (.unavailable x s) = .unauthorized := rfl
theorem chainCode_other (t) : chainCode (.other t) = .unauthorized := rfl

theorem isVE_cases (e : Exc) (h : e.isInstance "ValueError" = true) :
    (∃ r d, e = .authFailure r d) ∨ (∃ x s t, e = .valueError x s t) := by
  cases e with
  | authFailure r d => exact Or.inl ⟨r, d, rfl⟩
  | valueError x s t => exact Or.inr ⟨x, s, t, rfl⟩
  | permissionError x s => rw [isVE_perm] at h; cases h
  | unavailable x s => rw [isVE_unav] at h; cases h
  | other t => rw [isVE_other] at h; cases h

theorem chainCode_authFailure (r d) : chainCode (.authFailure r d) = r := by
  simp only [chainCode]
  rfl

theorem chainCode_missing (e : Exc) (h : chainCode e = .missing) : ∃ d, e = .authFailure .missing d := by
  cases e with
  | authFailure r d => rw [chainCode_authFailure] at h; exact ⟨d, by rw [h]⟩
  | valueError x s t => rw [chainCode_valueError] at h; cases h
  | permissionError x s => rw [chainCode_perm] at h; cases h
  | unavailable x s => rw [chainCode_unav] at h; cases h
  | other t => rw [chainCode_other] at h; cases h

theorem classify_authFailure (r d) : classify (.authFailure r d) = r := rfl

/-- the chain's code agrees with the top-level classification on every `AuthFailure` -/
theorem chainCode_eq_classify_authFailure (r d) : chainCode (.authFailure r d) = classify (.authFailure r d) := by
  rw [chainCode_authFailure, classify_authFailure]

/-! ### `_combine_reasons` -/

theorem combine_nil : combine [] = .unauthorized := by decide

theorem combine_all_missing (cs : List Reason) (hne : cs ≠ []) (h : ∀ c ∈ cs, c = .missing) : combine cs = .missing := by
  unfold combine
  have h1 : cs.isEmpty = false := by cases cs <;> simp_all
  rw [if_neg (by simp [h1])]
  rw [if_pos]
  · exact ofName_consts.2.2.2.2.1
  · rw [ofName_consts.2.2.2.1]
    simp only [List.all_eq_true, beq_iff_eq]
    exact h

/-- not all `missing` → the first code that is not `missing` -/
theorem combine_first (pre : List Reason) (c : Reason) (post : List Reason)
    (hpre : ∀ x ∈ pre, x = .missing) (hc : c ≠ .missing) : combine (pre ++ c :: post) = c := by
  unfold combine
  rw [if_neg (by simp)]
  rw [if_neg]
  · rw [ofName_consts.2.2.2.2.2.1]
    have : (pre ++ c :: post).find? (fun x => x != Reason.missing) = some c := by
      induction pre with
      | nil => simp [hc]
      | cons p ps ih =>
        have hp : p = .missing := hpre p (by simp)
        subst hp
        simp only [List.cons_append, List.find?_cons]
        simp only [bne_self_eq_false]
        exact ih (fun x hx => hpre x (by simp [hx]))
    rw [this]
  · rw [ofName_consts.2.2.2.1]
    simp only [List.all_eq_true, beq_iff_eq]
    intro hall
    exact hc (hall c (by simp))

/-- split a list at its first element that is not `missing` -/
theorem split_first_nonmissing (cs : List Reason) (h : ¬ ∀ c ∈ cs, c = .missing) :
    ∃ pre c post, cs = pre ++ c :: post ∧ (∀ x ∈ pre, x = .missing) ∧ c ≠ .missing := by
  induction cs with
  | nil => exact absurd (by simp) h
  | cons x xs ih =>
    by_cases hx : x = .missing
    · have : ¬ ∀ c ∈ xs, c = .missing := by
        intro hall
        apply h
        intro c hc
        rcases List.mem_cons.1 hc with rfl | hc
        · exact hx
        · exact hall c hc
      obtain ⟨pre, c, post, he, hp, hc⟩ := ih this
      refine ⟨x :: pre, c, post, by rw [he]; rfl, ?_, hc⟩
      intro y hy
      rcases List.mem_cons.1 hy with rfl | hy
      · exact hx
      · exact hp y hy
    · exact ⟨[], x, xs, rfl, by simp, hx⟩

theorem combine_missing_iff (cs : List Reason) (hne : cs ≠ []) :
    combine cs = .missing ↔ ∀ c ∈ cs, c = .missing := by
  constructor
  · intro h
    apply Classical.byContradiction
    intro hn
    obtain ⟨pre, c, post, he, hp, hc⟩ := split_first_nonmissing cs hn
    rw [he, combine_first pre c post hp hc] at h
    exact hc h
  · exact combine_all_missing cs hne

/-! ### the chain loop -/

theorem scan_nil (ρ : Env) : scan ρ [] = .exhausted [] := by
  unfold scan; rfl

theorem scan_cons_ok (ρ : Env) (a : Auth) (r : List Auth) (h : eval ρ a = .ok) : scan ρ (a :: r) = .exit .ok := by
  rw [scan, h]

theorem scan_cons_uncaught (ρ : Env) (a : Auth) (r : List Auth) (e : Exc) (h : eval ρ a = .raise e)
    (hc : e.caughtBy Gen.C21.chainCatches = false) : scan ρ (a :: r) = .exit (.raise e) := by
  rw [scan, h]
  simp [hc]

theorem scan_cons_caught (ρ : Env) (a : Auth) (r : List Auth) (e : Exc) (h : eval ρ a = .raise e)
    (hc : e.caughtBy Gen.C21.chainCatches = true) :
    scan ρ (a :: r) = match scan ρ r with
      | .exit o => .exit o
      | .exhausted es => .exhausted ((strOrName e, chainCode e) :: es) := by
  rw [scan, h]
  simp only [hc, if_true]
  cases scan ρ r <;> rfl

/-- the loop runs to the end exactly when every member raised a caught exception; the entries are the members' codes -/
theorem scan_exhausted (ρ : Env) (ms : List Auth) (es : List (Str × Reason)) (h : scan ρ ms = .exhausted es) :
    (∀ a ∈ ms, ∃ e, eval ρ a = .raise e ∧ e.isInstance "ValueError" = true) ∧ es.map (·.2) = ms.map (memberCode ρ) := by
  induction ms generalizing es with
  | nil =>
    rw [scan_nil] at h
    cases h
    simp
  | cons a r ih =>
    cases hev : eval ρ a with
    | ok => rw [scan_cons_ok ρ a r hev] at h; cases h
    | raise e =>
      cases hc : e.caughtBy Gen.C21.chainCatches with
      | false => rw [scan_cons_uncaught ρ a r e hev hc] at h; cases h
      | true =>
        rw [scan_cons_caught ρ a r e hev hc] at h
        cases hr : scan ρ r with
        | exit o => rw [hr] at h; cases h
        | exhausted es' =>
          rw [hr] at h
          cases h
          obtain ⟨h1, h2⟩ := ih es' hr
          constructor
          · intro b hb
            rcases List.mem_cons.1 hb with rfl | hb
            · exact ⟨e, hev, by rw [← caught_iff]; exact hc⟩
            · exact h1 b hb
          · simp only [List.map_cons, h2, memberCode, hev]

theorem scan_all_caught (ρ : Env) (ms : List Auth)
    (h : ∀ a ∈ ms, ∃ e, eval ρ a = .raise e ∧ e.isInstance "ValueError" = true) :
    ∃ es, scan ρ ms = .exhausted es := by
  induction ms with
  | nil => exact ⟨[], scan_nil ρ⟩
  | cons a r ih =>
    obtain ⟨e, hev, hve⟩ := h a (by simp)
    obtain ⟨es, hes⟩ := ih (fun b hb => h b (by simp [hb]))
    refine ⟨(strOrName e, chainCode e) :: es, ?_⟩
    rw [scan_cons_caught ρ a r e hev (by rw [caught_iff]; exact hve), hes]

/-- when the loop is left early, the result is `ok` or an exception the chain does not catch -/
theorem scan_exit (ρ : Env) (ms : List Auth) (o : Outcome) (h : scan ρ ms = .exit o) :
    o = .ok ∨ ∃ e, o = .raise e ∧ e.isInstance "ValueError" = false := by
  induction ms with
  | nil => rw [scan_nil] at h; cases h
  | cons a r ih =>
    cases hev : eval ρ a with
    | ok => rw [scan_cons_ok ρ a r hev] at h; cases h; exact Or.inl rfl
    | raise e =>
      cases hc : e.caughtBy Gen.C21.chainCatches with
      | false =>
        rw [scan_cons_uncaught ρ a r e hev hc] at h
        cases h
        exact Or.inr ⟨e, rfl, by rw [← caught_iff]; exact hc⟩
      | true =>
        rw [scan_cons_caught ρ a r e hev hc] at h
        cases hr : scan ρ r with
        | exit o' => rw [hr] at h; cases h; exact ih hr
        | exhausted es' => rw [hr] at h; cases h

theorem eval_chain (ρ : Env) (ms : List Auth) :
    eval ρ (.chain ms) = match scan ρ ms with
      | .exit o => o
      | .exhausted es => .raise (.authFailure (combine (es.map (·.2))) (chainDetail (es.map (·.1)))) := by
  rw [eval]
  cases scan ρ ms <;> rfl

/-- a chain whose result is a `ValueError` produced that failure itself, after every member was caught -/
theorem chain_valueError (ρ : Env) (ms : List Auth) (e : Exc) (h : eval ρ (.chain ms) = .raise e)
    (hve : e.isInstance "ValueError" = true) :
    (∀ a ∈ ms, ∃ e', eval ρ a = .raise e' ∧ e'.isInstance "ValueError" = true) ∧
    ∃ d, e = .authFailure (combine (ms.map (memberCode ρ))) d := by
  rw [eval_chain] at h
  cases hs : scan ρ ms with
  | exit o =>
    rw [hs] at h
    simp only at h
    rcases scan_exit ρ ms o hs with rfl | ⟨e', rfl, hn⟩
    · cases h
    · cases h
      rw [hve] at hn
      cases hn
  | exhausted es =>
    rw [hs] at h
    simp only at h
    obtain ⟨h1, h2⟩ := scan_exhausted ρ ms es hs
    refine ⟨h1, chainDetail (es.map (·.1)), ?_⟩
    cases h
    rw [h2]

/-! ### declarations and the note -/

theorem mem_dedup (x : Str) (l : List Str) : x ∈ dedup l ↔ x ∈ l := by
  induction l with
  | nil => simp [dedup]
  | cons y ys ih =>
    simp only [dedup, List.mem_cons, List.mem_filter, ih]
    constructor
    · rintro (h | ⟨h, _⟩)
      · exact Or.inl h
      · exact Or.inr h
    · intro h
      by_cases hxy : x = y
      · exact Or.inl hxy
      · rcases h with h | h
        · exact Or.inl h
        · exact Or.inr ⟨h, by simpa using hxy⟩

theorem dedup_eq_nil (l : List Str) : dedup l = [] ↔ l = [] := by
  cases l <;> simp [dedup]

mutual
theorem mem_proxyHeadersOf (x : Str) : (a : Auth) → (x ∈ proxyHeadersOf a ↔ x ∈ declaredIn a)
  | .leaf _ hs => by simp [proxyHeadersOf, declaredIn]
  | .chain ms => by
    simp only [proxyHeadersOf, declaredIn, mem_dedup]
    exact mem_proxyHeadersOfList x ms
  | .gateOnly g => by simp [proxyHeadersOf, declaredIn, mem_dedup]
  | .requireAll g a => by
    simp only [proxyHeadersOf, declaredIn, mem_dedup, List.mem_append, mem_proxyHeadersOf x a]
theorem mem_proxyHeadersOfList (x : Str) : (ms : List Auth) → (x ∈ proxyHeadersOfList ms ↔ x ∈ declaredInList ms)
  | [] => by simp [proxyHeadersOfList, declaredInList]
  | a :: r => by
    simp only [proxyHeadersOfList, declaredInList, List.mem_append, mem_proxyHeadersOf x a, mem_proxyHeadersOfList x r]
end

theorem hintSegments_head : ∃ t, Gen.C21.hintSegments = .lit "This service only accepts requests that arrive through its configured reverse proxy, which must set the " :: t :=
  ⟨_, rfl⟩

/-- the note is the empty string exactly when no header name is configured -/
theorem buildProxyHint_eq_nil (hs : List Str) : buildProxyHint hs = [] ↔ hs = [] := by
  unfold buildProxyHint
  constructor
  · intro h
    by_cases he : (dedup hs).isEmpty = true
    · have : dedup hs = [] := by simpa using he
      exact (dedup_eq_nil hs).1 this
    · simp only [he] at h
      exfalso
      obtain ⟨t, ht⟩ := hintSegments_head
      rw [ht] at h
      simp only [List.flatMap_cons, Bool.false_eq_true, ↓reduceIte] at h
      have h2 := (List.append_eq_nil_iff.1 h).1
      revert h2
      decide
  · intro h
    subst h
    rfl

theorem infix_join (sep : Str) (x : Str) : (names : List Str) → x ∈ names → x <:+: join sep names
  | [], h => by cases h
  | [y], h => by
    have : x = y := by simpa using h
    subst this
    exact List.infix_refl _
  | y :: z :: r, h => by
    rw [join]
    rcases List.mem_cons.1 h with rfl | h'
    · exact ((List.prefix_append x sep).trans (List.prefix_append _ _)).isInfix
    · have ih := infix_join sep x (z :: r) h'
      exact ih.trans (List.suffix_append _ _).isInfix

/-- the note names every configured header -/
theorem infix_buildProxyHint (hs : List Str) (x : Str) (hx : x ∈ hs) : x <:+: buildProxyHint hs := by
  unfold buildProxyHint
  have hm : x ∈ dedup hs := (mem_dedup x hs).2 hx
  have hne : (dedup hs).isEmpty = false := by
    cases hd : dedup hs with
    | nil => rw [hd] at hm; cases hm
    | cons a b => rfl
  simp only [hne, Bool.false_eq_true, ↓reduceIte]
  have hseg : ∃ a t, Gen.C21.hintSegments = .lit a :: .listed :: t := ⟨_, _, rfl⟩
  obtain ⟨a, t, ht⟩ := hseg
  rw [ht]
  simp only [List.flatMap_cons]
  have h1 := infix_join Gen.C21.hintListSep.toList x (dedup hs) hm
  exact h1.trans ((List.prefix_append _ _).isInfix.trans (List.suffix_append _ _).isInfix)

theorem mem_headerNames (c : Config) (x : Str) :
    x ∈ c.headerNames ↔ x ∈ c.declared ∨ (∃ a, c.auth = some a ∧ x ∈ declaredIn a) ∨
      (c.proofRequired = true ∧ x = Gen.C21.proofHeader.toList) := by
  have hsrc : Gen.C21.hintSources = ["declared", "authenticate", "proof_required"] := rfl
  unfold Config.headerNames
  rw [hsrc]
  simp only [List.flatMap_cons, List.flatMap_nil, List.append_nil, List.mem_append]
  have e2 : ("authenticate" = "declared") = False := by decide
  have e4 : ("proof_required" = "declared") = False := by decide
  have e5 : ("proof_required" = "authenticate") = False := by decide
  simp only [e2, e4, e5, if_true, if_false]
  constructor
  · rintro (h | h | h)
    · exact Or.inl h
    · cases ha : c.auth with
      | none => rw [ha] at h; simp at h
      | some a => rw [ha] at h; exact Or.inr (Or.inl ⟨a, rfl, (mem_proxyHeadersOf x a).1 h⟩)
    · cases hp : c.proofRequired with
      | false => rw [hp] at h; simp at h
      | true => rw [hp] at h; exact Or.inr (Or.inr ⟨rfl, by simpa using h⟩)
  · rintro (h | ⟨a, ha, h⟩ | ⟨hp, h⟩)
    · exact Or.inl h
    · rw [ha]; exact Or.inr (Or.inl ((mem_proxyHeadersOf x a).2 h))
    · rw [hp]; exact Or.inr (Or.inr (by simp [h]))

/-! ### the serializer -/

theorem obs_serialize (hint : Str) (ctx : Option Reason) (detail : Str) (acc : Option Str) :
    obs (serialize hint ctx detail acc) =
      { reasonHeader := some (ctx.getD .unauthorized).value
        proxyRequiredHeader := if hint.isEmpty then none else some "true".toList
        cacheControl := some "no-store".toList
        jsonContentType := !wantsHtml acc
        body := if wantsHtml acc then .html (if hint.isEmpty then none else some hint)
                else .json "unauthorized".toList (ctx.getD .unauthorized).value detail
                  (if hint.isEmpty then none else some hint) } := by
  have hd : Reason.ofName Gen.C21.serializerDefaultReason = .unauthorized := ofName_consts.2.2.2.2.2.2.2.2.1
  unfold serialize
  rw [hd]
  cases hw : wantsHtml acc <;> cases hh : hint.isEmpty <;> rfl

/-! ### the middleware -/

theorem respond_eq (c : Config) (a : Auth) (ρ : Env) (acc : Option Str) (h : c.auth = some a) :
    respond c ρ acc = match eval ρ a with
      | .ok => .pass
      | .raise (.unavailable n d) => .unavailable n (Exc.str (.unavailable n d))
      | .raise (.other _) => .serverError
      | .raise e => .unauthorized (serialize c.hint (some (classify e)) e.str acc) := by
  unfold respond
  rw [h]
  dsimp only
  cases eval ρ a with
  | ok => rfl
  | raise e => cases e <;> rfl

/-- a 401 is produced exactly for the `ValueError` / `PermissionError` instances -/
theorem respond_unauthorized (c : Config) (ρ : Env) (acc : Option Str) (u : Unauthorized)
    (h : respond c ρ acc = .unauthorized u) :
    ∃ a e, c.auth = some a ∧ eval ρ a = .raise e ∧
      (e.isInstance "ValueError" = true ∨ e.isInstance "PermissionError" = true) ∧
      u = serialize c.hint (some (classify e)) e.str acc := by
  cases ha : c.auth with
  | none => unfold respond at h; rw [ha] at h; cases h
  | some a =>
    rw [respond_eq c a ρ acc ha] at h
    cases hev : eval ρ a with
    | ok => rw [hev] at h; cases h
    | raise e =>
      rw [hev] at h
      cases e with
      | authFailure r d => cases h; exact ⟨a, _, rfl, hev, Or.inl rfl, rfl⟩
      | valueError x s t => cases h; exact ⟨a, _, rfl, hev, Or.inl rfl, rfl⟩
      | permissionError x s => cases h; exact ⟨a, _, rfl, hev, Or.inr rfl, rfl⟩
      | unavailable n d => cases h
      | other t => cases h

/-! ### consulted sources -/

theorem consultedList_cons (ρ : Env) (a : Auth) (r : List Auth) :
    consultedList ρ (a :: r) = consulted ρ a ++ (match eval ρ a with
      | .ok => []
      | .raise e => if e.caughtBy Gen.C21.chainCatches then consultedList ρ r else []) := by
  rw [consultedList]
  cases eval ρ a <;> rfl

mutual
theorem outage_eval (ρ : Env) (n : Int) (d : Str) (s : Src) : (a : Auth) → s ∈ consulted ρ a →
    ρ.at s = .raise (.unavailable n d) → eval ρ a = .raise (.unavailable n d)
  | .leaf i hs => by
    intro hs' hat
    simp only [consulted, List.mem_singleton] at hs'
    subst hs'
    simpa [eval, Env.at] using hat
  | .chain ms => by
    intro hs' hat
    rw [consulted] at hs'
    rw [eval_chain, outage_scan ρ n d s ms hs' hat]
  | .gateOnly g => by
    intro hs' hat
    simp only [consulted, List.mem_singleton] at hs'
    subst hs'
    simpa [eval, Env.at] using hat
  | .requireAll g a => by
    intro hs' hat
    rw [consulted] at hs'
    rw [eval]
    rcases List.mem_cons.1 hs' with rfl | hin
    · have : ρ.gate g.id = .raise (.unavailable n d) := by simpa [Env.at] using hat
      rw [this]
    · cases hg : ρ.gate g.id with
      | ok =>
        rw [hg] at hin
        exact outage_eval ρ n d s a hin hat
      | raise e => rw [hg] at hin; cases hin
theorem outage_scan (ρ : Env) (n : Int) (d : Str) (s : Src) : (ms : List Auth) → s ∈ consultedList ρ ms →
    ρ.at s = .raise (.unavailable n d) → scan ρ ms = .exit (.raise (.unavailable n d))
  | [] => by
    intro hs'
    simp [consultedList] at hs'
  | a :: r => by
    intro hs' hat
    rw [consultedList_cons] at hs'
    rcases List.mem_append.1 hs' with hin | hin
    · have := outage_eval ρ n d s a hin hat
      exact scan_cons_uncaught ρ a r _ this (caught_unav n d)
    · cases hev : eval ρ a with
      | ok => rw [hev] at hin; cases hin
      | raise e =>
        rw [hev] at hin
        dsimp only at hin
        cases hc : e.caughtBy Gen.C21.chainCatches with
        | false => rw [hc] at hin; simp at hin
        | true =>
          rw [hc] at hin
          simp only [if_true] at hin
          rw [scan_cons_caught ρ a r e hev hc, outage_scan ρ n d s r hin hat]
end

/-- consulted sources of a chain whose members were all caught: all of every member's -/
theorem consultedList_all_caught (ρ : Env) (ms : List Auth)
    (h : ∀ a ∈ ms, ∃ e, eval ρ a = .raise e ∧ e.isInstance "ValueError" = true) (s : Src)
    (hs : s ∈ consultedList ρ ms) : ∃ a ∈ ms, s ∈ consulted ρ a := by
  induction ms with
  | nil => simp [consultedList] at hs
  | cons a r ih =>
    rw [consultedList_cons] at hs
    rcases List.mem_append.1 hs with hin | hin
    · exact ⟨a, by simp, hin⟩
    · obtain ⟨e, hev, hve⟩ := h a (by simp)
      rw [hev] at hin
      simp only [caught_iff, hve, if_true] at hin
      obtain ⟨b, hb, hsb⟩ := ih (fun b hb => h b (by simp [hb])) hin
      exact ⟨b, by simp [hb], hsb⟩

theorem sawNone_of_chain_member (ρ : Env) (ms : List Auth) (h : SawNone (eval ρ (.chain ms))) :
    ∀ a ∈ ms, ∃ d, eval ρ a = .raise (.authFailure .missing d) := by
  obtain ⟨e, he, hve, hcl⟩ := h
  obtain ⟨hall, d, hd⟩ := chain_valueError ρ ms e he hve
  subst hd
  rw [classify_authFailure] at hcl
  have hne : ms.map (memberCode ρ) ≠ [] := by
    intro hnil
    rw [hnil, combine_nil] at hcl
    cases hcl
  have := (combine_missing_iff _ hne).1 hcl
  intro a ha
  obtain ⟨e', hev, _⟩ := hall a ha
  have hm : memberCode ρ a = .missing := this _ (List.mem_map_of_mem ha)
  simp only [memberCode, hev] at hm
  obtain ⟨d', rfl⟩ := chainCode_missing e' hm
  exact ⟨d', hev⟩

mutual
theorem sawNone_deep (ρ : Env) (s : Src) : (a : Auth) → SawNone (eval ρ a) → s ∈ consulted ρ a →
    (ρ.at s = .ok ∧ ∃ i, s = .gate i) ∨ SawNone (ρ.at s)
  | .leaf i hs => by
    intro h hs'
    simp only [consulted, List.mem_singleton] at hs'
    subst hs'
    exact Or.inr (by simpa [eval, Env.at] using h)
  | .chain ms => by
    intro h hs'
    rw [consulted] at hs'
    exact sawNone_deep_list ρ s ms (sawNone_of_chain_member ρ ms h) hs'
  | .gateOnly g => by
    intro h hs'
    simp only [consulted, List.mem_singleton] at hs'
    subst hs'
    exact Or.inr (by simpa [eval, Env.at] using h)
  | .requireAll g a => by
    intro h hs'
    rw [consulted] at hs'
    rw [eval] at h
    cases hg : ρ.gate g.id with
    | ok =>
      rw [hg] at h hs'
      rcases List.mem_cons.1 hs' with rfl | hin
      · exact Or.inl ⟨by simpa [Env.at] using hg, g.id, rfl⟩
      · exact sawNone_deep ρ s a h hin
    | raise e =>
      rw [hg] at h hs'
      rcases List.mem_cons.1 hs' with rfl | hin
      · exact Or.inr (by simpa [Env.at, hg] using h)
      · cases hin
theorem sawNone_deep_list (ρ : Env) (s : Src) : (ms : List Auth) →
    (∀ a ∈ ms, ∃ d, eval ρ a = .raise (.authFailure .missing d)) → s ∈ consultedList ρ ms →
    (ρ.at s = .ok ∧ ∃ i, s = .gate i) ∨ SawNone (ρ.at s)
  | [] => by
    intro _ hs'
    simp [consultedList] at hs'
  | a :: r => by
    intro hall hs'
    rw [consultedList_cons] at hs'
    obtain ⟨d, hev⟩ := hall a (by simp)
    rcases List.mem_append.1 hs' with hin | hin
    · exact sawNone_deep ρ s a ⟨_, hev, rfl, rfl⟩ hin
    · rw [hev] at hin
      simp only [caught_authFailure, if_true] at hin
      exact sawNone_deep_list ρ s r (fun b hb => hall b (by simp [hb])) hin
end

/-! ### client -/

theorem suppressed_all (e : LoadsExc) : Gen.C21.clientSuppresses.any e.isInstance = true := by
  cases e <;> decide

theorem nonEnvelope_authErr (text : Str) : ∃ d, nonEnvelope text = .authErr .unauthorized d [] := by
  have hr : Reason.ofName Gen.C21.clientNonEnvelopeReason = .unauthorized := ofName_consts.2.2.2.2.2.2.2.2.2.2
  unfold nonEnvelope
  rw [hr]
  simp only
  split
  · exact ⟨_, rfl⟩
  · exact ⟨_, rfl⟩

/-! ### substring test -/

theorem contains_iff (sub s : Str) : contains sub s = true ↔ sub <:+: s := by
  induction s with
  | nil =>
    simp only [contains, List.isEmpty_iff]
    constructor
    · rintro rfl; exact List.infix_refl _
    · intro h; exact List.eq_nil_of_infix_nil h
  | cons c cs ih =>
    simp only [contains, Bool.or_eq_true, ih, List.isPrefixOf_iff_prefix]
    constructor
    · rintro (h | h)
      · exact h.isInfix
      · exact h.trans (List.suffix_cons c cs).isInfix
    · intro h
      rcases List.infix_cons_iff.1 h with h | h
      · exact Or.inl h
      · exact Or.inr h

end Aux

/-! ## Obligations -/

/-- every source shape the model relies on was recognised by the extractor -/
theorem C21_shapes :
    Gen.C21.classifyRecognised = true ∧ Gen.C21.authFailureRecognised = true ∧ Gen.C21.unavailableRecognised = true ∧
    Gen.C21.declareRecognised = true ∧ Gen.C21.combineRecognised = true ∧ Gen.C21.chainRecognised = true ∧
    Gen.C21.requireAllRecognised = true ∧ Gen.C21.middlewareRecognised = true ∧ Gen.C21.serializerRecognised = true ∧
    Gen.C21.envelopeRecognised = true ∧ Gen.C21.hintRecognised = true ∧ Gen.C21.factoryRecognised = true ∧
    Gen.C21.clientRecognised = true ∧ Gen.C21.chainRejectsEmpty = true ∧ Gen.C21.chainRejectsGate = true ∧
    Gen.C21.proofGateDeclaresOnlyInRequire = true ∧ Gen.C21.proofErrorIsPermissionWithProxyRequired = true ∧
    Gen.C21.chainCodeClass = "AuthFailure" ∧ Gen.C21.classifyClass = "PermissionError" ∧
    Gen.C21.serializerGuard = "isinstance(exc, falcon.HTTPUnauthorized)" ∧
    Gen.C21.classifyGuard = "isinstance(declared, AuthReason)" := by
  decide

/-- the source's `AuthReason` is exactly the closed set of the specification; values are distinct -/
theorem C21_closed_set :
    Gen.C21.reasonMembers.map (·.2) = Spec.closedSet ∧ (∀ r : Reason, Spec.IsClosedReason r.value) ∧
    (∀ r s : Reason, r.value = s.value → r = s) :=
  ⟨by decide, Aux.value_closed, Aux.value_injective⟩

/-- what the middleware answers, for every composition and every request (exact) -/
theorem C21_status (c : Config) (a : Auth) (ρ : Env) (acc : Option Str) (h : c.auth = some a) :
    respond c ρ acc = match eval ρ a with
      | .ok => .pass
      | .raise (.unavailable n d) => .unavailable n (Exc.str (.unavailable n d))
      | .raise (.other _) => .serverError
      | .raise e => .unauthorized (serialize c.hint (some (classify e)) e.str acc) :=
  Aux.respond_eq c a ρ acc h

/-- classification is total and exact whatever the duck-typed `vgi_auth_reason` attribute holds: only an `AuthReason`
    member is honoured; a plain string (a wire value, a foreign or re-cased code, `""`), a number, any other object, or
    no attribute at all falls through to `insufficient_scope` (PermissionError) / `unauthorized` — it never escapes the
    closed set and never raises (with `C21_status`: such a rejection is still the standardized 401) -/
theorem C21_classify (e : Exc) :
    classify e = (match e.attr with
      | .member r => r
      | _ => if e.isInstance "PermissionError" = true then .scope else .unauthorized) ∧
    Spec.IsClosedReason (classify e).value := by
  refine ⟨?_, Aux.value_closed _⟩
  have h1 : Reason.ofName Gen.C21.classifyThen = .scope := Aux.ofName_consts.1
  have h2 : Reason.ofName Gen.C21.classifyElse = .unauthorized := Aux.ofName_consts.2.1
  have h3 : Gen.C21.classifyClass = "PermissionError" := rfl
  unfold classify Exc.declared
  rw [h1, h2, h3]
  cases e.attr <;> rfl

/-- every rejection (`ValueError` / `PermissionError` of any composition) is a 401, and only those are -/
theorem C21_rejection_is_401 (c : Config) (a : Auth) (ρ : Env) (acc : Option Str) (h : c.auth = some a) :
    (∃ u, respond c ρ acc = .unauthorized u) ↔
      ∃ e, eval ρ a = .raise e ∧ (e.isInstance "ValueError" = true ∨ e.isInstance "PermissionError" = true) := by
  constructor
  · rintro ⟨u, hu⟩
    obtain ⟨a', e, ha', hev, hk, _⟩ := Aux.respond_unauthorized c ρ acc u hu
    rw [h] at ha'
    cases ha'
    exact ⟨e, hev, hk⟩
  · rintro ⟨e, hev, hk⟩
    rw [Aux.respond_eq c a ρ acc h, hev]
    cases e with
    | authFailure r d => exact ⟨_, rfl⟩
    | valueError x s t => exact ⟨_, rfl⟩
    | permissionError x s => exact ⟨_, rfl⟩
    | unavailable n d =>
      rcases hk with hk | hk
      · rw [Aux.isVE_unav] at hk; cases hk
      · rw [Aux.isPE_unav] at hk; cases hk
    | other t =>
      rcases hk with hk | hk
      · rw [Aux.isVE_other] at hk; cases hk
      · rw [Aux.isPE_other] at hk; cases hk

/-- the reason of every 401 is in the closed set, is the classification of the callback's exception, is in the
    `VGI-Auth-Reason` header, and the JSON envelope carries the same reason under `"error": "unauthorized"` -/
theorem C21_reason_closed (c : Config) (ρ : Env) (acc : Option Str) (u : Unauthorized)
    (h : respond c ρ acc = .unauthorized u) :
    Spec.ReasonOk (obs u) ∧ Spec.EnvelopeOk (obs u) ∧
    ∃ a e, c.auth = some a ∧ eval ρ a = .raise e ∧ (obs u).reasonHeader = some (classify e).value := by
  obtain ⟨a, e, ha, hev, _, rfl⟩ := Aux.respond_unauthorized c ρ acc u h
  rw [Aux.obs_serialize]
  refine ⟨⟨_, rfl, Aux.value_closed _⟩, ?_, a, e, ha, hev, rfl⟩
  unfold Spec.EnvelopeOk
  cases hw : wantsHtml acc <;> simp

/-- `Cache-Control: no-store` on every 401 -/
theorem C21_nostore (c : Config) (ρ : Env) (acc : Option Str) (u : Unauthorized)
    (h : respond c ρ acc = .unauthorized u) : Spec.NoStore (obs u) := by
  obtain ⟨a, e, _, _, _, rfl⟩ := Aux.respond_unauthorized c ρ acc u h
  rw [Aux.obs_serialize]
  rfl

/-- JSON unless the caller asked for HTML (and HTML exactly when it did) -/
theorem C21_negotiation (c : Config) (ρ : Env) (acc : Option Str) (u : Unauthorized)
    (h : respond c ρ acc = .unauthorized u) :
    Spec.NegotiationOk acc (obs u) ∧ (Spec.AskedHtml acc → ∃ n, (obs u).body = .html n) := by
  obtain ⟨a, e, _, _, _, rfl⟩ := Aux.respond_unauthorized c ρ acc u h
  rw [Aux.obs_serialize]
  have hiff : wantsHtml acc = true ↔ Spec.AskedHtml acc := by
    unfold wantsHtml Spec.AskedHtml
    rw [Aux.contains_iff]
    rfl
  constructor
  · intro hn
    have : wantsHtml acc = false := by
      cases hw : wantsHtml acc
      · rfl
      · exact absurd (hiff.1 hw) hn
    simp only [this]
    exact ⟨_, _, _, _, rfl⟩
  · intro hy
    simp only [hiff.2 hy]
    exact ⟨_, rfl⟩

/-- the note (header and text) is a function of the configuration only: any two 401s of one service — whatever the
    requests, whatever failed, whatever was accepted — carry the same one; and its shape follows §4/§5 -/
theorem C21_hint_static (c : Config) (ρ₁ ρ₂ : Env) (acc₁ acc₂ : Option Str) (u₁ u₂ : Unauthorized)
    (h₁ : respond c ρ₁ acc₁ = .unauthorized u₁) (h₂ : respond c ρ₂ acc₂ = .unauthorized u₂) :
    Spec.SameNote (obs u₁) (obs u₂) ∧ Spec.NoteShapeOk (obs u₁) := by
  obtain ⟨_, _, _, _, _, rfl⟩ := Aux.respond_unauthorized c ρ₁ acc₁ u₁ h₁
  obtain ⟨_, _, _, _, _, rfl⟩ := Aux.respond_unauthorized c ρ₂ acc₂ u₂ h₂
  rw [Aux.obs_serialize, Aux.obs_serialize]
  unfold Spec.SameNote Spec.NoteShapeOk Spec.Obs401.note
  cases hh : c.hint.isEmpty <;> cases wantsHtml acc₁ <;> cases wantsHtml acc₂ <;> simp <;>
    (intro hc; rw [hc] at hh; cases hh)

/-- the note is present exactly when the configuration names a proxy-injected header — stated by the operator, declared
    by any leaf or gate anywhere in the composition (wrapping never drops a declaration), or implied by
    `proxy_proof_required` -/
theorem C21_hint_iff (c : Config) (ρ : Env) (acc : Option Str) (u : Unauthorized)
    (h : respond c ρ acc = .unauthorized u) :
    Spec.NoteIffOk (c.declared ≠ [] ∨ (∃ a, c.auth = some a ∧ declaredIn a ≠ []) ∨ c.proofRequired = true) (obs u) := by
  obtain ⟨_, _, _, _, _, rfl⟩ := Aux.respond_unauthorized c ρ acc u h
  rw [Aux.obs_serialize]
  unfold Spec.NoteIffOk
  have key : c.hint.isEmpty = false ↔
      (c.declared ≠ [] ∨ (∃ a, c.auth = some a ∧ declaredIn a ≠ []) ∨ c.proofRequired = true) := by
    have h0 : c.hint.isEmpty = false ↔ c.headerNames ≠ [] := by
      unfold Config.hint
      have := Aux.buildProxyHint_eq_nil c.headerNames
      constructor
      · intro he hn
        rw [this.2 hn] at he
        cases he
      · intro hn
        cases hb : buildProxyHint c.headerNames with
        | nil => exact absurd (this.1 hb) hn
        | cons x xs => rfl
    rw [h0]
    constructor
    · intro hne
      obtain ⟨x, hx⟩ := List.exists_mem_of_ne_nil _ hne
      rcases (Aux.mem_headerNames c x).1 hx with hx | ⟨a, ha, hx⟩ | ⟨hp, _⟩
      · exact Or.inl (List.ne_nil_of_mem hx)
      · exact Or.inr (Or.inl ⟨a, ha, List.ne_nil_of_mem hx⟩)
      · exact Or.inr (Or.inr hp)
    · rintro (hd | ⟨a, ha, hd⟩ | hp)
      · obtain ⟨x, hx⟩ := List.exists_mem_of_ne_nil _ hd
        exact List.ne_nil_of_mem ((Aux.mem_headerNames c x).2 (Or.inl hx))
      · obtain ⟨x, hx⟩ := List.exists_mem_of_ne_nil _ hd
        exact List.ne_nil_of_mem ((Aux.mem_headerNames c x).2 (Or.inr (Or.inl ⟨a, ha, hx⟩)))
      · exact List.ne_nil_of_mem ((Aux.mem_headerNames c _).2 (Or.inr (Or.inr ⟨hp, rfl⟩)))
  rw [← key]
  cases c.hint.isEmpty <;> simp

/-- §5.2: the note names every header the configuration depends on -/
theorem C21_hint_names (c : Config) (x : Str) (hx : x ∈ c.headerNames) : x <:+: c.hint :=
  Aux.infix_buildProxyHint c.headerNames x hx

/-- composition helpers carry declarations through, at any depth; the built-in proof gate declares its header only in
    `require` mode, the built-in mTLS authenticators declare the header they read -/
theorem C21_declarations (x : Str) (a : Auth) :
    (x ∈ proxyHeadersOf a ↔ x ∈ declaredIn a) ∧
    (∀ i, (Gate.proof i false).headers = []) ∧ (∀ i, (Gate.proof i true).headers = ["VGI-Proxy-Proof".toList]) ∧
    (∀ i, proxyHeadersOf (Auth.mtlsXfcc i) = ["x-forwarded-client-cert".toList]) ∧
    (∀ i h, proxyHeadersOf (Auth.mtls i h) = [h]) :=
  ⟨Aux.mem_proxyHeadersOf x a, fun _ => rfl, fun _ => rfl, fun _ => rfl, fun _ _ => rfl⟩

/-- §3.1 for a chain whose alternatives all failed as credentials (members are arbitrary compositions):
    the chain fails with the combination of the members' codes, and that combination obeys the chain rule -/
theorem C21_missing (ρ : Env) (ms : List Auth) (hne : ms ≠ [])
    (hall : ∀ a ∈ ms, ∃ e, eval ρ a = .raise e ∧ e.isInstance "ValueError" = true) :
    ∃ r d, eval ρ (.chain ms) = .raise (.authFailure r d) ∧
      Spec.ChainRule (ms.map (fun a => (memberCode ρ a).value)) r.value := by
  obtain ⟨es, hes⟩ := Aux.scan_all_caught ρ ms hall
  obtain ⟨_, h2⟩ := Aux.scan_exhausted ρ ms es hes
  refine ⟨combine (ms.map (memberCode ρ)), chainDetail (es.map (·.1)), ?_, ?_, ?_⟩
  · rw [Aux.eval_chain, hes]
    dsimp only
    rw [h2]
  · have hne' : ms.map (memberCode ρ) ≠ [] := by simpa using hne
    have hm : Spec.missingCredential = Reason.missing.value := Aux.value_table.1.symm
    rw [hm]
    constructor
    · intro hv
      have := (Aux.combine_missing_iff _ hne').1 (Aux.value_injective _ _ hv)
      intro c hc
      obtain ⟨a, ha, rfl⟩ := List.mem_map.1 hc
      rw [this _ (List.mem_map_of_mem ha)]
    · intro hv
      have : ∀ c ∈ ms.map (memberCode ρ), c = .missing := by
        intro c hc
        obtain ⟨a, ha, rfl⟩ := List.mem_map.1 hc
        exact Aux.value_injective _ _ (hv _ (List.mem_map_of_mem ha))
      rw [(Aux.combine_missing_iff _ hne').2 this]
  · intro pre c post hsplit hpre hc
    have hm : Spec.missingCredential = Reason.missing.value := Aux.value_table.1.symm
    rw [hm] at hpre hc
    -- transport the split of the value list back to a split of the code list
    have hmap : ms.map (fun a => (memberCode ρ a).value) = (ms.map (memberCode ρ)).map Reason.value := by
      simp [List.map_map]
    rw [hmap] at hsplit
    obtain ⟨l₁, l₂', h1, hl1, hl2⟩ := List.map_eq_append_iff.1 hsplit
    obtain ⟨c', l₂, h2', hc', hl2'⟩ := List.map_eq_cons_iff.1 hl2
    subst h2'
    rw [h1, Aux.combine_first l₁ c' l₂]
    · exact hc'
    · intro x hx
      apply Aux.value_injective
      apply hpre
      rw [← hl1]
      exact List.mem_map_of_mem hx
    · intro hcm
      apply hc
      rw [← hc', hcm]

/-- the property's direction, for every chain and every request: a chain reports `missing_credential` only when
    every alternative reported it (as an `AuthFailure(MISSING_CREDENTIAL)`); any other `ValueError`-class result of a
    chain is the chain's own `AuthFailure` carrying the combination of the members' codes -/
theorem C21_missing_only_if (ρ : Env) (ms : List Auth) (e : Exc) (h : eval ρ (.chain ms) = .raise e)
    (hve : e.isInstance "ValueError" = true) :
    (∃ d, e = .authFailure (combine (ms.map (memberCode ρ))) d) ∧
    (classify e = .missing → ∀ a ∈ ms, ∃ d, eval ρ a = .raise (.authFailure .missing d)) :=
  ⟨(Aux.chain_valueError ρ ms e h hve).2, fun hcl => Aux.sawNone_of_chain_member ρ ms ⟨e, h, hve, hcl⟩⟩

/-- the same at unbounded depth: when any composition rejects with `missing_credential`, every callback and gate that
    was consulted on the request either rejected with `missing_credential` itself or is a gate that passed -/
theorem C21_missing_deep (ρ : Env) (a : Auth) (s : Src) (h : SawNone (eval ρ a)) (hs : s ∈ consulted ρ a) :
    (ρ.at s = .ok ∧ ∃ i, s = .gate i) ∨ SawNone (ρ.at s) :=
  Aux.sawNone_deep ρ s a h hs

/-- conversely, when every alternative raised `AuthFailure(MISSING_CREDENTIAL)` the chain reports it -/
theorem C21_missing_if (ρ : Env) (ms : List Auth) (hne : ms ≠ [])
    (hall : ∀ a ∈ ms, ∃ d, eval ρ a = .raise (.authFailure .missing d)) :
    ∃ d, eval ρ (.chain ms) = .raise (.authFailure .missing d) := by
  have hall' : ∀ a ∈ ms, ∃ e, eval ρ a = .raise e ∧ e.isInstance "ValueError" = true := by
    intro a ha
    obtain ⟨d, hd⟩ := hall a ha
    exact ⟨_, hd, rfl⟩
  obtain ⟨es, hes⟩ := Aux.scan_all_caught ρ ms hall'
  obtain ⟨_, h2⟩ := Aux.scan_exhausted ρ ms es hes
  refine ⟨chainDetail (es.map (·.1)), ?_⟩
  rw [Aux.eval_chain, hes]
  dsimp only
  rw [h2]
  have : combine (ms.map (memberCode ρ)) = .missing := by
    apply Aux.combine_all_missing
    · simpa using hne
    · intro c hc
      obtain ⟨a, ha, rfl⟩ := List.mem_map.1 hc
      obtain ⟨d, hd⟩ := hall a ha
      simp only [memberCode, hd, Aux.chainCode_authFailure]
  rw [this]

/-- `require_all`: the gate runs first; when it fails its exception is the result and the credential is not consulted -/
theorem C21_gate_first (ρ : Env) (g : Gate) (a : Auth) (e : Exc) (h : ρ.gate g.id = .raise e) :
    eval ρ (.requireAll g a) = .raise e ∧ consulted ρ (.requireAll g a) = [.gate g.id] ∧
    eval ρ (.gateOnly g) = .raise e := by
  refine ⟨?_, ?_, ?_⟩
  · rw [eval, h]
  · rw [consulted, h]
  · rw [eval, h]

/-- an outage of any consulted callback or gate, anywhere in any composition, is a 503 with its `Retry-After` —
    never a 401 — and a 503 arises in no other way -/
theorem C21_outage (c : Config) (a : Auth) (ρ : Env) (acc : Option Str) (hc : c.auth = some a) :
    (∀ s n d, s ∈ consulted ρ a → ρ.at s = .raise (.unavailable n d) →
        respond c ρ acc = .unavailable n (Exc.str (.unavailable n d))) ∧
    (∀ n x, respond c ρ acc = .unavailable n x → ∃ d, eval ρ a = .raise (.unavailable n d)) := by
  constructor
  · intro s n d hs hat
    rw [Aux.respond_eq c a ρ acc hc, Aux.outage_eval ρ n d s a hs hat]
  · intro n x h
    rw [Aux.respond_eq c a ρ acc hc] at h
    cases hev : eval ρ a with
    | ok => rw [hev] at h; cases h
    | raise e =>
      rw [hev] at h
      cases e with
      | authFailure r d => cases h
      | valueError x s t => cases h
      | permissionError x s => cases h
      | unavailable n' d => cases h; exact ⟨d, rfl⟩
      | other t => cases h

/-- the client parser is total: for every body, whatever `json.loads` and `bytes.decode` do with it (any value, any of
    the exceptions `json.loads` raises on bytes, `RecursionError` included), the result is an `AuthenticationError` whose
    reason is in the closed set; an envelope's known reason is kept, an unknown one becomes `unauthorized` -/
theorem C21_client (E : ClientEnv) (content : List UInt8) :
    (∃ r d h, parseUnauthorized E content = .authErr r d h ∧ Spec.IsClosedReason r.value) ∧
    (∀ rf df hf, E.loads content = .dict rf df hf →
      (∀ r : Reason, rf.text = r.value → parseUnauthorized E content = .authErr r df.text hf.text) ∧
      ((∀ r : Reason, rf.text ≠ r.value) → parseUnauthorized E content = .authErr .unauthorized df.text hf.text)) ∧
    (∀ e, E.loads content = .raised e → ∃ d, parseUnauthorized E content = .authErr .unauthorized d []) ∧
    (E.loads content = .nonDict → ∃ d, parseUnauthorized E content = .authErr .unauthorized d []) := by
  refine ⟨?_, ?_, ?_, ?_⟩
  · unfold parseUnauthorized parseWith
    cases hl : E.loads content with
    | raised e =>
      simp only [Aux.suppressed_all e, if_true]
      obtain ⟨d, hd⟩ := Aux.nonEnvelope_authErr (E.decode content)
      exact ⟨_, _, _, hd, Aux.value_closed _⟩
    | nonDict =>
      obtain ⟨d, hd⟩ := Aux.nonEnvelope_authErr (E.decode content)
      exact ⟨_, _, _, hd, Aux.value_closed _⟩
    | dict r d h => exact ⟨_, _, _, rfl, Aux.value_closed _⟩
  · intro rf df hf hl
    unfold parseUnauthorized parseWith
    rw [hl]
    constructor
    · intro r hr
      simp only [hr, Aux.ofValue_value]
    · intro hn
      cases ho : Reason.ofValue? rf.text with
      | none => simp only [Aux.ofName_consts.2.2.2.2.2.2.2.2.2.1, ho]
      | some r => exact absurd (Aux.ofValue_some _ _ ho).symm (hn r)
  · intro e hl
    unfold parseUnauthorized parseWith
    rw [hl]
    simp only [Aux.suppressed_all e, if_true]
    exact Aux.nonEnvelope_authErr _
  · intro hl
    unfold parseUnauthorized parseWith
    rw [hl]
    exact Aux.nonEnvelope_authErr _

/-- totality is exactly "the guard around `json.loads` names a base class of every exception it can raise":
    with any other `suppress(...)` list some body makes another exception escape -/
theorem C21_client_total_iff (sup : List String) :
    (∀ (E : ClientEnv) (content : List UInt8), ∃ r d h, parseWith sup E content = .authErr r d h) ↔
    ∀ e : LoadsExc, sup.any e.isInstance = true := by
  constructor
  · intro h e
    obtain ⟨r, d, hh, hp⟩ := h ⟨fun _ => .raised e, fun _ => []⟩ []
    unfold parseWith at hp
    simp only at hp
    cases hs : sup.any e.isInstance with
    | true => rfl
    | false => rw [hs] at hp; simp at hp
  · intro h E content
    unfold parseWith
    cases hl : E.loads content with
    | raised e =>
      simp only [h e, if_true]
      obtain ⟨d, hd⟩ := Aux.nonEnvelope_authErr (E.decode content)
      exact ⟨_, _, _, hd⟩
    | nonDict =>
      obtain ⟨d, hd⟩ := Aux.nonEnvelope_authErr (E.decode content)
      exact ⟨_, _, _, hd⟩
    | dict r d h' => exact ⟨_, _, _, rfl⟩

/-! ## Non-vacuity -/

/-- a depth-3 composition on which a 401 with `missing_credential` and the proxy note is produced -/
example :
    let a : Auth := .requireAll (Gate.proof 0 true) (.chain [.leaf 1 [], .chain [.leaf 2 [], Auth.mtlsXfcc 3]])
    let ρ : Env := ⟨fun _ => .raise (.authFailure .missing []), fun _ => .ok⟩
    ∃ u, respond ⟨some a, [], false⟩ ρ none = .unauthorized u ∧
      (obs u).reasonHeader = some "missing_credential".toList ∧
      (obs u).proxyRequiredHeader = some "true".toList := by
  refine ⟨_, rfl, ?_, ?_⟩ <;> decide

/-- an outage behind a passed gate and a rejected alternative is a 503 -/
example :
    let a : Auth := .requireAll ⟨0, []⟩ (.chain [.leaf 1 [], .leaf 2 []])
    let ρ : Env := ⟨fun i => if i = 1 then .raise (.valueError (.text "token_revoked".toList) [] "ValueError".toList) else .raise (.unavailable 7 []),
                    fun _ => .ok⟩
    respond ⟨some a, [], false⟩ ρ none = .unavailable 7 "authentication service unavailable".toList := by
  decide

/-- the parser on a body `json.loads` refuses with `RecursionError` -/
example : parseUnauthorized ⟨fun _ => .raised .recursionError, fun _ => "[[[[".toList⟩ [91, 91, 91, 91]
    = .authErr .unauthorized "[[[[".toList [] := by
  decide

end VgiVerif.C21
