import VgiVerif.Model.C14
import VgiVerif.Spec.C14
import VgiVerif.Lemmas.C14
/-
C14 — the call-state cache never changes a request's outcome.  Property theorems (the obligations audited by the check);
helper lemmas are in Lemmas/C14.lean.  Everything is for *all* histories, worker counts, capacities (0 included), clock
resolutions `tps > 0`, TTLs (0 = no expiry) and method tables `declares` / `decodes`.
-/
namespace VgiVerif.C14
open VgiVerif.Gen.C14 (Anchor Shape)

/-- the model as a deployment in the sense of the spec -/
def deployment (cfg : Cfg) : Spec.Deployment where
  State := World
  Event := Step
  Worker := Nat
  Request := Req
  Outcome := Outcome
  Identity := Ident
  CallState := RC
  step := step cfg
  serve := fun W w rq => (serveCont cfg W w rq).2
  emptied := World.emptied
  conforming := Echo
  conformed := echoed
  requester := Req.ident
  usedCallState := fun o => match o with | .served _ rc _ _ => some rc | .rejected _ => none
  mintedFor := fun W rc x => ∃ cl ∈ W.calls, cl.rc = rc ∧ aadTail cl.owner = aadTail x

/-- any number of workers with any capacities, empty caches, no token issued yet, any clock value -/
def Start (W : World) : Prop := ∃ caps t0, W = World.start caps t0

theorem reach_eq_run (cfg : Cfg) (W : World) (h : List Step) : Spec.reach (deployment cfg) W h = run cfg W h := rfl

/-- the tree's shape: entries age from the call token, the hit branch keeps the method check (what the call token's
    AAD enforces on a miss) and the declared-type check -/
def Repaired (sh : Shape) : Prop :=
  sh.missAnchor = .created ∧ sh.hitChecksType = true ∧ sh.hitChecksMethod = true ∧ sh.hitRefreshes = false

/-- the control flow the model transliterates is the control flow extraction recognised in the source -/
theorem shapes_recognised :
    Gen.C14.getRecognised = true ∧ Gen.C14.putRecognised = true ∧ Gen.C14.putKeysRecognised = true ∧
    Gen.C14.resolutionOrderRecognised = true ∧ Gen.C14.missPathRecognised = true ∧ Gen.C14.aadSameTail = true ∧
    Gen.C14.callBindsMethod = true ∧ Gen.C14.tokenRejectionsUniform = true := by
  decide

/-- the source tree under test has the repaired shape -/
theorem tree_repaired : Repaired Gen.C14.shape := ⟨by decide, by decide, by decide, by decide⟩

/-- **cache invariant**: after any history every entry `(cid, ident) ↦ rc` of every worker's cache holds the call minted
    under `cid`, and `ident` is the identity key of that call's owner -/
theorem cache_inv (cfg : Cfg) (htps : 0 < cfg.tps) (caps : List Nat) (t0 : Nat) (h : List Step) :
    let W := run cfg (World.start caps t0) h
    ∀ ch ∈ W.caches, ∀ e ∈ ch.entries,
      ∃ cl, W.calls[e.cid]? = some cl ∧ e.rc = cl.rc ∧ e.ikey = identKey cl.owner := by
  intro W ch hch e he
  obtain ⟨cl, h1, h2, h3, _⟩ := ((run_inv htps h _ (start_inv cfg caps t0)).caches ch hch).1 e he
  exact ⟨cl, h1, h2, h3⟩

/-- **cursor ownership**: a cursor that opens under identity `X` names a minted call whose owner has the AAD of `X`
    (the argument the code's own comment makes — it goes through the AAD, not through the cache key) -/
theorem cursor_owner (cfg : Cfg) (htps : 0 < cfg.tps) (caps : List Nat) (t0 : Nat) (h : List Step) (rq : Req)
    (c : Cursor) :
    let W := run cfg (World.start caps t0) h
    openCursor cfg W rq = .ok c → ∃ cl, W.calls[c.cid]? = some cl ∧ aadTail cl.owner = aadTail rq.ident := by
  intro W hopen
  obtain ⟨⟨i, _, hci⟩, haad, _⟩ := openCursor_ok hopen
  obtain ⟨cl, h1, h2⟩ := (run_inv htps h _ (start_inv cfg caps t0)).cursors c (List.mem_of_getElem? hci)
  exact ⟨cl, h1, h2.symm.trans haad⟩

/-- the cache key is *not* injective on identities, the AAD separates them: anonymous vs `("", "anonymous")` -/
theorem identKey_not_injective :
    identKey .anon = identKey (.user [] "anonymous".toList) ∧ aadTail .anon ≠ aadTail (.user [] "anonymous".toList) := by
  decide

/-- equal AAD implies equal cache key (so a lookup under the caller's key finds the owner's entry), and AAD equality is
    identity equality whenever domains carry no NUL -/
theorem aad_refines_key (x y : Ident) :
    (aadTail x = aadTail y → identKey x = identKey y) ∧
    (NulFreeDomain x → NulFreeDomain y → aadTail x = aadTail y → x = y) :=
  ⟨aad_eq_key_eq, aad_injective⟩

/-- **LRU bound**: capacities never change, no cache ever holds more entries than its capacity, and no key twice -/
theorem lru_bound (cfg : Cfg) (htps : 0 < cfg.tps) (caps : List Nat) (t0 : Nat) (h : List Step) :
    let W := run cfg (World.start caps t0) h
    W.caches.map (·.cap) = caps ∧ ∀ ch ∈ W.caches, ch.entries.length ≤ ch.cap ∧ KeysDistinct ch.entries := by
  refine ⟨(run_caps cfg h _).trans (start_caps caps t0), ?_⟩
  intro ch hch
  have := (run_inv htps h _ (start_inv cfg caps t0)).caches ch hch
  exact ⟨this.2.2, this.2.1⟩

/-- **lock discipline and what it buys**: in the source every access to `_entries` is inside `with self._lock:` (so a
    call of `get` / `put` is one atomic step and the threads of a worker drive the cache through a *sequence* of calls);
    and for every such sequence — every interleaving — the capacity bound and key uniqueness hold -/
theorem cache_calls_atomic :
    Gen.C14.entriesOnlyUnderLock = true ∧
    ∀ (c : Cache) (ops : List CacheOp), KeysDistinct c.entries → c.entries.length ≤ c.cap →
      (applyOps c ops).1.cap = c.cap ∧ KeysDistinct (applyOps c ops).1.entries ∧
        (applyOps c ops).1.entries.length ≤ c.cap :=
  ⟨by decide, fun c ops h1 h2 => applyOps_bound ops c h1 h2⟩

/-- **a `get` returns a stored entry or nothing** (for every sequence of calls): whatever any `get` returns, and whatever
    the cache holds afterwards, was in the cache at the start or was `put` by one of the calls under that very key -/
theorem cache_calls_sound (P : Nat → List Char → RC → Prop) (c : Cache) (ops : List CacheOp)
    (hinit : ∀ e ∈ c.entries, P e.cid e.ikey e.rc)
    (hput : ∀ cid k rc x, CacheOp.put cid k rc x ∈ ops → P cid k rc) :
    (∀ e ∈ (applyOps c ops).1.entries, P e.cid e.ikey e.rc) ∧
    (∀ cid k now rf rc, (CacheOp.get cid k now rf, some rc) ∈ (applyOps c ops).2 → P cid k rc) :=
  applyOps_from P ops c hinit hput

example : (applyOps ⟨1, []⟩ [.put 0 [] ⟨7, none, 0⟩ 10, .put 1 [] ⟨8, none, 0⟩ 10, .get 0 [] 3 none, .get 1 [] 3 none]).2.map (·.2)
    = [none, none, none, some ⟨8, none, 0⟩] := by decide +kernel

/-- **expiry alignment** (entries age from the token, a hit leaves the expiry alone): a live cache entry never outlives
    the call token it stands in for -/
theorem cache_expiry_aligned (cfg : Cfg) (htps : 0 < cfg.tps) (hm : cfg.shape.missAnchor = .created)
    (hr : cfg.shape.hitRefreshes = false)
    (caps : List Nat) (t0 : Nat) (h : List Step) :
    let W := run cfg (World.start caps t0) h
    ∀ ch ∈ W.caches, ∀ e ∈ ch.entries, Gen.C14.entryDead e.expires W.now = false →
      ∃ cl, W.calls[e.cid]? = some cl ∧ Gen.C14.tokenExpired cfg.ttl (W.nowS cfg) cl.created = false := by
  intro W ch hch e he hlive
  obtain ⟨cl, h1, _, _, hb⟩ := ((run_inv htps h _ (start_inv cfg caps t0)).caches ch hch).1 e he
  refine ⟨cl, h1, ?_⟩
  by_cases httl : 0 < cfg.ttl
  · exact live_entry_fresh cfg W.now e.expires cl.created hlive (hb hm hr httl)
  · have : cfg.ttl = 0 := by omega
    rw [this]; exact tokenExpired_ttl0 _ _

theorem transparent_model (cfg : Cfg) (htps : 0 < cfg.tps) (hsh : Repaired cfg.shape) (caps : List Nat) (t0 : Nat)
    (h : List Step) (w : Nat) (rq : Req) (hecho : Echo (run cfg (World.start caps t0) h) rq) :
    (serveCont cfg (run cfg (World.start caps t0) h) w rq).2
      = (serveCont cfg (run cfg (World.start caps t0) h).emptied w rq).2 := by
  rw [cold_emptied]
  exact warm_cold (run_inv htps h _ (start_inv cfg caps t0)) w rq hecho (hitSafe_of_repaired w rq hsh.1 hsh.2.1 hsh.2.2.1 hsh.2.2.2)

/-- transparency for any configuration of the repaired shape -/
theorem transparent_of_repaired (cfg : Cfg) (htps : 0 < cfg.tps) (hsh : Repaired cfg.shape) :
    Spec.Transparent (deployment cfg) Start := by
  intro s0 ⟨caps, t0, hs0⟩ h w rq hecho
  subst hs0
  exact transparent_model cfg htps hsh caps t0 h w rq hecho

/-- **C14, transparency**: with the shape extracted from the tree under test, for all histories over all worker sets,
    capacities, TTLs, clock resolutions and method tables, every conforming continuation request gets from every worker
    the outcome a worker with an empty cache gives it -/
theorem C14_transparent (cfg : Cfg) (htps : 0 < cfg.tps) (hsh : cfg.shape = Gen.C14.shape) :
    Spec.Transparent (deployment cfg) Start :=
  transparent_of_repaired cfg htps (hsh ▸ tree_repaired)

/-- **C14, partial (any shape, also the pinned one)**: the outcome is the cold outcome for every conforming request whose
    call token is still valid at the time of the request, that arrive at the minting method's endpoint (or the shape
    checks the method on a hit) and whose call-state type the method declares (or the shape checks it on a hit).
    Excluded: requests arriving after `now − created_at > token_ttl`, and cross-method requests. -/
theorem C14_transparent_partial (cfg : Cfg) (htps : 0 < cfg.tps) (caps : List Nat) (t0 : Nat) (h : List Step)
    (w : Nat) (rq : Req) :
    let W := run cfg (World.start caps t0) h
    Echo W rq →
    (∀ c cl, openCursor cfg W rq = .ok c → W.calls[c.cid]? = some cl →
      Gen.C14.tokenExpired cfg.ttl (W.nowS cfg) cl.created = false ∧
      (cfg.shape.hitChecksType = true ∨ typeOk cfg rq.method cl.rc = true) ∧
      (cfg.shape.hitChecksMethod = true ∨ cl.rc.method = rq.method)) →
    (serveCont cfg W w rq).2 = (serveCont cfg W.emptied w rq).2 := by
  intro W hecho hfresh
  rw [cold_emptied]
  exact warm_cold (run_inv htps h _ (start_inv cfg caps t0)) w rq hecho
    (fun c cl _ hopen hcl _ _ _ _ _ => hfresh c cl hopen hcl)

/-- **C14, no cross-identity** (any shape, any request — conforming or not): whatever call state an outcome was computed
    from was minted by an `/init` of a caller with the requester's AAD identity -/
theorem C14_no_cross_identity (cfg : Cfg) (htps : 0 < cfg.tps) : Spec.NoCrossIdentity (deployment cfg) Start := by
  intro s0 ⟨caps, t0, hs0⟩ h w rq cs hused
  subst hs0
  have hinv := run_inv htps h _ (start_inv cfg caps t0)
  change (match (serveCont cfg (run cfg _ h) w rq).2 with
    | .served _ rc _ _ => some rc | .rejected _ => none) = some cs at hused
  cases hs : (serveCont cfg (run cfg (World.start caps t0) h) w rq).2 with
  | rejected r => rw [hs] at hused; exact absurd hused (by simp)
  | served m rc c k =>
    rw [hs] at hused
    have : rc = cs := Option.some.inj hused
    subst this
    obtain ⟨cl, hcl, hrc, haad⟩ := served_sound hinv w rq m rc c k hs
    exact ⟨cl, List.mem_of_getElem? hcl, hrc, haad⟩

theorem nonconforming_model (cfg : Cfg) (hrep : Repaired cfg.shape) (W : World) (hinv : Inv cfg W) (w : Nat) (rq : Req) :
    (serveCont cfg W w rq).2 = (serveCont cfg W.emptied w rq).2 ∨
    (serveCont cfg W w rq).2 = (serveCont cfg W.emptied w (echoed W rq)).2 := by
  rw [cold_emptied, cold_emptied]
  cases hopen : openCursor cfg W rq with
  | error r =>
    exact Or.inl (miss_cold cfg W w rq (fun c hc => by rw [hopen] at hc; exact absurd hc (by simp)))
  | ok c =>
    rcases hg : (W.cache w).get c.cid (identKey rq.ident) W.now (hitRefresh cfg W.now) with ⟨cache1, _ | rc⟩
    · left
      apply miss_cold
      intro c' hc'
      rw [hopen] at hc'
      have : c = c' := by simpa using hc'
      subst this
      rw [hg]
    · right
      obtain ⟨f1, f2, f3, f4⟩ := echoed_fields W rq
      rw [← hit_ignores_call cfg W w rq (echoed W rq) f1 f2 f3 f4 c rc cache1 hopen hg]
      have hopen' : openCursor cfg W (echoed W rq) = .ok c := by
        rw [openCursor_congr cfg W rq (echoed W rq) f1 f3]; exact hopen
      exact hit_cold hinv w (echoed W rq) (echoed_echo W rq)
        (hitSafe_of_repaired w (echoed W rq) hrep.1 hrep.2.1 hrep.2.2.1 hrep.2.2.2) c rc cache1 hopen' (by rw [f1]; exact hg)

/-- **C14, requests that do not echo the call token** (repaired shape): answered as a cold worker answers them, or as a
    cold worker answers the conforming request — the cache never invents a third outcome -/
theorem C14_nonconforming (cfg : Cfg) (htps : 0 < cfg.tps) (hsh : cfg.shape = Gen.C14.shape) :
    Spec.Nonconforming (deployment cfg) Start := by
  intro s0 ⟨caps, t0, hs0⟩ h w rq
  subst hs0
  exact nonconforming_model cfg (hsh ▸ tree_repaired) _ (run_inv htps h _ (start_inv cfg caps t0)) w rq

/-! non-vacuity: a history in which a conforming continuation is served from a warm cache on one worker and from the
    call token on another, after an eviction and a clock advance -/

def exCfg : Cfg :=
  { shape := Gen.C14.shape, ttl := 10, tps := 4, declares := fun m t => m == t, decodes := fun m m' => m == m' }
def alice : Ident := .user "d".toList "alice".toList
def exHist : List Step :=
  [.init 0 alice 0 7 (some 0), .tick 36, .init 0 .anon 0 8 (some 0),
   .cont 1 ⟨alice, 0, .issued 0, .issued 0, false⟩, .tick 3]
def exReq : Req := ⟨alice, 0, .issued 2, .issued 0, false⟩

example : Echo (run exCfg (World.start [1, 2, 0] 0) exHist) exReq := by
  intro i c h1 h2
  have : i = 2 := by simpa [exReq] using h1.symm
  subst this
  have : c = ⟨0, alice, 9, 1, 0⟩ := by
    have h3 : (run exCfg (World.start [1, 2, 0] 0) exHist).cursors[2]? = some ⟨0, alice, 9, 1, 0⟩ := by decide +kernel
    rw [h3] at h2; simpa using h2.symm
  subst this; rfl

example : (serveCont exCfg (run exCfg (World.start [1, 2, 0] 0) exHist) 1 exReq).2
    = .served 0 ⟨7, some 0, 0⟩ ⟨0, alice, 9, 1, 0⟩ false := by decide +kernel
example : (serveCont exCfg (run exCfg (World.start [1, 2, 0] 0) exHist) 0 exReq).2
    = .served 0 ⟨7, some 0, 0⟩ ⟨0, alice, 9, 1, 0⟩ false := by decide +kernel
example : ((run exCfg (World.start [1, 2, 0] 0) exHist).caches.map (·.entries.length)) = [1, 1, 0] := by decide +kernel

end VgiVerif.C14
