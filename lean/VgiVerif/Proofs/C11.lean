import VgiVerif.Spec.C11
import VgiVerif.Proofs.Engine
/-
C11 proofs.  `Proofs/Engine.lean` proves resume / refinement / chunking independence for ALL break oracles; here
  * the real decision (`Gen.C11.shouldContinue`, extracted) is shown to BE a break oracle per turn (`turn_is_oracle_turn`),
  * the follow-the-tokens induction is redone for a POOL of workers with different caps (`follow_pool`),
  * sizes: overshoot ≤ last step + sentinel, progress, number of turns,
  * the resume blob round trip on bytes.
-/
namespace VgiVerif.C11
open VgiVerif.Engine VgiVerif.Engine.Sem VgiVerif.Engine.Aux

namespace Aux

theorem bytes_append (sz : Item → Nat) (a b : List Item) : bytes sz (a ++ b) = bytes sz a + bytes sz b := by
  induction a with
  | nil => simp [bytes]
  | cons x r ih => simp [bytes, ih]; omega

theorem stepItems_cont {s : Step} {items : List Item} (h : processStep s = .cont items) : stepItems s = items := by
  simp [stepItems, h]

theorem stepItems_done {s : Step} {items : List Item} (h : processStep s = .done items) : stepItems s = items := by
  simp [stepItems, h]

theorem stepItems_fail {s : Step} {items : List Item} (h : processStep s = .fail items) : stepItems s = items := by
  simp [stepItems, h]

/-- `Http.turn` consults its oracle only at positions ≥ its start -/
theorem http_turn_congr (b1 b2 : Nat → Bool) (rest : List Step) :
    ∀ pos, (∀ p, pos ≤ p → b1 p = b2 p) → Http.turn b1 pos rest = Http.turn b2 pos rest := by
  induction rest with
  | nil => intro pos _; simp [Http.turn]
  | cons s r ih =>
    intro pos h
    simp only [Http.turn]
    cases processStep s with
    | cont items =>
      simp only
      rw [h pos (Nat.le_refl _), ih (pos + 1) (fun p hp => h p (by omega))]
    | done items => rfl
    | fail items => rfl

/-- the real decision IS a break oracle for the turn it is taken in -/
theorem turn_is_oracle_turn (cap : Option Nat) (sz : Item → Nat) (rest : List Step) :
    ∀ told pos, turn cap sz told pos rest = Http.turn (brkOf cap sz told pos rest) pos rest := by
  induction rest with
  | nil => intro told pos; simp [turn, Http.turn]
  | cons s r ih =>
    intro told pos
    simp only [turn, Http.turn]
    cases hps : processStep s with
    | cont items =>
      simp only
      have h0 : brkOf cap sz told pos (s :: r) pos
          = Gen.C11.mintWhen (Gen.C11.shouldContinue cap (told + bytes sz items)) := by
        simp [brkOf, stepItems_cont hps]
      rw [h0, ih (told + bytes sz items) (pos + 1)]
      congr 2
      apply http_turn_congr
      intro p hp
      have e : p - pos + 1 = (p - (pos + 1) + 1) + 1 := by omega
      simp only [brkOf, e, List.take_succ_cons, List.flatMap_cons, stepItems_cont hps, bytes_append, Nat.add_assoc]
    | done items => rfl
    | fail items => rfl

/-- `follow_turn` of Proofs/Engine for a POOL: every continuation is answered by some worker with its own break oracle
(`srv p` for the continuation at position `p`) — following the tokens from any turn still yields the rest of the script -/
theorem follow_pool (srv : Nat → Nat → Bool) (steps : List Step) :
    ∀ (rest : List Step) (pos fuel : Nat) (b : Nat → Bool), steps.drop pos = rest → rest.length ≤ fuel →
      Http.follow (fun p => Http.turn (srv p) p (steps.drop p)) fuel (Http.turn b pos rest) = producer false rest := by
  intro rest
  induction rest with
  | nil => intro pos fuel b _ _; simp [Http.turn, producer, follow_nil]
  | cons s r ih =>
    intro pos fuel b hdrop hfuel
    have hr : steps.drop (pos + 1) = r := drop_succ_of_drop steps pos s r hdrop
    simp only [List.length_cons] at hfuel
    cases hact : s.act with
    | emit bt =>
      simp only [Http.turn, processStep, hact, producer]
      rw [List.append_assoc, List.append_assoc, follow_logs, List.singleton_append, follow_data, follow_logs]
      cases hb : b pos with
      | true =>
        simp only [if_true]
        obtain ⟨f, rfl⟩ : ∃ f, fuel = f + 1 := ⟨fuel - 1, by omega⟩
        simp only [Http.follow]
        rw [hr, ih (pos + 1) f (srv (pos + 1)) hr (by omega)]
        simp [List.append_assoc]
      | false =>
        simp only [Bool.false_eq_true, if_false]
        rw [ih (pos + 1) fuel b hr (by omega)]
        simp [List.append_assoc]
    | finish =>
      simp only [Http.turn, processStep, hact, producer]
      rw [follow_logs, ← List.append_nil (logItems s.post), follow_logs, follow_nil]
      simp [List.append_assoc]
    | emitFinish bt =>
      simp only [Http.turn, processStep, hact, producer]
      rw [List.append_assoc, follow_logs, List.singleton_append, follow_data,
        ← List.append_nil (logItems s.post), follow_logs, follow_nil]
      simp [List.append_assoc]
    | raise e =>
      simp only [Http.turn, processStep, hact, producer, failLogs]
      rw [follow_logs, follow_err]
    | nothing =>
      simp only [Http.turn, processStep, hact, producer, failLogs]
      rw [follow_logs, follow_err]

/-- the pool of real workers as a family of oracles -/
theorem serve_eq (pool : Nat → Option Nat) (sz : Item → Nat) (pre : Nat) (steps : List Step) :
    serve pool sz pre steps
      = fun p => Http.turn (brkOf (pool p) sz pre p (steps.drop p)) p (steps.drop p) := by
  funext p
  simp [serve, turn_is_oracle_turn]

theorem follow_real (pool : Nat → Option Nat) (sz : Item → Nat) (pre : Nat) (steps : List Step)
    (cap : Option Nat) (sz' : Item → Nat) (told pos fuel : Nat) (h : (steps.drop pos).length ≤ fuel) :
    Http.follow (serve pool sz pre steps) fuel (turn cap sz' told pos (steps.drop pos))
      = producer false (steps.drop pos) := by
  rw [serve_eq, turn_is_oracle_turn]
  exact follow_pool (fun p => brkOf (pool p) sz pre p (steps.drop p)) steps (steps.drop pos) pos fuel _ rfl h

/-! ### sizes -/

theorem no_token_in_step (s : Step) (p : Nat) : Item.token p ∉ stepItems s := by
  unfold stepItems processStep
  cases s.act <;> simp [logItems]

/-- anatomy of one turn: the steps it ran are `done ++ [last]`; every step of `done` was followed by a "continue"
decision, i.e. the bytes written after it were still below the cap; a token, if any, carries `start + #steps` -/
theorem turn_shape (cap : Option Nat) (sz : Item → Nat) :
    ∀ (rest : List Step) (told pos : Nat), rest ≠ [] →
      ∃ (done : List Step) (last : Step) (tail : List Step) (tok : List Item),
        rest = done ++ last :: tail ∧
        turn cap sz told pos rest = done.flatMap stepItems ++ stepItems last ++ tok ∧
        (tok = [] ∨ tok = [.token (pos + done.length + 1)]) ∧
        (done = [] ∨ Gen.C11.shouldContinue cap (told + bytes sz (done.flatMap stepItems)) = true) ∧
        ran cap sz told rest = done.length + 1 := by
  intro rest
  induction rest with
  | nil => intro _ _ h; exact absurd rfl h
  | cons s r ih =>
    intro told pos _
    cases hps : processStep s with
    | cont items =>
      by_cases hm : Gen.C11.mintWhen (Gen.C11.shouldContinue cap (told + bytes sz items)) = true
      · refine ⟨[], s, r, [.token (pos + 1)], rfl, ?_, Or.inr rfl, Or.inl rfl, ?_⟩
        · simp [turn, hps, hm, stepItems_cont hps]
        · simp [ran, hps, hm]
      · have hsc : Gen.C11.shouldContinue cap (told + bytes sz items) = true := by
          simpa [Gen.C11.mintWhen] using hm
        by_cases hrn : r = []
        · subst hrn
          refine ⟨[], s, [], [], rfl, ?_, Or.inl rfl, Or.inl rfl, ?_⟩
          · simp [turn, hps, hm, stepItems_cont hps]
          · simp [ran, hps, hm]
        · obtain ⟨d, l, t, tok, hrest, hturn, htok, hdone, hran⟩ :=
            ih (told + bytes sz items) (pos + 1) hrn
          refine ⟨s :: d, l, t, tok, by simp [hrest], ?_, ?_, Or.inr ?_, ?_⟩
          · simp only [turn, hps, hm]
            simp [hturn, stepItems_cont hps, List.append_assoc]
          · rcases htok with h | h
            · exact Or.inl h
            · refine Or.inr ?_
              rw [h]; simp; omega
          · rcases hdone with h | h
            · subst h; simpa [stepItems_cont hps] using hsc
            · simpa [stepItems_cont hps, bytes_append, Nat.add_assoc] using h
          · simp only [ran, hps, hm]
            simp [hran]; omega
    | done items =>
      refine ⟨[], s, r, [], rfl, ?_, Or.inl rfl, Or.inl rfl, ?_⟩
      · simp [turn, hps, stepItems_done hps]
      · simp [ran, hps]
    | fail items =>
      refine ⟨[], s, r, [], rfl, ?_, Or.inl rfl, Or.inl rfl, ?_⟩
      · simp [turn, hps, stepItems_fail hps]
      · simp [ran, hps]

/-! ### counting responses -/

theorem countTurns_logs (server : Nat → List Item) (fuel : Nat) (ls : List Log) (xs : List Item) :
    countTurns server fuel (logItems ls ++ xs) = countTurns server fuel xs := by
  induction ls with
  | nil => simp [logItems]
  | cons l r ih =>
    simp only [logItems, List.map_cons, List.cons_append] at ih ⊢
    cases fuel <;> simp [countTurns, ih]

theorem countTurns_data (server : Nat → List Item) (fuel : Nat) (b : Batch) (xs : List Item) :
    countTurns server fuel (.data b :: xs) = countTurns server fuel xs := by
  cases fuel <;> simp [countTurns]

theorem countTurns_nil (server : Nat → List Item) (fuel : Nat) : countTurns server fuel [] = 1 := by
  cases fuel <;> simp [countTurns]

theorem countTurns_err (server : Nat → List Item) (fuel : Nat) (e : Exn) (xs : List Item) :
    countTurns server fuel (.err e :: xs) = 1 := by
  cases fuel <;> simp [countTurns]

theorem datasOf_lg (ls : List Log) : datasOf (lg ls) = [] := by
  induction ls with
  | nil => rfl
  | cons l r ih => simp only [lg, List.map_cons] at ih ⊢; simp [ih]

/-- a chain of turns that starts inside the script consumes at most one response per remaining data batch, plus one -/
theorem count_pool (pool : Nat → Option Nat) (sz : Item → Nat) (pre : Nat) (steps : List Step) :
    ∀ (rest : List Step) (pos fuel : Nat) (cap : Option Nat) (sz' : Item → Nat) (told : Nat),
      steps.drop pos = rest → rest.length ≤ fuel →
      countTurns (serve pool sz pre steps) fuel (turn cap sz' told pos rest)
        ≤ (datasOf (producer false rest)).length + 1 := by
  intro rest
  induction rest with
  | nil => intro pos fuel cap sz' told _ _; simp [turn, countTurns_nil]
  | cons s r ih =>
    intro pos fuel cap sz' told hdrop hfuel
    have hr : steps.drop (pos + 1) = r := drop_succ_of_drop steps pos s r hdrop
    simp only [List.length_cons] at hfuel
    cases hact : s.act with
    | emit bt =>
      simp only [turn, processStep, hact, producer]
      rw [List.append_assoc, List.append_assoc, countTurns_logs, List.singleton_append, countTurns_data,
        countTurns_logs]
      have hd : (datasOf (lg s.logs ++ [Ev.data bt] ++ lg s.post ++ producer false r)).length
          = (datasOf (producer false r)).length + 1 := by
        simp [datasOf_append, datasOf_lg]
      rw [hd]
      split
      · obtain ⟨f, rfl⟩ : ∃ f, fuel = f + 1 := ⟨fuel - 1, by omega⟩
        simp only [countTurns]
        have e : serve pool sz pre steps (pos + 1) = turn (pool (pos + 1)) sz pre (pos + 1) r := by
          simp [serve, hr]
        rw [e]
        have := ih (pos + 1) f (pool (pos + 1)) sz pre hr (by omega)
        omega
      · rename_i hno
        have := ih (pos + 1) fuel cap sz' (told + bytes sz' (logItems s.logs ++ [Item.data bt] ++ logItems s.post)) hr (by omega)
        omega
    | finish =>
      simp only [turn, processStep, hact]
      rw [countTurns_logs, ← List.append_nil (logItems s.post), countTurns_logs, countTurns_nil]
      omega
    | emitFinish bt =>
      simp only [turn, processStep, hact]
      rw [List.append_assoc, countTurns_logs, List.singleton_append, countTurns_data,
        ← List.append_nil (logItems s.post), countTurns_logs, countTurns_nil]
      omega
    | raise e =>
      simp only [turn, processStep, hact]
      rw [countTurns_logs, countTurns_err]; omega
    | nothing =>
      simp only [turn, processStep, hact]
      rw [countTurns_logs, countTurns_err]; omega

/-! ### little-endian length prefix -/

theorem leBytes_length (w n : Nat) : (leBytes w n).length = w := by
  induction w generalizing n with
  | zero => rfl
  | succ w ih => simp [leBytes, ih]

theorem leVal_leBytes (w : Nat) : ∀ n, n < 256 ^ w → leVal (leBytes w n) = n := by
  induction w with
  | zero => intro n h; simp at h; simp [leBytes, leVal, h]
  | succ w ih =>
    intro n h
    have h' : n / 256 < 256 ^ w := by
      rw [Nat.div_lt_iff_lt_mul (by decide)]
      rw [Nat.pow_succ] at h; exact h
    simp only [leBytes, leVal, ih _ h']
    have : (UInt8.ofNat (n % 256)).toNat = n % 256 := by
      simp [UInt8.toNat_ofNat']
    rw [this]; omega

/-! ### producers that read their tick -/

theorem resolve_false (rs : List RStep) : resolve false rs = rs.map (·.plain) := by
  cases rs <;> simp [resolve, RStep.play]

/-- within a turn only the first `process()` sees the turn's first tick: the reactive turn is the plain turn on the
resolved script -/
theorem turnT_resolve (cap : Option Nat) (sz : Item → Nat) (rs : List RStep) :
    ∀ tick told pos, turnT cap sz tick told pos rs = turn cap sz told pos (resolve tick rs) := by
  induction rs with
  | nil => intro _ _ _; rfl
  | cons s r ih =>
    intro tick told pos
    simp only [turnT, resolve, turn]
    cases processStep (s.play tick) with
    | cont items =>
      simp only
      rw [ih, show Gen.C11.tickAfterProcess tick = false from rfl, resolve_false]
    | done items => rfl
    | fail items => rfl

theorem serveT_eq (pool : Nat → Option Nat) (sz : Item → Nat) (pre : Nat) (rs : List RStep) :
    serveT pool sz pre rs = serve pool sz pre (rs.map (·.plain)) := by
  funext p
  simp only [serveT, serve, turnT_resolve, show Gen.C11.contFirstTick = false from rfl, resolve_false, List.map_drop]

/-- a first turn whose FIRST step is foreign to the server's script (it was played on another tick): following the
tokens still yields that step and then the server's script from position 1 -/
theorem follow_real_head (pool : Nat → Option Nat) (sz : Item → Nat) (pre : Nat) (steps : List Step)
    (cap : Option Nat) (sz' : Item → Nat) (told fuel : Nat) (s : Step) (h : steps.length + 1 ≤ fuel) :
    Http.follow (serve pool sz pre steps) fuel (turn cap sz' told 0 (s :: steps.drop 1))
      = producer false (s :: steps.drop 1) := by
  have hlen : (steps.drop 1).length ≤ fuel - 1 := by simp; omega
  cases hact : s.act with
  | emit bt =>
    simp only [turn, processStep, hact, producer]
    rw [List.append_assoc, List.append_assoc, follow_logs, List.singleton_append, follow_data, follow_logs]
    split
    · obtain ⟨f, rfl⟩ : ∃ f, fuel = f + 1 := ⟨fuel - 1, by omega⟩
      simp only [Http.follow]
      have e : serve pool sz pre steps (0 + 1) = turn (pool 1) sz pre 1 (steps.drop 1) := by simp [serve]
      rw [e, follow_real pool sz pre steps (pool 1) sz pre 1 f (by simpa using hlen)]
      simp [List.append_assoc]
    · rw [follow_real pool sz pre steps cap sz' _ 1 fuel (by simp; omega)]
      simp [List.append_assoc]
  | finish =>
    simp only [turn, processStep, hact, producer]
    rw [follow_logs, ← List.append_nil (logItems s.post), follow_logs, follow_nil]
    simp [List.append_assoc]
  | emitFinish bt =>
    simp only [turn, processStep, hact, producer]
    rw [List.append_assoc, follow_logs, List.singleton_append, follow_data,
      ← List.append_nil (logItems s.post), follow_logs, follow_nil]
    simp [List.append_assoc]
  | raise e =>
    simp only [turn, processStep, hact, producer, failLogs]
    rw [follow_logs, follow_err]
  | nothing =>
    simp only [turn, processStep, hact, producer, failLogs]
    rw [follow_logs, follow_err]

end Aux

open Aux

/-! ## Property theorems (obligations) -/

/-- the extracted decision, spelled out: no cap ⇒ never continue; cap ⇒ continue while `tell() < cap` -/
theorem decision_shape (cap : Option Nat) (told : Nat) :
    Gen.C11.mintWhen (Gen.C11.shouldContinue cap told) = (match cap with | none => true | some c => decide (c ≤ told)) := by
  cases cap with
  | none => simp [Gen.C11.mintWhen, Gen.C11.shouldContinue]
  | some c =>
    simp only [Gen.C11.mintWhen, Gen.C11.shouldContinue, Option.isSome_some, Bool.true_and]
    by_cases h : told < c
    · simp [h, Nat.not_le.mpr h]
    · simp [h, Nat.not_lt.mp h]

/-- the decision reads the IPC writer's own sink, so `told` is the IPC bytes written under every codec (fix: commit) -/
theorem tell_on_ipc_sink : Gen.C11.tellOnIpcSink = true := by decide

/-- the token is minted after the flush and after the `finished` exit; the mint branch writes the sentinel and breaks -/
theorem loop_order :
    Gen.C11.loopOrder = ["process", "tick_reset", "validate", "ext_preflight", "flush", "finished_break", "decide", "mint", "sentinel", "break"] := by
  decide

/-- **the real turn is an oracle turn**: `_run_http_producer_turn` under cap/sizes is `Engine.Http.turn` under `brkOf` -/
theorem C11_real_turn_refines_oracle (cap : Option Nat) (sz : Item → Nat) (told pos : Nat) (rest : List Step) :
    turn cap sz told pos rest = Http.turn (brkOf cap sz told pos rest) pos rest :=
  turn_is_oracle_turn cap sz rest told pos

/-- **C11 resume**: the continuation for ANY step index, served by ANY pool of workers (each with its own cap),
followed to the end yields exactly the remaining script -/
theorem C11_resume : Spec.ResumeYieldsTheRest := by
  intro pool sz pre steps pos
  exact follow_real pool sz pre steps (pool pos) sz pre pos (steps.length + 1) (by simp; omega)

/-- a token minted by a worker with other caps / measured under other sizes resumes the same way: the first resumed
turn may come from any configuration -/
theorem C11_resume_foreign (pool : Nat → Option Nat) (sz sz' : Item → Nat) (pre told : Nat) (cap : Option Nat)
    (steps : List Step) (pos : Nat) :
    Http.follow (serve pool sz pre steps) (steps.length + 1) (turn cap sz' told pos (steps.drop pos))
      = Sem.producer false (steps.drop pos) :=
  follow_real pool sz pre steps cap sz' told pos (steps.length + 1) (by simp; omega)

/-- **C11 iterate**: open + iterate observes the emitted sequence for all caps, pools and sizes -/
theorem C11_iterate : Spec.IteratesTheEmittedSequence := by
  intro cap0 pool sz pre initLogs steps
  unfold iterate
  rw [assemble_obs (serve pool sz pre steps) (steps.length + 1) (initBody cap0 sz pre initLogs steps)]
  unfold initBody
  rw [follow_logs]
  have := follow_real pool sz pre steps cap0 sz (pre + bytes sz (logItems initLogs)) 0 (steps.length + 1 + 1)
    (by simp; omega)
  simp only [List.drop_zero] at this
  rw [this]

/-- **C11 chunking**: independent of every cap, size and number of turns -/
theorem C11_chunking : Spec.ChunkingIndependent := by
  intro cap0 cap0' pool pool' sz sz' pre pre' initLogs steps
  rw [C11_iterate, C11_iterate]

/-! ### sizes -/

/-- **C11 overshoot**: under cap `c`, a turn that starts with `told` bytes written (schema message, sink logs) stops at
most one step past the cap: its bytes are ≤ max told c + the last step written + the sentinel.  For ALL scripts,
sizes, caps, start positions. -/
theorem C11_overshoot : Spec.OvershootAtMostLastStep := by
  intro c sz told pos rest sentinel hne hs
  obtain ⟨d, l, t, tok, hrest, hturn, htok, hdone, hran⟩ := turn_shape (some c) sz rest told pos hne
  refine ⟨l, ?_, ?_⟩
  · rw [hran, hrest]; simp
  · rw [hturn, bytes_append, bytes_append]
    have htokb : bytes sz tok ≤ sentinel := by
      rcases htok with h | h
      · simp [h, bytes]
      · have := hs (pos + d.length + 1)
        simp [h, bytes]; omega
    have hd : told + bytes sz (d.flatMap stepItems) ≤ max told c := by
      rcases hdone with h | h
      · subst h; simp [bytes]; omega
      · have : told + bytes sz (d.flatMap stepItems) < c := by
          simpa [Gen.C11.shouldContinue] using h
        omega
    unfold wire
    omega

/-- non-vacuity: a concrete capped turn (three 100-byte batches, cap 150, 7-byte sentinel) satisfies the hypotheses; it
runs two steps, hands out the token for position 2 and weighs 207 ≤ 150 + 100 + 7 -/
example :
    let sz : Item → Nat := fun | .data _ => 100 | .token _ => 7 | _ => 0
    let rest : List Step := [⟨[], .emit ⟨1, 1, []⟩, []⟩, ⟨[], .emit ⟨2, 1, []⟩, []⟩, ⟨[], .emit ⟨3, 1, []⟩, []⟩]
    rest ≠ [] ∧ (∀ p, sz (.token p) ≤ 7) ∧ ran (some 150) sz 0 rest = 2 ∧
      turn (some 150) sz 0 0 rest = [.data ⟨1, 1, []⟩, .data ⟨2, 1, []⟩, .token 2] ∧
      0 + bytes sz (turn (some 150) sz 0 0 rest) = 207 := by
  refine ⟨by simp, fun _ => Nat.le_refl _, by decide, by decide, by decide⟩

/-- the looser form quoted in the brief: body ≤ cap + preamble + last step + sentinel -/
theorem C11_overshoot_loose (c : Nat) (sz : Item → Nat) (told pos : Nat) (rest : List Step) (sentinel : Nat)
    (hne : rest ≠ []) (hs : ∀ p, sz (.token p) ≤ sentinel) :
    ∃ last, rest[ran (some c) sz told rest - 1]? = some last ∧
      told + bytes sz (turn (some c) sz told pos rest) ≤ c + told + wire sz last + sentinel := by
  obtain ⟨l, h1, h2⟩ := C11_overshoot c sz told pos rest sentinel hne hs
  exact ⟨l, h1, by omega⟩

/-- **no cap ⇒ break after every batch**: a turn without a cap runs exactly one step -/
theorem C11_nocap_one_step (sz : Item → Nat) (told pos : Nat) (s : Step) (r : List Step) :
    ran none sz told (s :: r) = 1 ∧
    turn none sz told pos (s :: r)
      = stepItems s ++ (match processStep s with | .cont _ => [.token (pos + 1)] | _ => []) := by
  cases hps : processStep s <;>
    simp [ran, turn, hps, stepItems, Gen.C11.mintWhen, Gen.C11.shouldContinue]

/-- **progress**: a token handed out by a turn that started at `pos` points beyond `pos` -/
theorem C11_progress : Spec.TurnsMakeProgress := by
  intro cap sz told pos rest
  induction rest generalizing told pos with
  | nil => intro p h; simp [turn] at h
  | cons s r ih =>
    intro p h
    simp only [turn] at h
    cases hps : processStep s with
    | cont items =>
      simp only [hps, List.mem_append] at h
      rcases h with h | h
      · exact absurd (by simpa [stepItems_cont hps] using h) (no_token_in_step s p)
      · split at h
        · simp at h; omega
        · have := ih _ _ p h; omega
    | done items =>
      simp only [hps] at h
      exact absurd (by simpa [stepItems_done hps] using h) (no_token_in_step s p)
    | fail items =>
      simp only [hps] at h
      exact absurd (by simpa [stepItems_fail hps] using h) (no_token_in_step s p)

/-- every turn over a non-empty rest runs at least one step and at most the rest -/
theorem C11_ran_bounds (cap : Option Nat) (sz : Item → Nat) (told : Nat) (rest : List Step) (hne : rest ≠ []) :
    1 ≤ ran cap sz told rest ∧ ran cap sz told rest ≤ rest.length := by
  obtain ⟨d, l, t, tok, hrest, _, _, _, hran⟩ := turn_shape cap sz rest told 0 hne
  rw [hran, hrest]; simp

/-- **number of turns**: a client consumes at most (number of data batches emitted) + 1 responses -/
theorem C11_turn_count : Spec.TurnsBoundedByBatches := by
  intro cap0 pool sz pre initLogs steps
  unfold initBody
  rw [countTurns_logs]
  exact count_pool pool sz pre steps steps 0 (steps.length + 1) cap0 sz _ (by simp) (by omega)

/-! ### producers that read their tick -/

/-- what `process()` receives, from the source: the tick is reset to the empty `_TICK_BATCH` right after every call, the
`/init` turn starts with the request's metadata, a continuation turn with the empty tick -/
theorem tick_shape :
    (∀ t, Gen.C11.tickAfterProcess t = false) ∧ Gen.C11.initFirstTick = true ∧ Gen.C11.contFirstTick = false := by
  refine ⟨fun _ => rfl, rfl, rfl⟩

/-- **only the first call of a turn sees the turn's first tick**, for every cap, sizes and reactive script -/
theorem C11_tick_only_first (cap : Option Nat) (sz : Item → Nat) (rs : List RStep) (tick : Bool) (told pos : Nat) :
    turnT cap sz tick told pos rs = turn cap sz told pos (resolve tick rs) :=
  turnT_resolve cap sz rs tick told pos

/-- **C11 resume, reactive producers**: every resumed call sees the empty tick, on any pool of workers -/
theorem C11_resume_reactive : Spec.ReactiveResumeYieldsTheRest := by
  intro pool sz pre rs pos
  rw [serveT_eq]
  have := C11_resume pool sz pre (rs.map (·.plain)) pos
  simpa using this

/-- **C11 iterate, reactive producers**: whatever the caps (hence wherever the turn boundaries fall) the client observes
the one run in which exactly the stream's first `process()` saw the init request's metadata -/
theorem C11_iterate_reactive : Spec.ReactiveIteratesOneRun := by
  intro cap0 pool sz pre initLogs rs
  unfold iterateT
  rw [serveT_eq, assemble_obs (serve pool sz pre (rs.map (·.plain))) (rs.length + 1) (initBodyT cap0 sz pre initLogs rs)]
  unfold initBodyT
  rw [follow_logs, turnT_resolve, show Gen.C11.initFirstTick = true from rfl]
  cases rs with
  | nil => simp [resolve, turn, producer, follow_nil]
  | cons s r =>
    have e : resolve true (s :: r) = s.play true :: ((s :: r).map (·.plain)).drop 1 := by simp [resolve]
    rw [e, follow_real_head pool sz pre ((s :: r).map (·.plain)) cap0 sz _ _ (s.play true) (by simp)]

/-- independent of every cap, size and number of turns -/
theorem C11_chunking_reactive (cap0 cap0' : Option Nat) (pool pool' : Nat → Option Nat) (sz sz' : Item → Nat)
    (pre pre' : Nat) (initLogs : List Log) (rs : List RStep) :
    obs (iterateT cap0 pool sz pre initLogs rs) = obs (iterateT cap0' pool' sz' pre' initLogs rs) := by
  rw [C11_iterate_reactive, C11_iterate_reactive]

/-! ### `next_with_token` -/

theorem nwtScan_logs (ls : List Log) (xs : List Item) : nwtScan (logItems ls ++ xs) = nwtScan xs := by
  induction ls with
  | nil => simp [logItems]
  | cons l r ih => simp only [logItems, List.map_cons, List.cons_append, nwtScan] at ih ⊢; exact ih

/-- the end-of-stream test asks "was a data batch read", not "is it non-empty" -/
theorem nwt_end_test (rows : Nat) : Gen.C11.nwtEndOfStream true rows = false ∧ Gen.C11.nwtEndOfStream false rows = true := by
  exact ⟨rfl, rfl⟩

/-- **`next_with_token` on a per-batch response** (worker without a cap): a step that emits batch `b` — with ANY number of
rows, zero included — is returned as `(b, token for the next position)`; emit+finish as `(b, no token)` -/
theorem C11_nwt_one_step (sz : Item → Nat) (told pos : Nat) (s : Step) (r : List Step) (b : Batch) :
    (s.act = .emit b → nwtRead (turn none sz told pos (s :: r)) = some (b, some (pos + 1))) ∧
    (s.act = .emitFinish b → nwtRead (turn none sz told pos (s :: r)) = some (b, none)) := by
  constructor
  · intro h
    simp only [nwtRead, turn, processStep, h, Gen.C11.mintWhen, Gen.C11.shouldContinue, Option.isSome_none, Bool.false_and,
      Bool.not_false, if_true]
    rw [List.append_assoc, List.append_assoc, nwtScan_logs]
    simp only [List.singleton_append, nwtScan]
    rw [nwtScan_logs]
    simp [nwtScan, (nwt_end_test b.rows).1]
  · intro h
    simp only [nwtRead, turn, processStep, h]
    rw [List.append_assoc, nwtScan_logs]
    simp only [List.singleton_append, nwtScan]
    rw [← List.append_nil (logItems s.post), nwtScan_logs]
    simp [nwtScan, (nwt_end_test b.rows).1]

/-- non-vacuity / the case the truthiness test got wrong: an empty page is a batch like any other -/
example : nwtRead (turn none (fun _ => 1) 0 4 [⟨[], .emit ⟨0, 0, []⟩, []⟩, ⟨[], .finish, []⟩]) = some (⟨0, 0, []⟩, some 5) := by
  decide

/-! ### token age across workers -/

/-- **clock skew between workers does not expire a token**: a token is refused for its age only when it is OLDER than the
ttl — in particular never when the serving worker's clock is behind the minting worker's (negative age) -/
theorem token_age_tolerates_skew (age : Int) (ttl : Nat) :
    Gen.C11.tokenRefusedByAge age ttl = true ↔ age > (ttl : Int) := by
  simp [Gen.C11.tokenRefusedByAge]

example : Gen.C11.tokenRefusedByAge (-3) 3600 = false ∧ Gen.C11.tokenRefusedByAge 3601 3600 = true := by decide

/-! ### resume blob -/

/-- **C11 resume token round trip**, for ALL byte strings whose length fits the prefix; a `None` call token and an empty
one are the same blob (empty tail) and come back as `None` -/
theorem C11_resume_token_rt : Spec.ResumeTokenRoundTrip := by
  intro state call hlen
  refine ⟨leBytes Gen.C11.lenWidth state.length ++ state ++ call.getD [], by simp [encodeResume, hlen], ?_⟩
  have hw : (leBytes Gen.C11.lenWidth state.length).length = 4 := leBytes_length _ _
  have hv := leVal_leBytes Gen.C11.lenWidth state.length hlen
  unfold decodeResume
  have hshort : Gen.C11.tooShort (leBytes Gen.C11.lenWidth state.length ++ state ++ call.getD []).length = false := by
    simp [Gen.C11.tooShort, hw]
  have takeLeft : ∀ (a b : Bytes) (n : Nat), a.length = n → (a ++ b).take n = a := by
    intro a b n h; subst h; simp
  have htake : (leBytes Gen.C11.lenWidth state.length ++ state ++ call.getD []).take Gen.C11.lenWidth
      = leBytes Gen.C11.lenWidth state.length := by
    rw [List.append_assoc]
    exact takeLeft _ _ _ (leBytes_length _ _)
  simp only [hshort, htake, hv, Bool.false_eq_true, if_false]
  have hover : Gen.C11.overruns (Gen.C11.payloadStart + state.length)
      (leBytes Gen.C11.lenWidth state.length ++ state ++ call.getD []).length = false := by
    simp [Gen.C11.overruns, Gen.C11.payloadStart, hw]
  simp only [hover, Bool.false_eq_true, if_false]
  have hsplit : leBytes Gen.C11.lenWidth state.length ++ state ++ call.getD []
      = (leBytes Gen.C11.lenWidth state.length ++ state) ++ call.getD [] := rfl
  have hlen2 : (leBytes Gen.C11.lenWidth state.length ++ state).length = Gen.C11.payloadStart + state.length := by
    simp [hw, Gen.C11.payloadStart]
  have hdrop : (leBytes Gen.C11.lenWidth state.length ++ state ++ call.getD []).drop
      (Gen.C11.payloadStart + state.length) = call.getD [] := by
    rw [hsplit, ← hlen2, List.drop_left]
  have htk : (leBytes Gen.C11.lenWidth state.length ++ state ++ call.getD []).take
      (Gen.C11.payloadStart + state.length) = leBytes Gen.C11.lenWidth state.length ++ state := by
    rw [hsplit, ← hlen2, List.take_left]
  have hpay : (leBytes Gen.C11.lenWidth state.length ++ state).drop Gen.C11.payloadStart = state := by
    have : Gen.C11.payloadStart = (leBytes Gen.C11.lenWidth state.length).length := by simp [hw, Gen.C11.payloadStart]
    rw [this, List.drop_left]
  rw [hdrop, htk, hpay]
  cases call with
  | none => simp [normCall]
  | some c => cases c <;> simp [normCall]

/-- encoding fails exactly when the state does not fit the length prefix (`struct.error`) -/
theorem C11_resume_token_encode_total (state : Bytes) (call : Option Bytes) :
    (∃ t, encodeResume state call = .ok t) ↔ state.length < 256 ^ Gen.C11.lenWidth := by
  unfold encodeResume
  split <;> simp_all

/-- non-vacuity: an 11-byte cursor with and without call token -/
example : decodeResume ((encodeResume [1, 2, 3] (some [9])).toOption.getD []) = .ok ([1, 2, 3], some [9]) := by rfl
example : decodeResume ((encodeResume [1, 2, 3] none).toOption.getD []) = .ok ([1, 2, 3], none) := by rfl
example : decodeResume [5, 0, 0, 0, 1] = .error .overrun := by rfl
example : decodeResume [5, 0, 0] = .error .tooShort := by rfl

end VgiVerif.C11
