import VgiVerif.Spec.Engine
/-
Engine refinement theorems: every transport model delivers what `Sem` says (as built: `keepFailLogs = false`),
for ALL step scripts, init logs and — over HTTP — ALL break decisions (hence all `max_response_bytes`, codecs and
numbers of continuation turns).  Helper lemmas in `Aux`; property theorems at the bottom.
-/
namespace VgiVerif.Engine
open Sem

namespace Aux

/-! ### reading -/

theorem read_logs (ls : List Log) (xs : List Item) :
    readUntilData (logItems ls ++ xs) = (lg ls ++ (readUntilData xs).1, (readUntilData xs).2) := by
  induction ls with
  | nil => simp [logItems, lg]
  | cons l r ih =>
    simp only [logItems, List.map_cons, List.cons_append, readUntilData, lg] at ih ⊢
    rw [ih]

theorem read_logs_data (ls : List Log) (b : Batch) (xs : List Item) :
    readUntilData (logItems ls ++ (.data b :: xs)) = (lg ls ++ [.data b], .gotData xs) := by
  rw [read_logs]; simp [readUntilData]

theorem read_logs_err (ls : List Log) (e : Exn) (xs : List Item) :
    readUntilData (logItems ls ++ (.err e :: xs)) = (lg ls ++ [errEv e], .raised) := by
  rw [read_logs]; simp [readUntilData]

theorem read_logs_only (ls : List Log) : readUntilData (logItems ls) = (lg ls, .eos) := by
  have := read_logs ls []
  simpa [readUntilData] using this

theorem logItems_append (a b : List Log) : logItems (a ++ b) = logItems a ++ logItems b := by
  simp [logItems]

theorem lg_append (a b : List Log) : lg (a ++ b) = lg a ++ lg b := by simp [lg]

theorem drainLogs_logs (ls : List Log) : drainLogs (logItems ls) = lg ls := by
  induction ls with
  | nil => rfl
  | cons l r ih => simp only [logItems, List.map_cons, drainLogs, lg] at ih ⊢; rw [ih]

theorem regroup (c a p : List Log) (b : Batch) :
    logItems c ++ (logItems a ++ [Item.data b] ++ logItems p) = logItems (c ++ a) ++ (Item.data b :: logItems p) := by
  simp [logItems]

theorem regroup_err (c a : List Log) (e : Exn) :
    logItems c ++ (logItems a ++ [Item.err e]) = logItems (c ++ a) ++ (Item.err e :: []) := by
  simp [logItems]

theorem regroup_err2 (c a p : List Log) (e : Exn) :
    logItems c ++ (logItems a ++ logItems p ++ [Item.err e]) = logItems (c ++ a ++ p) ++ (Item.err e :: []) := by
  simp [logItems]

@[simp] theorem logsOf_cons_log (l : Log) (a : List Ev) : logsOf (.log l :: a) = l :: logsOf a := rfl
@[simp] theorem datasOf_cons_log (l : Log) (a : List Ev) : datasOf (.log l :: a) = datasOf a := rfl
@[simp] theorem restOf_cons_log (l : Log) (a : List Ev) : restOf (.log l :: a) = restOf a := rfl
@[simp] theorem logsOf_cons_data (b : Batch) (a : List Ev) : logsOf (.data b :: a) = logsOf a := rfl
@[simp] theorem datasOf_cons_data (b : Batch) (a : List Ev) : datasOf (.data b :: a) = b :: datasOf a := rfl
@[simp] theorem restOf_cons_data (b : Batch) (a : List Ev) : restOf (.data b :: a) = restOf a := rfl
@[simp] theorem logsOf_nil : logsOf [] = [] := rfl
@[simp] theorem datasOf_nil : datasOf [] = [] := rfl
@[simp] theorem restOf_nil : restOf [] = [] := rfl

/-! ### pipe producer: the unread carry is always a run of log batches -/

theorem pipe_iterate (c : List Log) (steps : List Step) :
    Pipe.iterate (logItems c) steps = lg c ++ producer false steps := by
  induction steps generalizing c with
  | nil => simp [Pipe.iterate, producer, read_logs_only]
  | cons s r ih =>
    cases hact : s.act with
    | emit b =>
      simp only [Pipe.iterate, processStep, hact, producer]
      rw [regroup, read_logs_data]
      simp only [ih, lg_append, List.append_assoc]
    | finish =>
      simp only [Pipe.iterate, processStep, hact, producer]
      rw [← logItems_append, ← logItems_append, read_logs_only]
      simp [lg_append]
    | emitFinish b =>
      simp only [Pipe.iterate, processStep, hact, producer]
      rw [regroup, read_logs_data]
      simp only [read_logs_only, lg_append, List.append_assoc]
    | raise e =>
      simp only [Pipe.iterate, processStep, hact, producer, failLogs]
      rw [regroup_err, read_logs_err]
      simp [lg_append]
    | nothing =>
      simp only [Pipe.iterate, processStep, hact, producer, failLogs]
      rw [regroup_err, read_logs_err]
      simp [lg_append]

theorem pipe_exchange (c : List Log) (steps : List Step) :
    Pipe.exchangeAll (logItems c) steps = lg c ++ exchange false steps := by
  induction steps generalizing c with
  | nil => simp [Pipe.exchangeAll, exchange, drainLogs_logs]
  | cons s r ih =>
    cases hact : s.act with
    | emit b =>
      simp only [Pipe.exchangeAll, Pipe.exchangeOne, processExchangeStep, processStep, hact, exchange]
      rw [regroup, read_logs_data]
      simp only [ih, lg_append, List.append_assoc]
    | finish =>
      simp only [Pipe.exchangeAll, Pipe.exchangeOne, processExchangeStep, hact, exchange, failLogs]
      rw [regroup_err2, read_logs_err]; simp [lg_append]
    | emitFinish b =>
      simp only [Pipe.exchangeAll, Pipe.exchangeOne, processExchangeStep, hact, exchange, failLogs]
      rw [regroup_err2, read_logs_err]; simp [lg_append]
    | raise e =>
      simp only [Pipe.exchangeAll, Pipe.exchangeOne, processExchangeStep, processStep, hact, exchange, failLogs]
      rw [regroup_err, read_logs_err]; simp [lg_append]
    | nothing =>
      simp only [Pipe.exchangeAll, Pipe.exchangeOne, processExchangeStep, processStep, hact, exchange, failLogs]
      rw [regroup_err, read_logs_err]; simp [lg_append]

/-! ### HTTP: following continuation tokens -/

theorem follow_logs (server : Nat → List Item) (fuel : Nat) (ls : List Log) (xs : List Item) :
    Http.follow server fuel (logItems ls ++ xs) = lg ls ++ Http.follow server fuel xs := by
  induction ls with
  | nil => simp [logItems, lg]
  | cons l r ih =>
    simp only [logItems, List.map_cons, List.cons_append, lg] at ih ⊢
    cases fuel <;> simp [Http.follow, ih]

theorem follow_data (server : Nat → List Item) (fuel : Nat) (b : Batch) (xs : List Item) :
    Http.follow server fuel (.data b :: xs) = .data b :: Http.follow server fuel xs := by
  cases fuel <;> simp [Http.follow]

theorem follow_nil (server : Nat → List Item) (fuel : Nat) : Http.follow server fuel [] = [.fin] := by
  cases fuel <;> simp [Http.follow]

theorem follow_err (server : Nat → List Item) (fuel : Nat) (e : Exn) (xs : List Item) :
    Http.follow server fuel (.err e :: xs) = [errEv e] := by
  cases fuel <;> simp [Http.follow]

theorem drop_succ_of_drop {α : Type} (l : List α) (pos : Nat) (s : α) (r : List α)
    (h : l.drop pos = s :: r) : l.drop (pos + 1) = r := by
  have : l.drop (pos + 1) = (l.drop pos).drop 1 := by
    rw [List.drop_drop]
  rw [this, h]; rfl

/-- The heart of C11: whatever the break decisions, a continuation turn resumed at step `pos` followed to the end
delivers exactly the remaining script — the token minted after step `pos` carries `pos + 1`. -/
theorem follow_turn (brk : Nat → Bool) (steps : List Step) :
    ∀ (rest : List Step) (pos fuel : Nat), steps.drop pos = rest → rest.length ≤ fuel →
      Http.follow (Http.serveContinuation brk steps) fuel (Http.turn brk pos rest) = producer false rest := by
  intro rest
  induction rest with
  | nil => intro pos fuel _ _; simp [Http.turn, producer, follow_nil]
  | cons s r ih =>
    intro pos fuel hdrop hfuel
    have hr : steps.drop (pos + 1) = r := drop_succ_of_drop steps pos s r hdrop
    simp only [List.length_cons] at hfuel
    cases hact : s.act with
    | emit b =>
      simp only [Http.turn, processStep, hact, producer]
      rw [List.append_assoc, List.append_assoc, follow_logs, List.singleton_append, follow_data, follow_logs]
      cases hb : brk pos with
      | true =>
        simp only [if_true]
        obtain ⟨f, rfl⟩ : ∃ f, fuel = f + 1 := ⟨fuel - 1, by omega⟩
        simp only [Http.follow]
        have e : Http.serveContinuation brk steps (pos + 1) = Http.turn brk (pos + 1) r := by
          simp [Http.serveContinuation, hr]
        rw [e, ih (pos + 1) f hr (by omega)]
        simp [List.append_assoc]
      | false =>
        simp only [Bool.false_eq_true, if_false]
        rw [ih (pos + 1) fuel hr (by omega)]
        simp [List.append_assoc]
    | finish =>
      simp only [Http.turn, processStep, hact, producer]
      rw [follow_logs, ← List.append_nil (logItems s.post), follow_logs, follow_nil]
      simp [List.append_assoc]
    | emitFinish b =>
      simp only [Http.turn, processStep, hact, producer]
      rw [List.append_assoc, follow_logs, List.singleton_append, follow_data,
        ← List.append_nil (logItems s.post), follow_logs, follow_nil]
      simp [List.append_assoc]
    | raise e =>
      simp only [Http.turn, processStep, hact, producer, failLogs]
      rw [follow_logs, follow_err]
    | nothing =>
      simp only [Http.turn, processStep, hact, producer, failLogs]
      rw [follow_logs, follow_err]

/-! ### HTTP: the eager parse of the init body only regroups events (logs first, pending data next) -/

theorem logsOf_append (a b : List Ev) : logsOf (a ++ b) = logsOf a ++ logsOf b := by
  simp [logsOf, List.filterMap_append]
theorem datasOf_append (a b : List Ev) : datasOf (a ++ b) = datasOf a ++ datasOf b := by
  simp [datasOf, List.filterMap_append]
theorem restOf_append (a b : List Ev) : restOf (a ++ b) = restOf a ++ restOf b := by
  simp [restOf, List.filter_append]

theorem obs_cons_log (l : Log) (a b : List Ev) (h : obs a = obs b) : obs (.log l :: a) = obs (.log l :: b) := by
  have h1 : logsOf a = logsOf b := congrArg Obs.logs h
  have h2 : datasOf a = datasOf b := congrArg Obs.datas h
  have h3 : restOf a = restOf b := congrArg Obs.rest h
  simp [obs, h1, h2, h3]

theorem parse_evs_logs (xs : List Item) :
    datasOf (Http.parseInit xs).evs = [] ∧ restOf (Http.parseInit xs).evs = [] := by
  induction xs with
  | nil => simp [Http.parseInit]
  | cons x r ih =>
    cases x with
    | log l => simp only [Http.parseInit, datasOf_cons_log, restOf_cons_log]; exact ih
    | data b => simp only [Http.parseInit]; exact ih
    | err e => simp [Http.parseInit]
    | token p => simp [Http.parseInit]

/-- parsing eagerly and reassembling observes the same as reading the body lazily, whatever follows a token -/
theorem assemble_obs (server : Nat → List Item) (fuel : Nat) (xs : List Item) :
    obs (Http.assemble (Http.parseInit xs) (fun pos => Http.follow server fuel (server pos)))
      = obs (Http.follow server (fuel + 1) xs) := by
  induction xs with
  | nil => simp [Http.parseInit, Http.assemble, Http.follow]
  | cons x r ih =>
    cases x with
    | log l =>
      simp only [Http.parseInit, Http.follow]
      have : Http.assemble { Http.parseInit r with evs := Ev.log l :: (Http.parseInit r).evs }
            (fun pos => Http.follow server fuel (server pos))
          = Ev.log l :: Http.assemble (Http.parseInit r) (fun pos => Http.follow server fuel (server pos)) := by
        simp [Http.assemble]
      rw [this]
      exact obs_cons_log l _ _ ih
    | data b =>
      simp only [Http.parseInit, Http.follow]
      obtain ⟨hd, hr⟩ := parse_evs_logs r
      have i1 := congrArg Obs.logs ih
      have i2 := congrArg Obs.datas ih
      have i3 := congrArg Obs.rest ih
      simp only [obs, Http.assemble, logsOf_append, datasOf_append, restOf_append, hd, hr, List.nil_append] at i1 i2 i3
      simp only [obs, Http.assemble, List.map_cons, logsOf_append, datasOf_append, restOf_append, hd, hr,
        List.nil_append, logsOf_cons_data, datasOf_cons_data, restOf_cons_data, List.cons_append, Obs.mk.injEq]
      exact ⟨i1, by rw [i2], i3⟩
    | err e => simp [Http.parseInit, Http.assemble, Http.follow]
    | token p => simp [Http.parseInit, Http.assemble, Http.follow]

/-! ### HTTP exchange -/

theorem trailing_logs (ls : List Log) : Http.trailing (logItems ls) = lg ls := by
  induction ls with
  | nil => rfl
  | cons l r ih => simp only [logItems, List.map_cons, Http.trailing, lg] at ih ⊢; rw [ih]

theorem readExchange_logs (ls : List Log) (xs : List Item) :
    Http.readExchange (logItems ls ++ xs) = (lg ls ++ (Http.readExchange xs).1, (Http.readExchange xs).2) := by
  induction ls with
  | nil => simp [logItems, lg]
  | cons l r ih =>
    simp only [logItems, List.map_cons, List.cons_append, Http.readExchange, lg] at ih ⊢
    rw [ih]

theorem obs_append_congr (a b c d : List Ev) (h1 : obs a = obs b) (h2 : obs c = obs d) :
    obs (a ++ c) = obs (b ++ d) := by
  have := congrArg Obs.logs h1; have := congrArg Obs.datas h1; have := congrArg Obs.rest h1
  have := congrArg Obs.logs h2; have := congrArg Obs.datas h2; have := congrArg Obs.rest h2
  simp_all [obs, logsOf_append, datasOf_append, restOf_append]

theorem obs_swap_data (a p : List Log) (b : Batch) :
    obs (lg a ++ (lg p ++ [Ev.data b])) = obs (lg a ++ [Ev.data b] ++ lg p) := by
  have hl : ∀ ls : List Log, logsOf (lg ls) = ls ∧ datasOf (lg ls) = [] ∧ restOf (lg ls) = [] := by
    intro ls
    induction ls with
    | nil => simp [lg]
    | cons l r ih => simp only [lg, List.map_cons] at ih ⊢; simp [ih]
  simp [obs, logsOf_append, datasOf_append, restOf_append, hl]

theorem http_exchange (steps : List Step) : obs (Http.exchangeAll steps) = obs (exchange false steps) := by
  induction steps with
  | nil => rfl
  | cons s r ih =>
    cases hact : s.act with
    | emit b =>
      simp only [Http.exchangeAll, Http.exchangeOne, processExchangeStep, processStep, hact, exchange]
      rw [List.append_assoc, readExchange_logs]
      simp only [List.singleton_append, Http.readExchange, trailing_logs]
      exact obs_append_congr _ _ _ _ (obs_swap_data _ _ _) ih
    | finish =>
      simp only [Http.exchangeAll, Http.exchangeOne, processExchangeStep, hact, exchange, failLogs]
      rw [List.append_assoc, readExchange_logs, readExchange_logs]
      simp [Http.readExchange, List.append_assoc]
    | emitFinish b =>
      simp only [Http.exchangeAll, Http.exchangeOne, processExchangeStep, hact, exchange, failLogs]
      rw [List.append_assoc, readExchange_logs, readExchange_logs]
      simp [Http.readExchange, List.append_assoc]
    | raise e =>
      simp only [Http.exchangeAll, Http.exchangeOne, processExchangeStep, processStep, hact, exchange, failLogs]
      rw [readExchange_logs]
      simp [Http.readExchange]
    | nothing =>
      simp only [Http.exchangeAll, Http.exchangeOne, processExchangeStep, processStep, hact, exchange, failLogs]
      rw [readExchange_logs]
      simp [Http.readExchange]

end Aux

open Aux

/-! ## Property theorems (obligations) -/

/-- unary call, socket family and HTTP: logs in order, then the value or the error -/
theorem unary_refines (logs : List Log) (out : Except Exn Nat) :
    Pipe.unaryObs logs out = Sem.unary logs out ∧ Http.unaryObs logs out = Sem.unary logs out := by
  have h : Pipe.unaryObs logs out = Sem.unary logs out := by
    cases out with
    | ok v => simp [Pipe.unaryObs, Pipe.unaryItems, Sem.unary, read_logs_only]
    | error e =>
      simp only [Pipe.unaryObs, Pipe.unaryItems, Sem.unary]
      rw [read_logs_err]
  exact ⟨h, h⟩

/-- socket family, producer iterated to the end: the client's event sequence IS the emitted sequence (exact order),
for every step script and every init-log list -/
theorem pipe_producer_refines (initLogs : List Log) (steps : List Step) :
    Pipe.iterate (logItems initLogs) steps = lg initLogs ++ Sem.producer false steps :=
  pipe_iterate initLogs steps

/-- socket family, exchange session: one output per input, finish refused, trailing logs delivered at close -/
theorem pipe_exchange_refines (initLogs : List Log) (steps : List Step) :
    Pipe.exchangeAll (logItems initLogs) steps = lg initLogs ++ Sem.exchange false steps :=
  pipe_exchange initLogs steps

/-- **C11 resume**: a continuation resumed at ANY step index, on any worker (the server function depends only on the
script and the token), under ANY break decisions, yields exactly the remaining script -/
theorem http_resume (brk : Nat → Bool) (steps : List Step) (pos : Nat) :
    Http.follow (Http.serveContinuation brk steps) (steps.length + 1) (Http.serveContinuation brk steps pos)
      = Sem.producer false (steps.drop pos) := by
  unfold Http.serveContinuation
  exact follow_turn brk steps (steps.drop pos) pos (steps.length + 1) rfl (by simp; omega)

/-- HTTP producer, open + iterate to the end: same logs (in order), same data batches (in order), same terminal event
as the emitted sequence — for every break-decision function, i.e. every cap, codec and number of turns -/
theorem http_producer_refines (brk : Nat → Bool) (initLogs : List Log) (steps : List Step) :
    obs (Http.iterate brk initLogs steps) = obs (lg initLogs ++ Sem.producer false steps) := by
  unfold Http.iterate
  have h := assemble_obs (Http.serveContinuation brk steps) (steps.length + 1) (Http.initBody brk initLogs steps)
  rw [h]
  unfold Http.initBody
  rw [follow_logs]
  have := follow_turn brk steps steps 0 (steps.length + 1 + 1) (by simp) (by omega)
  rw [this]

/-- **C11 chunking**: the observation is independent of the break decisions -/
theorem http_chunking_independent (brk₁ brk₂ : Nat → Bool) (initLogs : List Log) (steps : List Step) :
    obs (Http.iterate brk₁ initLogs steps) = obs (Http.iterate brk₂ initLogs steps) := by
  rw [http_producer_refines, http_producer_refines]

/-- **C01 (streams)**: what a client observes of a producer is the same on the socket family and on HTTP under
every cap / codec / turn count -/
theorem C01_producer (brk : Nat → Bool) (initLogs : List Log) (steps : List Step) :
    obs (Http.iterate brk initLogs steps) = obs (Pipe.iterate (logItems initLogs) steps) := by
  rw [http_producer_refines, pipe_producer_refines]

/-- HTTP exchange session: same logs, same outputs (one per input), same error as the emitted sequence -/
theorem http_exchange_refines (steps : List Step) :
    obs (Http.exchangeAll steps) = obs (Sem.exchange false steps) := http_exchange steps

/-- **C01 (exchange)**: socket family and HTTP agree on an exchange session -/
theorem C01_exchange (steps : List Step) :
    obs (Http.exchangeAll steps) = obs (Pipe.exchangeAll [] steps) := by
  have := pipe_exchange_refines [] steps
  simp only [logItems, List.map_nil, lg, List.nil_append] at this
  rw [http_exchange_refines, this]

/-- As built equals as specified (historically: whenever no failing step has logged — the C08 gap, now repaired) -/
theorem producer_asBuilt_eq_spec (steps : List Step) (_h : FailStepsLogFree steps) :
    Sem.producer false steps = Sem.producer true steps := by
  induction steps with
  | nil => rfl
  | cons s r ih =>
    have hr : FailStepsLogFree r := fun x hx => _h x (by simp [hx])
    cases hact : s.act <;> simp [producer, hact, failLogs, ih hr]

/-- since the repair the hypothesis is not needed: as built IS as specified -/
theorem producer_asBuilt_eq_spec' (steps : List Step) : Sem.producer false steps = Sem.producer true steps := by
  induction steps with
  | nil => rfl
  | cons s r ih => cases hact : s.act <;> simp [producer, hact, failLogs, ih]

end VgiVerif.Engine
